(* C13 -- Pattern conversions preserve the quadratic form; the QUBO container is consistent.
   Property theorems only; the model is theories/Qubo.v, the proofs theories/Qubo_facts.v.

   Generic statements over a commutative ring K with half, quarter ((1+1)*half = 1,
   (1+1+(1+1))*quarter = 1), every size n, every matrix, and -- for the two conversions and the
   container's QUBO side -- EVERY vector x (not only binary ones).  Instances at Qc (axiom-free)
   and at R (stdlib real-number axioms), one `exact` each. *)
From Coq Require Import List String QArith Qcanon Reals.
From VQ Require Import Base LinAlg Qubo Qubo_facts.
Import ListNotations.
(* one line per axiom in the Print Assumptions output (the evidence parser reads `name : type` lines) *)
Set Printing Width 400.

Section C13.
  Variables (K : Type) (k0 k1 : K) (kadd kmul ksub : K -> K -> K) (kopp : K -> K).
  Hypothesis Kring : ring_theory k0 k1 kadd kmul ksub kopp (@eq K).
  Variables (half quarter : K).
  Hypothesis Hhalf : kmul (two K k1 kadd) half = k1.
  Hypothesis Hquarter : kmul (four K k1 kadd) quarter = k1.

  Notation vec := (LinAlg.vec K).
  Notation mat := (LinAlg.mat K).
  Notation binary := (LinAlg.binary K k0 k1).
  Notation qf := (LinAlg.qf K k0 kadd kmul).
  Notation x2s := (Qubo.x2s K k1 kadd kmul ksub).
  Notation eQ := (Qubo.eQ K k0 kadd kmul).
  Notation eI := (Qubo.eI K k0 kadd kmul).
  Notation upper := (Qubo.upper K k0 kadd ksub).
  Notation sym := (Qubo.sym K kadd kmul half).
  Notation cQ := (Qubo.cQ K k0 kadd kmul ksub half).
  Notation cJ := (Qubo.cJ K k0 kadd kmul ksub half quarter).
  Notation ch := (Qubo.ch K k0 kadd kmul ksub kopp half quarter).
  Notation cc := (Qubo.cc K k0 kadd kmul ksub half quarter).

  (* to_upper_triangular: same quadratic form at EVERY vector; zero below the diagonal; the
     diagonal is kept and the entry above the diagonal collects both mirror entries *)
  Theorem C13_upper : forall (n : nat) (M : mat) (x : vec) (i j : nat),
    qf n (upper M) x = qf n M x /\
    ((j < i)%nat -> upper M i j = k0) /\
    upper M i i = M i i /\
    ((i < j)%nat -> upper M i j = kadd (M i j) (M j i)).
  Proof.
    intros n M x i j. split; [|split; [|split]].
    - exact (upper_qf K k0 k1 kadd kmul ksub kopp Kring n M x).
    - exact (upper_below K k0 k1 kadd kmul ksub kopp Kring M i j).
    - exact (upper_diag K k0 k1 kadd kmul ksub kopp Kring M i).
    - exact (upper_above K k0 k1 kadd kmul ksub kopp Kring M i j).
  Qed.

  (* to_symmetric: same quadratic form at EVERY vector; the result is symmetric *)
  Theorem C13_sym : forall (n : nat) (M : mat) (x : vec) (i j : nat),
    qf n (sym M) x = qf n M x /\ sym M i j = sym M j i.
  Proof.
    intros n M x i j. split.
    - exact (sym_qf K k0 k1 kadd kmul ksub kopp Kring half Hhalf n M x).
    - exact (sym_symmetric K k0 k1 kadd kmul ksub kopp Kring half M i j).
  Qed.

  (* the container, for each of the three pattern classes p:
     its QUBO value and its Ising value (at the spin image) equal the ORIGINAL x'Mx + c for
     every binary x; J has a zero diagonal and the pattern of Q *)
  Theorem C13_container : forall (n : nat) (p : pattern) (M : mat) (c : K) (x : vec),
    binary n x ->
    eQ n (cQ p M) c x = eQ n M c x /\
    eI n (cJ p M) (ch n p M) (cc n p M c) (x2s x) = eQ n M c x /\
    (forall i, cJ p M i i = k0) /\
    match p with
    | PUpper => forall i j, ((j < i)%nat -> cQ p M i j = k0) /\ ((j <= i)%nat -> cJ p M i j = k0)
    | PSym => forall i j, cQ p M i j = cQ p M j i /\ cJ p M i j = cJ p M j i
    | POther => forall i j, cQ p M i j = M i j /\ (i <> j -> cJ p M i j = kmul quarter (M i j))
    end.
  Proof. exact (container_consistent K k0 k1 kadd kmul ksub kopp Kring half quarter Hhalf Hquarter). Qed.

  (* the QUBO side even at every (not necessarily binary) vector *)
  Theorem C13_container_qubo_all_vectors : forall (n : nat) (p : pattern) (M : mat) (c : K) (x : vec),
    eQ n (cQ p M) c x = eQ n M c x.
  Proof. exact (container_qubo K k0 k1 kadd kmul ksub kopp Kring half Hhalf). Qed.

  (* non-square shapes are rejected with ValueError by every entry point, square ones accepted *)
  Theorem C13_nonsquare_rejected :
    forall (sh : nat * nat) (pat : string) (M : mat) (h : vec) (c : K) (hlen : nat),
    fst sh <> snd sh ->
    Qubo.upper_checked K k0 kadd ksub sh M = Err ValueError /\
    Qubo.sym_checked K kadd kmul half sh M = Err ValueError /\
    Qubo.container_init K k0 kadd kmul ksub kopp half quarter sh pat M c = Err ValueError /\
    Qubo.q2i_checked K k0 kadd kmul kopp quarter sh M c = Err ValueError /\
    Qubo.i2q_checked K k0 k1 kadd kmul ksub sh hlen M h c = Err ValueError.
  Proof. exact (nonsquare_rejected K k0 k1 kadd kmul ksub kopp half quarter). Qed.

  Theorem C13_square_accepted : forall (sh : nat * nat) (pat : string) (M : mat) (c : K),
    fst sh = snd sh ->
    Qubo.upper_checked K k0 kadd ksub sh M = Ok (upper M) /\
    Qubo.sym_checked K kadd kmul half sh M = Ok (sym M) /\
    Qubo.container_init K k0 kadd kmul ksub kopp half quarter sh pat M c =
      Ok (cQ (classify pat) M, c, cJ (classify pat) M, ch (fst sh) (classify pat) M,
          cc (fst sh) (classify pat) M c).
  Proof.
    intros sh pat M c H.
    destruct (square_accepted K k0 k1 kadd kmul ksub kopp half quarter sh pat M (fun _ => k0) c H)
      as (H1 & H2 & H3 & _).
    repeat split; assumption.
  Qed.
End C13.

Print Assumptions C13_upper.
Print Assumptions C13_sym.
Print Assumptions C13_container.
Print Assumptions C13_container_qubo_all_vectors.
Print Assumptions C13_nonsquare_rejected.
Print Assumptions C13_square_accepted.

(* the pattern option: compared after str.lower(); exactly the two keywords select a conversion,
   every other string leaves the matrix as given *)
Theorem C13_classify : forall s t : string,
  (lower s = lower t -> classify s = classify t) /\
  classify (lower s) = classify s /\
  (classify s = PUpper <-> lower s = "upper-triangular"%string) /\
  (classify s = PSym <-> lower s = "symmetric"%string) /\
  (classify s = POther <-> lower s <> "upper-triangular"%string /\ lower s <> "symmetric"%string).
Proof.
  intros s t. split; [apply classify_case_insensitive|]. split; [apply classify_lower|].
  split; [apply classify_upper_iff|]. split; [apply classify_sym_iff | apply classify_other_iff].
Qed.
Print Assumptions C13_classify.

(* ---------------------------------- instance Qc ---------------------------------- *)
Theorem C13_Qc_upper : forall (n : nat) (M : nat -> nat -> Qc) (x : nat -> Qc) (i j : nat),
  qf Qc 0%Qc Qcplus Qcmult n (upper_Qc M) x = qf Qc 0%Qc Qcplus Qcmult n M x /\
  ((j < i)%nat -> upper_Qc M i j = 0%Qc) /\
  upper_Qc M i i = M i i /\
  ((i < j)%nat -> upper_Qc M i j = (M i j + M j i)%Qc).
Proof. exact (C13_upper Qc 0%Qc 1%Qc Qcplus Qcmult Qcminus Qcopp Qcrt). Qed.
Print Assumptions C13_Qc_upper.

Theorem C13_Qc_sym : forall (n : nat) (M : nat -> nat -> Qc) (x : nat -> Qc) (i j : nat),
  qf Qc 0%Qc Qcplus Qcmult n (sym_Qc M) x = qf Qc 0%Qc Qcplus Qcmult n M x /\ sym_Qc M i j = sym_Qc M j i.
Proof. exact (C13_sym Qc 0%Qc 1%Qc Qcplus Qcmult Qcminus Qcopp Qcrt Qc_half Qc_half_ok). Qed.
Print Assumptions C13_Qc_sym.

Theorem C13_Qc_container : forall (n : nat) (p : pattern) (M : nat -> nat -> Qc) (c : Qc) (x : nat -> Qc),
  binary Qc 0%Qc 1%Qc n x ->
  eQ_Qc n (cQ_Qc p M) c x = eQ_Qc n M c x /\
  eI_Qc n (cJ_Qc p M) (ch_Qc n p M) (cc_Qc n p M c) (x2s_Qc x) = eQ_Qc n M c x /\
  (forall i, cJ_Qc p M i i = 0%Qc) /\
  match p with
  | PUpper => forall i j, ((j < i)%nat -> cQ_Qc p M i j = 0%Qc) /\ ((j <= i)%nat -> cJ_Qc p M i j = 0%Qc)
  | PSym => forall i j, cQ_Qc p M i j = cQ_Qc p M j i /\ cJ_Qc p M i j = cJ_Qc p M j i
  | POther => forall i j, cQ_Qc p M i j = M i j /\ (i <> j -> cJ_Qc p M i j = (Qc_quarter * M i j)%Qc)
  end.
Proof.
  exact (C13_container Qc 0%Qc 1%Qc Qcplus Qcmult Qcminus Qcopp Qcrt Qc_half Qc_quarter Qc_half_ok Qc_quarter_ok).
Qed.
Print Assumptions C13_Qc_container.

Theorem C13_Qc_container_qubo_all_vectors :
  forall (n : nat) (p : pattern) (M : nat -> nat -> Qc) (c : Qc) (x : nat -> Qc),
  eQ_Qc n (cQ_Qc p M) c x = eQ_Qc n M c x.
Proof. exact (C13_container_qubo_all_vectors Qc 0%Qc 1%Qc Qcplus Qcmult Qcminus Qcopp Qcrt Qc_half Qc_half_ok). Qed.
Print Assumptions C13_Qc_container_qubo_all_vectors.

Theorem C13_Qc_nonsquare_rejected :
  forall (sh : nat * nat) (pat : string) (M : nat -> nat -> Qc) (h : nat -> Qc) (c : Qc) (hlen : nat),
  fst sh <> snd sh ->
  upper_checked_Qc sh M = Err ValueError /\
  sym_checked_Qc sh M = Err ValueError /\
  container_init_Qc sh pat M c = Err ValueError /\
  q2i_checked_Qc sh M c = Err ValueError /\
  i2q_checked_Qc sh hlen M h c = Err ValueError.
Proof. exact (C13_nonsquare_rejected Qc 0%Qc 1%Qc Qcplus Qcmult Qcminus Qcopp Qc_half Qc_quarter). Qed.
Print Assumptions C13_Qc_nonsquare_rejected.

(* ---------------------------------- instance R ---------------------------------- *)
Theorem C13_R_upper : forall (n : nat) (M : nat -> nat -> R) (x : nat -> R) (i j : nat),
  qf R 0%R Rplus Rmult n (upper_R M) x = qf R 0%R Rplus Rmult n M x /\
  ((j < i)%nat -> upper_R M i j = 0%R) /\
  upper_R M i i = M i i /\
  ((i < j)%nat -> upper_R M i j = (M i j + M j i)%R).
Proof. exact (C13_upper R 0%R 1%R Rplus Rmult Rminus Ropp RTheory). Qed.
Print Assumptions C13_R_upper.

Theorem C13_R_sym : forall (n : nat) (M : nat -> nat -> R) (x : nat -> R) (i j : nat),
  qf R 0%R Rplus Rmult n (sym_R M) x = qf R 0%R Rplus Rmult n M x /\ sym_R M i j = sym_R M j i.
Proof. exact (C13_sym R 0%R 1%R Rplus Rmult Rminus Ropp RTheory R_half R_half_ok). Qed.
Print Assumptions C13_R_sym.

Theorem C13_R_container : forall (n : nat) (p : pattern) (M : nat -> nat -> R) (c : R) (x : nat -> R),
  binary R 0%R 1%R n x ->
  eQ_R n (cQ_R p M) c x = eQ_R n M c x /\
  eI_R n (cJ_R p M) (ch_R n p M) (cc_R n p M c) (x2s_R x) = eQ_R n M c x /\
  (forall i, cJ_R p M i i = 0%R) /\
  match p with
  | PUpper => forall i j, ((j < i)%nat -> cQ_R p M i j = 0%R) /\ ((j <= i)%nat -> cJ_R p M i j = 0%R)
  | PSym => forall i j, cQ_R p M i j = cQ_R p M j i /\ cJ_R p M i j = cJ_R p M j i
  | POther => forall i j, cQ_R p M i j = M i j /\ (i <> j -> cJ_R p M i j = (R_quarter * M i j)%R)
  end.
Proof.
  exact (C13_container R 0%R 1%R Rplus Rmult Rminus Ropp RTheory R_half R_quarter R_half_ok R_quarter_ok).
Qed.
Print Assumptions C13_R_container.

Theorem C13_R_container_qubo_all_vectors :
  forall (n : nat) (p : pattern) (M : nat -> nat -> R) (c : R) (x : nat -> R),
  eQ_R n (cQ_R p M) c x = eQ_R n M c x.
Proof. exact (C13_container_qubo_all_vectors R 0%R 1%R Rplus Rmult Rminus Ropp RTheory R_half R_half_ok). Qed.
Print Assumptions C13_R_container_qubo_all_vectors.

(* ---------------------------------- non-vacuity ---------------------------------- *)
(* a full non-symmetric 3x3 matrix, a NON-binary vector (1/2, -1, 3/2) for the conversions, a
   binary one for the container; the pattern strings in several letter cases *)
Definition exM : dmat :=
  [[Q2Qc 1; Q2Qc 2; Q2Qc (-(1 # 4))]; [Q2Qc (1 # 2); Q2Qc (-1); Q2Qc (1 # 4)]; [Q2Qc (3 # 4); Q2Qc 3; Q2Qc (1 # 2)]]%Q.
Definition exv : dvec := [Q2Qc (1 # 2); Q2Qc (-1); Q2Qc (3 # 2)]%Q.
Definition exb : dvec := [1%Qc; 1%Qc; 0%Qc].

Example C13_example_binary : binary Qc 0%Qc 1%Qc 3 (vec_of exb).
Proof.
  intros i Hi. destruct i as [|[|[|i]]]; simpl; auto.
  exfalso. apply (Nat.lt_irrefl 3). eapply Nat.le_lt_trans; [|exact Hi]. do 3 apply le_n_S. apply Nat.le_0_l.
Qed.

Example C13_example_values :
  let M := mat_of exM in
  let v := vec_of exv in
  let b := vec_of exb in
  let val := eQ_Qc 3 M 0%Qc v in
  qc_eqb val 0%Qc = false /\
  qc_eqb (eQ_Qc 3 (upper_Qc M) 0%Qc v) val = true /\
  qc_eqb (eQ_Qc 3 (sym_Qc M) 0%Qc v) val = true /\
  dmat_eqb (dense_mat 3 3 (upper_Qc M)) (dense_mat 3 3 M) = false /\
  dmat_eqb (dense_mat 3 3 (sym_Qc M)) (dense_mat 3 3 M) = false /\
  map classify ["upper-triangular"; "Upper-Triangular"; "UPPER-TRIANGULAR"; "symmetric"; "SYMMETRIC";
                "SyMmEtRiC"; "foo"; ""; "upper triangular"; "symmetric "]%string
    = [PUpper; PUpper; PUpper; PSym; PSym; PSym; POther; POther; POther; POther] /\
  forallb (fun p => qc_eqb (eI_Qc 3 (cJ_Qc p M) (ch_Qc 3 p M) (cc_Qc 3 p M Qc_half) (x2s_t b))
                           (eQ_Qc 3 M Qc_half b)) [PUpper; PSym; POther] = true /\
  model_container (2, 3)%nat "symmetric" exM 0%Qc = Err ValueError.
Proof. vm_compute. repeat split; reflexivity. Qed.
