(* C03 -- Feasibility QUBO is zero exactly on the feasible set, positive elsewhere.
   Property theorems only; proofs live in theories/Penalty_facts.v.
   Integer data (A, b, R): the constraint data of all three formulations are integral
   (entries 0, 1, -1; right-hand sides 1 minus fixed values).  The only structural fact about a
   formulation that is used is that its R is entrywise non-negative (hypothesis R_nonneg; arc and
   path report R = 0, the sequence model a sum of unit entries; the check verifies it on every
   generated instance). *)
From Coq Require Import ZArith List.
From VQ Require Import Base LinAlg Penalty Penalty_facts.
Import ListNotations.
Open Scope Z_scope.

(* the value  x'Qx + k  of the QUBO returned by get_qubo(feasibility=True, penalty_parameter=None)
   for an object whose get_sufficient_penalty(False) is S (irrelevant in this mode) *)
Definition C03_value n m A b R c Qo S (x : vec Z) : Z :=
  Zqubo_value n (Zget_qubo m true (Zchoose_rho true S None) (A, b, R) (c, Qo)) x.

(* default penalty in feasibility mode: 0 + 1 *)
Theorem C03_default_rho : forall S, Zchoose_rho true S None = 1.
Proof. exact default_rho_feas. Qed.
Print Assumptions C03_default_rho.

Theorem C03_nonneg :
  forall n m A b R c Qo S x,
    (forall i j, (i < n)%nat -> (j < n)%nat -> 0 <= R i j) -> Zbinary n x ->
    0 <= C03_value n m A b R c Qo S x.
Proof. intros n m A b R c Qo S x HR. exact (feas_value_nonneg n m A b R c Qo S HR x). Qed.
Print Assumptions C03_nonneg.

Theorem C03_zero_iff :
  forall n m A b R c Qo S x,
    (forall i j, (i < n)%nat -> (j < n)%nat -> 0 <= R i j) -> Zbinary n x ->
    (C03_value n m A b R c Qo S x = 0 <->
     (forall k, (k < m)%nat -> Zmv n A x k = b k) /\ Zqf n R x = 0).
Proof. intros n m A b R c Qo S x HR. exact (feas_value_zero_iff n m A b R c Qo S HR x). Qed.
Print Assumptions C03_zero_iff.

(* the minimum over all binary vectors is zero iff the constrained program is feasible *)
Theorem C03_min_zero_iff_feasible :
  forall n m A b R c Qo S,
    (forall i j, (i < n)%nat -> (j < n)%nat -> 0 <= R i j) ->
    ((exists x, Zbinary n x /\ C03_value n m A b R c Qo S x = 0 /\
                forall y, Zbinary n y -> C03_value n m A b R c Qo S x <= C03_value n m A b R c Qo S y)
     <->
     (exists x, Zbinary n x /\ (forall k, (k < m)%nat -> Zmv n A x k = b k) /\ Zqf n R x = 0)).
Proof. intros n m A b R c Qo S HR. exact (feas_min_zero_iff n m A b R c Qo S HR). Qed.
Print Assumptions C03_min_zero_iff_feasible.

(* the quadratic constraint: with entrywise non-negative R and binary x, x'Rx >= 0, and x'Rx = 0
   iff no pair (i,j) with R i j > 0 is selected together *)
Theorem C03_R_form :
  forall n R x,
    (forall i j, (i < n)%nat -> (j < n)%nat -> 0 <= R i j) -> Zbinary n x ->
    0 <= Zqf n R x /\
    (Zqf n R x = 0 <-> forall i j, (i < n)%nat -> (j < n)%nat -> 0 < R i j -> x i * x j = 0).
Proof. intros n R x HR Hb. split; [exact (qf_R_nonneg n R x HR Hb) | exact (qf_R_zero_iff n R x HR Hb)]. Qed.
Print Assumptions C03_R_form.

(* Non-vacuity: x0 + x1 = 1 and x0*x1 = 0 (R = e0 e1').  R is non-negative, (1,0) is binary and
   feasible with value 0, (1,1) violates both constraints and has value 1 + 1 = 2. *)
Example C03_example :
  let A := Zmat_of [[1; 1]] in let b := Zvec_of [1] in let R := Zmat_of [[0; 1]; [0; 0]] in
  let c := Zvec_of [3; -2] in let Qo := Zmat_of [[0; 5]; [0; 0]] in
  (forall i j, (i < 2)%nat -> (j < 2)%nat -> 0 <= R i j) /\
  Zbinary 2 (Zvec_of [1; 0]) /\
  C03_value 2 1 A b R c Qo 99 (Zvec_of [1; 0]) = 0 /\
  C03_value 2 1 A b R c Qo 99 (Zvec_of [1; 1]) = 2.
Proof.
  cbv zeta. split; [|split; [|split; vm_compute; reflexivity]].
  - intros i j Hi Hj. destruct i as [|[|i]], j as [|[|j]]; vm_compute; try discriminate; lia.
  - intros i Hi. destruct i as [|[|i]]; [right; reflexivity | left; reflexivity | lia].
Qed.
