(* C09 (wrappers) -- what the MIRP formulation wrappers choose: time grid, vehicle count, sequence length,
   high cost, path-exploration rounds (applications/mirp.py: estimate_high_cost, get_arc_based,
   get_path_based, get_sequence_based; routing_problem/vrptw.py: estimate_max_vehicles).
   Model: theories/MirpWrap.v on top of theories/Mirp.v (exact rationals).  Property theorems only; proofs
   live in theories/MirpWrap_facts.v.  The sorted duplicate-free grid and its independence of the set's
   iteration order are those of C17 (Rng_facts), reused. *)
From Coq Require Import QArith Qround Lia Permutation Sorted.
From VQ Require Import Base Mirp Mirp_facts Mirp_graph_facts Mirp_arcset_facts Rng Rng_facts MirpWrap MirpWrap_facts.
Local Open Scope Q_scope.

(* ------------------------------------------------------------------------------------------------ *)
(* 1. The time grid of get_arc_based.                                                                *)
(* For ANY graph g and ANY iteration order of the Python set (any function returning a permutation of  *)
(* its argument): the grid handed to add_time_points is sorted, duplicate-free (hence strictly          *)
(* increasing), contains 0, and x is on the grid iff x = 0 or x is an integer lying in the finite        *)
(* window of some node (nodes with window end inf contribute nothing).                                   *)
Theorem C09w_grid_spec : forall order g, permuting order ->
  let G := arc_grid_with order g in
  sorted G /\ NoDup G /\ StronglySorted Z.lt G /\ In 0%Z G /\
  (forall x, In x G <-> x = 0%Z \/
     exists n b, In n (mnodes g) /\ hi n = QFin b /\ lo n <= inject_Z x /\ inject_Z x <= b).
Proof. exact arc_grid_spec. Qed.
Print Assumptions C09w_grid_spec.

(* the grid does not depend on the iteration order of the set; the executable model (identity order) is it *)
Theorem C09w_grid_order_independent : forall o1 o2 g, permuting o1 -> permuting o2 ->
  arc_grid_with o1 g = arc_grid_with o2 g /\ arc_grid g = arc_grid_with o1 g.
Proof.
  intros o1 o2 g H1 H2. split; [apply arc_grid_order_independent; auto | apply arc_grid_is_any_order; auto].
Qed.
Print Assumptions C09w_grid_order_independent.

(* A node with a finite window [a, b]: it has a grid point inside its window iff ceil a <= floor b iff the
   window contains an integer; and then EVERY integer of the window is a grid point. *)
Theorem C09w_grid_node_served_iff : forall order g n b, permuting order -> In n (mnodes g) -> hi n = QFin b ->
  let G := arc_grid_with order g in
  ((exists x, In x G /\ lo n <= inject_Z x /\ inject_Z x <= b) <-> (Qceiling (lo n) <= Qfloor b)%Z) /\
  ((Qceiling (lo n) <= Qfloor b)%Z <-> (exists z : Z, lo n <= inject_Z z /\ inject_Z z <= b)) /\
  (forall z : Z, lo n <= inject_Z z -> inject_Z z <= b -> In z G).
Proof.
  intros order g n b Ho Hn Hb G.
  destruct (grid_point_in_window_iff order g n b Ho Hn Hb) as [A B].
  split; [exact A|]. split; [exact B|]. intros z Hz1 Hz2. apply (grid_covers_window order g n b z); auto.
Qed.
Print Assumptions C09w_grid_node_served_iff.

(* A node whose finite window contains no integer (floor b < ceil a) contributes no point and no grid point
   lies in its window.  This is exactly the situation in which the arc-based model has no (node, time)
   variable for that node, so that ArcBasedRoutingProblem.make_feasible cannot serve it (its
   ValueError / AssertionError paths, C09_arc). *)
Theorem C09w_grid_window_without_integer : forall order g n b, permuting order -> In n (mnodes g) -> hi n = QFin b ->
  (Qfloor b < Qceiling (lo n))%Z ->
  node_points n = [] /\
  forall x, In x (arc_grid_with order g) -> ~ (lo n <= inject_Z x /\ inject_Z x <= b).
Proof. exact grid_window_without_integer. Qed.
Print Assumptions C09w_grid_window_without_integer.

(* MIRP graphs, EVERY history of add_nodes / add_travel_arcs / add_exit_arcs / add_entry_arcs on MIRP(size, H)
   (any order, repetitions, raising calls): every node -- also the depot and the dummy vessels, whose windows
   are (0, inf) and which are served by the appended 0 -- has a grid point inside its window iff its window
   contains an integer. *)
Theorem C09w_grid_serves_every_node : forall order size H ops n, permuting order ->
  let g := gr (mrun ops (init_state size H)) in
  In n (mnodes g) ->
  ((exists x, In x (arc_grid_with order g) /\ lo n <= inject_Z x /\ q_le_ext (inject_Z x) (hi n) = true) <->
   (exists z : Z, lo n <= inject_Z z /\ q_le_ext (inject_Z z) (hi n) = true)) /\
  (hi n = QInf -> In 0%Z (arc_grid_with order g) /\ lo n = 0).
Proof.
  intros order size H ops n Ho g Hn. split; [apply every_history_grid_serves; auto|].
  intro Eh. destruct (arc_grid_spec order g Ho) as [_ [_ [_ [Z0 _]]]]. split; [exact Z0|].
  destruct (every_history_nodes size H ops) as [_ F]. rewrite Forall_forall in F. specialize (F n Hn).
  unfold unb_ok in F. rewrite Eh in F. exact F.
Qed.
Print Assumptions C09w_grid_serves_every_node.

(* get_arc_based as a whole: without make_feasible it cannot fail and hands over nothing but the grid; with
   make_feasible it hands estimate_high_cost() to the heuristic and fails exactly when that fails. *)
Theorem C09w_get_arc_based : forall w,
  get_arc_based false w = Ok (arc_grid (gr (wst w)), None) /\
  (forall h, estimate_high_cost w = Ok h -> get_arc_based true w = Ok (arc_grid (gr (wst w)), Some h)) /\
  (forall e, estimate_high_cost w = Err e -> get_arc_based true w = Err e).
Proof.
  intro w. split; [apply get_arc_based_no_heuristic | apply get_arc_based_with_heuristic].
Qed.
Print Assumptions C09w_get_arc_based.

(* ------------------------------------------------------------------------------------------------ *)
(* 2. estimate_max_vehicles: min(#arc keys (0, _), #arc keys (_, 0)); a self-arc counts on both sides. *)
Theorem C09w_max_vehicles : forall g,
  est_max_vehicles g = Nat.min (length (filter (fun kv => Nat.eqb (fst (fst kv)) 0) (marcs g)))
                               (length (filter (fun kv => Nat.eqb (snd (fst kv)) 0) (marcs g))) /\
  (est_max_vehicles g <= n_out g)%nat /\ (est_max_vehicles g <= n_in g)%nat /\
  (est_max_vehicles g = n_out g \/ est_max_vehicles g = n_in g) /\
  (n_out g <= length (marcs g))%nat /\ (n_in g <= length (marcs g))%nat /\
  (est_max_vehicles g = 0%nat <->
     (forall i j a, In ((i, j), a) (marcs g) -> i <> 0%nat) \/ (forall i j a, In ((i, j), a) (marcs g) -> j <> 0%nat)).
Proof.
  intro g. split; [reflexivity|].
  destruct (max_vehicles_spec g) as [A [B [C [D E]]]]. repeat (split; [assumption|]). apply max_vehicles_zero_iff.
Qed.
Print Assumptions C09w_max_vehicles.

(* ------------------------------------------------------------------------------------------------ *)
(* 3. estimate_high_cost.                                                                              *)
(* port_frequency over every history: an entry is written by add_nodes iff rate <> 0 (exact numbers: rate 0 *)
(* raises ZeroDivisionError at that expression), every entry is >= 0; for distinct port names and non-zero  *)
(* rates (the canonical build) it is the list (name, |cap / rate|) of the ports in call order.              *)
Theorem C09w_port_frequency : forall size H ops,
  wpf (wrun ops (winit size H)) = pf_run ops [] /\
  (forall f, In f (freq_values (pf_run ops [])) -> 0 <= f) /\
  (forall ports dist speed unit fs fd etm ec limit ntm nc, ports_ok size ports ->
     pf_run (canonical_ops ports dist speed unit fs fd etm ec limit ntm nc) []
     = map (fun p => (pname p, Qabs.Qabs (pcap p / prate p))) ports).
Proof.
  intros size H ops. split; [apply wrun_wpf|]. split.
  - apply freq_nonneg. intros f [].
  - intros. apply canonical_port_frequency with (size := size). assumption.
Qed.
Print Assumptions C09w_port_frequency.

(* a normal return: the value is 2 * (largest arc cost) * (horizon / smallest frequency), the smallest
   frequency being non-zero *)
Theorem C09w_high_cost_value : forall w h, estimate_high_cost w = Ok h ->
  exists mf mc,
    In mf (freq_values (wpf w)) /\ (forall f, In f (freq_values (wpf w)) -> mf <= f) /\ ~ mf == 0 /\
    In mc (arc_costs (gr (wst w))) /\ (forall c, In c (arc_costs (gr (wst w))) -> c <= mc) /\
    h = 2 * mc * (horizon (wst w) / mf).
Proof. exact high_cost_ok. Qed.
Print Assumptions C09w_high_cost_value.

(* the failures, in the order in which the code meets them: ValueError (min of no frequency),
   ZeroDivisionError (smallest frequency 0, i.e. a port of capacity 0), ValueError (max of no arc cost);
   and it does return when there is a port, no zero frequency and an arc *)
Theorem C09w_high_cost_failures : forall w,
  (forall e, estimate_high_cost w = Err e ->
     (e = ValueError /\ wpf w = []) \/
     (e = OtherError /\ exists mf, In mf (freq_values (wpf w)) /\ mf == 0 /\ (forall f, In f (freq_values (wpf w)) -> mf <= f)) \/
     (e = ValueError /\ wpf w <> [] /\ marcs (gr (wst w)) = [])) /\
  (wpf w <> [] -> (forall f, In f (freq_values (wpf w)) -> ~ f == 0) -> marcs (gr (wst w)) <> [] ->
   exists h, estimate_high_cost w = Ok h).
Proof. intro w. split; [apply high_cost_err | apply high_cost_total]. Qed.
Print Assumptions C09w_high_cost_failures.

(* what makes it "high": for a horizon >= 0 it dominates twice the cost c >= 0 of ANY arc times the number
   H / f of cargoes ANY port needs during the horizon, and it is >= 0 as soon as one arc cost is *)
Theorem C09w_high_cost_dominates : forall w h, estimate_high_cost w = Ok h -> 0 <= horizon (wst w) ->
  (forall f, In f (freq_values (wpf w)) -> 0 <= f) ->
  (forall c f, In c (arc_costs (gr (wst w))) -> 0 <= c -> In f (freq_values (wpf w)) -> ~ f == 0 ->
     2 * c * (horizon (wst w) / f) <= h) /\
  ((exists c, In c (arc_costs (gr (wst w))) /\ 0 <= c) -> 0 <= h).
Proof.
  intros w h E HH Hnn. split.
  - apply high_cost_dominates; auto.
  - apply high_cost_nonneg; auto.
Qed.
Print Assumptions C09w_high_cost_dominates.

(* ------------------------------------------------------------------------------------------------ *)
(* 4. get_sequence_based: V and L.                                                                     *)
(* the shortest positive travel time: ValueError exactly when no arc has a positive travel time *)
Theorem C09w_min_travel_time : forall g,
  (forall m, min_travel_time g = Ok m ->
     0 < m /\ In m (travel_times g) /\ (forall t, In t (travel_times g) -> 0 < t -> m <= t)) /\
  (forall e, min_travel_time g = Err e -> e = ValueError /\ (forall t, In t (travel_times g) -> t <= 0)) /\
  (forall t, In t (travel_times g) -> 0 < t -> exists m, min_travel_time g = Ok m).
Proof.
  intro g. split; [apply min_travel_time_ok|]. split; [apply min_travel_time_err | apply min_travel_time_total].
Qed.
Print Assumptions C09w_min_travel_time.

(* L = int(H / mt + 2) for mt > 0: equals floor(H / mt) + 2 and is >= 2 for H >= 0; is >= 3 iff H >= mt (for every
   H, negative ones included); grows with H and shrinks with mt *)
Theorem C09w_seq_len : forall H mt, 0 < mt ->
  (0 <= H -> seq_len H mt = (Qfloor (H / mt) + 2)%Z /\ (2 <= seq_len H mt)%Z) /\
  ((3 <= seq_len H mt)%Z <-> mt <= H) /\
  (forall H', H <= H' -> (seq_len H mt <= seq_len H' mt)%Z) /\
  (forall mt', 0 <= H -> mt <= mt' -> (seq_len H mt' <= seq_len H mt)%Z).
Proof.
  intros H mt P. split; [intro HH; split; [apply seq_len_floor | apply seq_len_ge2]; auto|].
  split; [apply seq_len_ge3_iff; auto|]. split.
  - intros H' HH. apply seq_len_mono_horizon; auto.
  - intros mt' HH Hm. apply seq_len_antitone_time; auto.
Qed.
Print Assumptions C09w_seq_len.

(* (max_vehicles, max_sequence_length) set on the sequence object, and the only failure *)
Theorem C09w_seq_params : forall w,
  (forall V L, seq_params w = Ok (V, L) ->
     exists mt, min_travel_time (gr (wst w)) = Ok mt /\ 0 < mt /\
                V = est_max_vehicles (gr (wst w)) /\ L = seq_len (horizon (wst w)) mt) /\
  (forall e, seq_params w = Err e -> e = ValueError /\ (forall t, In t (travel_times (gr (wst w))) -> t <= 0)) /\
  (forall mf,
     (forall e, seq_params w = Err e -> get_sequence_based mf w = Err e) /\
     (forall vl, seq_params w = Ok vl ->
        (mf = false -> get_sequence_based mf w = Ok (vl, None)) /\
        (forall h, mf = true -> estimate_high_cost w = Ok h -> get_sequence_based mf w = Ok (vl, Some h)) /\
        (forall e, mf = true -> estimate_high_cost w = Err e -> get_sequence_based mf w = Err e))).
Proof.
  intro w. split; [apply seq_params_ok|]. split; [apply seq_params_err|]. intro mf. apply get_sequence_based_spec.
Qed.
Print Assumptions C09w_seq_params.

(* EVERY history on MIRP(size, H): the depot is the first node with window (0, inf) (MIRP.__init__ creates it
   with the default window and sets it as depot; the four operations only append nodes), so the hypotheses
   "L >= 3, depot window end infinite, depot window start >= 0" under which the sequence heuristic is total
   (C09_total_seq) hold iff the horizon is at least the shortest positive travel time. *)
Theorem C09w_seq_hyps_iff : forall size H ops,
  let w := wrun ops (winit size H) in
  (exists rest, mnodes (gr (wst w)) = mkNode NDepot 0 0 QInf :: rest) /\
  forall V L, seq_params w = Ok (V, L) ->
  exists mt, min_travel_time (gr (wst w)) = Ok mt /\ 0 < mt /\ V = est_max_vehicles (gr (wst w)) /\
             L = seq_len H mt /\
             (((3 <= L)%Z /\
               exists d0 rest, mnodes (gr (wst w)) = d0 :: rest /\ nm d0 = NDepot /\ hi d0 = QInf /\ 0 <= lo d0)
              <-> mt <= H).
Proof.
  intros size H ops w. split.
  - unfold w. rewrite wrun_wst. apply (every_history_nodes size H ops).
  - apply seq_hyps_iff.
Qed.
Print Assumptions C09w_seq_hyps_iff.

(* the canonical build of C12_arcset with stocks inside the tanks (supply: init <= cap, demand: 0 <= init):
   no window closes before the depot window opens (every window end is >= 0) -- the remaining hypothesis of
   C09_total_seq *)
Theorem C09w_canonical_window_ends : forall size H ports dist speed unit fs fd etm ec limit ntm nc,
  0 < size -> ports_ok size ports -> ~ speed == 0 -> tables_complete ports dist fs fd ->
  (forall p, In p ports -> (0 < prate p -> pinit p <= pcap p) /\ (prate p < 0 -> 0 <= pinit p)) ->
  forall n, In n (mnodes (gr (mrun (canonical_ops ports dist speed unit fs fd etm ec limit ntm nc) (init_state size H)))) ->
    q_le_ext 0 (hi n) = true.
Proof. exact canonical_window_ends_nonneg. Qed.
Print Assumptions C09w_canonical_window_ends.

(* ------------------------------------------------------------------------------------------------ *)
(* 5. get_path_based: three rounds of add_routes_better with explore = 0, 1, inf and 1, int(H), int(10 H) *)
(* calls (none for a non-positive count), node_costs = the high cost at the depot and 0 elsewhere,         *)
(* time_costs(t) = 0 up to t = 10 and 100 t beyond; it fails exactly as estimate_high_cost does.           *)
Theorem C09w_path_plan : forall w,
  (forall rounds nc h, path_plan w = Ok (rounds, nc, h) ->
     estimate_high_cost w = Ok h /\ rounds = path_rounds (horizon (wst w)) /\
     length nc = length (mnodes (gr (wst w))) /\ nth 0 nc 0 = h /\ (forall i, (0 < i)%nat -> nth i nc 0 = 0)) /\
  (forall e, mnodes (gr (wst w)) <> [] -> path_plan w = Err e -> estimate_high_cost w = Err e) /\
  (forall H, 0 <= H -> path_rounds H = [(QFin 0, 1%Z); (QFin 1, Qfloor H); (QInf, Qfloor (10 * H))]) /\
  (forall H, H < 0 -> path_rounds H = [(QFin 0, 1%Z); (QFin 1, 0%Z); (QInf, 0%Z)]) /\
  (forall t, (t <= 10 -> time_costs t = 0) /\ (10 < t -> time_costs t = 100 * t) /\ 0 <= time_costs t) /\
  (forall t t', t <= t' -> time_costs t <= time_costs t').
Proof.
  intro w. split; [apply path_plan_ok|]. split; [apply path_plan_err|]. split; [apply path_rounds_spec|].
  split; [apply path_rounds_negative|]. split; [apply time_costs_spec | apply time_costs_mono].
Qed.
Print Assumptions C09w_path_plan.

(* ------------------------------------------------------------------------------------------------ *)
(* Examples (non-vacuity).                                                                             *)
(* The build of C12_instance: cargo 3, horizon 10, supply port (init 1, rate 3/2, cap 5), demand port (init 4,
   rate -1, cap 5), distance 5/2, speed 2 (travel time 5/4), unit cost 1/2, fees 7 / 9, entry limit 5.
   Windows: depot (0,inf), S: (4/3,8/3) (10/3,14/3) (16/3,20/3) (22/3,26/3), D: (2,4) (5,7) (8,10), Dum0 (0,inf).
   Grid 0,2..10 (1 lies in no window); 3 arcs leave and 7 enter the depot: V = 3; L = int(10/(5/4)+2) = 10;
   frequencies 10/3 and 5; high cost 2 * (5/4 + 9) * (10 / (10/3)) = 123/2; rounds 1, 10, 100. *)
Definition ex_ports := [mkP 1 1 (3#2) 5; mkP 11 4 (-(1)) 5].
Definition ex_ops := canonical_ops ex_ports [((1%nat, 11%nat), 5#2)] 2 (1#2) [(1%nat, 7)] [(11%nat, 9)] 0 0 5 0 0.
Example C09w_instance :
  ports_ok 3 ex_ports /\ tables_complete ex_ports [((1%nat, 11%nat), 5#2)] [(1%nat, 7)] [(11%nat, 9)] /\
  let w := wrun ex_ops (winit 3 10) in
  arc_grid (gr (wst w)) = [0; 2; 3; 4; 5; 6; 7; 8; 9; 10]%Z /\
  n_out (gr (wst w)) = 3%nat /\ n_in (gr (wst w)) = 7%nat /\
  seq_params w = Ok (3%nat, 10%Z) /\
  Qres_eqb (min_travel_time (gr (wst w))) (Ok (5#4)) = true /\
  Qres_eqb (estimate_high_cost w) (Ok (123#2)) = true /\
  list_eqb (pair_eqb Nat.eqb Qeq_bool) (wpf w) [(1%nat, 10#3); (11%nat, 5)] = true /\
  result_eqb plan_eqb (path_plan w)
    (Ok ([(QFin 0, 1%Z); (QFin 1, 10%Z); (QInf, 100%Z)], [123#2; 0; 0; 0; 0; 0; 0; 0; 0], 123#2)) = true.
Proof.
  split; [|split].
  - split.
    + simpl. repeat constructor; simpl; intuition discriminate.
    + intros p [<-|[<-|[]]]; simpl; split; try discriminate; unfold Qle; simpl; lia.
  - intros sp dp [<-|[<-|[]]] S1 [<-|[<-|[]]] S2; try discriminate; simpl; repeat split; discriminate.
  - vm_compute. repeat split; reflexivity.
Qed.

(* A node whose window holds no integer: supply port (init 0, rate 3/7, cap 2), cargo 2, horizon 6: its only
   visit has the window (14/3, 14/3); the hypotheses of C09w_grid_window_without_integer hold and the grid
   0, 2, 4, 6 has no point in that window.  With horizon 1 instead no travel arc passes the filter: no
   positive travel time, get_sequence_based raises ValueError; before any port is added estimate_high_cost
   raises ValueError. *)
Definition ex2_ports := [mkP 1 0 (3#7) 2; mkP 11 2 (-(1)) 2].
Definition ex2_ops := canonical_ops ex2_ports [((1%nat, 11%nat), 5#2)] 2 (1#2) [(1%nat, 7)] [(11%nat, 9)] 0 0 5 0 0.
Example C09w_instance_unserved_node :
  let g := gr (wst (wrun ex2_ops (winit 2 6))) in
  let n := nth 1 (mnodes g) dummy_mnode in
  In n (mnodes g) /\ hi n = QFin (14#3) /\ Qeq_bool (lo n) (14#3) = true /\
  (Qfloor (14#3) < Qceiling (lo n))%Z /\
  arc_grid g = [0; 2; 4; 6]%Z /\
  seq_params (wrun ex2_ops (winit 2 6)) = Ok (3%nat, 6%Z) /\
  seq_params (wrun ex_ops (winit 3 1)) = Err ValueError /\
  estimate_high_cost (winit 3 1) = Err ValueError.
Proof. vm_compute. repeat split; auto. Qed.

(* a depot self-arc counts as leaving and as entering: one arc, one vehicle *)
Example C09w_self_arc_counts_twice :
  est_max_vehicles (graph_of [(0, QInf)] [((0%nat, 0%nat), (1, 1))]) = 1%nat /\
  est_max_vehicles (graph_of [(0, QInf); (0, QFin 1)] [((0%nat, 1%nat), (1, 1))]) = 0%nat.
Proof. vm_compute. auto. Qed.
