(* C19 -- Sampler expressions evaluate the expression on the leaf draws.
   Property theorems only; the model is theories/Sampler.v, the proofs theories/Sampler_facts.v.
   Everything is stated for an arbitrary commutative ring K (ring_theory, Leibniz equality) and an
   arbitrary total function kdiv for `/`: no law about division is used.  The theorems about the
   definitions GENERATED from tools/sampling.py are in genprops/C19_gen.v (compiled by the check
   after the translator has run). *)
From Coq Require Import List Arith Bool QArith Qcanon.
From VQ Require Import Base Sampler Sampler_facts.
Import ListNotations.

(* An expression over samplers and real constants is a sampler object exactly when it contains
   a leaf (building it never fails, whatever side the constants are on); an expression of
   constants only is a plain number, on which `.rvs` raises AttributeError. *)
Theorem C19_compile_total :
  forall (K : Type) (kadd kmul ksub kdiv : K -> K -> K) (kopp : K -> K) (e : aexp K),
    (has_leaf e = true -> exists s, compile kadd kmul ksub kdiv kopp e = Ok s) /\
    (has_leaf e = false -> compile kadd kmul ksub kdiv kopp e = Err AttributeError).
Proof. intros. split; [apply compile_total_with | apply compile_const_with]. Qed.
Print Assumptions C19_compile_total.

(* Drawing m values from the object built for e, from any draw history st, returns exactly what the
   reference semantics [spec] returns: every leaf occurrence of e is drawn once with size m, from
   left to right; +, -, *, / and unary minus act element by element on the arrays; a constant is
   the same number at every position.  In particular a - b (built as a + (-b)) and
   sampler - c (built as sampler + Constant(-c)) subtract.  The pair compared is (array, draw log). *)
Theorem C19_eval :
  forall (K : Type) (k0 k1 : K) (kadd kmul ksub kdiv : K -> K -> K) (kopp : K -> K),
    ring_theory k0 k1 kadd kmul ksub kopp eq ->
    forall (d : nat -> nat -> nat -> list K) (m : nat) (e : aexp K) (s : sampler K),
      compile kadd kmul ksub kdiv kopp e = Ok s ->
      forall st : dlog,
        rvs k1 kadd kmul kdiv kopp d m s st = spec kadd kmul ksub kdiv kopp d m e st.
Proof. exact compile_eval. Qed.
Print Assumptions C19_eval.

(* The same, spelled out.  If every leaf returns an array of the requested size, then the result
   has shape (m,); the draw log grows by the leaves of e in left-to-right order, each with size m
   (each occurrence drawn exactly once); and element j of the result is the scalar expression e
   evaluated on element j of the arrays handed to its leaf occurrences (the p-th occurrence reads the
   p-th array; the same leaf object occurring twice is drawn twice and gets two arrays). *)
Theorem C19_eval_pointwise :
  forall (K : Type) (k0 k1 : K) (kadd kmul ksub kdiv : K -> K -> K) (kopp : K -> K),
    ring_theory k0 k1 kadd kmul ksub kopp eq ->
    forall (d : nat -> nat -> nat -> list K),
      (forall i k m : nat, length (d i k m) = m) ->
      forall (m : nat) (e : aexp K) (s : sampler K) (st : dlog),
        compile kadd kmul ksub kdiv kopp e = Ok s ->
        length (fst (rvs k1 kadd kmul kdiv kopp d m s st)) = m /\
        snd (rvs k1 kadd kmul kdiv kopp d m s st) = st ++ map (fun i : nat => (i, m)) (leaves e) /\
        forall j, (j < m)%nat ->
          nth j (fst (rvs k1 kadd kmul kdiv kopp d m s st)) k0 =
          aeval k0 kadd kmul ksub kdiv kopp
                (map (fun a => nth j a k0) (leaf_arrays d m (leaves e) st)) e 0.
Proof. intros K k0 k1 kadd kmul ksub kdiv kopp R d Hd m e s st H. apply compile_eval_explicit; assumption. Qed.
Print Assumptions C19_eval_pointwise.

(* sample(v, size) on a non-random value returns v itself when (v is a scalar and size = 1) or
   (v is a sequence of length size), raises ValueError in every other case, and draws nothing;
   on a sampler it returns the array drawn by rvs(size). *)
Theorem C19_sample_helper :
  forall (K : Type) (k1 : K) (kadd kmul kdiv : K -> K -> K) (kopp : K -> K)
         (d : nat -> nat -> nat -> list K) (size : nat) (st : dlog),
    (forall v : pyval K, (forall s, v <> PSampler s) ->
       let fits := (is_scalar v = true /\ size = 1%nat) \/ (is_scalar v = false /\ pylen v = size) in
       (fits -> sample k1 kadd kmul kdiv kopp d v size st = (Ok v, st)) /\
       (~ fits -> sample k1 kadd kmul kdiv kopp d v size st = (Err ValueError, st))) /\
    (forall s : sampler K,
       sample k1 kadd kmul kdiv kopp d (PSampler s) size st =
       (Ok (PSeq (fst (rvs k1 kadd kmul kdiv kopp d size s st))), snd (rvs k1 kadd kmul kdiv kopp d size s st))).
Proof. intros. split; [intros v Hv; apply sample_nonrandom; exact Hv | intros s; apply sample_sampler]. Qed.
Print Assumptions C19_sample_helper.

(* The operators only ever put two entries into the tuple of a Sum/Product sampler (the model of
   np.sum / np.prod is exact for non-empty tuples only). *)
Theorem C19_pairs :
  forall (K : Type) (kadd kmul ksub kdiv : K -> K -> K) (kopp : K -> K) (e : aexp K) (s : sampler K),
    compile kadd kmul ksub kdiv kopp e = Ok s -> pairs_only s = true.
Proof.
  intros K kadd kmul ksub kdiv kopp e s. unfold compile, compile_with.
  pose proof (compile_pairs K kadd kmul ksub kdiv kopp e) as H.
  destruct (compile_op kadd kmul ksub kdiv kopp (hand_table kopp) e); [intros E; inversion E; subst; exact H | discriminate].
Qed.
Print Assumptions C19_pairs.

(* ---------- non-vacuity, on the rationals (Qcrt : ring_theory for Qc) ---------- *)
Definition qc (n : Z) (dn : positive) : Qc := Q2Qc (Qmake n dn).
(* inventory_init_demand of mirp_random.get_generator:
   (-(time_windows * (-cargo_size / time_between_windows)) + cargo_size) - cargo_size / 2
   with cargo_size = 1, time_windows = leaf 1, time_between_windows = leaf 2 *)
Definition ex_init_demand : aexp Qc :=
  ASub (AAdd (ANeg (AMul (ALeaf 1) (ADiv (ANeg (AConst (qc 1 1))) (ALeaf 2)))) (AConst (qc 1 1)))
       (ADiv (AConst (qc 1 1)) (AConst (qc 2 1))).
Definition ex_draws : nat -> nat -> nat -> list Qc :=
  fun i k m => repeat (if Nat.eqb i 1 then qc 3 1 else qc 4 1) m.

Example C19_example_hypotheses :
  ring_theory q0 q1 Qcplus Qcmult Qcminus Qcopp eq /\
  (forall i k m : nat, length (ex_draws i k m) = m) /\
  has_leaf ex_init_demand = true.
Proof. split; [exact Qcrt | split; [intros; apply repeat_length | reflexivity]]. Qed.

Example C19_example_value :
  exists s, qcompile ex_init_demand = Ok s /\
    let (v, lg) := rvs q1 Qcplus Qcmult Qcdiv Qcopp ex_draws 2 s [] in
    qvec_eqb v [qc 5 4; qc 5 4] = true /\ lg = [(1, 2); (2, 2)]%nat.
Proof. eexists. split; [reflexivity | vm_compute; split; reflexivity]. Qed.

(* the same leaf object twice: two draws, two different arrays *)
Example C19_example_twice :
  exists s, qcompile (ASub (ALeaf 7) (ALeaf 7)) = Ok s /\
    let (v, lg) := qrvs [(7%nat, [[qc 1 1; qc 2 1]; [qc 5 1; qc 1 2]])] 2 s [] in
    qvec_eqb v [qc (-4) 1; qc 3 2] = true /\ lg = [(7, 2); (7, 2)]%nat.
Proof. eexists. split; [reflexivity | vm_compute; split; reflexivity]. Qed.
