(* C03_forms -- the feasibility QUBO of each formulation MODEL is non-negative, zero exactly on the
   constraint-satisfying vectors, and "every zero-energy binary vector is a valid solution" in the
   meaning of the formulation.  Property theorems only; proofs live in theories/Compose_*_facts.v.

   The hypothesis `R entrywise >= 0` of C03 is discharged per formulation (arc, path: R is the zero
   matrix; sequence: C07_R_nonneg), so the C03 theorems apply to every instance of the models.

   Values.  For F in {arc, path, seq}:
     F_feas_value obj S x = x'Qx + k  for (Q, k) = get_qubo(feasibility=True, penalty_parameter=None)
   built from the model's own data through the adapters of C02_forms (C02_F_builder_output shows this
   is exactly what the shape-checked builder returns); S is the formulation's sufficient penalty,
   irrelevant in this mode.  `tab n x` is the list [x 0; ...; x (n-1)]. *)
From Coq Require Import ZArith List Sorting.Permutation.
From VQ Require Import Base LinAlg Penalty Penalty_facts Compose_facts Vrptw Vrptw_facts.
From VQ Require Arc Arc_facts Arc_routes Path Path_facts Seq Seq_facts.
From VQ Require Import Compose_arc_facts Compose_path_facts Compose_seq_facts.
Import ListNotations.
Open Scope Z_scope.

(* ====================================================================== *)
(* arc                                                                      *)
(* ====================================================================== *)
Theorem C03_arc_R_nonneg :
  forall (I : Arc.inst) i j, (i < arc_n I)%nat -> (j < arc_n I)%nat -> 0 <= arc_R I i j.
Proof. exact arc_R_nonneg. Qed.
Print Assumptions C03_arc_R_nonneg.

Theorem C03_arc_nonneg :
  forall (I : Arc.inst) (S : Z) (x : vec Z), Zbinary (Arc.num_variables I) x -> 0 <= arc_feas_value I S x.
Proof. exact arc_feas_nonneg. Qed.
Print Assumptions C03_arc_nonneg.

(* value 0 <-> the model's constraints A x = b hold (R = 0 contributes nothing) *)
Theorem C03_arc_zero_iff :
  forall (I : Arc.inst) (S : Z) (x : vec Z),
    let n := Arc.num_variables I in
    Zbinary n x ->
    (arc_feas_value I S x = 0 <-> Arc.Ax I (tab n x) = Arc.rhs I).
Proof. exact arc_feas_zero_iff. Qed.
Print Assumptions C03_arc_zero_iff.

(* every zero-energy binary vector is a valid solution: for a graph reachable through the VRPTW API
   (Inv), a duplicate-free grid and positive customer-to-customer travel times (as in C05_sound), the
   selected moves are, up to order, the concatenation of depot-to-depot routes (sroute: chained in node
   AND time, starts at the depot, returns to it only at the end), every move is admissible, and every
   customer is entered exactly once *)
Theorem C03_arc_zero_energy_is_route_set :
  forall (I : Arc.inst) (S : Z) (x : vec Z),
    let n := Arc.num_variables I in
    Inv (Arc.ig I) -> NoDup (Arc.igrid I) -> Arc_routes.pos_cc I -> Zbinary n x ->
    arc_feas_value I S x = 0 ->
    exists routes : list (list Arc.var),
      Permutation (Arc.selected I (tab n x)) (concat routes) /\
      Forall Arc_routes.sroute routes /\
      Forall (Arc_facts.valid_move I) (concat routes) /\
      forall j, (1 <= j < length (nodes (Arc.ig I)))%nat ->
                Arc_facts.cnt (Arc_facts.into_node j) (concat routes) = 1%nat.
Proof. exact arc_zero_routes. Qed.
Print Assumptions C03_arc_zero_energy_is_route_set.

(* conversely: a vector whose selected moves split into depot-to-depot chains entering every customer
   exactly once has value 0 *)
Theorem C03_arc_route_set_has_zero_energy :
  forall (I : Arc.inst) (S : Z) (x : vec Z) (routes : list (list Arc.var)),
    let n := Arc.num_variables I in
    NoDup (Arc.igrid I) -> Zbinary n x ->
    Permutation (Arc.selected I (tab n x)) (concat routes) -> Forall Arc_routes.walk routes ->
    (forall j, (1 <= j < length (nodes (Arc.ig I)))%nat ->
               Arc_facts.cnt (Arc_facts.into_node j) (concat routes) = 1%nat) ->
    arc_feas_value I S x = 0.
Proof. exact arc_routes_zero. Qed.
Print Assumptions C03_arc_route_set_has_zero_energy.

(* ====================================================================== *)
(* path                                                                     *)
(* ====================================================================== *)
Theorem C03_path_R_nonneg :
  forall (st : Path.pstate) i j, (i < path_n st)%nat -> (j < path_n st)%nat -> 0 <= path_R st i j.
Proof. exact path_R_nonneg. Qed.
Print Assumptions C03_path_R_nonneg.

Theorem C03_path_nonneg :
  forall (st : Path.pstate) (S : Z) (x : vec Z), Zbinary (Path.num_variables st) x -> 0 <= path_feas_value st S x.
Proof. exact path_feas_nonneg. Qed.
Print Assumptions C03_path_nonneg.

(* after every history with at least one node: value 0 <-> the selected stored routes visit every customer
   exactly once (path_cover_once: for every customer c there is exactly one selected route j with c on it;
   route_at st j is the j-th stored route) *)
Theorem C03_path_zero_iff_partition :
  forall cap init ops (S : Z) (x : vec Z),
    let st := Path.prun ops (Path.pempty cap init) in
    let n := Path.num_variables st in
    (0 < length (nodes (Path.pg st)))%nat -> Zbinary n x ->
    (path_feas_value st S x = 0 <->
     forall c, (1 <= c < length (nodes (Path.pg st)))%nat ->
       exists j, (j < n)%nat /\ x j = 1 /\ In c (route_at st j) /\
                 forall j', (j' < n)%nat -> x j' = 1 -> In c (route_at st j') -> j' = j).
Proof.
  intros cap init ops S x st n Hn Hb.
  destruct (Path_facts.prun_stored ops (Path.pempty cap init) (Path_facts.PInv_empty cap init)) as [HP _].
  exact (path_feas_zero_iff st S x HP Hn Hb).
Qed.
Print Assumptions C03_path_zero_iff_partition.

(* ... and every stored route (selected or not) was a route of the paper's definition in the state of the
   history in which it was added, with its arc-cost sum as objective coefficient (C06_store_once) *)
Theorem C03_path_stored_routes_valid :
  forall cap init ops j,
    let st := Path.prun ops (Path.pempty cap init) in
    (j < Path.num_variables st)%nat ->
    exists stk, In stk (Path.pstates ops (Path.pempty cap init)) /\
                Path.valid_route stk (route_at st j) /\ ~ In (route_at st j) (Path.proutes stk) /\
                path_c st j = Path.route_cost (Path.pg stk) (route_at st j).
Proof. exact path_stored_valid. Qed.
Print Assumptions C03_path_stored_routes_valid.

(* ====================================================================== *)
(* sequence                                                                 *)
(* ====================================================================== *)
Theorem C03_seq_R_nonneg :
  forall (I : Seq.inst) i j, (i < seq_n I)%nat -> (j < seq_n I)%nat -> 0 <= seq_R I i j.
Proof. exact seq_R_nonneg. Qed.
Print Assumptions C03_seq_R_nonneg.

Theorem C03_seq_nonneg :
  forall (I : Seq.inst) (S : Z) (x : vec Z), Zbinary (Seq.num_variables I) x -> 0 <= seq_feas_value I S x.
Proof. exact seq_feas_nonneg. Qed.
Print Assumptions C03_seq_nonneg.

(* value 0 <-> x is the indicator of a walk assignment (both directions; seq_ok: distinct arc keys, depot
   self-arc present, a depot exists -- true for every object whose depot was set through the class, C07) *)
Theorem C03_seq_zero_iff_walk_assignment :
  forall (I : Seq.inst) (S : Z) (x : vec Z),
    let n := Seq.num_variables I in
    Seq_facts.seq_ok I -> (3 <= Seq.iL I)%nat -> Zbinary n x ->
    (seq_feas_value I S x = 0 <->
     exists W, Seq.walk_assignment I W /\ forall k, (k < n)%nat -> x k = Seq.indicator_free I W k).
Proof. exact seq_feas_zero_iff. Qed.
Print Assumptions C03_seq_zero_iff_walk_assignment.

(* ====================================================================== *)
(* non-vacuity                                                              *)
(* ====================================================================== *)
Definition arc_ex : Arc.inst :=
  Arc.mkInst (mkGraph [10; 11]%nat [mkNode 10 0 0 PInf; mkNode 11 1 1 (Fin 2)]
                [((0, 1)%nat, mkArc 10 11 1 2); ((1, 0)%nat, mkArc 11 10 1 (-3))]) [3; 0; 2; 1].

(* hypotheses of C03_arc_zero_energy_is_route_set hold; x = (1,0,0,1,0,0) selects 0@0 -> 1@1 -> 0@2 and has
   value 0; (1,1,0,0,0,0) enters the customer twice and never leaves: value 3 *)
Example C03_arc_example :
  Inv (Arc.ig arc_ex) /\ NoDup (Arc.igrid arc_ex) /\ Arc_routes.pos_cc arc_ex /\
  Zbinary (Arc.num_variables arc_ex) (Zvec_of [1; 0; 0; 1; 0; 0]) /\
  arc_feas_value arc_ex 80 (Zvec_of [1; 0; 0; 1; 0; 0]) = 0 /\
  Arc.selected arc_ex (tab 6 (Zvec_of [1; 0; 0; 1; 0; 0])) = [(0%nat, 0, 1%nat, 1); (1%nat, 1, 0%nat, 2)] /\
  arc_feas_value arc_ex 80 (Zvec_of [1; 1; 0; 0; 0; 0]) = 3.
Proof.
  split.
  { change (Arc.ig arc_ex) with (run Base [OpAddNode 10 0 0 PInf; OpAddNode 11 1 1 (Fin 2);
                                           OpAddArc 10 11 1 2; OpAddArc 11 10 1 (-3)] empty_graph).
    apply run_inv. exact Inv_empty. }
  split; [repeat constructor; simpl; intuition discriminate|].
  split.
  { intros i j a H Hi Hj. simpl in H.
    destruct i as [|[|i]], j as [|[|j]]; simpl in H; try discriminate; try congruence. }
  split.
  { change (Arc.num_variables arc_ex) with (length [1; 0; 0; 1; 0; 0]). apply binL_vec_of, binLb_sound. reflexivity. }
  vm_compute. repeat split; reflexivity.
Qed.

Definition path_ops : list Path.pop :=
  [Path.PAddNode 10 0 0 PInf; Path.PAddNode 11 1 0 (Fin 9); Path.PAddNode 12 1 0 (Fin 9);
   Path.PAddArc 10 11 1 2; Path.PAddArc 11 10 1 3; Path.PAddArc 10 12 1 4; Path.PAddArc 12 10 1 (-1);
   Path.PAddArc 11 12 1 1;
   Path.PAddRoute [inr 0; inr 1; inr 0]; Path.PAddRoute [inr 0; inr 2; inr 0];
   Path.PAddRoute [inr 0; inr 1; inr 2; inr 0]].
Definition path_ex : Path.pstate := Path.prun path_ops (Path.pempty 5 2).

(* routes D-A-D, D-B-D, D-A-B-D: (1,1,0) and (0,0,1) partition the customers (value 0), (1,0,1) visits A
   twice (value 1), nothing selected: value 2 *)
Example C03_path_example :
  Path.proutes path_ex = [[0; 1; 0]; [0; 2; 0]; [0; 1; 2; 0]]%nat /\
  map (fun xl => path_feas_value path_ex 10 (Zvec_of xl)) [[1; 1; 0]; [0; 0; 1]; [1; 0; 1]; [0; 0; 0]]
  = [0; 0; 1; 2].
Proof. vm_compute. split; reflexivity. Qed.

Definition seq_ex : Seq.inst :=
  Seq.mkInst (run (Seq false)
              [OpAddNode 10 0 0 PInf; OpAddNode 11 1 0 (Fin 5); OpAddNode 12 1 0 (Fin 8); OpSetDepot 10;
               OpAddArc 10 11 1 2; OpAddArc 11 12 1 3; OpAddArc 12 10 1 4] empty_graph)
         1 4 [5].

(* the hypotheses hold; (0,1,0,1) is the walk D-A-B-D (value 0); (1,0,1,0) keeps the vehicle at the depot and
   serves nobody (value 2) *)
Example C03_seq_example :
  Seq_facts.seq_ok seq_ex /\ (3 <= Seq.iL seq_ex)%nat /\
  Zbinary (Seq.num_variables seq_ex) (Zvec_of [0; 1; 0; 1]) /\
  seq_feas_value seq_ex 116 (Zvec_of [0; 1; 0; 1]) = 0 /\
  seq_feas_value seq_ex 116 (Zvec_of [1; 0; 1; 0]) = 2.
Proof.
  split.
  { apply Seq_facts.depot_set_seq_ok. split; [apply run_inv, Inv_empty|]. vm_compute. auto 10. }
  split; [vm_compute; lia|].
  split.
  { change (Seq.num_variables seq_ex) with (length [0; 1; 0; 1]). apply binL_vec_of, binLb_sound. reflexivity. }
  vm_compute. split; reflexivity.
Qed.
