(* C18 (sequence half) -- variable index maps of the sequence-based formulation enumerate exactly
   the decision tuples (vehicle, position, node) that the six fixing rules leave free.
   Property theorems only; proofs live in theories/Seq_facts.v. *)
From VQ Require Import Base Vrptw Seq Seq_facts.

(* A tuple is a variable iff it lies in V x L x N and none of the six rules fixes it:
   it is not at the first or the last position; at position 1 its node is reachable from the
   depot by an arc; at position L-2 its node has an arc back to the depot.
   (S s = L is the integer test s == L-1, S (S s) = L is s == L-2.) *)
Theorem C18_seq_exact : forall (I : inst) (v s n : nat),
  In (v, s, n) (vars I) <->
  (v < iV I)%nat /\ (s < iL I)%nat /\ (n < iN I)%nat /\
  (s <> 0%nat /\ S s <> iL I /\
   (s = 1%nat -> In (0%nat, n) (map fst (arcs (ig I)))) /\
   (S (S s) = iL I -> In (n, 0%nat) (map fst (arcs (ig I))))).
Proof. exact vars_exact. Qed.
Print Assumptions C18_seq_exact.

Theorem C18_seq_nodup : forall I : inst, NoDup (vars I).
Proof. exact NoDup_vars. Qed.
Print Assumptions C18_seq_nodup.

(* the counter that enumerate_variables increments equals the length of var_mapping *)
Theorem C18_seq_count : forall I : inst, num_variables I = length (vars I).
Proof. exact num_variables_length. Qed.
Print Assumptions C18_seq_count.

(* get_var_index (through var_mapping_inverse, -1 -> None, out of range -> None) and
   get_var_tuple_index are mutual inverses; inadmissible tuples and indices >= n map to nothing *)
Theorem C18_seq_inverse : forall I : inst,
  (forall t, In t (vars I) -> exists k, var_index I t = Some k /\ var_tuple I k = Some t) /\
  (forall k, (k < num_variables I)%nat -> exists t, var_tuple I k = Some t /\ var_index I t = Some k) /\
  (forall t, ~ In t (vars I) -> var_index I t = None) /\
  (forall k, (num_variables I <= k)%nat -> var_tuple I k = None).
Proof. intros I. rewrite num_variables_length. exact (inverse_laws I). Qed.
Print Assumptions C18_seq_inverse.

(* fixed_values is defined exactly on the complement (inside V x L x N) with value 1 for the depot
   at the first position and at the last position (unless L = 2 and there is no depot self-arc, where
   rule 3 comes first), 0 otherwise *)
Theorem C18_seq_fixed : forall (I : inst) (v s n : nat) (z : Z),
  fixed I (v, s, n) = Some z <->
  (v < iV I)%nat /\ (s < iL I)%nat /\ (n < iN I)%nat /\ ~ free_pred I s n /\
  (z = 1 /\ one_pred I s n \/ z = 0 /\ ~ one_pred I s n).
Proof. exact fixed_exact. Qed.
Print Assumptions C18_seq_fixed.

Theorem C18_seq_fixed_none : forall (I : inst) (v s n : nat),
  fixed I (v, s, n) = None <->
  ~ ((v < iV I)%nat /\ (s < iL I)%nat /\ (n < iN I)%nat) \/ free_pred I s n.
Proof. exact fixed_None_exact. Qed.
Print Assumptions C18_seq_fixed_none.

(* every tuple of V x L x N is a variable or a key of fixed_values, never both *)
Theorem C18_seq_partition : forall (I : inst) (v s n : nat),
  (v < iV I)%nat -> (s < iL I)%nat -> (n < iN I)%nat ->
  (exists k, var_index I (v, s, n) = Some k /\ fixed I (v, s, n) = None) \/
  (exists z, var_index I (v, s, n) = None /\ fixed I (v, s, n) = Some z).
Proof. exact fixed_or_free. Qed.
Print Assumptions C18_seq_partition.

(* Non-vacuity: depot D, customers A and B, arcs D->A, A->B, B->D (no D->B, no A->D), depot set
   through the class, two vehicles, four positions.  Position 1 admits D and A, position 2 admits
   D and B; the other ten tuples per vehicle are fixed. *)
Definition C18_seq_example : inst :=
  mkInst (run (Seq false)
              [OpAddNode 10 0 0 PInf; OpAddNode 11 1 0 (Fin 5); OpAddNode 12 1 0 (Fin 8); OpSetDepot 10;
               OpAddArc 10 11 1 2; OpAddArc 11 12 1 3; OpAddArc 12 10 1 4] empty_graph)
         2 4 [0; 0].

Example C18_seq_example_vars :
  vars C18_seq_example =
    [(0, 1, 0); (1, 1, 0); (0, 1, 1); (1, 1, 1); (0, 2, 0); (1, 2, 0); (0, 2, 2); (1, 2, 2)]%nat /\
  length (fixed_items C18_seq_example) = 16%nat /\
  var_index C18_seq_example (1, 2, 2)%nat = Some 7%nat /\
  var_index C18_seq_example (1, 2, 1)%nat = None /\
  fixed C18_seq_example (1, 2, 1)%nat = Some 0 /\
  fixed C18_seq_example (1, 3, 0)%nat = Some 1 /\
  var_tuple C18_seq_example 8 = None.
Proof. vm_compute. repeat split; reflexivity. Qed.
