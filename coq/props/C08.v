(* C08 -- the three formulations agree on the optimum of the same VRPTW.
   Property theorems only; proofs live in theories/Routes_facts.v (path-based part),
   Routes_arc_facts.v and Routes_seq_facts.v (corollaries of C05 / C07), Routes_close_facts.v (the views
   proved for constructor-built sequence objects; sequence QUBOs with S = S_seq) and Routes_arcq_facts.v
   (arc-based QUBO).

   Reference problem (theories/Routes.v): a solution of the VRPTW read in a path-based state st is a
   duplicate-free list R of routes (Path.valid_route, the route definition of the paper, capacity
   included) on which every customer 1 .. n-1 lies exactly once (`partition st R`), its cost is
   `total_cost st R`.  No minimum over a possibly empty set is formed: two problems are compared through
   the sets { v | some feasible solution has cost v }, which gives equal feasibility and equal optima. *)
From Coq Require Import ZArith List Bool Lia.
From Coq Require Import Sorting.Permutation.
From VQ Require Import Base LinAlg Vrptw Vrptw_facts Path Path_facts Penalty Penalty_facts Compose_facts
                       Routes Routes_facts Routes_views Routes_seq_facts Routes_arc_facts
                       Routes_close_facts Routes_arcq_facts.
(* the arc and sequence developments are required without Import (inst, node_at, vars, valid_route, ... clash) *)
From VQ Require Arc Arc_ref Arc_facts Arc_routes Seq Seq_facts Compose_arc_facts Compose_seq_facts.
Import ListNotations.
Open Scope Z_scope.

(* ====================================================================== *)
(* 1. path-based model with all valid routes enumerated = route partitioning *)
(* ====================================================================== *)
(* st: any state reached by a history of add_node / add_arc / add_route / check_route / queries, with at
   least one node, whose stored routes are valid in the CURRENT graph with their current costs
   (stored_current) and whose pool holds every valid route (pool_complete).  s = the 0-1 program the
   object returns: get_constraint_data() with the shape it reports ((n-1) x #routes) and
   get_objective_data().  Then for every v: some 0-1 list of length #routes with A x = b, x'Rx = 0 has
   objective v  <->  some route partition has cost v. *)
Theorem C08_path_equiv : forall cap init ops,
  let st := prun ops (pempty cap init) in
  (0 < num_nodes st)%nat -> stored_current st -> pool_complete st ->
  exists s, path_sys st = Ok s /\
    zs_rows s = (num_nodes st - 1)%nat /\ zs_cols s = length (proutes st) /\
    forall v, (exists xl, list_solution s xl /\ sys_value s (Zvec_of xl) = v) <->
              (exists R, partition st R /\ total_cost st R = v).
Proof.
  intros cap init ops st Hn Hcur Hpool.
  destruct (prun_stored ops (pempty cap init) (PInv_empty cap init)) as [HP _]. fold st in HP.
  destruct (path_sys_ok st HP Hn) as (s & Es & Hs). exists s.
  split; [exact Es|]. split; [apply Hs|]. split; [apply Hs|].
  intros v. rewrite list_solution_iff. exact (path_equiv st s HP Hs Hcur Hpool v).
Qed.
Print Assumptions C08_path_equiv.

(* the two directions with their witnesses, for vectors as functions (the form C04 uses):
   a feasible x selects the sub-list of stored routes with non-zero entry, which is a partition of the
   same cost and has x as indicator vector; the indicator vector of a partition is feasible with the
   same cost *)
Theorem C08_path_directions : forall cap init ops,
  let st := prun ops (pempty cap init) in
  (0 < num_nodes st)%nat -> stored_current st ->
  exists s, path_sys st = Ok s /\
    (forall x, sys_feasible s x ->
       partition st (select x (proutes st)) /\ total_cost st (select x (proutes st)) = sys_value s x /\
       indicator_of st (select x (proutes st)) x) /\
    (pool_complete st -> forall R x, partition st R -> indicator_of st R x ->
       sys_feasible s x /\ sys_value s x = total_cost st R).
Proof.
  intros cap init ops st Hn Hcur.
  destruct (prun_stored ops (pempty cap init) (PInv_empty cap init)) as [HP _]. fold st in HP.
  destruct (path_sys_ok st HP Hn) as (s & Es & Hs). exists s. split; [exact Es|]. split.
  - exact (path_feasible_partition st s HP Hs Hcur).
  - intros Hpool. exact (path_partition_feasible st s HP Hs Hcur Hpool).
Qed.
Print Assumptions C08_path_directions.

(* the hypotheses are met by the usual way of using the class: build the graph first, then call
   add_route / check_route only (stored_current); and by calling add_route on every candidate
   depot - distinct customers - depot (pool_complete), which is what the runtime check does *)
Theorem C08_stored_current_when_routes_come_last : forall cap init build routes_ops,
  forallb (fun o => negb (route_op o)) build = true ->
  forallb (fun o => negb (graph_op o)) routes_ops = true ->
  stored_current (prun (build ++ routes_ops) (pempty cap init)).
Proof. exact stored_current_build_then_routes. Qed.
Print Assumptions C08_stored_current_when_routes_come_last.

Theorem C08_all_routes_enumerated : forall cap init build,
  forallb (fun o => negb (route_op o)) build = true ->
  let st0 := prun build (pempty cap init) in
  let st := prun (build ++ add_all_candidates (num_nodes st0)) (pempty cap init) in
  stored_current st /\ pool_complete st /\ pg st = pg st0.
Proof. exact enumerated_pool. Qed.
Print Assumptions C08_all_routes_enumerated.

(* ====================================================================== *)
(* 2. ... and its default-penalty QUBO (composition with C04)              *)
(* ====================================================================== *)
(* S = S_path(route costs) = get_sufficient_penalty(False), rho = S + 1 (C04).  When a partition exists:
   the binary minimisers of the QUBO value are exactly the indicator vectors of the optimal partitions,
   and the minimum equals the least partition cost.  (sys_qubo_value s S x is literally the `value` of
   C04_default_exact for the path data A = cover, b = ones, R = 0, c = route costs, Qo = 0; the proof
   instantiates that theorem with coeff_sum = S_path, C04_S_path.) *)
Theorem C08_path_qubo : forall cap init ops,
  let st := prun ops (pempty cap init) in
  (0 < num_nodes st)%nat -> stored_current st -> pool_complete st ->
  (exists R, partition st R) ->
  exists s, path_sys st = Ok s /\
    let S := S_path (pcosts st) in
    (forall x, sys_qubo_min s S x <->
               exists R, optimal_partition st R /\ indicator_of st R x /\ Zbinary (zs_cols s) x) /\
    (forall x R, sys_qubo_min s S x -> optimal_partition st R -> sys_qubo_value s S x = total_cost st R).
Proof.
  intros cap init ops st Hn Hcur Hpool Hex.
  destruct (prun_stored ops (pempty cap init) (PInv_empty cap init)) as [HP _]. fold st in HP.
  destruct (path_sys_ok st HP Hn) as (s & Es & Hs). exists s. split; [exact Es|].
  exact (path_qubo st s HP Hs Hcur Hpool Hex).
Qed.
Print Assumptions C08_path_qubo.

(* ====================================================================== *)
(* 3. arc-based and sequence-based corollaries (C05, C07)                   *)
(* ====================================================================== *)
(* Common hypotheses on the VRPTW st:
     no_depot_loop st    the VRPTW graph has no depot self-arc (the empty trip is not a route),
     capacity_free st    capacity is not binding: along every trip depot - pairwise distinct customers - depot every
                         partial load is in [0, cap] (the node sequences a route can be; nothing is asked of others).
   arc_solution I x v := x is a 0-1 list of length num_variables with A x = b and c.x = v (C05's terms);
   seq_solution I x v := x is a 0-1 vector with A x = b, x'Rx = 0 and c.x + x'Qo x = v (C07's terms). *)

(* 3a. arc-based object on the same graph, grid values pairwise distinct and containing 0 and every
   service time of every valid route, customer-to-customer travel times positive (C05_sound needs it),
   depot window opening at 0: the arc-based 0-1 program and the route-partition problem attain the same
   set of costs.  (x -> R: C05_sound, C05_project, C05_objective; R -> x: C05_complete.) *)
Theorem C08_arc_equiv : forall (st : pstate) (I : Arc.inst) (v : Z),
  Arc.ig I = pg st -> Inv (pg st) -> NoDup (Arc.igrid I) -> no_depot_loop st ->
  nlo (Path.node_at (pg st) 0) = 0 -> Arc_routes.pos_cc I -> capacity_free st ->
  grid_complete st (Arc.igrid I) ->
  ((exists x, arc_solution I x v) <-> (exists R, partition st R /\ total_cost st R = v)).
Proof. exact arc_equiv. Qed.
Print Assumptions C08_arc_equiv.

(* ... and its default-penalty QUBO (composition with C04_arc_exact, whose S = S_arc = sum |arc cost| *
   len(time_points)^2 is proved to dominate the coefficient sum, C04_arc_coeff_bound).
     Compose_arc_facts.arc_default_value I x   x'Qx + k for (Q, k) = get_qubo(False, None) on the arc data,
                                               rho = S_arc + 1  (the subject of C04_arc_exact);
     Compose_arc_facts.arc_qubo_min I x        x : nat -> Z is binary on 0..n-1 and minimises that value over
                                               all binary vectors;
     tab n x = [x 0; ...; x (n-1)]             the 0-1 LIST that C05 / C08_arc_equiv speak about (bridge between
                                               the two representations: Routes_arcq_facts.arc_solution_of_vec,
                                               vec_of_arc_solution);
     moves_route r                             depot, destinations of all moves of the chain r but the last, depot.
   Under the hypotheses of C08_arc_equiv, when the VRPTW is feasible:
   (1) the binary minimisers are exactly the binary vectors that solve the arc program with the cost of an
       optimal partition;
   (2) the selected variables of a minimiser split (up to order) into depot-to-depot chains (C05's sroute)
       whose node lists form an optimal partition, of cost = the QUBO minimum;
   (3) the minimum equals the least partition cost. *)
Theorem C08_arc_qubo : forall (st : pstate) (I : Arc.inst),
  Arc.ig I = pg st -> Inv (pg st) -> NoDup (Arc.igrid I) -> no_depot_loop st ->
  nlo (Path.node_at (pg st) 0) = 0 -> Arc_routes.pos_cc I -> capacity_free st ->
  grid_complete st (Arc.igrid I) ->
  (exists R, partition st R) ->
  let n := Arc.num_variables I in
  (forall x, Compose_arc_facts.arc_qubo_min I x <->
     (Zbinary n x /\ exists R, optimal_partition st R /\ arc_solution I (tab n x) (total_cost st R))) /\
  (forall x, Compose_arc_facts.arc_qubo_min I x ->
     exists routes : list (list Arc.var),
       Permutation (Arc.selected I (tab n x)) (concat routes) /\ Forall Arc_routes.sroute routes /\
       optimal_partition st (map moves_route routes) /\
       total_cost st (map moves_route routes) = Compose_arc_facts.arc_default_value I x) /\
  (forall x R, Compose_arc_facts.arc_qubo_min I x -> optimal_partition st R ->
     Compose_arc_facts.arc_default_value I x = total_cost st R).
Proof. exact arc_qubo. Qed.
Print Assumptions C08_arc_qubo.

(* 3b. non-strict sequence-based object on the VRPTW graph (seq_view: same nodes, same arcs plus the depot
   self-arc of cost 0, vehicle costs 0) with V >= #customers and L >= #customers + 2 (and L >= 3, C07):
   every route partition R embeds, one route per vehicle padded with depot stays, as a walk assignment
   whose objective is total_cost st R ... *)
Theorem C08_seq_embedding : forall (st : pstate) (I : Seq.inst) (R : list (list nat)),
  Inv (pg st) -> no_depot_loop st -> seq_view st I ->
  (1 <= num_nodes st)%nat ->
  (num_nodes st - 1 <= Seq.iV I)%nat -> (num_nodes st - 1 + 2 <= Seq.iL I)%nat ->
  partition st R ->
  Seq.walk_assignment I (Seq.pad_walks (map interior R)) /\
  seq_cost I (Seq.pad_walks (map interior R)) = total_cost st R.
Proof. intros st I R HI Hl Hv. exact (seq_embed st I HI Hl Hv R). Qed.
Print Assumptions C08_seq_embedding.

(* ... hence (C07_iff, C07_objective) every cost attained by a partition is attained by a solution of the
   non-strict 0-1 program: VRPTW feasible -> non-strict feasible, non-strict optimum <= VRPTW optimum *)
Theorem C08_seq_nonstrict_le : forall (st : pstate) (I : Seq.inst) (v : Z),
  Inv (pg st) -> no_depot_loop st -> seq_view st I ->
  (1 <= num_nodes st)%nat -> (3 <= Seq.iL I)%nat ->
  (num_nodes st - 1 <= Seq.iV I)%nat -> (num_nodes st - 1 + 2 <= Seq.iL I)%nat ->
  (exists R, partition st R /\ total_cost st R = v) ->
  exists x, seq_solution I x v.
Proof. intros st I v HI Hl Hv. exact (seq_nonstrict_le st I HI Hl Hv v). Qed.
Print Assumptions C08_seq_nonstrict_le.

(* seq_view is what SequenceBasedRoutingProblem(vrptw, strict=False) builds from the VRPTW graph *)
Theorem C08_seq_view_of_constructor : forall st g' V L vc,
  Inv (pg st) -> nodes (pg st) <> [] ->
  Seq.seq_init false (pg st) = Ok g' -> (forall v, nth v vc 0 = 0) ->
  seq_view st (Seq.mkInst g' V L vc).
Proof. exact seq_view_of_constructor. Qed.
Print Assumptions C08_seq_view_of_constructor.

(* ... so for the object the non-strict constructor builds no view hypothesis is left *)
Theorem C08_seq_nonstrict_le_constructor : forall (st : pstate) (g' : graph) (V L : nat) (vc : list Z) (v : Z),
  Inv (pg st) -> (1 <= num_nodes st)%nat -> no_depot_loop st ->
  Seq.seq_init false (pg st) = Ok g' -> (forall k, nth k vc 0 = 0) ->
  (3 <= L)%nat -> (num_nodes st - 1 <= V)%nat -> (num_nodes st - 1 + 2 <= L)%nat ->
  (exists R, partition st R /\ total_cost st R = v) ->
  exists x, seq_solution (Seq.mkInst g' V L vc) x v.
Proof. exact seq_nonstrict_le_constructor. Qed.
Print Assumptions C08_seq_nonstrict_le_constructor.

(* 3c. strict object (seq_view_strict: its arcs other than the depot self-arc are arcs of the VRPTW with the
   same data; strict_graph / windows_ok: the hypotheses of C07_strict_time), depot window starting at or
   after 0: every walk assignment projects -- each vehicle's stops up to its first return to the depot --
   to a route partition of the same cost ... *)
Theorem C08_seq_projection : forall (st : pstate) (I : Seq.inst) (W : nat -> nat -> nat),
  no_depot_loop st -> seq_view_strict st I ->
  Seq_facts.strict_graph (Seq.ig I) -> Seq_facts.windows_ok (Seq.ig I) ->
  capacity_free st -> 0 <= nlo (Path.node_at (pg st) 0) -> (2 <= Seq.iL I)%nat ->
  Seq.walk_assignment I W ->
  partition st (walk_routes I W) /\ total_cost st (walk_routes I W) = seq_cost I W.
Proof. intros st I W. exact (seq_strict_project st I W). Qed.
Print Assumptions C08_seq_projection.

(* ... hence every cost attained by a solution of the strict 0-1 program is the cost of a route partition:
   strict optimum >= VRPTW optimum *)
Theorem C08_seq_strict_ge : forall (st : pstate) (I : Seq.inst) (v : Z),
  no_depot_loop st -> seq_view_strict st I ->
  Seq_facts.strict_graph (Seq.ig I) -> Seq_facts.windows_ok (Seq.ig I) ->
  capacity_free st -> 0 <= nlo (Path.node_at (pg st) 0) ->
  (1 <= num_nodes st)%nat -> (3 <= Seq.iL I)%nat ->
  (exists x, seq_solution I x v) ->
  exists R, partition st R /\ total_cost st R = v.
Proof. exact seq_strict_ge. Qed.
Print Assumptions C08_seq_strict_ge.

(* ... and strict feasibility implies feasibility of the VRPTW (hence, by C08_path_equiv / C08_arc_equiv /
   C08_seq_nonstrict_le, of the other three programs under their hypotheses) *)
Theorem C08_strict_feasible_implies_feasible : forall (st : pstate) (I : Seq.inst),
  no_depot_loop st -> seq_view_strict st I ->
  Seq_facts.strict_graph (Seq.ig I) -> Seq_facts.windows_ok (Seq.ig I) ->
  capacity_free st -> 0 <= nlo (Path.node_at (pg st) 0) ->
  (1 <= num_nodes st)%nat -> (3 <= Seq.iL I)%nat ->
  (exists x v, seq_solution I x v) -> exists R, partition st R.
Proof.
  intros st I Hl Hv Hsg Hw Hc Hd Hn HL (x & v & Hx).
  destruct (seq_strict_ge st I v Hl Hv Hsg Hw Hc Hd Hn HL (ex_intro _ x Hx)) as (R & HR & _).
  exists R; exact HR.
Qed.
Print Assumptions C08_strict_feasible_implies_feasible.

(* 3c'. seq_view_strict, strict_graph and windows_ok are PROVED for the object that
   SequenceBasedRoutingProblem(vrptw, strict=True) builds from the VRPTW graph (at least one node, vehicle
   costs 0): the constructor's loop re-adds the stored arcs by the names of their endpoints through the strict
   add_arc, so every arc it stores is an arc of the VRPTW under the same key with the same data
   (Routes_close_facts.refilter_sub); then set_depot on the first node stores the depot self-arc (0, 0). *)
Theorem C08_seq_strict_view_of_constructor : forall st g' V L vc,
  Inv (pg st) -> nodes (pg st) <> [] ->
  Seq.seq_init true (pg st) = Ok g' -> (forall v, nth v vc 0 = 0) ->
  seq_view_strict st (Seq.mkInst g' V L vc) /\
  Seq_facts.strict_graph g' /\ Seq_facts.windows_ok g'.
Proof. exact seq_view_strict_of_constructor. Qed.
Print Assumptions C08_seq_strict_view_of_constructor.

(* hence C08_seq_projection / C08_seq_strict_ge / C08_strict_feasible_implies_feasible for constructor-built
   strict objects, without any hypothesis on the sequence object *)
Theorem C08_seq_projection_constructor :
  forall (st : pstate) (g' : graph) (V L : nat) (vc : list Z) (W : nat -> nat -> nat),
  Inv (pg st) -> (1 <= num_nodes st)%nat ->
  Seq.seq_init true (pg st) = Ok g' -> (forall k, nth k vc 0 = 0) ->
  no_depot_loop st -> capacity_free st -> 0 <= nlo (Path.node_at (pg st) 0) -> (2 <= L)%nat ->
  let I := Seq.mkInst g' V L vc in
  Seq.walk_assignment I W ->
  partition st (walk_routes I W) /\ total_cost st (walk_routes I W) = seq_cost I W.
Proof. exact seq_strict_project_constructor. Qed.
Print Assumptions C08_seq_projection_constructor.

Theorem C08_seq_strict_ge_constructor :
  forall (st : pstate) (g' : graph) (V L : nat) (vc : list Z) (v : Z),
  Inv (pg st) -> (1 <= num_nodes st)%nat ->
  Seq.seq_init true (pg st) = Ok g' -> (forall k, nth k vc 0 = 0) ->
  no_depot_loop st -> capacity_free st -> 0 <= nlo (Path.node_at (pg st) 0) -> (3 <= L)%nat ->
  (exists x, seq_solution (Seq.mkInst g' V L vc) x v) ->
  exists R, partition st R /\ total_cost st R = v.
Proof. exact seq_strict_ge_constructor. Qed.
Print Assumptions C08_seq_strict_ge_constructor.

Theorem C08_strict_feasible_implies_feasible_constructor :
  forall (st : pstate) (g' : graph) (V L : nat) (vc : list Z),
  Inv (pg st) -> (1 <= num_nodes st)%nat ->
  Seq.seq_init true (pg st) = Ok g' -> (forall k, nth k vc 0 = 0) ->
  no_depot_loop st -> capacity_free st -> 0 <= nlo (Path.node_at (pg st) 0) -> (3 <= L)%nat ->
  (exists x v, seq_solution (Seq.mkInst g' V L vc) x v) -> exists R, partition st R.
Proof.
  intros st g' V L vc HI Hn Hinit Hvc Hl Hc Hd HL (x & v & Hx).
  destruct (seq_strict_ge_constructor st g' V L vc v HI Hn Hinit Hvc Hl Hc Hd HL (ex_intro _ x Hx)) as (R & HR & _).
  exists R; exact HR.
Qed.
Print Assumptions C08_strict_feasible_implies_feasible_constructor.

(* 3d. the default-penalty QUBOs (C04).  For any constrained 0-1 program s = (A, b, R, c, Qo) with R >= 0,
   S >= the sum of the |objective coefficients| and a feasible point: the binary minimisers of
   get_qubo(False, None) built with rho = S + 1 are the constrained optima and the minimum is the optimal
   value.  (C04_default_exact restated in the vocabulary of this file; C08_path_qubo is its instance for the
   path data, where S = S_path is proved to be the coefficient sum.) *)
Theorem C08_qubo_of_program : forall (s : zsys) (S : Z),
  R_nonneg (zs_cols s) (zs_R s) -> coeff_sum (zs_cols s) (zs_c s) (zs_Qo s) <= S ->
  (exists z, sys_feasible s z) ->
  (forall x, sys_qubo_min s S x <->
             (sys_feasible s x /\ forall y, sys_feasible s y -> sys_value s x <= sys_value s y)) /\
  (forall x y, sys_qubo_min s S x -> sys_feasible s y ->
               (forall z, sys_feasible s z -> sys_value s y <= sys_value s z) ->
               sys_qubo_value s S x = sys_value s y).
Proof. exact sys_default_exact. Qed.
Print Assumptions C08_qubo_of_program.

(* Sequence-based QUBOs.
     seq_sys I E          the program (A, b, R, c, Qo) of the sequence object, E = the appended entries of R;
     S                    = S_seq L (arc costs in dict order) (vehicle costs) = get_sufficient_penalty(False),
                            rho = S + 1.  That S dominates the sum of the |objective coefficients| of Seq.v's
                            builders is C04_seq_coeff_bound (Compose_seq_facts.seq_coeff_bound_model), which needs
                            len(vehicle_cost) = max_vehicles (kept by set_max_vehicles / make_feasible).
   First for every S that bounds the coefficient sum (the former `_partial` statements, kept because they are
   more general), then closed with S = S_seq, then for constructor-built objects. *)
Theorem C08_seq_nonstrict_qubo_le_for_bound : forall (st : pstate) (I : Seq.inst) (E : list (nat * nat)) (S : Z),
  Inv (pg st) -> no_depot_loop st -> seq_view st I ->
  (1 <= num_nodes st)%nat -> (3 <= Seq.iL I)%nat ->
  (num_nodes st - 1 <= Seq.iV I)%nat -> (num_nodes st - 1 + 2 <= Seq.iL I)%nat ->
  Seq.R_entries I = Ok E ->
  coeff_sum (Seq.num_variables I) (Seq.cvec I) (Seq.Qo I) <= S ->
  forall R x, partition st R -> sys_qubo_min (seq_sys I E) S x ->
    sys_qubo_value (seq_sys I E) S x <= total_cost st R /\
    exists W, Seq.walk_assignment I W /\ seq_cost I W = sys_qubo_value (seq_sys I E) S x.
Proof. exact seq_nonstrict_qubo_le. Qed.
Print Assumptions C08_seq_nonstrict_qubo_le_for_bound.

Theorem C08_seq_strict_qubo_ge_for_bound : forall (st : pstate) (I : Seq.inst) (E : list (nat * nat)) (S : Z),
  no_depot_loop st -> seq_view_strict st I ->
  Seq_facts.strict_graph (Seq.ig I) -> Seq_facts.windows_ok (Seq.ig I) ->
  capacity_free st -> 0 <= nlo (Path.node_at (pg st) 0) ->
  (1 <= num_nodes st)%nat -> (3 <= Seq.iL I)%nat ->
  Seq.R_entries I = Ok E ->
  coeff_sum (Seq.num_variables I) (Seq.cvec I) (Seq.Qo I) <= S ->
  (exists z v, seq_solution I z v) ->
  forall x, sys_qubo_min (seq_sys I E) S x ->
    exists R, partition st R /\ total_cost st R = sys_qubo_value (seq_sys I E) S x.
Proof. exact seq_strict_qubo_ge. Qed.
Print Assumptions C08_seq_strict_qubo_ge_for_bound.

(* closed: S = get_sufficient_penalty(False).  A minimiser of the non-strict default-penalty QUBO costs at most
   as much as any route partition and its value is the cost of a walk assignment ... *)
Theorem C08_seq_nonstrict_qubo_le : forall (st : pstate) (I : Seq.inst) (E : list (nat * nat)),
  let S := S_seq (Z.of_nat (Seq.iL I)) (map (fun kv => acost (snd kv)) (arcs (Seq.ig I))) (Seq.ivc I) in
  Inv (pg st) -> no_depot_loop st -> seq_view st I ->
  (1 <= num_nodes st)%nat -> (3 <= Seq.iL I)%nat ->
  (num_nodes st - 1 <= Seq.iV I)%nat -> (num_nodes st - 1 + 2 <= Seq.iL I)%nat ->
  length (Seq.ivc I) = Seq.iV I ->
  Seq.R_entries I = Ok E ->
  forall R x, partition st R -> sys_qubo_min (seq_sys I E) S x ->
    sys_qubo_value (seq_sys I E) S x <= total_cost st R /\
    exists W, Seq.walk_assignment I W /\ seq_cost I W = sys_qubo_value (seq_sys I E) S x.
Proof. intros st I E S. exact (seq_nonstrict_qubo_le_closed st I E). Qed.
Print Assumptions C08_seq_nonstrict_qubo_le.

(* ... and the minimum of the strict default-penalty QUBO (when the strict program is feasible) is the cost of
   a route partition, hence at least the VRPTW optimum *)
Theorem C08_seq_strict_qubo_ge : forall (st : pstate) (I : Seq.inst) (E : list (nat * nat)),
  let S := S_seq (Z.of_nat (Seq.iL I)) (map (fun kv => acost (snd kv)) (arcs (Seq.ig I))) (Seq.ivc I) in
  no_depot_loop st -> seq_view_strict st I ->
  Seq_facts.strict_graph (Seq.ig I) -> Seq_facts.windows_ok (Seq.ig I) ->
  capacity_free st -> 0 <= nlo (Path.node_at (pg st) 0) ->
  (1 <= num_nodes st)%nat -> (3 <= Seq.iL I)%nat ->
  length (Seq.ivc I) = Seq.iV I ->
  Seq.R_entries I = Ok E ->
  (exists z v, seq_solution I z v) ->
  forall x, sys_qubo_min (seq_sys I E) S x ->
    exists R, partition st R /\ total_cost st R = sys_qubo_value (seq_sys I E) S x.
Proof. intros st I E S. exact (seq_strict_qubo_ge_closed st I E). Qed.
Print Assumptions C08_seq_strict_qubo_ge.

(* the same for the objects the two constructors build on the VRPTW graph (vehicle_cost = V zeros): the only
   hypotheses left are on the VRPTW and on V, L *)
Theorem C08_seq_nonstrict_qubo_le_constructor :
  forall (st : pstate) (g' : graph) (V L : nat) (vc : list Z) (E : list (nat * nat)),
  let I := Seq.mkInst g' V L vc in
  let S := S_seq (Z.of_nat L) (map (fun kv => acost (snd kv)) (arcs g')) vc in
  Inv (pg st) -> (1 <= num_nodes st)%nat -> no_depot_loop st ->
  Seq.seq_init false (pg st) = Ok g' -> (forall k, nth k vc 0 = 0) -> length vc = V ->
  (3 <= L)%nat -> (num_nodes st - 1 <= V)%nat -> (num_nodes st - 1 + 2 <= L)%nat ->
  Seq.R_entries I = Ok E ->
  forall R x, partition st R -> sys_qubo_min (seq_sys I E) S x ->
    sys_qubo_value (seq_sys I E) S x <= total_cost st R /\
    exists W, Seq.walk_assignment I W /\ seq_cost I W = sys_qubo_value (seq_sys I E) S x.
Proof. intros st g' V L vc E I S. exact (seq_nonstrict_qubo_le_constructor st g' V L vc E). Qed.
Print Assumptions C08_seq_nonstrict_qubo_le_constructor.

Theorem C08_seq_strict_qubo_ge_constructor :
  forall (st : pstate) (g' : graph) (V L : nat) (vc : list Z) (E : list (nat * nat)),
  let I := Seq.mkInst g' V L vc in
  let S := S_seq (Z.of_nat L) (map (fun kv => acost (snd kv)) (arcs g')) vc in
  Inv (pg st) -> (1 <= num_nodes st)%nat -> no_depot_loop st ->
  Seq.seq_init true (pg st) = Ok g' -> (forall k, nth k vc 0 = 0) -> length vc = V ->
  capacity_free st -> 0 <= nlo (Path.node_at (pg st) 0) -> (3 <= L)%nat ->
  Seq.R_entries I = Ok E ->
  (exists z v, seq_solution I z v) ->
  forall x, sys_qubo_min (seq_sys I E) S x ->
    exists R, partition st R /\ total_cost st R = sys_qubo_value (seq_sys I E) S x.
Proof. intros st g' V L vc E I S. exact (seq_strict_qubo_ge_constructor st g' V L vc E). Qed.
Print Assumptions C08_seq_strict_qubo_ge_constructor.

(* capacity_free holds e.g. when all demands are 0 and 0 <= initial loading <= capacity (the instances of
   the runtime check) *)
Theorem C08_capacity_free_zero_demands : forall st,
  (forall j, ndemand (Path.node_at (pg st) j) = 0) -> 0 <= pinit st <= pcap st -> capacity_free st.
Proof. exact capacity_free_zero_demands. Qed.
Print Assumptions C08_capacity_free_zero_demands.

(* ... and when no demand is negative, the initial loading does not exceed the capacity and covers the demand of all
   customers together (examples/small.py: capacity 6, initial loading 6, demands 1, 2, 2) -- a test on the node list *)
Theorem C08_capacity_free_nonneg_demands : forall st,
  forallb (fun nd => 0 <=? ndemand nd) (nodes (pg st)) = true ->
  (pinit st <=? pcap st) = true ->
  (sumZ (map ndemand (nodes (pg st))) <=? pinit st) = true ->
  capacity_free st.
Proof. exact capacity_free_nonneg_demandsb. Qed.
Print Assumptions C08_capacity_free_nonneg_demands.

(* ====================================================================== *)
(* 4. examples (non-vacuity)                                               *)
(* ====================================================================== *)
(* depot D=10 (0,inf); A=11 window (1,4); B=12 window (2,6); demands 0, capacity 5, initial loading 0.
   Arcs (travel time, cost): D->A (1,2), A->D (1,3), D->B (3,1), B->D (2,6), A->B (1,1), B->A (2,2).
   Valid routes: D-A-D (5), D-A-B-D (9), D-B-D (7); D-B-A-D reaches A at 5 > 4.
   Partitions: {D-A-D, D-B-D} (12) and {D-A-B-D} (9). *)
Definition ex_build : list pop :=
  [PAddNode 10 0 0 PInf; PAddNode 11 0 1 (Fin 4); PAddNode 12 0 2 (Fin 6);
   PAddArc 10 11 1 2; PAddArc 11 10 1 3; PAddArc 10 12 3 1; PAddArc 12 10 2 6;
   PAddArc 11 12 1 1; PAddArc 12 11 2 2].
(* (notations, so that the instances of the theorems above are syntactically about ex_st) *)
Notation ex_st0 := (prun ex_build (pempty 5 0)).
Notation ex_ops := (ex_build ++ add_all_candidates (num_nodes ex_st0)).
Notation ex_st := (prun ex_ops (pempty 5 0)).

Example C08_example_hypotheses :
  (0 < num_nodes ex_st)%nat /\ stored_current ex_st /\ pool_complete ex_st /\
  proutes ex_st = [[0; 1; 0]; [0; 1; 2; 0]; [0; 2; 0]]%nat /\ pcosts ex_st = [5; 9; 7] /\
  ~ valid_route ex_st [0; 2; 1; 0]%nat.
Proof.
  assert (H : stored_current ex_st /\ pool_complete ex_st /\ pg ex_st = pg ex_st0).
  { exact (C08_all_routes_enumerated 5 0 ex_build eq_refl). }
  destruct H as (Hc & Hp & _).
  split; [vm_compute; lia|]. split; [exact Hc|]. split; [exact Hp|].
  split; [vm_compute; reflexivity|]. split; [vm_compute; reflexivity|].
  intros Hv. apply Hp in Hv. vm_compute in Hv. intuition discriminate.
Qed.

Example C08_example_optimum :
  partition ex_st [[0; 1; 0]; [0; 2; 0]]%nat /\ total_cost ex_st [[0; 1; 0]; [0; 2; 0]]%nat = 12 /\
  optimal_partition ex_st [[0; 1; 2; 0]]%nat /\ total_cost ex_st [[0; 1; 2; 0]]%nat = 9.
Proof.
  destruct C08_example_hypotheses as (Hn & Hc & Hp & Er & Ec & _).
  assert (HP : PInv ex_st) by (apply (prun_stored ex_ops (pempty 5 0) (PInv_empty 5 0))).
  assert (Hval : forall r, In r (proutes ex_st) -> valid_route ex_st r).
  { intros r Hr. apply In_nth_error in Hr. destruct Hr as [j Hj]. apply (Hc j r Hj). }
  assert (Hnn : num_nodes ex_st = 3%nat) by (vm_compute; reflexivity).
  assert (Hpart : forall R, incl R (proutes ex_st) -> NoDup R ->
                    visits R 1 = 1 -> visits R 2 = 1 -> partition ex_st R).
  { intros R Hi Hnd H1 H2. split; [exact Hnd|]. split; [apply Forall_forall; intros r Hr; apply Hval, Hi, Hr|].
    intros k Hk. rewrite Hnn in Hk. destruct k as [|[|[|k]]]; try lia; assumption. }
  split.
  { apply Hpart; [rewrite Er; intros r [<-|[<-|[]]]; simpl; auto| | vm_compute; reflexivity | vm_compute; reflexivity].
    constructor; [simpl; intuition discriminate|constructor; [simpl; tauto|constructor]]. }
  split; [vm_compute; reflexivity|].
  split; [|vm_compute; reflexivity].
  split.
  { apply Hpart; [rewrite Er; intros r [<-|[]]; simpl; auto| | vm_compute; reflexivity | vm_compute; reflexivity].
    constructor; [simpl; tauto|constructor]. }
  intros R' HR'.
  destruct (partition_indicator_sums ex_st R' HP Hp HR') as (x & Hb & Hrow & Hcost).
  rewrite Hcost. pose proof (Hrow 1%nat ltac:(rewrite Hnn; lia)) as H1.
  pose proof (Hrow 2%nat ltac:(rewrite Hnn; lia)) as H2. clear Hrow Hcost.
  replace (length (proutes ex_st)) with 3%nat in * by (rewrite Er; reflexivity).
  rewrite Er in H1, H2 |- *.
  replace (total_cost ex_st [[0; 1; 2; 0]]%nat) with 9 by (vm_compute; reflexivity).
  replace (pg ex_st) with (pg ex_st) by reflexivity.
  assert (C0 : route_cost (pg ex_st) [0; 1; 0]%nat = 5) by (vm_compute; reflexivity).
  assert (C1 : route_cost (pg ex_st) [0; 1; 2; 0]%nat = 9) by (vm_compute; reflexivity).
  assert (C2 : route_cost (pg ex_st) [0; 2; 0]%nat = 7) by (vm_compute; reflexivity).
  cbn [sum_n nth on_route memb Nat.eqb orb] in H1, H2 |- *. rewrite C0, C1, C2.
  destruct (Hb 0%nat ltac:(lia)) as [E0|E0], (Hb 1%nat ltac:(lia)) as [E1|E1], (Hb 2%nat ltac:(lia)) as [E2|E2];
    rewrite E0, E1, E2 in *; lia.
Qed.

(* the default-penalty QUBO of the example (S = 21, rho = 22): minimum value 9, attained at the
   indicator vector (0,1,0) of the optimal partition {D-A-B-D} *)
Example C08_example_qubo :
  exists s, path_sys ex_st = Ok s /\ S_path (pcosts ex_st) = 21 /\
    sys_qubo_min s 21 (Zvec_of [0; 1; 0]) /\ sys_qubo_value s 21 (Zvec_of [0; 1; 0]) = 9 /\
    sys_qubo_value s 21 (Zvec_of [1; 0; 1]) = 12 /\ sys_qubo_value s 21 (Zvec_of [1; 1; 0]) = 14 + 22.
Proof.
  destruct C08_example_hypotheses as (Hn & Hc & Hp & Er & Ec & _).
  destruct C08_example_optimum as (Hp2 & _ & Hopt & Hcost).
  destruct (C08_path_qubo 5 0 ex_ops Hn Hc Hp (ex_intro _ _ Hp2)) as (s & Es & Hmin & Hval).
  cbv zeta in Hmin, Hval.
  assert (ES : S_path (pcosts ex_st) = 21) by (vm_compute; reflexivity). rewrite ES in Hmin, Hval.
  exists s. split; [exact Es|]. split; [exact ES|].
  assert (Hx : sys_qubo_min s 21 (Zvec_of [0; 1; 0])).
  { apply Hmin. exists [[0; 1; 2; 0]]%nat. split; [exact Hopt|]. split.
    - intros j Hj. rewrite Er in Hj. destruct j as [|[|[|j]]]; [vm_compute; reflexivity ..|simpl in Hj; lia].
    - intros j _. destruct j as [|[|[|j]]]; [left|right|left|left]; try reflexivity.
      unfold Zvec_of, vec_of. destruct j; reflexivity. }
  split; [exact Hx|]. split; [rewrite (Hval _ _ Hx Hopt); exact Hcost|].
  assert (Hother : match path_sys ex_st with
                   | Ok s' => sys_qubo_value s' 21 (Zvec_of [1; 0; 1]) = 12 /\
                              sys_qubo_value s' 21 (Zvec_of [1; 1; 0]) = 14 + 22
                   | Err _ => False
                   end) by (vm_compute; split; reflexivity).
  rewrite Es in Hother. exact Hother.
Qed.

(* stored_current is a real hypothesis: the class does not re-validate stored routes.  After
   add_arc(A, D) with a new cost the stored cost of D-A-D is stale, and after a later add_node the pool is
   not complete either: the path-based optimum no longer is the optimum of the current VRPTW. *)
Example C08_stale_pool_not_current :
  let st := prun (ex_ops ++ [PAddArc 11 10 1 100]) (pempty 5 0) in
  pcosts st = [5; 9; 7] /\ route_cost (pg st) [0; 1; 0]%nat = 102 /\ ~ stored_current st.
Proof.
  cbv zeta. split; [vm_compute; reflexivity|]. split; [vm_compute; reflexivity|].
  intros H. destruct (H 0%nat [0; 1; 0]%nat) as [_ Hc]; [vm_compute; reflexivity|].
  vm_compute in Hc. discriminate.
Qed.

(* ---------- the same VRPTW seen by the arc-based and the sequence-based objects ---------- *)
Example C08_example_common_hypotheses :
  Inv (pg ex_st) /\ no_depot_loop ex_st /\ capacity_free ex_st /\
  nlo (Path.node_at (pg ex_st) 0) = 0 /\ num_nodes ex_st = 3%nat.
Proof.
  split; [apply (pi_graph _ (proj1 (prun_stored ex_ops (pempty 5 0) (PInv_empty 5 0))))|].
  split; [vm_compute; reflexivity|]. split; [|split; vm_compute; reflexivity].
  apply C08_capacity_free_zero_demands; [|vm_compute; split; discriminate].
  intros j. destruct j as [|[|[|[|j]]]]; vm_compute; reflexivity.
Qed.

(* arc-based object on the grid 0..5, which holds the service times 1,2 / 1,2,4 / 3,5 of the three valid
   routes: its 0-1 program attains the optimum 9 and nothing below *)
Definition ex_arc : Arc.inst := Arc.mkInst (pg ex_st) [0; 1; 2; 3; 4; 5].

Example C08_example_arc :
  NoDup (Arc.igrid ex_arc) /\ Arc_routes.pos_cc ex_arc /\ grid_complete ex_st (Arc.igrid ex_arc) /\
  (exists x, arc_solution ex_arc x 9) /\ (forall x v, arc_solution ex_arc x v -> 9 <= v).
Proof.
  destruct C08_example_common_hypotheses as (HI & Hl & Hc & Hd & _).
  destruct C08_example_hypotheses as (_ & _ & Hp & Er & _ & _).
  destruct C08_example_optimum as (_ & _ & Hopt & Hcost).
  assert (Hnd : NoDup (Arc.igrid ex_arc)).
  { cbn [Arc.igrid ex_arc]. repeat (constructor; [simpl; intuition discriminate|]). constructor. }
  assert (Hpos : Arc_routes.pos_cc ex_arc).
  { intros i j a H Hi Hj. cbn [Arc.ig ex_arc] in H.
    destruct i as [|[|[|i]]]; [lia| | |]; (destruct j as [|[|[|j]]]; [lia| | |]);
      vm_compute in H; try discriminate H; inversion H; subst a; simpl; lia. }
  assert (Hgc : grid_complete ex_st (Arc.igrid ex_arc)).
  { split; [simpl; auto|]. intros r Hv. apply Hp in Hv. rewrite Er in Hv.
    destruct Hv as [<-|[<-|[<-|[]]]]; vm_compute; repeat (apply Forall_cons; [auto 10|]); apply Forall_nil. }
  split; [exact Hnd|]. split; [exact Hpos|]. split; [exact Hgc|].
  pose proof (fun v => C08_arc_equiv ex_st ex_arc v eq_refl HI Hnd Hl Hd Hpos Hc Hgc) as Heq.
  split.
  - apply Heq. exists [[0; 1; 2; 0]]%nat. split; [apply Hopt|exact Hcost].
  - intros x v Hx. destruct (proj1 (Heq v) (ex_intro _ x Hx)) as (R & HR & <-).
    rewrite <- Hcost. apply Hopt; exact HR.
Qed.

(* non-strict sequence-based object as the constructor builds it, 2 vehicles, 4 positions, no vehicle
   costs: its 0-1 program attains 9 (the embedding of {D-A-B-D}) *)
Definition ex_seq_graph : graph :=
  match Seq.seq_init false (pg ex_st) with Ok g => g | Err _ => empty_graph end.
Definition ex_seq : Seq.inst := Seq.mkInst ex_seq_graph 2 4 [0; 0].

Example C08_example_seq_nonstrict :
  Seq.seq_init false (pg ex_st) = Ok ex_seq_graph /\ seq_view ex_st ex_seq /\
  exists x, seq_solution ex_seq x 9.
Proof.
  destruct C08_example_common_hypotheses as (HI & Hl & _ & _ & Hn).
  destruct C08_example_optimum as (_ & _ & Hopt & Hcost).
  assert (Hinit : Seq.seq_init false (pg ex_st) = Ok ex_seq_graph) by (vm_compute; reflexivity).
  assert (Hview : seq_view ex_st ex_seq).
  { apply C08_seq_view_of_constructor; [exact HI | vm_compute; discriminate | exact Hinit |].
    intros v. destruct v as [|[|[|v]]]; reflexivity. }
  split; [exact Hinit|]. split; [exact Hview|].
  apply (C08_seq_nonstrict_le ex_st ex_seq 9 HI Hl Hview); try (rewrite Hn; simpl; lia); [simpl; lia|].
  exists [[0; 1; 2; 0]]%nat. split; [apply Hopt|exact Hcost].
Qed.

(* strict object as the strict constructor builds it: its arcs are arcs of the VRPTW, the hypotheses of
   C07_strict_time hold, every solution of its 0-1 program costs at least the VRPTW optimum 9 *)
Definition ex_sseq_graph : graph :=
  match Seq.seq_init true (pg ex_st) with Ok g => g | Err _ => empty_graph end.
Definition ex_sseq : Seq.inst := Seq.mkInst ex_sseq_graph 2 4 [0; 0].

Example C08_example_seq_strict :
  Seq.seq_init true (pg ex_st) = Ok ex_sseq_graph /\ seq_view_strict ex_st ex_sseq /\
  Seq_facts.strict_graph (Seq.ig ex_sseq) /\ Seq_facts.windows_ok (Seq.ig ex_sseq) /\
  Seq.walk_assignment ex_sseq (Seq.pad_walks [[1; 2]%nat]) /\
  (exists x, seq_solution ex_sseq x 9) /\ (forall x v, seq_solution ex_sseq x v -> 9 <= v).
Proof.
  destruct C08_example_common_hypotheses as (HI & Hl & Hc & Hd & Hn).
  destruct C08_example_optimum as (_ & _ & Hopt & Hcost).
  assert (Hinit : Seq.seq_init true (pg ex_st) = Ok ex_sseq_graph) by (vm_compute; reflexivity).
  destruct (C08_seq_strict_view_of_constructor ex_st ex_sseq_graph 2 4 [0; 0] HI) as (Hview & Hsg & Hw);
    [vm_compute; discriminate | exact Hinit | intros v; destruct v as [|[|[|v]]]; reflexivity |].
  change (Seq.mkInst ex_sseq_graph 2 4 [0; 0]) with ex_sseq in Hview.
  change ex_sseq_graph with (Seq.ig ex_sseq) in Hsg, Hw.
  (* (the boolean tests agree: seq_view_strict_check, strict_graphb, windows_okb) *)
  assert (Hview' : seq_view_strict ex_st ex_sseq).
  { apply seq_view_strict_check; try (vm_compute; reflexivity).
    intros v. destruct v as [|[|[|v]]]; reflexivity. }
  assert (Hd0 : 0 <= nlo (Path.node_at (pg ex_st) 0)) by (rewrite Hd; lia).
  assert (Hok : Seq_facts.seq_ok ex_sseq).
  { destruct Hview as (Hnodes & Hkeys & H00 & _). apply (view_seq_ok ex_st ex_sseq Hnodes Hkeys H00). rewrite Hn; lia. }
  assert (HW : Seq.walk_assignment ex_sseq (Seq.pad_walks [[1; 2]%nat])).
  { apply Seq_facts.pad_walks_assignment; [exact Hok | vm_compute; lia | vm_compute; lia | |].
    - constructor; [|constructor]. split; [|split].
      + intros c [<-|[<-|[]]]; vm_compute; lia.
      + vm_compute. repeat split; auto 10.
      + vm_compute; lia.
    - intros n H1 H2. change (Seq.iN ex_sseq) with (length (nodes ex_sseq_graph)) in H2.
      assert (E : length (nodes ex_sseq_graph) = 3%nat) by (vm_compute; reflexivity). rewrite E in H2.
      destruct n as [|[|[|n]]]; try lia; vm_compute; reflexivity. }
  split; [exact Hinit|]. split; [exact Hview|]. split; [exact Hsg|]. split; [exact Hw|].
  split; [exact HW|].
  assert (Hge : forall x v, seq_solution ex_sseq x v -> 9 <= v).
  { intros x v Hx.
    destruct (C08_seq_strict_ge ex_st ex_sseq v Hl Hview Hsg Hw Hc Hd0) as (R & HR & <-);
      [rewrite Hn; lia | simpl; lia | exists x; exact Hx |].
    rewrite <- Hcost. apply Hopt; exact HR. }
  split; [|exact Hge].
  destruct Hview as (Hnodes & Hkeys & H00 & Harcs & Hvc).
  exists (Seq.indicator_free ex_sseq (Seq.pad_walks [[1; 2]%nat])).
  replace 9 with (seq_cost ex_sseq (Seq.pad_walks [[1; 2]%nat])) by (vm_compute; reflexivity).
  apply (walk_solution ex_st ex_sseq Hnodes Hkeys H00); [rewrite Hn; lia | simpl; lia | exact HW].
Qed.

(* the sequence QUBO theorems on the two constructor-built example objects, S = S_seq 4 (arc costs) [0; 0]:
   every minimiser of the non-strict QUBO has value <= 9 and every minimiser of the strict QUBO has value >= 9
   (the VRPTW optimum) *)
Example C08_example_seq_qubo :
  (exists E, Seq.R_entries ex_seq = Ok E) /\ (exists E, Seq.R_entries ex_sseq = Ok E) /\
  length (Seq.ivc ex_seq) = Seq.iV ex_seq /\ length (Seq.ivc ex_sseq) = Seq.iV ex_sseq /\
  (forall E x, Seq.R_entries ex_seq = Ok E ->
     let S := S_seq 4 (map (fun kv => acost (snd kv)) (arcs ex_seq_graph)) [0; 0] in
     sys_qubo_min (seq_sys ex_seq E) S x -> sys_qubo_value (seq_sys ex_seq E) S x <= 9) /\
  (forall E x, Seq.R_entries ex_sseq = Ok E ->
     let S := S_seq 4 (map (fun kv => acost (snd kv)) (arcs ex_sseq_graph)) [0; 0] in
     sys_qubo_min (seq_sys ex_sseq E) S x -> 9 <= sys_qubo_value (seq_sys ex_sseq E) S x).
Proof.
  destruct C08_example_common_hypotheses as (HI & Hl & Hc & Hd & Hn).
  destruct C08_example_optimum as (_ & _ & Hopt & Hcost).
  destruct C08_example_seq_nonstrict as (Hinit & _ & _).
  destruct C08_example_seq_strict as (Hsinit & _ & _ & _ & _ & (z & Hz) & _).
  assert (Hvc : forall k, nth k [0; 0] 0 = 0) by (intros k; destruct k as [|[|[|k]]]; reflexivity).
  assert (Hd0 : 0 <= nlo (Path.node_at (pg ex_st) 0)) by (rewrite Hd; lia).
  assert (H1 : (1 <= num_nodes ex_st)%nat) by (rewrite Hn; lia).
  assert (H3 : (3 <= 4)%nat) by lia.
  assert (HV : (num_nodes ex_st - 1 <= 2)%nat) by (rewrite Hn; simpl; lia).
  assert (HL : (num_nodes ex_st - 1 + 2 <= 4)%nat) by (rewrite Hn; simpl; lia).
  split; [exact (Seq_facts.R_ok ex_seq)|]. split; [exact (Seq_facts.R_ok ex_sseq)|].
  split; [reflexivity|]. split; [reflexivity|]. split.
  - intros E x HE S Hx.
    destruct (C08_seq_nonstrict_qubo_le_constructor ex_st ex_seq_graph 2 4 [0; 0] E HI H1 Hl Hinit Hvc eq_refl
                H3 HV HL HE [[0; 1; 2; 0]]%nat x (proj1 Hopt) Hx) as [Hle _].
    rewrite Hcost in Hle. exact Hle.
  - intros E x HE S Hx.
    destruct (C08_seq_strict_qubo_ge_constructor ex_st ex_sseq_graph 2 4 [0; 0] E HI H1 Hl Hsinit Hvc eq_refl
                Hc Hd0 H3 HE (ex_intro _ z (ex_intro _ 9 Hz)) x Hx) as (R & HR & Hv).
    assert (Hg : 9 <= total_cost ex_st R) by (rewrite <- Hcost; apply Hopt; exact HR).
    rewrite Hv in Hg. exact Hg.
Qed.

(* the arc-based QUBO of the example object on the grid 0..5: its minimum over binary vectors is 9, attained
   at the vector of the chain D -> A -> B -> D *)
Example C08_example_arc_qubo :
  (exists x, Compose_arc_facts.arc_qubo_min ex_arc x) /\
  (forall x, Compose_arc_facts.arc_qubo_min ex_arc x -> Compose_arc_facts.arc_default_value ex_arc x = 9).
Proof.
  destruct C08_example_common_hypotheses as (HI & Hl & Hc & Hd & _).
  destruct C08_example_optimum as (_ & _ & Hopt & Hcost).
  destruct C08_example_arc as (Hnd & Hpos & Hgc & (xl & Hxl) & _).
  destruct (C08_arc_qubo ex_st ex_arc eq_refl HI Hnd Hl Hd Hpos Hc Hgc) as (Hmin & _ & Hval).
  { exists [[0; 1; 2; 0]]%nat. apply Hopt. }
  split.
  - destruct (vec_of_arc_solution ex_arc xl 9 Hxl) as [Hb Et].
    exists (Zvec_of xl). apply Hmin. split; [exact Hb|].
    exists [[0; 1; 2; 0]]%nat. split; [exact Hopt|]. rewrite Et, Hcost. exact Hxl.
  - intros x Hx. rewrite (Hval x _ Hx Hopt). exact Hcost.
Qed.
