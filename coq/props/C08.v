(* C08 -- the three formulations agree on the optimum of the same VRPTW.
   Property theorems only; proofs live in theories/Routes_facts.v (path-based part),
   Routes_arc_facts.v and Routes_seq_facts.v (corollaries of C05 / C07).

   Reference problem (theories/Routes.v): a solution of the VRPTW read in a path-based state st is a
   duplicate-free list R of routes (Path.valid_route, the route definition of the paper, capacity
   included) on which every customer 1 .. n-1 lies exactly once (`partition st R`), its cost is
   `total_cost st R`.  No minimum over a possibly empty set is formed: two problems are compared through
   the sets { v | some feasible solution has cost v }, which gives equal feasibility and equal optima. *)
From Coq Require Import ZArith List Bool Lia.
From VQ Require Import Base LinAlg Vrptw Vrptw_facts Path Path_facts Penalty Penalty_facts Routes Routes_facts.
Import ListNotations.
Open Scope Z_scope.

(* ====================================================================== *)
(* 1. path-based model with all valid routes enumerated = route partitioning *)
(* ====================================================================== *)
(* st: any state reached by a history of add_node / add_arc / add_route / check_route / queries, with at
   least one node, whose stored routes are valid in the CURRENT graph with their current costs
   (stored_current) and whose pool holds every valid route (pool_complete).  s = the 0-1 program the
   object returns: get_constraint_data() with the shape it reports ((n-1) x #routes) and
   get_objective_data().  Then for every v: some 0-1 list of length #routes with A x = b, x'Rx = 0 has
   objective v  <->  some route partition has cost v. *)
Theorem C08_path_equiv : forall cap init ops,
  let st := prun ops (pempty cap init) in
  (0 < num_nodes st)%nat -> stored_current st -> pool_complete st ->
  exists s, path_sys st = Ok s /\
    zs_rows s = (num_nodes st - 1)%nat /\ zs_cols s = length (proutes st) /\
    forall v, (exists xl, list_solution s xl /\ sys_value s (Zvec_of xl) = v) <->
              (exists R, partition st R /\ total_cost st R = v).
Proof.
  intros cap init ops st Hn Hcur Hpool.
  destruct (prun_stored ops (pempty cap init) (PInv_empty cap init)) as [HP _]. fold st in HP.
  destruct (path_sys_ok st HP Hn) as (s & Es & Hs). exists s.
  split; [exact Es|]. split; [apply Hs|]. split; [apply Hs|].
  intros v. rewrite list_solution_iff. exact (path_equiv st s HP Hs Hcur Hpool v).
Qed.
Print Assumptions C08_path_equiv.

(* the two directions with their witnesses, for vectors as functions (the form C04 uses):
   a feasible x selects the sub-list of stored routes with non-zero entry, which is a partition of the
   same cost and has x as indicator vector; the indicator vector of a partition is feasible with the
   same cost *)
Theorem C08_path_directions : forall cap init ops,
  let st := prun ops (pempty cap init) in
  (0 < num_nodes st)%nat -> stored_current st ->
  exists s, path_sys st = Ok s /\
    (forall x, sys_feasible s x ->
       partition st (select x (proutes st)) /\ total_cost st (select x (proutes st)) = sys_value s x /\
       indicator_of st (select x (proutes st)) x) /\
    (pool_complete st -> forall R x, partition st R -> indicator_of st R x ->
       sys_feasible s x /\ sys_value s x = total_cost st R).
Proof.
  intros cap init ops st Hn Hcur.
  destruct (prun_stored ops (pempty cap init) (PInv_empty cap init)) as [HP _]. fold st in HP.
  destruct (path_sys_ok st HP Hn) as (s & Es & Hs). exists s. split; [exact Es|]. split.
  - exact (path_feasible_partition st s HP Hs Hcur).
  - intros Hpool. exact (path_partition_feasible st s HP Hs Hcur Hpool).
Qed.
Print Assumptions C08_path_directions.

(* the hypotheses are met by the usual way of using the class: build the graph first, then call
   add_route / check_route only (stored_current); and by calling add_route on every candidate
   depot - distinct customers - depot (pool_complete), which is what the runtime check does *)
Theorem C08_stored_current_when_routes_come_last : forall cap init build routes_ops,
  forallb (fun o => negb (route_op o)) build = true ->
  forallb (fun o => negb (graph_op o)) routes_ops = true ->
  stored_current (prun (build ++ routes_ops) (pempty cap init)).
Proof. exact stored_current_build_then_routes. Qed.
Print Assumptions C08_stored_current_when_routes_come_last.

Theorem C08_all_routes_enumerated : forall cap init build,
  forallb (fun o => negb (route_op o)) build = true ->
  let st0 := prun build (pempty cap init) in
  let st := prun (build ++ add_all_candidates (num_nodes st0)) (pempty cap init) in
  stored_current st /\ pool_complete st /\ pg st = pg st0.
Proof. exact enumerated_pool. Qed.
Print Assumptions C08_all_routes_enumerated.

(* ====================================================================== *)
(* 2. ... and its default-penalty QUBO (composition with C04)              *)
(* ====================================================================== *)
(* S = S_path(route costs) = get_sufficient_penalty(False), rho = S + 1 (C04).  When a partition exists:
   the binary minimisers of the QUBO value are exactly the indicator vectors of the optimal partitions,
   and the minimum equals the least partition cost.  (sys_qubo_value s S x is literally the `value` of
   C04_default_exact for the path data A = cover, b = ones, R = 0, c = route costs, Qo = 0; the proof
   instantiates that theorem with coeff_sum = S_path, C04_S_path.) *)
Theorem C08_path_qubo : forall cap init ops,
  let st := prun ops (pempty cap init) in
  (0 < num_nodes st)%nat -> stored_current st -> pool_complete st ->
  (exists R, partition st R) ->
  exists s, path_sys st = Ok s /\
    let S := S_path (pcosts st) in
    (forall x, sys_qubo_min s S x <->
               exists R, optimal_partition st R /\ indicator_of st R x /\ Zbinary (zs_cols s) x) /\
    (forall x R, sys_qubo_min s S x -> optimal_partition st R -> sys_qubo_value s S x = total_cost st R).
Proof.
  intros cap init ops st Hn Hcur Hpool Hex.
  destruct (prun_stored ops (pempty cap init) (PInv_empty cap init)) as [HP _]. fold st in HP.
  destruct (path_sys_ok st HP Hn) as (s & Es & Hs). exists s. split; [exact Es|].
  exact (path_qubo st s HP Hs Hcur Hpool Hex).
Qed.
Print Assumptions C08_path_qubo.

(* ====================================================================== *)
(* 4. examples (non-vacuity)                                               *)
(* ====================================================================== *)
(* depot D=10 (0,inf); A=11 window (1,4); B=12 window (2,6); demands 0, capacity 5, initial loading 0.
   Arcs (travel time, cost): D->A (1,2), A->D (1,3), D->B (3,1), B->D (2,6), A->B (1,1), B->A (2,2).
   Valid routes: D-A-D (5), D-A-B-D (9), D-B-D (7); D-B-A-D reaches A at 5 > 4.
   Partitions: {D-A-D, D-B-D} (12) and {D-A-B-D} (9). *)
Definition ex_build : list pop :=
  [PAddNode 10 0 0 PInf; PAddNode 11 0 1 (Fin 4); PAddNode 12 0 2 (Fin 6);
   PAddArc 10 11 1 2; PAddArc 11 10 1 3; PAddArc 10 12 3 1; PAddArc 12 10 2 6;
   PAddArc 11 12 1 1; PAddArc 12 11 2 2].
Definition ex_st0 : pstate := prun ex_build (pempty 5 0).
Definition ex_ops : list pop := ex_build ++ add_all_candidates (num_nodes ex_st0).
Definition ex_st : pstate := prun ex_ops (pempty 5 0).

Example C08_example_hypotheses :
  (0 < num_nodes ex_st)%nat /\ stored_current ex_st /\ pool_complete ex_st /\
  proutes ex_st = [[0; 1; 0]; [0; 1; 2; 0]; [0; 2; 0]]%nat /\ pcosts ex_st = [5; 9; 7] /\
  ~ valid_route ex_st [0; 2; 1; 0]%nat.
Proof.
  assert (H : stored_current ex_st /\ pool_complete ex_st /\ pg ex_st = pg ex_st0).
  { exact (C08_all_routes_enumerated 5 0 ex_build eq_refl). }
  destruct H as (Hc & Hp & _).
  split; [vm_compute; lia|]. split; [exact Hc|]. split; [exact Hp|].
  split; [vm_compute; reflexivity|]. split; [vm_compute; reflexivity|].
  intros Hv. apply Hp in Hv. vm_compute in Hv. intuition discriminate.
Qed.

Example C08_example_optimum :
  partition ex_st [[0; 1; 0]; [0; 2; 0]]%nat /\ total_cost ex_st [[0; 1; 0]; [0; 2; 0]]%nat = 12 /\
  optimal_partition ex_st [[0; 1; 2; 0]]%nat /\ total_cost ex_st [[0; 1; 2; 0]]%nat = 9.
Proof.
  destruct C08_example_hypotheses as (Hn & Hc & Hp & Er & Ec & _).
  assert (HP : PInv ex_st) by (apply (prun_stored ex_ops (pempty 5 0) (PInv_empty 5 0))).
  assert (Hval : forall r, In r (proutes ex_st) -> valid_route ex_st r).
  { intros r Hr. apply In_nth_error in Hr. destruct Hr as [j Hj]. apply (Hc j r Hj). }
  assert (Hnn : num_nodes ex_st = 3%nat) by (vm_compute; reflexivity).
  assert (Hpart : forall R, incl R (proutes ex_st) -> NoDup R ->
                    visits R 1 = 1 -> visits R 2 = 1 -> partition ex_st R).
  { intros R Hi Hnd H1 H2. split; [exact Hnd|]. split; [apply Forall_forall; intros r Hr; apply Hval, Hi, Hr|].
    intros k Hk. rewrite Hnn in Hk. destruct k as [|[|[|k]]]; try lia; assumption. }
  split.
  { apply Hpart; [rewrite Er; intros r [<-|[<-|[]]]; simpl; auto| | vm_compute; reflexivity | vm_compute; reflexivity].
    constructor; [simpl; intuition discriminate|constructor; [simpl; tauto|constructor]]. }
  split; [vm_compute; reflexivity|].
  split; [|vm_compute; reflexivity].
  split.
  { apply Hpart; [rewrite Er; intros r [<-|[]]; simpl; auto| | vm_compute; reflexivity | vm_compute; reflexivity].
    constructor; [simpl; tauto|constructor]. }
  intros R' HR'.
  destruct (partition_indicator_sums ex_st R' HP Hp HR') as (x & Hb & Hrow & Hcost).
  rewrite Hcost. pose proof (Hrow 1%nat ltac:(rewrite Hnn; lia)) as H1.
  pose proof (Hrow 2%nat ltac:(rewrite Hnn; lia)) as H2. clear Hrow Hcost.
  replace (length (proutes ex_st)) with 3%nat in * by (rewrite Er; reflexivity).
  rewrite Er in H1, H2 |- *.
  replace (total_cost ex_st [[0; 1; 2; 0]]%nat) with 9 by (vm_compute; reflexivity).
  replace (pg ex_st) with (pg ex_st) by reflexivity.
  assert (C0 : route_cost (pg ex_st) [0; 1; 0]%nat = 5) by (vm_compute; reflexivity).
  assert (C1 : route_cost (pg ex_st) [0; 1; 2; 0]%nat = 9) by (vm_compute; reflexivity).
  assert (C2 : route_cost (pg ex_st) [0; 2; 0]%nat = 7) by (vm_compute; reflexivity).
  cbn [sum_n nth on_route memb Nat.eqb orb] in H1, H2 |- *. rewrite C0, C1, C2.
  destruct (Hb 0%nat ltac:(lia)) as [E0|E0], (Hb 1%nat ltac:(lia)) as [E1|E1], (Hb 2%nat ltac:(lia)) as [E2|E2];
    rewrite E0, E1, E2 in *; lia.
Qed.

(* the default-penalty QUBO of the example (S = 21, rho = 22): minimum value 9, attained at the
   indicator vector (0,1,0) of the optimal partition {D-A-B-D} *)
Example C08_example_qubo :
  exists s, path_sys ex_st = Ok s /\ S_path (pcosts ex_st) = 21 /\
    sys_qubo_min s 21 (Zvec_of [0; 1; 0]) /\ sys_qubo_value s 21 (Zvec_of [0; 1; 0]) = 9 /\
    sys_qubo_value s 21 (Zvec_of [1; 0; 1]) = 12 /\ sys_qubo_value s 21 (Zvec_of [1; 1; 0]) = 14 + 22.
Proof.
  destruct C08_example_hypotheses as (Hn & Hc & Hp & Er & Ec & _).
  destruct C08_example_optimum as (Hp2 & _ & Hopt & Hcost).
  pose proof (C08_path_qubo 5 0 ex_ops) as Hq. cbv zeta in Hq.
  change (prun ex_ops (pempty 5 0)) with ex_st in Hq.
  destruct (Hq Hn Hc Hp (ex_intro _ _ Hp2)) as (s & Es & Hmin & Hval). clear Hq.
  assert (ES : S_path (pcosts ex_st) = 21) by (vm_compute; reflexivity). rewrite ES in Hmin, Hval.
  exists s. split; [exact Es|]. split; [exact ES|].
  assert (Hx : sys_qubo_min s 21 (Zvec_of [0; 1; 0])).
  { apply Hmin. exists [[0; 1; 2; 0]]%nat. split; [exact Hopt|]. split.
    - intros j Hj. rewrite Er in Hj. destruct j as [|[|[|j]]]; [vm_compute; reflexivity ..|simpl in Hj; lia].
    - intros j _. destruct j as [|[|[|j]]]; [left|right|left|left]; try reflexivity.
      unfold Zvec_of, vec_of. destruct j; reflexivity. }
  split; [exact Hx|]. split; [rewrite (Hval _ _ Hx Hopt); exact Hcost|].
  assert (Hother : match path_sys ex_st with
                   | Ok s' => sys_qubo_value s' 21 (Zvec_of [1; 0; 1]) = 12 /\
                              sys_qubo_value s' 21 (Zvec_of [1; 1; 0]) = 14 + 22
                   | Err _ => False
                   end) by (vm_compute; split; reflexivity).
  rewrite Es in Hother. exact Hother.
Qed.

(* stored_current is a real hypothesis: the class does not re-validate stored routes.  After
   add_arc(A, D) with a new cost the stored cost of D-A-D is stale, and after a later add_node the pool is
   not complete either: the path-based optimum no longer is the optimum of the current VRPTW. *)
Example C08_stale_pool_not_current :
  let st := prun (ex_ops ++ [PAddArc 11 10 1 100]) (pempty 5 0) in
  pcosts st = [5; 9; 7] /\ route_cost (pg st) [0; 1; 0]%nat = 102 /\ ~ stored_current st.
Proof.
  cbv zeta. split; [vm_compute; reflexivity|]. split; [vm_compute; reflexivity|].
  intros H. destruct (H 0%nat [0; 1; 0]%nat) as [_ Hc]; [vm_compute; reflexivity|].
  vm_compute in Hc. discriminate.
Qed.
