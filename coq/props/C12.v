(* C12 -- MIRP graph enforces load/unload alternation and carries correct arc data.
   Property theorems only; proofs live in theories/Mirp_graph_facts.v. *)
From Coq Require Import QArith.
From Coq Require Import Lia.
From VQ Require Import Base Mirp Mirp_facts Mirp_graph_facts Mirp_arcset_facts.
Local Open Scope Q_scope.

(* 1. Alternation, over EVERY history of the four operations (any order, any repetition, including
   calls that raise and leave a partially updated object), starting from MIRP(size, H), for a cargo
   size > 0 and pairwise distinct port names.  In the graph reached:
   - position 0 holds the depot (window end infinite) and node names are unique;
   - the demand of every node is fixed by its kind, the kind being derived from the name and the
     sign of the demand: depot 0, supply visit and dummy vessel -size, demand visit +size;
   - every stored arc is filed under the positions of its endpoints, has one of the shapes
     depot -> loading node (supply visit or Dum), supply visit <-> demand visit, Dum -> demand visit,
     regular node -> depot, and passes the timing filter lo(origin) + time <= hi(destination). *)
Theorem C12_alternation : forall size H ops,
  0 < size -> NoDup (ports_of ops) ->
  let g := gr (mrun ops (init_state size H)) in
  (exists d0 rest, mnodes g = d0 :: rest /\ nm d0 = NDepot /\ hi d0 = QInf) /\
  NoDup (map nm (mnodes g)) /\
  (forall n, In n (mnodes g) ->
     match kind_of n with
     | KDepot => dem n == 0
     | KSupply | KDum => dem n == - size
     | KDemand => dem n == size
     end) /\
  (forall i j a, In ((i, j), a) (marcs g) ->
     (i < length (mnodes g))%nat /\ (j < length (mnodes g))%nat /\
     aorig a = nm (nth i (mnodes g) dummy_mnode) /\ adest a = nm (nth j (mnodes g) dummy_mnode) /\
     arc_kind_ok (kind_of (nth i (mnodes g) dummy_mnode)) (kind_of (nth j (mnodes g) dummy_mnode)) = true /\
     arc_filter (nth i (mnodes g) dummy_mnode) (nth j (mnodes g) dummy_mnode) (att a) = true).
Proof.
  intros size H ops Hs ND g.
  destruct (graph_invariant size H ops Hs ND) as [G1 [G2 [G3 G4]]]. fold g in G1, G2, G3, G4.
  split; [|split; [|split]]; auto.
  - intros n Hn. rewrite Forall_forall in G3. apply (G3 n Hn).
  - intros i j a Hin. apply (G4 (i, j) a Hin).
Qed.
Print Assumptions C12_alternation.

(* the invariant in packaged form (GInv is exactly the conjunction above) *)
Theorem C12_alternation_inv : forall size H ops,
  0 < size -> NoDup (ports_of ops) -> GInv size (gr (mrun ops (init_state size H))).
Proof. exact graph_invariant. Qed.
Print Assumptions C12_alternation_inv.

(* the hypothesis "distinct port names" cannot be dropped: a port name used first for a supply port
   that gets no visit and then for a demand port makes add_travel_arcs join demand visits to each other *)
Example C12_reused_port_name_breaks_alternation :
  let ops := [AddNodes 1 0 1 20; AddNodes 1 2 (-(1)) 3; AddTravelArcs [((1%nat, 1%nat), 1)] 1 1 [(1%nat, 0)] [(1%nat, 0)]] in
  let g := gr (mrun ops (init_state 1 4)) in
  existsb (fun kv => kind_eqb (kind_of (nth (fst (fst kv)) (mnodes g) dummy_mnode)) KDemand &&
                     kind_eqb (kind_of (nth (snd (fst kv)) (mnodes g) dummy_mnode)) KDemand) (marcs g) = true.
Proof. vm_compute. reflexivity. Qed.

(* 2. Load.  In ANY graph satisfying the invariant, along every walk that starts at the depot, follows
   stored arcs and does not pass through the depot before its last node (in particular along every
   depot-to-depot path), the running vessel load -- 0 at the depot, then minus the demand of every node
   visited -- is 0 or the cargo size after every node. *)
Theorem C12_load : forall size g path,
  GInv size g -> walk_ok g 0 path -> interior_ok path ->
  Forall (fun l => l == 0 \/ l == size) (loads g 0 path).
Proof. exact load_in_0_size. Qed.
Print Assumptions C12_load.

Theorem C12_load_of_built_graph : forall size H ops path,
  0 < size -> NoDup (ports_of ops) ->
  let g := gr (mrun ops (init_state size H)) in
  walk_ok g 0 path -> interior_ok path ->
  Forall (fun l => l == 0 \/ l == size) (loads g 0 path).
Proof. intros. apply load_in_0_size; auto. apply graph_invariant; auto. Qed.
Print Assumptions C12_load_of_built_graph.

(* 3. The exact arc set of the canonical build order (what mirp_g1.get_mirp and the random generator do):
   add_nodes for every port (pairwise distinct names, rate <> 0, cargo fits every tank), then
   add_travel_arcs (speed <> 0, a distance for every (supply port, demand port) pair, a fee for every
   port), add_exit_arcs, add_entry_arcs.  Then
   - no call raises; add_nodes returns the visit names of the port;
   - the node table is Depot, the visits of every port in order (C11_nodes), then Dum0..Dum(n-1), one per
     demand visit whose window ends before the entry limit (`c_early`, in port order then visit order);
   - the arc dict has unique keys and every entry is filed under the positions of its endpoints;
   - `has_arc g (o, d, time, cost)` (the dict holds an arc o -> d with this time and cost) holds EXACTLY
     for the requests of `spec_arc` that pass the timing filter on the node table, where spec_arc is
       supply visit -> demand visit : time = dist(sp,dp)/speed, cost = dist(sp,dp)*unit + fee_d(dp)
       demand visit -> supply visit : time = dist(sp,dp)/speed, cost = dist(sp,dp)*unit + fee_s(sp)
       visit -> Depot               : (exit time, exit cost), for every regular node
       Depot -> supply visit        : (entry time, entry cost), if the window ends < limit
       Depot -> Dum_i               : (0, 0), i < number of early demand visits
       Dum_i -> i-th early demand visit : (entry time, entry cost);
   - every regular node has its exit arc: that arc always passes the filter because the depot window
     end is infinite (MIRP.__init__ creates the depot with the default window (0, inf)). *)
Theorem C12_arcset : forall size H ports dist speed unit fs fd etm ec limit ntm nc,
  0 < size -> ports_ok size ports -> ~ speed == 0 -> tables_complete ports dist fs fd ->
  let ops := canonical_ops ports dist speed unit fs fd etm ec limit ntm nc in
  let g := gr (mrun ops (init_state size H)) in
  mtrace ops (init_state size H)
    = map (fun p => Ok (Some (p_vnames size H p))) ports ++ [Ok None; Ok None; Ok None] /\
  mnodes g = nodes_after size H ports ++ dum_nodes size 0 (length (c_early size H ports limit)) /\
  NoDup (map fst (marcs g)) /\
  (forall k a, In (k, a) (marcs g) ->
     pos_of (aorig a) (mnodes g) = Some (fst k) /\ pos_of (adest a) (mnodes g) = Some (snd k) /\
     has_arc g (aorig a, adest a, att a, acost a)) /\
  (forall x, has_arc g x <->
             spec_arc size H ports dist speed unit fs fd etm ec limit ntm nc x /\ passes (mnodes g) x) /\
  (forall p k, In p ports -> (k < pK size H p)%nat -> has_arc g (NVisit (pname p) k, NDepot, etm, ec)).
Proof. exact arcset_final. Qed.
Print Assumptions C12_arcset.

(* at most one specified arc per ordered pair of nodes: the set above is a function of (o, d) *)
Theorem C12_arcset_functional : forall size H ports dist speed unit fs fd etm ec limit ntm nc x y,
  NoDup (map pname ports) ->
  spec_arc size H ports dist speed unit fs fd etm ec limit ntm nc x ->
  spec_arc size H ports dist speed unit fs fd etm ec limit ntm nc y ->
  rkey x = rkey y -> x = y.
Proof. intros. eapply spec_arc_functional; eauto. Qed.
Print Assumptions C12_arcset_functional.

(* Non-vacuity: one supply port (init 1, rate 3/2, cap 5) and one demand port (init 4, rate -1, cap 5),
   cargo 3, horizon 10, entry limit 5: the hypotheses of C12_arcset hold, the build has 4 + 3 visits,
   one dummy vessel and 24 arcs; the walk Depot, Dum0, D-0, S-1, D-1, Depot is a depot-to-depot path with
   loads 3, 0, 3, 0, 0. *)
Definition ex_ports := [mkP 1 1 (3#2) 5; mkP 11 4 (-(1)) 5].
Definition ex_ops := canonical_ops ex_ports [((1%nat, 11%nat), 5#2)] 2 (1#2) [(1%nat, 7)] [(11%nat, 9)] 0 0 5 0 0.
Example C12_instance :
  ports_ok 3 ex_ports /\ tables_complete ex_ports [((1%nat, 11%nat), 5#2)] [(1%nat, 7)] [(11%nat, 9)] /\
  NoDup (ports_of ex_ops) /\
  let g := gr (mrun ex_ops (init_state 3 10)) in
  length (mnodes g) = 9%nat /\ length (marcs g) = 24%nat /\
  walk_ok g 0 [8%nat; 5%nat; 2%nat; 6%nat; 0%nat] /\ interior_ok [8%nat; 5%nat; 2%nat; 6%nat; 0%nat] /\
  list_eqb Qeq_bool (loads g 0 [8%nat; 5%nat; 2%nat; 6%nat; 0%nat]) [3; 0; 3; 0; 0] = true.
Proof.
  split; [|split; [|split]].
  - split.
    + simpl. repeat constructor; simpl; intuition discriminate.
    + intros p [<-|[<-|[]]]; simpl; split; try discriminate; unfold Qle; simpl; lia.
  - intros sp dp [<-|[<-|[]]] S1 [<-|[<-|[]]] S2; try discriminate; simpl; repeat split; discriminate.
  - simpl. repeat constructor; simpl; intuition discriminate.
  - vm_compute. repeat split; try reflexivity; discriminate.
Qed.
