(* C12 -- MIRP graph enforces load/unload alternation and carries correct arc data.
   Property theorems only; proofs live in theories/Mirp_graph_facts.v. *)
From Coq Require Import QArith.
From VQ Require Import Base Mirp Mirp_facts Mirp_graph_facts.
Local Open Scope Q_scope.

(* 1. Alternation, over EVERY history of the four operations (any order, any repetition, including
   calls that raise and leave a partially updated object), starting from MIRP(size, H), for a cargo
   size > 0 and pairwise distinct port names.  In the graph reached:
   - position 0 holds the depot (window end infinite) and node names are unique;
   - the demand of every node is fixed by its kind, the kind being derived from the name and the
     sign of the demand: depot 0, supply visit and dummy vessel -size, demand visit +size;
   - every stored arc is filed under the positions of its endpoints, has one of the shapes
     depot -> loading node (supply visit or Dum), supply visit <-> demand visit, Dum -> demand visit,
     regular node -> depot, and passes the timing filter lo(origin) + time <= hi(destination). *)
Theorem C12_alternation : forall size H ops,
  0 < size -> NoDup (ports_of ops) ->
  let g := gr (mrun ops (init_state size H)) in
  (exists d0 rest, mnodes g = d0 :: rest /\ nm d0 = NDepot /\ hi d0 = QInf) /\
  NoDup (map nm (mnodes g)) /\
  (forall n, In n (mnodes g) ->
     match kind_of n with
     | KDepot => dem n == 0
     | KSupply | KDum => dem n == - size
     | KDemand => dem n == size
     end) /\
  (forall i j a, In ((i, j), a) (marcs g) ->
     (i < length (mnodes g))%nat /\ (j < length (mnodes g))%nat /\
     aorig a = nm (nth i (mnodes g) dummy_mnode) /\ adest a = nm (nth j (mnodes g) dummy_mnode) /\
     arc_kind_ok (kind_of (nth i (mnodes g) dummy_mnode)) (kind_of (nth j (mnodes g) dummy_mnode)) = true /\
     arc_filter (nth i (mnodes g) dummy_mnode) (nth j (mnodes g) dummy_mnode) (att a) = true).
Proof.
  intros size H ops Hs ND g.
  destruct (graph_invariant size H ops Hs ND) as [G1 [G2 [G3 G4]]]. fold g in G1, G2, G3, G4.
  split; [|split; [|split]]; auto.
  - intros n Hn. rewrite Forall_forall in G3. apply (G3 n Hn).
  - intros i j a Hin. apply (G4 (i, j) a Hin).
Qed.
Print Assumptions C12_alternation.

(* the invariant in packaged form (GInv is exactly the conjunction above) *)
Theorem C12_alternation_inv : forall size H ops,
  0 < size -> NoDup (ports_of ops) -> GInv size (gr (mrun ops (init_state size H))).
Proof. exact graph_invariant. Qed.
Print Assumptions C12_alternation_inv.

(* the hypothesis "distinct port names" cannot be dropped: a port name used first for a supply port
   that gets no visit and then for a demand port makes add_travel_arcs join demand visits to each other *)
Example C12_reused_port_name_breaks_alternation :
  let ops := [AddNodes 1 0 1 20; AddNodes 1 2 (-(1)) 3; AddTravelArcs [((1%nat, 1%nat), 1)] 1 1 [(1%nat, 0)] [(1%nat, 0)]] in
  let g := gr (mrun ops (init_state 1 4)) in
  existsb (fun kv => kind_eqb (kind_of (nth (fst (fst kv)) (mnodes g) dummy_mnode)) KDemand &&
                     kind_eqb (kind_of (nth (snd (fst kv)) (mnodes g) dummy_mnode)) KDemand) (marcs g) = true.
Proof. vm_compute. reflexivity. Qed.

(* 2. Load.  In ANY graph satisfying the invariant, along every walk that starts at the depot, follows
   stored arcs and does not pass through the depot before its last node (in particular along every
   depot-to-depot path), the running vessel load -- 0 at the depot, then minus the demand of every node
   visited -- is 0 or the cargo size after every node. *)
Theorem C12_load : forall size g path,
  GInv size g -> walk_ok g 0 path -> interior_ok path ->
  Forall (fun l => l == 0 \/ l == size) (loads g 0 path).
Proof. exact load_in_0_size. Qed.
Print Assumptions C12_load.

Theorem C12_load_of_built_graph : forall size H ops path,
  0 < size -> NoDup (ports_of ops) ->
  let g := gr (mrun ops (init_state size H)) in
  walk_ok g 0 path -> interior_ok path ->
  Forall (fun l => l == 0 \/ l == size) (loads g 0 path).
Proof. intros. apply load_in_0_size; auto. apply graph_invariant; auto. Qed.
Print Assumptions C12_load_of_built_graph.
