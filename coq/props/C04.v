(* C04 -- Default penalty is exact: QUBO minimisers are the constrained optima.
   Property theorems only; proofs live in theories/Penalty_facts.v.  Integer data; costs of either
   sign.  (Float instances are dyadic, hence integer instances after multiplying all costs by one
   power of two D; argmin sets are invariant and rho*D = S*D + D > S*D, so C04_exact_penalty, which
   is stated for every rho > B, covers them -- see notes/C04.md.) *)
From Coq Require Import ZArith List.
From VQ Require Import Base LinAlg Penalty Penalty_facts.
Import ListNotations.
Open Scope Z_scope.

(* Proposition 1 of doc/MIRPasQUBO.tex, abstractly.  f objective, P integer penalty, non-negative on
   binary vectors and zero exactly on the feasible ones, B bounds the range of f over binary
   vectors, rho > B, and some binary vector is feasible.  Then the binary minimisers of f + rho*P
   are exactly the feasible minimisers of f, and the two minimum values coincide. *)
Theorem C04_exact_penalty :
  forall (n : nat) (f P : vec Z -> Z) (feasible : vec Z -> Prop) (B rho : Z),
    (forall x, Zbinary n x -> 0 <= P x) ->
    (forall x, Zbinary n x -> (P x = 0 <-> feasible x)) ->
    (forall x y, Zbinary n x -> Zbinary n y -> f y - f x <= B) ->
    B < rho ->
    (exists z, Zbinary n z /\ feasible z) ->
    let H := fun x => f x + rho * P x in
    let is_qubo_min := fun x => Zbinary n x /\ forall y, Zbinary n y -> H x <= H y in
    let is_opt := fun x => Zbinary n x /\ feasible x /\
                           forall y, Zbinary n y -> feasible y -> f x <= f y in
    (forall x, is_qubo_min x <-> is_opt x) /\
    (forall x y, is_qubo_min x -> is_opt y -> H x = f y).
Proof.
  intros n f P feasible B rho H1 H2 H3 H4 Hex. cbv zeta. split.
  - intros x. exact (exact_penalty_sets n f P feasible B rho H1 H2 H3 H4 x Hex).
  - intros x y. exact (exact_penalty_value n f P feasible B rho H1 H2 H3 H4 x y).
Qed.
Print Assumptions C04_exact_penalty.

(* the range of f(x) = c'x + x'Qo x over binary vectors is at most the sum of |coefficients| *)
Theorem C04_bound :
  forall n c Qo x y,
    Zbinary n x -> Zbinary n y ->
    Zobjective n c Qo y - Zobjective n c Qo x
    <= sumZn n (fun i => Z.abs (c i)) + sumZn n (fun i => sumZn n (fun j => Z.abs (Qo i j))).
Proof. exact objective_range. Qed.
Print Assumptions C04_bound.

(* path: the objective vector is the list of route costs, no quadratic part: S_path IS the sum *)
Theorem C04_S_path :
  forall rc : list Z, coeff_sum (length rc) (Zvec_of rc) (fun _ _ => 0) = S_path rc.
Proof. exact S_path_is_coeff_sum. Qed.
Print Assumptions C04_S_path.

(* arc: variable k is (arc index, s, t) with s, t grid points, no variable twice, and
   objective[k] = cost of its arc: then the sum is at most (sum over arcs |cost|) * |T|^2 *)
Theorem C04_S_arc :
  forall (costs grid : list Z) (vars : list avar),
    NoDup vars ->
    (forall a s t, In (a, s, t) vars -> (a < length costs)%nat /\ In s grid /\ In t grid) ->
    coeff_sum (length vars) (arc_obj costs vars) (fun _ _ => 0) <= S_arc costs (length grid).
Proof. exact S_arc_bounds_coeff_sum. Qed.
Print Assumptions C04_S_arc.

(* sequence: every coefficient is a sum of entries  cost(a) + vehicle_cost(v)  [times a fixed value
   0/1 in the linear part] indexed by triples (v, si, a), v < V, si + 1 < L, a an arc, each triple
   used at most once over the linear and the quadratic part together *)
Theorem C04_S_seq :
  forall (n : nat) (L : Z) (V : nat) (costs vcs : list Z)
         (lin : list lin_entry) (quad : list quad_entry),
    0 <= L -> length vcs = V ->
    NoDup (seq_triples lin quad) ->
    (forall v si a, In (v, si, a) (seq_triples lin quad) ->
                    (v < V)%nat /\ Z.of_nat si + 1 < L /\ (a < length costs)%nat) ->
    (forall e, In e lin -> 0 <= snd e <= 1) ->
    coeff_sum n (seq_c costs vcs lin) (seq_Qo costs vcs quad) <= S_seq L costs vcs.
Proof. exact S_seq_bounds_coeff_sum. Qed.
Print Assumptions C04_S_seq.

(* the structure tests evaluated by the correspondence on every instance imply those hypotheses *)
Theorem C04_struct_tests_sound :
  (forall costs grid vars, arc_struct_ok costs grid vars = true ->
     NoDup vars /\
     (forall a s t, In (a, s, t) vars -> (a < length costs)%nat /\ In s grid /\ In t grid)) /\
  (forall L V costs vcs lin quad, seq_struct_ok L V costs vcs lin quad = true ->
     length vcs = V /\ NoDup (seq_triples lin quad) /\
     (forall v si a, In (v, si, a) (seq_triples lin quad) ->
                     (v < V)%nat /\ Z.of_nat si + 1 < L /\ (a < length costs)%nat) /\
     (forall e, In e lin -> 0 <= snd e <= 1)).
Proof. split; [exact arc_struct_ok_sound | exact seq_struct_ok_sound]. Qed.
Print Assumptions C04_struct_tests_sound.

(* Default penalty.  Integer data with R >= 0, S at least the sum of |objective coefficients|, the
   constrained program feasible: for the QUBO (Q, k) = get_qubo(False, None), i.e. rho = S + 1, the
   binary minimisers of x'Qx + k are exactly the optimal solutions of
   min c'x + x'Qo x  s.t.  Ax = b, x'Rx = 0,  and the minimum equals the optimal cost. *)
Theorem C04_default_exact :
  forall n m A b R c Qo S,
    (forall i j, (i < n)%nat -> (j < n)%nat -> 0 <= R i j) ->
    coeff_sum n c Qo <= S ->
    (exists z, Zbinary n z /\ (forall k, (k < m)%nat -> Zmv n A z k = b k) /\ Zqf n R z = 0) ->
    let value := fun x => Zqubo_value n (Zget_qubo m false (Zchoose_rho false S None) (A, b, R) (c, Qo)) x in
    let feasible := fun x => (forall k, (k < m)%nat -> Zmv n A x k = b k) /\ Zqf n R x = 0 in
    let is_qubo_min := fun x => Zbinary n x /\ forall y, Zbinary n y -> value x <= value y in
    let is_opt := fun x => Zbinary n x /\ feasible x /\
                           forall y, Zbinary n y -> feasible y -> Zobjective n c Qo x <= Zobjective n c Qo y in
    (forall x, is_qubo_min x <-> is_opt x) /\
    (forall x y, is_qubo_min x -> is_opt y -> value x = Zobjective n c Qo y).
Proof. exact default_exact. Qed.
Print Assumptions C04_default_exact.

(* The three formulations (DESIGN.md's C04_F), with the objective structure as hypothesis and the
   formulation's own S.  is_default_min n m A b R c Qo S x := x is binary and minimises the value of
   get_qubo(False, None) built with rho = S + 1 over all binary vectors; is_constrained_opt := x is
   binary, feasible (A x = b, x'Rx = 0) and minimises c'x + x'Qo x over the binary feasible vectors
   (Penalty_facts.v).  Conclusion in each case: the two sets coincide and the minimum value is the
   optimal cost. *)
Theorem C04_arc :
  forall (costs grid : list Z) (vars : list avar) m A b R,
    NoDup vars ->
    (forall a s t, In (a, s, t) vars -> (a < length costs)%nat /\ In s grid /\ In t grid) ->
    (forall i j, (i < length vars)%nat -> (j < length vars)%nat -> 0 <= R i j) ->
    (exists z, Zbinary (length vars) z /\ Zfeasible m (length vars) A b R z) ->
    let n := length vars in
    let c := arc_obj costs vars in
    let S := S_arc costs (length grid) in
    (forall x, is_default_min n m A b R c (fun _ _ => 0) S x <-> is_constrained_opt n m A b R c (fun _ _ => 0) x) /\
    (forall x y, is_default_min n m A b R c (fun _ _ => 0) S x -> is_constrained_opt n m A b R c (fun _ _ => 0) y ->
                 default_value n m A b R c (fun _ _ => 0) S x = Zobjective n c (fun _ _ => 0) y).
Proof. exact arc_default_exact. Qed.
Print Assumptions C04_arc.

Theorem C04_path :
  forall (rc : list Z) m A b R,
    (forall i j, (i < length rc)%nat -> (j < length rc)%nat -> 0 <= R i j) ->
    (exists z, Zbinary (length rc) z /\ Zfeasible m (length rc) A b R z) ->
    let n := length rc in
    let c := Zvec_of rc in
    let S := S_path rc in
    (forall x, is_default_min n m A b R c (fun _ _ => 0) S x <-> is_constrained_opt n m A b R c (fun _ _ => 0) x) /\
    (forall x y, is_default_min n m A b R c (fun _ _ => 0) S x -> is_constrained_opt n m A b R c (fun _ _ => 0) y ->
                 default_value n m A b R c (fun _ _ => 0) S x = Zobjective n c (fun _ _ => 0) y).
Proof. exact path_default_exact. Qed.
Print Assumptions C04_path.

Theorem C04_seq :
  forall (n : nat) (L : Z) (V : nat) (costs vcs : list Z) (lin : list lin_entry) (quad : list quad_entry) m A b R,
    0 <= L -> length vcs = V ->
    NoDup (seq_triples lin quad) ->
    (forall v si a, In (v, si, a) (seq_triples lin quad) ->
                    (v < V)%nat /\ Z.of_nat si + 1 < L /\ (a < length costs)%nat) ->
    (forall e, In e lin -> 0 <= snd e <= 1) ->
    (forall i j, (i < n)%nat -> (j < n)%nat -> 0 <= R i j) ->
    (exists z, Zbinary n z /\ Zfeasible m n A b R z) ->
    let c := seq_c costs vcs lin in
    let Qo := seq_Qo costs vcs quad in
    let S := S_seq L costs vcs in
    (forall x, is_default_min n m A b R c Qo S x <-> is_constrained_opt n m A b R c Qo x) /\
    (forall x y, is_default_min n m A b R c Qo S x -> is_constrained_opt n m A b R c Qo y ->
                 default_value n m A b R c Qo S x = Zobjective n c Qo y).
Proof. exact seq_default_exact. Qed.
Print Assumptions C04_seq.

(* Non-vacuity of C04_default_exact and C04_S_seq / C04_S_arc on concrete data.
   Program: min 3 x0 - 2 x1 + 5 x0 x1  s.t. x0 + x1 = 1, x0 x1 = 0.  Coefficient sum 10 <= S = 10,
   (0,1) is feasible, the default QUBO (rho = 11) has value -2 there. *)
Example C04_example_default :
  let A := Zmat_of [[1; 1]] in let b := Zvec_of [1] in let R := Zmat_of [[0; 1]; [0; 0]] in
  let c := Zvec_of [3; -2] in let Qo := Zmat_of [[0; 5]; [0; 0]] in
  coeff_sum 2 c Qo <= 10 /\
  (Zbinary 2 (Zvec_of [0; 1]) /\ (forall k, (k < 1)%nat -> Zmv 2 A (Zvec_of [0; 1]) k = b k) /\
   Zqf 2 R (Zvec_of [0; 1]) = 0) /\
  Zqubo_value 2 (Zget_qubo 1 false (Zchoose_rho false 10 None) (A, b, R) (c, Qo)) (Zvec_of [0; 1]) = -2.
Proof.
  cbv zeta. split; [vm_compute; discriminate|]. split; [|vm_compute; reflexivity].
  split; [|split; [|vm_compute; reflexivity]].
  - intros i Hi. destruct i as [|[|i]]; [left; reflexivity | right; reflexivity | lia].
  - intros k Hk. assert (k = O) by lia. subst. vm_compute. reflexivity.
Qed.

(* arc structure: two arcs of costs 4 and -3 on the grid [0;2]; three variables; S_arc = 7*4 = 28.
   sequence structure: L = 3, one vehicle with surcharge 10, arcs of cost 1 and -2; S_seq = 3*(11+8). *)
Example C04_example_structures :
  arc_struct_ok [4; -3] [0; 2] [(0%nat, 0, 2); (1%nat, 0, 0); (1%nat, 2, 2)] = true /\
  coeff_sum 3 (arc_obj [4; -3] [(0%nat, 0, 2); (1%nat, 0, 0); (1%nat, 2, 2)]) (fun _ _ => 0) = 10 /\
  S_arc [4; -3] 2 = 28 /\
  seq_struct_ok 3 1 [1; -2] [10]
    [(0%nat, (0%nat, 0%nat, 0%nat), 1); (1%nat, (0%nat, 1%nat, 1%nat), 1)]
    [((0%nat, 1%nat), (0%nat, 1%nat, 0%nat))] = true /\
  S_seq 3 [1; -2] [10] = 57.
Proof. vm_compute. repeat split; reflexivity. Qed.
