(* C09 (arc-based part) -- The feasibility heuristic returns a genuinely feasible solution or fails loudly.
   Property theorems only; model in theories/Heur_arc.v, proofs in theories/Heur_arc_facts.v.
   (The path- and sequence-based parts are in props/C09.v; they are kept apart because the three
   formulation models use the same identifiers.) *)
From Coq Require Import ZArith List Bool Lia Permutation.
From VQ Require Import Base LinAlg Vrptw Vrptw_facts Arc Arc_ref Arc_facts Arc_routes Arc_complete
                       Penalty Penalty_facts Heur_arc Heur_arc_facts.
From VQ Require Heur_facts.
Import ListNotations.
Open Scope Z_scope.

(* (5) POSTCONDITION.  Hypotheses: the graph is one the VRPTW class can reach (Vrptw_facts.Inv, C15) and
   the grid values are pairwise distinct (as in C05).  If make_feasible returns normally with the
   instance I' (arcs possibly extended) and the vector x, then the used tuples split into chains
   (Arc_routes.walk: first move leaves node 0, last move ends at node 0, consecutive moves share
   (node, time)), no tuple is used twice, every one of them is a variable of I', every customer is the
   destination of exactly one of them, and x is their indicator vector: x has one entry per variable, is
   0/1, its selected moves are exactly the used tuples, and A x = b for the data I' reports
   (the quadratic constraint matrix of the arc model is the zero matrix). *)
Theorem C09_post_arc :
  forall I high I' x,
    Inv (ig I) -> NoDup (igrid I) -> mf_arc I high = Ok (I', x) ->
    length x = num_variables I' /\ Arc_facts.binary x /\ Ax I' x = rhs I' /\
    exists routes : list (list var),
      Forall walk routes /\ NoDup (concat routes) /\
      (forall a, In a (concat routes) -> In a (vars I')) /\
      (forall j, (1 <= j < length (nodes (ig I')))%nat -> cnt (into_node j) (concat routes) = 1%nat) /\
      x = indicator I' (concat routes) /\ Permutation (selected I' x) (concat routes).
Proof.
  intros I high I' x HI Hg H.
  destruct (mf_arc_post I high I' x H HI Hg) as (routes & A & B & C & D & E & F & G & P & Q & _).
  split; [exact F|]. split; [exact G|]. split; [exact Q|]. exists routes. auto 10.
Qed.
Print Assumptions C09_post_arc.

(* repeated invocations: grid and nodes are unchanged and the graph stays well formed, so the postcondition
   holds after every successful call of a sequence of calls *)
Theorem C09_post_arc_repeated :
  forall highs I I' x,
    Inv (ig I) -> NoDup (igrid I) -> In (Ok (I', x)) (mf_arc_iter I highs) ->
    length x = num_variables I' /\ Arc_facts.binary x /\ Ax I' x = rhs I'.
Proof.
  induction highs as [|h hs IH]; simpl; intros I I' x HI Hg Hin; [contradiction|].
  destruct (mf_arc I h) as [[J y]|e] eqn:E.
  - destruct (mf_arc_post I h J y E HI Hg) as (_ & _ & _ & _ & _ & _ & F & G & _ & Q & Eg & _ & HJ).
    destruct Hin as [Heq|Hin].
    + inversion Heq; subst. auto.
    + apply (IH J); auto. rewrite Eg. exact Hg.
  - destruct Hin as [Heq|[]]. discriminate.
Qed.
Print Assumptions C09_post_arc_repeated.

(* the fuel of the `while building_route` loop never runs out: the model cannot answer Err OtherError *)
Theorem C09_arc_fuel_suffices : forall I high, mf_arc I high <> Err OtherError.
Proof. exact mf_arc_fuel. Qed.
Print Assumptions C09_arc_fuel_suffices.

(* (5') the QUBO of the reported data (A, b, R = 0, c, Qo = 0): value 0 in feasibility mode, the objective
   in optimisation mode, for every penalty weight *)
Lemma sumz_sumZ l : sumz l = sumZ l.
Proof. induction l as [|a l IH]; simpl; [reflexivity|]. rewrite IH. reflexivity. Qed.

Theorem C09_post_arc_qubo :
  forall I high I' x,
    Inv (ig I) -> NoDup (igrid I) -> mf_arc I high = Ok (I', x) ->
    let n := num_variables I' in
    let m := length (rhs I') in
    forall rho (feas : bool),
      Zqubo_value n (Zget_qubo m feas rho (Zmat_of (A_dense I'), Zvec_of (rhs I'), fun _ _ => 0)
                               (Zvec_of (Arc.objective I'), fun _ _ => 0)) (Zvec_of x)
      = if feas then 0 else Zobjective n (Zvec_of (Arc.objective I')) (fun _ _ => 0) (Zvec_of x).
Proof.
  intros I high I' x HI Hg H n m rho feas.
  destruct (C09_post_arc I high I' x HI Hg H) as (Lx & Hb & HA & _).
  apply Heur_facts.feasible_qubo_value.
  - intros i Hi. unfold Zvec_of, vec_of. unfold Arc_facts.binary in Hb. rewrite Forall_forall in Hb.
    apply Hb. apply nth_In. fold n in Lx. lia.
  - split.
    + intros k Hk. unfold Zmv, mv, Zvec_of, vec_of, Zmat_of, mat_of.
      rewrite <- HA. unfold Ax.
      assert (HlA : length (A_dense I') = m).
      { unfold A_dense, A_shape. simpl. rewrite map_length, seq_length. reflexivity. }
      rewrite (nth_indep _ 0 (dotn (num_variables I') [] x)) by (rewrite map_length, HlA; exact Hk).
      rewrite (map_nth (fun row => dotn (num_variables I') row x)).
      unfold dotn. rewrite sumz_sumZ, sumZ_seq. reflexivity.
    + unfold Zqf, qf. rewrite (sumZn_ext n _ (fun _ => 0)); [rewrite sumZn_const; lia|].
      intros i _. rewrite (sumZn_ext n _ (fun _ => 0)); [rewrite sumZn_const; lia|]. intros j _. lia.
Qed.
Print Assumptions C09_post_arc_qubo.

(* ---------------- example (non-vacuity) ---------------- *)
(* depot 0 (0,inf); customers 1 (1,4), 2 (2,6), 3 (0,3); arcs 0->1, 1->2, 2->0, 3->0 (travel times 1,1,1,2);
   grid {0,1,2,3,5}.  One vehicle: 0 -(0,1)-> 1 -(1,2)-> 2 -(2,3)-> 0; customer 3 gets the dummy entry arc and
   the route 0 -(0,0)-> 3 -(0,2)-> 0. *)
Definition ex_arc : inst :=
  mkInst (run Base [OpAddNode 0 0 0 PInf; OpAddNode 1 1 1 (Fin 4); OpAddNode 2 1 2 (Fin 6); OpAddNode 3 1 0 (Fin 3);
                    OpSetDepot 0; OpAddArc 0 1 1 2; OpAddArc 1 2 1 3; OpAddArc 2 0 1 4; OpAddArc 3 0 2 1] empty_graph)
         [3; 0; 1; 2; 5].

Example C09_example_arc :
  Inv (ig ex_arc) /\ NoDup (igrid ex_arc) /\
  exists I',
    mf_arc ex_arc 7 = Ok (I', [1; 0; 0; 0; 0; 0; 1; 0; 0; 0; 0; 0; 1; 0; 0; 1; 0; 0; 0; 0; 0; 0;
                               1; 0; 0; 0; 0; 0; 0; 0; 0; 0]) /\
    map fst (arcs (ig I')) = [(0, 1); (1, 2); (2, 0); (3, 0); (0, 3)]%nat /\
    selected I' [1; 0; 0; 0; 0; 0; 1; 0; 0; 0; 0; 0; 1; 0; 0; 1; 0; 0; 0; 0; 0; 0; 1; 0; 0; 0; 0; 0; 0; 0; 0; 0]
      = [(0%nat, 0, 1%nat, 1); (1%nat, 1, 2%nat, 2); (2%nat, 2, 0%nat, 3); (3%nat, 0, 0%nat, 2); (0%nat, 0, 3%nat, 0)].
Proof.
  split; [apply run_inv; apply Inv_empty|].
  split; [vm_compute; repeat (constructor; [simpl; intuition discriminate|]); constructor|].
  eexists. vm_compute. repeat split; reflexivity.
Qed.
