(* C02_forms -- the dimension clause of C02 per formulation, as theorems about the models.
   Property theorems only; proofs live in theories/Compose_*_facts.v.

   For every arc instance (Arc.inst), every path state reached by a history with at least one node
   (Path.prun ops (Path.pempty cap init)), and every sequence instance (Seq.inst), the data the model
   reports have mutually consistent dimensions, hence the shape-checked builder
   `get_qubo_checked` (Penalty.v) returns Ok with an n x n matrix in both modes and for every rho, and
   the returned (Q, k) satisfy the C02 identity against the model's own objective and constraints.

   Adapters (model getters -> Penalty.qdata), defined in the Compose_*_facts files:
     arc_qdata I    A = Arc.A_dense I with shape Arc.A_shape I, b = Arc.rhs I, c = Arc.objective I,
                    Q_eq = Q_obj = sparse.csr_array((n,n)) = zero_rows n with shape (n,n), r_eq = 0;
     path_qdata st  (shape, A, b, Q_eq, r_eq) = Path.constraint_data st, (c, Q) = Path.objective_data st,
                    Q_eq, Q with shape (n,n);                 = Ok (path_d st) on reachable states;
     seq_qdata I    (shape A, A, b, shape Q_eq, Q_eq) = Seq.constraint_data I, r_eq = 0,
                    (len c, c, shape Q, Q) = Seq.objective_data I;   = Ok (seq_d I) on every instance.
   `tab n x` is the list [x 0; ...; x (n-1)]; dense_ok sh M says the nested list M has the shape sh. *)
From Coq Require Import ZArith List QArith Qcanon.
From VQ Require Import Base LinAlg Penalty Penalty_facts Compose_facts Vrptw Vrptw_facts.
From VQ Require Arc Arc_facts Arc_routes Path Path_facts Seq Seq_facts.
From VQ Require Import Compose_arc_facts Compose_path_facts Compose_seq_facts.
Import ListNotations.
Open Scope Z_scope.

(* ====================================================================== *)
(* arc                                                                      *)
(* ====================================================================== *)
(* the adapter and its shape facts: A is len(b) x n, R and Qo are n x n zero matrices, len c = n,
   and the dense contents really have the reported shapes *)
Theorem C02_arc_adapter :
  forall I : Arc.inst,
    let d := arc_qdata I in
    let n := Arc.num_variables I in
    dA d = Arc.A_dense I /\ dA_shape d = Arc.A_shape I /\ db d = Arc.rhs I /\ dc d = Arc.objective I /\
    dR d = zero_rows n /\ dR_shape d = (n, n) /\ dQo d = zero_rows n /\ dQo_shape d = (n, n) /\ dr d = 0 /\
    shapes_consistent Z n d /\
    dense_ok (dA_shape d) (dA d) /\ dense_ok (dR_shape d) (dR d) /\ dense_ok (dQo_shape d) (dQo d) /\
    (forall i j, Zmat_of (dR d) i j = 0) /\ (forall i j, Zmat_of (dQo d) i j = 0).
Proof.
  intros I d n. destruct (arc_dense I) as (H1 & H2 & H3 & _).
  split; [reflexivity|]. split; [reflexivity|]. split; [reflexivity|]. split; [reflexivity|].
  split; [reflexivity|]. split; [reflexivity|]. split; [reflexivity|]. split; [reflexivity|].
  split; [reflexivity|]. split; [exact (arc_shapes I)|].
  split; [exact H1|]. split; [exact H2|]. split; [exact H3|].
  split; [exact (arc_R_zero I) | exact (arc_Qo_zero I)].
Qed.
Print Assumptions C02_arc_adapter.

(* get_qubo succeeds on every arc instance, in both modes and for every rho, with an n x n matrix,
   and   x'Qx + k = [c.x] + rho * |Ax - b|^2   in the model's own vocabulary (Arc.obj_value, Arc.Ax,
   Arc.rhs), for every binary x *)
Theorem C02_arc_dims :
  forall (I : Arc.inst) (feas : bool) (rho : Z),
    let n := Arc.num_variables I in
    let m := length (Arc.rhs I) in
    exists Q k,
      Zget_qubo_checked feas rho (arc_qdata I) = Ok (n, Q, k) /\
      length Q = n /\ (forall row, In row Q -> length row = n) /\
      forall x, Zbinary n x ->
        Zqf n (Zmat_of Q) x + k =
        (if feas then 0 else Arc.obj_value I (tab n x))
        + rho * sumZn m (fun r => (nth r (Arc.Ax I (tab n x)) 0 - nth r (Arc.rhs I) 0)
                                  * (nth r (Arc.Ax I (tab n x)) 0 - nth r (Arc.rhs I) 0)).
Proof. exact arc_dims. Qed.
Print Assumptions C02_arc_dims.

(* get_qubo(feasibility, penalty_parameter) of an arc object whose sufficient penalty is S: the result is
   the tabulation of the matrix that C03_forms / C04_forms evaluate *)
Theorem C02_arc_builder_output :
  forall (I : Arc.inst) (feas : bool) (pp : option Z) (S : Z),
    Zget_qubo_impl feas pp S (arc_qdata I) =
    let Qk := Zget_qubo (arc_m I) feas (Zchoose_rho feas S pp) (arc_A I, arc_b I, arc_R I) (arc_c I, arc_Qo I) in
    Ok (arc_n I, mat_tab Z (arc_n I) (arc_n I) (fst Qk), snd Qk).
Proof. exact arc_builder_output. Qed.
Print Assumptions C02_arc_builder_output.

(* ====================================================================== *)
(* path                                                                     *)
(* ====================================================================== *)
Theorem C02_path_adapter :
  forall cap init ops,
    let st := Path.prun ops (Path.pempty cap init) in
    (0 < length (nodes (Path.pg st)))%nat ->
    let d := path_d st in
    let n := Path.num_variables st in
    path_qdata st = Ok d /\
    Path.constraint_data st = Ok (dA_shape d, dA d, db d, dR d, dr d) /\
    Path.objective_data st = (dc d, dQo d) /\
    dR_shape d = (n, n) /\ dQo_shape d = (n, n) /\ dr d = 0 /\
    n = length (Path.proutes st) /\
    shapes_consistent Z n d /\
    dense_ok (dA_shape d) (dA d) /\ dense_ok (dR_shape d) (dR d) /\ dense_ok (dQo_shape d) (dQo d) /\
    (forall i j, Zmat_of (dR d) i j = 0) /\ (forall i j, Zmat_of (dQo d) i j = 0).
Proof.
  intros cap init ops st Hn d n.
  destruct (Path_facts.prun_stored ops (Path.pempty cap init) (Path_facts.PInv_empty cap init)) as [HP _].
  fold st in HP.
  destruct (path_adapter st HP Hn) as (E & Hs & Hr & D1 & D2 & D3).
  split; [exact E|].
  split.
  { unfold path_qdata in E. destruct (Path.constraint_data st) as [[[[[sh A] b] R] r]|e]; [|discriminate].
    inversion E; reflexivity. }
  split; [reflexivity|]. split; [reflexivity|]. split; [reflexivity|]. split; [reflexivity|].
  split; [exact (path_n_routes st HP)|]. split; [exact Hs|].
  split; [exact D1|]. split; [exact D2|]. split; [exact D3|].
  split; [exact (path_R_zero st) | exact (path_Qo_zero st)].
Qed.
Print Assumptions C02_path_adapter.

(* x'Qx + k = [sum_j cost_j x_j] + rho * sum_customers (sum_j cover(k,j) x_j - 1)^2 *)
Theorem C02_path_dims :
  forall cap init ops (feas : bool) (rho : Z),
    let st := Path.prun ops (Path.pempty cap init) in
    (0 < length (nodes (Path.pg st)))%nat ->
    let n := Path.num_variables st in
    let m := (length (nodes (Path.pg st)) - 1)%nat in
    exists Q k,
      Zget_qubo_checked feas rho (path_d st) = Ok (n, Q, k) /\
      length Q = n /\ (forall row, In row Q -> length row = n) /\
      forall x, Zbinary n x ->
        Zqf n (Zmat_of Q) x + k =
        (if feas then 0 else Zdot n (Zvec_of (Path.pcosts st)) x)
        + rho * sumZn m (fun k => (sumZn n (fun j => Path.cover st k j * x j) - 1)
                                  * (sumZn n (fun j => Path.cover st k j * x j) - 1)).
Proof.
  intros cap init ops feas rho st Hn n m.
  destruct (Path_facts.prun_stored ops (Path.pempty cap init) (Path_facts.PInv_empty cap init)) as [HP _].
  exact (path_dims st feas rho HP Hn).
Qed.
Print Assumptions C02_path_dims.

Theorem C02_path_builder_output :
  forall cap init ops (feas : bool) (pp : option Z) (S : Z),
    let st := Path.prun ops (Path.pempty cap init) in
    (0 < length (nodes (Path.pg st)))%nat ->
    Zget_qubo_impl feas pp S (path_d st) =
    let Qk := Zget_qubo (path_m st) feas (Zchoose_rho feas S pp) (path_A st, path_b st, path_R st) (path_c st, path_Qo st) in
    Ok (path_n st, mat_tab Z (path_n st) (path_n st) (fst Qk), snd Qk).
Proof.
  intros cap init ops feas pp S st Hn.
  destruct (Path_facts.prun_stored ops (Path.pempty cap init) (Path_facts.PInv_empty cap init)) as [HP _].
  exact (path_builder_output st feas pp S HP Hn).
Qed.
Print Assumptions C02_path_builder_output.

(* ====================================================================== *)
(* sequence                                                                 *)
(* ====================================================================== *)
Theorem C02_seq_adapter :
  forall I : Seq.inst,
    let d := seq_d I in
    let n := Seq.num_variables I in
    seq_qdata I = Ok d /\
    Seq.constraint_data I = Ok (dA_shape d, dA d, db d, dR_shape d, dR d) /\
    Seq.objective_data I = (length (dc d), dc d, dQo_shape d, dQo d) /\ dr d = 0 /\
    shapes_consistent Z n d /\
    dense_ok (dA_shape d) (dA d) /\ dense_ok (dR_shape d) (dR d) /\ dense_ok (dQo_shape d) (dQo d) /\
    (forall r k, (r < Seq.num_rows I)%nat -> (k < n)%nat -> Zmat_of (dA d) r k = Seq.Amat I r k) /\
    (forall r, (r < Seq.num_rows I)%nat -> Zvec_of (db d) r = Seq.bvec I r) /\
    (forall i j, (i < n)%nat -> (j < n)%nat -> Zmat_of (dR d) i j = Seq.Rmat (seq_E I) i j) /\
    Seq.R_entries I = Ok (seq_E I) /\
    (forall k, (k < n)%nat -> Zvec_of (dc d) k = Seq.cvec I k) /\
    (forall i j, (i < n)%nat -> (j < n)%nat -> Zmat_of (dQo d) i j = Seq.Qo I i j).
Proof.
  intros I d n. destruct (seq_adapter I) as (E & Hs & Hr & D1 & D2 & D3).
  split; [exact E|].
  split.
  { unfold seq_qdata in E. destruct (Seq.constraint_data I) as [[[[[sa A] b] sr] R]|e]; [|discriminate].
    destruct (Seq.objective_data I) as [[[lc c] sq] Q]. inversion E; reflexivity. }
  split.
  { unfold d, seq_d, Seq.objective_data. cbn [dc dQo dQo_shape]. rewrite map_length, seq_length. reflexivity. }
  split; [exact Hr|]. split; [exact Hs|]. split; [exact D1|]. split; [exact D2|]. split; [exact D3|].
  split; [exact (seq_A_entry I)|]. split; [exact (seq_b_entry I)|]. split; [exact (seq_R_entry I)|].
  split; [exact (seq_E_ok I)|]. split; [exact (seq_c_entry I) | exact (seq_Qo_entry I)].
Qed.
Print Assumptions C02_seq_adapter.

(* x'Qx + k = [c.x + x'Qo x] + rho * (|Ax - b|^2 + x'Rx) on the model's Amat, bvec, Rmat, cvec, Qo *)
Theorem C02_seq_dims :
  forall (I : Seq.inst) (feas : bool) (rho : Z),
    let n := Seq.num_variables I in
    let m := Seq.num_rows I in
    exists Q k,
      Zget_qubo_checked feas rho (seq_d I) = Ok (n, Q, k) /\
      length Q = n /\ (forall row, In row Q -> length row = n) /\
      forall x, Zbinary n x ->
        Zqf n (Zmat_of Q) x + k =
        (if feas then 0 else Seq.zdot n (Seq.cvec I) x + Seq.zqf n (Seq.Qo I) x)
        + rho * (sumZn m (fun r => (Seq.zmv n (Seq.Amat I) x r - Seq.bvec I r)
                                   * (Seq.zmv n (Seq.Amat I) x r - Seq.bvec I r))
                 + Seq.zqf n (Seq.Rmat (seq_E I)) x).
Proof. exact seq_dims. Qed.
Print Assumptions C02_seq_dims.

Theorem C02_seq_builder_output :
  forall (I : Seq.inst) (feas : bool) (pp : option Z) (S : Z),
    Zget_qubo_impl feas pp S (seq_d I) =
    let Qk := Zget_qubo (seq_m I) feas (Zchoose_rho feas S pp) (seq_A I, seq_b I, seq_R I) (seq_c I, seq_Qo I) in
    Ok (seq_n I, mat_tab Z (seq_n I) (seq_n I) (fst Qk), snd Qk).
Proof. exact seq_builder_output. Qed.
Print Assumptions C02_seq_builder_output.

(* ====================================================================== *)
(* any carrier (rational or real penalty weights)                           *)
(* ====================================================================== *)
(* The shapes do not depend on the number type: embed the integer data of a formulation into any
   commutative ring K by any map emb with emb 0 = 0 (Penalty.qdata_qc is qdata_map qcZ); consistent shapes
   stay consistent, get_qubo_checked returns Ok with an n x n matrix for every rho in K, and the C02
   identity holds for the returned matrix.  Applies to arc_qdata I, path_d st, seq_d I by the three
   adapter theorems above. *)
Theorem C02_forms_any_carrier :
  forall (K : Type) (k0 k1 : K) (kadd kmul ksub : K -> K -> K) (kopp : K -> K) (keqb : K -> K -> bool),
    ring_theory k0 k1 kadd kmul ksub kopp eq ->
    (forall a b : K, keqb a b = true <-> a = b) ->
    forall (emb : Z -> K), emb 0 = k0 ->
    forall (n : nat) (d : qdata Z), dr d = 0 -> shapes_consistent Z n d ->
    forall (feas : bool) (rho : K),
      let d' := qdata_map emb d in
      exists Q k,
        get_qubo_checked K k0 k1 kadd kmul kopp keqb feas rho d' = Ok (n, Q, k) /\
        length Q = n /\ (forall row, In row Q -> length row = n) /\
        forall x, binary K k0 k1 n x ->
          kadd (qf K k0 kadd kmul n (mat_of K k0 Q) x) k =
          kadd (if feas then k0
                else objective K k0 kadd kmul n (vec_of K k0 (dc d')) (mat_of K k0 (dQo d')) x)
               (kmul rho (penalty K k0 kadd kmul ksub (length (db d')) n
                                  (mat_of K k0 (dA d')) (vec_of K k0 (db d')) (mat_of K k0 (dR d')) x)).
Proof.
  intros K k0 k1 kadd kmul ksub kopp keqb Kring Heq emb Hemb n d Hr Hs feas rho d'.
  apply (checked_identity K k0 k1 kadd kmul ksub kopp Kring keqb Heq n feas rho d').
  - unfold d', qdata_map. cbn [dr]. rewrite Hr. exact Hemb.
  - apply shapes_consistent_map. exact Hs.
Qed.
Print Assumptions C02_forms_any_carrier.

(* ====================================================================== *)
(* non-vacuity: one concrete instance per formulation (vm_compute)           *)
(* ====================================================================== *)
(* arc: depot 0 (0, inf), customer 1 (1, 2), arcs 0->1 (time 1, cost 2), 1->0 (time 1, cost -3), UNSORTED grid.
   Six variables, three constraint rows; optimisation mode with rho = 81 (= S_arc + 1 = 5*16 + 1). *)
Definition arc_ex : Arc.inst :=
  Arc.mkInst (mkGraph [10; 11]%nat [mkNode 10 0 0 PInf; mkNode 11 1 1 (Fin 2)]
                [((0, 1)%nat, mkArc 10 11 1 2); ((1, 0)%nat, mkArc 11 10 1 (-3))]) [3; 0; 2; 1].

Example C02_arc_example :
  Arc.vars arc_ex = [(0%nat, 0, 1%nat, 1); (0%nat, 0, 1%nat, 2); (0%nat, 1, 1%nat, 2);
                     (1%nat, 1, 0%nat, 2); (1%nat, 1, 0%nat, 3); (1%nat, 2, 0%nat, 3)] /\
  dA_shape (arc_qdata arc_ex) = (3, 6)%nat /\
  dA (arc_qdata arc_ex) = [[1; 0; 0; -1; -1; 0]; [0; 1; 1; 0; 0; -1]; [1; 1; 1; 0; 0; 0]] /\
  db (arc_qdata arc_ex) = [0; 0; 1] /\ dc (arc_qdata arc_ex) = [2; 2; 2; -3; -3; -3] /\
  Zget_qubo_checked false 81 (arc_qdata arc_ex) =
    Ok (6%nat, [[2; 81; 81; -81; -81; 0]; [81; 2; 162; 0; 0; -81]; [81; 162; 2; 0; 0; -81];
                [-81; 0; 0; 78; 81; 0]; [-81; 0; 0; 81; 78; 0]; [0; -81; -81; 0; 0; 78]], 81) /\
  Zget_qubo_checked true 1 (arc_qdata arc_ex) =
    Ok (6%nat, [[0; 1; 1; -1; -1; 0]; [1; 0; 2; 0; 0; -1]; [1; 2; 0; 0; 0; -1];
                [-1; 0; 0; 1; 1; 0]; [-1; 0; 0; 1; 1; 0]; [0; -1; -1; 0; 0; 1]], 1).
Proof. vm_compute. repeat split; reflexivity. Qed.

(* path: depot, customers A and B, three stored routes D-A-D (5), D-B-D (3), D-A-B-D (2) *)
Definition path_ops : list Path.pop :=
  [Path.PAddNode 10 0 0 PInf; Path.PAddNode 11 1 0 (Fin 9); Path.PAddNode 12 1 0 (Fin 9);
   Path.PAddArc 10 11 1 2; Path.PAddArc 11 10 1 3; Path.PAddArc 10 12 1 4; Path.PAddArc 12 10 1 (-1);
   Path.PAddArc 11 12 1 1;
   Path.PAddRoute [inr 0; inr 1; inr 0]; Path.PAddRoute [inr 0; inr 2; inr 0];
   Path.PAddRoute [inr 0; inr 1; inr 2; inr 0]].
Definition path_ex : Path.pstate := Path.prun path_ops (Path.pempty 5 2).

Example C02_path_example :
  path_qdata path_ex =
    Ok (mkQdata [[1; 0; 1]; [0; 1; 1]] (2, 3)%nat [1; 1] [[0; 0; 0]; [0; 0; 0]; [0; 0; 0]] (3, 3)%nat 0
                [5; 3; 2] [[0; 0; 0]; [0; 0; 0]; [0; 0; 0]] (3, 3)%nat) /\
  Zget_qubo_checked false 11 (path_d path_ex) = Ok (3%nat, [[-6; 0; 11]; [0; -8; 11]; [11; 11; -20]], 22).
Proof. vm_compute. split; reflexivity. Qed.

(* sequence: depot D, customers A, B, arcs D->A (2), A->B (3), B->D (4) and the depot self-arc; one vehicle
   with surcharge 5, four positions: four free variables *)
Definition seq_ex : Seq.inst :=
  Seq.mkInst (run (Seq false)
              [OpAddNode 10 0 0 PInf; OpAddNode 11 1 0 (Fin 5); OpAddNode 12 1 0 (Fin 8); OpSetDepot 10;
               OpAddArc 10 11 1 2; OpAddArc 11 12 1 3; OpAddArc 12 10 1 4] empty_graph)
         1 4 [5].

Example C02_seq_example :
  Seq.vars seq_ex = [(0, 1, 0); (0, 1, 1); (0, 2, 0); (0, 2, 2)]%nat /\
  seq_qdata seq_ex =
    Ok (mkQdata [[0; 1; 0; 0]; [0; 0; 0; 1]; [1; 1; 0; 0]; [0; 0; 1; 1]] (4, 4)%nat [1; 1; 1; 1]
                [[0; 0; 0; 1]; [0; 0; 1; 0]; [0; 0; 0; 0]; [0; 0; 0; 0]] (4, 4)%nat 0
                [5; 7; 5; 9] [[0; 0; 5; 0]; [0; 0; 0; 8]; [0; 0; 0; 0]; [0; 0; 0; 0]] (4, 4)%nat) /\
  Zget_qubo_checked false 117 (seq_d seq_ex) =
    Ok (4%nat, [[-112; 117; 5; 117]; [117; -227; 117; 8]; [0; 0; -112; 117]; [0; 0; 117; -225]], 468).
Proof. vm_compute. repeat split; reflexivity. Qed.

(* the same sequence data over Qc with the non-integer weight rho = 1/2: still Ok and 4 x 4 *)
Example C02_seq_example_Qc :
  match Qcget_qubo_impl false (Some (qcF 1 2)) (qcZ 0) (qdata_map qcZ (seq_d seq_ex)) with
  | Ok (n, Q, k) => n = 4%nat /\ length Q = 4%nat /\ Qc_eq_bool k (qcZ 2) = true
  | Err _ => False
  end.
Proof. vm_compute. repeat split; reflexivity. Qed.
