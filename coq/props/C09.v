(* C09 -- The feasibility heuristic returns a genuinely feasible solution or fails loudly.
   Property theorems only; models in theories/Heur.v, proofs in theories/Heur_facts.v. *)
From Coq Require Import ZArith List Bool Lia.
From VQ Require Import Base LinAlg Vrptw Vrptw_facts Path Path_facts Penalty Penalty_facts Seq Seq_facts Heur Heur_facts Heur_seq_facts.
Import ListNotations.
Open Scope Z_scope.

(* ====================== path-based formulation ====================== *)
(* PInv st: the state of a PathBasedRoutingProblem reached by any history of add_node / add_arc /
   add_route / queries (C06_store_once: every such history satisfies it).

   (1) POSTCONDITION.  For every draw oracle `choose` (np.random.choice), every naming function
   `dum_name`, every state, every high cost: if make_feasible returns normally with the state st' and
   the vector x, then -- for the constraint data (A, b, R, r) that st' reports -- x has one entry per
   variable of st', every entry is 0 or 1, A x = b (every customer of st', including the dummy nodes,
   lies on exactly one selected route) and x'Rx = 0 (R is the zero matrix, r = 0). *)
Theorem C09_post_path :
  forall (choose : kvdict -> nat) (dum_name : nat -> nat -> nat) st high st' x,
    PInv st -> mf_path choose dum_name st high = Ok (st', x) ->
    let n := length (nodes (pg st')) in
    let m := length (proutes st') in
    PInv st' /\
    exists A,
      Path.constraint_data st' = Ok ((n - 1, m)%nat, A, repeat 1 (n - 1)%nat, zero_matrix m, 0) /\
      Path.num_variables st' = m /\ length x = m /\ Forall (fun v => v = 0 \/ v = 1) x /\
      Zbinary m (Zvec_of x) /\
      Zfeasible (n - 1) m (Zmat_of A) (Zvec_of (repeat 1 (n - 1)%nat)) (Zmat_of (zero_matrix m)) (Zvec_of x).
Proof.
  intros choose dum_name st high st' x HP H n m. split.
  - apply (mf_path_post choose dum_name st high st' x HP H).
  - exact (mf_path_feasible choose dum_name st high st' x HP H).
Qed.
Print Assumptions C09_post_path.

(* (1') ... hence (C02 identity) the QUBO built from the reported data has value 0 on x in feasibility
   mode and value = objective c'x + x'Qo x in optimisation mode, for EVERY penalty weight rho. *)
Theorem C09_post_path_qubo :
  forall (choose : kvdict -> nat) (dum_name : nat -> nat -> nat) st high st' x,
    PInv st -> mf_path choose dum_name st high = Ok (st', x) ->
    let n := length (nodes (pg st')) in
    let m := length (proutes st') in
    exists A b R,
      Path.constraint_data st' = Ok ((n - 1, m)%nat, A, b, R, 0) /\
      forall rho (feas : bool),
        Zqubo_value m (Zget_qubo (n - 1) feas rho (Zmat_of A, Zvec_of b, Zmat_of R)
                                 (Zvec_of (fst (Path.objective_data st')), Zmat_of (snd (Path.objective_data st')))) (Zvec_of x)
        = if feas then 0
          else Zobjective m (Zvec_of (fst (Path.objective_data st'))) (Zmat_of (snd (Path.objective_data st'))) (Zvec_of x).
Proof.
  intros choose dum_name st high st' x HP H n m.
  destruct (mf_path_feasible choose dum_name st high st' x HP H) as (A & Ecd & _ & _ & _ & Hb & Hf).
  exists A, (repeat 1 (n - 1)%nat), (zero_matrix m). split; [exact Ecd|].
  intros rho feas. apply feasible_qubo_value; assumption.
Qed.
Print Assumptions C09_post_path_qubo.

(* (1'') Repeated invocations: the state after a successful call is again a reachable state, so the
   postcondition holds after every successful call of a sequence of calls. *)
Theorem C09_post_path_repeated :
  forall (choose : kvdict -> nat) (dum_name : nat -> nat -> nat) highs st st' x,
    PInv st -> In (Ok (st', x)) (mf_path_iter choose dum_name st highs) ->
    let n := length (nodes (pg st')) in
    let m := length (proutes st') in
    exists A,
      Path.constraint_data st' = Ok ((n - 1, m)%nat, A, repeat 1 (n - 1)%nat, zero_matrix m, 0) /\
      Path.num_variables st' = m /\ length x = m /\ Forall (fun v => v = 0 \/ v = 1) x /\
      Zbinary m (Zvec_of x) /\
      Zfeasible (n - 1) m (Zmat_of A) (Zvec_of (repeat 1 (n - 1)%nat)) (Zmat_of (zero_matrix m)) (Zvec_of x).
Proof.
  intros choose dum_name highs. induction highs as [|h hs IH]; simpl; intros st st' x HP Hin; [contradiction|].
  destruct (mf_path choose dum_name st h) as [[s1 x1]|e] eqn:E.
  - destruct Hin as [Heq|Hin].
    + inversion Heq; subst. exact (mf_path_feasible choose dum_name st h st' x HP E).
    + apply (IH s1); auto. apply (mf_path_post choose dum_name st h s1 x1 HP E).
  - destruct Hin as [Heq|[]]. discriminate.
Qed.
Print Assumptions C09_post_path_repeated.

(* every history from the empty problem satisfies PInv *)
Theorem C09_path_reachable : forall cap init ops, PInv (prun ops (pempty cap init)).
Proof. intros. apply prun_stored. apply PInv_empty. Qed.
Print Assumptions C09_path_reachable.

(* (2) TOTALITY.  Hypotheses on the instance (PathHyp): a depot exists (node 0), its demand is 0 and its
   window never closes; 0 <= initial load <= capacity; every customer has |demand| <= capacity ("customer
   demands within capacity") and a window that does not close before time 0.  Hypotheses on the
   oracles: the draw returns a key of its (non-empty) argument, as np.random.choice does; distinct
   suffixes give distinct dummy names.  Then make_feasible returns normally -- for EVERY route pool
   (PInv st: any stored routes, also none), every arc set (also none: zero vehicles) and every high cost
   -- and the hypotheses hold again for the new state, so every later invocation succeeds as well.
   Each hypothesis is needed: see notes/C09.md for the failing instance obtained by dropping it. *)
Theorem C09_total_path :
  forall (choose : kvdict -> nat) (dum_name : nat -> nat -> nat),
    (forall d, d <> [] -> In (choose d) (map fst d)) ->
    (forall u k k', dum_name u k = dum_name u k' -> k = k') ->
    forall st high, PInv st -> PathHyp st ->
      exists st' x, mf_path choose dum_name st high = Ok (st', x) /\ PInv st' /\ PathHyp st'.
Proof.
  intros choose dum_name Hc Hd st high HP HH.
  destruct (mf_path_total choose dum_name Hc Hd st high HP HH) as (st' & x & E & HH').
  exists st', x. split; [exact E|]. split; [|exact HH'].
  apply (mf_path_post choose dum_name st high st' x HP E).
Qed.
Print Assumptions C09_total_path.

Theorem C09_total_path_repeated :
  forall (choose : kvdict -> nat) (dum_name : nat -> nat -> nat),
    (forall d, d <> [] -> In (choose d) (map fst d)) ->
    (forall u k k', dum_name u k = dum_name u k' -> k = k') ->
    forall highs st, PInv st -> PathHyp st ->
      length (mf_path_iter choose dum_name st highs) = length highs /\
      Forall (fun r => exists st' x, r = Ok (st', x)) (mf_path_iter choose dum_name st highs).
Proof.
  intros choose dum_name Hc Hd. induction highs as [|h hs IH]; simpl; intros st HP HH; [split; [reflexivity|constructor]|].
  destruct (C09_total_path choose dum_name Hc Hd st h HP HH) as (st' & x & E & HP' & HH'). rewrite E.
  destruct (IH st' HP' HH') as [L F]. simpl. split; [congruence|]. constructor; eauto.
Qed.
Print Assumptions C09_total_path_repeated.

(* the oracles used by the correspondence satisfy the oracle hypotheses *)
Theorem C09_oracles_ok :
  (forall d, d <> [] -> In (choose_first d) (map fst d)) /\
  (forall d, d <> [] -> In (choose_last d) (map fst d)) /\
  (forall d, d <> [] -> In (choose_min d) (map fst d)) /\
  (forall u k k', harness_dum u k = harness_dum u k' -> k = k').
Proof.
  split; [|split; [|split]].
  - intros [|kv d] H; [congruence|]. left. reflexivity.
  - intros d H. unfold choose_last. apply in_map. destruct (exists_last H) as (l & a & ->).
    rewrite last_last. apply in_app_iff. right. left. reflexivity.
  - exact choose_min_mem.
  - unfold harness_dum. intros; lia.
Qed.
Print Assumptions C09_oracles_ok.

(* the boolean test of the hypotheses that the correspondence compares with the harness' own test *)
Theorem C09_path_hyp_bool : forall st, path_hypb st = true -> PathHyp st.
Proof. exact path_hypb_sound. Qed.
Print Assumptions C09_path_hyp_bool.

(* ---------------- example (non-vacuity) ---------------- *)
(* depot 0 (0,inf); customer 1: pick-up of 4 (demand -4), window (2,6), only an exit arc; customer 2:
   delivery of 3, window (0,5), served by the pool route 0-2-0.  Capacity 5, initial load 3: customer 1
   needs a dummy stop that unloads 2 (3 + 4 > 5).  First key drawn. *)
Definition ex_path : pstate :=
  pstate_of [OpAddNode 0 0 0 PInf; OpAddNode 1 (-4) 2 (Fin 6); OpAddNode 2 3 0 (Fin 5); OpSetDepot 0;
             OpAddArc 1 0 1 2; OpAddArc 0 2 1 4; OpAddArc 2 0 1 1] 5 3 [[inl 0%nat; inl 2%nat; inl 0%nat]].

Example C09_example_path :
  exists st',
    mf_path choose_first harness_dum ex_path 10 = Ok (st', [1; 1]) /\
    names (pg st') = [0; 1; 2; 116]%nat /\
    map ndemand (nodes (pg st')) = [0; -4; 3; 2] /\
    proutes st' = [[0; 2; 0]; [0; 3; 1; 0]]%nat /\ pcosts st' = [5; 22] /\
    Path.constraint_data st' = Ok ((3, 2)%nat, [[0; 1]; [1; 0]; [0; 1]], [1; 1; 1], [[0; 0]; [0; 0]], 0).
Proof. eexists. vm_compute. repeat split; reflexivity. Qed.

(* the example satisfies the hypotheses of the totality theorem; so does the same graph with an empty
   pool and without any arc (zero vehicles), where both customers get a dummy stop (loads +2 and 0) *)
Lemma PathHyp_intro st d rest :
  nodes (pg st) = d :: rest -> ndemand d = 0 -> nhi d = PInf -> 0 <= pinit st <= pcap st ->
  Forall (fun nd => - pcap st <= ndemand nd <= pcap st /\ ext_le (Fin 0) (nhi nd)) rest -> PathHyp st.
Proof.
  intros Hn Hd Hh Hl Hr. constructor; [exists d, rest; auto|exact Hl|].
  intros k nd Hk Hnth. rewrite Hn in Hnth. destruct k as [|k]; [lia|]. simpl in Hnth.
  rewrite Forall_forall in Hr. apply Hr. eapply nth_error_In; eauto.
Qed.

Example C09_example_path_hyp : PInv ex_path /\ PathHyp ex_path.
Proof.
  split.
  - apply PInv_pstate_of.
  - apply (PathHyp_intro ex_path (mkNode 0 0 0 PInf) [mkNode 1 (-4) 2 (Fin 6); mkNode 2 3 0 (Fin 5)]);
      try reflexivity; [vm_compute; split; discriminate|].
    repeat constructor; vm_compute; discriminate.
Qed.

Definition ex_path_empty : pstate :=
  pstate_of [OpAddNode 0 0 0 PInf; OpAddNode 1 (-4) 2 (Fin 6); OpAddNode 2 3 0 (Fin 5); OpSetDepot 0] 5 3 [].

Example C09_example_path_empty_pool :
  exists st',
    mf_path choose_last harness_dum ex_path_empty 7 = Ok (st', [1; 1]) /\
    names (pg st') = [0; 1; 2; 116; 132]%nat /\ map ndemand (nodes (pg st')) = [0; -4; 3; 2; 0] /\
    proutes st' = [[0; 3; 1; 0]; [0; 4; 2; 0]]%nat /\ pcosts st' = [14; 14].
Proof. eexists. vm_compute. repeat split; reflexivity. Qed.


(* ====================== sequence-based formulation ====================== *)
(* Hypotheses of the postcondition: Inv (ig I) -- the graph is one reached by add_node / add_arc / set_depot
   (C15) --, seq_ok I -- its arc keys are distinct, the depot self-arc exists (the class's set_depot was
   called; C07_hypotheses_reachable) and there is a depot --, and at least three positions (as in C07_iff).

   (3) POSTCONDITION.  If make_feasible returns normally with the instance I' (arcs, vehicles and vehicle
   costs possibly extended) and the vector x, then there are routes, one per vehicle of I', each a list of
   customers along arcs of I' from the depot back to the depot within L positions, covering every customer
   exactly once, such that the walks obtained by padding them with depot stays form a walk assignment of I',
   x has one entry per variable of I' and is the indicator vector of that walk assignment.  Hence (C07_iff,
   right to left) x is binary and satisfies A x = b and x'Rx = 0 for the data I' reports.
   [Before commit dd659d9 the faithful model refuted this statement: depot window (0,0), one customer with
   window (1,1), no arc, V = 0, L = 4 returned Ok with x'Rx = 1; the refused exit arc now raises ValueError.] *)
Theorem C09_post_seq :
  forall (strict : bool) I high I' x,
    Inv (ig I) -> seq_ok I -> (3 <= iL I)%nat ->
    mf_seq strict I high = Ok (I', x) ->
    let n := Seq.num_variables I' in
    (exists routes,
       length routes = iV I' /\ Forall (Seq_facts.valid_route I') routes /\
       (forall c, (1 <= c)%nat -> (c < iN I')%nat -> count_occ Nat.eq_dec (concat routes) c = 1%nat) /\
       walk_assignment I' (pad_walks routes) /\
       forall k, (k < n)%nat -> nth k x 0 = indicator_free I' (pad_walks routes) k) /\
    length x = n /\ Forall (fun v => v = 0 \/ v = 1) x /\ zbinary n (Zvec_of x) /\
    exists E, R_entries I' = Ok E /\
      (forall r, (r < num_rows I')%nat -> zmv n (Amat I') (Zvec_of x) r = bvec I' r) /\
      zqf n (Rmat E) (Zvec_of x) = 0.
Proof.
  intros strict I high I' x HI Hok HL H n. split.
  - destruct (mf_seq_walk strict I high I' x H HI Hok HL) as (routes & A & B & C & D & _ & F & _).
    exists routes. auto.
  - exact (mf_seq_feasible strict I high I' x H HI Hok HL).
Qed.
Print Assumptions C09_post_seq.

(* (3') ... hence the QUBO of the reported data has value 0 on x in feasibility mode and the objective
   value in optimisation mode, for every penalty weight. *)
Theorem C09_post_seq_qubo :
  forall (strict : bool) I high I' x,
    Inv (ig I) -> seq_ok I -> (3 <= iL I)%nat ->
    mf_seq strict I high = Ok (I', x) ->
    let n := Seq.num_variables I' in
    exists E, R_entries I' = Ok E /\
      forall rho (feas : bool),
        Zqubo_value n (Zget_qubo (num_rows I') feas rho (Amat I', bvec I', Rmat E) (cvec I', Qo I')) (Zvec_of x)
        = if feas then 0 else Zobjective n (cvec I') (Qo I') (Zvec_of x).
Proof.
  intros strict I high I' x HI Hok HL H n.
  destruct (mf_seq_feasible strict I high I' x H HI Hok HL) as (_ & _ & Hb & E & HE & HA & HR).
  exists E. split; [exact HE|]. intros rho feas. apply feasible_qubo_value; [exact Hb|]. split; assumption.
Qed.
Print Assumptions C09_post_seq_qubo.

(* (3'') the new instance satisfies the hypotheses again: the postcondition holds after every successful
   call of a sequence of calls *)
Theorem C09_post_seq_repeated :
  forall (strict : bool) highs I I' x,
    Inv (ig I) -> seq_ok I -> (3 <= iL I)%nat ->
    In (Ok (I', x)) (mf_seq_iter strict I highs) ->
    let n := Seq.num_variables I' in
    length x = n /\ zbinary n (Zvec_of x) /\
    exists E, R_entries I' = Ok E /\
      (forall r, (r < num_rows I')%nat -> zmv n (Amat I') (Zvec_of x) r = bvec I' r) /\
      zqf n (Rmat E) (Zvec_of x) = 0.
Proof.
  intros strict. induction highs as [|h hs IH]; simpl; intros I I' x HI Hok HL Hin; [contradiction|].
  destruct (mf_seq strict I h) as [[J y]|e] eqn:E.
  - destruct Hin as [Heq|Hin].
    + inversion Heq; subst. destruct (mf_seq_feasible strict I h I' x E HI Hok HL) as (A & _ & B & C). auto.
    + destruct (mf_seq_walk strict I h J y E HI Hok HL) as (_ & _ & _ & _ & _ & _ & _ & Hok' & HI' & HL' & _).
      apply (IH J); auto. lia.
  - destruct Hin as [Heq|[]]. discriminate.
Qed.
Print Assumptions C09_post_seq_repeated.

(* (4) TOTALITY.  In addition: the depot window never closes and no customer's window closes before the
   depot window opens (SeqHyp; a0 >= 0 is not needed).  Then make_feasible returns normally for every vehicle
   count (also 0), every vehicle-cost list, both modes and every high cost, and all hypotheses hold again. *)
Theorem C09_total_seq :
  forall (strict : bool) I high,
    Inv (ig I) -> seq_ok I -> (3 <= iL I)%nat -> SeqHyp (ig I) ->
    exists I' x, mf_seq strict I high = Ok (I', x) /\
                 Inv (ig I') /\ seq_ok I' /\ iL I' = iL I /\ SeqHyp (ig I').
Proof. exact mf_seq_total. Qed.
Print Assumptions C09_total_seq.

Theorem C09_total_seq_repeated :
  forall (strict : bool) highs I,
    Inv (ig I) -> seq_ok I -> (3 <= iL I)%nat -> SeqHyp (ig I) ->
    length (mf_seq_iter strict I highs) = length highs /\
    Forall (fun r => exists I' x, r = Ok (I', x)) (mf_seq_iter strict I highs).
Proof.
  intros strict. induction highs as [|h hs IH]; simpl; intros I HI Hok HL HH; [split; [reflexivity|constructor]|].
  destruct (mf_seq_total strict I h HI Hok HL HH) as (I' & x & E & HI' & Hok' & HL' & HH'). rewrite E.
  destruct (IH I' HI' Hok' ltac:(lia) HH') as [A B]. simpl. split; [congruence|]. constructor; eauto.
Qed.
Print Assumptions C09_total_seq_repeated.

Theorem C09_seq_hyp_bool : forall J, seq_hypb J = true -> seq_ok J /\ (3 <= iL J)%nat /\ SeqHyp (ig J).
Proof. exact seq_hypb_sound. Qed.
Print Assumptions C09_seq_hyp_bool.

(* ---------------- example (non-vacuity) ---------------- *)
(* strict class; depot 0 (0,inf), customers 1 (0,5), 2 (1,6), 3 (2,4); arcs 0->1, 1->2; one vehicle, four
   positions.  The vehicle fills both free positions (0-1-2-0; the arc 2->0 is added), customer 3 gets a
   dummy vehicle with surcharge 7 and the arcs 0->3, 3->0. *)
Definition ex_seq_ops : list gop :=
  [OpAddNode 0 0 0 PInf; OpAddNode 1 1 0 (Fin 5); OpAddNode 2 1 1 (Fin 6); OpAddNode 3 1 2 (Fin 4); OpSetDepot 0;
   OpAddArc 0 1 1 2; OpAddArc 1 2 1 3].

Example C09_example_seq :
  exists J J',
    sinst_of true ex_seq_ops 1 4 = Ok J /\
    Inv (ig J) /\ seq_ok J /\ (3 <= iL J)%nat /\ SeqHyp (ig J) /\
    mf_seq true J 7 = Ok (J', [0; 0; 1; 0; 0; 1; 0; 1; 1; 0; 0; 0]) /\
    iV J' = 2%nat /\ ivc J' = [0; 7] /\
    map fst (arcs (ig J')) = [(0, 0); (0, 1); (1, 2); (2, 0); (0, 3); (3, 0)]%nat /\
    map (fun kv => acost (snd kv)) (arcs (ig J')) = [0; 2; 3; 0; 7; 7].
Proof.
  exists (mkInst (run (Seq true) ex_seq_ops empty_graph) 1 4 [0]). eexists. split; [vm_compute; reflexivity|].
  split; [apply run_inv; apply Inv_empty|].
  split; [apply depot_set_seq_ok; split; [apply run_inv; apply Inv_empty | vm_compute; auto]|].
  split; [vm_compute; lia|].
  split.
  - eexists. eexists. split; [vm_compute; reflexivity|]. split; [reflexivity|].
    intros nd [<-|[<-|[<-|[]]]]; vm_compute; discriminate.
  - vm_compute. repeat split; reflexivity.
Qed.
