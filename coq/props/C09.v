(* C09 -- The feasibility heuristic returns a genuinely feasible solution or fails loudly.
   Property theorems only; models in theories/Heur.v, proofs in theories/Heur_facts.v. *)
From Coq Require Import ZArith List Bool Lia.
From VQ Require Import Base LinAlg Vrptw Vrptw_facts Path Path_facts Penalty Penalty_facts Heur Heur_facts.
Import ListNotations.
Open Scope Z_scope.

(* ====================== path-based formulation ====================== *)
(* PInv st: the state of a PathBasedRoutingProblem reached by any history of add_node / add_arc /
   add_route / queries (C06_store_once: every such history satisfies it).

   (1) POSTCONDITION.  For every draw oracle `choose` (np.random.choice), every naming function
   `dum_name`, every state, every high cost: if make_feasible returns normally with the state st' and
   the vector x, then -- for the constraint data (A, b, R, r) that st' reports -- x has one entry per
   variable of st', every entry is 0 or 1, A x = b (every customer of st', including the dummy nodes,
   lies on exactly one selected route) and x'Rx = 0 (R is the zero matrix, r = 0). *)
Theorem C09_post_path :
  forall (choose : kvdict -> nat) (dum_name : nat -> nat -> nat) st high st' x,
    PInv st -> mf_path choose dum_name st high = Ok (st', x) ->
    let n := length (nodes (pg st')) in
    let m := length (proutes st') in
    PInv st' /\
    exists A,
      constraint_data st' = Ok ((n - 1, m)%nat, A, repeat 1 (n - 1)%nat, zero_matrix m, 0) /\
      num_variables st' = m /\ length x = m /\ Forall (fun v => v = 0 \/ v = 1) x /\
      Zbinary m (Zvec_of x) /\
      Zfeasible (n - 1) m (Zmat_of A) (Zvec_of (repeat 1 (n - 1)%nat)) (Zmat_of (zero_matrix m)) (Zvec_of x).
Proof.
  intros choose dum_name st high st' x HP H n m. split.
  - apply (mf_path_post choose dum_name st high st' x HP H).
  - exact (mf_path_feasible choose dum_name st high st' x HP H).
Qed.
Print Assumptions C09_post_path.

(* (1') ... hence (C02 identity) the QUBO built from the reported data has value 0 on x in feasibility
   mode and value = objective c'x + x'Qo x in optimisation mode, for EVERY penalty weight rho. *)
Theorem C09_post_path_qubo :
  forall (choose : kvdict -> nat) (dum_name : nat -> nat -> nat) st high st' x,
    PInv st -> mf_path choose dum_name st high = Ok (st', x) ->
    let n := length (nodes (pg st')) in
    let m := length (proutes st') in
    exists A b R,
      constraint_data st' = Ok ((n - 1, m)%nat, A, b, R, 0) /\
      forall rho (feas : bool),
        Zqubo_value m (Zget_qubo (n - 1) feas rho (Zmat_of A, Zvec_of b, Zmat_of R)
                                 (Zvec_of (fst (objective_data st')), Zmat_of (snd (objective_data st')))) (Zvec_of x)
        = if feas then 0
          else Zobjective m (Zvec_of (fst (objective_data st'))) (Zmat_of (snd (objective_data st'))) (Zvec_of x).
Proof.
  intros choose dum_name st high st' x HP H n m.
  destruct (mf_path_feasible choose dum_name st high st' x HP H) as (A & Ecd & _ & _ & _ & Hb & Hf).
  exists A, (repeat 1 (n - 1)%nat), (zero_matrix m). split; [exact Ecd|].
  intros rho feas. apply feasible_qubo_value; assumption.
Qed.
Print Assumptions C09_post_path_qubo.

(* (1'') Repeated invocations: the state after a successful call is again a reachable state, so the
   postcondition holds after every successful call of a sequence of calls. *)
Theorem C09_post_path_repeated :
  forall (choose : kvdict -> nat) (dum_name : nat -> nat -> nat) highs st st' x,
    PInv st -> In (Ok (st', x)) (mf_path_iter choose dum_name st highs) ->
    let n := length (nodes (pg st')) in
    let m := length (proutes st') in
    exists A,
      constraint_data st' = Ok ((n - 1, m)%nat, A, repeat 1 (n - 1)%nat, zero_matrix m, 0) /\
      num_variables st' = m /\ length x = m /\ Forall (fun v => v = 0 \/ v = 1) x /\
      Zbinary m (Zvec_of x) /\
      Zfeasible (n - 1) m (Zmat_of A) (Zvec_of (repeat 1 (n - 1)%nat)) (Zmat_of (zero_matrix m)) (Zvec_of x).
Proof.
  intros choose dum_name highs. induction highs as [|h hs IH]; simpl; intros st st' x HP Hin; [contradiction|].
  destruct (mf_path choose dum_name st h) as [[s1 x1]|e] eqn:E.
  - destruct Hin as [Heq|Hin].
    + inversion Heq; subst. exact (mf_path_feasible choose dum_name st h st' x HP E).
    + apply (IH s1); auto. apply (mf_path_post choose dum_name st h s1 x1 HP E).
  - destruct Hin as [Heq|[]]. discriminate.
Qed.
Print Assumptions C09_post_path_repeated.

(* every history from the empty problem satisfies PInv *)
Theorem C09_path_reachable : forall cap init ops, PInv (prun ops (pempty cap init)).
Proof. intros. apply prun_stored. apply PInv_empty. Qed.
Print Assumptions C09_path_reachable.

(* (2) TOTALITY.  Hypotheses on the instance (PathHyp): a depot exists (node 0), its demand is 0 and its
   window never closes; 0 <= initial load <= capacity; every customer has |demand| <= capacity ("customer
   demands within capacity") and a window that does not close before time 0.  Hypotheses on the
   oracles: the draw returns a key of its (non-empty) argument, as np.random.choice does; distinct
   suffixes give distinct dummy names.  Then make_feasible returns normally -- for EVERY route pool
   (PInv st: any stored routes, also none), every arc set (also none: zero vehicles) and every high cost
   -- and the hypotheses hold again for the new state, so every later invocation succeeds as well.
   Each hypothesis is needed: see notes/C09.md for the failing instance obtained by dropping it. *)
Theorem C09_total_path :
  forall (choose : kvdict -> nat) (dum_name : nat -> nat -> nat),
    (forall d, d <> [] -> In (choose d) (map fst d)) ->
    (forall u k k', dum_name u k = dum_name u k' -> k = k') ->
    forall st high, PInv st -> PathHyp st ->
      exists st' x, mf_path choose dum_name st high = Ok (st', x) /\ PInv st' /\ PathHyp st'.
Proof.
  intros choose dum_name Hc Hd st high HP HH.
  destruct (mf_path_total choose dum_name Hc Hd st high HP HH) as (st' & x & E & HH').
  exists st', x. split; [exact E|]. split; [|exact HH'].
  apply (mf_path_post choose dum_name st high st' x HP E).
Qed.
Print Assumptions C09_total_path.

Theorem C09_total_path_repeated :
  forall (choose : kvdict -> nat) (dum_name : nat -> nat -> nat),
    (forall d, d <> [] -> In (choose d) (map fst d)) ->
    (forall u k k', dum_name u k = dum_name u k' -> k = k') ->
    forall highs st, PInv st -> PathHyp st ->
      length (mf_path_iter choose dum_name st highs) = length highs /\
      Forall (fun r => exists st' x, r = Ok (st', x)) (mf_path_iter choose dum_name st highs).
Proof.
  intros choose dum_name Hc Hd. induction highs as [|h hs IH]; simpl; intros st HP HH; [split; [reflexivity|constructor]|].
  destruct (C09_total_path choose dum_name Hc Hd st h HP HH) as (st' & x & E & HP' & HH'). rewrite E.
  destruct (IH st' HP' HH') as [L F]. simpl. split; [congruence|]. constructor; eauto.
Qed.
Print Assumptions C09_total_path_repeated.

(* the oracles used by the correspondence satisfy the oracle hypotheses *)
Theorem C09_oracles_ok :
  (forall d, d <> [] -> In (choose_first d) (map fst d)) /\
  (forall d, d <> [] -> In (choose_last d) (map fst d)) /\
  (forall u k k', harness_dum u k = harness_dum u k' -> k = k').
Proof.
  split; [|split].
  - intros [|kv d] H; [congruence|]. left. reflexivity.
  - intros d H. unfold choose_last. apply in_map. destruct (exists_last H) as (l & a & ->).
    rewrite last_last. apply in_app_iff. right. left. reflexivity.
  - unfold harness_dum. intros; lia.
Qed.
Print Assumptions C09_oracles_ok.

(* ---------------- example (non-vacuity) ---------------- *)
(* depot 0 (0,inf); customer 1: pick-up of 4 (demand -4), window (2,6), only an exit arc; customer 2:
   delivery of 3, window (0,5), served by the pool route 0-2-0.  Capacity 5, initial load 3: customer 1
   needs a dummy stop that unloads 2 (3 + 4 > 5).  First key drawn. *)
Definition ex_path : pstate :=
  pstate_of [OpAddNode 0 0 0 PInf; OpAddNode 1 (-4) 2 (Fin 6); OpAddNode 2 3 0 (Fin 5); OpSetDepot 0;
             OpAddArc 1 0 1 2; OpAddArc 0 2 1 4; OpAddArc 2 0 1 1] 5 3 [[inl 0%nat; inl 2%nat; inl 0%nat]].

Example C09_example_path :
  exists st',
    mf_path choose_first harness_dum ex_path 10 = Ok (st', [1; 1]) /\
    names (pg st') = [0; 1; 2; 116]%nat /\
    map ndemand (nodes (pg st')) = [0; -4; 3; 2] /\
    proutes st' = [[0; 2; 0]; [0; 3; 1; 0]]%nat /\ pcosts st' = [5; 22] /\
    constraint_data st' = Ok ((3, 2)%nat, [[0; 1]; [1; 0]; [0; 1]], [1; 1; 1], [[0; 0]; [0; 0]], 0).
Proof. eexists. vm_compute. repeat split; reflexivity. Qed.

(* the example satisfies the hypotheses of the totality theorem; so does the same graph with an empty
   pool and without any arc (zero vehicles), where both customers get a dummy stop (loads +2 and 0) *)
Lemma PathHyp_intro st d rest :
  nodes (pg st) = d :: rest -> ndemand d = 0 -> nhi d = PInf -> 0 <= pinit st <= pcap st ->
  Forall (fun nd => - pcap st <= ndemand nd <= pcap st /\ ext_le (Fin 0) (nhi nd)) rest -> PathHyp st.
Proof.
  intros Hn Hd Hh Hl Hr. constructor; [exists d, rest; auto|exact Hl|].
  intros k nd Hk Hnth. rewrite Hn in Hnth. destruct k as [|k]; [lia|]. simpl in Hnth.
  rewrite Forall_forall in Hr. apply Hr. eapply nth_error_In; eauto.
Qed.

Example C09_example_path_hyp : PInv ex_path /\ PathHyp ex_path.
Proof.
  split.
  - apply PInv_pstate_of.
  - apply (PathHyp_intro ex_path (mkNode 0 0 0 PInf) [mkNode 1 (-4) 2 (Fin 6); mkNode 2 3 0 (Fin 5)]);
      try reflexivity; [vm_compute; split; discriminate|].
    repeat constructor; vm_compute; discriminate.
Qed.

Definition ex_path_empty : pstate :=
  pstate_of [OpAddNode 0 0 0 PInf; OpAddNode 1 (-4) 2 (Fin 6); OpAddNode 2 3 0 (Fin 5); OpSetDepot 0] 5 3 [].

Example C09_example_path_empty_pool :
  exists st',
    mf_path choose_last harness_dum ex_path_empty 7 = Ok (st', [1; 1]) /\
    names (pg st') = [0; 1; 2; 116; 132]%nat /\ map ndemand (nodes (pg st')) = [0; -4; 3; 2; 0] /\
    proutes st' = [[0; 3; 1; 0]; [0; 4; 2; 0]]%nat /\ pcosts st' = [14; 14].
Proof. eexists. vm_compute. repeat split; reflexivity. Qed.
