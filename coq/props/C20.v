(* C20 -- QUBO report statistics equal brute-force values.
   Property theorems only; definitions in theories/Report.v, proofs in theories/Report_facts.v.
   Tolerance 0 = the default tol=1e-16 on the integer (scaled dyadic) values the model is about. *)
From Coq Require Import ZArith List Bool Lia.
From VQ Require Import Base LinAlg Report Report_facts.
Open Scope Z_scope.

(* The loop of report(obj_stats=True), run over ANY list of values vs after the start value v0,
   returns the brute-force statistics of v0 :: vs: their sum, their minimum, the least value
   strictly above the minimum (None when there is none) and the multiplicity of the minimum. *)
Theorem C20_scan_list : forall (v0 : Z) (vs : list Z),
  scan_list 0 v0 vs =
  (ref_sum (v0 :: vs), ref_min v0 vs, ref_second (ref_min v0 vs) (v0 :: vs), ref_count (ref_min v0 vs) (v0 :: vs)).
Proof. exact scan_list_correct. Qed.
Print Assumptions C20_scan_list.

(* The fold invariant: after every prefix of the visited values the state (sum, opt, second, count)
   describes exactly that prefix together with the start value (sum includes x = 0; opt = prefix
   minimum; count = its multiplicity; second = least prefix value above opt, or None), and the
   rest of the loop continues from that state. *)
Theorem C20_scan_invariant : forall (v0 : Z) (pre post : list Z),
  stats_spec (v0 :: pre) (scan_list 0 v0 pre) /\
  scan_list 0 v0 (pre ++ post) = fold_left (scan_step 0) post (scan_list 0 v0 pre).
Proof. intros. split; [apply scan_list_spec | apply scan_list_app]. Qed.
Print Assumptions C20_scan_invariant.

(* The description stats_spec pins the four numbers down (so the brute-force functions used as
   reference above are the only possible reading), and the reference functions meet it. *)
Theorem C20_stats_determined : forall (l : list Z) (st st' : sstate),
  stats_spec l st -> stats_spec l st' -> st = st'.
Proof. exact stats_spec_unique. Qed.
Print Assumptions C20_stats_determined.

Theorem C20_reference_meets_spec : forall (v0 : Z) (vs : list Z),
  stats_spec (v0 :: vs) (ref_stats v0 vs).
Proof. exact ref_stats_spec. Qed.
Print Assumptions C20_reference_meets_spec.

(* The assignments visited by the loop (digits of v = 1 .. 2^n-1, most significant first),
   preceded by x = 0, are all bit vectors of length n, each exactly once: 2^n of them. *)
Theorem C20_enumeration : forall n : nat,
  repeat false n :: loop_assignments n = enum n /\
  NoDup (enum n) /\
  (forall x, In x (enum n) <-> length x = n) /\
  length (enum n) = (2 ^ n)%nat.
Proof.
  intros n. split; [apply loop_enum|]. split; [apply enum_NoDup|].
  split; [apply enum_complete | apply enum_length].
Qed.
Print Assumptions C20_enumeration.

(* For EVERY n and EVERY objective f on bit vectors whose value at x = 0 is the start value c:
   the scan returns the brute-force statistics over all 2^n assignments ... *)
Theorem C20_scan : forall (n : nat) (f : list bool -> Z) (c : Z),
  f (repeat false n) = c -> scan 0 n c f = brute n f.
Proof. intros n f c. apply scan_brute. Qed.
Print Assumptions C20_scan.

(* ... that is: sum = sum of f over all assignments (mean * 2^n); opt is attained and is a lower
   bound; count = number of assignments attaining it; second is the least value strictly above
   opt, attained, or None exactly when f is constant. *)
Theorem C20_scan_meaning : forall (n : nat) (f : list bool -> Z) (c : Z),
  f (repeat false n) = c ->
  match scan 0 n c f with
  | (sm, opt, sec, cnt) =>
      sm = ref_sum (map f (enum n)) /\
      (exists x, length x = n /\ f x = opt) /\
      (forall x, length x = n -> opt <= f x) /\
      cnt = length (filter (fun x => opt =? f x) (enum n)) /\
      match sec with
      | None => forall x, length x = n -> f x = opt
      | Some s => (exists x, length x = n /\ f x = s) /\ opt < s /\
                  (forall x, length x = n -> opt < f x -> s <= f x)
      end
  end.
Proof. intros n f c. apply scan_meaning. Qed.
Print Assumptions C20_scan_meaning.

(* The optimality_gap key is absent exactly when all visited values equal the start value. *)
Theorem C20_gap_absent_iff : forall (v0 : Z) (vs : list Z),
  (let '(_, _, sec, _) := scan_list 0 v0 vs in sec = None) <-> (forall v, In v vs -> v = v0).
Proof. exact scan_list_no_gap. Qed.
Print Assumptions C20_gap_absent_iff.

(* report(obj_stats=True) of a container built from (M, c, pattern): the statistics are the
   brute-force statistics of the container's own objective x'Qx + c (whose value at 0 is c);
   without obj_stats there are none. *)
Theorem C20_report_stats : forall (p : pattern) (n : nat) (M : zmat) (c : Z),
  snd (report p n M c true 0) = Some (brute n (eval_qubo n (container_Q p M) c)) /\
  (forall tol, snd (report p n M c false tol) = None).
Proof. intros. split; [apply report_stats | intros; apply report_no_stats]. Qed.
Print Assumptions C20_report_stats.

(* Structural metrics: size = n; num_observables = number of monomials x_i x_j (i <= j < n) of the
   objective whose coefficient (Q_ii, resp. Q_ij + Q_ji) is non-zero; density = that number over the
   number n(n+1)/2 of such monomials, reported as 2*nnz / ((n+1)*n), hence between 0 and 1; the
   coefficients are those of the matrix handed to the constructor, whatever the pattern. *)
Theorem C20_metrics : forall (p : pattern) (n : nat) (M : zmat) (c : Z) (os : bool) (tol : Z),
  let Q := container_Q p M in
  let N := zsum n (fun j => zsum (S j) (fun i => nz (coef Q i j))) in
  let P := zsum n (fun j => zsum (S j) (fun _ => 1)) in
  fst (report p n M c os tol) = (n, N, (2 * N, (Z.of_nat n + 1) * Z.of_nat n), distinct_diag n (to_upper Q)) /\
  2 * P = (Z.of_nat n + 1) * Z.of_nat n /\ 0 <= N <= P /\
  (forall i j, (p = Symmetric -> Z.even (M i j + M j i) = true) -> coef Q i j = coef M i j).
Proof.
  intros. split; [apply report_metrics|]. split; [apply upper_positions_count|].
  split; [apply nnz_coef_bounds | intros; apply coef_container; assumption].
Qed.
Print Assumptions C20_metrics.

(* Non-vacuity.  Visiting 0, 5, 3, 3, -1, 4, -1: a runner-up that is lowered (5 -> 3), a tie for the
   runner-up, a new optimum displacing the old one (0 becomes the runner-up), a later value
   between them that is not below the runner-up, and a tie for the optimum. *)
Example C20_scan_example :
  scan_list 0 0 [5; 3; 3; -1; 4; -1] = (13, -1, Some 0, 2%nat) /\
  scan_list 0 7 [7; 7] = (21, 7, None, 3%nat).
Proof. vm_compute. split; reflexivity. Qed.

(* A container: Q = [[1,4,0],[1/8,1,4],[0,3/8,-2]], c = 1/8 (scaled by 16), all three patterns give
   size 3, 5 observables, density 10/12, two distinct diagonal values, sum 288 = 16 * 8 * 2.25,
   optimum -30 = 16 * (-1.875), one optimal assignment, runner-up -14 (gap 16 = 16 * 1.0). *)
Example C20_report_example :
  let M := mat_of [[16; 64; 0]; [2; 16; 64]; [0; 6; -32]] in
  report Upper 3 M 2 true 0 = ((3%nat, 5, (10, 12), 2%nat), Some (288, -30, Some (-14), 1%nat)) /\
  report Symmetric 3 M 2 true 0 = report Upper 3 M 2 true 0 /\
  report General 3 M 2 true 0 = report Upper 3 M 2 true 0 /\
  eval_qubo 3 (container_Q Upper M) 2 (repeat false 3) = 2.
Proof. vm_compute. repeat split; reflexivity. Qed.
