(* C10 (generator half) -- "The test-set generator's file names carry the true variable count, and the
   constraint data it saves reproduce the in-memory violation measures when reloaded."
   Property theorems only; definitions in theories/TestFeas.v, proofs in theories/TestFeas_facts.v and
   theories/TestFeas_compose_facts.v.

   Conventions.  x: list of integers (a 0-1 vector: binl x).  A_eq: list of rows, b_eq: list, Q_eq: the
   stored (row, col, value) entries of the csr container with dense meaning coo_dense Q (sum per position),
   r_eq: integer.  convenience() computes x = 0.5 * (1 - spins); the model carries 2 x, and the quadratic
   measure of convenience's result is in QUARTERS (scale_measures multiplies vio_q by 4).
   np.savez / np.load are an oracle pair (save, load) with load (save d) = d. *)
From Coq Require Import ZArith List Bool Lia String Ascii.
From VQ Require Import Base LinAlg Penalty Penalty_facts Export Export_facts TestFeas TestFeas_facts
                       TestFeas_compose_facts.
From VQ Require Qubo Vrptw Vrptw_facts Path Path_facts Heur Arc Heur_arc Seq Seq_facts.
Import ListNotations.
Local Open Scope string_scope.
Open Scope Z_scope.

(* ============================ the violation measures ============================ *)
(* test_feasibility reports "nothing violated" (all entries of vio_l False, vio_q = 0) exactly when
   A x = b row by row and x'Qx = r.  (Holds for every integer vector, in particular every 0-1 vector.) *)
Theorem C10_testset_measures_zero_iff : forall (x : list Z) (A : list (list Z)) (b : list Z) (Q : list entry) (r : Z),
  let n := List.length x in
  (Forall (fun v => v = false) (vio_l A b x) /\ vio_q Q r x = 0) <->
  ((forall k, (k < List.length b)%nat -> Zmv n (Zmat_of A) (Zvec_of x) k = Zvec_of b k) /\
   Zqf n (coo_dense Q) (Zvec_of x) = r).
Proof. exact measures_zero_iff. Qed.
Print Assumptions C10_testset_measures_zero_iff.

(* vio_l has one entry per row, entry k says (A x)_k <> b_k, and sum(vio_l) -- what print_summary shows as
   "Linear: .. out of len(vio_l)" -- is the number of violated rows (violated_rows lists them once each). *)
Theorem C10_testset_linear_count : forall (A : list (list Z)) (b x : list Z),
  List.length (vio_l A b x) = List.length b /\
  (forall k, (k < List.length b)%nat ->
     (nth k (vio_l A b x) false = true <-> Zmv (List.length x) (Zmat_of A) (Zvec_of x) k <> Zvec_of b k)) /\
  count_true (vio_l A b x) = List.length (violated_rows A b x) /\
  NoDup (violated_rows A b x) /\
  (forall k, In k (violated_rows A b x) <->
             (k < List.length b)%nat /\ Zmv (List.length x) (Zmat_of A) (Zvec_of x) k <> Zvec_of b k) /\
  (count_true (vio_l A b x) <= List.length (vio_l A b x))%nat.
Proof.
  intros A b x. split; [apply vio_l_length|]. split.
  - intros k Hk. rewrite (vio_l_nth A b x k Hk). apply lin_violated_iff.
  - destruct (count_violated_rows A b x) as (H1 & H2 & H3).
    split; [exact H1|]. split; [exact H2|]. split; [exact H3 | apply count_true_le].
Qed.
Print Assumptions C10_testset_linear_count.

(* The quadratic measure of a 0-1 vector.  Each stored entry (i, j, v) stands for v copies of the product
   constraint x_i x_j = 0 and is violated when x_i = x_j = 1:
   (1) vio_q = (sum of the values of the violated stored entries) - r;
   (2) r = 0 and values >= 0 (all three formulations: arc/path store nothing, sequence stores sums of unit
       entries; C03_forms / C07_R_nonneg): vio_q >= 0, and vio_q = 0 iff no stored entry of positive value
       is violated;
   (3) all values 1: vio_q IS the number of violated stored constraints, at most nnz
       ("Quadratic: {vio_q} out of {nnz}"). *)
Theorem C10_testset_quadratic_count : forall (Q : list entry) (x : list Z),
  binl x -> entries_in (List.length x) Q ->
  (forall r, vio_q Q r x = sumZ (map e_val (violated_products Q x)) - r) /\
  (Forall (fun e => 0 <= e_val e) Q ->
     0 <= vio_q Q 0 x /\
     (vio_q Q 0 x = 0 <-> forall e, In e Q -> 0 < e_val e -> prod_violated (Zvec_of x) e = false)) /\
  (Forall (fun e => e_val e = 1) Q ->
     vio_q Q 0 x = Z.of_nat (List.length (violated_products Q x)) /\
     (List.length (violated_products Q x) <= nnz Q)%nat).
Proof.
  intros Q x Hb Hin. split; [intros r; apply vio_q_counts; assumption|]. split.
  - intros Hv. apply vio_q_nonneg_zero_iff; assumption.
  - intros Hv. apply vio_q_unit_entries; assumption.
Qed.
Print Assumptions C10_testset_quadratic_count.

(* Q_eq.nnz is the number of STORED entries.  For a canonical container (one entry per position, no
   explicitly stored zero -- what csr_array(...) of summed unit entries and csr_array((n, n)) are) it is
   the number of non-zero entries of the dense n x n matrix.  (An explicitly stored zero would be counted
   by nnz and not by the dense matrix: see C10_testset_example_explicit_zero.) *)
Theorem C10_testset_nnz_canonical : forall (n : nat) (Q : list entry),
  canonical Q -> entries_in n Q -> Z.of_nat (nnz Q) = dense_nonzeros n (coo_dense Q).
Proof. exact nnz_canonical. Qed.
Print Assumptions C10_testset_nnz_canonical.

(* ============================ the spins file ============================ *)
(* gen writes f"{int(spin)}\n" per spin; load_spins reads int(float(token)) for the blank/line separated
   tokens into a np.short array.
   (1) every vector of int16 values is read back exactly;
   (2) load_spins depends on the token sequence only (several spins per line, blank lines, tabs ...), and
       the tokens of the lines are the tokens of the whole text;
   (3) a token may carry a fractional part ("1.0", "-1.", "1.50"): int(float(.)) drops it;
   (4) for a 0-1 vector x: the spins x_to_s x are +1 / -1, they are read back, and s_to_x of them is x. *)
Theorem C10_testset_spins_roundtrip :
  (forall l, forallb in_short l = true -> load_spins (write_spins l) = Ok l) /\
  (forall b1 b2, split_ws b1 = split_ws b2 -> load_spins b1 = load_spins b2) /\
  (forall bytes, spin_tokens bytes = split_ws bytes) /\
  (forall z f, frac_ok f = true ->
     parse_int_float (print_int z) = Some z /\ parse_int_float (print_int z ++ String "." f) = Some z) /\
  (forall x, binl x ->
     Forall (fun s => s = 1 \/ s = -1) (x_to_s x) /\
     load_spins (sol_bytes x) = Ok (x_to_s x) /\
     s_to_x (x_to_s x) = x /\ s_to_x2 (x_to_s x) = map (Z.mul 2) x).
Proof.
  split; [exact load_write_spins|]. split; [exact load_spins_tokens|]. split; [exact spin_tokens_split|]. split.
  - intros z f Hf. split; [apply parse_print_int | apply parse_print_int_frac; exact Hf].
  - intros x Hb. split; [apply x_to_s_spin; exact Hb|]. split.
    + apply load_write_spins, x_to_s_short, binl_small, Hb.
    + split; [apply s_to_x_x_to_s | apply s_to_x2_x_to_s, binl_small, Hb].
Qed.
Print Assumptions C10_testset_spins_roundtrip.

(* the integer maps of this model are C01's: x_to_s is Qubo.x2s at Z; s_to_x on a spin is Qubo.s2x at Qc
   (where 1/2 exists) *)
Theorem C10_testset_maps_are_C01 :
  (forall x i, Zvec_of (x_to_s x) i =
               if (i <? List.length x)%nat then Qubo.x2s Z 1 Z.add Z.mul Z.sub (Zvec_of x) i else 0) /\
  (forall s, s = 1 \/ s = -1 -> Qubo.s2x_Qc (fun _ => qcZ s) O = qcZ ((1 - s) / 2)).
Proof. split; [exact x_to_s_is_x2s | exact s_to_x_is_s2x_Qc]. Qed.
Print Assumptions C10_testset_maps_are_C01.

(* ============================ convenience() ============================ *)
(* For every save/load pair with load (save d) = d, every integer vector x with entries in
   [-16383, 16383] (every 0-1 vector) and all saved constraint data d that convenience can unwrap
   (loadable: A_eq dense, or at least one row, or at most one variable):
   convenience(saved d, spins file written from x) = the in-memory test_feasibility(x, d), the same
   boolean vector, the same nnz, the same vio_q (here in quarters). *)
Theorem C10_testset_convenience_roundtrip :
  forall (npz : Type) (save : cdata -> npz) (load : npz -> cdata),
    (forall d, load (save d) = d) ->
    forall (x : list Z) (d : cdata),
      Forall (fun v => -16383 <= v <= 16383) x -> loadable (List.length x) d ->
      convenience load (save d) (sol_bytes x) =
      Ok (scale_measures (test_feasibility x (cA d) (cb d) (cQ d) (cr d))).
Proof. intros npz save load H x d Hx Hl. exact (convenience_roundtrip save load H x d Hx Hl). Qed.
Print Assumptions C10_testset_convenience_roundtrip.

Theorem C10_testset_binary_is_small : forall x, binl x -> Forall (fun v => -16383 <= v <= 16383) x.
Proof. exact binl_small. Qed.
Print Assumptions C10_testset_binary_is_small.

(* the corner convenience() cannot read (hand-made data only; the arc and sequence classes densify an
   A_eq without rows, a path model without customers has at most one route): a sparse A_eq without rows
   stays wrapped in its 0-d object array and the comparison with the empty b_eq raises ValueError as soon
   as there are two spins *)
Theorem C10_testset_convenience_sparse_empty :
  forall (npz : Type) (load : npz -> cdata) (f : npz) (sol : string) (spins : list Z),
    load_spins sol = Ok spins ->
    cA_sparse (load f) = true -> cb (load f) = [] -> (2 <= List.length spins)%nat ->
    convenience load f sol = Err ValueError.
Proof. intros npz load f sol spins. exact (convenience_sparse_empty load f sol spins). Qed.
Print Assumptions C10_testset_convenience_sparse_empty.

(* ============================ file names ============================ *)
(* bname = f"test_{name}_{n_vars}_"; the files are bname + "o.rudy" / "f.rudy" / ".npz" / ".sol".
   For a name without "_" (ab, pb, sb):
   (1) the "_"-separated fields of every such file name are test, name, the decimal n_vars, suffix fields;
   (2) the variable count and the formulation are read back from the name;
   (3) different (name, n_vars) give different file names;
   (4) the names gen derives from its three formulation strings are ab, pb, sb;
   (5) do_all pairs "<bname>.npz" with "<bname>.sol" (names without '.'). *)
Theorem C10_testset_names :
  (forall name n sfx, sall (not_char "_") name = true ->
     split_on "_" (bname name n ++ sfx) = ("test" :: name :: print_N n :: split_on "_" sfx)%list /\
     name_nvars (bname name n ++ sfx) = Some n /\ name_form (bname name n ++ sfx) = Some name) /\
  (forall name name' n n' sfx sfx',
     sall (not_char "_") name = true -> sall (not_char "_") name' = true ->
     bname name n ++ sfx = bname name' n' ++ sfx' -> name = name' /\ n = n') /\
  (initials "arc_based" = Ok "ab" /\ initials "path_based" = Ok "pb" /\ initials "sequence_based" = Ok "sb") /\
  (forall name n, sall (not_char ".") name = true ->
     do_all_sol (npz_name (bname name n)) = Some (sol_name (bname name n))).
Proof.
  split.
  - intros name n sfx H. split; [apply bname_fields; exact H | apply name_carries_nvars; exact H].
  - split; [exact bname_injective|]. split; [exact initials_of_formulations|].
    intros name n H. apply do_all_pairs_files, bname_no_dot, H.
Qed.
Print Assumptions C10_testset_names.

(* "carry the true variable count": for data d reported by an object with n = get_num_variables()
   variables (shapes_consistent n d and r_eq = 0 -- proved per formulation in C02_forms), get_qubo returns
   an n x n matrix in both modes, and n is the number every file name of that instance parses to. *)
Theorem C10_testset_name_is_dimension :
  forall (n : nat) (feas : bool) (rho : Z) (d : qdata Z) (name sfx : string),
    dr d = 0 -> shapes_consistent Z n d -> sall (not_char "_") name = true ->
    (exists Q k, Zget_qubo_checked feas rho d = Ok (n, Q, k) /\
                 List.length Q = n /\ (forall row, In row Q -> List.length row = n)) /\
    name_nvars (bname name (N.of_nat n) ++ sfx) = Some (N.of_nat n).
Proof. exact name_is_dimension. Qed.
Print Assumptions C10_testset_name_is_dimension.

(* ============================ composition: the stored feasible solution ============================ *)
(* x a 0-1 vector at which the feasibility-mode QUBO (default penalty) built from (Af, bf, R) has value 0
   (C09's postcondition for the solution make_feasible stores), R >= 0 entrywise (C03), and (A, b, Q) saved
   lists whose dense meanings are Af, bf, R on their blocks: convenience() on the written files reports no
   violated linear constraint and vio_q = 0. *)
Theorem C10_testset_stored_solution :
  forall (npz : Type) (save : cdata -> npz) (load : npz -> cdata),
    (forall d, load (save d) = d) ->
    forall x A sp b Q (Af : mat Z) (bf : vec Z) (R : mat Z) (c : vec Z) (Qo : mat Z) S,
      let n := List.length x in
      let m := List.length b in
      let d := mkCdata A sp b Q 0 in
      binl x -> loadable n d ->
      (forall k j, (k < m)%nat -> (j < n)%nat -> Af k j = Zmat_of A k j) ->
      (forall k, (k < m)%nat -> bf k = Zvec_of b k) ->
      (forall i j, (i < n)%nat -> (j < n)%nat -> R i j = coo_dense Q i j) ->
      (forall i j, (i < n)%nat -> (j < n)%nat -> 0 <= R i j) ->
      Zqubo_value n (Zget_qubo m true (Zchoose_rho true S None) (Af, bf, R) (c, Qo)) (Zvec_of x) = 0 ->
      convenience load (save d) (sol_bytes x) = Ok (repeat false m, 0, nnz Q).
Proof. intros npz save load H. exact (convenience_of_zero_energy save load H). Qed.
Print Assumptions C10_testset_stored_solution.

(* ... instantiated with the three heuristics' postconditions (C09_post_path, C09_post_arc_qubo,
   C09_post_seq_qubo): whenever make_feasible returns normally with (state', x), the data state' reports,
   saved and reloaded, together with the spins file written from x, give "0 violated, vio_q = 0". *)
Theorem C10_testset_stored_solution_path :
  forall (npz : Type) (save : cdata -> npz) (load : npz -> cdata),
    (forall d, load (save d) = d) ->
    forall (choose : Heur.kvdict -> nat) (dum_name : nat -> nat -> nat) st high st' x,
      Path_facts.PInv st -> Heur.mf_path choose dum_name st high = Ok (st', x) ->
      let n := List.length (Vrptw.nodes (Path.pg st')) in
      let m := List.length (Path.proutes st') in
      exists A,
        Path.constraint_data st' = Ok ((n - 1, m)%nat, A, repeat 1 (n - 1)%nat, Path.zero_matrix m, 0) /\
        List.length x = m /\
        forall sp, loadable m (mkCdata A sp (repeat 1 (n - 1)%nat) [] 0) ->
          convenience load (save (mkCdata A sp (repeat 1 (n - 1)%nat) [] 0)) (sol_bytes x)
          = Ok (repeat false (n - 1)%nat, 0, O).
Proof. intros npz save load H. exact (path_stored_solution save load H). Qed.
Print Assumptions C10_testset_stored_solution_path.

Theorem C10_testset_stored_solution_arc :
  forall (npz : Type) (save : cdata -> npz) (load : npz -> cdata),
    (forall d, load (save d) = d) ->
    forall I high I' x,
      Vrptw_facts.Inv (Arc.ig I) -> NoDup (Arc.igrid I) -> Heur_arc.mf_arc I high = Ok (I', x) ->
      let d := mkCdata (Arc.A_dense I') true (Arc.rhs I') [] 0 in
      List.length x = Arc.num_variables I' /\
      (loadable (Arc.num_variables I') d ->
       convenience load (save d) (sol_bytes x) = Ok (repeat false (List.length (Arc.rhs I')), 0, O)).
Proof. intros npz save load H. exact (arc_stored_solution save load H). Qed.
Print Assumptions C10_testset_stored_solution_arc.

(* sequence-based: A, b are the lists Seq.constraint_data reports; Q is ANY stored-entry list whose dense
   meaning is the model's R (the csr container holds the unit entries E summed per position) *)
Theorem C10_testset_stored_solution_seq :
  forall (npz : Type) (save : cdata -> npz) (load : npz -> cdata),
    (forall d, load (save d) = d) ->
    forall (strict : bool) I high I' x,
      Vrptw_facts.Inv (Seq.ig I) -> Seq_facts.seq_ok I -> (3 <= Seq.iL I)%nat ->
      Heur.mf_seq strict I high = Ok (I', x) ->
      let n := Seq.num_variables I' in
      let m := Seq.num_rows I' in
      let A := Seq.dense_rows m n (Seq.Amat I') in
      let b := map (Seq.bvec I') (seq 0 m) in
      exists E, Seq.R_entries I' = Ok E /\ List.length x = n /\
        forall Q sp,
          (forall i j, (i < n)%nat -> (j < n)%nat -> Seq.Rmat E i j = coo_dense Q i j) ->
          loadable n (mkCdata A sp b Q 0) ->
          convenience load (save (mkCdata A sp b Q 0)) (sol_bytes x) = Ok (repeat false m, 0, nnz Q).
Proof. intros npz save load H. exact (seq_stored_solution save load H). Qed.
Print Assumptions C10_testset_stored_solution_seq.

(* ============================ examples (non-vacuity) ============================ *)
(* x0 + x1 = 1, x1 + x2 = 1 and the product constraint x0 x1 = 0 stored with value 1 (r = 0).
   [1;0;1] is feasible; [1;1;0] violates row 1 and the product; [0;1;0] satisfies both rows ... no:
   [1;1;1] violates both rows and the product; [1;0;0] violates row 1 only. *)
Definition ex_A : list (list Z) := [[1; 1; 0]; [0; 1; 1]].
Definition ex_b : list Z := [1; 1].
Definition ex_Q : list entry := [(0%nat, 1%nat, 1)].
Definition ex_d : cdata := mkCdata ex_A true ex_b ex_Q 0.

Example C10_testset_example_measures :
  test_feasibility [1; 0; 1] ex_A ex_b ex_Q 0 = ([false; false], 0, 1%nat) /\
  test_feasibility [1; 1; 0] ex_A ex_b ex_Q 0 = ([true; false], 1, 1%nat) /\
  test_feasibility [1; 1; 1] ex_A ex_b ex_Q 0 = ([true; true], 1, 1%nat) /\
  test_feasibility [1; 0; 0] ex_A ex_b ex_Q 0 = ([false; true], 0, 1%nat) /\
  test_feasibility [1; 1; 0] ex_A ex_b ex_Q 2 = ([true; false], -1, 1%nat) /\
  binl [1; 1; 0] /\ entries_in 3 ex_Q /\ canonical ex_Q /\ violated_products ex_Q [1; 1; 0] = ex_Q /\
  dense_nonzeros 3 (coo_dense ex_Q) = 1.
Proof.
  repeat split; try reflexivity.
  - apply binlb_sound. reflexivity.
  - repeat constructor.
  - repeat constructor. intros [].
  - repeat constructor. discriminate.
Qed.

(* an explicitly stored zero is counted by nnz (2) but is no non-zero entry of the dense matrix (1) and
   contributes nothing to vio_q *)
Example C10_testset_example_explicit_zero :
  let Q := [(0%nat, 1%nat, 1); (1%nat, 2%nat, 0)] in
  nnz Q = 2%nat /\ dense_nonzeros 3 (coo_dense Q) = 1 /\ ~ canonical Q /\
  test_feasibility [1; 1; 1] ex_A ex_b Q 0 = ([true; true], 1, 2%nat).
Proof.
  cbv zeta. repeat split; try reflexivity.
  intros [_ H]. inversion H as [|? ? _ H2]; subst. inversion H2 as [|? ? H3 _]; subst. apply H3. reflexivity.
Qed.

(* the bytes of the spins file, their tokens, a file with the same tokens in another layout and with
   fractional parts, and what convenience returns (identity as save/load pair; vio_q in quarters) *)
Example C10_testset_example_files :
  sol_bytes [1; 1; 0] = String "-" (String "1" (String nl (String "-" (String "1" (String nl (String "1" (String nl "")))))))
  /\ load_spins (sol_bytes [1; 1; 0]) = Ok [-1; -1; 1]
  /\ load_spins (String "-" (String "1" (String "." (String "0" (String " " (String "9" (String "-" (String "1" (String "." (String nl (String nl " +1.50  "))))))))))) = Err ValueError
  /\ load_spins ("-1.0 	-1." ++ String nl (String nl " +1.50  ")) = Ok [-1; -1; 1]
  /\ load_spins "1 40000" = Err OtherError
  /\ load_spins "1 x 40000" = Err ValueError
  /\ convenience (fun d : cdata => d) ex_d (sol_bytes [1; 1; 0]) = Ok ([true; false], 4, 1%nat)
  /\ convenience (fun d : cdata => d) ex_d (sol_bytes [1; 0; 1]) = Ok ([false; false], 0, 1%nat)
  /\ loadable 3 ex_d
  /\ convenience (fun d : cdata => d) (mkCdata [] true [] [] 0) (sol_bytes [1; 0]) = Err ValueError
  /\ convenience (fun d : cdata => d) (mkCdata [] false [] [] 0) (sol_bytes [1; 0]) = Ok ([], 0, 0%nat)
  /\ summary_lines 4 ([true; false], 4, 1%nat) =
     ["Number of UNsatisfied constraints:"; "Linear:    1 out of 2"; "Quadratic: 1 out of 1"].
Proof.
  repeat split; try reflexivity. right. left. discriminate.
Qed.

(* the names of the arc-based instance with 496 variables (horizon 16 of the real generator) *)
Example C10_testset_example_names :
  bname "ab" 496 = "test_ab_496_" /\
  rudy_o (bname "ab" 496) = "test_ab_496_o.rudy" /\ npz_name (bname "ab" 496) = "test_ab_496_.npz" /\
  name_nvars "test_ab_496_f.rudy" = Some 496%N /\ name_form "test_sb_119_.npz" = Some "sb" /\
  do_all_sol "test_pb_10_.npz" = Some "test_pb_10_.sol" /\ do_all_sol "test_pb_10_o.rudy" = None /\
  initials "arc__based" = Err IndexError /\
  sall (not_char "_") "ab" = true /\ sall (not_char ".") "ab" = true.
Proof. repeat split; reflexivity. Qed.

(* the hypotheses of C10_testset_stored_solution are met: feasibility QUBO of (ex_A, ex_b, R = e0 e1')
   has value 0 at [1;0;1], R >= 0, and the conclusion computes *)
Example C10_testset_example_stored_solution :
  let R := coo_dense ex_Q in
  Zqubo_value 3 (Zget_qubo 2 true (Zchoose_rho true 99 None) (Zmat_of ex_A, Zvec_of ex_b, R)
                           (Zvec_of [3; -2; 0], Zmat_of [])) (Zvec_of [1; 0; 1]) = 0 /\
  Zqubo_value 3 (Zget_qubo 2 true (Zchoose_rho true 99 None) (Zmat_of ex_A, Zvec_of ex_b, R)
                           (Zvec_of [3; -2; 0], Zmat_of [])) (Zvec_of [1; 1; 0]) = 2 /\
  (forall i j, 0 <= R i j) /\ binl [1; 0; 1] /\
  convenience (fun d : cdata => d) ex_d (sol_bytes [1; 0; 1]) = Ok (repeat false 2, 0, nnz ex_Q).
Proof.
  cbv zeta. split; [vm_compute; reflexivity|]. split; [vm_compute; reflexivity|]. split.
  - apply coo_dense_nonneg. repeat constructor. cbn. lia.
  - split; [apply binlb_sound; reflexivity | reflexivity].
Qed.
