(* C14 -- Queries are pure and never change what later calls return.
   Property theorems only; model in theories/Cache.v, proofs in theories/Cache_facts.v.

   The model abstracts cache CONTENTS by the data version they were computed from (a build recomputes
   from scratch by definition -- that the real builders do so is checked on the real objects after
   every build, see notes/C14.md).  "fresh" = computed from the current data and from a variable
   enumeration of the current data = what a cache-free object computes (C14_refines_cache_free). *)
From VQ Require Import Base Cache Cache_facts.
Local Open Scope nat_scope.

(* 1. The invariant "a set flag means the cache is fresh" is preserved by every build, aborted build,
      read and flag reset ... *)
Theorem C14_inv_preserved : forall st a,
  Inv st ->
  match a with
  | Build _ | Read _ | SetFlag _ false => True
  | BuildAbort i => i <> Vars
  | Mutate | SetFlag _ true => False
  end ->
  Inv (step st a).
Proof. exact inv_step_query. Qed.
Print Assumptions C14_inv_preserved.

(*    ... by any interleaving of data changes and flag resets (no build, no read in between) that ends
      with a reset of every flag that was set ... *)
Theorem C14_inv_mutate_then_reset : forall st tr1 tr2,
  forallb is_mut_or_reset tr1 = true -> forallb is_reset tr2 = true ->
  (forall i, flag st i = true -> In (SetFlag i false) tr2) ->
  Inv (run st (tr1 ++ tr2)).
Proof. exact inv_mutate_resets. Qed.
Print Assumptions C14_inv_mutate_then_reset.

(*    ... and by a data change made while no flag is set (the heuristics reset first, then change) *)
Theorem C14_inv_reset_then_mutate : forall st,
  (forall i, flag st i = false) -> Inv (step st Mutate).
Proof. exact inv_mutate_unflagged. Qed.
Print Assumptions C14_inv_reset_then_mutate.

(*    The reset is necessary: a data change under a set flag always breaks the invariant. *)
Theorem C14_reset_needed : forall st i,
  Inv st -> flag st i = true -> ~ Inv (step st Mutate).
Proof. exact mutate_breaks_inv. Qed.
Print Assumptions C14_reset_needed.

(* 2. Refinement: from a state satisfying the invariant, every trace accepted by the flag-level
      discipline wf_run (no versions involved) has all its reads fresh, keeps the generalised invariant,
      and ends in a state satisfying Inv when nothing is left dirty. *)
Theorem C14_reads_fresh : forall st tr ws',
  Inv st -> wf_run (ws_of st) tr = Some ws' ->
  disciplined tr st = true /\ GInv ws' (run st tr) /\ (cleanb ws' = true -> Inv (run st tr)).
Proof. exact reads_fresh. Qed.
Print Assumptions C14_reads_fresh.

(*    In terms of contents: whatever the data `dat` at each version and the functions `F` computing the
      caches are, every read of a disciplined trace hands out exactly the cache-free answer. *)
Theorem C14_refines_cache_free : forall (D C : Type) (dat : nat -> D) (F : cid -> D -> D -> C) st tr ws',
  Inv st -> wf_run (ws_of st) tr = Some ws' ->
  Forall (fun p => fst p = Some (snd p)) (read_contents D C dat F tr st).
Proof.
  intros D C dat F st tr ws' I H. apply read_contents_fresh.
  exact (proj1 (reads_fresh st tr ws' I H)).
Qed.
Print Assumptions C14_refines_cache_free.

(* 3. Queries are pure: any list of queries, in any order, any number of times, issued in any state
      satisfying the invariant (whatever is built or not built yet): every read returns content
      computed from the current version, the data version does not change, the invariant is kept. *)
Theorem C14_queries_pure : forall k st qs,
  Inv st ->
  let tr := concat (map (qtrace k) qs) in
  disciplined tr st = true /\
  reads tr st = map (fun i => (i, (Some (version st), Some (version st)))) (read_ids tr) /\
  version (run st tr) = version st /\
  Inv (run st tr).
Proof.
  intros k st qs I tr.
  destruct (queries_ok k st qs) as (w & E & C).
  destruct (history_fresh st _ w I E) as (D & _ & I').
  pose proof (count_mut_queries k qs) as M.
  split; [exact D|]. split; [apply reads_disciplined; auto|]. split; [|exact I'].
  unfold tr. rewrite version_run, M. lia.
Qed.
Print Assumptions C14_queries_pure.

(* 4. Histories: user-level calls, each with its primitive trace, threaded through the discipline with
      nothing dirty at the call boundaries: every read anywhere in the history is fresh and the
      invariant holds after every call. *)
Theorem C14_history : forall st h ws',
  Inv st -> hist_ok (ws_of st) h = Some ws' ->
  disciplined (concat h) st = true /\ Forall Inv (hist_states st h) /\ Inv (run st (concat h)).
Proof. exact history_fresh. Qed.
Print Assumptions C14_history.

(*    Queries and heuristic runs in any interleaving: if every heuristic run keeps the discipline on
      its own (heur_ok: from whatever is built, its trace passes wf_run and leaves nothing dirty --
      this is what is validated on every recorded run of the real heuristics), then all reads are fresh.
      kind_okb: the arc-based class has three caches, its fourth flag is never set. *)
Theorem C14_history_calls : forall k st cs,
  Inv st -> kind_okb k (flag st) = true -> (forall tr, In (CHeur tr) cs -> heur_ok k tr) ->
  let h := map (ctrace k) cs in
  disciplined (concat h) st = true /\ Forall Inv (hist_states st h) /\ Inv (run st (concat h)).
Proof. exact calls_fresh. Qed.
Print Assumptions C14_history_calls.

(*    The boolean test evaluated on the recorded heuristic traces implies the hypothesis above. *)
Theorem C14_heur_okb_sound : forall k tr, heur_okb k tr = true -> heur_ok k tr.
Proof. exact heur_okb_ok. Qed.
Print Assumptions C14_heur_okb_sound.

(*    Earlier calls are irrelevant: what a query `post` returns after two disciplined histories from
      the same state depends only on how often the data was changed, not on which queries were made
      before (h1 = queries ++ heuristic run, h2 = the heuristic run alone). *)
Theorem C14_earlier_calls_irrelevant : forall st h1 h2 post w1 w2,
  Inv st ->
  hist_ok (ws_of st) (h1 ++ [post]) = Some w1 -> hist_ok (ws_of st) (h2 ++ [post]) = Some w2 ->
  count_mut (concat h1) = count_mut (concat h2) -> count_mut post = 0 ->
  reads post (run st (concat h1)) = reads post (run st (concat h2)).
Proof. exact later_reads_independent. Qed.
Print Assumptions C14_earlier_calls_irrelevant.

(* 5. Path-based formulation: no cache, queries do nothing to the object. *)
Theorem C14_path : forall st qs,
  run st (concat (map (qtrace KPath) qs)) = st /\ reads (concat (map (qtrace KPath) qs)) st = [].
Proof. intros st qs. rewrite path_queries. split; reflexivity. Qed.
Print Assumptions C14_path.

(* ---------- witnesses ---------- *)
(* Before /repo 4965782 the index lookups were the bare trace [Read Vars]; on a fresh object that read
   is not fresh (the statement "queries are pure" was refuted by the faithful model of that code; the
   harness reports the history again if the behaviour returns).  With the enumeration in front the
   same query is disciplined. *)
Example C14_lookup_without_enumeration_refuted :
  Inv init /\ disciplined lookup_old init = false /\ wf_trace (ws_of init) lookup_old = false /\
  disciplined (qtrace KArc QIndex) init = true.
Proof. split; [exact Inv_init | vm_compute; auto]. Qed.

(* A data change that is not followed by a reset: the conclusion of C14_reads_fresh fails (the second
   size query reads a stale enumeration), and the discipline rejects the trace at the second Build. *)
Example C14_mutate_without_reset_refuted :
  let tr := [Build Vars; Read Vars; Mutate; Build Vars; Read Vars] in
  disciplined tr init = false /\ first_fail (ws_of init) tr 0 = Some 3 /\
  reads tr init = [(Vars, (Some 0, Some 0)); (Vars, (Some 0, Some 0))] /\ version (run init tr) = 1.
Proof. vm_compute. auto. Qed.

(* objective_built never reset (seeded change C02_b): objective queried, data changed with the other
   two flags reset, objective queried again -> stale objective. *)
Example C14_partial_reset_refuted :
  let tr := qtrace KArc QObjective ++ [SetFlag Vars false; SetFlag Con false; Mutate] ++ qtrace KArc QObjective in
  disciplined tr init = false /\ wf_trace (ws_of init) tr = false.
Proof. vm_compute. auto. Qed.

(* a dependent cache rebuilt on a stale enumeration is not fresh although it was just recomputed *)
Example C14_stale_dependency_refuted :
  let tr := [Build Vars; Mutate; SetFlag Obj false; Build Obj; Read Obj] in
  disciplined tr init = false /\ dver (run init tr) Obj = Some 1 /\ vver (run init tr) Obj = Some 0.
Proof. vm_compute. auto. Qed.

(* "Re-enumeration appends instead of rebuilding" (the defect repaired by /repo 2f9adad) is NOT
   expressible in this model: Build recomputes from the current data by definition.  It is covered by
   the from-scratch check of the harness and by the history oracle. *)

(* A disciplined history recorded from a real run (arc instance D, c1, c2 with arcs D->c1, c1->D,
   c2->D, grid 0..3; calls: get_num_variables, get_constraint_data, make_feasible(50) which adds the
   dummy arc D->c2 and then reads num_variables and looks up its four used tuples, get_var_index,
   get_objective_data): hypotheses of C14_history and
   C14_history_calls are met, the data changed once. *)
Example C14_real_run :
  let heur := [SetFlag Vars false; SetFlag Con false; SetFlag Obj false; Mutate]
              ++ concat (repeat lookup 5) in
  let h := [qtrace KArc QNum; qtrace KArc QConstraints; heur; qtrace KArc QIndex; qtrace KArc QObjective] in
  (exists w, hist_ok (ws_of init) h = Some w) /\ heur_okb KArc heur = true /\
  disciplined (concat h) init = true /\ version (run init (concat h)) = 1 /\
  flags_of (run init (concat h)) = [true; false; true; false].
Proof.
  cbv zeta. split; [|vm_compute; auto].
  match goal with |- exists w, ?x = _ => destruct x as [w|] eqn:E end; [eauto|].
  vm_compute in E. discriminate.
Qed.
