(* C17 -- model construction is reproducible.
   The generator state is explicit; numpy's operations are Section oracles whose only assumed
   law is that seeding with an explicit value forgets the previous state. *)
From VQ Require Import Base Rng Rng_facts.
From Coq Require Import Permutation.

(* The path-based route pool (and the generator state it leaves behind) is the same whatever
   the state of the global generator was beforehand: the builder re-seeds before its first draw. *)
Theorem C17_prior_state :
  forall (rng : Type) (seed : option Z -> rng -> rng),
  (forall z g g', seed (Some z) g = seed (Some z) g') ->
  forall (Data Pool : Type) (explore : rng -> Data -> Pool * rng) (g g' : rng) (d : Data),
  get_path_based rng seed Data Pool explore g d = get_path_based rng seed Data Pool explore g' d.
Proof. intros rng seed H Data Pool explore g g' d. exact (path_pool_independent_of_prior_state rng seed H Data Pool explore g g' d). Qed.
Print Assumptions C17_prior_state.

(* The arc- and sequence-based builders neither read nor advance the generator. *)
Theorem C17_no_rng :
  forall (rng Data ArcM SeqM : Type) (ba : Data -> ArcM) (bs : Data -> bool -> SeqM) (g g' : rng) d st,
  fst (get_arc_based rng Data ArcM ba g d) = fst (get_arc_based rng Data ArcM ba g' d) /\
  snd (get_arc_based rng Data ArcM ba g d) = g /\
  fst (get_sequence_based rng Data SeqM bs g d st) = fst (get_sequence_based rng Data SeqM bs g' d st) /\
  snd (get_sequence_based rng Data SeqM bs g d st) = g.
Proof. intros. apply arc_seq_do_not_use_rng. Qed.
Print Assumptions C17_no_rng.

(* The time grid does not depend on the order in which the hash set yields its elements: it is
   sorted, duplicate free, and consists of 0 and the given points. *)
Theorem C17_grid_order_irrelevant : forall points (o1 o2 : list Z -> list Z),
  (forall l, Permutation l (o1 l)) -> (forall l, Permutation l (o2 l)) ->
  grid_of points o1 = grid_of points o2.
Proof. exact grid_independent_of_set_order. Qed.
Print Assumptions C17_grid_order_irrelevant.

Theorem C17_grid_spec : forall points o,
  (forall l, Permutation l (o l)) ->
  let g := grid_of points o in
  sorted g /\ NoDup g /\ (forall x, In x g <-> x = 0 \/ In x points).
Proof. exact grid_spec. Qed.
Print Assumptions C17_grid_spec.

Theorem C17_sort_perm : forall l l', Permutation l l' -> isort l = isort l'.
Proof. exact isort_perm. Qed.
Print Assumptions C17_sort_perm.

(* Random instance generator with an explicit seed. *)
Theorem C17_seeded :
  forall (rng : Type) (seed : option Z -> rng -> rng),
  (forall z g g', seed (Some z) g = seed (Some z) g') ->
  forall (Inst : Type) (draw : rng -> Inst * rng) z g g',
  fst (draw (random_mirp_init rng seed (Some z) g)) = fst (draw (random_mirp_init rng seed (Some z) g')) /\
  get_random_mirp rng seed Inst draw (Some z) true g = get_random_mirp rng seed Inst draw (Some z) true g'.
Proof. intros rng seed H Inst draw z g g'. exact (seeded_instance_reproducible rng seed H Inst draw z g g'). Qed.
Print Assumptions C17_seeded.

(* Non-vacuity: a concrete generator (state = a number, seed overwrites it) satisfies the law;
   and a grid given in two different orders with duplicates. *)
Example C17_seed_law_satisfiable :
  let seed := fun (s : option Z) (g : Z) => match s with Some z => z | None => g + 1 end in
  forall z g g', seed (Some z) g = seed (Some z) g'.
Proof. intros seed z g g'. reflexivity. Qed.

Example C17_grid_example :
  grid_of [5; 3; 3; 9] (fun l => l) = [0; 3; 5; 9] /\ grid_of [5; 3; 3; 9] (@rev Z) = [0; 3; 5; 9].
Proof. vm_compute. split; reflexivity. Qed.
