(* C06 -- Path-based route admission matches the VRPTW route definition.
   Property theorems only; proofs live in theories/Path_facts.v. *)
From Coq Require Import ZArith List Bool Lia.
From VQ Require Import Base Vrptw Vrptw_facts Path Path_facts.

(* (1) For a candidate whose names resolve to the index sequence idxs, all inside the node range,
   in a well-formed graph (C15_inv: every graph reachable by add_node/add_arc/set_depot is):
   check_route raises nothing, and it answers feasible = true exactly when idxs is a route of the
   paper's definition: at least two stops, first = last = depot (index 0), interior stops pairwise
   distinct customers, every segment an arc, T_0 = 0 and T_{k+1} = max (T_k + t) a <= b at every
   stop including the final depot, load_0 = initial loading and 0 <= load_{k+1} = load_k - demand
   <= capacity after every stop.  Then the returned cost is the sum of the arc costs, visits_node is
   the indicator vector of the nodes on the route, and the caller's list has become the index list. *)
Theorem C06_check_iff : forall st r idxs,
  Inv (pg st) -> resolve (pg st) r = Some idxs ->
  Forall (fun i => (i < length (nodes (pg st)))%nat) idxs ->
  exists feas c v,
    snd (check_route st r) = Ok (feas, c, v) /\
    (feas = true <-> valid_route st idxs) /\
    (feas = true -> c = route_cost (pg st) idxs /\
                    v = indicator (length (nodes (pg st))) idxs /\
                    fst (check_route st r) = map ix idxs).
Proof. exact check_route_spec. Qed.
Print Assumptions C06_check_iff.

(* (1') Without any assumption on the candidate (unknown names, negative or too large ints,
   any length): check_route returns (True, c, v) iff the candidate resolves to an index sequence
   that is a route of the definition, c is its arc-cost sum and v its indicator vector. *)
Theorem C06_check_iff_any_candidate : forall st r c v,
  Inv (pg st) ->
  (snd (check_route st r) = Ok (true, c, v) <->
   exists idxs, resolve (pg st) r = Some idxs /\ valid_route st idxs /\
                c = route_cost (pg st) idxs /\ v = indicator (length (nodes (pg st))) idxs).
Proof. exact check_route_iff. Qed.
Print Assumptions C06_check_iff_any_candidate.

(* (1'') The only exception check_route raises on a graph with at least one node is list.index's
   ValueError, and then some name in the candidate is not a node name. *)
Theorem C06_check_exceptions : forall st r x,
  Inv (pg st) -> nodes (pg st) <> [] -> snd (check_route st r) = Err x ->
  x = ValueError /\ exists nm, In (inl nm) r /\ ~ In nm (names (pg st)).
Proof. exact check_route_err. Qed.
Print Assumptions C06_check_exceptions.

(* (2a) One add_route call: feas says whether the candidate denotes a route of the definition;
   added <-> feas and the index sequence is not stored yet; when added, exactly one entry
   (indices, arc-cost sum, ascending node list) is appended; otherwise nothing changes. *)
Theorem C06_add_route_result : forall st r st' r' feas added,
  Inv (pg st) -> add_route st r = (st', r', Ok (feas, added)) ->
  (feas = true <-> exists idxs, resolve (pg st) r = Some idxs /\ valid_route st idxs) /\
  (added = true <->
     feas = true /\ forall idxs, resolve (pg st) r = Some idxs -> ~ In idxs (proutes st)) /\
  (added = true ->
     exists idxs, resolve (pg st) r = Some idxs /\
                  Forall (fun i => (i < length (nodes (pg st)))%nat) idxs /\
                  valid_route st idxs /\ ~ In idxs (proutes st) /\
                  st' = mkP (pg st) (pcap st) (pinit st) (proutes st ++ [idxs])
                            (pcosts st ++ [route_cost (pg st) idxs])
                            (pvisited st ++ [nodes_on (length (nodes (pg st))) idxs]) /\
                  r' = map ix idxs) /\
  (added = false -> st' = st).
Proof. exact add_route_spec. Qed.
Print Assumptions C06_add_route_result.

(* (2b) Every history of add_node / add_arc / add_route / check_route / queries from the empty
   problem: no route is stored twice, the three lists are aligned, and every stored route was a
   route of the definition in the state stk of the history in which it was added, was not stored
   before, carries the arc-cost sum of that state, and its visited list is the ascending list of
   its nodes. *)
Theorem C06_store_once : forall cap init ops,
  let st := prun ops (pempty cap init) in
  NoDup (proutes st) /\
  length (pcosts st) = length (proutes st) /\
  length (pvisited st) = length (proutes st) /\
  Inv (pg st) /\
  forall j r, nth_error (proutes st) j = Some r ->
    Forall (fun i => (i < length (nodes (pg st)))%nat) r /\
    nth_error (pvisited st) j = Some (nodes_on (length (nodes (pg st))) r) /\
    exists stk, In stk (pstates ops (pempty cap init)) /\ valid_route stk r /\
                ~ In r (proutes stk) /\
                nth_error (pcosts st) j = Some (route_cost (pg stk) r).
Proof.
  intros cap init ops st.
  destruct (prun_stored ops (pempty cap init) (PInv_empty cap init)) as [HP Hall]. fold st in HP, Hall.
  split; [apply (pi_nodup _ HP)|]. split; [apply (pi_costs _ HP)|]. split; [apply (pi_vis _ HP)|].
  split; [apply (pi_graph _ HP)|].
  intros j r Hj. destruct (pi_routes _ HP _ _ Hj) as [Hin Hv]. split; [exact Hin|]. split; [exact Hv|].
  destruct (Hall j r Hj) as [[H0 _]|H]; [destruct j; discriminate|exact H].
Qed.
Print Assumptions C06_store_once.

(* (3) After every history that created at least one node, the constraint data are the exact-cover
   system: A has (#nodes - 1) rows and #routes columns, entry (k, j) is 1 iff stored route j
   visits customer k+1 (the depot row is removed) and 0 otherwise, every right-hand side is 1,
   the quadratic constraint matrix is the #routes x #routes zero matrix with right-hand side 0.
   On the empty problem get_math_program_data raises ValueError (np.ones(-1)). *)
Theorem C06_cover : forall cap init ops,
  let st := prun ops (pempty cap init) in
  let n := length (nodes (pg st)) in
  let m := length (proutes st) in
  (n = 0%nat -> math_program_data st = Err ValueError) /\
  ((0 < n)%nat ->
   exists A,
     math_program_data st = Ok (pcosts st, A, repeat 1 (n - 1)%nat) /\
     constraint_data st = Ok ((n - 1, m)%nat, A, repeat 1 (n - 1)%nat, zero_matrix m, 0) /\
     objective_data st = (pcosts st, zero_matrix m) /\
     num_variables st = m /\
     length A = (n - 1)%nat /\ (forall row, In row A -> length row = m) /\
     (forall i j, nth j (nth i (zero_matrix m) []) 0 = 0) /\
     (forall k j r, (k < n - 1)%nat -> nth_error (proutes st) j = Some r ->
        cover st k j = nth j (nth k A []) 0 /\
        (cover st k j = 1 <-> In (S k) r) /\ (cover st k j = 0 <-> ~ In (S k) r))).
Proof.
  intros cap init ops st n m.
  destruct (prun_stored ops (pempty cap init) (PInv_empty cap init)) as [HP _]. fold st in HP.
  split.
  - intros Hn. apply math_program_data_empty. unfold n in Hn.
    destruct (nodes (pg st)); [reflexivity|discriminate].
  - intros Hn. destruct (cover_spec st HP Hn) as (A & E1 & E2 & E3 & E4 & E5 & E6).
    exists A. split; [exact E1|]. split; [exact E2|].
    split; [unfold objective_data; rewrite E3; reflexivity|].
    split; [exact E3|]. split; [exact E4|]. split; [exact E5|].
    split; [intros i j; apply zero_matrix_entry|].
    intros k j r Hk Hj. split; [unfold cover; rewrite E1; reflexivity|].
    rewrite (E6 k j r Hk Hj). rewrite <- memb_In.
    destruct (memb (S k) r); split; split; intros; congruence || lia || auto.
Qed.
Print Assumptions C06_cover.

(* (3') A customer appended after routes were stored: the matrix gains one row, which is zero in
   the column of every route stored so far; all other entries of those columns are unchanged. *)
Theorem C06_cover_after_add_node : forall cap init ops nm dem lo hi g',
  let st := prun ops (pempty cap init) in
  let n := length (nodes (pg st)) in
  (0 < n)%nat ->
  add_node (pg st) nm dem lo hi = Ok g' ->
  let st' := prun (ops ++ [PAddNode nm dem lo hi]) (pempty cap init) in
  length (nodes (pg st')) = S n /\ proutes st' = proutes st /\
  forall j r, nth_error (proutes st) j = Some r ->
    cover st' (n - 1) j = 0 /\ forall k, (k < n - 1)%nat -> cover st' k j = cover st k j.
Proof.
  intros cap init ops nm dem lo hi g' st n Hn E st'.
  destruct (prun_stored ops (pempty cap init) (PInv_empty cap init)) as [HP _]. fold st in HP.
  assert (Est : st' = with_graph st g').
  { unfold st', prun. rewrite fold_left_app. simpl. fold (prun ops (pempty cap init)). fold st.
    rewrite E. reflexivity. }
  rewrite Est. destruct (cover_new_customer st nm dem lo hi g' HP Hn E) as [H1 H2].
  split; [exact H1|]. split; [reflexivity|]. exact H2.
Qed.
Print Assumptions C06_cover_after_add_node.

(* ---------------- examples (non-vacuity) ---------------- *)
(* depot D=10 (0,inf); A=11 demand 1, window (5,9); B=12 demand 0, window (0,10);
   C=13 demand 0, window (0,6).  Capacity 2, initial loading 1. *)
Definition ex_ops : list pop :=
  [PAddNode 10 0 0 PInf; PAddNode 11 1 5 (Fin 9); PAddNode 12 0 0 (Fin 10); PAddNode 13 0 0 (Fin 6);
   PAddArc 10 11 1 2; PAddArc 11 10 1 3; PAddArc 11 12 1 1; PAddArc 12 13 1 1; PAddArc 13 10 1 1;
   PAddArc 10 12 1 4; PAddArc 12 10 1 4].
Definition ex_st : pstate := prun ex_ops (pempty 2 1).

(* a route that must wait: the vehicle reaches A at time 1, the window opens at 5; it is accepted,
   given by names, with cost 2 + 3 and arrival times 5 and 6 *)
Example C06_route_that_waits :
  check_route ex_st [inl 10%nat; inl 11%nat; inl 10%nat]
    = ([inr 0; inr 1; inr 0], Ok (true, 5, [1; 1; 0; 0])) /\
  arrivals (pg ex_st) 0 0 [1%nat; 0%nat] = [5; 6] /\
  valid_route ex_st [0%nat; 1%nat; 0%nat].
Proof.
  split; [vm_compute; reflexivity|]. split; [vm_compute; reflexivity|].
  assert (HI : Inv (pg ex_st)) by (apply (C06_store_once 2 1 ex_ops)).
  destruct (C06_check_iff ex_st [inl 10%nat; inl 11%nat; inl 10%nat] [0%nat; 1%nat; 0%nat] HI)
    as (feas & c & v & Hout & Hiff & _).
  - vm_compute; reflexivity.
  - assert (Hn : length (nodes (pg ex_st)) = 4%nat) by (vm_compute; reflexivity).
    rewrite Hn. repeat (constructor; [lia|]). constructor.
  - apply Hiff. vm_compute in Hout. inversion Hout. reflexivity.
Qed.

(* waiting matters: D -> A -> B -> C -> D has travel times 1+1+1 <= 6 = end of C's window, every
   arc passed add_arc's filter, the load is fine, but after waiting at A until 5 the vehicle
   reaches C at 7 > 6: rejected *)
Example C06_route_late_because_it_waited :
  snd (check_route ex_st [inr 0; inr 1; inr 2; inr 3; inr 0]) = Ok (false, 3, [1; 1; 1; 0]) /\
  arcs_exist (pg ex_st) 0 [1%nat; 2%nat; 3%nat; 0%nat] /\
  arrivals (pg ex_st) 0 0 [1%nat; 2%nat; 3%nat; 0%nat] = [5; 6; 7; 8] /\
  Forall (fun l => 0 <= l <= 2) (loads (pg ex_st) 1 [1%nat; 2%nat; 3%nat; 0%nat]) /\
  ~ valid_route ex_st [0%nat; 1%nat; 2%nat; 3%nat; 0%nat].
Proof.
  split; [vm_compute; reflexivity|].
  split; [vm_compute; repeat split|].
  split; [vm_compute; reflexivity|].
  split; [vm_compute; repeat constructor; discriminate|].
  intros (_ & _ & _ & _ & _ & _ & Ht & _). vm_compute in Ht.
  inversion Ht as [|? ? ? ? _ Ht1]; subst. inversion Ht1 as [|? ? ? ? _ Ht2]; subst.
  inversion Ht2 as [|? ? ? ? Hc _]; subst. apply Hc. reflexivity.
Qed.

(* a route rejected only by the load: initial loading 1,
   customer E=14 with demand -2 (a pick-up) makes the load 3 > capacity 2; arcs and times are fine *)
Definition ex_ops2 : list pop :=
  ex_ops ++ [PAddNode 14 (-2) 0 PInf; PAddArc 10 14 1 1; PAddArc 14 10 1 1].
Definition ex_st2 : pstate := prun ex_ops2 (pempty 2 1).
Example C06_route_rejected_only_by_load :
  snd (check_route ex_st2 [inl 10%nat; inr 4; inl 10%nat]) = Ok (false, 0, [1; 0; 0; 0; 0]) /\
  arcs_exist (pg ex_st2) 0 [4%nat; 0%nat] /\
  arrivals (pg ex_st2) 0 0 [4%nat; 0%nat] = [1; 2] /\
  loads (pg ex_st2) 1 [4%nat; 0%nat] = [3; 3] /\
  ~ valid_route ex_st2 [0%nat; 4%nat; 0%nat].
Proof.
  split; [vm_compute; reflexivity|]. split; [vm_compute; repeat split|].
  split; [vm_compute; reflexivity|]. split; [vm_compute; reflexivity|].
  intros (_ & _ & _ & _ & _ & _ & _ & Hl). vm_compute in Hl.
  inversion Hl as [|? ? [_ Hc] _]; subst. apply Hc. reflexivity.
Qed.

(* the same route given by names and then by indices is stored once; a customer appended later
   gets an all-zero row; the depot row is absent *)
Example C06_store_once_and_cover :
  let ops := ex_ops ++ [PAddRoute [inl 10%nat; inl 11%nat; inl 10%nat];
                        PAddRoute [inr 0; inr 1; inr 0];
                        PAddRoute [inr 0; inl 12%nat; inr 0];
                        PAddNode 14 0 0 PInf] in
  map (fun o => match o with ORoute _ res => Some res | _ => None end)
      (skipn 11 (ptrace ops (pempty 2 1)))
    = [Some (Ok (true, true)); Some (Ok (true, false)); Some (Ok (true, true)); None] /\
  math_program_data (prun ops (pempty 2 1))
    = Ok ([5; 8], [[1; 0]; [0; 1]; [0; 0]; [0; 0]], [1; 1; 1; 1]).
Proof. vm_compute. split; reflexivity. Qed.
