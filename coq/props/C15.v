(* C15 -- VRPTW graph stays self-consistent under any construction order.
   Property theorems only; proofs live in theories/Vrptw_facts.v. *)
From VQ Require Import Base Vrptw Vrptw_facts.

(* Every history of add_node / add_arc / set_depot, for the base class and for the
   sequence formulation (strict or not), starting from the empty graph, reaches a graph in
   which names are unique and aligned with the node list, every window is ordered, arc keys
   are unique, and every arc is filed under the current positions of its own endpoints and
   satisfies  origin window start + travel time <= destination window end. *)
Theorem C15_inv : forall (c : gclass) (ops : list gop), Inv (run c ops empty_graph).
Proof. intros c ops. apply run_inv. exact Inv_empty. Qed.
Print Assumptions C15_inv.

Theorem C15_depot_first : forall s g nm g',
  (set_depot g nm = Ok g' \/ seq_set_depot s g nm = Ok g') -> hd_error (names g') = Some nm.
Proof. intros s g nm g' [H|H]; [exact (set_depot_first _ _ _ H) | exact (seq_set_depot_first _ _ _ _ H)]. Qed.
Print Assumptions C15_depot_first.

Theorem C15_depot_stays_first : forall c g o x,
  (forall nm, o <> OpSetDepot nm) ->
  hd_error (names g) = Some x -> hd_error (names (fst (step c g o))) = Some x.
Proof. exact step_keeps_first. Qed.
Print Assumptions C15_depot_stays_first.

Theorem C15_add_arc_result : forall g o d tm cost g' b,
  add_arc g o d tm cost = Ok (g', b) ->
  exists i j,
    index_of o (names g) = Some i /\ index_of d (names g) = Some j /\
    let no := nth i (nodes g) dummy_node in
    let nd := nth j (nodes g) dummy_node in
    (b = true <-> ext_le (Fin (nlo no + tm)) (nhi nd)) /\
    (b = true -> g' = mkGraph (names g) (nodes g)
                        (dict_set (i, j) (mkArc (nname no) (nname nd) tm cost) (arcs g))) /\
    (b = false -> g' = g).
Proof. exact add_arc_result. Qed.
Print Assumptions C15_add_arc_result.

Theorem C15_stored_arc_is_found : forall (k : nat * nat) (a : arc) d,
  dict_get k (dict_set k a d) = Some a.
Proof. intros; apply dict_get_set_same. Qed.
Print Assumptions C15_stored_arc_is_found.

Theorem C15_errors_frame : forall c g o e,
  snd (step c g o) = Err e -> fst (step c g o) = g /\ e = ValueError.
Proof. exact step_error_frame. Qed.
Print Assumptions C15_errors_frame.

Theorem C15_error_conditions : forall s g,
  (forall nm dem lo hi,
     (exists e, add_node g nm dem lo hi = Err e) <-> (In nm (names g) \/ ~ ext_le (Fin lo) hi)) /\
  (forall o d tm cost,
     (exists e, add_arc_gen s g o d tm cost = Err e) <-> (~ In o (names g) \/ ~ In d (names g))) /\
  (forall nm, (exists e, set_depot g nm = Err e) <-> ~ In nm (names g)).
Proof.
  intros s g. split; [|split].
  - apply add_node_error_iff.
  - apply add_arc_error_iff.
  - apply set_depot_error_iff.
Qed.
Print Assumptions C15_error_conditions.

(* The sequence class's set_depot (which in strict mode re-adds every stored arc by the names of its
   endpoints when the depot moved) raises, on a graph satisfying the invariant, exactly for an unknown
   name: the re-adding loop never raises there. *)
Theorem C15_seq_set_depot_error_condition : forall s g nm,
  Inv g -> ((exists e, seq_set_depot s g nm = Err e) <-> ~ In nm (names g)).
Proof. exact seq_set_depot_error_iff. Qed.
Print Assumptions C15_seq_set_depot_error_condition.

(* Non-vacuity: a history in which the depot is chosen after arcs exist; the arc A->B, stored
   under (0,1), is re-filed under (1,2) when C moves to the front. *)
Example C15_history_rekeys :
  let g := run Base [OpAddNode 10 0 0 (Fin 5); OpAddNode 11 0 0 (Fin 5); OpAddNode 12 0 0 PInf;
                     OpAddArc 10 11 1 1; OpSetDepot 12] empty_graph in
  names g = [12%nat; 10%nat; 11%nat] /\ map fst (arcs g) = [(1%nat, 2%nat)].
Proof. vm_compute. split; reflexivity. Qed.

(* Strict sequence class: the arc A->B (travel time 3, A (0,10), B (0,5)) is stored while A is node 0
   (lenient rule 0+3 <= 5); when set_depot moves D to the front the stored arcs are re-added with the
   rule for their new positions and A->B (10+3 > 5) is dropped; the non-strict class keeps it. *)
Example C15_history_strict_recheck :
  let ops := [OpAddNode 11 1 0 (Fin 10); OpAddNode 12 1 0 (Fin 5); OpAddNode 10 0 0 PInf;
              OpAddArc 11 12 3 1; OpSetDepot 10] in
  map fst (arcs (run (Seq true) ops empty_graph)) = [(0%nat, 0%nat)] /\
  map fst (arcs (run (Seq false) ops empty_graph)) = [(1%nat, 2%nat); (0%nat, 0%nat)].
Proof. vm_compute. split; reflexivity. Qed.
