(* C16 -- formulations are isolated from their source graph and from each other.
   Object-store model (Store.v): aliasing is explicit, so "copy" and "share" differ. *)
From VQ Require Import Base Store Store_facts.

(* Frame: whatever sequence of mutating methods runs through handle g, every location that
   existed before and is not one of g's containers keeps its content; g's containers after
   the run are old containers of g or freshly allocated locations. *)
Theorem C16_frame : forall g ops s,
  (length s <= length (srun g ops s))%nat /\
  (forall l, (l < length s)%nat -> ~ In l (footprint s g) -> rd (srun g ops s) l = rd s l) /\
  (forall l, In l (footprint (srun g ops s) g) -> In l (footprint s g) \/ (length s <= l)%nat).
Proof. exact srun_frame. Qed.
Print Assumptions C16_frame.

(* What is seen through another handle never changes, provided nothing reachable from it is a
   container of the handle being operated on. *)
Theorem C16_view_frame : forall g1 g2 ops s,
  (forall l, In l (reach s g2) -> (l < length s)%nat) ->
  disjoint (reach s g2) (footprint s g1) ->
  view (srun g1 ops s) g2 = view s g2.
Proof. exact view_frame. Qed.
Print Assumptions C16_view_frame.

(* With a copy operation that (1) leaves existing objects alone, (2) returns a handle whose
   reachable objects are all fresh and (3) looks the same as the source -- the contract of
   copy.deepcopy, checked on the real objects by the harness -- the source is never changed by
   anything done through the copy, and the copy is never changed through the source. *)
Theorem C16_copy_isolated :
  forall (deepcopy : store -> loc -> store * loc),
  (forall s g l, (l < length s)%nat -> rd (fst (deepcopy s g)) l = rd s l) ->
  (forall s g l, In l (reach (fst (deepcopy s g)) (snd (deepcopy s g))) ->
                 (length s <= l)%nat /\ (l < length (fst (deepcopy s g)))%nat) ->
  (forall s g, view (fst (deepcopy s g)) (snd (deepcopy s g)) = view s g) ->
  forall s g ops,
  (forall l, In l (reach s g) -> (l < length s)%nat) ->
  view (srun (snd (deepcopy s g)) ops (fst (deepcopy s g))) g = view s g /\
  view (srun g ops (fst (deepcopy s g))) (snd (deepcopy s g)) = view s g.
Proof.
  intros dc H1 H2 H3 s g ops Hdom. split.
  - exact (copy_does_not_touch_source dc H1 H2 s g ops Hdom).
  - exact (source_does_not_touch_copy dc H1 H2 H3 s g ops Hdom).
Qed.
Print Assumptions C16_copy_isolated.

(* The MIRP getters: for every sequence of requests, each answer is the formulation built from
   the unchanged data (the sequence-based one with the strictness of its FIRST request), so the
   order of requests is irrelevant and a repeated request returns the cached object. *)
Theorem C16_order_independent :
  forall (D A P S : Type) (ba : D -> A) (bp : D -> P) (bs : D -> bool -> S) (d : D) (ops : list mop),
  let m0 := mkM D A P S d None None None in
  snd (mrun D A P S ba bp bs m0 ops) = expected_outs D A P S ba bp bs d None ops /\
  mdata D A P S (fst (mrun D A P S ba bp bs m0 ops)) = d.
Proof.
  intros D A P S ba bp bs d ops m0.
  apply mrun_order_independent.
  - unfold coherent, m0; simpl. repeat split; auto; discriminate.
  - reflexivity.
Qed.
Print Assumptions C16_order_independent.

(* Non-vacuity, and why disjointness is needed: a SHALLOW copy (new graph object, same
   containers) lets an add_node through the copy show up in the source ... *)
Local Open Scope nat_scope.
Definition s_shallow : store :=
  [ ONames [7]; OList [3]; ODict []; ONode 7 0%Z 0%Z PInf;      (* 0..3: containers and the depot node *)
    OGraph 0 1 2;                                                    (* 4: source graph *)
    OGraph 0 1 2 ].                                                  (* 5: shallow copy *)
Example C16_shallow_copy_leaks :
  view (srun 5 [SAddNode 8 1%Z 0%Z (Fin 5%Z)] s_shallow) 4 <> view s_shallow 4.
Proof. vm_compute. discriminate. Qed.

(* ... while a deep copy (own containers and node objects) does not. *)
Definition s_deep : store :=
  [ ONames [7]; OList [3]; ODict []; ONode 7 0%Z 0%Z PInf; OGraph 0 1 2;
    ONames [7]; OList [8]; ODict []; ONode 7 0%Z 0%Z PInf; OGraph 5 6 7 ].
Example C16_deep_copy_isolated :
  (forall l, In l (reach s_deep 4) -> (l < length s_deep)%nat) /\
  disjoint (reach s_deep 4) (footprint s_deep 9) /\
  view (srun 9 [SAddNode 8 1%Z 0%Z (Fin 5%Z); SAddArc 0 1 2%Z 3%Z; SSetDepot 1; SRebindArcs] s_deep) 4 = view s_deep 4.
Proof.
  split; [|split].
  - vm_compute. intros l H. repeat (destruct H as [<-|H]; [lia|]). destruct H.
  - vm_compute. intros l H. repeat (destruct H as [<-|H]; [intros [E|[E|[E|[E|[]]]]]; discriminate|]). destruct H.
  - vm_compute. reflexivity.
Qed.
