(* C04_forms -- the default-penalty QUBO of each formulation MODEL is exact, and end-to-end corollaries.
   Property theorems only; proofs live in theories/Compose_*_facts.v.

   The structure hypotheses of the counting lemmas of C04 (objective coefficients vs. the sufficient
   penalty S of the formulation) and `R >= 0` are discharged from the models, so C04_default_exact applies
   to every instance:  with rho = S + 1 the binary minimisers of x'Qx + k are exactly the optimal solutions
   of the constrained program of the model, whenever it is feasible, and the minimum is the optimal cost.

   For F in {arc, path, seq}:
     F_S            get_sufficient_penalty(False) computed from the data the method reads
                    (arc: sum |arc cost| * len(time_points)^2; path: sum |route cost|;
                     sequence: max_sequence_length * sum_{arcs, vehicle costs} |cost + vehicle cost|);
     F_default_value x = x'Qx + k  for (Q, k) = get_qubo(feasibility=False, penalty_parameter=None)
                    built from the model's own data (C02_F_builder_output: what the builder returns);
     F_qubo_min x   x is binary and minimises F_default_value over all binary vectors;
     F_opt x        x is binary, satisfies the model's constraints (arc: Arc.Ax = Arc.rhs; path: the selected
                    stored routes contain every customer exactly once; sequence: x is the indicator of a walk
                    assignment) and minimises the model's objective among such vectors.
   `tab n x` is the list [x 0; ...; x (n-1)]. *)
From Coq Require Import ZArith List Sorting.Permutation.
From VQ Require Import Base LinAlg Penalty Penalty_facts Compose_facts Vrptw Vrptw_facts.
From VQ Require Arc Arc_facts Arc_routes Path Path_facts Seq Seq_facts.
From VQ Require Import Compose_arc_facts Compose_path_facts Compose_seq_facts.
Import ListNotations.
Open Scope Z_scope.

(* ====================================================================== *)
(* arc                                                                      *)
(* ====================================================================== *)
(* the structure hypotheses of C04_S_arc, from the model: with arc_avars I = the variables written as
   (index of the arc in arcs.keys(), s, t) and arc_costs I = the arc costs in dict order: no variable twice,
   arc index in range, times on the (sorted) grid, and the k-th objective coefficient is the cost of the arc
   of variable k.  (Duplicate-free grid, distinct arc keys -- a dict.) *)
Theorem C04_arc_structure :
  forall I : Arc.inst,
    NoDup (Arc.igrid I) -> NoDup (map fst (arcs (Arc.ig I))) ->
    length (arc_avars I) = Arc.num_variables I /\ NoDup (arc_avars I) /\
    (forall a s t, In (a, s, t) (arc_avars I) ->
                   (a < length (arc_costs I))%nat /\ In s (Arc.tp I) /\ In t (Arc.tp I)) /\
    (forall k, (k < Arc.num_variables I)%nat ->
               Zvec_of (Arc.objective I) k = arc_obj (arc_costs I) (arc_avars I) k).
Proof. exact arc_structure. Qed.
Print Assumptions C04_arc_structure.

(* sum of |objective coefficients| <= S_arc, for EVERY grid (repeated grid points included: proved by counting
   positions, len(time_points)^2 per arc) as soon as the arc keys are distinct *)
Theorem C04_arc_coeff_bound :
  forall I : Arc.inst,
    NoDup (map fst (arcs (Arc.ig I))) ->
    coeff_sum (Arc.num_variables I) (Zvec_of (Arc.objective I)) (arc_Qo I)
    <= S_arc (map (fun kv => acost (snd kv)) (arcs (Arc.ig I))) (length (Arc.tp I)).
Proof. exact arc_coeff_bound. Qed.
Print Assumptions C04_arc_coeff_bound.

(* exactness for every arc instance with distinct arc keys (every graph reachable through the API: Inv) *)
Theorem C04_arc_exact :
  forall I : Arc.inst,
    let n := Arc.num_variables I in
    NoDup (map fst (arcs (Arc.ig I))) ->
    (exists z, Zbinary n z /\ Arc.Ax I (tab n z) = Arc.rhs I) ->
    (forall x, arc_qubo_min I x <->
               (Zbinary n x /\ Arc.Ax I (tab n x) = Arc.rhs I /\
                forall y, Zbinary n y -> Arc.Ax I (tab n y) = Arc.rhs I ->
                          Arc.obj_value I (tab n x) <= Arc.obj_value I (tab n y))) /\
    (forall x y, arc_qubo_min I x -> arc_opt I y -> arc_default_value I x = Arc.obj_value I (tab n y)).
Proof. exact arc_exact. Qed.
Print Assumptions C04_arc_exact.

(* END TO END (arc).  Graph reachable through the API, duplicate-free grid, positive customer-to-customer
   travel times, feasible instance.  Every minimiser x of the default-penalty QUBO decodes: get_routes (=
   Arc.decode) returns the (node, time) lists of depot-to-depot chains mss that use every selected move once;
   cut at the depot they are routes (sroute) of admissible moves serving every customer exactly once; and the
   summed arc cost of those moves is the QUBO minimum. *)
Theorem C04_arc_end_to_end :
  forall (I : Arc.inst) (x : vec Z),
    let n := Arc.num_variables I in
    Inv (Arc.ig I) -> NoDup (Arc.igrid I) -> Arc_routes.pos_cc I ->
    (exists z, Zbinary n z /\ Arc.Ax I (tab n z) = Arc.rhs I) ->
    arc_qubo_min I x ->
    exists mss : list (list Arc.var),
      Arc.decode I (tab n x) = Ok (map Arc_routes.route_of mss) /\
      Permutation (Arc.selected I (tab n x)) (concat mss) /\
      Forall Arc_routes.walk mss /\
      Forall Arc_routes.sroute (flat_map Arc_routes.split_depot mss) /\
      concat (flat_map Arc_routes.split_depot mss) = concat mss /\
      Forall (Arc_facts.valid_move I) (concat mss) /\
      (forall j, (1 <= j < length (nodes (Arc.ig I)))%nat ->
                 Arc_facts.cnt (Arc_facts.into_node j) (concat mss) = 1%nat) /\
      Arc.sumz (map (fun v => acost (Arc.arc_at (Arc.ig I) (Arc.onode v) (Arc.dnode v))) (concat mss))
      = arc_default_value I x /\
      (forall y, Zbinary n y -> arc_default_value I x <= arc_default_value I y).
Proof. exact arc_e2e. Qed.
Print Assumptions C04_arc_end_to_end.

(* ====================================================================== *)
(* path                                                                     *)
(* ====================================================================== *)
(* the objective vector is the list of stored route costs and the quadratic part is zero: S_path IS the sum *)
Theorem C04_path_coeff_sum :
  forall st : Path.pstate,
    coeff_sum (Path.num_variables st) (Zvec_of (Path.pcosts st)) (path_Qo st) = S_path (Path.pcosts st).
Proof. exact path_coeff_sum. Qed.
Print Assumptions C04_path_coeff_sum.

Theorem C04_path_exact :
  forall cap init ops,
    let st := Path.prun ops (Path.pempty cap init) in
    let n := Path.num_variables st in
    (0 < length (nodes (Path.pg st)))%nat ->
    (exists z, Zbinary n z /\ path_cover_once st z) ->
    (forall x, path_qubo_min st x <->
               (Zbinary n x /\ path_cover_once st x /\
                forall y, Zbinary n y -> path_cover_once st y -> path_cost st x <= path_cost st y)) /\
    (forall x y, path_qubo_min st x -> path_opt st y -> path_default_value st x = path_cost st y).
Proof.
  intros cap init ops st n Hn Hex.
  destruct (Path_facts.prun_stored ops (Path.pempty cap init) (Path_facts.PInv_empty cap init)) as [HP _].
  exact (path_exact st HP Hn Hex).
Qed.
Print Assumptions C04_path_exact.

(* END TO END (path).  After any history with at least one node, feasible pool: every minimiser of the
   default-penalty QUBO selects stored routes that contain every customer exactly once, their summed stored
   cost is the QUBO minimum, and get_routes returns exactly the selected routes by node names.  (Each stored
   route was a route of the definition when it was added: C03_path_stored_routes_valid.) *)
Theorem C04_path_end_to_end :
  forall cap init ops (x : vec Z),
    let st := Path.prun ops (Path.pempty cap init) in
    let n := Path.num_variables st in
    (0 < length (nodes (Path.pg st)))%nat ->
    (exists z, Zbinary n z /\ path_cover_once st z) ->
    path_qubo_min st x ->
    Zbinary n x /\
    (forall c, (1 <= c < length (nodes (Path.pg st)))%nat ->
       exists j, (j < n)%nat /\ x j = 1 /\ In c (route_at st j) /\
                 forall j', (j' < n)%nat -> x j' = 1 -> In c (route_at st j') -> j' = j) /\
    Zdot n (Zvec_of (Path.pcosts st)) x = path_default_value st x /\
    (forall y, Zbinary n y -> path_default_value st x <= path_default_value st y) /\
    Path.get_routes st (tab n x) = Ok (map (route_names st) (Path.flatnonzero (tab n x))) /\
    (forall j, In j (Path.flatnonzero (tab n x)) <-> (j < n)%nat /\ x j = 1).
Proof.
  intros cap init ops x st n Hn Hex Hmin.
  destruct (Path_facts.prun_stored ops (Path.pempty cap init) (Path_facts.PInv_empty cap init)) as [HP _].
  exact (path_e2e st x HP Hn Hex Hmin).
Qed.
Print Assumptions C04_path_end_to_end.

(* ====================================================================== *)
(* sequence                                                                 *)
(* ====================================================================== *)
(* every linear / quadratic coefficient of the model is a sum of entries cost(a) + vehicle_cost(v) [times a
   fixed value 0/1] over calls (v, s, a) of the objective loop, each call contributing to at most one entry:
   the sum of |coefficients| is at most (L-1) * sum_{v, a} |cost(a) + vehicle_cost(v)| <= S_seq.
   vc_aligned I: len(vehicle_cost) = max_vehicles (kept by set_max_vehicles and make_feasible). *)
Theorem C04_seq_coeff_bound :
  forall I : Seq.inst,
    length (Seq.ivc I) = Seq.iV I ->
    coeff_sum (Seq.num_variables I) (Seq.cvec I) (Seq.Qo I)
    <= S_seq (Z.of_nat (Seq.iL I)) (map (fun kv => acost (snd kv)) (arcs (Seq.ig I))) (Seq.ivc I).
Proof. exact seq_coeff_bound_model. Qed.
Print Assumptions C04_seq_coeff_bound.

Theorem C04_seq_exact :
  forall I : Seq.inst,
    let n := Seq.num_variables I in
    Seq_facts.seq_ok I -> (3 <= Seq.iL I)%nat -> length (Seq.ivc I) = Seq.iV I ->
    (exists z, Zbinary n z /\ seq_is_walk I z) ->
    (forall x, seq_qubo_min I x <->
               (Zbinary n x /\ seq_is_walk I x /\
                forall y, Zbinary n y -> seq_is_walk I y -> seq_cost I x <= seq_cost I y)) /\
    (forall x y, seq_qubo_min I x -> seq_opt I y -> seq_default_value I x = seq_cost I y).
Proof. exact seq_exact. Qed.
Print Assumptions C04_seq_exact.

(* END TO END (sequence).  Every minimiser of the default-penalty QUBO is the indicator of a walk assignment W,
   get_routes (= Seq.decode) returns its walks, and the summed move costs plus vehicle surcharges of W are the
   QUBO minimum. *)
Theorem C04_seq_end_to_end :
  forall (I : Seq.inst) (x : vec Z),
    let n := Seq.num_variables I in
    Seq_facts.seq_ok I -> (3 <= Seq.iL I)%nat -> length (Seq.ivc I) = Seq.iV I ->
    (exists W, Seq.walk_assignment I W) ->
    seq_qubo_min I x ->
    exists W, Seq.walk_assignment I W /\
              (forall k, (k < n)%nat -> x k = Seq.indicator_free I W k) /\
              Seq.decode I (tab n x) = Ok (Seq.walks I W) /\
              Seq.zsum (Seq.iV I) (fun v => Seq.zsum (Seq.iL I - 1)
                                    (fun s => Seq.cost I (W v s, W v (S s)) + Seq.vcost I v))
              = seq_default_value I x /\
              (forall y, Zbinary n y -> seq_default_value I x <= seq_default_value I y).
Proof. exact seq_e2e. Qed.
Print Assumptions C04_seq_end_to_end.

(* ====================================================================== *)
(* non-vacuity                                                              *)
(* ====================================================================== *)
Definition arc_ex : Arc.inst :=
  Arc.mkInst (mkGraph [10; 11]%nat [mkNode 10 0 0 PInf; mkNode 11 1 1 (Fin 2)]
                [((0, 1)%nat, mkArc 10 11 1 2); ((1, 0)%nat, mkArc 11 10 1 (-3))]) [3; 0; 2; 1].

(* hypotheses of C04_arc_end_to_end hold (feasible witness (1,0,0,1,0,0)); S_arc = (2+3)*16 = 80 dominates the
   coefficient sum 15; default-penalty values: -1 on the three feasible vectors, 247 on an infeasible one *)
Example C04_arc_example :
  Inv (Arc.ig arc_ex) /\ NoDup (Arc.igrid arc_ex) /\ Arc_routes.pos_cc arc_ex /\
  (exists z, Zbinary (Arc.num_variables arc_ex) z /\
             Arc.Ax arc_ex (tab (Arc.num_variables arc_ex) z) = Arc.rhs arc_ex) /\
  arc_S arc_ex = 80 /\
  coeff_sum 6 (Zvec_of (Arc.objective arc_ex)) (arc_Qo arc_ex) = 15 /\
  arc_avars arc_ex = [(0%nat, 0, 1); (0%nat, 0, 2); (0%nat, 1, 2); (1%nat, 1, 2); (1%nat, 1, 3); (1%nat, 2, 3)] /\
  map (fun xl => arc_default_value arc_ex (Zvec_of xl))
      [[1; 0; 0; 1; 0; 0]; [0; 0; 1; 0; 0; 1]; [0; 1; 0; 0; 0; 1]; [1; 1; 0; 0; 0; 0]] = [-1; -1; -1; 247] /\
  Arc.decode arc_ex [1; 0; 0; 1; 0; 0] = Ok [[(0%nat, 0); (1%nat, 1); (0%nat, 2)]].
Proof.
  split.
  { change (Arc.ig arc_ex) with (run Base [OpAddNode 10 0 0 PInf; OpAddNode 11 1 1 (Fin 2);
                                           OpAddArc 10 11 1 2; OpAddArc 11 10 1 (-3)] empty_graph).
    apply run_inv. exact Inv_empty. }
  split; [repeat constructor; simpl; intuition discriminate|].
  split.
  { intros i j a H Hi Hj. simpl in H.
    destruct i as [|[|i]], j as [|[|j]]; simpl in H; try discriminate; try congruence. }
  split.
  { exists (Zvec_of [1; 0; 0; 1; 0; 0]). split.
    - change (Arc.num_variables arc_ex) with (length [1; 0; 0; 1; 0; 0]). apply binL_vec_of, binLb_sound. reflexivity.
    - vm_compute. reflexivity. }
  vm_compute. repeat split; reflexivity.
Qed.

Definition path_ops : list Path.pop :=
  [Path.PAddNode 10 0 0 PInf; Path.PAddNode 11 1 0 (Fin 9); Path.PAddNode 12 1 0 (Fin 9);
   Path.PAddArc 10 11 1 2; Path.PAddArc 11 10 1 3; Path.PAddArc 10 12 1 4; Path.PAddArc 12 10 1 (-1);
   Path.PAddArc 11 12 1 1;
   Path.PAddRoute [inr 0; inr 1; inr 0]; Path.PAddRoute [inr 0; inr 2; inr 0];
   Path.PAddRoute [inr 0; inr 1; inr 2; inr 0]].
Definition path_ex : Path.pstate := Path.prun path_ops (Path.pempty 5 2).

(* the pool is feasible ((0,0,1) covers both customers, shown through C03_path_zero_iff_partition's lemma from
   its zero energy); S_path = 5 + 3 + 2; default-penalty values 8, 2 (the optimum), 18, 22 *)
Example C04_path_example :
  (0 < length (nodes (Path.pg path_ex)))%nat /\
  (exists z, Zbinary (Path.num_variables path_ex) z /\ path_cover_once path_ex z) /\
  path_S path_ex = 10 /\
  map (fun xl => path_default_value path_ex (Zvec_of xl)) [[1; 1; 0]; [0; 0; 1]; [1; 0; 1]; [0; 0; 0]]
  = [8; 2; 18; 22] /\
  Path.get_routes path_ex [0; 0; 1] = Ok [[10; 11; 12; 10]%nat].
Proof.
  split; [vm_compute; lia|].
  split.
  { exists (Zvec_of [0; 0; 1]).
    assert (Hb : Zbinary (Path.num_variables path_ex) (Zvec_of [0; 0; 1])).
    { change (Path.num_variables path_ex) with (length [0; 0; 1]). apply binL_vec_of, binLb_sound. reflexivity. }
    split; [exact Hb|].
    destruct (Path_facts.prun_stored path_ops (Path.pempty 5 2) (Path_facts.PInv_empty 5 2)) as [HP _].
    apply (path_feas_zero_iff path_ex 0 (Zvec_of [0; 0; 1]) HP); [vm_compute; lia | exact Hb | vm_compute; reflexivity]. }
  vm_compute. repeat split; reflexivity.
Qed.

Definition seq_ex : Seq.inst :=
  Seq.mkInst (run (Seq false)
              [OpAddNode 10 0 0 PInf; OpAddNode 11 1 0 (Fin 5); OpAddNode 12 1 0 (Fin 8); OpSetDepot 10;
               OpAddArc 10 11 1 2; OpAddArc 11 12 1 3; OpAddArc 12 10 1 4] empty_graph)
         1 4 [5].

(* hypotheses of C04_seq_end_to_end hold (the walk D-A-B-D); S_seq = 4 * (7 + 8 + 9 + 5) = 116 dominates the
   coefficient sum 39; the walk has value 2 + 3 + 4 + 3*5 = 24 *)
Example C04_seq_example :
  Seq_facts.seq_ok seq_ex /\ (3 <= Seq.iL seq_ex)%nat /\ length (Seq.ivc seq_ex) = Seq.iV seq_ex /\
  (exists W, Seq.walk_assignment seq_ex W) /\
  seq_S seq_ex = 116 /\
  coeff_sum 4 (Seq.cvec seq_ex) (Seq.Qo seq_ex) = 39 /\
  map (fun xl => seq_default_value seq_ex (Zvec_of xl)) [[0; 1; 0; 1]; [1; 0; 1; 0]; [0; 0; 0; 0]] = [24; 249; 468] /\
  Seq.decode seq_ex [0; 1; 0; 1] = Ok [[0; 1; 2; 0]%nat].
Proof.
  assert (Hok : Seq_facts.seq_ok seq_ex).
  { apply Seq_facts.depot_set_seq_ok. split; [apply run_inv, Inv_empty|]. vm_compute. auto 10. }
  split; [exact Hok|]. split; [vm_compute; lia|]. split; [reflexivity|].
  split.
  { assert (Hb : Zbinary (Seq.num_variables seq_ex) (Zvec_of [0; 1; 0; 1])).
    { change (Seq.num_variables seq_ex) with (length [0; 1; 0; 1]). apply binL_vec_of, binLb_sound. reflexivity. }
    assert (H0 : seq_feas_value seq_ex 0 (Zvec_of [0; 1; 0; 1]) = 0) by (vm_compute; reflexivity).
    apply (seq_feas_zero_iff seq_ex 0 _ Hok) in H0; [|vm_compute; lia | exact Hb].
    destruct H0 as [W [HW _]]. exists W. exact HW. }
  vm_compute. repeat split; reflexivity.
Qed.
