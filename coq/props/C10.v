(* C10 -- Exported problem files represent the in-memory problem.
   Property theorems only; definitions in theories/Export.v, proofs in theories/Export_facts.v.
   A problem p is what export(as_ising) works from: the matrix J or Q (dense meaning), the vector h
   (Ising), the constant; coefficient p i j is h_i resp. Q_ii for i = j and the matrix entry otherwise.
   Written / loaded numbers are integers in hundredths. *)
From Coq Require Import ZArith QArith Qabs List Bool Lia.
From VQ Require Import Base LinAlg Export Export_facts.
Open Scope Z_scope.

(* '.2f': round2 q is an integer nearest to 100 q, the even one on an exact tie; a multiple of
   1/100 is reproduced exactly; the result depends only on the value of q. *)
Theorem C10_round2 : forall q : Q,
  (Qabs (100 * q - inject_Z (round2 q)) <= 1 # 2)%Q /\
  (2 * Z.abs (100 * Qnum q - round2 q * Zpos (Qden q)) = Zpos (Qden q) -> Z.even (round2 q) = true) /\
  (forall z, (q == inject_Z z / 100)%Q -> round2 q = z) /\
  (forall r, (q == r)%Q -> round2 q = round2 r).
Proof.
  intros q. split; [apply round2_nearest|]. split; [apply rhe_tie_even|].
  split; [apply round2_hundredths | apply round2_Qeq].
Qed.
Print Assumptions C10_round2.

(* The records of a written file: the constant is the rounded constant; every record sits inside the
   n variables at the indices of a non-zero coefficient and carries that coefficient rounded (nothing
   else occurs); and for every index pair the number of records filed under it is 1 when the
   coefficient is non-zero and 0 otherwise (every non-zero coefficient exactly once). *)
Theorem C10_exactly_once : forall p : problem,
  fst (export_entries p) = round2 (p_const p) /\
  (forall e, In e (snd (export_entries p)) <->
     (e_row e < p_n p)%nat /\ (e_col e < p_n p)%nat /\
     is_zero (coefficient p (e_row e) (e_col e)) = false /\
     e_val e = round2 (coefficient p (e_row e) (e_col e))) /\
  (forall i j,
     length (filter (fun e => (e_row e =? i)%nat && (e_col e =? j)%nat) (snd (export_entries p))) =
     if (i <? p_n p)%nat && (j <? p_n p)%nat && negb (is_zero (coefficient p i j)) then 1%nat else 0%nat) /\
  (forall q, is_zero q = true <-> (q == 0)%Q).
Proof.
  intros p. split; [reflexivity|]. split; [intros e; apply In_export_iff|].
  split; [intros i j; apply count_export | apply is_zero_iff].
Qed.
Print Assumptions C10_exactly_once.

(* Reading the records back with load_matrix: the constant is the rounded constant; the size m is
   between 1 and max(n, 1); the loaded matrix holds at every (i, j) inside the n x n block the rounded
   coefficient and zero elsewhere; every non-zero coefficient lies inside the loaded m x m block (so a
   coefficient with an index >= m is zero), and m is the largest index of a non-zero coefficient plus
   one (or 1). *)
Theorem C10_roundtrip : forall p : problem,
  match load_entries (export_entries p) with
  | (m, M, k) =>
      k = round2 (p_const p) /\
      (1 <= m <= Nat.max (p_n p) 1)%nat /\
      (forall i j, M i j = if (i <? p_n p)%nat && (j <? p_n p)%nat then round2 (coefficient p i j) else 0) /\
      (forall i j, (i < p_n p)%nat -> (j < p_n p)%nat -> is_zero (coefficient p i j) = false ->
                   (i < m)%nat /\ (j < m)%nat) /\
      (m = 1%nat \/
       exists i j, (i < p_n p)%nat /\ (j < p_n p)%nat /\ is_zero (coefficient p i j) = false /\
                   (S i = m \/ S j = m))
  end.
Proof. exact load_export. Qed.
Print Assumptions C10_roundtrip.

(* Hence the energies agree: the reloaded problem (Ising: after get_Ising_J_h, i.e. h = diagonal of
   the loaded matrix, J = the rest; QUBO: the loaded matrix), evaluated on the first m entries of any
   vector v, has the energy of the in-memory problem with every coefficient rounded to hundredths.
   For an Ising export the in-memory J must have a zero diagonal (the container guarantees it). *)
Theorem C10_energy_roundtrip : forall (p : problem) (v : nat -> Z),
  (p_ising p = true -> forall i, (i < p_n p)%nat -> (p_mat p i i == 0)%Q) ->
  energy_loaded (p_ising p) (load_entries (export_entries p)) v = energy_rounded p v.
Proof. exact energy_roundtrip. Qed.
Print Assumptions C10_energy_roundtrip.

(* ... and exactly the in-memory energy when all coefficients and the constant are multiples of 1/100. *)
Theorem C10_exact_on_hundredths : forall (p : problem) (v : nat -> Z),
  (p_ising p = true -> forall i, (i < p_n p)%nat -> (p_mat p i i == 0)%Q) ->
  (forall i j, (i < p_n p)%nat -> (j < p_n p)%nat -> hundredth (p_mat p i j)) ->
  (p_ising p = true -> forall i, (i < p_n p)%nat -> hundredth (p_h p i)) ->
  hundredth (p_const p) ->
  (inject_Z (energy_loaded (p_ising p) (load_entries (export_entries p)) v) / 100 == energy_q p v)%Q.
Proof.
  intros p v Hd HM Hh Hc. rewrite (energy_roundtrip p v Hd). apply energy_rounded_exact; assumption.
Qed.
Print Assumptions C10_exact_on_hundredths.

(* In general each written number is within half a hundredth of the coefficient it stands for. *)
Theorem C10_rounding_error : forall q : Q, (Qabs (q - inject_Z (round2 q) / 100) <= 1 # 200)%Q.
Proof. exact round2_error. Qed.
Print Assumptions C10_rounding_error.

(* get_Ising_J_h on a loaded matrix: h is its diagonal, J the rest with a zero diagonal. *)
Theorem C10_split : forall (M : nat -> nat -> Z) (i j : nat),
  split_h M i = M i i /\ split_J M i i = 0 /\ (i <> j -> split_J M i j = M i j).
Proof.
  intros M i j. unfold split_h, split_J. rewrite Nat.eqb_refl. split; [reflexivity|]. split; [reflexivity|].
  intros H. destruct (Nat.eqb_spec i j); [contradiction | reflexivity].
Qed.
Print Assumptions C10_split.

(* Non-vacuity: the Ising problem of Q = [[1,4,0],[1/8,1,4],[0,3/8,-2]], c = 1/8 (upper-triangular
   container): J = [[0,33/32,0],[0,0,35/32],[0,0,0]], h = (-49/32, -21/8, -3/32), constant 9/4. *)
Example C10_example :
  let p := problem_of true 3 [[0; 33 # 32; 0]; [0; 0; 35 # 32]; [0; 0; 0]]%Q [-(49 # 32); -(21 # 8); -(3 # 32)]%Q (9 # 4)%Q in
  export_entries p = (225, [(0%nat, 0%nat, -153); (1%nat, 1%nat, -262); (2%nat, 2%nat, -9); (0%nat, 1%nat, 103); (1%nat, 2%nat, 109)]) /\
  (let '(m, M, k) := load_entries (export_entries p) in (m, dense_of m M, k)) =
    (3%nat, [[-153; 103; 0]; [0; -262; 109]; [0; 0; -9]], 225) /\
  (forall i, (i < 3)%nat -> (p_mat p i i == 0)%Q) /\
  map round2 [1 # 8; 3 # 8; -(1 # 8); 1 # 256; -(1 # 256)]%Q = [12; 38; -12; 0; 0].
Proof.
  vm_compute. split; [reflexivity|]. split; [reflexivity|]. split; [|reflexivity].
  intros i Hi. destruct i as [|[|[|i]]]; try reflexivity. exfalso. lia.
Qed.

(* The DESIGN counterexample of the original loader (last variable only as a column) now loads:
   J = [[0,1,0],[0,0,1],[0,0,0]], h = (-3/2,-9/4,0): 3 variables although the largest row index is 1. *)
Example C10_last_field_zero :
  let p := problem_of true 3 [[0; 1; 0]; [0; 0; 1]; [0; 0; 0]]%Q [-(3 # 2); -(9 # 4); 0]%Q (9 # 4)%Q in
  map (fun e => (e_row e, e_col e)) (snd (export_entries p)) = [(0, 0); (1, 1); (0, 1); (1, 2)]%nat /\
  fst (fst (load_entries (export_entries p))) = 3%nat.
Proof. vm_compute. split; reflexivity. Qed.
