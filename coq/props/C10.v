(* C10 -- Exported problem files represent the in-memory problem.
   Property theorems only; definitions in theories/Export.v, proofs in theories/Export_facts.v.
   A problem p is what export(as_ising) works from: the matrix J or Q (dense meaning), the vector h
   (Ising), the constant; coefficient p i j is h_i resp. Q_ii for i = j and the matrix entry otherwise.
   Written / loaded numbers are integers in hundredths. *)
From Coq Require Import ZArith QArith Qabs List Bool Lia.
From VQ Require Import Base LinAlg Export Export_facts.
Open Scope Z_scope.

(* '.2f': round2 q is an integer nearest to 100 q, the even one on an exact tie; a multiple of
   1/100 is reproduced exactly; the result depends only on the value of q. *)
Theorem C10_round2 : forall q : Q,
  (Qabs (100 * q - inject_Z (round2 q)) <= 1 # 2)%Q /\
  (2 * Z.abs (100 * Qnum q - round2 q * Zpos (Qden q)) = Zpos (Qden q) -> Z.even (round2 q) = true) /\
  (forall z, (q == inject_Z z / 100)%Q -> round2 q = z) /\
  (forall r, (q == r)%Q -> round2 q = round2 r).
Proof.
  intros q. split; [apply round2_nearest|]. split; [apply rhe_tie_even|].
  split; [apply round2_hundredths | apply round2_Qeq].
Qed.
Print Assumptions C10_round2.

(* The records of a written file: the constant is the rounded constant; every record sits inside the
   n variables at the indices of a non-zero coefficient and carries that coefficient rounded (nothing
   else occurs); and for every index pair the number of records filed under it is 1 when the
   coefficient is non-zero and 0 otherwise (every non-zero coefficient exactly once). *)
Theorem C10_exactly_once : forall p : problem,
  fst (export_entries p) = round2 (p_const p) /\
  (forall e, In e (snd (export_entries p)) <->
     (e_row e < p_n p)%nat /\ (e_col e < p_n p)%nat /\
     is_zero (coefficient p (e_row e) (e_col e)) = false /\
     e_val e = round2 (coefficient p (e_row e) (e_col e))) /\
  (forall i j,
     length (filter (fun e => (e_row e =? i)%nat && (e_col e =? j)%nat) (snd (export_entries p))) =
     if (i <? p_n p)%nat && (j <? p_n p)%nat && negb (is_zero (coefficient p i j)) then 1%nat else 0%nat) /\
  (forall q, is_zero q = true <-> (q == 0)%Q).
Proof.
  intros p. split; [reflexivity|]. split; [intros e; apply In_export_iff|].
  split; [intros i j; apply count_export | apply is_zero_iff].
Qed.
Print Assumptions C10_exactly_once.

(* Reading the records back with load_matrix: the constant is the rounded constant; the size m is
   between 1 and max(n, 1); the loaded matrix holds at every (i, j) inside the n x n block the rounded
   coefficient and zero elsewhere; every non-zero coefficient lies inside the loaded m x m block (so a
   coefficient with an index >= m is zero), and m is the largest index of a non-zero coefficient plus
   one (or 1). *)
Theorem C10_roundtrip : forall p : problem,
  match load_entries (export_entries p) with
  | (m, M, k) =>
      k = round2 (p_const p) /\
      (1 <= m <= Nat.max (p_n p) 1)%nat /\
      (forall i j, M i j = if (i <? p_n p)%nat && (j <? p_n p)%nat then round2 (coefficient p i j) else 0) /\
      (forall i j, (i < p_n p)%nat -> (j < p_n p)%nat -> is_zero (coefficient p i j) = false ->
                   (i < m)%nat /\ (j < m)%nat) /\
      (m = 1%nat \/
       exists i j, (i < p_n p)%nat /\ (j < p_n p)%nat /\ is_zero (coefficient p i j) = false /\
                   (S i = m \/ S j = m))
  end.
Proof. exact load_export. Qed.
Print Assumptions C10_roundtrip.

(* Hence the energies agree: the reloaded problem (Ising: after get_Ising_J_h, i.e. h = diagonal of
   the loaded matrix, J = the rest; QUBO: the loaded matrix), evaluated on the first m entries of any
   vector v, has the energy of the in-memory problem with every coefficient rounded to hundredths.
   For an Ising export the in-memory J must have a zero diagonal (the container guarantees it). *)
Theorem C10_energy_roundtrip : forall (p : problem) (v : nat -> Z),
  (p_ising p = true -> forall i, (i < p_n p)%nat -> (p_mat p i i == 0)%Q) ->
  energy_loaded (p_ising p) (load_entries (export_entries p)) v = energy_rounded p v.
Proof. exact energy_roundtrip. Qed.
Print Assumptions C10_energy_roundtrip.

(* ... and exactly the in-memory energy when all coefficients and the constant are multiples of 1/100. *)
Theorem C10_exact_on_hundredths : forall (p : problem) (v : nat -> Z),
  (p_ising p = true -> forall i, (i < p_n p)%nat -> (p_mat p i i == 0)%Q) ->
  (forall i j, (i < p_n p)%nat -> (j < p_n p)%nat -> hundredth (p_mat p i j)) ->
  (p_ising p = true -> forall i, (i < p_n p)%nat -> hundredth (p_h p i)) ->
  hundredth (p_const p) ->
  (inject_Z (energy_loaded (p_ising p) (load_entries (export_entries p)) v) / 100 == energy_q p v)%Q.
Proof.
  intros p v Hd HM Hh Hc. rewrite (energy_roundtrip p v Hd). apply energy_rounded_exact; assumption.
Qed.
Print Assumptions C10_exact_on_hundredths.

(* In general each written number is within half a hundredth of the coefficient it stands for. *)
Theorem C10_rounding_error : forall q : Q, (Qabs (q - inject_Z (round2 q) / 100) <= 1 # 200)%Q.
Proof. exact round2_error. Qed.
Print Assumptions C10_rounding_error.

(* get_Ising_J_h on a loaded matrix: h is its diagonal, J the rest with a zero diagonal. *)
Theorem C10_split : forall (M : nat -> nat -> Z) (i j : nat),
  split_h M i = M i i /\ split_J M i i = 0 /\ (i <> j -> split_J M i j = M i j).
Proof.
  intros M i j. unfold split_h, split_J. rewrite Nat.eqb_refl. split; [reflexivity|]. split; [reflexivity|].
  intros H. destruct (Nat.eqb_spec i j); [contradiction | reflexivity].
Qed.
Print Assumptions C10_split.

(* ---------------- text level ---------------- *)
Section Text.
Import String Ascii.
Local Open Scope string_scope.

(* Printing then parsing: int(f"{k:d}") = k; float() of what '.2f' prints for q (with or without the
   space flag, whatever blanks follow: the newline kept by readlines) is q rounded, in hundredths; the
   sign slot carries the sign of the value itself, so a small negative value prints as -0.00 and reads
   back as 0. *)
Theorem C10_print_parse :
  (forall k : nat, parse_nat (print_nat k) = Some k) /\
  (forall (neg space : bool) (z : Z) (t : string), 0 <= z -> all_ws t = true ->
     parse_dec2 (print_dec2 neg space z ++ t) = Some (if neg then - z else z)) /\
  (forall (space : bool) (q : Q) (t : string), all_ws t = true ->
     parse_dec2 (fmt2 space q ++ t) = Some (round2 q)).
Proof.
  split; [exact parse_print_nat|]. split; [intros; apply parse_print_dec2_t; assumption|].
  intros; apply parse_fmt2_t; assumption.
Qed.
Print Assumptions C10_print_parse.

(* line.split() of a record line gives the two printed indices and the value field, whose float() is
   the rounded value; the line starts with a digit. *)
Theorem C10_record_line : forall (i j : nat) (q : Q),
  (exists w, split_ws (record_line i j q) = [print_nat i; print_nat j; w] /\ parse_dec2 w = Some (round2 q)) /\
  (exists c r, record_line i j q = String c r /\ digitc c = true).
Proof. intros. split; [apply split_ws_record | apply record_line_head]. Qed.
Print Assumptions C10_record_line.

(* One pass of the loader's loop body (any comment character cc that is not a digit: '#' and 'c' are
   not): a record line appends (i, j, rounded value); the constant line sets the constant (it is the
   only line of the file with '='); a comment line without '=' changes nothing. *)
Theorem C10_load_line : forall (cc : ascii) (st : lstate),
  (forall i j q, digitc cc = false ->
     load_line cc st (record_line i j q) = Ok (mkL (l_entries st ++ [(i, j, round2 q)])%list (l_const st) (l_matlen st))) /\
  (forall q, load_line cc st (const_line q) = Ok (mkL (l_entries st) (round2 q) (l_matlen st))) /\
  (forall r, sall (not_char "=") r = true -> load_line cc st (String "#" r) = Ok st).
Proof.
  intros cc st. split; [intros; apply load_line_record; assumption|].
  split; [intros; apply load_line_const | intros; apply load_line_comment; assumption].
Qed.
Print Assumptions C10_load_line.

(* The lines of the file are the header comments and the printed records of the record-level export,
   in the same order. *)
Theorem C10_text_is_records : forall p : problem,
  export_text p = (const_line (p_const p) :: "# Diagonal terms" :: map raw_line (raw_diag p) ++
                   "# Off-Diagonal terms" :: map raw_line (raw_off p))%list /\
  export_entries p = (round2 (p_const p), map raw_entry (raw_diag p ++ raw_off p)%list).
Proof.
  intros p. split; [apply export_text_raw|].
  rewrite <- export_entries_raw. reflexivity.
Qed.
Print Assumptions C10_text_is_records.

(* C10_roundtrip lifted to the lines of the file: load_matrix run on the timestamp comment (any text ts
   without '=') followed by the lines written by export returns what load_entries returns on
   export_entries; with C10_roundtrip / C10_energy_roundtrip this is the round trip through text. *)
Theorem C10_roundtrip_text : forall (ising : bool) (ts : string) (p : problem),
  sall (not_char "=") ts = true ->
  load_text (comment_char ising) (String "#" ts :: export_text p) = Ok (load_entries (export_entries p)).
Proof. intros ising ts p H. apply load_export_text; [destruct ising; reflexivity | exact H]. Qed.
Print Assumptions C10_roundtrip_text.

(* ... and to the bytes: the lines joined by newlines (no newline at the end), cut again by readlines()
   (newline kept at the end of every line but the last), then load_matrix. *)
Theorem C10_roundtrip_bytes : forall (ising : bool) (ts : string) (p : problem),
  sall (not_char "=") ts = true -> sall (not_char nl) ts = true ->
  load_bytes (comment_char ising) (export_bytes ts p) = Ok (load_entries (export_entries p)).
Proof. intros ising ts p H1 H2. apply load_export_bytes; [destruct ising; reflexivity | exact H1 | exact H2]. Qed.
Print Assumptions C10_roundtrip_bytes.

Example C10_text_example :
  let p := problem_of true 3 [[0; 33 # 32; 0]; [0; 0; 35 # 32]; [0; 0; 0]]%Q [-(49 # 32); -(21 # 8); -(1 # 256)]%Q (-(1 # 512))%Q in
  export_text p = ["# Constant term of objective = -0.00"; "# Diagonal terms"; "0 0 -1.53"; "1 1 -2.62"; "2 2 -0.00";
                   "# Off-Diagonal terms"; "0 1  1.03"; "1 2  1.09"] /\
  sall (not_char "=") " Generated 2026-09-29 16:02:12.442343" = true /\
  sall (not_char nl) " Generated 2026-09-29 16:02:12.442343" = true.
Proof. vm_compute. repeat split; reflexivity. Qed.
End Text.

(* Non-vacuity: the Ising problem of Q = [[1,4,0],[1/8,1,4],[0,3/8,-2]], c = 1/8 (upper-triangular
   container): J = [[0,33/32,0],[0,0,35/32],[0,0,0]], h = (-49/32, -21/8, -3/32), constant 9/4. *)
Example C10_example :
  let p := problem_of true 3 [[0; 33 # 32; 0]; [0; 0; 35 # 32]; [0; 0; 0]]%Q [-(49 # 32); -(21 # 8); -(3 # 32)]%Q (9 # 4)%Q in
  export_entries p = (225, [(0%nat, 0%nat, -153); (1%nat, 1%nat, -262); (2%nat, 2%nat, -9); (0%nat, 1%nat, 103); (1%nat, 2%nat, 109)]) /\
  (let '(m, M, k) := load_entries (export_entries p) in (m, dense_of m M, k)) =
    (3%nat, [[-153; 103; 0]; [0; -262; 109]; [0; 0; -9]], 225) /\
  (forall i, (i < 3)%nat -> (p_mat p i i == 0)%Q) /\
  map round2 [1 # 8; 3 # 8; -(1 # 8); 1 # 256; -(1 # 256)]%Q = [12; 38; -12; 0; 0].
Proof.
  vm_compute. split; [reflexivity|]. split; [reflexivity|]. split; [|reflexivity].
  intros i Hi. destruct i as [|[|[|i]]]; try reflexivity. exfalso. lia.
Qed.

(* The DESIGN counterexample of the original loader (last variable only as a column) now loads:
   J = [[0,1,0],[0,0,1],[0,0,0]], h = (-3/2,-9/4,0): 3 variables although the largest row index is 1. *)
Example C10_last_field_zero :
  let p := problem_of true 3 [[0; 1; 0]; [0; 0; 1]; [0; 0; 0]]%Q [-(3 # 2); -(9 # 4); 0]%Q (9 # 4)%Q in
  map (fun e => (e_row e, e_col e)) (snd (export_entries p)) = [(0, 0); (1, 1); (0, 1); (1, 2)]%nat /\
  fst (fst (load_entries (export_entries p))) = 3%nat.
Proof. vm_compute. split; reflexivity. Qed.
