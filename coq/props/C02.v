(* C02 -- Penalty QUBO = objective + rho * (|Ax-b|^2 + x'Rx).
   Property theorems only; proofs live in theories/Penalty_facts.v.
   The model get_qubo / get_qubo_checked (theories/Penalty.v) takes the constraint and objective
   data (n, m, A, b, R, r, c, Qo) that the formulation objects report as inputs. *)
From Coq Require Import ZArith QArith Qcanon Reals List.
From VQ Require Import Base LinAlg Penalty Penalty_facts.
Import ListNotations.

(* For every commutative ring, all sizes n m, all data A b R c Qo, every penalty weight rho, both
   modes and every binary x:   x'Qx + k = [c'x + x'Qo x] + rho * (|Ax-b|^2 + x'Rx)
   where (Q, k) is what get_qubo assembles (the objective term is absent in feasibility mode). *)
Theorem C02_identity :
  forall (K : Type) (k0 k1 : K) (kadd kmul ksub : K -> K -> K) (kopp : K -> K),
    ring_theory k0 k1 kadd kmul ksub kopp eq ->
    forall (n m : nat) (A : mat K) (b : vec K) (R : mat K) (c : vec K) (Qo : mat K) (rho : K)
           (feas : bool) (x : vec K),
      binary K k0 k1 n x ->
      let Qk := get_qubo K k0 k1 kadd kmul kopp m feas rho (A, b, R) (c, Qo) in
      kadd (qf K k0 kadd kmul n (fst Qk) x) (snd Qk) =
      kadd (if feas then k0 else kadd (dot K k0 kadd kmul n c x) (qf K k0 kadd kmul n Qo x))
           (kmul rho (kadd (resid_sq K k0 kadd kmul ksub m n A b x) (qf K k0 kadd kmul n R x))).
Proof. exact get_qubo_identity_expanded. Qed.
Print Assumptions C02_identity.

(* the three carriers used in this development: integers, canonical rationals (the carrier the
   correspondence evaluates), real numbers (the "all real matrices" claim) *)
Theorem C02_identity_Z :
  forall (n m : nat) (A : mat Z) (b : vec Z) (R : mat Z) (c : vec Z) (Qo : mat Z) (rho : Z)
         (feas : bool) (x : vec Z),
    Zbinary n x ->
    let Qk := Zget_qubo m feas rho (A, b, R) (c, Qo) in
    (Zqf n (fst Qk) x + snd Qk =
     (if feas then 0 else Zdot n c x + Zqf n Qo x)
     + rho * (resid_sq Z 0 Z.add Z.mul Z.sub m n A b x + Zqf n R x))%Z.
Proof. exact (C02_identity Z 0%Z 1%Z Z.add Z.mul Z.sub Z.opp Zth). Qed.
Print Assumptions C02_identity_Z.

Theorem C02_identity_Qc :
  forall (n m : nat) (A : mat Qc) (b : vec Qc) (R : mat Qc) (c : vec Qc) (Qo : mat Qc) (rho : Qc)
         (feas : bool) (x : vec Qc),
    binary Qc Qc0 Qc1 n x ->
    let Qk := Qcget_qubo m feas rho (A, b, R) (c, Qo) in
    (qf Qc Qc0 Qcplus Qcmult n (fst Qk) x + snd Qk =
     (if feas then Qc0 else dot Qc Qc0 Qcplus Qcmult n c x + qf Qc Qc0 Qcplus Qcmult n Qo x)
     + rho * (resid_sq Qc Qc0 Qcplus Qcmult Qcminus m n A b x + qf Qc Qc0 Qcplus Qcmult n R x))%Qc.
Proof. exact (C02_identity Qc (Q2Qc 0) 1%Qc Qcplus Qcmult Qcminus Qcopp Qcrt). Qed.
Print Assumptions C02_identity_Qc.

Theorem C02_identity_R :
  forall (n m : nat) (A : mat R) (b : vec R) (Rq : mat R) (c : vec R) (Qo : mat R) (rho : R)
         (feas : bool) (x : vec R),
    binary R 0%R 1%R n x ->
    let Qk := get_qubo R 0%R 1%R Rplus Rmult Ropp m feas rho (A, b, Rq) (c, Qo) in
    (qf R 0 Rplus Rmult n (fst Qk) x + snd Qk =
     (if feas then 0 else dot R 0 Rplus Rmult n c x + qf R 0 Rplus Rmult n Qo x)
     + rho * (resid_sq R 0 Rplus Rmult Rminus m n A b x + qf R 0 Rplus Rmult n Rq x))%R.
Proof. exact (C02_identity R 0%R 1%R Rplus Rmult Rminus Ropp RTheory). Qed.
Print Assumptions C02_identity_R.

(* Dimension clause.  If the data are reported with the shapes a model with n variables must
   report (A is len(b) x n, R and Qo are n x n, len(c) = n) and r_eq = 0, then get_qubo succeeds, in
   both modes and for every rho, with an n x n matrix whose entries and constant are those of
   get_qubo. *)
Theorem C02_dims_ok :
  forall (K : Type) (k0 k1 : K) (kadd kmul : K -> K -> K) (kopp : K -> K) (keqb : K -> K -> bool),
    (forall a b : K, keqb a b = true <-> a = b) ->
    forall (n : nat) (feas : bool) (rho : K) (d : qdata K),
      dr d = k0 -> shapes_consistent K n d ->
      exists (Q : list (list K)) (k : K),
        get_qubo_checked K k0 k1 kadd kmul kopp keqb feas rho d = Ok (n, Q, k) /\
        length Q = n /\ (forall row, In row Q -> length row = n) /\
        (let Qk := get_qubo K k0 k1 kadd kmul kopp (length (db d)) feas rho
                     (mat_of K k0 (dA d), vec_of K k0 (db d), mat_of K k0 (dR d))
                     (vec_of K k0 (dc d), mat_of K k0 (dQo d)) in
         k = snd Qk /\
         forall i j, (i < n)%nat -> (j < n)%nat -> mat_of K k0 Q i j = fst Qk i j).
Proof. exact checked_ok. Qed.
Print Assumptions C02_dims_ok.

(* Conversely: get_qubo raises exactly when r_eq <> 0, or A has not len(b) rows, or R is not
   cols(A) x cols(A), or (optimisation mode only) Qo is not len(c) x len(c) or len(c) <> cols(A);
   and the exception is always ValueError. *)
Theorem C02_dims_fail_iff :
  forall (K : Type) (k0 k1 : K) (kadd kmul : K -> K -> K) (kopp : K -> K) (keqb : K -> K -> bool),
    (forall a b : K, keqb a b = true <-> a = b) ->
    forall (feas : bool) (rho : K) (d : qdata K),
      ((exists e, get_qubo_checked K k0 k1 kadd kmul kopp keqb feas rho d = Err e) <->
       (dr d <> k0 \/ fst (dA_shape d) <> length (db d) \/
        dR_shape d <> (snd (dA_shape d), snd (dA_shape d)) \/
        (feas = false /\ (dQo_shape d <> (length (dc d), length (dc d)) \/
                          length (dc d) <> snd (dA_shape d))))) /\
      (forall e, get_qubo_checked K k0 k1 kadd kmul kopp keqb feas rho d = Err e -> e = ValueError).
Proof.
  intros K k0 k1 kadd kmul kopp keqb Heq feas rho d. split.
  - exact (checked_err_iff K k0 k1 kadd kmul kopp keqb Heq feas rho d).
  - intros e. exact (checked_err_class K k0 k1 kadd kmul kopp keqb feas rho d e).
Qed.
Print Assumptions C02_dims_fail_iff.

(* Default rule: penalty_parameter None -> sufficient + 1 (sufficient = 0 in feasibility mode, the
   formulation's S otherwise); a user value is used as it is (including 0 and values below S). *)
Theorem C02_default_rho :
  forall (K : Type) (k0 k1 : K) (kadd : K -> K -> K) (feas : bool) (S r : K),
    choose_rho K k0 k1 kadd feas S None = kadd (if feas then k0 else S) k1 /\
    choose_rho K k0 k1 kadd feas S (Some r) = r.
Proof. intros. split; reflexivity. Qed.
Print Assumptions C02_default_rho.

(* Non-vacuity: 2 variables, one constraint x0 + x1 = 1, R = e0 e1', c = (3,-2), Qo = 5 e0 e1',
   rho = 7.  The reported shapes are consistent, the builder returns a 2x2 matrix, and at the binary
   vector x = (1,1) both sides of the identity are 20 = (3 - 2 + 5) + 7 * (1 + 1). *)
Definition ex_d : qdata Z :=
  mkQdata [[1; 1]]%Z (1, 2)%nat [1]%Z [[0; 1]; [0; 0]]%Z (2, 2)%nat 0%Z
          [3; -2]%Z [[0; 5]; [0; 0]]%Z (2, 2)%nat.

Example C02_example_ok :
  shapes_consistent Z 2 ex_d /\
  Zget_qubo_checked false 7%Z ex_d = Ok (2%nat, [[-4; 19]; [7; -9]]%Z, 7%Z) /\
  Zbinary 2 (Zvec_of [1; 1]%Z) /\
  (Zqf 2 (Zmat_of [[-4; 19]; [7; -9]]%Z) (Zvec_of [1; 1]%Z) + 7 = 20)%Z /\
  (Zobjective 2 (Zvec_of [3; -2]) (Zmat_of [[0; 5]; [0; 0]]) (Zvec_of [1; 1])
   + 7 * Zpenalty 1 2 (Zmat_of [[1; 1]]) (Zvec_of [1]) (Zmat_of [[0; 1]; [0; 0]]) (Zvec_of [1; 1]) = 20)%Z.
Proof.
  split; [repeat split|]. split; [vm_compute; reflexivity|]. split.
  - intros i Hi. destruct i as [|[|i]]; [right; reflexivity | right; reflexivity | exfalso; inversion Hi as [|? H1]; inversion H1 as [|? H2]; inversion H2].
  - split; vm_compute; reflexivity.
Qed.

(* a matrix A that lost its last (empty) column, as scipy infers it without shape= : ValueError *)
Example C02_example_err :
  Zget_qubo_checked false 7%Z
    (mkQdata [[1]]%Z (1, 1)%nat [1]%Z [[0; 1]; [0; 0]]%Z (2, 2)%nat 0%Z
             [3; -2]%Z [[0; 5]; [0; 0]]%Z (2, 2)%nat) = Err ValueError.
Proof. vm_compute. reflexivity. Qed.
