(* C05 -- the arc-based constraints describe exactly the time-feasible route sets.
   Property theorems only; proofs live in theories/Arc_facts.v.

   I = (graph, grid); `vars I` = var_mapping, `A_dense I` / `rhs I` = the dense meaning of the COO
   constraint matrix and right-hand side built by build_constraints_quicker (duplicates summed),
   `objective I` = build_objective, `get_routes I x` = get_routes.  A vector x is a list of integers
   of length num_variables; `selected I x` are the tuples whose entry is non-zero, in index order. *)
From Coq Require Import Sorting.Permutation.
From VQ Require Import Base Vrptw Vrptw_facts Arc Arc_ref Arc_facts Arc_routes Arc_complete.

(* 1. the variables are exactly the admissible moves (shared with C18) *)
Theorem C05_vars_admissible :
  forall I i s j t,
    In (i, s, j, t) (vars I) <->
    exists a, dict_get (i, j) (arcs (ig I)) = Some a /\
              In s (igrid I) /\ In t (igrid I) /\
              win_lo (ig I) i <= s /\ ext_le (Fin s) (win_hi (ig I) i) /\
              win_lo (ig I) j <= t /\ ext_le (Fin t) (win_hi (ig I) j) /\
              s + att a <= t.
Proof. intros I i s j t. exact (vars_exact I (i, s, j, t)). Qed.
Print Assumptions C05_vars_admissible.

(* 2. local form: for a binary x, A x = b iff every customer j (node positions 1 .. #nodes-1) has
   exactly one selected move into it, exactly one selected move out of it, and both happen at the
   same time t:
     cnt (into_node j)  = number of selected (i,s,j',t') with j' = j
     cnt (into (j,t))   = number of selected (i,s,j',t') with (j',t') = (j,t)
     cnt (outof_node j) = number of selected (i',s',_,_) with i' = j
     cnt (outof (j,t))  = number of selected (i',s',_,_) with (i',s') = (j,t) *)
Theorem C05_local :
  forall I x, NoDup (igrid I) -> length x = num_variables I -> binary x ->
    (Ax I x = rhs I <->
     forall j, (1 <= j < length (nodes (ig I)))%nat ->
       exists t, cnt (into_node j) (selected I x) = 1%nat /\ cnt (into (j, t)) (selected I x) = 1%nat /\
                 cnt (outof_node j) (selected I x) = 1%nat /\ cnt (outof (j, t)) (selected I x) = 1%nat).
Proof. exact local_iff. Qed.
Print Assumptions C05_local.

(* the shape of the system: one row per entry of b, one column per variable *)
Theorem C05_shape :
  forall I x, length (A_dense I) = length (rhs I) /\
              Forall (fun row => length row = num_variables I) (A_dense I) /\
              length (Ax I x) = length (rhs I) /\ length (objective I) = num_variables I.
Proof.
  intros I x. unfold A_dense, A_shape, objective; simpl. repeat split.
  - rewrite map_length, seq_length. reflexivity.
  - apply Forall_forall. intros row Hin. apply in_map_iff in Hin. destruct Hin as (r & <- & _).
    rewrite map_length, seq_length. reflexivity.
  - apply Ax_length.
  - rewrite map_length, seq_length. reflexivity.
Qed.
Print Assumptions C05_shape.

(* 4. objective: c . x is the summed cost of the arcs of the selected moves *)
Theorem C05_objective :
  forall I x, length x = num_variables I -> binary x ->
    obj_value I x = sumz (map (fun v => acost (arc_at (ig I) (onode v) (dnode v))) (selected I x)).
Proof. exact objective_selected. Qed.
Print Assumptions C05_objective.

(* 3. soundness.  Hypotheses: the graph is one the VRPTW class can reach (Vrptw_facts.Inv, C15), grid
   values pairwise distinct, customer-to-customer travel times positive (pos_cc).
     sroute r  :=  r is a non-empty chain of moves (dest of each = orig of the next, node AND time), its
                   first move leaves node 0, its last move ends at node 0, no earlier move ends at node 0;
     valid_move := the admissibility predicate of C05_vars_admissible (existing arc, grid times inside the
                   windows, arrival >= departure + travel time).
   If A x = b then the selected moves are, up to order, the concatenation of such routes, and every
   customer is entered exactly once overall. *)
Theorem C05_sound :
  forall I x, Inv (ig I) -> NoDup (igrid I) -> pos_cc I ->
    length x = num_variables I -> binary x -> Ax I x = rhs I ->
    exists routes : list (list var),
      Permutation (selected I x) (concat routes) /\ Forall sroute routes /\
      Forall (valid_move I) (concat routes) /\
      forall j, (1 <= j < length (nodes (ig I)))%nat -> cnt (into_node j) (concat routes) = 1%nat.
Proof.
  intros I x HI Hg Hpos Hl Hb HA. apply sound_of_local; auto using Inv_wf.
  apply local_iff; auto.
Qed.
Print Assumptions C05_sound.

(* ... and conversely (no positivity needed): a vector whose selected moves split into depot-to-depot
   chains (`walk`: first move leaves node 0, last move ends at node 0; sroute implies walk) that enter
   every customer exactly once satisfies the constraints. *)
Theorem C05_routes_feasible :
  forall I x routes, NoDup (igrid I) -> length x = num_variables I -> binary x ->
    Permutation (selected I x) (concat routes) -> Forall walk routes ->
    (forall j, (1 <= j < length (nodes (ig I)))%nat -> cnt (into_node j) (concat routes) = 1%nat) ->
    Ax I x = rhs I.
Proof.
  intros I x routes Hg Hl Hb Hp Hw Hc. apply local_iff; auto. eapply local_of_walks; eauto.
Qed.
Print Assumptions C05_routes_feasible.

Theorem C05_sroute_is_walk : forall r, sroute r -> walk r.
Proof. exact sroute_walk. Qed.
Print Assumptions C05_sroute_is_walk.

(* 5. decoding.  get_routes succeeds on every feasible binary vector (with or without customers; nothing
   selected -> no routes, see C05_decode_without_customer) and returns the (node, time) lists  route_of ms = origins of the moves of ms, then the destination of
   the last one,  of depot-to-depot chains `mss` that use every selected move exactly once.
   get_routes keeps following a chain THROUGH the depot when another selected move leaves the depot at
   exactly the arrival time, so a returned list may pass through node 0 (it is a `walk`, not always an
   `sroute`); cutting the walks after every move that ends at node 0 (split_depot) gives the routes of
   C05_sound.  The order of the returned routes is part of the model (compared with the
   implementation) but not of this statement. *)
Theorem C05_decode :
  forall I x, Inv (ig I) -> NoDup (igrid I) -> pos_cc I ->
    length x = num_variables I -> binary x -> Ax I x = rhs I ->
    exists mss : list (list var),
      get_routes I x = Ok (map route_of mss) /\
      Permutation (selected I x) (concat mss) /\ Forall walk mss /\
      Forall sroute (flat_map split_depot mss) /\ concat (flat_map split_depot mss) = concat mss.
Proof.
  intros I x HI Hg Hpos Hl Hb HA.
  destruct (decode_of_local I (Inv_wf _ HI) Hpos x Hl) as (mss & E & Hp & Hw).
  - apply local_iff; auto.
  - exists mss. repeat split; auto.
    + apply Forall_forall. intros r Hr. apply in_flat_map in Hr. destruct Hr as (ms & Hms & Hr).
      rewrite Forall_forall in Hw. pose proof (split_depot_walk ms (Hw ms Hms)) as Hs.
      rewrite Forall_forall in Hs. apply Hs; exact Hr.
    + apply concat_flat_map_split.
Qed.
Print Assumptions C05_decode.

(* An empty selection decodes to no routes when there is no customer, and fails the visit assertion when
   there is one (the early return added by /repo 101dd02; before it np.lexsort raised TypeError). *)
Theorem C05_decode_empty_selection :
  forall I x, length x = num_variables I -> selected I x = [] ->
    get_routes I x = if Nat.leb (length (nodes (ig I))) 1 then Ok [] else Err AssertionError.
Proof. exact get_routes_empty. Qed.
Print Assumptions C05_decode_empty_selection.

(* the customer-free case of C05_decode on a concrete instance: depot only with a depot self-arc; the
   all-zero vector is binary and feasible (A has no rows) and decodes to the empty route set; selecting a
   depot self-move decodes to that one-move route.  Replayed on the implementation by harness/props/c05.py. *)
Definition depot_only : inst :=
  mkInst (mkGraph [10]%nat [mkNode 10 0 0 PInf] [((0, 0)%nat, mkArc 10 10 0 1)]) [1; 0].
Example C05_decode_without_customer :
  Inv (ig depot_only) /\ NoDup (igrid depot_only) /\ pos_cc depot_only /\
  length [0; 0; 0] = num_variables depot_only /\ binary [0; 0; 0] /\
  Ax depot_only [0; 0; 0] = rhs depot_only /\
  get_routes depot_only [0; 0; 0] = Ok [] /\
  get_routes depot_only [0; 1; 0] = Ok [[(0%nat, 0); (0%nat, 1)]].
Proof.
  split.
  { change (ig depot_only) with (run Base [OpAddNode 10 0 0 PInf; OpAddArc 10 10 0 1] empty_graph).
    apply run_inv. exact Inv_empty. }
  split; [repeat constructor; simpl; intuition discriminate|].
  split.
  { intros i j a H Hi Hj. simpl in H. destruct i as [|i]; [congruence|]. destruct j; simpl in H; discriminate. }
  split; [vm_compute; reflexivity|].
  split; [repeat constructor; auto|].
  vm_compute. repeat split; reflexivity.
Qed.

(* Positive customer-to-customer travel times are needed for C05_sound: with a zero-time cycle
   1 -> 2 -> 1 at time 1 the vector selecting just these two moves satisfies A x = b, yet no selected
   move leaves the depot (and get_routes returns a closed walk that never visits the depot). *)
Definition cyc_inst : inst :=
  mkInst (mkGraph [10; 11; 12]%nat [mkNode 10 0 0 PInf; mkNode 11 1 0 (Fin 2); mkNode 12 1 0 (Fin 2)]
                  [((1, 2)%nat, mkArc 11 12 0 1); ((2, 1)%nat, mkArc 12 11 0 1)]) [1].
Example C05_sound_needs_positive_travel :
  vars cyc_inst = [(1%nat, 1, 2%nat, 1); (2%nat, 1, 1%nat, 1)] /\
  Ax cyc_inst [1; 1] = rhs cyc_inst /\ get_routes cyc_inst [1; 1] = Ok [[(1%nat, 1); (2%nat, 1); (1%nat, 1)]].
Proof. vm_compute. repeat split; reflexivity. Qed.

(* get_routes merges two routes when one returns to the depot at the time the other leaves it:
   0@0 -> 1@1 -> 0@2 and 0@2 -> 2@3 -> 0@4 are returned as one list. *)
Definition merge_inst : inst :=
  mkInst (mkGraph [10; 11; 12]%nat [mkNode 10 0 0 PInf; mkNode 11 1 1 (Fin 3); mkNode 12 1 1 (Fin 9)]
                  [((0, 1)%nat, mkArc 10 11 1 5); ((1, 0)%nat, mkArc 11 10 1 7);
                   ((0, 2)%nat, mkArc 10 12 1 1); ((2, 0)%nat, mkArc 12 10 1 1)]) [0; 1; 2; 3; 4].
Definition merge_x : list Z :=
  map (fun v => if existsb (var_eqb v) [(0%nat, 0, 1%nat, 1); (1%nat, 1, 0%nat, 2); (0%nat, 2, 2%nat, 3); (2%nat, 3, 0%nat, 4)]
                then 1 else 0) (vars merge_inst).
Example C05_decode_merges_routes_through_depot :
  Ax merge_inst merge_x = rhs merge_inst /\
  get_routes merge_inst merge_x = Ok [[(0%nat, 0); (1%nat, 1); (0%nat, 2); (2%nat, 3); (0%nat, 4)]].
Proof. vm_compute. split; reflexivity. Qed.

(* 6. completeness with respect to the VRPTW of the doc (section 2).  Reference semantics
   (Arc_ref.v): for a customer sequence cs,  vrptw_route g cs = Some [(0,0); (c1,T1); ...; (cK,TK); (0,Te)]
   iff every consecutive pair is an arc, T_0 = 0, T_{k+1} = max(a_{k+1}, T_k + t_{k,k+1}) and T_k <= b_k for
   every k including the return to the depot;  route_cost g 0 (cs ++ [0]) is the summed arc cost.
   A plan is a list of (cs, visits).  If every route of the plan is non-empty and valid, every visit time is
   a grid point, the routes together contain every customer 1 .. #nodes-1 exactly once, and time 0 lies in
   the depot window, then the indicator vector of the moves (i_k, T_k, i_{k+1}, T_{k+1}) is binary, has the
   right length, satisfies A x = b, costs the summed route costs, and selects exactly those moves.
   (Capacity is not part of the arc-based model, hence "VRPTW without capacity".) *)
Theorem C05_complete :
  forall I (plan : list (list nat * list nt)),
    NoDup (igrid I) -> NoDup (map fst (arcs (ig I))) ->
    Forall (fun p => fst p <> [] /\ vrptw_route (ig I) (fst p) = Some (snd p) /\
                     (forall q, In q (snd p) -> In (snd q) (igrid I))) plan ->
    Permutation (concat (map fst plan)) (seq 1 (length (nodes (ig I)) - 1)) ->
    win_lo (ig I) 0 <= 0 /\ ext_le (Fin 0) (win_hi (ig I) 0) ->
    let x := indicator I (flat_map (fun p => moves_of (snd p)) plan) in
    binary x /\ length x = num_variables I /\ Ax I x = rhs I /\
    obj_value I x = sumz (map (fun p => route_cost (ig I) 0 (fst p ++ [0%nat])) plan) /\
    Permutation (selected I x) (flat_map (fun p => moves_of (snd p)) plan).
Proof.
  intros I plan Hg Hk Hp Hc Hd x. repeat split.
  - apply plan_x_binary.
  - apply plan_x_length.
  - apply plan_feasible; assumption.
  - apply plan_objective; assumption.
  - apply plan_selected; assumption.
Qed.
Print Assumptions C05_complete.

(* 7. projection (the converse half of the equivalence with the VRPTW): if the depot window starts at or
   after 0, every route of C05_sound is, as the customer sequence  map dnode (removelast r),  a valid route of
   the VRPTW with the same cost, and the VRPTW's earliest service times are no later than the times chosen
   by the arc model.  Together with C05_sound (A x = b -> routes) and C05_complete (routes on the grid ->
   A x = b, same cost) the sets {cost of a feasible x} and {cost of a VRPTW route plan whose times are on the
   grid} coincide, hence so do feasibility and the optimal cost when the grid contains every attainable
   service time. *)
Theorem C05_project :
  forall I r, sroute r -> Forall (valid_move I) r -> 0 <= win_lo (ig I) 0 ->
    exists vs, vrptw_route (ig I) (map dnode (removelast r)) = Some ((0%nat, 0) :: vs) /\
               route_cost (ig I) 0 (map dnode (removelast r) ++ [0%nat]) =
               sumz (map (fun v => acost (arc_at (ig I) (onode v) (dnode v))) r) /\
               Forall2 (fun q m => fst q = dnode m /\ snd q <= arr m) vs r.
Proof. exact project_route. Qed.
Print Assumptions C05_project.

(* Non-vacuity: depot 0 (0, inf), customers 1 (1,3) and 2 (3,5); arcs 0->1 (1), 1->2 (2), 2->0 (0) and a
   depot self-arc; UNSORTED grid.  The vector selecting (0,0,1,1), (1,1,2,3), (2,3,0,3) is binary,
   satisfies A x = b, costs 1 + 1 + 1 and decodes to the single route 0@0 -> 1@1 -> 2@3 -> 0@3. *)
Definition ex_graph : graph :=
  mkGraph [10; 11; 12]%nat [mkNode 10 0 0 PInf; mkNode 11 1 1 (Fin 3); mkNode 12 1 3 (Fin 5)]
          [((0, 1)%nat, mkArc 10 11 1 1); ((1, 2)%nat, mkArc 11 12 2 1); ((2, 0)%nat, mkArc 12 10 0 1);
           ((0, 0)%nat, mkArc 10 10 0 0)].
Definition ex_inst : inst := mkInst ex_graph [6; 5; 3; 1; 0].
Definition ex_x : list Z :=
  map (fun v => if var_eqb v (0%nat, 0, 1%nat, 1) || var_eqb v (1%nat, 1, 2%nat, 3) || var_eqb v (2%nat, 3, 0%nat, 3)
                then 1 else 0) (vars ex_inst).

Example C05_example :
  NoDup (igrid ex_inst) /\ length ex_x = num_variables ex_inst /\ binary ex_x /\
  num_variables ex_inst = 26%nat /\
  Ax ex_inst ex_x = rhs ex_inst /\ obj_value ex_inst ex_x = 3 /\
  get_routes ex_inst ex_x = Ok [[(0%nat, 0); (1%nat, 1); (2%nat, 3); (0%nat, 3)]].
Proof.
  split; [repeat constructor; simpl; intuition discriminate|].
  split; [vm_compute; reflexivity|].
  split; [unfold binary; vm_compute;
          repeat (apply Forall_cons; [first [left; reflexivity | right; reflexivity]|]); apply Forall_nil|].
  vm_compute. repeat split; reflexivity.
Qed.

(* the hypotheses of C05_sound / C05_decode / C05_complete hold on this instance; the plan is the single
   route 0 -> 1 -> 2 -> 0 with earliest times 0, 1, 3, 3, and its indicator vector is ex_x *)
Example C05_example_hypotheses :
  Inv (ig ex_inst) /\ pos_cc ex_inst /\
  NoDup (map fst (arcs (ig ex_inst))) /\
  vrptw_route (ig ex_inst) [1; 2]%nat = Some [(0%nat, 0); (1%nat, 1); (2%nat, 3); (0%nat, 3)] /\
  indicator ex_inst (moves_of [(0%nat, 0); (1%nat, 1); (2%nat, 3); (0%nat, 3)]) = ex_x /\
  route_cost (ig ex_inst) 0 [1; 2; 0]%nat = 3.
Proof.
  split.
  { change (ig ex_inst) with (run Base [OpAddNode 10 0 0 PInf; OpAddNode 11 1 1 (Fin 3); OpAddNode 12 1 3 (Fin 5);
                                        OpAddArc 10 11 1 1; OpAddArc 11 12 2 1; OpAddArc 12 10 0 1; OpAddArc 10 10 0 0]
                                   empty_graph).
    apply run_inv. exact Inv_empty. }
  split.
  { intros i j a H Hi Hj. simpl in H.
    destruct i as [|[|[|i]]], j as [|[|[|j]]]; simpl in H; try discriminate; try congruence;
      inversion H; subst; simpl; lia. }
  split; [repeat constructor; simpl; intuition discriminate|].
  vm_compute. repeat split; reflexivity.
Qed.
