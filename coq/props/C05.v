(* C05 -- the arc-based constraints describe exactly the time-feasible route sets.
   Property theorems only; proofs live in theories/Arc_facts.v.

   I = (graph, grid); `vars I` = var_mapping, `A_dense I` / `rhs I` = the dense meaning of the COO
   constraint matrix and right-hand side built by build_constraints_quicker (duplicates summed),
   `objective I` = build_objective, `get_routes I x` = get_routes.  A vector x is a list of integers
   of length num_variables; `selected I x` are the tuples whose entry is non-zero, in index order. *)
From VQ Require Import Base Vrptw Vrptw_facts Arc Arc_facts.

(* 1. the variables are exactly the admissible moves (shared with C18) *)
Theorem C05_vars_admissible :
  forall I i s j t,
    In (i, s, j, t) (vars I) <->
    exists a, dict_get (i, j) (arcs (ig I)) = Some a /\
              In s (igrid I) /\ In t (igrid I) /\
              win_lo (ig I) i <= s /\ ext_le (Fin s) (win_hi (ig I) i) /\
              win_lo (ig I) j <= t /\ ext_le (Fin t) (win_hi (ig I) j) /\
              s + att a <= t.
Proof. intros I i s j t. exact (vars_exact I (i, s, j, t)). Qed.
Print Assumptions C05_vars_admissible.

(* 2. local form: for a binary x, A x = b iff every customer j (node positions 1 .. #nodes-1) has
   exactly one selected move into it, exactly one selected move out of it, and both happen at the
   same time t:
     cnt (into_node j)  = number of selected (i,s,j',t') with j' = j
     cnt (into (j,t))   = number of selected (i,s,j',t') with (j',t') = (j,t)
     cnt (outof_node j) = number of selected (i',s',_,_) with i' = j
     cnt (outof (j,t))  = number of selected (i',s',_,_) with (i',s') = (j,t) *)
Theorem C05_local :
  forall I x, NoDup (igrid I) -> length x = num_variables I -> binary x ->
    (Ax I x = rhs I <->
     forall j, (1 <= j < length (nodes (ig I)))%nat ->
       exists t, cnt (into_node j) (selected I x) = 1%nat /\ cnt (into (j, t)) (selected I x) = 1%nat /\
                 cnt (outof_node j) (selected I x) = 1%nat /\ cnt (outof (j, t)) (selected I x) = 1%nat).
Proof. exact local_iff. Qed.
Print Assumptions C05_local.

(* the shape of the system: one row per entry of b, one column per variable *)
Theorem C05_shape :
  forall I x, length (A_dense I) = length (rhs I) /\
              Forall (fun row => length row = num_variables I) (A_dense I) /\
              length (Ax I x) = length (rhs I) /\ length (objective I) = num_variables I.
Proof.
  intros I x. unfold A_dense, A_shape, objective; simpl. repeat split.
  - rewrite map_length, seq_length. reflexivity.
  - apply Forall_forall. intros row Hin. apply in_map_iff in Hin. destruct Hin as (r & <- & _).
    rewrite map_length, seq_length. reflexivity.
  - apply Ax_length.
  - rewrite map_length, seq_length. reflexivity.
Qed.
Print Assumptions C05_shape.

(* 4. objective: c . x is the summed cost of the arcs of the selected moves *)
Theorem C05_objective :
  forall I x, length x = num_variables I -> binary x ->
    obj_value I x = sumz (map (fun v => acost (arc_at (ig I) (onode v) (dnode v))) (selected I x)).
Proof. exact objective_selected. Qed.
Print Assumptions C05_objective.

(* Non-vacuity: depot 0 (0, inf), customers 1 (1,3) and 2 (3,5); arcs 0->1 (1), 1->2 (2), 2->0 (0) and a
   depot self-arc; UNSORTED grid.  The vector selecting (0,0,1,1), (1,1,2,3), (2,3,0,3) is binary,
   satisfies A x = b, costs 1 + 1 + 1 and decodes to the single route 0@0 -> 1@1 -> 2@3 -> 0@3. *)
Definition ex_graph : graph :=
  mkGraph [10; 11; 12]%nat [mkNode 10 0 0 PInf; mkNode 11 1 1 (Fin 3); mkNode 12 1 3 (Fin 5)]
          [((0, 1)%nat, mkArc 10 11 1 1); ((1, 2)%nat, mkArc 11 12 2 1); ((2, 0)%nat, mkArc 12 10 0 1);
           ((0, 0)%nat, mkArc 10 10 0 0)].
Definition ex_inst : inst := mkInst ex_graph [6; 5; 3; 1; 0].
Definition ex_x : list Z :=
  map (fun v => if var_eqb v (0%nat, 0, 1%nat, 1) || var_eqb v (1%nat, 1, 2%nat, 3) || var_eqb v (2%nat, 3, 0%nat, 3)
                then 1 else 0) (vars ex_inst).

Example C05_example :
  NoDup (igrid ex_inst) /\ length ex_x = num_variables ex_inst /\ binary ex_x /\
  num_variables ex_inst = 26%nat /\
  Ax ex_inst ex_x = rhs ex_inst /\ obj_value ex_inst ex_x = 3 /\
  get_routes ex_inst ex_x = Ok [[(0%nat, 0); (1%nat, 1); (2%nat, 3); (0%nat, 3)]].
Proof.
  split; [repeat constructor; simpl; intuition discriminate|].
  split; [vm_compute; reflexivity|].
  split; [unfold binary; vm_compute;
          repeat (apply Forall_cons; [first [left; reflexivity | right; reflexivity]|]); apply Forall_nil|].
  vm_compute. repeat split; reflexivity.
Qed.
