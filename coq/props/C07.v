(* C07 -- the sequence-based constraints describe per-vehicle walks with an absorbing depot.
   Property theorems only; proofs live in theories/Seq_facts.v.

   Model: theories/Seq.v.  n = num_variables I, m = num_rows I; Amat/bvec are the dense linear
   constraints (fixed values moved to the right-hand side), Rmat E the dense quadratic constraint
   matrix built from the pairs E that build_quadratic_constraints appends, cvec/Qo the objective.
   A walk assignment W : vehicle -> position -> node (Seq.walk_assignment) stays inside the node
   set, has W v 0 = W v (L-1) = 0, every (W v s, W v (s+1)) an arc (the depot self-arc counts),
   W v s = 0 /\ s >= 1 -> W v (s+1) = 0, and every customer 1..N-1 on exactly one (v, s). *)
From VQ Require Import Base LinAlg Vrptw Vrptw_facts Seq Seq_facts.

(* the asserts of quadratic_constraint_logic never fire, whatever the instance *)
Theorem C07_asserts_never_fire : forall I : inst, exists E, R_entries I = Ok E.
Proof. exact R_ok. Qed.
Print Assumptions C07_asserts_never_fire.

Theorem C07_R_nonneg : forall E i j, 0 <= Rmat E i j.
Proof. exact Rmat_nonneg. Qed.
Print Assumptions C07_R_nonneg.

(* every tuple a walk occupies is a variable with value 1 or fixed to 1; every other tuple of
   V x L x N is a variable with value 0 or fixed to 0 *)
Theorem C07_walk_tuples : forall I W x,
  walk_assignment I W ->
  (forall k, (k < num_variables I)%nat -> x k = indicator_free I W k) ->
  forall v s n, (v < iV I)%nat -> (s < iL I)%nat ->
    X I x (v, s, n) = if Nat.eqb (W v s) n then 1 else 0.
Proof. intros I W x HW Hx. rewrite <- nv_num in Hx. exact (X_ind I W x HW Hx). Qed.
Print Assumptions C07_walk_tuples.

(* A binary vector satisfies A x = b and x'Rx = 0 iff it is the indicator of a walk assignment. *)
Theorem C07_iff : forall (I : inst) (x : nat -> Z),
  seq_ok I -> (3 <= iL I)%nat -> zbinary (num_variables I) x ->
  exists E, R_entries I = Ok E /\
    (((forall r, (r < num_rows I)%nat -> zmv (num_variables I) (Amat I) x r = bvec I r) /\
      zqf (num_variables I) (Rmat E) x = 0)
     <-> exists W, walk_assignment I W /\
                   forall k, (k < num_variables I)%nat -> x k = indicator_free I W k).
Proof. intros I x (_ & _ & HN). rewrite <- nv_num. apply seq_iff; auto. Qed.
Print Assumptions C07_iff.

(* The objective of the indicator of W is the summed cost of the moves plus the vehicle's
   surcharge on every move. *)
Theorem C07_objective : forall (I : inst) (W : nat -> nat -> nat) (x : nat -> Z),
  seq_ok I -> (3 <= iL I)%nat -> walk_assignment I W ->
  (forall k, (k < num_variables I)%nat -> x k = indicator_free I W k) ->
  zdot (num_variables I) (cvec I) x + zqf (num_variables I) (Qo I) x =
  zsum (iV I) (fun v => zsum (iL I - 1) (fun s => cost I (W v s, W v (S s)) + vcost I v)).
Proof. intros I W x. rewrite <- nv_num. apply seq_objective. Qed.
Print Assumptions C07_objective.

(* The hypotheses are met by every graph on which the class's set_depot succeeded at some
   point of a history of add_node / add_arc / set_depot calls on the formulation object. *)
Theorem C07_hypotheses_reachable : forall st g0 nm g1 ops V L vc,
  Inv g0 -> seq_set_depot g0 nm = Ok g1 ->
  seq_ok (mkInst (run (Seq st) ops g1) V L vc).
Proof.
  intros. apply depot_set_seq_ok, run_depot_set. eapply seq_set_depot_depot_set; eauto.
Qed.
Print Assumptions C07_hypotheses_reachable.
