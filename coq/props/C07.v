(* C07 -- the sequence-based constraints describe per-vehicle walks with an absorbing depot.
   Property theorems only; proofs live in theories/Seq_facts.v.

   Model: theories/Seq.v.  n = num_variables I, m = num_rows I; Amat/bvec are the dense linear
   constraints (fixed values moved to the right-hand side), Rmat E the dense quadratic constraint
   matrix built from the pairs E that build_quadratic_constraints appends, cvec/Qo the objective.
   A walk assignment W : vehicle -> position -> node (Seq.walk_assignment) stays inside the node
   set, has W v 0 = W v (L-1) = 0, every (W v s, W v (s+1)) an arc (the depot self-arc counts),
   W v s = 0 /\ s >= 1 -> W v (s+1) = 0, and every customer 1..N-1 on exactly one (v, s). *)
From VQ Require Import Base LinAlg Vrptw Vrptw_facts Seq Seq_facts.

(* the asserts of quadratic_constraint_logic never fire, whatever the instance *)
Theorem C07_asserts_never_fire : forall I : inst, exists E, R_entries I = Ok E.
Proof. exact R_ok. Qed.
Print Assumptions C07_asserts_never_fire.

Theorem C07_R_nonneg : forall E i j, 0 <= Rmat E i j.
Proof. exact Rmat_nonneg. Qed.
Print Assumptions C07_R_nonneg.

(* every tuple a walk occupies is a variable with value 1 or fixed to 1; every other tuple of
   V x L x N is a variable with value 0 or fixed to 0 *)
Theorem C07_walk_tuples : forall I W x,
  walk_assignment I W ->
  (forall k, (k < num_variables I)%nat -> x k = indicator_free I W k) ->
  forall v s n, (v < iV I)%nat -> (s < iL I)%nat ->
    X I x (v, s, n) = if Nat.eqb (W v s) n then 1 else 0.
Proof. intros I W x HW Hx. rewrite <- nv_num in Hx. exact (X_ind I W x HW Hx). Qed.
Print Assumptions C07_walk_tuples.

(* A binary vector satisfies A x = b and x'Rx = 0 iff it is the indicator of a walk assignment. *)
Theorem C07_iff : forall (I : inst) (x : nat -> Z),
  seq_ok I -> (3 <= iL I)%nat -> zbinary (num_variables I) x ->
  exists E, R_entries I = Ok E /\
    (((forall r, (r < num_rows I)%nat -> zmv (num_variables I) (Amat I) x r = bvec I r) /\
      zqf (num_variables I) (Rmat E) x = 0)
     <-> exists W, walk_assignment I W /\
                   forall k, (k < num_variables I)%nat -> x k = indicator_free I W k).
Proof. intros I x (_ & _ & HN). rewrite <- nv_num. apply seq_iff; auto. Qed.
Print Assumptions C07_iff.

(* The objective of the indicator of W is the summed cost of the moves plus the vehicle's
   surcharge on every move. *)
Theorem C07_objective : forall (I : inst) (W : nat -> nat -> nat) (x : nat -> Z),
  seq_ok I -> (3 <= iL I)%nat -> walk_assignment I W ->
  (forall k, (k < num_variables I)%nat -> x k = indicator_free I W k) ->
  zdot (num_variables I) (cvec I) x + zqf (num_variables I) (Qo I) x =
  zsum (iV I) (fun v => zsum (iL I - 1) (fun s => cost I (W v s, W v (S s)) + vcost I v)).
Proof. intros I W x. rewrite <- nv_num. apply seq_objective. Qed.
Print Assumptions C07_objective.

(* The hypotheses are met by every graph on which the class's set_depot succeeded at some
   point of a history of add_node / add_arc / set_depot calls on the formulation object. *)
Theorem C07_hypotheses_reachable : forall st g0 nm g1 ops V L vc,
  Inv g0 -> seq_set_depot st g0 nm = Ok g1 ->
  seq_ok (mkInst (run (Seq st) ops g1) V L vc).
Proof.
  intros. apply depot_set_seq_ok, run_depot_set. eapply seq_set_depot_depot_set; eauto.
Qed.
Print Assumptions C07_hypotheses_reachable.

(* Fixed values are moved to the right-hand side, but only tuples fixed to 0 occur in constraint
   rows: b is the all-ones vector on every instance. *)
Theorem C07_rhs_all_ones : forall (I : inst) (r : nat), (r < num_rows I)%nat -> bvec I r = 1.
Proof. exact bvec_all_ones. Qed.
Print Assumptions C07_rhs_all_ones.

(* Every set of at most V routes -- each a list of customers with depot->first, consecutive and
   last->depot arcs, using at most L positions including both depot ends -- that covers every
   customer exactly once is a walk assignment after padding with depot stays:
   pad_walks routes v s = nth s (0 :: nth v routes []) 0. *)
Theorem C07_represent : forall (I : inst) (routes : list (list nat)),
  seq_ok I -> (2 <= iL I)%nat -> (length routes <= iV I)%nat ->
  Forall (valid_route I) routes ->
  (forall n, (1 <= n)%nat -> (n < iN I)%nat -> count_occ Nat.eq_dec (concat routes) n = 1%nat) ->
  walk_assignment I (pad_walks routes).
Proof. exact pad_walks_assignment. Qed.
Print Assumptions C07_represent.

(* get_routes on the indicator vector of W returns the walks (no warning branch, no IndexError). *)
Theorem C07_decode : forall (I : inst) (W : nat -> nat -> nat) (xl : list Z),
  seq_ok I -> (3 <= iL I)%nat -> walk_assignment I W ->
  length xl = num_variables I ->
  (forall k, (k < num_variables I)%nat -> nth k xl 0 = indicator_free I W k) ->
  decode I xl = Ok (walks I W).
Proof. intros I W xl. rewrite <- nv_num. apply decode_walks. Qed.
Print Assumptions C07_decode.

(* Strict mode.  strict_graph states what the strict add_arc checked when each arc was stored with
   the depot at index 0: customer origin: window end + travel time <= destination window end; depot
   origin: window start + travel time <= destination window end; depot self-arc: a waiting vehicle
   stays inside the depot window.  Then along every walk the earliest arrival times
   (start of the depot window, then max(window start, previous + travel time)) meet every window. *)
Theorem C07_strict_time : forall (I : inst) (W : nat -> nat -> nat) (v : nat),
  strict_graph (ig I) -> windows_ok (ig I) -> walk_assignment I W -> (v < iV I)%nat ->
  forall s, (s < iL I)%nat ->
    nlo (node_at I (W v s)) <= arrival I (W v) s /\
    ext_le (Fin (arrival I (W v) s)) (nhi (node_at I (W v s))).
Proof. exact strict_time. Qed.
Print Assumptions C07_strict_time.

(* strict_graph is kept by the strict add_arc (a depot self-arc may only be overwritten with a travel
   time that keeps a waiting vehicle inside the depot window), and the strict set_depot ESTABLISHES it
   on every well-formed graph whose arcs passed the strict add_arc -- whichever node is chosen: when the
   depot moves, every stored arc is re-added through the strict add_arc for its new position *)
Theorem C07_strict_kept : forall g,
  strict_graph g ->
  (forall o d tm c g' b,
     add_arc_gen true g o d tm c = Ok (g', b) ->
     (index_of o (names g) = Some 0%nat -> index_of d (names g) = Some 0%nat ->
      ext_le (ext_add (nhi (gnode g 0)) tm) (nhi (gnode g 0))) ->
     strict_graph g') /\
  (forall nm g', Inv g -> seq_set_depot true g nm = Ok g' -> strict_graph g').
Proof.
  intros g Hst. split.
  - intros. eapply strict_graph_add_arc; eauto.
  - intros nm g' HI H. apply strict_graph_split in Hst. destruct Hst as [Hc _].
    eapply strict_graph_seq_set_depot; eauto.
Qed.
Print Assumptions C07_strict_kept.

(* strict_graph = the part every strict add_arc checks (strict_core: customer origin: window END +
   travel time <= destination end; depot origin: window start + travel time <= destination end) + the
   condition on the arc currently stored under (0,0) (depot_self_ok) *)
Theorem C07_strict_graph_split : forall g, strict_graph g <-> strict_core g /\ depot_self_ok g.
Proof. exact strict_graph_split. Qed.
Print Assumptions C07_strict_graph_split.

(* the strict set_depot also when the depot MOVES (the repaired defect strict/depot-moved-after-arcs):
   no hypothesis on which node is chosen, none on the depot self-arc *)
Theorem C07_strict_set_depot_any_node : forall g nm g',
  Inv g -> strict_core g -> seq_set_depot true g nm = Ok g' -> strict_graph g'.
Proof. exact strict_graph_seq_set_depot. Qed.
Print Assumptions C07_strict_set_depot_any_node.

(* strict_graph is established by the strict constructor for every well-formed graph handed to it
   (its arcs are re-filtered; a depot self-arc handed over must keep a waiting vehicle inside the depot
   window), and kept by add_node *)
Theorem C07_strict_established : forall g0 g,
  Inv g0 -> self_arcs_ok g0 -> seq_init true g0 = Ok g -> strict_graph g.
Proof. exact seq_init_strict. Qed.
Print Assumptions C07_strict_established.

Theorem C07_strict_kept_add_node : forall g nm dem lo hi g',
  Inv g -> strict_graph g -> add_node g nm dem lo hi = Ok g' -> strict_graph g'.
Proof. exact strict_graph_add_node. Qed.
Print Assumptions C07_strict_kept_add_node.

(* EVERY history: a strict object created on any well-formed graph g0 (in particular on the empty one),
   followed by any finite sequence of add_node / add_arc / set_depot calls -- the depot chosen or moved
   at any time -- holds a well-formed graph whose arcs satisfy the strict rule for their current
   positions; it satisfies strict_graph as soon as the arc currently stored under (0,0) keeps a waiting
   vehicle inside the depot window (always true right after a set_depot, which stores it with travel
   time 0; false only after add_arc(depot, depot, t) with t > 0 under a finite depot window) *)
Theorem C07_strict_graph_all_histories : forall g0 g1 ops,
  Inv g0 -> seq_init true g0 = Ok g1 ->
  let g := run (Seq true) ops g1 in
  Inv g /\ strict_core g /\ (depot_self_ok g -> strict_graph g).
Proof. exact strict_graph_all_histories. Qed.
Print Assumptions C07_strict_graph_all_histories.

Theorem C07_strict_graph_after_set_depot : forall g0 g1 ops nm g,
  Inv g0 -> seq_init true g0 = Ok g1 ->
  seq_set_depot true (run (Seq true) ops g1) nm = Ok g -> strict_graph g.
Proof. exact strict_graph_after_set_depot. Qed.
Print Assumptions C07_strict_graph_after_set_depot.

(* ... hence strict timing along every walk for every history (no "depot first" restriction) *)
Theorem C07_strict_time_all_histories : forall g0 g1 ops V L vc (W : nat -> nat -> nat) (v : nat),
  Inv g0 -> seq_init true g0 = Ok g1 ->
  let I := mkInst (run (Seq true) ops g1) V L vc in
  depot_self_ok (ig I) -> walk_assignment I W -> (v < iV I)%nat ->
  forall s, (s < iL I)%nat ->
    nlo (node_at I (W v s)) <= arrival I (W v) s /\
    ext_le (Fin (arrival I (W v) s)) (nhi (node_at I (W v s))).
Proof. exact strict_time_all_histories. Qed.
Print Assumptions C07_strict_time_all_histories.

(* ... and WITHOUT any hypothesis on the arc stored under (0,0): along the ROUTE of every walk -- from the
   depot over the customers up to and including the return to the depot; what is left out are only the
   waiting moves depot -> depot that pad the walk, which are no moves of the underlying VRPTW -- every
   node is reached inside its window, for every history of a strict object *)
Theorem C07_strict_time_route_all_histories : forall g0 g1 ops V L vc (W : nat -> nat -> nat) (v : nat),
  Inv g0 -> seq_init true g0 = Ok g1 ->
  let I := mkInst (run (Seq true) ops g1) V L vc in
  walk_assignment I W -> (v < iV I)%nat ->
  forall s, (s < iL I)%nat ->
    (W v 1%nat <> 0%nat /\ forall s', (1 <= s' < s)%nat -> W v s' <> 0%nat) ->
    nlo (node_at I (W v s)) <= arrival I (W v) s /\
    ext_le (Fin (arrival I (W v) s)) (nhi (node_at I (W v s))).
Proof. exact strict_time_route_all_histories. Qed.
Print Assumptions C07_strict_time_route_all_histories.

(* ---------- non-vacuity ---------- *)
(* strict class; depot D (0, inf), customers A (0,5), B (1,6); arcs D->A, A->B, B->D, A->D, D->B;
   two vehicles (the second with surcharge 3), four positions *)
Definition C07_example : inst :=
  mkInst (run (Seq true)
              [OpAddNode 10 0 0 PInf; OpAddNode 11 1 0 (Fin 5); OpAddNode 12 1 1 (Fin 6); OpSetDepot 10;
               OpAddArc 10 11 1 2; OpAddArc 11 12 1 3; OpAddArc 12 10 1 4; OpAddArc 11 10 2 1;
               OpAddArc 10 12 2 5] empty_graph)
         2 4 [0; 3].

Example C07_example_hypotheses :
  seq_ok C07_example /\ (3 <= iL C07_example)%nat /\
  strict_graph (ig C07_example) /\ windows_ok (ig C07_example) /\
  walk_assignment C07_example (pad_walks [[1; 2]%nat]).
Proof.
  assert (Hok : seq_ok C07_example).
  { apply depot_set_seq_ok. split; [apply run_inv, Inv_empty|]. vm_compute. auto 10. }
  split; [exact Hok|]. split; [vm_compute; lia|].
  split; [apply strict_graphb_true; vm_compute; reflexivity|]. split; [apply windows_okb_true; vm_compute; reflexivity|].
  apply pad_walks_assignment; [exact Hok | vm_compute; lia | vm_compute; lia | |].
  - constructor; [|constructor]. split; [|split].
    + intros c [<-|[<-|[]]]; vm_compute; lia.
    + vm_compute. repeat split; auto 10.
    + vm_compute; lia.
  - intros n H1 H2. change (iN C07_example) with 3%nat in H2.
    destruct n as [|[|[|n]]]; try lia; vm_compute; reflexivity.
Qed.

(* on the example: the indicator vector of "vehicle 0 drives D-A-B-D, vehicle 1 stays" is decoded to
   these walks and costs 2 + 3 + 4 for vehicle 0 and 3 x (0 + 3) for vehicle 1 *)
Example C07_example_values :
  let W := pad_walks [[1; 2]%nat] in
  let xl := map (indicator_free C07_example W) (seq 0 (num_variables C07_example)) in
  num_variables C07_example = 12%nat /\
  decode C07_example xl = Ok [[0; 1; 2; 0]; [0; 0; 0; 0]]%nat /\
  zdot 12 (cvec C07_example) (fun k => nth k xl 0) + zqf 12 (Qo C07_example) (fun k => nth k xl 0) = 18 /\
  map (arrival C07_example (W 0%nat)) (seq 0 4) = [0; 1; 2; 3].
Proof. vm_compute. repeat split; reflexivity. Qed.

(* REPAIRED (a305445; formerly the finding strict/depot-moved-after-arcs): A (0,10), B (0,5), D (0,inf);
   add_arc(A,B,3) is accepted by the lenient rule because A is node 0 at that moment; set_depot(D) moves
   D to the front and now re-adds the stored arcs with the rule for their new positions: A->B
   (10 + 3 > 5) is dropped.  The history is an instance of C07_strict_graph_all_histories; the walk
   D-A-B-D, which used to reach B at time 11 > 5, is no longer a walk assignment (A->B is not an arc),
   and the instance has none (B cannot be reached). *)
Definition C07_moved_depot : inst :=
  mkInst (run (Seq true)
              [OpAddNode 11 1 0 (Fin 10); OpAddNode 12 1 0 (Fin 5); OpAddNode 10 0 0 PInf;
               OpAddArc 11 12 3 1; OpSetDepot 10; OpAddArc 10 11 8 1; OpAddArc 12 10 0 1] empty_graph)
         1 4 [0].

Example C07_moved_depot_repaired :
  seq_ok C07_moved_depot /\ strict_graph (ig C07_moved_depot) /\
  map fst (arcs (ig C07_moved_depot)) = [(0, 0); (0, 1); (2, 0)]%nat /\
  check_arc C07_moved_depot (1%nat, 2%nat) = false.
Proof.
  split.
  { apply depot_set_seq_ok. split; [apply run_inv, Inv_empty|]. vm_compute. auto 10. }
  split; [|vm_compute; split; reflexivity].
  assert (E0 : seq_init true empty_graph = Ok empty_graph) by reflexivity.
  destruct (C07_strict_graph_all_histories empty_graph empty_graph
              [OpAddNode 11 1 0 (Fin 10); OpAddNode 12 1 0 (Fin 5); OpAddNode 10 0 0 PInf;
               OpAddArc 11 12 3 1; OpSetDepot 10; OpAddArc 10 11 8 1; OpAddArc 12 10 0 1] Inv_empty E0)
    as (_ & _ & H).
  apply H. intros a Hin. vm_compute in Hin.
  repeat (destruct Hin as [Hin|Hin]; [inversion Hin; subst; vm_compute; exact I|]). destruct Hin.
Qed.

(* a moved depot with walks left: D (0,inf) chosen after A->B (tt 1: 10 + 1 > 5 is dropped) and B->A
   (tt 2: 5 + 2 <= 10 is kept) were stored while A was node 0 *)
Definition C07_moved_depot2 : inst :=
  mkInst (run (Seq true)
              [OpAddNode 11 1 0 (Fin 10); OpAddNode 12 1 0 (Fin 5); OpAddNode 10 0 0 PInf;
               OpAddArc 11 12 1 1; OpAddArc 12 11 2 1; OpSetDepot 10;
               OpAddArc 10 12 3 1; OpAddArc 11 10 0 1] empty_graph)
         1 4 [0].

Example C07_moved_depot_walk :
  strict_graph (ig C07_moved_depot2) /\ windows_ok (ig C07_moved_depot2) /\
  map fst (arcs (ig C07_moved_depot2)) = [(2, 1); (0, 0); (0, 2); (1, 0)]%nat /\
  map (arrival C07_moved_depot2 (pad_walks [[2; 1]%nat] 0%nat)) (seq 0 4) = [0; 3; 5; 5].
Proof.
  split; [apply strict_graphb_true; vm_compute; reflexivity|].
  split; [apply windows_okb_true; vm_compute; reflexivity|].
  vm_compute. split; reflexivity.
Qed.

(* the depot self-arc overwritten with a positive travel time under a finite depot window: D (0,4), A (0,4),
   add_arc(D,D,3) after set_depot, D<->A with travel time 0, one vehicle, five positions.  depot_self_ok is
   false, and the padded walk D-A-D-D-D "reaches" the depot at 6 > 4 at its last position by waiting moves;
   the route D-A-D (positions 0..2, exactly those C07_strict_time_route_all_histories speaks about) is on time *)
Definition C07_slow_self_arc : inst :=
  mkInst (run (Seq true)
              [OpAddNode 10 0 0 (Fin 4); OpAddNode 11 1 0 (Fin 4); OpSetDepot 10;
               OpAddArc 10 10 3 0; OpAddArc 10 11 0 1; OpAddArc 11 10 0 1] empty_graph)
         1 5 [0].

Example C07_slow_self_arc_route :
  let W := pad_walks [[1]%nat] in
  ~ depot_self_ok (ig C07_slow_self_arc) /\
  walk_assignment C07_slow_self_arc W /\
  map (W 0%nat) (seq 0 5) = [0; 1; 0; 0; 0]%nat /\
  map (arrival C07_slow_self_arc (W 0%nat)) (seq 0 5) = [0; 0; 0; 3; 6] /\
  (forall s, (s <= 2)%nat -> W 0%nat 1%nat <> 0%nat /\ forall s', (1 <= s' < s)%nat -> W 0%nat s' <> 0%nat).
Proof.
  assert (Hok : seq_ok C07_slow_self_arc).
  { apply depot_set_seq_ok. split; [apply run_inv, Inv_empty|]. vm_compute. auto 10. }
  split.
  { intros H. assert (Hin : In ((0%nat, 0%nat), mkArc 10 10 3 0) (arcs (ig C07_slow_self_arc))) by (vm_compute; auto).
    apply H in Hin. vm_compute in Hin. first [lia | congruence | exact Hin | (apply Hin; reflexivity)]. }
  split.
  { apply pad_walks_assignment; [exact Hok | vm_compute; lia | vm_compute; lia | |].
    - constructor; [|constructor]. split; [|split].
      + intros c [<-|[]]; vm_compute; lia.
      + vm_compute. repeat split; auto 10.
      + vm_compute; lia.
    - intros n H1 H2. change (iN C07_slow_self_arc) with 2%nat in H2.
      destruct n as [|[|n]]; try lia; vm_compute; reflexivity. }
  split; [vm_compute; reflexivity|]. split; [vm_compute; reflexivity|].
  intros s Hs. split; [vm_compute; lia|].
  intros s' Hs'. assert (s' = 1%nat) by lia. subst s'. vm_compute. lia.
Qed.
