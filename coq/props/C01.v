(* C01 -- QUBO and Ising forms have equal energy on every assignment.
   Property theorems only; the model is theories/Qubo.v, the proofs theories/Qubo_facts.v.

   The statements are made once for an arbitrary commutative ring K (Leibniz equality) with two
   elements half, quarter such that (1+1)*half = 1 and (1+1+(1+1))*quarter = 1, for every size
   n and every matrix / vector given as a function of its indices; then instantiated, by one
   `exact` each, at Qc (rationals: axiom-free; the carrier the correspondence computes in) and
   at R (stdlib reals: the "all real matrices" claim; depends on the stdlib real-number axioms). *)
From Coq Require Import List QArith Qcanon Reals.
From VQ Require Import Base LinAlg Qubo Qubo_facts.
Import ListNotations.
(* one line per axiom in the Print Assumptions output (the evidence parser reads `name : type` lines) *)
Set Printing Width 400.

Section C01.
  Variables (K : Type) (k0 k1 : K) (kadd kmul ksub : K -> K -> K) (kopp : K -> K).
  Hypothesis Kring : ring_theory k0 k1 kadd kmul ksub kopp (@eq K).
  Variables (half quarter : K).
  Hypothesis Hhalf : kmul (two K k1 kadd) half = k1.
  Hypothesis Hquarter : kmul (four K k1 kadd) quarter = k1.

  Notation vec := (LinAlg.vec K).
  Notation mat := (LinAlg.mat K).
  Notation binary := (LinAlg.binary K k0 k1).
  Notation spin := (LinAlg.spin K k1 kopp).
  Notation x2s := (Qubo.x2s K k1 kadd kmul ksub).
  Notation s2x := (Qubo.s2x K k1 kmul ksub half).
  Notation eQ := (Qubo.eQ K k0 kadd kmul).
  Notation eI := (Qubo.eI K k0 kadd kmul).
  Notation q2i_J := (Qubo.q2i_J K k0 kmul quarter).
  Notation q2i_h := (Qubo.q2i_h K k0 kadd kmul kopp quarter).
  Notation q2i_c := (Qubo.q2i_c K k0 kadd kmul quarter).
  Notation i2q_Q := (Qubo.i2q_Q K k0 k1 kadd kmul ksub).
  Notation i2q_c := (Qubo.i2q_c K k0 kadd).

  (* QUBO_to_Ising(Q, c) = (J, h, c'): for EVERY n, EVERY n x n matrix Q (symmetric or not),
     every constant and every binary x, the Ising energy at the spin image 1-2x is x'Qx + c. *)
  Theorem C01_qubo_to_ising : forall (n : nat) (Q : mat) (c : K) (x : vec),
    binary n x ->
    eI n (q2i_J Q) (q2i_h n Q) (q2i_c n Q c) (x2s x) = eQ n Q c x.
  Proof. exact (q2i_energy K k0 k1 kadd kmul ksub kopp Kring quarter Hquarter). Qed.

  (* Ising_to_QUBO(J, h, c) = (Q, c'): J may have ANY diagonal; the QUBO value at a binary x is
     the Ising energy s'Js + h's + c at s = 1-2x. *)
  Theorem C01_ising_to_qubo : forall (n : nat) (J : mat) (h : vec) (c : K) (x : vec),
    binary n x ->
    eQ n (i2q_Q n J h) (i2q_c n J h c) x = eI n J h c (x2s x).
  Proof. exact (i2q_energy K k0 k1 kadd kmul ksub kopp Kring). Qed.

  (* the same, read from the Ising side: at every spin vector s, with x = (1-s)/2 *)
  Theorem C01_ising_to_qubo_spin : forall (n : nat) (J : mat) (h : vec) (c : K) (s : vec),
    spin n s ->
    eQ n (i2q_Q n J h) (i2q_c n J h c) (s2x s) = eI n J h c s.
  Proof. exact (i2q_energy_spin K k0 k1 kadd kmul ksub kopp Kring half Hhalf). Qed.

  (* the returned coupling matrix has an all-zero diagonal; off the diagonal it is Q/4 *)
  Theorem C01_zero_diag : forall (Q : mat) (i j : nat),
    q2i_J Q i i = k0 /\ (i <> j -> q2i_J Q i j = kmul quarter (Q i j)).
  Proof.
    intros Q i j. split.
    - exact (q2i_J_diag K k0 kmul quarter Q i).
    - exact (q2i_J_offdiag K k0 kmul quarter Q i j).
  Qed.

  (* x_to_s maps binary to spin vectors (0 -> 1, 1 -> -1), s_to_x spin to binary (1 -> 0, -1 -> 1),
     and they are inverse to each other *)
  Theorem C01_maps_inverse : forall (n : nat) (x s : vec),
    (binary n x -> spin n (x2s x) /\ forall i, (i < n)%nat -> s2x (x2s x) i = x i) /\
    (spin n s -> binary n (s2x s) /\ forall i, (i < n)%nat -> x2s (s2x s) i = s i).
  Proof. exact (maps_inverse K k0 k1 kadd kmul ksub kopp Kring half Hhalf). Qed.

  Theorem C01_map_values : forall (x s : vec) (i : nat),
    (x i = k0 -> x2s x i = k1) /\ (x i = k1 -> x2s x i = kopp k1) /\
    (s i = k1 -> s2x s i = k0) /\ (s i = kopp k1 -> s2x s i = k1).
  Proof.
    intros x s i. split; [|split; [|split]].
    - exact (x2s_zero K k0 k1 kadd kmul ksub kopp Kring x i).
    - exact (x2s_one K k0 k1 kadd kmul ksub kopp Kring x i).
    - exact (s2x_one K k0 k1 kadd kmul ksub kopp Kring half s i).
    - exact (s2x_minus_one K k0 k1 kadd kmul ksub kopp Kring half Hhalf s i).
  Qed.
End C01.

Print Assumptions C01_qubo_to_ising.
Print Assumptions C01_ising_to_qubo.
Print Assumptions C01_ising_to_qubo_spin.
Print Assumptions C01_zero_diag.
Print Assumptions C01_maps_inverse.
Print Assumptions C01_map_values.

(* ---------------------------------- instance Qc ---------------------------------- *)
Theorem C01_Qc_qubo_to_ising : forall (n : nat) (Q : nat -> nat -> Qc) (c : Qc) (x : nat -> Qc),
  binary Qc 0%Qc 1%Qc n x ->
  eI_Qc n (q2i_J_Qc Q) (q2i_h_Qc n Q) (q2i_c_Qc n Q c) (x2s_Qc x) = eQ_Qc n Q c x.
Proof. exact (C01_qubo_to_ising Qc 0%Qc 1%Qc Qcplus Qcmult Qcminus Qcopp Qcrt Qc_quarter Qc_quarter_ok). Qed.
Print Assumptions C01_Qc_qubo_to_ising.

Theorem C01_Qc_ising_to_qubo : forall (n : nat) (J : nat -> nat -> Qc) (h : nat -> Qc) (c : Qc) (x : nat -> Qc),
  binary Qc 0%Qc 1%Qc n x ->
  eQ_Qc n (i2q_Q_Qc n J h) (i2q_c_Qc n J h c) x = eI_Qc n J h c (x2s_Qc x).
Proof. exact (C01_ising_to_qubo Qc 0%Qc 1%Qc Qcplus Qcmult Qcminus Qcopp Qcrt). Qed.
Print Assumptions C01_Qc_ising_to_qubo.

Theorem C01_Qc_ising_to_qubo_spin : forall (n : nat) (J : nat -> nat -> Qc) (h : nat -> Qc) (c : Qc) (s : nat -> Qc),
  spin Qc 1%Qc Qcopp n s ->
  eQ_Qc n (i2q_Q_Qc n J h) (i2q_c_Qc n J h c) (s2x_Qc s) = eI_Qc n J h c s.
Proof. exact (C01_ising_to_qubo_spin Qc 0%Qc 1%Qc Qcplus Qcmult Qcminus Qcopp Qcrt Qc_half Qc_half_ok). Qed.
Print Assumptions C01_Qc_ising_to_qubo_spin.

Theorem C01_Qc_zero_diag : forall (Q : nat -> nat -> Qc) (i j : nat),
  q2i_J_Qc Q i i = 0%Qc /\ (i <> j -> q2i_J_Qc Q i j = (Qc_quarter * Q i j)%Qc).
Proof. exact (C01_zero_diag Qc 0%Qc Qcmult Qc_quarter). Qed.
Print Assumptions C01_Qc_zero_diag.

Theorem C01_Qc_maps_inverse : forall (n : nat) (x s : nat -> Qc),
  (binary Qc 0%Qc 1%Qc n x ->
     spin Qc 1%Qc Qcopp n (x2s_Qc x) /\ forall i, (i < n)%nat -> s2x_Qc (x2s_Qc x) i = x i) /\
  (spin Qc 1%Qc Qcopp n s ->
     binary Qc 0%Qc 1%Qc n (s2x_Qc s) /\ forall i, (i < n)%nat -> x2s_Qc (s2x_Qc s) i = s i).
Proof. exact (C01_maps_inverse Qc 0%Qc 1%Qc Qcplus Qcmult Qcminus Qcopp Qcrt Qc_half Qc_half_ok). Qed.
Print Assumptions C01_Qc_maps_inverse.

(* The code's x_to_s / s_to_x end with astype(int).  x2s_t / s2x_t are the literal versions
   (truncation towards zero); on binary / spin vectors they are the algebraic maps, so the
   energy theorems hold for the literal maps as well. *)
Theorem C01_Qc_literal_maps : forall (n : nat) (x s : nat -> Qc) (i : nat), (i < n)%nat ->
  (binary Qc 0%Qc 1%Qc n x -> x2s_t x i = x2s_Qc x i) /\
  (spin Qc 1%Qc Qcopp n s -> s2x_t s i = s2x_Qc s i).
Proof.
  intros n x s i Hi. split; intros H; [exact (x2s_t_binary n x i H Hi) | exact (s2x_t_spin n s i H Hi)].
Qed.
Print Assumptions C01_Qc_literal_maps.

Theorem C01_Qc_qubo_to_ising_literal : forall (n : nat) (Q : nat -> nat -> Qc) (c : Qc) (x : nat -> Qc),
  binary Qc 0%Qc 1%Qc n x ->
  eI_Qc n (q2i_J_Qc Q) (q2i_h_Qc n Q) (q2i_c_Qc n Q c) (x2s_t x) = eQ_Qc n Q c x.
Proof. exact q2i_energy_literal_Qc. Qed.
Print Assumptions C01_Qc_qubo_to_ising_literal.

Theorem C01_Qc_ising_to_qubo_literal : forall (n : nat) (J : nat -> nat -> Qc) (h : nat -> Qc) (c : Qc) (x : nat -> Qc),
  binary Qc 0%Qc 1%Qc n x ->
  eQ_Qc n (i2q_Q_Qc n J h) (i2q_c_Qc n J h c) x = eI_Qc n J h c (x2s_t x).
Proof. exact i2q_energy_literal_Qc. Qed.
Print Assumptions C01_Qc_ising_to_qubo_literal.

(* ---------------------------------- instance R ---------------------------------- *)
Theorem C01_R_qubo_to_ising : forall (n : nat) (Q : nat -> nat -> R) (c : R) (x : nat -> R),
  binary R 0%R 1%R n x ->
  eI_R n (q2i_J_R Q) (q2i_h_R n Q) (q2i_c_R n Q c) (x2s_R x) = eQ_R n Q c x.
Proof. exact (C01_qubo_to_ising R 0%R 1%R Rplus Rmult Rminus Ropp RTheory R_quarter R_quarter_ok). Qed.
Print Assumptions C01_R_qubo_to_ising.

Theorem C01_R_ising_to_qubo : forall (n : nat) (J : nat -> nat -> R) (h : nat -> R) (c : R) (x : nat -> R),
  binary R 0%R 1%R n x ->
  eQ_R n (i2q_Q_R n J h) (i2q_c_R n J h c) x = eI_R n J h c (x2s_R x).
Proof. exact (C01_ising_to_qubo R 0%R 1%R Rplus Rmult Rminus Ropp RTheory). Qed.
Print Assumptions C01_R_ising_to_qubo.

Theorem C01_R_ising_to_qubo_spin : forall (n : nat) (J : nat -> nat -> R) (h : nat -> R) (c : R) (s : nat -> R),
  spin R 1%R Ropp n s ->
  eQ_R n (i2q_Q_R n J h) (i2q_c_R n J h c) (s2x_R s) = eI_R n J h c s.
Proof. exact (C01_ising_to_qubo_spin R 0%R 1%R Rplus Rmult Rminus Ropp RTheory R_half R_half_ok). Qed.
Print Assumptions C01_R_ising_to_qubo_spin.

Theorem C01_R_zero_diag : forall (Q : nat -> nat -> R) (i j : nat),
  q2i_J_R Q i i = 0%R /\ (i <> j -> q2i_J_R Q i j = (R_quarter * Q i j)%R).
Proof. exact (C01_zero_diag R 0%R Rmult R_quarter). Qed.
Print Assumptions C01_R_zero_diag.

Theorem C01_R_maps_inverse : forall (n : nat) (x s : nat -> R),
  (binary R 0%R 1%R n x ->
     spin R 1%R Ropp n (x2s_R x) /\ forall i, (i < n)%nat -> s2x_R (x2s_R x) i = x i) /\
  (spin R 1%R Ropp n s ->
     binary R 0%R 1%R n (s2x_R s) /\ forall i, (i < n)%nat -> x2s_R (s2x_R s) i = s i).
Proof. exact (C01_maps_inverse R 0%R 1%R Rplus Rmult Rminus Ropp RTheory R_half R_half_ok). Qed.
Print Assumptions C01_R_maps_inverse.

(* ---------------------------------- non-vacuity ---------------------------------- *)
(* a non-symmetric 3x3 matrix with a non-zero diagonal and the binary vector (1,0,1):
   the hypotheses are met, both energies are 1 + 1/2 = 3/2 *)
Definition exQ : dmat :=
  [[Q2Qc 1; Q2Qc 2; Q2Qc 0]; [Q2Qc (1 # 2); Q2Qc (-1); Q2Qc (1 # 4)]; [Q2Qc 0; Q2Qc 3; Q2Qc 0]]%Q.
Definition exx : dvec := [1%Qc; 0%Qc; 1%Qc].

Example C01_example_binary : binary Qc 0%Qc 1%Qc 3 (vec_of exx).
Proof.
  intros i Hi. destruct i as [|[|[|i]]]; simpl; auto.
  exfalso. apply (Nat.lt_irrefl 3). eapply Nat.le_lt_trans; [|exact Hi]. do 3 apply le_n_S. apply Nat.le_0_l.
Qed.

Example C01_example_energy :
  qc_eqb (mat_of exQ 0 1) (mat_of exQ 1 0) = false /\
  qc_eqb (eQ_Qc 3 (mat_of exQ) Qc_half (vec_of exx)) (Q2Qc (3 # 2)%Q) = true /\
  qc_eqb (eI_Qc 3 (q2i_J_Qc (mat_of exQ)) (q2i_h_Qc 3 (mat_of exQ)) (q2i_c_Qc 3 (mat_of exQ) Qc_half)
                (x2s_t (vec_of exx))) (Q2Qc (3 # 2)%Q) = true /\
  dense_vec 3 (x2s_t (vec_of exx)) = dense_vec 3 (vec_of [Q2Qc (-1); Q2Qc 1; Q2Qc (-1)]%Q) /\
  check_c01case ((3, 3)%nat, exQ, Qc_half,
                 model_q2i (3, 3)%nat exQ Qc_half,
                 (3%nat, exQ, exx, Qc_half), model_i2q (3, 3)%nat 3 exQ exx Qc_half, [], []) = [].
Proof. vm_compute. repeat split; reflexivity. Qed.
