(* C11 -- MIRP time windows keep every port's inventory within bounds.
   Property theorems only; proofs live in theories/Mirp_facts.v.  Numbers are exact rationals
   (Q, compared with ==).  `window size k init rate cap` is the model of
   MIRP.get_time_window(k, init, rate, cap) with cargo size `size`; tw0 / tw1 are its components. *)
From Coq Require Import QArith.
From VQ Require Import Base Mirp Mirp_facts.
Local Open Scope Q_scope.

(* 1. The window of visit k is exactly the feasibility interval.
   Supply port (rate > 0): with k cargoes already taken, a further full cargo is available at
   time t (inventory after loading it stays >= 0) iff t >= tw0 k; the tank has not yet
   overflowed at time t iff t <= tw1 k. *)
Theorem C11_supply_open : forall size k init rate cap t, 0 < rate ->
  (0 <= init + rate * t - (Qn k + 1) * size <-> tw0 size k init rate cap <= t).
Proof. exact supply_open. Qed.
Print Assumptions C11_supply_open.

Theorem C11_supply_close : forall size k init rate cap t, 0 < rate ->
  (init + rate * t - Qn k * size <= cap <-> t <= tw1 size k init rate cap).
Proof. exact supply_close. Qed.
Print Assumptions C11_supply_close.

(* Demand port (rate < 0): with k cargoes already delivered, a further full cargo fits into the
   tank at time t iff t >= tw0 k; the port has not yet run dry at time t iff t <= tw1 k. *)
Theorem C11_demand_open : forall size k init rate cap t, rate < 0 ->
  (init + rate * t + (Qn k + 1) * size <= cap <-> tw0 size k init rate cap <= t).
Proof. exact demand_open. Qed.
Print Assumptions C11_demand_open.

Theorem C11_demand_close : forall size k init rate cap t, rate < 0 ->
  (0 <= init + rate * t + Qn k * size <-> t <= tw1 size k init rate cap).
Proof. exact demand_close. Qed.
Print Assumptions C11_demand_close.

(* the window is non-empty (Node accepts it) exactly when a cargo fits into the tank; window ends
   increase strictly with k, and the first k whose window ends after the horizon is `nvisits` *)
Theorem C11_window_shape : forall size H k init rate cap, 0 < size -> ~ rate == 0 ->
  (tw0 size k init rate cap <= tw1 size k init rate cap <-> size <= cap) /\
  tw1 size k init rate cap < tw1 size (S k) init rate cap /\
  (H < tw1 size k init rate cap <-> (nvisits size H init rate cap <= k)%nat).
Proof.
  intros. split; [|split].
  - apply window_ordered_iff; auto.
  - apply tw1_strictly_increasing; auto.
  - apply tw1_gt_horizon_iff; auto.
Qed.
Print Assumptions C11_window_shape.

(* 2. add_nodes on any MIRP state s (cargo size > 0, rate <> 0, cargo fits the tank, no node of this
   port present yet), run with any fuel > K: it terminates normally, where K = nvisits is the first k
   whose window ends after the horizon; it appends exactly the visits 0..K-1 named name-k with demand
   -size (supply) / +size (demand) and window `window k`, leaves the arcs alone, registers the port
   in supply_ports / demand_ports and the node names in port_mapping[name].  `add_nodes` is
   `add_nodes_fuel` with fuel K+1. *)
Theorem C11_nodes : forall s name init rate cap fuel,
  0 < csize s -> ~ rate == 0 -> csize s <= cap ->
  (forall j, has_name (NVisit name j) (mnodes (gr s)) = false) ->
  let size := csize s in
  let H := horizon s in
  let K := nvisits size H init rate cap in
  (K < fuel)%nat ->
  (forall k, H < tw1 size k init rate cap <-> (K <= k)%nat) /\
  exists s',
    add_nodes_fuel fuel s name init rate cap = (s', Ok (map (NVisit name) (seq 0 K))) /\
    add_nodes s name init rate cap = (s', Ok (map (NVisit name) (seq 0 K))) /\
    mnodes (gr s') = mnodes (gr s) ++
      map (fun k => mkNode (NVisit name k) (if Qltb 0 rate then - size else size)
                           (tw0 size k init rate cap) (QFin (tw1 size k init rate cap))) (seq 0 K) /\
    marcs (gr s') = marcs (gr s) /\
    sports s' = (if Qltb 0 rate then sports s ++ [name] else sports s) /\
    dports s' = (if Qltb 0 rate then dports s else dports s ++ [name]) /\
    pm_get name (pmap s') = Some (map (NVisit name) (seq 0 K)) /\
    (forall p, p <> name -> pm_get p (pmap s') = pm_get p (pmap s)) /\
    csize s' = csize s /\ horizon s' = horizon s.
Proof. exact add_nodes_spec. Qed.
Print Assumptions C11_nodes.

(* a cargo larger than the tank: the first Node raises ValueError (window start > end) -- unless
   even the first window ends after the horizon, in which case no node is attempted; either way
   the port has already been registered and the graph is unchanged *)
Theorem C11_nodes_cargo_exceeds_tank : forall s name init rate cap fuel,
  0 < csize s -> ~ rate == 0 -> cap < csize s -> (0 < fuel)%nat ->
  (forall j, has_name (NVisit name j) (mnodes (gr s)) = false) ->
  exists s',
    add_nodes_fuel fuel s name init rate cap
    = (s', if Qltb (horizon s) (tw1 (csize s) 0 init rate cap) then Ok [] else Err ValueError) /\
    gr s' = gr s /\
    sports s' = (if Qltb 0 rate then sports s ++ [name] else sports s) /\
    dports s' = (if Qltb 0 rate then dports s else dports s ++ [name]) /\
    pm_get name (pmap s') = Some [].
Proof. exact add_nodes_too_big_spec. Qed.
Print Assumptions C11_nodes_cargo_exceeds_tank.

(* 3. Safety.  K = nvisits is the number of generated visits (C11_nodes).  Every visit k < K is
   serviced once with a full cargo at an arbitrary instant tau k of its window -- no ordering between
   visits is assumed, windows may overlap, several services may coincide.  Then at every time t of the
   horizon the inventory just before and just after the services taking place at t is within
   [0, cap].  inv_after t = init + rate*t + d * #{k<K | tau k <= t}, inv_before counts tau k < t,
   with d = -size at a supply port and +size at a demand port. *)
Theorem C11_safety : forall size H init rate cap (tau : nat -> Q) t,
  0 < size -> ~ rate == 0 -> 0 <= init -> init <= cap -> size <= cap ->
  let K := nvisits size H init rate cap in
  (forall k, (k < K)%nat -> tw0 size k init rate cap <= tau k /\ tau k <= tw1 size k init rate cap) ->
  0 <= t -> t <= H ->
  (0 <= inv_before size init rate K tau t /\ inv_before size init rate K tau t <= cap) /\
  (0 <= inv_after size init rate K tau t /\ inv_after size init rate K tau t <= cap).
Proof. exact safety. Qed.
Print Assumptions C11_safety.

(* Non-vacuity.  Supply port: size 3, horizon 20, init 1, rate 3/2, cap 5: nine visits, the first
   window is (4/3, 8/3); every hypothesis of C11_nodes / C11_safety holds; servicing each visit at
   the start of its window is an admissible choice of tau. *)
Example C11_supply_instance :
  let s := init_state 3 20 in
  let r := add_nodes s 1%nat 1 (3#2) 5 in
  nvisits 3 20 1 (3#2) 5 = 9%nat /\
  snd r = Ok (map (NVisit 1) (seq 0 9)) /\
  list_eqb node_obs_eqb (firstn 3 (obs_nodes (gr (fst r))))
    [(NDepot, 0, 0, QInf); (NVisit 1 0, -(3), 4#3, QFin (8#3)); (NVisit 1 1, -(3), 10#3, QFin (14#3))] = true /\
  forallb (fun k => Qle_bool (tw0 3 k 1 (3#2) 5) (tw0 3 k 1 (3#2) 5) &&
                    Qle_bool (tw0 3 k 1 (3#2) 5) (tw1 3 k 1 (3#2) 5)) (seq 0 9) = true /\
  Qeq_bool (inv_after 3 1 (3#2) 9 (fun k => tw0 3 k 1 (3#2) 5) (4#3)) 0 = true.
Proof. vm_compute. repeat split; reflexivity. Qed.

(* Demand port whose windows overlap (size 1, cap 5, rate -1, init 5/2, horizon 6): window k is
   (k - 3/2, k + 5/2), so visits 0..3 all contain the instant 2; servicing visits 0,1,2 in reverse
   order inside the overlap is admissible and the inventory after the three services at t = 2 is 7/2. *)
Example C11_demand_overlap_instance :
  nvisits 1 6 (5#2) (-(1)) 5 = 4%nat /\
  forallb (fun k => Qle_bool (tw0 1 k (5#2) (-(1)) 5) 2 && Qle_bool 2 (tw1 1 k (5#2) (-(1)) 5)) (seq 0 4) = true /\
  let tau := fun k : nat => match k with 0%nat => 2 | 1%nat => (3#2) | 2%nat => 1 | _ => 4 end in
  forallb (fun k => Qle_bool (tw0 1 k (5#2) (-(1)) 5) (tau k) && Qle_bool (tau k) (tw1 1 k (5#2) (-(1)) 5)) (seq 0 4) = true /\
  Qeq_bool (inv_after 1 (5#2) (-(1)) 4 tau 2) (7#2) = true /\
  Qeq_bool (inv_before 1 (5#2) (-(1)) 4 tau 2) (5#2) = true.
Proof. vm_compute. repeat split; reflexivity. Qed.
