(* C18 (arc half) -- the variable index maps of the arc-based formulation enumerate exactly the
   admissible decisions.  Property theorems only; proofs live in theories/Arc_facts.v.

   I = (graph, grid) with the grid given in ANY order; `vars I` is the model of var_mapping as built
   by enumerate_variables_quicker over time_points = np.sort(grid), with its literal early `break`s;
   `num_variables I` is the counter the same loops keep.  The order of enumeration is part of the
   model (it is observable and compared with the implementation) but not of the statements below. *)
From Coq Require Import Sorting.Sorted.
From VQ Require Import Base Vrptw Vrptw_facts Arc Arc_facts.

(* Where the `break` is justified: on a sorted list, the loop
     for e in l: if key e < lo: continue;  if key e > hi: break;  body
   is the loop over the elements whose key lies in [lo, hi]. *)
Theorem C18_arc_break_is_filter :
  forall (A S : Type) (key : A -> Z) lo hi (body : A -> S -> S) l st,
    StronglySorted Z.le (map key l) ->
    scan key lo hi body l st =
    fold_left (fun st e => if (lo <=? key e) && ext_leb (Fin (key e)) hi then body e st else st) l st.
Proof. exact @scan_sorted. Qed.
Print Assumptions C18_arc_break_is_filter.

(* ... and the grid stored by add_time_points is sorted whatever order it was given in *)
Theorem C18_arc_time_points_sorted :
  forall I, StronglySorted Z.le (tp I) /\ (forall t, In t (tp I) <-> In t (igrid I)).
Proof. intros I. split; [apply tp_sorted | intros t; apply tp_In]. Qed.
Print Assumptions C18_arc_time_points_sorted.

(* A tuple is enumerated iff arc (i,j) exists, both times are grid points inside the respective
   windows, and departure + travel time <= arrival.  Holds for every graph and every grid. *)
Theorem C18_arc_exact :
  forall I i s j t,
    In (i, s, j, t) (vars I) <->
    exists a, dict_get (i, j) (arcs (ig I)) = Some a /\
              In s (igrid I) /\ In t (igrid I) /\
              win_lo (ig I) i <= s /\ ext_le (Fin s) (win_hi (ig I) i) /\
              win_lo (ig I) j <= t /\ ext_le (Fin t) (win_hi (ig I) j) /\
              s + att a <= t.
Proof. intros I i s j t. exact (vars_exact I (i, s, j, t)). Qed.
Print Assumptions C18_arc_exact.

(* For a graph reached by any history of the VRPTW class (Vrptw_facts.Inv, proved for every history
   in C15) the nodes i, j of an enumerated tuple are node positions, so the windows above are the
   windows of real nodes. *)
Theorem C18_arc_nodes_exist :
  forall I i s j t, Inv (ig I) -> In (i, s, j, t) (vars I) ->
    (i < length (nodes (ig I)))%nat /\ (j < length (nodes (ig I)))%nat.
Proof.
  intros I i s j t HI Hin. apply vars_exact in Hin. destruct Hin as (a & Ha & _).
  apply dict_get_In in Ha. exact (proj2 (Inv_wf _ HI) _ _ Ha).
Qed.
Print Assumptions C18_arc_nodes_exist.

(* no tuple is enumerated twice: grid values pairwise distinct, arc keys distinct (a dict) *)
Theorem C18_arc_nodup :
  forall I, NoDup (igrid I) -> NoDup (map fst (arcs (ig I))) -> NoDup (vars I).
Proof. exact vars_NoDup. Qed.
Print Assumptions C18_arc_nodup.

(* the counter equals the number of enumerated tuples (every instance) *)
Theorem C18_arc_count : forall I, num_variables I = length (vars I).
Proof. exact num_variables_length. Qed.
Print Assumptions C18_arc_count.

(* inverse laws *)
Theorem C18_arc_tuple_of_index_of :
  forall I v, valid_move I v ->
    exists k, get_var_index I v = Some k /\ get_var_tuple_index I k = Some v /\ (k < num_variables I)%nat.
Proof. exact index_of_admissible. Qed.
Print Assumptions C18_arc_tuple_of_index_of.

Theorem C18_arc_index_of_tuple_of :
  forall I k, NoDup (igrid I) -> NoDup (map fst (arcs (ig I))) -> (k < num_variables I)%nat ->
    exists v, get_var_tuple_index I k = Some v /\ get_var_index I v = Some k /\ valid_move I v.
Proof. exact tuple_of_index. Qed.
Print Assumptions C18_arc_index_of_tuple_of.

Theorem C18_arc_inadmissible_has_no_index :
  forall I v, ~ valid_move I v -> get_var_index I v = None.
Proof. exact index_of_inadmissible. Qed.
Print Assumptions C18_arc_inadmissible_has_no_index.

Theorem C18_arc_no_tuple_beyond_n :
  forall I k, (num_variables I <= k)%nat -> get_var_tuple_index I k = None.
Proof. exact tuple_beyond. Qed.
Print Assumptions C18_arc_no_tuple_beyond_n.

(* Non-vacuity, with an UNSORTED grid: depot 0 with window (0, inf), customer 1 with window (2, 4),
   arcs 0->1 (travel 2) and 1->0 (travel 1), grid given as [5; 0; 4; 2; 3]. *)
Definition ex_graph : graph :=
  mkGraph [10; 11]%nat [mkNode 10 0 0 PInf; mkNode 11 1 2 (Fin 4)]
          [((0, 1)%nat, mkArc 10 11 2 1); ((1, 0)%nat, mkArc 11 10 1 1)].
Definition ex_inst : inst := mkInst ex_graph [5; 0; 4; 2; 3].
Definition V (i : nat) (s : Z) (j : nat) (t : Z) : var := (i, s, j, t).

Example C18_arc_example_unsorted_grid :
  NoDup (igrid ex_inst) /\ NoDup (map fst (arcs (ig ex_inst))) /\
  tp ex_inst = [0; 2; 3; 4; 5] /\
  vars ex_inst = [V 0 0 1 2; V 0 0 1 3; V 0 0 1 4; V 0 2 1 4;
                  V 1 2 0 3; V 1 2 0 4; V 1 2 0 5; V 1 3 0 4; V 1 3 0 5; V 1 4 0 5] /\
  num_variables ex_inst = 10%nat /\
  get_var_index ex_inst (V 0 2 1 4) = Some 3%nat /\
  get_var_index ex_inst (V 0 3 1 4) = None /\
  get_var_tuple_index ex_inst 10 = None.
Proof.
  split; [repeat constructor; simpl; intuition discriminate|].
  split; [repeat constructor; simpl; intuition discriminate|].
  vm_compute. repeat split; reflexivity.
Qed.

(* the graph of the example is one the VRPTW class produces *)
Example C18_arc_example_graph_reachable :
  run Base [OpAddNode 10 0 0 PInf; OpAddNode 11 1 2 (Fin 4); OpAddArc 10 11 2 1; OpAddArc 11 10 1 1]
      empty_graph = ex_graph.
Proof. vm_compute. reflexivity. Qed.

(* Without the sort the literal break loses tuples: the same loops run over the grid as given
   stop at 5 > 4 before seeing the grid points 4, 2, 3 of the customer's window. *)
Example C18_arc_break_needs_sorted :
  fst (fold_left (fun st kv => enum_arc ex_graph [5; 0; 4; 2; 3] (fst kv) st) (arcs ex_graph) ([], O)) = [].
Proof. vm_compute. reflexivity. Qed.
