(* Routes_arcq_facts.v -- C08, the default-penalty QUBO of the arc-based object on a complete grid.
   C04's arc theorems (Compose_arc_facts.arc_exact) speak about function vectors x : nat -> Z read through
   `tab n x` = [x 0; ...; x (n-1)]; C05 / C08_arc_equiv speak about 0-1 LISTS of length n.  The two are
   related by  tab n (Zvec_of xl) = xl  for a list of length n  and  length (tab n x) = n; with that bridge
   arc_exact composes with arc_equiv. *)
From Coq Require Import ZArith List Bool Lia Sorting.Permutation.
From VQ Require Import Base LinAlg Vrptw Vrptw_facts Path Path_facts Penalty Penalty_facts Compose_facts
                       Routes Routes_facts Routes_views Routes_arc_facts.
From VQ Require Arc Arc_ref Arc_facts Arc_routes Compose_arc_facts.
Import ListNotations.
Open Scope Z_scope.

Notation arc_qubo_min := Compose_arc_facts.arc_qubo_min.
Notation arc_default_value := Compose_arc_facts.arc_default_value.

(* ---------- the bridge between the two representations of a binary vector ---------- *)
(* a function vector, tabulated, is a 0-1 list of the right length ... *)
Lemma arc_solution_of_vec I x :
  Zbinary (Arc.num_variables I) x -> Arc.Ax I (tab (Arc.num_variables I) x) = Arc.rhs I ->
  arc_solution I (tab (Arc.num_variables I) x) (Arc.obj_value I (tab (Arc.num_variables I) x)).
Proof.
  intros Hb HA. split; [apply tab_length|]. split; [apply binL_tab; exact Hb|]. split; [exact HA|reflexivity].
Qed.

(* ... and a 0-1 list of the right length is the tabulation of a binary function vector *)
Lemma vec_of_arc_solution I xl v :
  arc_solution I xl v ->
  Zbinary (Arc.num_variables I) (Zvec_of xl) /\ tab (Arc.num_variables I) (Zvec_of xl) = xl.
Proof.
  intros (Hl & Hb & _). rewrite <- Hl. split; [apply binL_vec_of; exact Hb | apply tab_vec_of].
Qed.

Section ArcQubo.
  Variables (st : pstate) (I : Arc.inst).
  Hypothesis Hg : Arc.ig I = pg st.
  Hypothesis HI : Inv (pg st).
  Hypothesis Hgrid : NoDup (Arc.igrid I).
  Hypothesis Hloop : no_depot_loop st.
  Hypothesis Hdep : nlo (Path.node_at (pg st) O) = 0.
  Hypothesis Hpos : Arc_routes.pos_cc I.
  Hypothesis Hcap : capacity_free st.
  Hypothesis Hgc : grid_complete st (Arc.igrid I).

  Notation n := (Arc.num_variables I).

  (* every partition is matched by a binary function vector of the same cost *)
  Lemma vec_of_partition R : partition st R ->
    exists y, Zbinary n y /\ Arc.Ax I (tab n y) = Arc.rhs I /\ Arc.obj_value I (tab n y) = total_cost st R.
  Proof.
    intros HR. destruct (arc_of_partition st I Hg HI Hgrid Hloop Hdep R Hgc HR) as (xl & Hx).
    destruct (vec_of_arc_solution I xl _ Hx) as [Hb Et]. exists (Zvec_of xl). rewrite Et.
    destruct Hx as (_ & _ & HA & Hv). auto.
  Qed.

  (* every feasible binary function vector is matched by a partition of the same cost, built from its
     selected variables *)
  Lemma partition_of_vec x : Zbinary n x -> Arc.Ax I (tab n x) = Arc.rhs I ->
    exists routes : list (list Arc.var),
      Permutation (Arc.selected I (tab n x)) (concat routes) /\ Forall Arc_routes.sroute routes /\
      partition st (map moves_route routes) /\
      total_cost st (map moves_route routes) = Arc.obj_value I (tab n x).
  Proof.
    intros Hb HA.
    exact (partition_of_arc_routes st I Hg HI Hgrid Hloop Hdep Hpos Hcap _ _ (arc_solution_of_vec I x Hb HA)).
  Qed.

  Lemma keys_nodup : NoDup (map fst (arcs (Arc.ig I))).
  Proof. rewrite Hg. apply (inv_keys _ HI). Qed.

  (* the constrained optima of the arc program are the vectors whose chains form an optimal partition *)
  Lemma arc_opt_optimal x : Compose_arc_facts.arc_opt I x ->
    exists routes : list (list Arc.var),
      Permutation (Arc.selected I (tab n x)) (concat routes) /\ Forall Arc_routes.sroute routes /\
      optimal_partition st (map moves_route routes) /\
      total_cost st (map moves_route routes) = Arc.obj_value I (tab n x).
  Proof.
    intros (Hb & HA & Hbest). destruct (partition_of_vec x Hb HA) as (routes & Hp & Hs & HR & Hc).
    exists routes. split; [exact Hp|]. split; [exact Hs|]. split; [|exact Hc].
    split; [exact HR|]. intros R' HR'. destruct (vec_of_partition R' HR') as (y & Hby & HAy & Hvy).
    rewrite Hc, <- Hvy. apply Hbest; assumption.
  Qed.

  Lemma optimal_arc_opt x R : Zbinary n x -> optimal_partition st R ->
    arc_solution I (tab n x) (total_cost st R) -> Compose_arc_facts.arc_opt I x.
  Proof.
    intros Hb [HR Hopt] (_ & _ & HA & Hv). split; [exact Hb|]. split; [exact HA|].
    intros y Hby HAy. destruct (partition_of_vec y Hby HAy) as (routes & _ & _ & HRy & Hcy).
    fold (Compose_arc_facts.arc_n I). unfold Compose_arc_facts.arc_n. rewrite Hv, <- Hcy. apply Hopt. exact HRy.
  Qed.

  (* C08_arc_qubo: rho = S + 1 with S = S_arc = sum |arc cost| * len(time_points)^2 (C04_arc_coeff_bound).
     When the VRPTW is feasible, x is a binary minimiser of the arc-based default-penalty QUBO  <->  x is
     binary and (its tabulation) solves the arc program with the cost of an optimal partition; the selected
     variables of a minimiser split into depot-to-depot chains whose node lists are an optimal partition; and
     the minimum is the least partition cost. *)
  Theorem arc_qubo :
    (exists R, partition st R) ->
    (forall x, arc_qubo_min I x <->
       (Zbinary n x /\ exists R, optimal_partition st R /\ arc_solution I (tab n x) (total_cost st R))) /\
    (forall x, arc_qubo_min I x ->
       exists routes : list (list Arc.var),
         Permutation (Arc.selected I (tab n x)) (concat routes) /\ Forall Arc_routes.sroute routes /\
         optimal_partition st (map moves_route routes) /\
         total_cost st (map moves_route routes) = arc_default_value I x) /\
    (forall x R, arc_qubo_min I x -> optimal_partition st R -> arc_default_value I x = total_cost st R).
  Proof.
    intros (R0 & HR0). destruct (vec_of_partition R0 HR0) as (z & Hbz & HAz & _).
    destruct (Compose_arc_facts.arc_exact I keys_nodup (ex_intro _ z (conj Hbz HAz))) as [Hsets Hval].
    assert (Hdec : forall x, arc_qubo_min I x ->
       exists routes : list (list Arc.var),
         Permutation (Arc.selected I (tab n x)) (concat routes) /\ Forall Arc_routes.sroute routes /\
         optimal_partition st (map moves_route routes) /\
         total_cost st (map moves_route routes) = arc_default_value I x).
    { intros x Hx. pose proof (proj1 (Hsets x) Hx) as Hopt.
      destruct (arc_opt_optimal x Hopt) as (routes & Hp & Hs & HR & Hc).
      exists routes. split; [exact Hp|]. split; [exact Hs|]. split; [exact HR|].
      rewrite Hc. symmetry. exact (Hval x x Hx Hopt). }
    split; [|split; [exact Hdec|]].
    - intros x. split.
      + intros Hx. split; [exact (proj1 Hx)|]. pose proof (proj1 (Hsets x) Hx) as Hopt.
        destruct (arc_opt_optimal x Hopt) as (routes & _ & _ & HR & Hc).
        exists (map moves_route routes). split; [exact HR|]. rewrite Hc.
        destruct Hopt as (Hb & HA & _). exact (arc_solution_of_vec I x Hb HA).
      + intros (Hb & R & HR & Hsol). apply Hsets. exact (optimal_arc_opt x R Hb HR Hsol).
    - intros x R Hx [HR Hopt]. destruct (Hdec x Hx) as (routes & _ & _ & [HR1 Hopt1] & Hc).
      rewrite <- Hc. apply Z.le_antisymm; [apply Hopt1; exact HR | apply Hopt; exact HR1].
  Qed.
End ArcQubo.
