(* PyReport.v -- the combinators printed by harness/translate_report.py (package `report`, C20).
   Definitions only (facts in PyReport_facts.v).  The translator prints the statement structure of
   QUBOContainer.report 1:1 into these; what a Python construct MEANS is fixed here, in Coq.

   Number types are those of the hand model Report.v: sizes, loop indices and counts are `nat`,
   objective values / tolerances / matrix entries are `Z` (the dyadic values times 16), a Python
   true division `a / b` is the exact, unreduced fraction (a, b) : Z * Z. *)
From Coq Require Import ZArith List Bool String Ascii PeanoNat.
From VQ Require Import Base LinAlg Report.
Import ListNotations.
Open Scope Z_scope.

(* ---------- loops ---------- *)
(* for v in range(a, b): st = body(st, v) *)
Definition range_fold {S : Type} (a b : nat) (body : S -> nat -> S) (st : S) : S :=
  fold_left body (seq a (b - a)) st.

(* for x in l: st = body(st, x) *)
Definition for_each {S A : Type} (l : list A) (body : S -> A -> S) (st : S) : S := fold_left body l st.
(* zip(a, b), zip(a, b, c): stops at the shortest argument *)
Definition zip2 {A B : Type} (a : list A) (b : list B) : list (A * B) := combine a b.
Definition zip3 {A B C : Type} (a : list A) (b : list B) (c : list C) : list (A * B * C) := combine (combine a b) c.

(* ---------- strings ---------- *)
(* "\n" (Coq string literals have no escapes) *)
Definition NL : string := String "010"%char EmptyString.

(* ---------- format(v, '0{}b'.format(w)) and int(s) ---------- *)
(* format(v, 'b'): the binary digits of v without leading zeros ('0' for v = 0), most significant
   first; a digit character '0' / '1' is a bool *)
Definition bin_digits (v : nat) : list bool := bits (S (Nat.log2 v)) v.
(* format(v, '0<w>b'): padded on the left with '0' up to width w -- never truncated *)
Definition format_0b (w v : nat) : list bool :=
  repeat false (w - length (bin_digits v)) ++ bin_digits v.
(* int(s) for a digit character s: the integer 0 / 1, which the objective function reads as a bool
   (Report.xval turns it into the number) *)
Definition int_of_digit (b : bool) : bool := b.

(* ---------- true division ---------- *)
(* a / b : the exact fraction, numerator and denominator kept as written *)
Definition quot := (Z * Z)%type.
Definition mkquot (a b : Z) : quot := (a, b).
(* q1 + q2 on fractions: same denominator -> numerators add (this is the only case the report loop
   meets: every term is  value / N); otherwise the usual cross-multiplication *)
Definition quot_add (p q : quot) : quot :=
  if snd p =? snd q then (fst p + fst q, snd p)
  else (fst p * snd q + fst q * snd p, snd p * snd q).

(* ---------- scipy / numpy reads of an n x n sparse matrix at its dense meaning ---------- *)
(* M.diagonal() *)
Definition py_diagonal (n : nat) (M : zmat) : list Z := map (fun i => M i i) (seq 0 n).
(* np.unique(l) *)
Definition py_unique (l : list Z) : list Z := nodup Z.eq_dec l.

(* ---------- `X is None` ---------- *)
Definition is_none {A} (o : option A) : bool := match o with None => true | Some _ => false end.

(* ---------- the result dictionary ---------- *)
Inductive rval := VNat (n : nat) | VInt (z : Z) | VQuot (q : quot).
Definition rdict := list (string * rval).
(* d[k] = v : replaces the value of an existing key in place, else appends (insertion order) *)
Fixpoint dict_set (d : rdict) (k : string) (v : rval) : rdict :=
  match d with
  | [] => [(k, v)]
  | (k', v') :: r => if String.eqb k k' then (k, v) :: r else (k', v') :: dict_set r k v
  end.
Fixpoint dict_get (d : rdict) (k : string) : option rval :=
  match d with
  | [] => None
  | (k', v') :: r => if String.eqb k k' then Some v' else dict_get r k
  end.

(* ---------- how the hand model's results read as that dictionary ---------- *)
(* The hand model's state (sum, opt, second, count) against the loop-carried variables of the
   source in the order in which the source first assigns them (opt_val, second_best, opt_count,
   exp_val): exp_val is the exact fraction  sum / 2^n. *)
Definition gstate := (Z * option Z * nat * quot)%type.
Definition to_gen (n : nat) (st : sstate) : gstate :=
  match st with (sm, opt, sec, cnt) => (opt, sec, cnt, (sm, Z.of_nat (2 ^ n))) end.

Definition metrics_entries (m : metrics) : rdict :=
  match m with
  | (sz, nobs, dens, dist) =>
      [("size"%string, VNat sz); ("num_observables"%string, VInt nobs); ("density"%string, VQuot dens);
       ("distinct_eigenvalues"%string, VNat dist)]
  end.
(* expected_value = sum / 2^n; the optimality_gap key exists only with a runner-up *)
Definition stats_entries (n : nat) (st : sstate) : rdict :=
  match st with
  | (sm, opt, sec, cnt) =>
      [("optimal_value"%string, VInt opt); ("num_solutions"%string, VNat cnt);
       ("expected_value"%string, VQuot (sm, Z.of_nat (2 ^ n)))] ++
      match sec with None => [] | Some s => [("optimality_gap"%string, VInt (s - opt))] end
  end.
Definition report_dict (n : nat) (r : metrics * option sstate) : rdict :=
  metrics_entries (fst r) ++ match snd r with None => [] | Some st => stats_entries n st end.
