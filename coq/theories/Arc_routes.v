(* Arc_routes.v -- the route structure behind the arc-based constraints: chain following (get_routes)
   succeeds on every vector in local form and returns depot-to-depot walks that use every selected
   move exactly once.  [C05] *)
From Coq Require Import Sorting.Sorted Sorting.Permutation ZifyBool.
From VQ Require Import Base Vrptw Vrptw_facts Arc Arc_facts.

(* ====================================================================== *)
(* 1. counting                                                             *)
(* ====================================================================== *)
Lemma cnt_cons P a l : cnt P (a :: l) = ((if P a then 1 else 0) + cnt P l)%nat.
Proof. unfold cnt; simpl. destruct (P a); reflexivity. Qed.

Lemma cnt_app P l m : cnt P (l ++ m) = (cnt P l + cnt P m)%nat.
Proof. unfold cnt. rewrite filter_app, app_length. reflexivity. Qed.

Lemma cnt_perm P l l' : Permutation l l' -> cnt P l = cnt P l'.
Proof.
  induction 1 as [|a l l' _ IH|a b l|l l' l'' _ IH1 _ IH2].
  - reflexivity.
  - rewrite !cnt_cons, IH. reflexivity.
  - rewrite !cnt_cons. lia.
  - congruence.
Qed.

Lemma cnt_mono P Q l : (forall v, P v = true -> Q v = true) -> (cnt P l <= cnt Q l)%nat.
Proof.
  intros H. induction l as [|a l IH]; [reflexivity|]. rewrite !cnt_cons.
  destruct (P a) eqn:E; [rewrite (H a E); lia | destruct (Q a); lia].
Qed.

Lemma cnt_split P Q l :
  cnt P l = (cnt (fun v => P v && Q v) l + cnt (fun v => P v && negb (Q v)) l)%nat.
Proof.
  induction l as [|a l IH]; [reflexivity|]. rewrite !cnt_cons, IH.
  destruct (P a), (Q a); simpl; lia.
Qed.

Lemma cnt_In P v l : In v l -> P v = true -> (1 <= cnt P l)%nat.
Proof.
  induction l as [|a l IH]; simpl; [tauto|]. intros [->|H] HP; rewrite cnt_cons.
  - rewrite HP. lia.
  - specialize (IH H HP). lia.
Qed.

Lemma cnt_witness P l : (1 <= cnt P l)%nat -> exists v, In v l /\ P v = true.
Proof.
  induction l as [|a l IH]; [unfold cnt; simpl; lia|]. rewrite cnt_cons.
  destruct (P a) eqn:E; [exists a; simpl; auto|].
  intros H. destruct IH as (v & Hv & HP); [lia|]. exists v; simpl; auto.
Qed.

Lemma cnt_zero P l : cnt P l = 0%nat -> forall v, In v l -> P v = false.
Proof.
  intros H v Hv. destruct (P v) eqn:E; [|reflexivity].
  pose proof (cnt_In P v l Hv E). lia.
Qed.

Lemma cnt_into_split j t l :
  cnt (into_node j) l = (cnt (into (j, t)) l + cnt (fun u => into_node j u && negb (arr u =? t)%Z) l)%nat.
Proof. rewrite (cnt_split (into_node j) (fun u => arr u =? t)). reflexivity. Qed.

Lemma cnt_outof_split j t l :
  cnt (outof_node j) l = (cnt (outof (j, t)) l + cnt (fun u => outof_node j u && negb (dep u =? t)%Z) l)%nat.
Proof. rewrite (cnt_split (outof_node j) (fun u => dep u =? t)). reflexivity. Qed.

(* ====================================================================== *)
(* 2. pop_first                                                            *)
(* ====================================================================== *)
Lemma pop_first_Some p l w l' :
  pop_first p l = Some (w, l') ->
  orig w = p /\ exists l1 l2, l = l1 ++ w :: l2 /\ l' = l1 ++ l2.
Proof.
  revert w l'; induction l as [|a l IH]; simpl; intros w l'; [discriminate|].
  destruct (nt_eqb p (orig a)) eqn:E.
  - intros H; inversion H; subst. apply nt_eqb_eq in E. split; [auto|]. exists [], l'; auto.
  - destruct (pop_first p l) as [[b r]|]; [|discriminate].
    intros H; inversion H; subst. destruct (IH w r eq_refl) as (Ho & l1 & l2 & E1 & E2).
    split; [exact Ho|]. exists (a :: l1), l2. subst; auto.
Qed.

Lemma pop_first_None p l : pop_first p l = None -> cnt (outof p) l = 0%nat.
Proof.
  induction l as [|a l IH]; simpl; [reflexivity|].
  destruct (nt_eqb p (orig a)) eqn:E; [discriminate|].
  destruct (pop_first p l) as [[b r]|]; [discriminate|]. intros _.
  rewrite cnt_cons, IH by reflexivity. unfold outof.
  destruct (nt_eqb (orig a) p) eqn:E'; [|reflexivity].
  apply nt_eqb_eq in E'. subst p. assert (nt_eqb (orig a) (orig a) = true) by (apply nt_eqb_eq; reflexivity).
  congruence.
Qed.

Lemma Permutation_middle' {A} (l1 l2 : list A) w : Permutation (l1 ++ w :: l2) (w :: l1 ++ l2).
Proof. symmetry. apply Permutation_middle. Qed.

Lemma StronglySorted_remove {A} (R : A -> A -> Prop) l1 w l2 :
  StronglySorted R (l1 ++ w :: l2) -> StronglySorted R (l1 ++ l2).
Proof.
  induction l1 as [|a l1 IH]; simpl; intros H; inversion H as [|? ? Hs Hf]; subst; [exact Hs|].
  constructor; [apply IH; exact Hs|].
  rewrite Forall_forall in *. intros y Hy. apply Hf. rewrite in_app_iff in *. simpl. tauto.
Qed.

(* ====================================================================== *)
(* 3. sorting by origin node                                               *)
(* ====================================================================== *)
Definition onode_le (a b : var) : Prop := (onode a <= onode b)%nat.

Lemma var_leb_onode a b : var_leb a b = true -> onode_le a b.
Proof.
  destruct a as [[[i s] j] t], b as [[[i' s'] j'] t']; unfold var_leb, onode_le, onode, orig; cbn [fst].
  destruct (Nat.ltb_spec i i'); [lia|]. destruct (Nat.ltb_spec i' i); [discriminate|]. lia.
Qed.

Lemma var_leb_false_onode a b : var_leb a b = false -> onode_le b a.
Proof.
  destruct a as [[[i s] j] t], b as [[[i' s'] j'] t']; unfold var_leb, onode_le, onode, orig; cbn [fst].
  destruct (Nat.ltb_spec i i'); [discriminate|]. lia.
Qed.

Lemma insertV_perm x l : Permutation (insertV x l) (x :: l).
Proof.
  induction l as [|y l IH]; simpl; [reflexivity|].
  destruct (var_leb x y); [reflexivity|]. rewrite IH. apply perm_swap.
Qed.

Lemma sortV_perm l : Permutation (sortV l) l.
Proof. induction l as [|x l IH]; simpl; [constructor|]. rewrite insertV_perm. constructor. exact IH. Qed.

Lemma insertV_sorted x l : StronglySorted onode_le l -> StronglySorted onode_le (insertV x l).
Proof.
  induction l as [|y l IH]; simpl; intros H.
  - constructor; constructor.
  - inversion H as [|? ? Hs Hf]; subst. destruct (var_leb x y) eqn:E.
    + constructor; [exact H|]. apply var_leb_onode in E. constructor; [exact E|].
      eapply Forall_impl; [|exact Hf]. unfold onode_le in *. intros; lia.
    + constructor; [apply IH; exact Hs|]. apply var_leb_false_onode in E.
      apply Forall_forall. intros z Hz. eapply Permutation_in in Hz; [|apply insertV_perm].
      destruct Hz as [<-|Hz]; [exact E|]. rewrite Forall_forall in Hf. apply Hf; exact Hz.
Qed.

Lemma sortV_sorted l : StronglySorted onode_le (sortV l).
Proof. induction l as [|x l IH]; simpl; [constructor|]. apply insertV_sorted; exact IH. Qed.

(* ====================================================================== *)
(* 4. balance of a multiset of moves                                       *)
(* ====================================================================== *)
(* customer j is untouched, or entered once and left once at the same time *)
Definition bal (l : list var) (j : nat) : Prop :=
  (cnt (into_node j) l = 0 /\ cnt (outof_node j) l = 0)%nat \/
  exists t, (cnt (into_node j) l = 1 /\ cnt (into (j, t)) l = 1 /\
             cnt (outof_node j) l = 1 /\ cnt (outof (j, t)) l = 1)%nat.

(* customer j has been entered at time t (by a move no longer in l); its exit is still in l *)
Definition pending (l : list var) (j : nat) (t : Z) : Prop :=
  (cnt (into_node j) l = 0 /\ cnt (outof_node j) l = 1 /\ cnt (outof (j, t)) l = 1)%nat.

Lemma bal_perm l l' j : Permutation l l' -> bal l j -> bal l' j.
Proof.
  intros Hp [[H1 H2]|(t & H1 & H2 & H3 & H4)].
  - left. rewrite <- !(cnt_perm _ l l' Hp). auto.
  - right. exists t. rewrite <- !(cnt_perm _ l l' Hp). auto.
Qed.

Lemma pending_perm l l' j t : Permutation l l' -> pending l j t -> pending l' j t.
Proof. intros Hp (H1 & H2 & H3). unfold pending. rewrite <- !(cnt_perm _ l l' Hp). auto. Qed.

Lemma into_node_true j v : into_node j v = true <-> dnode v = j.
Proof. unfold into_node. apply Nat.eqb_eq. Qed.
Lemma outof_node_true j v : outof_node j v = true <-> onode v = j.
Proof. unfold outof_node. apply Nat.eqb_eq. Qed.
Lemma into_node_false j v : into_node j v = false <-> dnode v <> j.
Proof. unfold into_node. apply Nat.eqb_neq. Qed.
Lemma outof_node_false j v : outof_node j v = false <-> onode v <> j.
Proof. unfold outof_node. apply Nat.eqb_neq. Qed.

Lemma into_true p v : into p v = true <-> dest v = p.
Proof. unfold into. apply nt_eqb_eq. Qed.
Lemma outof_true p v : outof p v = true <-> orig v = p.
Proof. unfold outof. apply nt_eqb_eq. Qed.

Lemma into_implies_node j t v : into (j, t) v = true -> into_node j v = true.
Proof. rewrite into_split. intros H. apply andb_true_iff in H. tauto. Qed.
Lemma outof_implies_node j t v : outof (j, t) v = true -> outof_node j v = true.
Proof. rewrite outof_split. intros H. apply andb_true_iff in H. tauto. Qed.

(* removing the move that enters j *)
Lemma bal_remove_in w l j :
  bal (w :: l) j -> dnode w = j -> onode w <> j -> pending l j (arr w).
Proof.
  intros Hb Hd Ho. apply into_node_true in Hd. apply outof_node_false in Ho.
  destruct Hb as [[H1 _]|(t & H1 & H2 & H3 & H4)].
  - rewrite cnt_cons, Hd in H1. lia.
  - rewrite cnt_cons in H1, H2, H3, H4. rewrite Hd in H1. rewrite Ho in H3.
    assert (Hle : (cnt (into (j, t)) l <= cnt (into_node j) l)%nat)
      by (apply cnt_mono; intros v; apply into_implies_node).
    destruct (into (j, t) w) eqn:E; [|lia].
    assert (Ht : arr w = t).
    { apply into_true in E. rewrite dest_eta in E. inversion E; reflexivity. }
    assert (Hout : outof (j, t) w = false).
    { destruct (outof (j, t) w) eqn:E'; [|reflexivity]. apply outof_implies_node in E'. congruence. }
    rewrite Hout in H4. subst t. unfold pending. lia.
Qed.

(* removing the move that leaves j *)
Lemma pending_remove_out w l j t :
  pending (w :: l) j t -> onode w = j -> bal l j.
Proof.
  intros (H1 & H2 & H3) Ho. apply outof_node_true in Ho.
  rewrite cnt_cons in H1, H2. rewrite Ho in H2. left. lia.
Qed.

Lemma pending_no_in w l j t : pending (w :: l) j t -> dnode w <> j.
Proof.
  intros (H1 & _) E. apply into_node_true in E. rewrite cnt_cons, E in H1. lia.
Qed.

Lemma cnt_untouched_in w l j : dnode w <> j -> cnt (into_node j) (w :: l) = cnt (into_node j) l.
Proof. intros H. apply into_node_false in H. rewrite cnt_cons, H. reflexivity. Qed.
Lemma cnt_untouched_out w l j : onode w <> j -> cnt (outof_node j) (w :: l) = cnt (outof_node j) l.
Proof. intros H. apply outof_node_false in H. rewrite cnt_cons, H. reflexivity. Qed.
Lemma cnt_untouched_in_t w l j t : dnode w <> j -> cnt (into (j, t)) (w :: l) = cnt (into (j, t)) l.
Proof.
  intros H. rewrite cnt_cons. destruct (into (j, t) w) eqn:E; [|reflexivity].
  apply into_implies_node, into_node_true in E. contradiction.
Qed.
Lemma cnt_untouched_out_t w l j t : onode w <> j -> cnt (outof (j, t)) (w :: l) = cnt (outof (j, t)) l.
Proof.
  intros H. rewrite cnt_cons. destruct (outof (j, t) w) eqn:E; [|reflexivity].
  apply outof_implies_node, outof_node_true in E. contradiction.
Qed.

Lemma bal_untouched w l j : dnode w <> j -> onode w <> j -> bal (w :: l) j -> bal l j.
Proof.
  intros Hd Ho [[H1 H2]|(t & H1 & H2 & H3 & H4)].
  - left. rewrite cnt_untouched_in in H1 by auto. rewrite cnt_untouched_out in H2 by auto. auto.
  - right. exists t. rewrite cnt_untouched_in in H1 by auto. rewrite cnt_untouched_out in H3 by auto.
    rewrite cnt_untouched_in_t in H2 by auto. rewrite cnt_untouched_out_t in H4 by auto. auto.
Qed.

(* ====================================================================== *)
(* 5. visit counters                                                       *)
(* ====================================================================== *)
Lemma incr_Some k l :
  (k < length l)%nat ->
  exists l', incr k l = Some l' /\ length l' = length l /\
             forall j, nth j l' 0 = nth j l 0 + (if Nat.eqb j k then 1 else 0).
Proof.
  revert k; induction l as [|x l IH]; intros k Hk; simpl in Hk; [lia|].
  destruct k as [|k]; simpl.
  - exists (x + 1 :: l). repeat split. intros [|j]; simpl; lia.
  - destruct (IH k) as (l' & E & Hlen & Hn); [lia|]. rewrite E. simpl.
    exists (x :: l'). repeat split; [simpl; lia|]. intros [|j]; simpl; [lia | apply Hn].
Qed.

Definition vis_add (vis vis' : list Z) (ms : list var) : Prop :=
  length vis' = length vis /\
  forall j, nth j vis' 0 = nth j vis 0 + Z.of_nat (cnt (into_node j) ms).

(* ====================================================================== *)
(* 6. chain following                                                      *)
(* ====================================================================== *)
Fixpoint chained (ms : list var) : Prop :=
  match ms with
  | a :: ((b :: _) as tl) => dest a = orig b /\ chained tl
  | _ => True
  end.

(* the (node, time) list get_routes writes for a chain of moves *)
Definition route_of (ms : list var) : route :=
  match ms with
  | [] => []
  | a :: tl => map orig ms ++ [dest (last tl a)]
  end.

Lemma last_cons_default {A} (ms : list A) w a : last (w :: ms) a = last ms w.
Proof.
  revert w a; induction ms as [|b ms IH]; intros w a; [reflexivity|].
  change (last (w :: b :: ms) a) with (last (b :: ms) a). rewrite (IH b a), (IH b w). reflexivity.
Qed.

Lemma route_of_cons2 a w ms : route_of (a :: w :: ms) = orig a :: route_of (w :: ms).
Proof. unfold route_of. rewrite last_cons_default. reflexivity. Qed.

Section Decode.
  Variable I : inst.
  Let g := ig I.
  Let N := length (nodes g).
  Hypothesis Hwf : wf_graph g.

  Definition mid (a : var) (l : list var) : Prop :=
    forall j, (1 <= j < N)%nat ->
      (j = dnode a -> pending l j (arr a)) /\ (j <> dnode a -> bal l j).
  Definition balanced (l : list var) : Prop := forall j, (1 <= j < N)%nat -> bal l j.
  Definition all_vars (l : list var) : Prop := forall v, In v l -> In v (vars I).

  Lemma var_nodes_lt v : In v (vars I) -> (onode v < N)%nat /\ (dnode v < N)%nat.
  Proof.
    intros Hv. apply vars_exact in Hv. destruct v as [[[i s] j] t].
    destruct Hv as (a & Ha & _). apply dict_get_In in Ha.
    exact (proj2 Hwf _ _ Ha).
  Qed.

  Lemma var_compat v : In v (vars I) -> compat g (dnode v) (arr v) = true.
  Proof.
    intros Hv. apply vars_exact in Hv. destruct v as [[[i s] j] t].
    destruct Hv as (a & _ & _ & _ & _ & _ & H1 & H2 & _).
    unfold compat, dnode, arr, dest; cbn [fst snd]. apply andb_true_iff.
    split; [apply Z.leb_le; exact H1 | apply ext_leb_le; exact H2].
  Qed.

  Lemma mid_step a rest w rest1 :
    mid a rest -> Permutation rest (w :: rest1) -> orig w = dest a -> mid w rest1.
  Proof.
    intros Hm Hp Ho j Hj.
    assert (Hon : onode w = dnode a) by (unfold onode, dnode; rewrite Ho; reflexivity).
    assert (Hdp : dep w = arr a) by (unfold dep, arr; rewrite Ho; reflexivity).
    destruct (Hm j Hj) as [Hm1 Hm2]. split.
    - intros ->.
      assert (Hne : dnode w <> dnode a).
      { intros E. pose proof (Hm1 E) as Hpd. apply (pending_perm _ _ _ _ Hp) in Hpd.
        apply pending_no_in in Hpd. congruence. }
      apply bal_remove_in; [apply (bal_perm _ _ _ Hp); apply Hm2; exact Hne | reflexivity | congruence].
    - intros Hne. destruct (Nat.eq_dec j (dnode a)) as [E|E].
      + pose proof (Hm1 E) as Hpd. apply (pending_perm _ _ _ _ Hp) in Hpd.
        eapply pending_remove_out; [exact Hpd | congruence].
      + apply (bal_untouched w); [congruence | congruence |].
        apply (bal_perm _ _ _ Hp). apply Hm2; exact E.
  Qed.

  Lemma follow_ok : forall fuel a rest r vis,
    (length rest < fuel)%nat -> all_vars (a :: rest) -> mid a rest -> length vis = N ->
    exists ms rest' vis',
      follow fuel g a rest r vis = Ok (r ++ route_of (a :: ms), rest', vis') /\
      chained (a :: ms) /\ dnode (last ms a) = 0%nat /\
      Permutation rest (ms ++ rest') /\ balanced rest' /\ vis_add vis vis' (a :: ms) /\
      (forall R : var -> var -> Prop, StronglySorted R rest -> StronglySorted R rest').
  Proof.
    induction fuel as [|f IH]; intros a rest r vis Hlen Hall Hmid Hvis; [lia|].
    assert (Ha : In a (vars I)) by (apply Hall; left; reflexivity).
    destruct (var_nodes_lt a Ha) as [_ Hdn].
    destruct (incr_Some (dnode a) vis) as (vis1 & Ei & Hl1 & Hn1); [lia|].
    cbn [follow]. rewrite Ei, (var_compat a Ha). cbn [negb].
    destruct (pop_first (dest a) rest) as [[w rest1]|] eqn:Ep.
    - destruct (pop_first_Some _ _ _ _ Ep) as (Ho & l1 & l2 & E1 & E2).
      assert (Hp : Permutation rest (w :: rest1)) by (subst; apply Permutation_middle').
      destruct (IH w rest1 (r ++ [orig a]) vis1) as (ms & rest' & vis' & Ef & Hch & Hlast & Hperm & Hbal & Hva & Hsort).
      + subst rest rest1. rewrite app_length in *. simpl in Hlen. lia.
      + intros v Hv. apply Hall. right. eapply Permutation_in; [symmetry; exact Hp | exact Hv].
      + eapply mid_step; eauto.
      + lia.
      + exists (w :: ms), rest', vis'. split; [|split; [|split; [|split; [|split; [|split]]]]].
        * rewrite Ef. rewrite route_of_cons2, <- app_assoc. reflexivity.
        * split; [symmetry; exact Ho | exact Hch].
        * rewrite last_cons_default. exact Hlast.
        * rewrite Hp. cbn [app]. constructor. exact Hperm.
        * exact Hbal.
        * destruct Hva as [Hva1 Hva2]. split; [lia|]. intros j.
          rewrite Hva2, Hn1. rewrite (cnt_cons _ a). unfold into_node at 2.
          destruct (Nat.eqb_spec j (dnode a)), (Nat.eqb_spec (dnode a) j); lia.
        * intros R HR. apply Hsort. subst rest rest1. eapply StronglySorted_remove; exact HR.
    - apply pop_first_None in Ep.
      assert (Hd0 : dnode a = 0%nat).
      { destruct (Nat.eq_dec (dnode a) 0) as [E|E]; [exact E|]. exfalso.
        destruct (Hmid (dnode a)) as [Hm1 _]; [lia|].
        destruct (Hm1 eq_refl) as (_ & _ & H3). rewrite <- dest_eta in H3. lia. }
      exists [], rest, vis1. split; [|split; [|split; [|split; [|split; [|split]]]]].
      + cbn [route_of map last app]. rewrite <- app_assoc. reflexivity.
      + exact Logic.I.
      + exact Hd0.
      + reflexivity.
      + intros j Hj. apply (Hmid j Hj). lia.
      + split; [exact Hl1|]. intros j. rewrite Hn1, cnt_cons. unfold into_node, cnt; simpl.
        destruct (Nat.eqb_spec j (dnode a)), (Nat.eqb_spec (dnode a) j); lia.
      + auto.
  Qed.

  (* ---------- every non-empty balanced remainder contains a move that leaves the depot ---------- *)
  Definition pos_cc : Prop :=
    forall i j a, dict_get (i, j) (arcs g) = Some a -> i <> 0%nat -> j <> 0%nat -> 0 < att a.
  Hypothesis Hpos : pos_cc.

  Lemma cc_time_increases v :
    In v (vars I) -> onode v <> 0%nat -> dnode v <> 0%nat -> dep v < arr v.
  Proof.
    intros Hv Ho Hd. apply vars_exact in Hv. destruct v as [[[i s] j] t].
    destruct Hv as (a & Ha & _ & _ & _ & _ & _ & _ & Hle).
    unfold onode, dnode, dep, arr, orig, dest in *; cbn [fst snd] in *.
    pose proof (Hpos i j a Ha Ho Hd). lia.
  Qed.

  Lemma exists_min_dep (l : list var) :
    l <> [] -> exists m, In m l /\ forall u, In u l -> dep m <= dep u.
  Proof.
    induction l as [|a l IH]; [congruence|]. intros _.
    destruct l as [|b l].
    - exists a. split; [left; reflexivity|]. intros u [<-|[]]. lia.
    - destruct IH as (m & Hm & Hmin); [discriminate|].
      destruct (Z_le_gt_dec (dep a) (dep m)) as [Hle|Hgt].
      + exists a. split; [left; reflexivity|]. intros u [<-|Hu]; [lia|]. specialize (Hmin u Hu). lia.
      + exists m. split; [right; exact Hm|]. intros u [<-|Hu]; [lia|]. apply Hmin; exact Hu.
  Qed.

  Lemma head_leaves_depot a rest :
    all_vars (a :: rest) -> balanced (a :: rest) -> StronglySorted onode_le (a :: rest) -> onode a = 0%nat.
  Proof.
    intros Hall Hbal Hs. destruct (Nat.eq_dec (onode a) 0) as [E|E]; [exact E|]. exfalso.
    set (l := a :: rest) in *.
    assert (Hnz : forall v, In v l -> onode v <> 0%nat).
    { intros v [<-|Hv]; [exact E|]. inversion Hs as [|? ? _ Hf]; subst.
      rewrite Forall_forall in Hf. specialize (Hf v Hv). unfold onode_le in Hf. lia. }
    destruct (exists_min_dep l) as (m & Hm & Hmin); [discriminate|].
    destruct (var_nodes_lt m (Hall m Hm)) as [Hlt _].
    pose proof (Hnz m Hm) as Hm0.
    assert (Hout : (1 <= cnt (outof_node (onode m)) l)%nat)
      by (apply (cnt_In _ m); [exact Hm | apply outof_node_true; reflexivity]).
    destruct (Hbal (onode m)) as [[_ H2]|(t & H1 & H2 & H3 & H4)]; [lia | lia |].
    assert (Ht : dep m = t).
    { pose proof (cnt_outof_split (onode m) t l) as Hsp.
      assert (Hz : cnt (fun u => outof_node (onode m) u && negb (dep u =? t)) l = 0%nat) by lia.
      pose proof (cnt_zero _ _ Hz m Hm) as Hf. cbv beta in Hf.
      assert (Ho : outof_node (onode m) m = true) by (apply outof_node_true; reflexivity).
      rewrite Ho in Hf. simpl in Hf. apply negb_false_iff in Hf. lia. }
    destruct (cnt_witness (into (onode m, t)) l) as (u & Hu & Hin); [lia|].
    apply into_true in Hin. rewrite dest_eta in Hin. inversion Hin as [[Hd Ha]].
    assert (dep u < arr u).
    { apply cc_time_increases; [apply Hall; exact Hu | apply Hnz; exact Hu | lia]. }
    specialize (Hmin u Hu). lia.
  Qed.

  (* ---------- the outer loop ---------- *)
  (* a depot-to-depot chain of moves *)
  Definition walk (ms : list var) : Prop :=
    match ms with
    | [] => False
    | a :: tl => onode a = 0%nat /\ dnode (last tl a) = 0%nat /\ chained ms
    end.

  Lemma mid_start a rest : balanced (a :: rest) -> onode a = 0%nat -> mid a rest.
  Proof.
    intros Hbal Ho j Hj. split.
    - intros ->. apply bal_remove_in; [apply Hbal; exact Hj | reflexivity | lia].
    - intros Hne. apply (bal_untouched a); [congruence | lia | apply Hbal; exact Hj].
  Qed.

  Lemma routes_loop_ok : forall fuel rest rs vis,
    (length rest <= fuel)%nat -> all_vars rest -> balanced rest -> StronglySorted onode_le rest ->
    length vis = N ->
    exists mss vis',
      routes_loop fuel g rest rs vis = Ok (rs ++ map route_of mss, vis') /\
      Permutation rest (concat mss) /\ Forall walk mss /\ vis_add vis vis' rest.
  Proof.
    induction fuel as [|f IH]; intros rest rs vis Hlen Hall Hbal Hs Hvis.
    - destruct rest as [|a rest0]; [|simpl in Hlen; lia].
      exists [], vis. simpl. rewrite app_nil_r. repeat split; auto.
      intros j. unfold cnt; simpl. lia.
    - destruct rest as [|a rest0].
      + exists [], vis. simpl. rewrite app_nil_r. repeat split; auto.
        intros j. unfold cnt; simpl. lia.
      + pose proof (head_leaves_depot a rest0 Hall Hbal Hs) as Ho.
        destruct (follow_ok (S (length rest0)) a rest0 [] vis) as
            (ms & rest' & vis1 & Ef & Hch & Hlast & Hperm & Hbal' & Hva & Hsort);
          [lia | exact Hall | apply mid_start; assumption | exact Hvis |].
        cbn [routes_loop]. rewrite Ef. cbn [app].
        assert (Hlen' : length rest0 = (length ms + length rest')%nat)
          by (rewrite (Permutation_length Hperm), app_length; reflexivity).
        destruct Hva as [Hva1 Hva2].
        destruct (IH rest' (rs ++ [route_of (a :: ms)]) vis1) as (mss & vis' & El & Hp2 & Hw & Hva');
          [simpl in Hlen; lia | | exact Hbal' | | lia |].
        * intros v Hv. apply Hall. right. eapply Permutation_in; [symmetry; exact Hperm|].
          apply in_app_iff. right; exact Hv.
        * apply Hsort. inversion Hs; assumption.
        * exists ((a :: ms) :: mss), vis'. split; [|split; [|split]].
          -- rewrite El. cbn [map]. rewrite <- app_assoc. reflexivity.
          -- cbn [concat app]. constructor. rewrite Hperm. apply Permutation_app_head. exact Hp2.
          -- constructor; [|exact Hw]. cbn [walk]. auto.
          -- destruct Hva' as [Hvb1 Hvb2]. split; [lia|]. intros j.
             rewrite Hvb2, Hva2.
             assert (Hc : cnt (into_node j) (a :: rest0) = (cnt (into_node j) (a :: ms) + cnt (into_node j) rest')%nat).
             { rewrite !cnt_cons, (cnt_perm _ _ _ Hperm), cnt_app. lia. }
             rewrite Hc. lia.
  Qed.

  (* ---------- get_routes ---------- *)
  Lemma nonzero_selected_gen (vs : list var) : forall (x : list Z) (pv : list var),
    length vs = length x ->
    map (nth_error (pv ++ vs))
        (map fst (filter (fun p : nat * Z => negb (snd p =? 0)) (combine (seq (length pv) (length x)) x)))
    = map Some (map fst (filter (fun p : var * Z => negb (snd p =? 0)) (combine vs x))).
  Proof.
    induction vs as [|v vs IH]; intros x pv Hl; destruct x as [|xv x]; try discriminate; [reflexivity|].
    simpl in Hl. injection Hl as Hl.
    cbn [length seq combine filter snd].
    specialize (IH x (pv ++ [v])). rewrite app_length in IH. cbn [length] in IH.
    rewrite Nat.add_1_r, <- app_assoc in IH. cbn [app] in IH.
    destruct (negb (xv =? 0)); cbn [map fst].
    - rewrite IH by exact Hl. f_equal.
      rewrite nth_error_app2 by lia. rewrite Nat.sub_diag. reflexivity.
    - apply IH; exact Hl.
  Qed.

  Lemma all_some_map_Some {A} (l : list A) : all_some (map Some l) = Some l.
  Proof. induction l as [|a l IH]; simpl; [reflexivity|]. rewrite IH. reflexivity. Qed.

  Lemma nonzero_selected x :
    length x = num_variables I ->
    all_some (map (nth_error (vars I)) (nonzero x)) = Some (selected I x).
  Proof.
    intros Hl. rewrite num_variables_length in Hl. unfold nonzero, enumerate_list, selected.
    pose proof (nonzero_selected_gen (vars I) x [] (eq_sym Hl)) as H. cbn [app length] in H.
    rewrite H. apply all_some_map_Some.
  Qed.

  Lemma forallb_tl_ones (l : list Z) :
    (forall j, (1 <= j < length l)%nat -> nth j l 0 = 1) -> forallb (fun c => c =? 1) (tl l) = true.
  Proof.
    intros H. destruct l as [|x l]; [reflexivity|]. simpl. apply forallb_forall. intros c Hc.
    destruct (In_nth _ _ 0 Hc) as (k & Hk & <-).
    specialize (H (S k)). simpl in H. rewrite H by lia. reflexivity.
  Qed.

  Lemma selected_in_vars x v : In v (selected I x) -> In v (vars I).
  Proof.
    unfold selected. rewrite in_map_iff. intros ([w xw] & <- & Hin). apply filter_In in Hin.
    destruct Hin as [Hin _]. eapply in_combine_l; exact Hin.
  Qed.

  Lemma nonzero_length x :
    length x = num_variables I -> length (nonzero x) = length (selected I x).
  Proof.
    intros Hl. rewrite num_variables_length in Hl.
    pose proof (nonzero_selected_gen (vars I) x [] (eq_sym Hl)) as H. cbn [app length] in H.
    apply (f_equal (@length _)) in H. rewrite !map_length in H.
    unfold nonzero, enumerate_list, selected. rewrite !map_length. exact H.
  Qed.

  Lemma get_routes_unfold x :
    length x = num_variables I -> selected I x <> [] ->
    get_routes I x =
    match routes_loop (length (sortV (selected I x))) g (sortV (selected I x)) [] (repeat 0 N) with
    | Err e => Err e
    | Ok (rs, vis) => if forallb (fun c => c =? 1) (tl vis) then Ok rs else Err AssertionError
    end.
  Proof.
    intros Hl Hne. unfold get_routes. pose proof (nonzero_length x Hl) as Hlen.
    pose proof (nonzero_selected x Hl) as H.
    destruct (nonzero x) as [|k ks] eqn:En.
    - destruct (selected I x); [congruence | discriminate].
    - cbv zeta. rewrite H. reflexivity.
  Qed.

  Lemma get_routes_empty x :
    length x = num_variables I -> selected I x = [] ->
    get_routes I x = if Nat.leb N 1 then Ok [] else Err AssertionError.
  Proof.
    intros Hl He. unfold get_routes. pose proof (nonzero_length x Hl) as Hlen. rewrite He in Hlen.
    destruct (nonzero x); [reflexivity | discriminate].
  Qed.

  Theorem decode_of_local x :
    length x = num_variables I -> local_form I x ->
    exists mss, get_routes I x = Ok (map route_of mss) /\
                Permutation (selected I x) (concat mss) /\ Forall walk mss.
  Proof.
    intros Hl HL.
    destruct (selected I x) as [|s0 sl] eqn:Esel.
    { (* nothing selected: only possible without customers *)
      exists []. rewrite (get_routes_empty x Hl Esel).
      destruct (Nat.leb_spec N 1) as [HN|HN]; [repeat split; constructor|]. exfalso.
      destruct (HL 1%nat) as (t & H1 & _); [fold g; fold N; lia|]. rewrite Esel in H1. discriminate. }
    rewrite <- Esel in *.
    assert (Hne : selected I x <> []) by (rewrite Esel; discriminate).
    rewrite (get_routes_unfold x Hl Hne).
    pose proof (sortV_perm (selected I x)) as Hps.
    destruct (routes_loop_ok (length (sortV (selected I x))) (sortV (selected I x)) [] (repeat 0 N))
      as (mss & vis' & El & Hp & Hw & Hva).
    - lia.
    - intros v Hv. apply (selected_in_vars x). eapply Permutation_in; [exact Hps | exact Hv].
    - intros j Hj. apply (bal_perm (selected I x)); [symmetry; exact Hps|].
      right. destruct (HL j Hj) as (t & H). exists t. exact H.
    - apply sortV_sorted.
    - apply repeat_length.
    - rewrite El. cbn [app]. destruct Hva as [Hv1 Hv2].
      rewrite forallb_tl_ones.
      + exists mss. split; [reflexivity|]. split; [|exact Hw].
        rewrite <- Hp. symmetry. exact Hps.
      + intros j Hj. rewrite Hv1, repeat_length in Hj. rewrite Hv2.
        rewrite nth_repeat. rewrite (cnt_perm _ _ _ Hps).
        destruct (HL j) as (t & H1 & _); [fold g; fold N; lia|]. rewrite H1. reflexivity.
  Qed.
End Decode.

(* ====================================================================== *)
(* 7. cutting walks at the depot: routes whose interior nodes are customers *)
(* ====================================================================== *)
Fixpoint split_depot (ms : list var) : list (list var) :=
  match ms with
  | [] => []
  | a :: tl =>
      if Nat.eqb (dnode a) 0 then [a] :: split_depot tl
      else match split_depot tl with
           | [] => [[a]]
           | r :: rs => (a :: r) :: rs
           end
  end.

Lemma concat_split_depot ms : concat (split_depot ms) = ms.
Proof.
  induction ms as [|a tl IH]; [reflexivity|]. simpl.
  destruct (Nat.eqb (dnode a) 0); simpl; [rewrite IH; reflexivity|].
  destruct (split_depot tl) as [|r rs]; simpl in *; rewrite <- IH; reflexivity.
Qed.

(* a chain that ends at the depot and does not touch it before *)
Definition piece (r : list var) : Prop :=
  match r with
  | [] => False
  | a :: tl => chained r /\ dnode (last tl a) = 0%nat /\ Forall (fun m => dnode m <> 0%nat) (removelast r)
  end.

(* a depot-to-depot route whose interior nodes are customers *)
Definition sroute (r : list var) : Prop := piece r /\ match r with [] => False | a :: _ => onode a = 0%nat end.

Lemma onode_of_chain a b : dest a = orig b -> onode b = dnode a.
Proof. intros H. unfold onode, dnode. rewrite H. reflexivity. Qed.

Lemma split_depot_pieces : forall ms a tl,
  ms = a :: tl -> chained ms -> dnode (last tl a) = 0%nat ->
  exists r rs, split_depot ms = (a :: r) :: rs /\ piece (a :: r) /\ Forall sroute rs.
Proof.
  induction ms as [|a0 tl0 IH]; intros a tl E Hch Hlast; [discriminate|].
  inversion E; subst a0 tl0; clear E. cbn [split_depot].
  destruct (Nat.eqb_spec (dnode a) 0) as [Hd|Hd].
  - exists [], (split_depot tl). split; [reflexivity|]. split.
    + cbn. repeat split; auto.
    + destruct tl as [|b tl']; [constructor|].
      destruct Hch as [Hab Hch']. rewrite last_cons_default in Hlast.
      destruct (IH b tl' eq_refl Hch' Hlast) as (r & rs & Es & Hp & Hrs).
      rewrite Es. constructor; [|exact Hrs]. split; [exact Hp|].
      rewrite (onode_of_chain a b Hab). exact Hd.
  - destruct tl as [|b tl']; [simpl in Hlast; contradiction|].
    destruct Hch as [Hab Hch']. rewrite last_cons_default in Hlast.
    destruct (IH b tl' eq_refl Hch' Hlast) as (r & rs & Es & Hp & Hrs).
    rewrite Es. exists (b :: r), rs. split; [reflexivity|]. split; [|exact Hrs].
    destruct Hp as (Hc & Hl & Hi). cbn [piece]. split; [|split].
    + split; [exact Hab | exact Hc].
    + rewrite last_cons_default. exact Hl.
    + change (removelast (a :: b :: r)) with (a :: removelast (b :: r)).
      constructor; [exact Hd | exact Hi].
Qed.

Lemma split_depot_walk ms : walk ms -> Forall sroute (split_depot ms).
Proof.
  destruct ms as [|a tl]; [intros []|]. intros (Ho & Hl & Hch).
  destruct (split_depot_pieces (a :: tl) a tl eq_refl Hch Hl) as (r & rs & Es & Hp & Hrs).
  rewrite Es. constructor; [|exact Hrs]. split; [exact Hp | exact Ho].
Qed.

Lemma concat_flat_map_split mss : concat (flat_map split_depot mss) = concat mss.
Proof.
  induction mss as [|ms mss IH]; [reflexivity|]. simpl.
  rewrite concat_app, concat_split_depot, IH. reflexivity.
Qed.

(* ====================================================================== *)
(* 8. C05: soundness and decoding                                          *)
(* ====================================================================== *)
Lemma concat_map_singleton {A} (l : list A) : concat (map (fun v => [v]) l) = l.
Proof. induction l as [|v l IH]; [reflexivity|]. simpl. rewrite IH. reflexivity. Qed.

Theorem sound_of_local I x :
  wf_graph (ig I) -> pos_cc I -> length x = num_variables I -> local_form I x ->
  exists routes : list (list var),
    Permutation (selected I x) (concat routes) /\ Forall sroute routes /\
    Forall (valid_move I) (concat routes) /\
    forall j, (1 <= j < length (nodes (ig I)))%nat -> cnt (into_node j) (concat routes) = 1%nat.
Proof.
  intros Hwf Hpos Hl HL.
  assert (Hvalid : forall routes, Permutation (selected I x) (concat routes) ->
                                  Forall (valid_move I) (concat routes)).
  { intros routes Hp. apply Forall_forall. intros v Hv. apply vars_exact.
    apply (selected_in_vars I x). eapply Permutation_in; [symmetry; exact Hp | exact Hv]. }
  assert (Hcnt : forall routes, Permutation (selected I x) (concat routes) ->
                 forall j, (1 <= j < length (nodes (ig I)))%nat -> cnt (into_node j) (concat routes) = 1%nat).
  { intros routes Hp j Hj. rewrite <- (cnt_perm _ _ _ Hp). destruct (HL j Hj) as (t & H1 & _). exact H1. }
  destruct (decode_of_local I Hwf Hpos x Hl HL) as (mss & _ & Hp & Hw).
  exists (flat_map split_depot mss).
  assert (Hp' : Permutation (selected I x) (concat (flat_map split_depot mss)))
    by (rewrite concat_flat_map_split; exact Hp).
  split; [exact Hp'|]. split; [|split; [apply Hvalid; exact Hp' | apply Hcnt; exact Hp']].
  apply Forall_forall. intros r Hr. apply in_flat_map in Hr. destruct Hr as (ms & Hms & Hr).
  rewrite Forall_forall in Hw. pose proof (split_depot_walk ms (Hw ms Hms)) as Hs.
  rewrite Forall_forall in Hs. apply Hs; exact Hr.
Qed.

(* ====================================================================== *)
(* 9. converse: a route decomposition gives the local form                 *)
(* ====================================================================== *)
Lemma chain_balance (Pin Pout : var -> bool) :
  (forall a b, dest a = orig b -> Pin a = Pout b) ->
  forall tl a, chained (a :: tl) ->
    ((if Pout a then 1 else 0) + cnt Pin (a :: tl) =
     cnt Pout (a :: tl) + (if Pin (last tl a) then 1 else 0))%nat.
Proof.
  intros Hlink. induction tl as [|b tl IH]; intros a Hch.
  - rewrite !cnt_cons. unfold cnt; simpl. lia.
  - destruct Hch as [Hab Hch]. specialize (IH b Hch).
    rewrite last_cons_default. rewrite (cnt_cons Pin a), (cnt_cons Pout a).
    rewrite (Hlink a b Hab). lia.
Qed.

Lemma walk_balance_node j r : walk r -> j <> 0%nat -> cnt (outof_node j) r = cnt (into_node j) r.
Proof.
  destruct r as [|a tl]; [intros []|]. intros (Ho & Hl & Hch) Hj.
  pose proof (chain_balance (into_node j) (outof_node j)) as H.
  specialize (H ltac:(intros u v E; unfold into_node, outof_node, dnode, onode; rewrite E; reflexivity) tl a Hch).
  assert (E1 : outof_node j a = false) by (apply outof_node_false; lia).
  assert (E2 : into_node j (last tl a) = false) by (apply into_node_false; lia).
  rewrite E1, E2 in H. lia.
Qed.

Lemma walk_balance_nt j t r : walk r -> j <> 0%nat -> cnt (outof (j, t)) r = cnt (into (j, t)) r.
Proof.
  destruct r as [|a tl]; [intros []|]. intros (Ho & Hl & Hch) Hj.
  pose proof (chain_balance (into (j, t)) (outof (j, t))) as H.
  specialize (H ltac:(intros u v E; unfold into, outof; rewrite E; reflexivity) tl a Hch).
  assert (E1 : outof (j, t) a = false).
  { destruct (outof (j, t) a) eqn:E; [|reflexivity]. apply outof_implies_node, outof_node_true in E. lia. }
  assert (E2 : into (j, t) (last tl a) = false).
  { destruct (into (j, t) (last tl a)) eqn:E; [|reflexivity]. apply into_implies_node, into_node_true in E. lia. }
  rewrite E1, E2 in H. lia.
Qed.

Lemma cnt_concat P (ls : list (list var)) : cnt P (concat ls) = fold_right (fun r acc => (cnt P r + acc)%nat) 0%nat ls.
Proof. induction ls as [|r ls IH]; [reflexivity|]. simpl. rewrite cnt_app, IH. reflexivity. Qed.

Lemma walks_balance (Pin Pout : var -> bool) routes :
  Forall walk routes -> (forall r, walk r -> cnt Pout r = cnt Pin r) ->
  cnt Pout (concat routes) = cnt Pin (concat routes).
Proof.
  intros Hw H. rewrite !cnt_concat. induction Hw as [|r rs Hr _ IH]; [reflexivity|].
  simpl. rewrite IH, (H r Hr). reflexivity.
Qed.

Lemma sroute_walk r : sroute r -> walk r.
Proof. destruct r as [|a tl]; [intros [[] _]|]. intros [(Hc & Hl & _) Ho]. cbn. auto. Qed.

Theorem local_of_walks I x routes :
  Permutation (selected I x) (concat routes) -> Forall walk routes ->
  (forall j, (1 <= j < length (nodes (ig I)))%nat -> cnt (into_node j) (concat routes) = 1%nat) ->
  local_form I x.
Proof.
  intros Hp Hw Hc j Hj. specialize (Hc j Hj).
  destruct (cnt_witness (into_node j) (concat routes)) as (u & Hu & Hin); [lia|].
  exists (arr u). rewrite !(cnt_perm _ _ _ Hp).
  assert (Hjt : cnt (into (j, arr u)) (concat routes) = 1%nat).
  { assert ((1 <= cnt (into (j, arr u)) (concat routes))%nat).
    { apply (cnt_In _ u); [exact Hu|]. apply into_true. apply into_node_true in Hin.
      rewrite dest_eta, Hin. reflexivity. }
    assert ((cnt (into (j, arr u)) (concat routes) <= cnt (into_node j) (concat routes))%nat)
      by (apply cnt_mono; intros v; apply into_implies_node).
    lia. }
  split; [exact Hc|]. split; [exact Hjt|]. split.
  - rewrite (walks_balance (into_node j) (outof_node j) routes Hw); [exact Hc|].
    intros r Hr. apply walk_balance_node; [exact Hr | lia].
  - rewrite (walks_balance (into (j, arr u)) (outof (j, arr u)) routes Hw); [exact Hjt|].
    intros r Hr. apply walk_balance_nt; [exact Hr | lia].
Qed.
