(* Vrptw.v -- executable model of routing_problem/vrptw.py (class VRPTW) and of the
   add_arc / set_depot overrides of SequenceBasedRoutingProblem (set_depot as of fix a305445: in strict
   mode the stored arcs are re-added when the depot moves).  Definitions only. *)
From VQ Require Import Base.

Record node := mkNode { nname : nat; ndemand : Z; nlo : Z; nhi : ext }.
(* an Arc object holds references to its endpoint Node objects; a Node object is
   identified by its (unique) name *)
Record arc := mkArc { aorig : nat; adest : nat; att : Z; acost : Z }.

Record graph := mkGraph {
  names : list nat;                 (* VRPTW.node_names *)
  nodes : list node;                (* VRPTW.nodes *)
  arcs  : dict arc                  (* VRPTW.arcs : (i,j) -> Arc, insertion ordered *)
}.

Definition empty_graph : graph := mkGraph [] [] [].

Definition dummy_node : node := mkNode 0 0 0 (Fin 0).

(* Node.__init__ raises when t_w[0] > t_w[1] *)
Definition window_ok (lo : Z) (hi : ext) : bool := ext_leb (Fin lo) hi.

Definition add_node (g : graph) (nm : nat) (dem lo : Z) (hi : ext) : result graph :=
  if memb nm (names g) then Err ValueError
  else if negb (window_ok lo hi) then Err ValueError
  else Ok (mkGraph (names g ++ [nm]) (nodes g ++ [mkNode nm dem lo hi]) (arcs g)).

(* base timing filter: origin window START + travel time <= destination window end *)
Definition base_filter (o d : node) (tm : Z) : bool := ext_leb (Fin (nlo o + tm)) (nhi d).
(* strict filter (sequence formulation, non-depot origin): origin window END + tm <= dest end *)
Definition strict_filter (o d : node) (tm : Z) : bool := ext_leb (ext_add (nhi o) tm) (nhi d).

Definition add_arc_gen (strict : bool) (g : graph) (o d : nat) (tm cost : Z)
  : result (graph * bool) :=
  match index_of o (names g), index_of d (names g) with
  | Some i, Some j =>
      let no := nth i (nodes g) dummy_node in
      let nd := nth j (nodes g) dummy_node in
      let pass := if strict && negb (Nat.eqb i 0) then strict_filter no nd tm
                  else base_filter no nd tm in
      if pass
      then Ok (mkGraph (names g) (nodes g) (dict_set (i, j) (mkArc (nname no) (nname nd) tm cost) (arcs g)), true)
      else Ok (g, false)
  | _, _ => Err ValueError
  end.

Definition add_arc := add_arc_gen false.

(* position of the node formerly at p after the node at d was moved to the front *)
Definition new_pos (d p : nat) : nat :=
  if Nat.eqb p d then O else if Nat.ltb p d then S p else p.

Definition move_front {A} (d : nat) (dflt : A) (l : list A) : list A :=
  nth d l dflt :: remove_nth d l.

Definition rekey (d : nat) (a : dict arc) : dict arc :=
  map (fun kv => ((new_pos d (fst (fst kv)), new_pos d (snd (fst kv))), snd kv)) a.

Definition set_depot (g : graph) (nm : nat) : result graph :=
  match index_of nm (names g) with
  | None => Err ValueError
  | Some O => Ok g
  | Some d =>
      Ok (mkGraph (move_front d O (names g)) (move_front d dummy_node (nodes g)) (rekey d (arcs g)))
  end.

(* `for arc in old_arcs.values(): self.add_arc(arc.origin.name, arc.destination.name, arc.travel_time,
   arc.cost)`: the stored arcs are re-added one by one, in dict order, by the NAMES of their endpoints,
   through the class's own add_arc; an unknown endpoint name raises ValueError *)
Definition readd_arcs (strict : bool) (g : graph) (old : dict arc) : result graph :=
  fold_left
    (fun r kv =>
       match r with
       | Err e => Err e
       | Ok g' =>
           let a := snd kv in
           match add_arc_gen strict g' (aorig a) (adest a) (att a) (acost a) with
           | Ok (g'', _) => Ok g''
           | Err e => Err e
           end
       end)
    old (Ok g).

(* SequenceBasedRoutingProblem.set_depot:
     moved = self.node_names.index(depot_name) != 0          (ValueError for an unknown name)
     super().set_depot(depot_name)
     if self.strict and moved:  old_arcs = self.arcs; self.vrptw.arcs = dict(); re-add every stored arc
     self.arcs[(0,0)] = Arc(self.nodes[0], self.nodes[0], 0, 0)
   (A ValueError out of the loop would leave the depot moved and the dict half rebuilt, while `step` below
   keeps the old graph for every error: that case does not arise on a graph satisfying the C15 invariant,
   where every stored arc names two nodes -- Vrptw_facts.seq_set_depot_error_iff; the generated model
   keeps the state a raise leaves behind and is proved equal under that invariant, C15_gen_seq_set_depot.) *)
Definition seq_set_depot (strict : bool) (g : graph) (nm : nat) : result graph :=
  match index_of nm (names g) with
  | None => Err ValueError
  | Some d0 =>
      let moved := negb (Nat.eqb d0 0) in
      match set_depot g nm with
      | Err e => Err e
      | Ok g1 =>
          match (if strict && moved
                 then readd_arcs strict (mkGraph (names g1) (nodes g1) []) (arcs g1)
                 else Ok g1) with
          | Err e => Err e
          | Ok g' =>
              let n0 := nth 0 (nodes g') dummy_node in
              Ok (mkGraph (names g') (nodes g')
                          (dict_set (O, O) (mkArc (nname n0) (nname n0) 0 0) (arcs g')))
          end
      end
  end.

(* ---------- histories ---------- *)
Inductive gop :=
| OpAddNode (nm : nat) (dem lo : Z) (hi : ext)
| OpAddArc (o d : nat) (tm cost : Z)
| OpSetDepot (nm : nat).

(* the class under test: base VRPTW, or the sequence formulation (strict or not) *)
Inductive gclass := Base | Seq (strict : bool).

(* outcome of one call: None = returned None, Some b = add_arc's boolean *)
Definition step (c : gclass) (g : graph) (o : gop) : graph * result (option bool) :=
  match o with
  | OpAddNode nm dem lo hi =>
      match add_node g nm dem lo hi with
      | Ok g' => (g', Ok None)
      | Err e => (g, Err e)
      end
  | OpAddArc o d tm cost =>
      match add_arc_gen (match c with Seq s => s | Base => false end) g o d tm cost with
      | Ok (g', b) => (g', Ok (Some b))
      | Err e => (g, Err e)
      end
  | OpSetDepot nm =>
      match (match c with Base => set_depot g nm | Seq s => seq_set_depot s g nm end) with
      | Ok g' => (g', Ok None)
      | Err e => (g, Err e)
      end
  end.

Definition run (c : gclass) (ops : list gop) (g : graph) : graph :=
  fold_left (fun g o => fst (step c g o)) ops g.

(* all intermediate observations, for the correspondence check *)
Fixpoint trace (c : gclass) (ops : list gop) (g : graph) : list (graph * result (option bool)) :=
  match ops with
  | [] => []
  | o :: ops' => let r := step c g o in r :: trace c ops' (fst r)
  end.

(* ---------- observables compared with the implementation ---------- *)
Definition node_obs := (nat * Z * Z * ext)%type.
Definition arc_obs := ((nat * nat) * (nat * nat * Z * Z))%type.
Definition gobs := (list nat * list node_obs * list arc_obs * result (option bool))%type.

Definition observe (r : graph * result (option bool)) : gobs :=
  let g := fst r in
  (names g,
   map (fun n => (nname n, ndemand n, nlo n, nhi n)) (nodes g),
   map (fun kv => (fst kv, (aorig (snd kv), adest (snd kv), att (snd kv), acost (snd kv)))) (arcs g),
   snd r).

Definition node_obs_eqb (a b : node_obs) : bool :=
  match a, b with
  | (n1, d1, l1, h1), (n2, d2, l2, h2) => Nat.eqb n1 n2 && (d1 =? d2) && (l1 =? l2) && ext_eqb h1 h2
  end.
Definition arc_obs_eqb (a b : arc_obs) : bool :=
  match a, b with
  | (k1, (o1, d1, t1, c1)), (k2, (o2, d2, t2, c2)) =>
      natpair_eqb k1 k2 && Nat.eqb o1 o2 && Nat.eqb d1 d2 && (t1 =? t2) && (c1 =? c2)
  end.
Definition res_eqb := result_eqb (option_eqb Bool.eqb).

Definition gobs_tags (m i : gobs) : list nat :=
  match m, i with
  | (n1, nd1, a1, r1), (n2, nd2, a2, r2) =>
      chk 1 (list_eqb Nat.eqb n1 n2) ++ chk 2 (list_eqb node_obs_eqb nd1 nd2) ++
      chk 3 (list_eqb arc_obs_eqb a1 a2) ++ chk 4 (res_eqb r1 r2)
  end.

Fixpoint zip_tags (ms is_ : list gobs) : list nat :=
  match ms, is_ with
  | [], [] => []
  | m :: ms', i :: is' => match gobs_tags m i with [] => zip_tags ms' is' | t => t end
  | _, _ => [5%nat]
  end.

(* one correspondence case: class, history, the implementation's observation after each call *)
Definition gcase := (gclass * list gop * list gobs)%type.
Definition check_gcase (c : gcase) : list nat :=
  match c with
  | (cl, ops, impl) => zip_tags (map observe (trace cl ops empty_graph)) impl
  end.
