(* TestFeas_facts.v -- proofs about the model of test_feasibility / convenience / load_spins and the
   test-set file names (TestFeas.v).  [C10, generator half] *)
From Coq Require Import ZArith List Bool Lia PeanoNat String Ascii Ring.
From VQ Require Import Base LinAlg Penalty Penalty_facts Export Export_facts TestFeas.
From VQ Require Qubo.
Import ListNotations.
Local Open Scope string_scope.
Open Scope Z_scope.

(* ====================================================================================== *)
(* Part 1: the violation measures                                                          *)
(* ====================================================================================== *)
Lemma Zvec_of_nth (l : list Z) i : Zvec_of l i = nth i l 0.
Proof. reflexivity. Qed.

Lemma lin_violated_iff n A b x k : lin_violated n A b x k = true <-> Zmv n A x k <> b k.
Proof.
  unfold lin_violated. rewrite negb_true_iff. split.
  - intros H E. apply Z.eqb_neq in H. contradiction.
  - intros H. apply Z.eqb_neq. exact H.
Qed.

Lemma lin_violated_false_iff n A b x k : lin_violated n A b x k = false <-> Zmv n A x k = b k.
Proof. unfold lin_violated. rewrite negb_false_iff. apply Z.eqb_eq. Qed.

Lemma vio_l_length A b x : List.length (vio_l A b x) = List.length b.
Proof. unfold vio_l. rewrite map_length, seq_length. reflexivity. Qed.

Lemma vio_l_nth A b x k :
  (k < List.length b)%nat ->
  nth k (vio_l A b x) false = lin_violated (List.length x) (Zmat_of A) (Zvec_of b) (Zvec_of x) k.
Proof.
  intros Hk. unfold vio_l.
  rewrite (nth_indep _ false (lin_violated (List.length x) (Zmat_of A) (Zvec_of b) (Zvec_of x) O))
    by (rewrite map_length, seq_length; exact Hk).
  rewrite map_nth, seq_nth by exact Hk. reflexivity.
Qed.

Lemma vio_l_all_false A b x :
  Forall (fun v => v = false) (vio_l A b x) <->
  forall k, (k < List.length b)%nat -> Zmv (List.length x) (Zmat_of A) (Zvec_of x) k = Zvec_of b k.
Proof.
  unfold vio_l. rewrite Forall_map, Forall_forall. split.
  - intros H k Hk. apply lin_violated_false_iff. apply H. apply in_seq. lia.
  - intros H k Hk. apply in_seq in Hk. apply lin_violated_false_iff. apply H. lia.
Qed.

(* np.dot(x, Q.dot(x)) = x'Qx *)
Lemma dot_mv_qf n (M : mat Z) (x : vec Z) : Zdot n x (Zmv n M x) = Zqf n M x.
Proof.
  unfold Zdot, dot, Zmv, mv, Zqf, qf. apply sumZn_ext; intros i _.
  rewrite <- sumZn_scal_l. apply sumZn_ext; intros j _. ring.
Qed.

Lemma vio_q_qf Q r x : vio_q Q r x = Zqf (List.length x) (coo_dense Q) (Zvec_of x) - r.
Proof. unfold vio_q. cbv zeta. rewrite dot_mv_qf. reflexivity. Qed.

(* "no measured violation" is exactly "the constraints hold" (any integer vector) *)
Theorem measures_zero_iff x A b Q r :
  let n := List.length x in
  (Forall (fun v => v = false) (vio_l A b x) /\ vio_q Q r x = 0) <->
  ((forall k, (k < List.length b)%nat -> Zmv n (Zmat_of A) (Zvec_of x) k = Zvec_of b k) /\
   Zqf n (coo_dense Q) (Zvec_of x) = r).
Proof.
  intros n. rewrite vio_l_all_false, vio_q_qf. fold n. split; intros [H1 H2]; (split; [exact H1 | lia]).
Qed.

(* ---------- sum(vio_l) ---------- *)
Lemma count_true_map {A} (f : A -> bool) l : count_true (map f l) = List.length (filter f l).
Proof.
  unfold count_true. induction l as [|a l IH]; [reflexivity|]. simpl.
  destruct (f a); simpl; rewrite IH; reflexivity.
Qed.

Theorem count_violated_rows A b x :
  count_true (vio_l A b x) = List.length (violated_rows A b x) /\
  NoDup (violated_rows A b x) /\
  (forall k, In k (violated_rows A b x) <->
             (k < List.length b)%nat /\
             Zmv (List.length x) (Zmat_of A) (Zvec_of x) k <> Zvec_of b k).
Proof.
  split; [apply count_true_map|]. split.
  - apply NoDup_filter, seq_NoDup.
  - intros k. unfold violated_rows. rewrite filter_In, in_seq, lin_violated_iff. split.
    + intros [H1 H2]. split; [lia | exact H2].
    + intros [H1 H2]. split; [lia | exact H2].
Qed.

Lemma filter_len_le {A} (p : A -> bool) l : (List.length (filter p l) <= List.length l)%nat.
Proof. induction l as [|a l IH]; [apply Nat.le_refl|]. cbn [filter]. destruct (p a); cbn [List.length]; lia. Qed.

Lemma count_true_le l : (count_true l <= List.length l)%nat.
Proof. unfold count_true. apply filter_len_le. Qed.

(* ---------- x'Qx from the stored entries ---------- *)
Lemma sumZn_all_zero n f : (forall i, (i < n)%nat -> f i = 0) -> sumZn n f = 0.
Proof. intros H. rewrite (sumZn_ext n f (fun _ => 0) H), sumZn_const. lia. Qed.

Lemma sumZn_delta n k (f : nat -> Z) :
  (k < n)%nat -> sumZn n (fun i => if Nat.eqb k i then f i else 0) = f k.
Proof. exact (sum_delta' Z 0 1 Z.add Z.mul Z.sub Z.opp Zth n k f). Qed.

Lemma sum2_delta n r c (g : nat -> nat -> Z) :
  (r < n)%nat -> (c < n)%nat ->
  sumZn n (fun i => sumZn n (fun j => if Nat.eqb r i && Nat.eqb c j then g i j else 0)) = g r c.
Proof.
  intros Hr Hc.
  rewrite (sumZn_ext n _ (fun i => if Nat.eqb r i then g i c else 0)).
  - apply (sumZn_delta n r (fun i => g i c)). exact Hr.
  - intros i _. destruct (Nat.eqb r i); cbn [andb].
    + apply (sumZn_delta n c (fun j => g i j)). exact Hc.
    + apply sumZn_all_zero. reflexivity.
Qed.

Lemma coo_dense_cons e Q i j :
  coo_dense (e :: Q) i j =
  (if Nat.eqb (e_row e) i && Nat.eqb (e_col e) j then e_val e else 0) + coo_dense Q i j.
Proof. unfold coo_dense. cbn [fold_right]. destruct (Nat.eqb (e_row e) i && Nat.eqb (e_col e) j); lia. Qed.

Lemma Zqf_plus n (M N : mat Z) x : Zqf n (fun i j => M i j + N i j) x = Zqf n M x + Zqf n N x.
Proof. exact (qf_add Z 0 1 Z.add Z.mul Z.sub Z.opp Zth n M N x). Qed.

Lemma Zqf_ext n (M N : mat Z) x :
  (forall i j, (i < n)%nat -> (j < n)%nat -> M i j = N i j) -> Zqf n M x = Zqf n N x.
Proof. exact (qf_ext Z 0 Z.add Z.mul n M N x). Qed.

Lemma Zqf_single n r c v (x : vec Z) :
  (r < n)%nat -> (c < n)%nat ->
  Zqf n (fun i j => if Nat.eqb r i && Nat.eqb c j then v else 0) x = v * x r * x c.
Proof.
  intros Hr Hc. unfold Zqf, qf.
  rewrite <- (sum2_delta n r c (fun i j => v * x i * x j) Hr Hc).
  apply sumZn_ext; intros i _. apply sumZn_ext; intros j _.
  destruct (Nat.eqb r i && Nat.eqb c j); ring.
Qed.

(* the quadratic form of the dense meaning is the sum over the stored entries *)
Theorem qf_entries n Q (x : vec Z) :
  entries_in n Q ->
  Zqf n (coo_dense Q) x = sumZ (map (fun e => e_val e * x (e_row e) * x (e_col e)) Q).
Proof.
  intros H. induction H as [|e Q [Hr Hc] _ IH].
  - cbn [map sumZ fold_right]. unfold Zqf, qf. apply sumZn_all_zero; intros i _.
    apply sumZn_all_zero; intros j _. reflexivity.
  - rewrite (Zqf_ext n (coo_dense (e :: Q))
               (fun i j => (if Nat.eqb (e_row e) i && Nat.eqb (e_col e) j then e_val e else 0) + coo_dense Q i j))
      by (intros i j _ _; apply coo_dense_cons).
    rewrite Zqf_plus, IH, (Zqf_single n _ _ _ x Hr Hc). cbn [map]. rewrite sumZ_cons. reflexivity.
Qed.

(* ---------- binary vectors ---------- *)
Lemma binlb_sound x : binlb x = true -> binl x.
Proof.
  unfold binlb, binl. rewrite forallb_forall, Forall_forall. intros H v Hv. specialize (H v Hv).
  apply orb_true_iff in H. destruct H as [H|H]; apply Z.eqb_eq in H; auto.
Qed.

Lemma binl_nth x i : binl x -> Zvec_of x i = 0 \/ Zvec_of x i = 1.
Proof.
  intros H. rewrite Zvec_of_nth. destruct (Nat.lt_ge_cases i (List.length x)) as [Hi|Hi].
  - unfold binl in H. rewrite Forall_forall in H. apply H. apply nth_In. exact Hi.
  - left. apply nth_overflow. exact Hi.
Qed.

Lemma binl_Zbinary x : binl x -> Zbinary (List.length x) (Zvec_of x).
Proof. intros H i _. apply binl_nth. exact H. Qed.

Lemma sumZ_filter {A} (p : A -> bool) (w : A -> Z) l :
  sumZ (map (fun a => if p a then w a else 0) l) = sumZ (map w (filter p l)).
Proof.
  induction l as [|a l IH]; [reflexivity|]. cbn [map filter]. rewrite sumZ_cons, IH.
  destruct (p a); [cbn [map]; rewrite sumZ_cons; reflexivity | lia].
Qed.

(* for a 0-1 vector the quadratic measure adds up the values of the violated stored entries *)
Theorem vio_q_counts Q r x :
  binl x -> entries_in (List.length x) Q ->
  vio_q Q r x = sumZ (map e_val (violated_products Q x)) - r.
Proof.
  intros Hb Hin. rewrite vio_q_qf, (qf_entries _ Q _ Hin). f_equal.
  unfold violated_products. rewrite <- sumZ_filter. apply sumZ_map_ext. intros e _.
  unfold prod_violated.
  destruct (binl_nth x (e_row e) Hb) as [E1|E1], (binl_nth x (e_col e) Hb) as [E2|E2];
    rewrite E1, E2; cbn; lia.
Qed.

Lemma sumZ_nonneg_zero_iff {A} (w : A -> Z) l :
  (forall a, In a l -> 0 <= w a) -> (sumZ (map w l) = 0 <-> forall a, In a l -> w a = 0).
Proof.
  induction l as [|a l IH]; intros Hn.
  - split; [intros _ a [] | reflexivity].
  - cbn [map]. rewrite sumZ_cons.
    assert (H0 : 0 <= w a) by (apply Hn; left; reflexivity).
    assert (H1 : 0 <= sumZ (map w l)).
    { clear IH H0. induction l as [|b l IHl]; [cbn; lia|]. cbn [map]. rewrite sumZ_cons.
      assert (0 <= w b) by (apply Hn; right; left; reflexivity).
      assert (0 <= sumZ (map w l)) by (apply IHl; intros c [Hc|Hc]; apply Hn; [left | right; right]; assumption).
      lia. }
    specialize (IH (fun b Hb => Hn b (or_intror Hb))). split.
    + intros H b [<-|Hb]; [lia | apply IH; [lia | exact Hb]].
    + intros H. rewrite (H a (or_introl eq_refl)), (proj2 IH (fun b Hb => H b (or_intror Hb))). reflexivity.
Qed.

(* r = 0 and stored values >= 0 (all three formulations): the measure is >= 0 and vanishes exactly when
   no stored product constraint of positive value is violated *)
Theorem vio_q_nonneg_zero_iff Q x :
  binl x -> entries_in (List.length x) Q -> Forall (fun e => 0 <= e_val e) Q ->
  0 <= vio_q Q 0 x /\
  (vio_q Q 0 x = 0 <-> forall e, In e Q -> 0 < e_val e -> prod_violated (Zvec_of x) e = false).
Proof.
  intros Hb Hin Hv. rewrite (vio_q_counts Q 0 x Hb Hin), Z.sub_0_r.
  rewrite Forall_forall in Hv.
  assert (Hn : forall e, In e (violated_products Q x) -> 0 <= e_val e).
  { intros e He. apply Hv. unfold violated_products in He. apply filter_In in He. tauto. }
  split.
  - clear -Hn. induction (violated_products Q x) as [|e l IH]; [cbn; lia|].
    cbn [map]. rewrite sumZ_cons. assert (0 <= e_val e) by (apply Hn; left; reflexivity).
    assert (0 <= sumZ (map e_val l)) by (apply IH; intros a Ha; apply Hn; right; exact Ha). lia.
  - rewrite (sumZ_nonneg_zero_iff e_val _ Hn). unfold violated_products. split.
    + intros H e He Hpos. destruct (prod_violated (Zvec_of x) e) eqn:E; [|reflexivity].
      assert (e_val e = 0) by (apply H; apply filter_In; split; assumption). lia.
    + intros H e He. apply filter_In in He. destruct He as [He Hp].
      specialize (Hv e He). destruct (Z.eq_dec (e_val e) 0) as [E|E]; [exact E|].
      rewrite (H e He) in Hp by lia. discriminate Hp.
Qed.

(* unit entries: the measure is the NUMBER of violated stored product constraints, at most nnz
   ("Quadratic: {vio_q} out of {nnz}") *)
Theorem vio_q_unit_entries Q x :
  binl x -> entries_in (List.length x) Q -> Forall (fun e => e_val e = 1) Q ->
  vio_q Q 0 x = Z.of_nat (List.length (violated_products Q x)) /\
  (List.length (violated_products Q x) <= nnz Q)%nat.
Proof.
  intros Hb Hin Hv. rewrite (vio_q_counts Q 0 x Hb Hin), Z.sub_0_r. split.
  - rewrite Forall_forall in Hv.
    rewrite (sumZ_map_ext e_val (fun _ => 1)).
    + rewrite sumZ_map_const. lia.
    + intros e He. apply Hv. unfold violated_products in He. apply filter_In in He. tauto.
  - apply filter_len_le.
Qed.

(* ---------- nnz of a canonical container ---------- *)
Lemma coo_dense_absent Q r c : ~ In (r, c) (positions Q) -> coo_dense Q r c = 0.
Proof.
  induction Q as [|e Q IH]; intros H; [reflexivity|].
  rewrite coo_dense_cons. cbn [positions map In] in H.
  destruct (Nat.eqb_spec (e_row e) r) as [E1|E1], (Nat.eqb_spec (e_col e) c) as [E2|E2]; cbn [andb].
  - exfalso. apply H. left. rewrite E1, E2. reflexivity.
  - rewrite IH; [lia | intros Hin; apply H; right; exact Hin].
  - rewrite IH; [lia | intros Hin; apply H; right; exact Hin].
  - rewrite IH; [lia | intros Hin; apply H; right; exact Hin].
Qed.

(* without explicit zeros and duplicates, nnz is the number of non-zero entries of the dense meaning *)
Theorem nnz_canonical n Q :
  canonical Q -> entries_in n Q -> Z.of_nat (nnz Q) = dense_nonzeros n (coo_dense Q).
Proof.
  intros [Hnd Hnz] Hin. induction Q as [|e Q IH].
  - unfold dense_nonzeros. cbn [nnz List.length]. symmetry.
    apply sumZn_all_zero; intros i _. apply sumZn_all_zero; intros j _. reflexivity.
  - cbn [positions map] in Hnd. inversion Hnd as [|? ? Hnotin Hnd']; subst.
    inversion Hnz as [|? ? Hv Hnz']; subst. inversion Hin as [|? ? [Hr Hc] Hin']; subst.
    specialize (IH Hnd' Hnz' Hin').
    unfold dense_nonzeros, nnz in *. cbn [List.length]. rewrite Nat2Z.inj_succ.
    rewrite (sumZn_ext n _ (fun i => sumZn n (fun j => if coo_dense Q i j =? 0 then 0 else 1)
                                   + sumZn n (fun j => if Nat.eqb (e_row e) i && Nat.eqb (e_col e) j then 1 else 0))).
    + rewrite sumZn_add, <- IH, (sum2_delta n _ _ (fun _ _ => 1) Hr Hc). lia.
    + intros i _. rewrite <- sumZn_add. apply sumZn_ext; intros j _.
      rewrite coo_dense_cons.
      destruct (Nat.eqb_spec (e_row e) i) as [E1|E1], (Nat.eqb_spec (e_col e) j) as [E2|E2]; cbn [andb];
        try (rewrite Z.add_0_l, Z.add_0_r; reflexivity).
      subst i j. rewrite (coo_dense_absent Q _ _ Hnotin), Z.add_0_r.
      destruct (Z.eqb_spec (e_val e) 0) as [E|E]; [contradiction | reflexivity].
Qed.

(* ====================================================================================== *)
(* Part 2: the spins file                                                                  *)
(* ====================================================================================== *)
(* ---------- split() over lines = split() of the whole text ---------- *)
Lemma split_ws_aux_app_ws a : forall cur w b,
  is_ws w = true ->
  split_ws_aux cur (a ++ String w b) = (split_ws_aux cur a ++ split_ws b)%list.
Proof.
  induction a as [|c a IH]; intros cur w b Hw.
  - cbn [append split_ws_aux]. rewrite Hw. reflexivity.
  - cbn [append split_ws_aux]. destruct (is_ws c).
    + rewrite IH by exact Hw. rewrite app_assoc. reflexivity.
    + apply IH. exact Hw.
Qed.

Lemma split_ws_app_ws a w b :
  is_ws w = true -> split_ws (a ++ String w b) = (split_ws a ++ split_ws b)%list.
Proof. apply split_ws_aux_app_ws. Qed.

Lemma tokens_of_lines_aux s : forall cur,
  flat_map split_ws (read_lines_aux cur s) = split_ws (cur ++ s).
Proof.
  induction s as [|c s IH]; intros cur.
  - cbn [read_lines_aux]. rewrite sapp_nil_r. destruct cur; [reflexivity|].
    cbn [flat_map]. rewrite app_nil_r. reflexivity.
  - cbn [read_lines_aux]. destruct (Ascii.eqb_spec c nl) as [->|Hc].
    + cbn [flat_map]. rewrite (IH ""). cbn [append].
      rewrite (split_ws_app_ws cur nl s) by reflexivity.
      rewrite (split_ws_suffix (String nl "") cur) by reflexivity. reflexivity.
    + rewrite IH, sapp_assoc. reflexivity.
Qed.

(* the tokens load_spins sees do not depend on where the line breaks are *)
Theorem spin_tokens_split bytes : spin_tokens bytes = split_ws bytes.
Proof. unfold spin_tokens, read_lines. apply (tokens_of_lines_aux bytes ""). Qed.

(* ---------- printing and parsing integers ---------- *)
Lemma print_N_head k : exists c r, print_N k = String c r /\ digitc c = true.
Proof.
  pose proof (print_N_nonempty k) as Hne. pose proof (print_N_digits k) as Hd.
  destruct (print_N k) as [|c r]; [contradiction|].
  cbn [sall] in Hd. apply andb_true_iff in Hd. exists c, r. split; [reflexivity | tauto].
Qed.

Lemma print_N_not_ws k : sall not_ws (print_N k) = true.
Proof. apply (sall_impl digitc); [exact digitc_not_ws | apply print_N_digits]. Qed.

Lemma print_int_word z : sall not_ws (print_int z) = true /\ print_int z <> "".
Proof.
  unfold print_int. destruct (z <? 0).
  - split; [|discriminate]. cbn [sall]. rewrite print_N_not_ws. reflexivity.
  - split; [apply print_N_not_ws | apply print_N_nonempty].
Qed.

Theorem split_ws_write_spins l : split_ws (write_spins l) = map print_int l.
Proof.
  induction l as [|z l IH]; [reflexivity|]. cbn [write_spins map].
  rewrite split_ws_app_ws by reflexivity. rewrite IH.
  destruct (print_int_word z) as [H1 H2]. rewrite (split_ws_last_word _ H1 H2). reflexivity.
Qed.

Lemma split_at_dot_none s : forall cur, sall (not_char ".") s = true -> split_at_dot cur s = None.
Proof.
  induction s as [|c s IH]; intros cur H; [reflexivity|].
  cbn [sall] in H. apply andb_true_iff in H. destruct H as [H1 H2].
  unfold not_char in H1. apply negb_true_iff in H1. cbn [split_at_dot]. rewrite H1. apply IH. exact H2.
Qed.

Lemma print_N_no_dot k : sall (not_char ".") (print_N k) = true.
Proof.
  apply (sall_impl digitc); [|apply print_N_digits]. intros c Hc. apply digitc_not_char; [reflexivity | exact Hc].
Qed.

Lemma parse_ufloat_int_print_N k : parse_ufloat_int (print_N k) = Some k.
Proof. unfold parse_ufloat_int. rewrite split_at_dot_none by apply print_N_no_dot. apply parse_print_N. Qed.

(* int(float(t)) drops a fractional part: digits '.' f *)
Lemma parse_ufloat_int_frac k f :
  frac_ok f = true -> parse_ufloat_int (print_N k ++ String "." f) = Some k.
Proof.
  intros Hf. unfold parse_ufloat_int. rewrite split_at_dot_word by apply print_N_no_dot.
  cbn [append]. rewrite Hf. destruct (print_N_head k) as (c & r & E & _).
  rewrite E. rewrite <- E. apply parse_print_N.
Qed.

Lemma digit_head_signs c : digitc c = true -> Ascii.eqb c "-" = false /\ Ascii.eqb c "+" = false.
Proof.
  intros H. split.
  - apply (digitc_not_char "-") in H; [|reflexivity]. unfold not_char in H. apply negb_true_iff in H. exact H.
  - apply (digitc_not_char "+") in H; [|reflexivity]. unfold not_char in H. apply negb_true_iff in H. exact H.
Qed.

Lemma parse_int_float_signed (neg : bool) k sfx :
  parse_ufloat_int (print_N k ++ sfx) = Some k ->
  parse_int_float ((if neg then "-" else "") ++ print_N k ++ sfx) = Some (if neg then - Z.of_N k else Z.of_N k).
Proof.
  intros H. destruct neg.
  - cbn [append parse_int_float]. rewrite Ascii.eqb_refl, H. reflexivity.
  - cbn [append]. destruct (print_N_head k) as (c & r & E & Hc).
    destruct (digit_head_signs c Hc) as [M P].
    assert (E' : print_N k ++ sfx = String c (r ++ sfx)) by (rewrite E; reflexivity).
    rewrite E'. cbn [parse_int_float]. rewrite M, P. rewrite <- E', H. reflexivity.
Qed.

Lemma print_int_signed z :
  print_int z = (if z <? 0 then "-" else "") ++ print_N (Z.to_N (Z.abs z)) /\
  (if z <? 0 then - Z.of_N (Z.to_N (Z.abs z)) else Z.of_N (Z.to_N (Z.abs z))) = z.
Proof.
  unfold print_int. destruct (Z.ltb_spec z 0) as [H|H].
  - rewrite Z.abs_neq by lia. split; [reflexivity | rewrite Z2N.id; lia].
  - rewrite Z.abs_eq by lia. split; [reflexivity | rewrite Z2N.id; lia].
Qed.

(* int(float(f"{int(z)}")) = z *)
Theorem parse_print_int z : parse_int_float (print_int z) = Some z.
Proof.
  destruct (print_int_signed z) as [E V]. rewrite E.
  rewrite <- (sapp_nil_r (print_N (Z.to_N (Z.abs z)))).
  rewrite (parse_int_float_signed (z <? 0) (Z.to_N (Z.abs z)) "").
  - rewrite V. reflexivity.
  - rewrite sapp_nil_r. apply parse_ufloat_int_print_N.
Qed.

(* int(float(t)) for t = the integer followed by '.' and up to 9 digits ("1.0", "-1.", "1.50") *)
Theorem parse_print_int_frac z f :
  frac_ok f = true -> parse_int_float (print_int z ++ String "." f) = Some z.
Proof.
  intros Hf. destruct (print_int_signed z) as [E V]. rewrite E, sapp_assoc.
  rewrite (parse_int_float_signed (z <? 0) (Z.to_N (Z.abs z)) (String "." f)).
  - rewrite V. reflexivity.
  - apply parse_ufloat_int_frac. exact Hf.
Qed.

Lemma parse_tokens_print l : parse_tokens (map print_int l) = Ok l.
Proof.
  induction l as [|z l IH]; [reflexivity|]. cbn [map parse_tokens]. rewrite parse_print_int, IH. reflexivity.
Qed.

(* load_spins reads back what gen's loop writes, for every vector of int16 values *)
Theorem load_write_spins l : forallb in_short l = true -> load_spins (write_spins l) = Ok l.
Proof.
  intros H. unfold load_spins. rewrite spin_tokens_split, split_ws_write_spins, parse_tokens_print, H.
  reflexivity.
Qed.

(* only the token sequence matters: several spins per line, blank lines, tabs ... *)
Theorem load_spins_tokens b1 b2 : split_ws b1 = split_ws b2 -> load_spins b1 = load_spins b2.
Proof. intros H. unfold load_spins. rewrite !spin_tokens_split, H. reflexivity. Qed.

(* ---------- the variable maps on integer vectors ---------- *)
Lemma wrap_short_id z : in_short z = true -> wrap_short z = z.
Proof.
  unfold in_short, wrap_short. rewrite andb_true_iff, !Z.leb_le. intros [H1 H2].
  rewrite Z.mod_small by lia. lia.
Qed.

Definition small (v : Z) : Prop := -16383 <= v <= 16383.

Lemma binl_small x : binl x -> Forall small x.
Proof. apply Forall_impl. intros v [->| ->]; unfold small; lia. Qed.

Lemma x_to_s_short x : Forall small x -> forallb in_short (x_to_s x) = true.
Proof.
  intros H. unfold x_to_s. rewrite forallb_forall. intros s Hs. apply in_map_iff in Hs.
  destruct Hs as (v & <- & Hv). rewrite Forall_forall in H. specialize (H v Hv). unfold small in H.
  unfold in_short. rewrite andb_true_iff, !Z.leb_le. lia.
Qed.

Lemma s_to_x2_x_to_s x : Forall small x -> s_to_x2 (x_to_s x) = map (Z.mul 2) x.
Proof.
  intros H. unfold s_to_x2, x_to_s. rewrite map_map. apply map_ext_in. intros v Hv.
  rewrite Forall_forall in H. specialize (H v Hv). unfold small in H.
  replace (1 - (1 - 2 * v)) with (2 * v) by lia. apply wrap_short_id.
  unfold in_short. rewrite andb_true_iff, !Z.leb_le. lia.
Qed.

(* s_to_x(x_to_s(x)) = x on integer vectors *)
Theorem s_to_x_x_to_s x : s_to_x (x_to_s x) = x.
Proof.
  unfold s_to_x, x_to_s. rewrite map_map. rewrite <- (map_id x) at 2. apply map_ext. intros v.
  replace (1 - (1 - 2 * v)) with (v * 2) by lia. apply Z.div_mul. discriminate.
Qed.

(* spins of a 0-1 vector are +1 / -1, and the model's maps are C01's *)
Theorem x_to_s_spin x : binl x -> Forall (fun s => s = 1 \/ s = -1) (x_to_s x).
Proof.
  intros H. unfold x_to_s. apply Forall_map. revert H. apply Forall_impl. intros v [->| ->]; [left | right]; reflexivity.
Qed.

Theorem x_to_s_is_x2s x i :
  Zvec_of (x_to_s x) i = (if (i <? List.length x)%nat then Qubo.x2s Z 1 Z.add Z.mul Z.sub (Zvec_of x) i else 0).
Proof.
  unfold Qubo.x2s, Qubo.two. rewrite !Zvec_of_nth. unfold x_to_s.
  destruct (Nat.ltb_spec i (List.length x)) as [Hi|Hi].
  - rewrite (nth_indep _ 0 (1 - 2 * 0)) by (rewrite map_length; exact Hi).
    rewrite (map_nth (fun v => 1 - 2 * v)). lia.
  - apply nth_overflow. rewrite map_length. exact Hi.
Qed.

(* ====================================================================================== *)
(* Part 3: convenience()                                                                   *)
(* ====================================================================================== *)
Lemma Zvec_of_double l i : Zvec_of (map (Z.mul 2) l) i = 2 * Zvec_of l i.
Proof. rewrite !Zvec_of_nth. change 0 with (2 * 0) at 1. apply (map_nth (Z.mul 2)). Qed.

Lemma Zmv_double n (M : mat Z) l k : Zmv n M (Zvec_of (map (Z.mul 2) l)) k = 2 * Zmv n M (Zvec_of l) k.
Proof.
  unfold Zmv, mv. rewrite <- sumZn_scal_l. apply sumZn_ext; intros j _. rewrite Zvec_of_double. ring.
Qed.

Lemma vio_l_double A b x : vio_l A (map (Z.mul 2) b) (map (Z.mul 2) x) = vio_l A b x.
Proof.
  unfold vio_l. rewrite !map_length. apply map_ext. intros k. unfold lin_violated.
  rewrite Zmv_double, Zvec_of_double. f_equal.
  destruct (Z.eqb_spec (2 * Zmv (List.length x) (Zmat_of A) (Zvec_of x) k) (2 * Zvec_of b k)) as [E|E];
    destruct (Z.eqb_spec (Zmv (List.length x) (Zmat_of A) (Zvec_of x) k) (Zvec_of b k)) as [F|F]; try reflexivity; lia.
Qed.

Lemma vio_q_double Q r x : vio_q Q (4 * r) (map (Z.mul 2) x) = 4 * vio_q Q r x.
Proof.
  unfold vio_q. cbv zeta. rewrite map_length. unfold Zdot, dot.
  rewrite (sumZn_ext _ _ (fun i => 4 * (Zvec_of x i * Zmv (List.length x) (coo_dense Q) (Zvec_of x) i))).
  - rewrite sumZn_scal_l. ring.
  - intros i _. rewrite Zmv_double, Zvec_of_double. ring.
Qed.

(* the measures at twice the vector against (A, 2 b, Q, 4 r) are the measures at the vector, the
   quadratic one times four *)
Theorem test_feasibility_double x A b Q r :
  test_feasibility (map (Z.mul 2) x) A (map (Z.mul 2) b) Q (4 * r) = scale_measures (test_feasibility x A b Q r).
Proof. unfold test_feasibility, scale_measures. rewrite vio_l_double, vio_q_double. reflexivity. Qed.

Lemma loadable_guard n d :
  loadable n d -> cA_sparse d && (List.length (cb d) =? 0)%nat && (2 <=? n)%nat = false.
Proof.
  intros [H|[H|H]].
  - rewrite H. reflexivity.
  - destruct (cb d); [contradiction|]. cbn [List.length Nat.eqb]. rewrite andb_false_r. reflexivity.
  - destruct (Nat.leb_spec 2 n); [lia|]. apply andb_false_r.
Qed.

(* convenience() on the spins file written from an in-memory integer vector x and on the saved
   constraint data returns exactly the in-memory measures (for any save / load pair with
   load (save d) = d) *)
Theorem convenience_roundtrip {npz : Type} (save : cdata -> npz) (load : npz -> cdata) :
  (forall d, load (save d) = d) ->
  forall x d, Forall small x -> loadable (List.length x) d ->
    convenience load (save d) (sol_bytes x) =
    Ok (scale_measures (test_feasibility x (cA d) (cb d) (cQ d) (cr d))).
Proof.
  intros Hls x d Hx Hl. unfold convenience, sol_bytes.
  rewrite (load_write_spins _ (x_to_s_short x Hx)), Hls. unfold convenience_data.
  assert (E : List.length (x_to_s x) = List.length x) by (unfold x_to_s; apply map_length).
  rewrite E, (loadable_guard _ d Hl), (s_to_x2_x_to_s x Hx), test_feasibility_double. reflexivity.
Qed.

(* the unloadable corner (hand-made data only: sparse A_eq without rows and >= 2 variables) *)
Theorem convenience_sparse_empty {npz : Type} (load : npz -> cdata) f sol spins :
  load_spins sol = Ok spins ->
  cA_sparse (load f) = true -> cb (load f) = [] -> (2 <= List.length spins)%nat ->
  convenience load f sol = Err ValueError.
Proof.
  intros Hs H1 H2 H3. unfold convenience, convenience_data. rewrite Hs, H1, H2.
  cbn [List.length Nat.eqb andb]. destruct (Nat.leb_spec 2 (List.length spins)); [reflexivity | lia].
Qed.

(* ---------- composition with C03 / C09 ---------- *)
Lemma coo_dense_nonneg Q : Forall (fun e => 0 <= e_val e) Q -> forall i j, 0 <= coo_dense Q i j.
Proof.
  intros H i j. induction H as [|e Q He _ IH]; [cbn; lia|].
  rewrite coo_dense_cons. destruct (Nat.eqb (e_row e) i && Nat.eqb (e_col e) j); lia.
Qed.

(* x a 0-1 vector satisfying the constraints Af x = bf, x'Rx = 0, where Af, bf, R are (on their blocks)
   the dense meanings of the saved A, b and of the stored Q: convenience() on the files written from x and
   the data (A, b, Q, 0) reports no violated row and vio_q = 0 *)
Theorem convenience_of_feasible {npz : Type} (save : cdata -> npz) (load : npz -> cdata) :
  (forall d, load (save d) = d) ->
  forall x A sp b Q (Af : mat Z) (bf : vec Z) (R : mat Z),
    let n := List.length x in
    let m := List.length b in
    let d := mkCdata A sp b Q 0 in
    binl x -> loadable n d ->
    (forall k j, (k < m)%nat -> (j < n)%nat -> Af k j = Zmat_of A k j) ->
    (forall k, (k < m)%nat -> bf k = Zvec_of b k) ->
    (forall i j, (i < n)%nat -> (j < n)%nat -> R i j = coo_dense Q i j) ->
    Zfeasible m n Af bf R (Zvec_of x) ->
    convenience load (save d) (sol_bytes x) = Ok (repeat false m, 0, nnz Q).
Proof.
  intros Hls x A sp b Q Af bf R n m d Hb Hl HA Hbf HRQ [H1 H2].
  rewrite (convenience_roundtrip save load Hls x d (binl_small x Hb) Hl).
  cbn [cA cb cQ cr d]. unfold test_feasibility, scale_measures.
  assert (E1 : vio_l A b x = repeat false m).
  { apply nth_ext with (d := false) (d' := false); [rewrite vio_l_length, repeat_length; reflexivity|].
    intros k Hk. rewrite vio_l_length in Hk. rewrite (vio_l_nth A b x k Hk), nth_repeat.
    apply lin_violated_false_iff. rewrite <- (Hbf k Hk), <- (H1 k Hk).
    unfold Zmv, mv. apply sumZn_ext. intros j Hj. rewrite (HA k j Hk Hj). reflexivity. }
  assert (E2 : vio_q Q 0 x = 0).
  { rewrite vio_q_qf. fold n. rewrite <- (Zqf_ext n R (coo_dense Q) _ HRQ), H2. reflexivity. }
  rewrite E1, E2. reflexivity.
Qed.

(* the same from the value of the feasibility-mode QUBO (default penalty) at x being 0 -- the
   postcondition C09 proves for the stored solution of make_feasible -- when R >= 0 entrywise (C03) *)
Theorem convenience_of_zero_energy {npz : Type} (save : cdata -> npz) (load : npz -> cdata) :
  (forall d, load (save d) = d) ->
  forall x A sp b Q (Af : mat Z) (bf : vec Z) (R : mat Z) (c : vec Z) (Qo : mat Z) S,
    let n := List.length x in
    let m := List.length b in
    let d := mkCdata A sp b Q 0 in
    binl x -> loadable n d ->
    (forall k j, (k < m)%nat -> (j < n)%nat -> Af k j = Zmat_of A k j) ->
    (forall k, (k < m)%nat -> bf k = Zvec_of b k) ->
    (forall i j, (i < n)%nat -> (j < n)%nat -> R i j = coo_dense Q i j) ->
    (forall i j, (i < n)%nat -> (j < n)%nat -> 0 <= R i j) ->
    Zqubo_value n (Zget_qubo m true (Zchoose_rho true S None) (Af, bf, R) (c, Qo)) (Zvec_of x) = 0 ->
    convenience load (save d) (sol_bytes x) = Ok (repeat false m, 0, nnz Q).
Proof.
  intros Hls x A sp b Q Af bf R c Qo S n m d Hb Hl HA Hbf HRQ HR Hval.
  apply (convenience_of_feasible save load Hls x A sp b Q Af bf R Hb Hl HA Hbf HRQ).
  rewrite (feas_value_is_penalty n m _ _ _ c Qo S _ (binl_Zbinary x Hb)) in Hval.
  apply (penalty_zero_iff m n _ _ _ _ HR (binl_Zbinary x Hb)). exact Hval.
Qed.

(* ====================================================================================== *)
(* Part 4: file names                                                                      *)
(* ====================================================================================== *)
Lemma split_on_aux_word c a : forall cur s,
  sall (not_char c) a = true ->
  split_on_aux c cur (a ++ String c s) = ((cur ++ a)%string :: split_on_aux c "" s)%list.
Proof.
  induction a as [|x a IH]; intros cur s H.
  - cbn [append split_on_aux]. rewrite Ascii.eqb_refl, sapp_nil_r. reflexivity.
  - cbn [sall] in H. apply andb_true_iff in H. destruct H as [H1 H2].
    unfold not_char in H1. apply negb_true_iff in H1. cbn [append split_on_aux]. rewrite H1.
    rewrite IH by exact H2. rewrite sapp_assoc. reflexivity.
Qed.

Lemma print_N_not_char x k : digitc x = false -> sall (not_char x) (print_N k) = true.
Proof.
  intros Hx. apply (sall_impl digitc); [|apply print_N_digits]. intros c Hc. apply digitc_not_char; assumption.
Qed.

(* the "_"-separated fields of a file name built on bname *)
Theorem bname_fields name n sfx :
  sall (not_char "_") name = true ->
  split_on "_" (bname name n ++ sfx) = ("test" :: name :: print_N n :: split_on "_" sfx)%list.
Proof.
  intros Hn. unfold bname, split_on. rewrite !sapp_assoc.
  change ("test_" ++ name ++ "_" ++ print_N n ++ "_" ++ sfx)
    with ("test" ++ String "_" (name ++ String "_" (print_N n ++ String "_" sfx))).
  rewrite (split_on_aux_word "_" "test") by reflexivity.
  rewrite (split_on_aux_word "_" name) by exact Hn.
  rewrite (split_on_aux_word "_" (print_N n)) by (apply print_N_not_char; reflexivity).
  reflexivity.
Qed.

(* the variable count and the formulation can be read back from every file name of the test set *)
Theorem name_carries_nvars name n sfx :
  sall (not_char "_") name = true ->
  name_nvars (bname name n ++ sfx) = Some n /\ name_form (bname name n ++ sfx) = Some name.
Proof.
  intros Hn. unfold name_nvars, name_form. rewrite (bname_fields name n sfx Hn).
  cbn [nth_error]. split; [apply parse_print_N | reflexivity].
Qed.

Theorem bname_injective name name' n n' sfx sfx' :
  sall (not_char "_") name = true -> sall (not_char "_") name' = true ->
  bname name n ++ sfx = bname name' n' ++ sfx' -> name = name' /\ n = n'.
Proof.
  intros H H' E.
  destruct (name_carries_nvars name n sfx H) as [A B].
  destruct (name_carries_nvars name' n' sfx' H') as [A' B'].
  rewrite E in A, B. split; congruence.
Qed.

(* do_all pairs "<bname>.npz" with "<bname>.sol", the file gen writes the spins to *)
Lemma sall_not_char_app c a b : sall (not_char c) (a ++ b) = sall (not_char c) a && sall (not_char c) b.
Proof. apply sall_app. Qed.

Lemma bname_no_dot name n : sall (not_char ".") name = true -> sall (not_char ".") (bname name n) = true.
Proof.
  intros H. unfold bname. rewrite !sall_app, H, (print_N_not_char "." n) by reflexivity. reflexivity.
Qed.

Theorem do_all_pairs_files b :
  sall (not_char ".") b = true -> do_all_sol (npz_name b) = Some (sol_name b).
Proof.
  intros H. unfold do_all_sol, last_ext, splitext_root, npz_name, sol_name, split_on.
  change (b ++ ".npz") with (b ++ String "." "npz").
  rewrite (split_on_aux_word "." b "" "npz" H). cbn [append].
  rewrite (split_on_aux_none "." "npz" "") by reflexivity. reflexivity.
Qed.

(* the three formulation names of gen *)
Theorem initials_of_formulations :
  initials "arc_based" = Ok "ab" /\ initials "path_based" = Ok "pb" /\ initials "sequence_based" = Ok "sb".
Proof. repeat split; reflexivity. Qed.

(* ---------- C01's s_to_x on the spins of a 0-1 vector (Qc instance, where 1/2 exists) ---------- *)
From Coq Require Import QArith Qcanon.
Theorem s_to_x_is_s2x_Qc (s : Z) :
  (s = 1 \/ s = -1)%Z ->
  Qubo.s2x_Qc (fun _ => qcZ s) O = qcZ ((1 - s) / 2)%Z.
Proof. intros [->| ->]; apply Qc_is_canon; reflexivity. Qed.
