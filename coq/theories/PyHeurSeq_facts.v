(* PyHeurSeq_facts.v -- lemmas about the object record of PyHeurSeq.v and frame facts of the hand model
   Heur.mf_seq (names / nodes never change, positions stay below the number of nodes) that the
   equality proofs of coq/genprops/C09_gen.v use.  Nothing here mentions a generated definition.  [C09] *)
From Coq Require Import ZArith List Bool Lia Arith.
From VQ Require Import Base Vrptw Seq Seq_facts Path Heur Heur_facts PyEnumCore PySeq PyHeur PyHeur_facts PyHeurSeq.
Import ListNotations.

(* the object holds the hand model's state (strict flag, instance) and its caches are coherent *)
Definition hq_holds (self : hq) (strict : bool) (I : inst) : Prop :=
  hq_strict self = strict /\ hq_inst self = I /\ seq_coherent (hq_q self).

Lemma hq_set_q_id s : hq_set_q (hq_q s) s = s.
Proof. destruct s; reflexivity. Qed.

Lemma hq_holds_graph self strict I : hq_holds self strict I -> hq_graph self = ig I.
Proof. intros (_ & <- & _). reflexivity. Qed.
Lemma hq_holds_V self strict I : hq_holds self strict I -> hq_max_vehicles self = iV I.
Proof. intros (_ & <- & _). reflexivity. Qed.
Lemma hq_holds_L self strict I : hq_holds self strict I -> hq_max_sequence_length self = iL I.
Proof. intros (_ & <- & _). reflexivity. Qed.
Lemma hq_holds_vc self strict I : hq_holds self strict I -> hq_vehicle_cost self = ivc I.
Proof. intros (_ & <- & _). reflexivity. Qed.
Lemma hq_holds_strict self strict I : hq_holds self strict I -> hq_strict self = strict.
Proof. intros (H & _). exact H. Qed.

(* an object whose enumeration flag is down is coherent, whatever it holds *)
Lemma hq_holds_stale self strict I :
  hq_variables_enumerated self = false -> hq_strict self = strict -> hq_inst self = I -> hq_holds self strict I.
Proof.
  intros E S HI. split; [exact S|]. split; [exact HI|].
  intros Ht. unfold hq_variables_enumerated in E. congruence.
Qed.

Lemma hq_inst_eta self : hq_inst self = mkInst (hq_graph self) (hq_max_vehicles self) (hq_max_sequence_length self) (hq_vehicle_cost self).
Proof. reflexivity. Qed.

(* the sort key of make_feasible: window end *)
Lemma insert_key_eq self x l :
  py_insert_key PyEnumCore.ext_ltb (fun n => snd (hq_get_window (hq_nodes_item self n))) x l =
  insert_by (hq_graph self) x l.
Proof. induction l as [|y l IH]; [reflexivity|]. cbn [py_insert_key insert_by]. rewrite IH. reflexivity. Qed.

Lemma sort_key_eq self l :
  py_list_sort_key PyEnumCore.ext_ltb (fun n => snd (hq_get_window (hq_nodes_item self n))) l =
  sort_by_end (hq_graph self) l.
Proof.
  unfold py_list_sort_key, sort_by_end. generalize (@nil nat).
  induction l as [|x l IH]; intros acc; cbn [fold_left]; [reflexivity|]. rewrite insert_key_eq. apply IH.
Qed.

(* ---------- frame facts of the hand model ---------- *)
Section Frames.
  Variable strict : bool.

  Lemma ensure_arc_frame g i j c g' :
    ensure_arc strict g i j c = Ok g' -> names g' = names g /\ nodes g' = nodes g.
  Proof.
    unfold ensure_arc. destruct (dict_mem (i, j) (arcs g)); [intros H; inversion H; auto|].
    destruct (nth_error (names g) i); [|discriminate]. destruct (nth_error (names g) j); [|discriminate].
    destruct (add_arc_gen strict g n n0 0 c) as [[g1 [|]]|e] eqn:Ea; try discriminate.
    intros H; inversion H; subst. eapply add_arc_gen_frame; eauto.
  Qed.

  Lemma find_In_bound (f : nat -> bool) N unv ni :
    find f unv = Some ni -> Forall (fun n => n < N)%nat unv -> (ni < N)%nat.
  Proof. intros Hf HF. rewrite Forall_forall in HF. apply HF. eapply find_some; eauto. Qed.

  Lemma veh_loop_frame ss : forall g v cur unv used g' cur' unv' used',
    veh_loop strict g v ss cur unv used = Ok (g', cur', unv', used') ->
    names g' = names g /\ nodes g' = nodes g.
  Proof.
    induction ss as [|si ss IH]; intros g v cur unv used g' cur' unv' used' H; cbn [veh_loop] in H.
    - inversion H; subst; auto.
    - destruct (find (fun ni => dict_mem (cur, ni) (arcs g)) unv) as [ni|] eqn:Ef.
      + destruct (remove_first ni unv) as [unv1|] eqn:Er; [|discriminate]. eapply IH; eauto.
      + destruct (ensure_arc strict g cur 0 0) as [g1|e] eqn:Ee; [|discriminate].
        inversion H; subst. eapply ensure_arc_frame; eauto.
  Qed.

  Lemma veh_loop_bound ss : forall g v cur unv used g' cur' unv' used' N,
    veh_loop strict g v ss cur unv used = Ok (g', cur', unv', used') ->
    Forall (fun n => n < N)%nat unv -> Forall (fun n => n < N)%nat unv'.
  Proof.
    induction ss as [|si ss IH]; intros g v cur unv used g' cur' unv' used' N H HF; cbn [veh_loop] in H.
    - inversion H; subst; auto.
    - destruct (find (fun ni => dict_mem (cur, ni) (arcs g)) unv) as [ni|] eqn:Ef.
      + destruct (remove_first ni unv) as [unv1|] eqn:Er; [|discriminate].
        eapply IH; eauto using remove_first_Forall.
      + destruct (ensure_arc strict g cur 0 0) as [g1|e] eqn:Ee; [|discriminate].
        inversion H; subst. auto.
  Qed.

  Lemma veh_step_frame L g v unv used g' unv' used' :
    veh_step strict L g v unv used = Ok (g', unv', used') ->
    names g' = names g /\ nodes g' = nodes g.
  Proof.
    unfold veh_step. intros H.
    destruct (veh_loop strict g v (seq 1 (L - 2)) 0 unv used) as [[[[g1 cur] unv1] used1]|e] eqn:E; [|discriminate].
    destruct (veh_loop_frame _ _ _ _ _ _ _ _ _ _ E) as (A & B).
    destruct (Nat.eqb cur 0).
    - inversion H; subst; auto.
    - destruct (ensure_arc strict g1 cur 0 0) as [g2|e] eqn:Ee; [|discriminate]. inversion H; subst.
      destruct (ensure_arc_frame _ _ _ _ _ Ee) as [A2 B2]. rewrite A2, B2. auto.
  Qed.

  Lemma veh_step_bound L g v unv used g' unv' used' N :
    veh_step strict L g v unv used = Ok (g', unv', used') ->
    Forall (fun n => n < N)%nat unv -> Forall (fun n => n < N)%nat unv'.
  Proof.
    unfold veh_step. intros H HF.
    destruct (veh_loop strict g v (seq 1 (L - 2)) 0 unv used) as [[[[g1 cur] unv1] used1]|e] eqn:E; [|discriminate].
    pose proof (veh_loop_bound _ _ _ _ _ _ _ _ _ _ N E HF) as D.
    destruct (Nat.eqb cur 0); [inversion H; subst; auto|].
    destruct (ensure_arc strict g1 cur 0 0); [|discriminate]. inversion H; subst. auto.
  Qed.

  Lemma veh_all_frame L vs : forall g unv used g' unv' used' N,
    veh_all strict L g vs unv used = Ok (g', unv', used') ->
    Forall (fun n => n < N)%nat unv ->
    names g' = names g /\ nodes g' = nodes g /\ Forall (fun n => n < N)%nat unv'.
  Proof.
    induction vs as [|v vs IH]; intros g unv used g' unv' used' N H HF; cbn [veh_all] in H.
    - inversion H; subst; auto.
    - destruct (veh_step strict L g v unv used) as [[[g1 unv1] used1]|e] eqn:E; [|discriminate].
      destruct (veh_step_frame _ _ _ _ _ _ _ _ E) as (A & B).
      destruct (IH _ _ _ _ _ _ N H (veh_step_bound _ _ _ _ _ _ _ _ N E HF)) as (A2 & B2 & C2).
      rewrite A2, B2. auto.
  Qed.
End Frames.

(* the cache discipline of the three build flags the hand model does not have: a flag that is up after a
   step was up before it, and the step did not change the problem (graph, vehicles, vehicle costs) *)
Definition hq_flags_ok (self self' : hq) : Prop :=
  (hq_objective_built self' = true -> hq_objective_built self = true /\ hq_inst self' = hq_inst self) /\
  (hq_lin_con_built self' = true -> hq_lin_con_built self = true /\ hq_inst self' = hq_inst self) /\
  (hq_quad_con_built self' = true -> hq_quad_con_built self = true /\ hq_inst self' = hq_inst self).
Definition hq_flags_down (s : hq) : Prop :=
  hq_objective_built s = false /\ hq_lin_con_built s = false /\ hq_quad_con_built s = false.
Lemma hq_flags_ok_refl s : hq_flags_ok s s.
Proof. repeat split; auto. Qed.
Lemma hq_flags_ok_trans a b c : hq_flags_ok a b -> hq_flags_ok b c -> hq_flags_ok a c.
Proof.
  intros (A1 & A2 & A3) (B1 & B2 & B3). split; [|split]; intros H.
  - destruct (B1 H) as [H1 E1]. destruct (A1 H1) as [H2 E2]. split; congruence.
  - destruct (B2 H) as [H1 E1]. destruct (A2 H1) as [H2 E2]. split; congruence.
  - destruct (B3 H) as [H1 E1]. destruct (A3 H1) as [H2 E2]. split; congruence.
Qed.
Lemma hq_flags_ok_down s s' : hq_flags_down s' -> hq_flags_ok s s'.
Proof. intros (A & B & C). split; [|split]; intros H; congruence. Qed.
Lemma hq_flags_ok_after_down s0 s s' : hq_flags_down s -> hq_flags_ok s s' -> hq_flags_ok s0 s'.
Proof.
  intros (A & B & C) (C1 & C2 & C3). split; [|split]; intros H; [destruct (C1 H)|destruct (C2 H)|destruct (C3 H)]; congruence.
Qed.

(* ---------- simulation between outcomes of generated loops (object + locals) and of the hand model's
   loops (graph / instance components + the same locals): same exception class, or the same locals
   and an object that holds the hand model's new state ---------- *)
Definition veh_sim (strict : bool) (V L : nat) (vc : list Z) (self : hq)
           (rg : result (hq * list tuple * list nat * nat)) (rh : result (graph * nat * list nat * list tuple)) : Prop :=
  match rh with
  | Err e => rg = Err e
  | Ok (g', cur', unv', used') =>
      exists self', rg = Ok (self', used', unv', cur') /\ hq_holds self' strict (mkInst g' V L vc) /\
                    hq_flags_ok self self'
  end.

Definition step_sim (strict : bool) (V L : nat) (vc : list Z) (self : hq)
           (rg : result (hq * list tuple * list nat)) (rh : result (graph * list nat * list tuple)) : Prop :=
  match rh with
  | Err e => rg = Err e
  | Ok (g', unv', used') =>
      exists self', rg = Ok (self', used', unv') /\ hq_holds self' strict (mkInst g' V L vc) /\
                    hq_flags_ok self self'
  end.

Definition dum_sim (strict : bool) (L : nat) (self : hq)
           (rg : result (hq * list tuple)) (rh : result (graph * nat * list Z * list tuple)) : Prop :=
  match rh with
  | Err e => rg = Err e
  | Ok (g', V', vc', used') =>
      exists self', rg = Ok (self', used') /\ hq_holds self' strict (mkInst g' V' L vc') /\
                    hq_flags_ok self self'
  end.

(* `if not check_arc((i, j)): ...add_arc...` on the object against Heur.ensure_arc on the graph *)
Definition ens_sim (strict : bool) (V L : nat) (vc : list Z) (self : hq) (rg : result hq) (rh : result graph) : Prop :=
  match rh with
  | Err e => rg = Err e
  | Ok g' => exists self', rg = Ok self' /\ hq_holds self' strict (mkInst g' V L vc) /\ hq_flags_ok self self'
  end.

Lemma hq_inst_set_graph g' self :
  hq_inst (hq_set_graph g' self) = mkInst g' (iV (hq_inst self)) (iL (hq_inst self)) (ivc (hq_inst self)).
Proof. reflexivity. Qed.

(* a loop body that neither breaks nor continues early: its outcome as an outcome of the state *)
Definition next_of {S} (rg : result (ctl * S)) (rs : result S) : Prop :=
  match rs with
  | Ok st => rg = Ok (CNext, st)
  | Err e => rg = Err e
  end.

Lemma py_forM_cons_next {A S} (body : A -> S -> result (ctl * S)) x l st rs :
  next_of (body x st) rs -> py_forM body (x :: l) st = py_bind rs (py_forM body l).
Proof. unfold next_of. intros H. cbn [py_forM]. destruct rs; rewrite H; reflexivity. Qed.

(* ... in the dummy-vehicle loop, where the flags were reset at the top of the iteration *)
Definition ens_sim_stale (strict : bool) (V L : nat) (vc : list Z) (rg : result hq) (rh : result graph) : Prop :=
  match rh with
  | Err e => rg = Err e
  | Ok g' => exists self', rg = Ok self' /\ hq_holds self' strict (mkInst g' V L vc) /\
                           hq_variables_enumerated self' = false /\ hq_flags_down self'
  end.

Lemma insert_by_Forall (P : nat -> Prop) g x l : P x -> Forall P l -> Forall P (insert_by g x l).
Proof.
  intros Hx HF. induction HF as [|y l Hy HF IH]; cbn [insert_by]; [auto|].
  destruct (Heur.ext_ltb (nhi (gnode g x)) (nhi (gnode g y))); auto.
Qed.

Lemma sort_by_end_Forall (P : nat -> Prop) g l : Forall P l -> Forall P (sort_by_end g l).
Proof.
  unfold sort_by_end. assert (H : Forall P (@nil nat)) by constructor. revert H. generalize (@nil nat).
  induction l as [|x l IH]; intros acc Ha HF; cbn [fold_left]; [exact Ha|].
  inversion HF; subst. apply IH; [apply insert_by_Forall; auto | auto].
Qed.

Lemma customers_below N cust : remove_first 0 (seq 0 N) = Some cust -> Forall (fun n => n < N)%nat cust.
Proof.
  intros H. apply (remove_first_Forall _ _ _ _ H). apply Forall_forall. intros n Hn. apply in_seq in Hn. lia.
Qed.

(* outcome of the generated make_feasible against the outcome of Heur.mf_seq *)
Definition mf_sim (strict : bool) (self : hq) (rg : result (hq * unit)) (rh : result (inst * list Z)) : Prop :=
  match rh with
  | Err e => rg = Err e
  | Ok (I', x) => exists self', rg = Ok (self', Datatypes.tt) /\ hq_holds self' strict I' /\
                                hq_feasible_solution self' = x /\ hq_flags_ok self self'
  end.

Lemma mf_sim_obs strict self rg rh : mf_sim strict self rg rh -> hq_obs rg = rh.
Proof.
  unfold mf_sim. destruct rh as [[I' x]|e].
  - intros (self' & -> & (_ & <- & _) & <- & _). reflexivity.
  - intros ->. reflexivity.
Qed.

Lemma hq_fresh_holds strict I : hq_holds (hq_fresh strict I) strict I.
Proof. apply hq_holds_stale; try reflexivity. destruct I; reflexivity. Qed.

Lemma dum_sim_after_down strict L s0 s rg rh :
  hq_flags_down s -> dum_sim strict L s rg rh -> dum_sim strict L s0 rg rh.
Proof.
  intros Hd. unfold dum_sim. destruct rh as [[[[g' V'] vc'] used']|e]; [|auto].
  intros (s' & A & B & C). exists s'. split; [exact A|]. split; [exact B|].
  exact (hq_flags_ok_after_down s0 s s' Hd C).
Qed.
