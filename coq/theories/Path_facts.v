(* Path_facts.v -- proofs about the model of path_based_rp.py (Path.v).  [C06]
   1. check_route accepts exactly the routes of the paper's definition (valid_route),
      with cost = sum of arc costs and visits_node = indicator of the nodes on the route;
   2. add_route stores a route at most once; invariant over all histories;
   3. the constraint data are the exact-cover system over the stored routes. *)
From Coq Require Import ZArith List Bool Lia ZifyBool.
From VQ Require Import Base Vrptw Vrptw_facts Path.

(* ================= generic list facts ================= *)
Lemma set_nth_length {A} p (x : A) l : length (set_nth p x l) = length l.
Proof. revert p; induction l as [|y l IH]; intros [|p]; simpl; auto. Qed.

Lemma nth_error_set_nth_same {A} p (x : A) l :
  (p < length l)%nat -> nth_error (set_nth p x l) p = Some x.
Proof.
  revert p; induction l as [|y l IH]; intros [|p]; simpl; intros H; try lia; auto.
  apply IH; lia.
Qed.

Lemma nth_error_set_nth_other {A} p q (x : A) l :
  p <> q -> nth_error (set_nth p x l) q = nth_error l q.
Proof.
  revert p q; induction l as [|y l IH]; intros [|p] [|q]; simpl; intros H; auto; try lia;
    try (apply IH; lia).
Qed.

Lemma set_nth_same {A} p (x : A) l : nth_error l p = Some x -> set_nth p x l = l.
Proof.
  revert p; induction l as [|y l IH]; intros [|p]; simpl; intros H; auto.
  - inversion H; auto.
  - f_equal; auto.
Qed.

Lemma nth_set_nth_same p (x : Z) l d : (p < length l)%nat -> nth p (set_nth p x l) d = x.
Proof.
  intros H. apply nth_error_nth. apply nth_error_set_nth_same; auto.
Qed.

Lemma nth_set_nth_other p q (x : Z) l d : p <> q -> nth q (set_nth p x l) d = nth q l d.
Proof.
  revert p q; induction l as [|y l IH]; intros [|p] [|q]; simpl; intros H; auto; try lia;
    try (apply IH; lia).
Qed.

Lemma index_of_nth_error_NoDup l : NoDup l ->
  forall j x, nth_error l j = Some x -> index_of x l = Some j.
Proof.
  induction 1 as [|y l Hy Hnd IH]; intros [|j] x; simpl; try discriminate.
  - intros E; inversion E; subst. rewrite Nat.eqb_refl. reflexivity.
  - intros E. destruct (Nat.eqb_spec x y) as [->|Hne].
    + exfalso. apply Hy. eapply nth_error_In; eauto.
    + rewrite (IH _ _ E). reflexivity.
Qed.

Lemma dict_get_In {V} k (v : V) d : dict_get k d = Some v -> In (k, v) d.
Proof.
  induction d as [|[k' v'] d IH]; simpl; [discriminate|].
  destruct (natpair_eqb k k') eqn:E.
  - apply natpair_eqb_eq in E; subst. intros H; inversion H; auto.
  - auto.
Qed.

Lemma dict_mem_get {V} k (d : dict V) : dict_mem k d = true <-> exists v, dict_get k d = Some v.
Proof.
  unfold dict_mem. destruct (dict_get k d) as [v|].
  - split; eauto.
  - split; [discriminate | intros [v H]; discriminate].
Qed.

Lemma memb_false_notIn x l : memb x l = false <-> ~ In x l.
Proof.
  rewrite <- memb_In. destruct (memb x l); split; congruence.
Qed.

Lemma list_eqb_nat_eq l m : list_eqb Nat.eqb l m = true <-> l = m.
Proof.
  revert m; induction l as [|x l IH]; intros [|y m]; simpl; try (split; [discriminate|discriminate]).
  - split; auto.
  - rewrite andb_true_iff, Nat.eqb_eq, IH. split; [intros [-> ->]; auto | intros H; inversion H; auto].
Qed.

(* ================= Python indexing, indicator vectors ================= *)
Lemma py_pos_nat len c : (c < len)%nat -> py_pos len (Z.of_nat c) = Some c.
Proof.
  intros H. unfold py_pos.
  destruct (0 <=? Z.of_nat c) eqn:E1; [|lia].
  destruct (Z.of_nat c <? Z.of_nat len) eqn:E2; [|lia].
  simpl. rewrite Nat2Z.id. reflexivity.
Qed.

Lemma py_pos_zero len p : py_pos len 0 = Some p -> (0 < len)%nat.
Proof.
  unfold py_pos. simpl.
  destruct (0 <? Z.of_nat len) eqn:E; [lia|]. simpl. discriminate.
Qed.

Lemma indicator_length n s : length (indicator n s) = n.
Proof. unfold indicator. rewrite map_length, seq_length. reflexivity. Qed.

Lemma nth_map_seq {B} (f : nat -> B) k n c d : (c < n)%nat -> nth c (map f (seq k n)) d = f (k + c)%nat.
Proof.
  revert k c; induction n as [|n IH]; intros k [|c] H; simpl; try lia.
  - f_equal; lia.
  - rewrite IH by lia. f_equal; lia.
Qed.

Lemma indicator_nth n s c : (c < n)%nat -> nth c (indicator n s) 0 = if memb c s then 1 else 0.
Proof. intros H. unfold indicator. rewrite nth_map_seq by auto. reflexivity. Qed.

Lemma indicator_ext n s1 s2 : (forall x, In x s1 <-> In x s2) -> indicator n s1 = indicator n s2.
Proof.
  intros H. unfold indicator. apply map_ext. intros k.
  destruct (memb k s1) eqn:E1, (memb k s2) eqn:E2; auto.
  - apply memb_In in E1. apply H in E1. apply memb_In in E1. congruence.
  - apply memb_In in E2. apply H in E2. apply memb_In in E2. congruence.
Qed.

Lemma indicator_nil n : indicator n [] = repeat 0 n.
Proof.
  unfold indicator. simpl. generalize O. induction n as [|n IH]; intros k; simpl; auto.
  f_equal. apply IH.
Qed.

Lemma indicator_set n s c : (c < n)%nat -> set_nth c 1 (indicator n s) = indicator n (c :: s).
Proof.
  intros H. apply nth_ext with (d := 0) (d' := 0).
  - rewrite set_nth_length, !indicator_length. reflexivity.
  - rewrite set_nth_length, indicator_length. intros q Hq.
    rewrite (indicator_nth n (c :: s) q Hq). simpl.
    destruct (Nat.eqb_spec q c) as [->|Hne].
    + simpl. apply nth_set_nth_same. rewrite indicator_length; auto.
    + simpl. rewrite nth_set_nth_other by auto. apply indicator_nth; auto.
Qed.

Lemma flatnonzero_from_map (f : nat -> bool) k n :
  flatnonzero_from k (map (fun i => if f i then 1 else 0) (seq k n)) = filter f (seq k n).
Proof.
  revert k; induction n as [|n IH]; intros k; simpl; auto.
  destruct (f k); simpl; rewrite IH; reflexivity.
Qed.

Lemma flatnonzero_indicator n s : flatnonzero (indicator n s) = nodes_on n s.
Proof. unfold flatnonzero, indicator, nodes_on. apply (flatnonzero_from_map (fun k => memb k s)). Qed.

Lemma nodes_on_In n s k : In k (nodes_on n s) <-> (k < n)%nat /\ In k s.
Proof.
  unfold nodes_on. rewrite filter_In, in_seq, memb_In. split; intros [A B]; split; auto; lia.
Qed.

Lemma nodes_on_mono n n' s :
  Forall (fun i => (i < n)%nat) s -> (n <= n')%nat -> nodes_on n' s = nodes_on n s.
Proof.
  intros Hs Hle. unfold nodes_on.
  replace n' with (n + (n' - n))%nat by lia.
  rewrite seq_app, filter_app. simpl.
  assert (E : filter (fun k => memb k s) (seq n (n' - n)) = []).
  { clear Hle. generalize (n' - n)%nat as m. intros m.
    assert (G : forall k, (n <= k)%nat -> memb k s = false).
    { intros k Hk. apply memb_false_notIn. intros Hin.
      rewrite Forall_forall in Hs. specialize (Hs _ Hin). lia. }
    assert (G2 : forall m k, (n <= k)%nat -> filter (fun k => memb k s) (seq k m) = []).
    { clear m. induction m as [|m IH]; intros k Hk; simpl; auto.
      rewrite (G k Hk). apply IH. lia. }
    apply G2. lia. }
  rewrite E, app_nil_r. reflexivity.
Qed.

(* ================= arcs and nodes of a well-formed graph ================= *)
Lemma arc_get_nat g a b : arc_get g (Z.of_nat a) (Z.of_nat b) = dict_get (a, b) (arcs g).
Proof.
  unfold arc_get.
  destruct (Z.of_nat a <? 0) eqn:E1; [lia|]. destruct (Z.of_nat b <? 0) eqn:E2; [lia|].
  simpl. rewrite !Nat2Z.id. reflexivity.
Qed.

Lemma arc_get_Some g a b x :
  arc_get g a b = Some x -> 0 <= a /\ 0 <= b /\ dict_get (Z.to_nat a, Z.to_nat b) (arcs g) = Some x.
Proof.
  unfold arc_get. destruct (a <? 0) eqn:E1; simpl; [discriminate|].
  destruct (b <? 0) eqn:E2; simpl; [discriminate|]. intros H. repeat split; auto; lia.
Qed.

Lemma inv_arc_nodes g i j a :
  Inv g -> dict_get (i, j) (arcs g) = Some a ->
  (i < length (nodes g))%nat /\ (j < length (nodes g))%nat /\ node_named g (adest a) = node_at g j.
Proof.
  intros HI Hget. apply dict_get_In in Hget.
  destruct (inv_arcs g HI _ _ Hget) as (no & nd & Ho & Hd & _ & Ead & _). simpl in Ho, Hd.
  split; [eapply nth_error_lt; eauto|]. split; [eapply nth_error_lt; eauto|].
  unfold node_named, node_at.
  assert (Hn : nth_error (names g) j = Some (nname nd)).
  { rewrite (inv_aligned g HI). rewrite nth_error_map. rewrite Hd. reflexivity. }
  rewrite Ead. rewrite (index_of_nth_error_NoDup _ (inv_nodup g HI) _ _ Hn). reflexivity.
Qed.

(* ================= check_arc ================= *)
Definition next_time (g : graph) (i j : nat) (t : Z) : Z := Z.max (t + tt_of g i j) (nlo (node_at g j)).
Definition next_load (g : graph) (j : nat) (l : Z) : Z := l - ndemand (node_at g j).

Definition step_ok (st : pstate) (i j : nat) (t l : Z) : Prop :=
  dict_mem (i, j) (arcs (pg st)) = true /\
  ext_le (Fin (next_time (pg st) i j t)) (nhi (node_at (pg st) j)) /\
  0 <= next_load (pg st) j l <= pcap st.

Lemma check_arc_spec st t l i j b t2 l2 :
  Inv (pg st) ->
  check_arc st t l (Z.of_nat i) (Z.of_nat j) = (b, t2, l2) ->
  (b = true <-> step_ok st i j t l) /\
  (b = true -> t2 = next_time (pg st) i j t /\ l2 = next_load (pg st) j l).
Proof.
  intros HI. unfold check_arc, step_ok, next_time, next_load, tt_of. rewrite arc_get_nat.
  rewrite dict_mem_get.
  destruct (dict_get (i, j) (arcs (pg st))) as [a|] eqn:Ea.
  - destruct (inv_arc_nodes _ _ _ _ HI Ea) as (_ & _ & ->).
    set (nd := node_at (pg st) j).
    destruct (ext_leb (Fin (Z.max (t + att a) (nlo nd))) (nhi nd)) eqn:Et; simpl.
    + apply ext_leb_le in Et.
      destruct (pcap st <? l + - ndemand nd) eqn:E1; simpl.
      * intros H; inversion H; subst. split; [|discriminate].
        split; [discriminate|]. intros (_ & _ & H2). lia.
      * destruct (l + - ndemand nd <? 0) eqn:E2; simpl.
        -- intros H; inversion H; subst. split; [|discriminate].
           split; [discriminate|]. intros (_ & _ & H2). lia.
        -- intros H; inversion H; subst. split.
           ++ split; auto. intros _. split; [eauto|]. split; [exact Et|lia].
           ++ intros _. split; [reflexivity|lia].
    + intros H; inversion H; subst. split; [|discriminate].
      split; [discriminate|]. intros (_ & H2 & _). apply ext_leb_le in H2. congruence.
  - intros H; inversion H; subst. split; [|discriminate].
    split; [discriminate|]. intros ([v Hv] & _). discriminate.
Qed.

(* ================= the walk along the stops ================= *)
Fixpoint walk_ok (st : pstate) (i : nat) (t l : Z) (rest : list nat) : Prop :=
  match rest with
  | [] => True
  | j :: rest' =>
      step_ok st i j t l /\
      walk_ok st j (next_time (pg st) i j t) (next_load (pg st) j l) rest'
  end.

Lemma walk_ok_iff st i t l rest :
  walk_ok st i t l rest <->
  arcs_exist (pg st) i rest /\
  Forall2 (fun t j => ext_le (Fin t) (nhi (node_at (pg st) j))) (arrivals (pg st) t i rest) rest /\
  Forall (fun l => 0 <= l <= pcap st) (loads (pg st) l rest).
Proof.
  revert i t l; induction rest as [|j rest IH]; intros i t l; simpl.
  - split; [intros _; repeat split; constructor | auto].
  - rewrite IH. unfold step_ok, next_time, next_load. split.
    + intros ((A & B & C) & D & E & F). repeat split; auto.
    + intros ((A & D) & E & F). inversion E; subst. inversion F; subst. repeat split; auto; lia.
Qed.

(* ================= resolve / conv ================= *)
Definition in_range (st : pstate) (l : list nat) : Prop :=
  Forall (fun i => (i < length (nodes (pg st)))%nat) l.

Lemma resolve_cons g e r i l :
  resolve g (e :: r) = Some (i :: l) -> conv g e = Ok (Z.of_nat i) /\ resolve g r = Some l.
Proof.
  simpl. destruct e as [nm|z].
  - simpl. destruct (index_of nm (names g)) as [k|]; [|discriminate].
    destruct (resolve g r); [|discriminate]. intros H; inversion H; subst. auto.
  - simpl. destruct (0 <=? z) eqn:E; [|discriminate].
    destruct (resolve g r); [|discriminate]. intros H; inversion H; subst.
    split; auto. f_equal. lia.
Qed.

Lemma resolve_nil_inv g r : resolve g r = Some [] -> r = [].
Proof.
  destruct r as [|e r]; auto. simpl.
  destruct (match e with inl nm => index_of nm (names g) | inr z => if 0 <=? z then Some (Z.to_nat z) else None end);
    [|discriminate]. destruct (resolve g r); discriminate.
Qed.

Lemma resolve_cons_inv g e r l :
  resolve g (e :: r) = Some l -> exists i l', l = i :: l'.
Proof.
  simpl.
  destruct (match e with inl nm => index_of nm (names g) | inr z => if 0 <=? z then Some (Z.to_nat z) else None end);
    [|discriminate]. destruct (resolve g r); [|discriminate]. intros H; inversion H; eauto.
Qed.

Lemma resolve_map_ix g l : resolve g (map ix l) = Some l.
Proof.
  induction l as [|i l IH]; simpl; auto. rewrite IH.
  destruct (0 <=? Z.of_nat i) eqn:E; [|lia]. rewrite Nat2Z.id. reflexivity.
Qed.

Lemma resolve_length g r l : resolve g r = Some l -> length l = length r.
Proof.
  revert l; induction r as [|e r IH]; simpl; intros l.
  - intros H; inversion H; auto.
  - destruct (match e with inl nm => index_of nm (names g) | inr z => if 0 <=? z then Some (Z.to_nat z) else None end);
      [|discriminate]. destruct (resolve g r) eqn:E; [|discriminate].
    intros H; inversion H; subst. simpl. f_equal. apply IH. reflexivity.
Qed.

(* ================= the loop of check_route ================= *)
Definition fresh (S l : list nat) : Prop := NoDup l /\ forall x, In x l -> ~ In x S.

Lemma fresh_cons S c l : fresh S (c :: l) <-> ~ In c S /\ fresh (c :: S) l.
Proof.
  unfold fresh. split.
  - intros [Hnd Hs]. inversion Hnd; subst. split; [apply Hs; left; auto|].
    split; auto. intros x Hx [Hc|Hc]; [subst; auto|]. apply (Hs x); [right; auto|auto].
  - intros [Hc [Hnd Hs]]. split.
    + constructor; auto. intros Hin. apply (Hs c Hin). left; auto.
    + intros x [Hx|Hx]; [subst; auto|]. intros Hin. apply (Hs x Hx). right; auto.
Qed.

Lemma cost_of_get g i j a : dict_get (i, j) (arcs g) = Some a -> acost a = cost_of g i j.
Proof. unfold cost_of. intros ->. reflexivity. Qed.

Lemma cr_loop_spec st : Inv (pg st) ->
  forall rest idxs c t l cost S,
  resolve (pg st) rest = Some idxs -> in_range st idxs -> (c < length (nodes (pg st)))%nat ->
  exists b cost' vis',
    snd (cr_loop st (Z.of_nat c) rest t l cost (indicator (length (nodes (pg st))) S)) = Ok (b, cost', vis') /\
    (b = true <-> fresh S (removelast (c :: idxs)) /\ walk_ok st c t l idxs) /\
    (b = true ->
       cost' = cost + path_cost (pg st) c idxs /\
       vis' = indicator (length (nodes (pg st))) (removelast (c :: idxs) ++ S) /\
       fst (cr_loop st (Z.of_nat c) rest t l cost (indicator (length (nodes (pg st))) S)) = map ix idxs).
Proof.
  intros HI. set (n := length (nodes (pg st))).
  induction rest as [|e rest IH]; intros idxs c t l cost S Hres Hrange Hc.
  - simpl in Hres. inversion Hres; subst idxs. simpl.
    exists true, cost, (indicator n S). split; [reflexivity|]. split.
    + split; auto. intros _. split; [|exact I]. split; [constructor | intros x []].
    + intros _. split; [lia|]. split; reflexivity.
  - destruct (resolve_cons_inv _ _ _ _ Hres) as (i & idxs' & ->).
    destruct (resolve_cons _ _ _ _ _ Hres) as [Hconv Hres'].
    inversion Hrange as [|? ? Hi Hrange']; subst.
    cbn [cr_loop]. rewrite indicator_length. fold n. rewrite (py_pos_nat n c Hc).
    rewrite (indicator_nth n S c Hc).
    destruct (memb c S) eqn:Ec.
    + simpl. exists false, cost, (indicator n S). split; [reflexivity|]. split; [|discriminate].
      split; [discriminate|]. intros [Hf _]. exfalso.
      change (removelast (c :: i :: idxs')) with (c :: removelast (i :: idxs')) in Hf.
      apply fresh_cons in Hf. destruct Hf as [Hf _]. apply Hf. apply memb_In. exact Ec.
    + simpl (0 =? 1). cbv iota. rewrite (indicator_set n S c Hc). rewrite Hconv.
      destruct (check_arc st t l (Z.of_nat c) (Z.of_nat i)) as [[b1 t2] l2] eqn:Eca.
      destruct (check_arc_spec st t l c i b1 t2 l2 HI Eca) as [Hb1 Hb1v].
      change (removelast (c :: i :: idxs')) with (c :: removelast (i :: idxs')).
      apply memb_false_notIn in Ec.
      destruct b1.
      * destruct (Hb1v eq_refl) as [-> ->].
        assert (Hstep : step_ok st c i t l) by (apply Hb1; reflexivity).
        rewrite arc_get_nat.
        destruct Hstep as [Hmem Hrest]. pose proof Hmem as Hmem'.
        apply dict_mem_get in Hmem'. destruct Hmem' as [a Ha]. rewrite Ha.
        rewrite (cost_of_get _ _ _ _ Ha).
        destruct (IH idxs' i (next_time (pg st) c i t) (next_load (pg st) i l)
                     (cost + cost_of (pg st) c i) (c :: S) Hres' Hrange' Hi)
          as (b & cost' & vis' & Hout & Hiff & Hval).
        exists b, cost', vis'. cbn [fst snd]. split; [exact Hout|]. split.
        -- rewrite Hiff. rewrite fresh_cons. cbn [walk_ok]. unfold step_ok. tauto.
        -- intros Hb. destruct (Hval Hb) as (Hc' & Hv' & Hm). split; [|split].
           ++ rewrite Hc'. cbn [path_cost]. lia.
           ++ rewrite Hv'. apply indicator_ext. intros x.
              rewrite !in_app_iff. cbn [In]. tauto.
           ++ rewrite Hm. reflexivity.
      * cbn [fst snd]. exists false, cost, (indicator n (c :: S)). split; [reflexivity|].
        split; [|discriminate]. split; [discriminate|]. intros [_ Hw]. cbn [walk_ok] in Hw.
        destruct Hw as [Hs _]. apply Hb1 in Hs. discriminate.
Qed.

(* ================= conversion of positions 0, 1, -1 ================= *)
Definition elem_res (g : graph) (e : elem) : option nat :=
  match e with
  | inl nm => index_of nm (names g)
  | inr z => if 0 <=? z then Some (Z.to_nat z) else None
  end.

Lemma resolve_unfold g e r :
  resolve g (e :: r) = match elem_res g e, resolve g r with
                       | Some i, Some l => Some (i :: l) | _, _ => None end.
Proof. reflexivity. Qed.

Lemma conv_elem_res g e z : conv g e = Ok z -> elem_res g (inr z) = elem_res g e.
Proof.
  destruct e as [nm|z']; simpl.
  - destruct (index_of nm (names g)) as [i|]; [|discriminate].
    intros H; inversion H; subst. destruct (0 <=? Z.of_nat i) eqn:E; [|lia].
    rewrite Nat2Z.id. reflexivity.
  - intros H; inversion H; subst. reflexivity.
Qed.

Lemma resolve_set_nth g r p e z :
  nth_error r p = Some e -> conv g e = Ok z -> resolve g (set_nth p (inr z) r) = resolve g r.
Proof.
  revert p; induction r as [|e' r IH]; intros [|p]; simpl set_nth; simpl nth_error; try discriminate.
  - intros H Hc; inversion H; subst. rewrite !resolve_unfold. rewrite (conv_elem_res _ _ _ Hc). reflexivity.
  - intros H Hc. rewrite !resolve_unfold. rewrite (IH p H Hc). reflexivity.
Qed.

Lemma conv_at_props g p r r' : conv_at g p r = Ok r' ->
  length r' = length r /\ resolve g r' = resolve g r /\
  (exists z, nth_error r' p = Some (inr z)) /\
  (forall q z, nth_error r q = Some (inr z) -> nth_error r' q = Some (inr z)).
Proof.
  unfold conv_at. destruct (nth_error r p) as [e|] eqn:E; [|discriminate].
  destruct (conv g e) as [z|x] eqn:Ec; [|discriminate].
  intros H; inversion H; subst r'; clear H.
  assert (Hp : (p < length r)%nat) by (eapply nth_error_lt; eauto).
  split; [apply set_nth_length|]. split; [eapply resolve_set_nth; eauto|]. split.
  - exists z. apply nth_error_set_nth_same; auto.
  - intros q z' Hq. destruct (Nat.eq_dec p q) as [<-|Hne].
    + rewrite E in Hq. inversion Hq; subst e. simpl in Ec. inversion Ec; subst.
      apply nth_error_set_nth_same; auto.
    + rewrite nth_error_set_nth_other; auto.
Qed.

Lemma resolve_nth_conv g r idxs p e :
  resolve g r = Some idxs -> nth_error r p = Some e -> exists z, conv g e = Ok z.
Proof.
  revert idxs p; induction r as [|e' r IH]; intros idxs [|p]; simpl nth_error; try discriminate.
  - intros Hr H; inversion H; subst. rewrite resolve_unfold in Hr.
    destruct e as [nm|z]; simpl in *; eauto.
    destruct (index_of nm (names g)); [eauto|discriminate].
  - intros Hr H. rewrite resolve_unfold in Hr.
    destruct (elem_res g e'); [|discriminate]. destruct (resolve g r) eqn:E; [|discriminate].
    eapply IH; eauto.
Qed.

Lemma conv_at_ok g p r idxs :
  resolve g r = Some idxs -> (p < length r)%nat -> exists r', conv_at g p r = Ok r'.
Proof.
  intros Hr Hp. unfold conv_at.
  destruct (nth_error r p) as [e|] eqn:E.
  - destruct (resolve_nth_conv _ _ _ _ _ Hr E) as [z ->]. eauto.
  - apply nth_error_None in E. lia.
Qed.

Lemma resolve_nth_inr g r idxs q z :
  resolve g r = Some idxs -> nth_error r q = Some (inr z) ->
  0 <= z /\ nth_error idxs q = Some (Z.to_nat z).
Proof.
  revert idxs q; induction r as [|e r IH]; intros idxs [|q]; simpl nth_error; try discriminate;
    rewrite resolve_unfold.
  - intros Hr H; inversion H; subst. simpl in Hr.
    destruct (0 <=? z) eqn:E; [|discriminate]. destruct (resolve g r); [|discriminate].
    inversion Hr; subst. simpl. split; [lia|reflexivity].
  - intros Hr H. destruct (elem_res g e); [|discriminate].
    destruct (resolve g r) eqn:E; [|discriminate]. inversion Hr; subst. simpl. eapply IH; eauto.
Qed.

Lemma last_nth_error {A} (l : list A) d x :
  nth_error l (length l - 1) = Some x -> last l d = x.
Proof.
  induction l as [|a l IH]; simpl; [discriminate|].
  destruct l as [|b l]; simpl in *.
  - intros H; inversion H; auto.
  - rewrite Nat.sub_0_r in IH. intros H. apply IH. exact H.
Qed.

Lemma nth_error_last {A} (l : list A) d : l <> [] -> nth_error l (length l - 1) = Some (last l d).
Proof.
  induction l as [|a l IH]; [congruence|]. intros _.
  destruct l as [|b l]; [reflexivity|].
  change (last (a :: b :: l) d) with (last (b :: l) d).
  replace (length (a :: b :: l) - 1)%nat with (S (length (b :: l) - 1)) by (simpl; lia).
  simpl nth_error at 1. apply IH. discriminate.
Qed.

Lemma In_removelast_or_last (l : list nat) x d : l <> [] -> In x l <-> In x (removelast l) \/ x = last l d.
Proof.
  intros H. rewrite (app_removelast_last d H) at 1. rewrite in_app_iff. simpl. intuition.
Qed.

(* ================= check_route = the route definition ================= *)
Theorem check_route_spec st r idxs :
  Inv (pg st) -> resolve (pg st) r = Some idxs -> in_range st idxs ->
  exists b c v,
    snd (check_route st r) = Ok (b, c, v) /\
    (b = true <-> valid_route st idxs) /\
    (b = true -> c = route_cost (pg st) idxs /\
                 v = indicator (length (nodes (pg st))) idxs /\
                 fst (check_route st r) = map ix idxs).
Proof.
  intros HI Hres Hrange. pose proof (resolve_length _ _ _ Hres) as Hlen.
  unfold check_route. set (n := length (nodes (pg st))).
  destruct (length r <? 2)%nat eqn:El.
  - exists false, 0, (repeat 0 n). split; [reflexivity|]. split; [|discriminate].
    split; [discriminate|]. intros [H _]. apply Nat.ltb_lt in El. lia.
  - apply Nat.ltb_ge in El.
    destruct (conv_at_ok _ 0 _ _ Hres ltac:(lia)) as [r1 E1]. rewrite E1.
    destruct (conv_at_props _ _ _ _ E1) as (L1 & R1 & [z0 P1] & K1).
    rewrite Hres in R1.
    destruct (conv_at_ok _ 1 _ _ R1 ltac:(lia)) as [r2 E2]. rewrite E2.
    destruct (conv_at_props _ _ _ _ E2) as (L2 & R2 & _ & K2). rewrite R1 in R2.
    destruct (conv_at_ok _ (length r - 1) _ _ R2 ltac:(lia)) as [r3 E3]. rewrite E3.
    destruct (conv_at_props _ _ _ _ E3) as (L3 & R3 & [zl P3] & K3). rewrite R2 in R3.
    pose proof (K3 _ _ (K2 _ _ P1)) as P0.
    assert (Hl3 : length r3 = length r) by lia. rewrite Hl3. rewrite P0, P3.
    destruct (resolve_nth_inr _ _ _ _ _ R3 P0) as [Hz0 N0].
    destruct (resolve_nth_inr _ _ _ _ _ R3 P3) as [Hzl Nl].
    destruct idxs as [|i0 idxs']; [simpl in Hlen; lia|].
    simpl in N0. assert (Ei0 : i0 = Z.to_nat z0) by congruence. clear N0.
    rewrite <- Hlen in Nl. apply (last_nth_error _ 1%nat) in Nl.
    assert (Hne : idxs' <> []) by (destruct idxs'; [simpl in Hlen; lia|discriminate]).
    simpl not_depot.
    destruct (z0 =? 0) eqn:Ez0; simpl.
    2:{ exists false, 0, (repeat 0 n). split; [reflexivity|]. split; [|discriminate].
        split; [discriminate|]. intros (_ & Hh & _). simpl in Hh. inversion Hh. lia. }
    destruct (zl =? 0) eqn:Ezl; simpl.
    2:{ exists false, 0, (repeat 0 n). split; [reflexivity|]. split; [|discriminate].
        split; [discriminate|]. intros (_ & _ & Hh & _). rewrite Nl in Hh. lia. }
    assert (z0 = 0) by lia. assert (zl = 0) by lia. subst z0 zl. simpl in Ei0. subst i0. change (Z.to_nat 0) with O in Nl.
    destruct r3 as [|e3 rest3]; [discriminate|]. simpl in P0. inversion P0; subst e3.
    destruct (resolve_cons _ _ _ _ _ R3) as [_ Rrest].
    inversion Hrange as [|? ? H0n Hrange']; subst.
    rewrite <- indicator_nil.
    destruct (cr_loop_spec st HI rest3 idxs' O 0 (pinit st) 0 [] Rrest Hrange' H0n)
      as (b & c & v & Hout & Hiff & Hval).
    change (Z.of_nat 0) with 0 in *. fold n in Hout, Hval.
    exists b, c, v. cbn [fst snd]. split; [exact Hout|].
    assert (Hrl : removelast (O :: idxs') = O :: removelast idxs').
    { destruct idxs'; [congruence|reflexivity]. }
    split.
    + rewrite Hiff. rewrite Hrl. unfold valid_route. cbn [tl hd_error interior].
      rewrite walk_ok_iff. unfold fresh. split.
      * intros ([Hnd _] & Hw). inversion Hnd; subst.
        split; [destruct idxs'; [congruence|simpl; lia]|]. split; [reflexivity|]. split; [exact Nl|]. tauto.
      * intros (_ & _ & _ & Hnd & Hn0 & Hw). split; [|tauto].
        split; [constructor; auto | intros x _ []].
    + intros Hb. destruct (Hval Hb) as (Hc & Hv & Hm). split; [|split].
      * rewrite Hc. simpl. lia.
      * rewrite Hv. apply indicator_ext. intros x. rewrite app_nil_r.
        rewrite (In_removelast_or_last (O :: idxs') x 1%nat) by discriminate.
        rewrite Nl. rewrite Hrl. simpl. intuition.
      * rewrite Hm. reflexivity.
Qed.

(* ================= a feasible route resolves to indices inside the node range ================= *)
Lemma check_arc_true_arc st t l a b t2 l2 :
  check_arc st t l a b = (true, t2, l2) -> exists x, arc_get (pg st) a b = Some x.
Proof.
  unfold check_arc. destruct (arc_get (pg st) a b) as [x|]; [eauto|]. intros H; inversion H.
Qed.

Lemma cr_loop_feas st : Inv (pg st) ->
  forall rest cur t l cost vis c v,
  snd (cr_loop st cur rest t l cost vis) = Ok (true, c, v) ->
  exists idxs, resolve (pg st) rest = Some idxs /\ in_range st idxs.
Proof.
  intros HI. induction rest as [|e rest IH]; intros cur t l cost vis c v.
  - intros _. exists []. split; [reflexivity|constructor].
  - cbn [cr_loop].
    destruct (py_pos (length vis) cur) as [p|]; [|discriminate].
    destruct (nth p vis 0 =? 1); [discriminate|].
    destruct (conv (pg st) e) as [nxt|x] eqn:Ec; [|discriminate].
    destruct (check_arc st t l cur nxt) as [[b t2] l2] eqn:Eca.
    destruct b; [|discriminate].
    cbn [snd]. intros H. destruct (IH _ _ _ _ _ _ _ H) as (idxs & Hr & Hin).
    destruct (check_arc_true_arc _ _ _ _ _ _ _ Eca) as [x Hx].
    apply arc_get_Some in Hx. destruct Hx as (_ & Hn & Hx).
    destruct (inv_arc_nodes _ _ _ _ HI Hx) as (_ & Hlt & _).
    exists (Z.to_nat nxt :: idxs). split; [|constructor; auto].
    rewrite resolve_unfold, Hr.
    assert (E : elem_res (pg st) e = Some (Z.to_nat nxt)).
    { rewrite <- (conv_elem_res _ _ _ Ec). simpl. destruct (0 <=? nxt) eqn:E0; [reflexivity|lia]. }
    rewrite E. reflexivity.
Qed.

Lemma check_route_feas_resolves st r c v :
  Inv (pg st) -> snd (check_route st r) = Ok (true, c, v) ->
  exists idxs, resolve (pg st) r = Some idxs /\ in_range st idxs.
Proof.
  intros HI. unfold check_route.
  destruct (length r <? 2)%nat; [discriminate|].
  destruct (conv_at (pg st) 0 r) as [r1|] eqn:E1; [|discriminate].
  destruct (conv_at (pg st) 1 r1) as [r2|] eqn:E2; [|discriminate].
  destruct (conv_at (pg st) (length r - 1) r2) as [r3|] eqn:E3; [|discriminate].
  destruct (conv_at_props _ _ _ _ E1) as (_ & R1 & _).
  destruct (conv_at_props _ _ _ _ E2) as (_ & R2 & _).
  destruct (conv_at_props _ _ _ _ E3) as (_ & R3 & _).
  rewrite <- R1, <- R2, <- R3.
  destruct (not_depot (nth_error r3 0) || not_depot (nth_error r3 (length r3 - 1))) eqn:Ed; [discriminate|].
  destruct r3 as [|[nm|z0] rest]; try discriminate.
  cbn [snd]. intros H.
  apply orb_false_iff in Ed. destruct Ed as [Ed _]. simpl in Ed.
  assert (z0 = 0) by lia. subst z0.
  destruct (cr_loop_feas st HI _ _ _ _ _ _ _ _ H) as (idxs & Hr & Hin).
  (* the depot index 0 is inside the range: visits_node[0] was read *)
  assert (H0 : (0 < length (nodes (pg st)))%nat).
  { destruct rest as [|e rest'].
    - (* a one-element list cannot have passed the length test; but then nothing is read *)
      clear H. exfalso.
      destruct (conv_at_props _ _ _ _ E3) as (L3 & _). destruct (conv_at_props _ _ _ _ E2) as (L2 & _).
      destruct (conv_at_props _ _ _ _ E1) as (L1 & _).
      unfold conv_at in E2. destruct (nth_error r1 1) eqn:En; [|discriminate].
      apply nth_error_lt in En. simpl in L3. lia.
    - cbn [cr_loop] in H. rewrite repeat_length in H.
      destruct (py_pos (length (nodes (pg st))) 0) as [p|] eqn:Ep; [|discriminate].
      eapply py_pos_zero; eauto. }
  exists (O :: idxs). split.
  - rewrite resolve_unfold, Hr. reflexivity.
  - constructor; auto.
Qed.

Lemma valid_route_in_range st idxs : Inv (pg st) -> valid_route st idxs -> in_range st idxs.
Proof.
  intros HI (Hlen & Hhd & _ & _ & _ & Harcs & _).
  destruct idxs as [|i0 idxs']; [simpl in Hlen; lia|]. simpl in Hhd. inversion Hhd; subst i0.
  simpl in Harcs.
  assert (G : forall l i, arcs_exist (pg st) i l -> l <> [] ->
                          (i < length (nodes (pg st)))%nat /\ in_range st l).
  { induction l as [|j l IH]; intros i Ha Hne; [congruence|].
    destruct Ha as [Hm Ha]. apply dict_mem_get in Hm. destruct Hm as [a Hget].
    destruct (inv_arc_nodes _ _ _ _ HI Hget) as (Hi & Hj & _).
    split; auto. constructor; auto.
    destruct l as [|j' l']; [constructor|]. apply (IH j Ha). discriminate. }
  destruct idxs' as [|j l]; [simpl in Hlen; lia|].
  destruct (G (j :: l) O Harcs ltac:(discriminate)) as [H0 Hr]. constructor; auto.
Qed.

(* check_route accepts r  <->  r denotes (names resolved) a route of the definition *)
Theorem check_route_iff st r c v :
  Inv (pg st) ->
  (snd (check_route st r) = Ok (true, c, v) <->
   exists idxs, resolve (pg st) r = Some idxs /\ valid_route st idxs /\
                c = route_cost (pg st) idxs /\ v = indicator (length (nodes (pg st))) idxs).
Proof.
  intros HI. split.
  - intros H. destruct (check_route_feas_resolves _ _ _ _ HI H) as (idxs & Hr & Hin).
    destruct (check_route_spec st r idxs HI Hr Hin) as (b & c' & v' & Hout & Hiff & Hval).
    rewrite H in Hout. inversion Hout; subst b c' v'.
    exists idxs. destruct (Hval eq_refl) as (Hc & Hv & _). split; auto. split; [apply Hiff; reflexivity|auto].
  - intros (idxs & Hr & Hv & -> & ->).
    pose proof (valid_route_in_range _ _ HI Hv) as Hin.
    destruct (check_route_spec st r idxs HI Hr Hin) as (b & c' & v' & Hout & Hiff & Hval).
    apply Hiff in Hv. subst b. destruct (Hval eq_refl) as (-> & -> & _). exact Hout.
Qed.

(* exceptions: only ValueError, and only for an unknown name, unless the graph has no node at all *)
Definition unknown_name (g : graph) (r : list elem) : Prop :=
  exists nm, In (inl nm) r /\ ~ In nm (names g).

Lemma conv_err g e x : conv g e = Err x -> x = ValueError /\ exists nm, e = inl nm /\ ~ In nm (names g).
Proof.
  destruct e as [nm|z]; simpl; [|discriminate].
  destruct (index_of nm (names g)) eqn:Ei; [discriminate|].
  intros H; inversion H; subst. split; auto. exists nm. split; auto.
  intros Hin. apply index_of_In in Hin. destruct Hin as [i Hi]. congruence.
Qed.

Lemma cr_loop_err st : Inv (pg st) ->
  forall rest cur t l cost vis x,
  (0 <= cur /\ (Z.to_nat cur < length vis)%nat) -> length vis = length (nodes (pg st)) ->
  snd (cr_loop st cur rest t l cost vis) = Err x ->
  x = ValueError /\ unknown_name (pg st) rest.
Proof.
  intros HI. induction rest as [|e rest IH]; intros cur t l cost vis x [Hc0 Hc] Hlv.
  - discriminate.
  - cbn [cr_loop].
    assert (Hp : py_pos (length vis) cur = Some (Z.to_nat cur)).
    { rewrite <- (Z2Nat.id cur Hc0) at 1. apply py_pos_nat. exact Hc. }
    rewrite Hp.
    destruct (nth (Z.to_nat cur) vis 0 =? 1); [discriminate|].
    destruct (conv (pg st) e) as [nxt|y] eqn:Ec.
    + destruct (check_arc st t l cur nxt) as [[b t2] l2] eqn:Eca.
      destruct b; [|discriminate]. cbn [snd]. intros H.
      destruct (check_arc_true_arc _ _ _ _ _ _ _ Eca) as [a Ha].
      apply arc_get_Some in Ha. destruct Ha as (_ & Hn & Ha).
      destruct (inv_arc_nodes _ _ _ _ HI Ha) as (_ & Hlt & _).
      assert (G1 : 0 <= nxt /\ (Z.to_nat nxt < length (set_nth (Z.to_nat cur) 1%Z vis))%nat)
        by (split; auto; rewrite set_nth_length; lia).
      assert (G2 : length (set_nth (Z.to_nat cur) 1%Z vis) = length (nodes (pg st)))
        by (rewrite set_nth_length; auto).
      destruct (IH _ _ _ _ _ _ G1 G2 H) as [Hx (nm & Hin & Hnm)].
      split; auto. exists nm. split; [right; auto|auto].
    + cbn [snd]. intros H; inversion H; subst y.
      destruct (conv_err _ _ _ Ec) as [-> (nm & -> & Hnm)].
      split; auto. exists nm. split; [left; auto|auto].
Qed.

Lemma In_set_nth {A} p (x : A) l e : In e (set_nth p x l) -> e = x \/ In e l.
Proof.
  revert p; induction l as [|y l IH]; intros [|p]; simpl; auto.
  - intros [H|H]; auto.
  - intros [H|H]; auto. destruct (IH _ H); auto.
Qed.

Lemma conv_at_names g p r r' nm : conv_at g p r = Ok r' -> In (inl nm) r' -> In (inl nm) r.
Proof.
  unfold conv_at. destruct (nth_error r p); [|discriminate]. destruct (conv g e); [|discriminate].
  intros H; inversion H; subst. intros Hin. apply In_set_nth in Hin. destruct Hin; [discriminate|auto].
Qed.

Lemma conv_at_err g p r x : (p < length r)%nat -> conv_at g p r = Err x ->
  x = ValueError /\ unknown_name g r.
Proof.
  unfold conv_at. intros Hp. destruct (nth_error r p) as [e|] eqn:E.
  - destruct (conv g e) eqn:Ec; [discriminate|]. intros H; inversion H; subst.
    destruct (conv_err _ _ _ Ec) as [-> (nm & -> & Hnm)]. split; auto.
    exists nm. split; auto. eapply nth_error_In; eauto.
  - apply nth_error_None in E. lia.
Qed.

Theorem check_route_err st r x :
  Inv (pg st) -> nodes (pg st) <> [] -> snd (check_route st r) = Err x ->
  x = ValueError /\ unknown_name (pg st) r.
Proof.
  intros HI Hne. unfold check_route.
  destruct (length r <? 2)%nat eqn:El; [discriminate|]. apply Nat.ltb_ge in El.
  destruct (conv_at (pg st) 0 r) as [r1|y] eqn:E1.
  2:{ cbn [snd]. intros H; inversion H; subst y. apply (conv_at_err _ 0 r); auto; lia. }
  destruct (conv_at_props _ _ _ _ E1) as (L1 & _).
  destruct (conv_at (pg st) 1 r1) as [r2|y] eqn:E2.
  2:{ cbn [snd]. intros H; inversion H; subst y.
      destruct (conv_at_err _ 1 r1 x ltac:(lia) E2) as [-> (nm & Hin & Hnm)].
      split; auto. exists nm. split; auto. eapply conv_at_names; eauto. }
  destruct (conv_at_props _ _ _ _ E2) as (L2 & _).
  destruct (conv_at (pg st) (length r - 1) r2) as [r3|y] eqn:E3.
  2:{ cbn [snd]. intros H; inversion H; subst y.
      destruct (conv_at_err _ (length r - 1)%nat r2 x ltac:(lia) E3) as [-> (nm & Hin & Hnm)].
      split; auto. exists nm. split; auto. eapply conv_at_names; eauto. eapply conv_at_names; eauto. }
  destruct (not_depot (nth_error r3 0) || not_depot (nth_error r3 (length r3 - 1))) eqn:Ed; [discriminate|].
  destruct r3 as [|[nm|z0] rest].
  - simpl in Ed. discriminate.
  - simpl in Ed. discriminate.
  - cbn [snd]. intros H.
    apply orb_false_iff in Ed. destruct Ed as [Ed _]. simpl in Ed.
    assert (z0 = 0) by lia. subst z0.
    assert (Hn : (0 < length (nodes (pg st)))%nat) by (destruct (nodes (pg st)); [congruence|simpl; lia]).
    destruct (cr_loop_err st HI rest 0 0 (pinit st) 0 (repeat 0 (length (nodes (pg st)))) x) as [Hx (nm & Hin & Hnm)]; auto.
    + rewrite repeat_length. split; [lia|exact Hn].
    + apply repeat_length.
    + split; auto. exists nm. split; auto.
      eapply conv_at_names; eauto. eapply conv_at_names; eauto. eapply conv_at_names; eauto. right; auto.
Qed.

(* ================= add_route ================= *)
Lemma to_nats_map_ix l : to_nats (map ix l) = l.
Proof.
  induction l as [|i l IH]; simpl; auto. rewrite Nat2Z.id. f_equal. exact IH.
Qed.

Lemma elem_list_eqb_ix l s : list_eqb elem_eqb (map ix l) (map ix s) = true <-> l = s.
Proof.
  revert s; induction l as [|i l IH]; intros [|j s]; simpl; try (split; discriminate).
  - split; auto.
  - rewrite andb_true_iff, IH. split.
    + intros [H1 ->]. f_equal. lia.
    + intros H; inversion H; subst. split; auto. lia.
Qed.

Lemma route_mem_ix l rs : route_mem (map ix l) rs = true <-> In l rs.
Proof.
  unfold route_mem. rewrite existsb_exists. split.
  - intros (s & Hin & He). apply elem_list_eqb_ix in He. subst. exact Hin.
  - intros Hin. exists l. split; auto. apply elem_list_eqb_ix. reflexivity.
Qed.

Lemma check_route_true st r c v :
  Inv (pg st) -> snd (check_route st r) = Ok (true, c, v) ->
  exists idxs, resolve (pg st) r = Some idxs /\ in_range st idxs /\ valid_route st idxs /\
               c = route_cost (pg st) idxs /\ v = indicator (length (nodes (pg st))) idxs /\
               fst (check_route st r) = map ix idxs.
Proof.
  intros HI H. destruct (check_route_feas_resolves _ _ _ _ HI H) as (idxs & Hr & Hin).
  destruct (check_route_spec st r idxs HI Hr Hin) as (b & c' & v' & Hout & Hiff & Hval).
  rewrite H in Hout. inversion Hout; subst b c' v'.
  destruct (Hval eq_refl) as (Hc & Hv & Hm).
  exists idxs. repeat split; auto; apply Hiff; reflexivity.
Qed.

Definition stored (st : pstate) (idxs : list nat) : pstate :=
  mkP (pg st) (pcap st) (pinit st) (proutes st ++ [idxs])
      (pcosts st ++ [route_cost (pg st) idxs])
      (pvisited st ++ [nodes_on (length (nodes (pg st))) idxs]).

Theorem add_route_spec st r st' r' feas added :
  Inv (pg st) -> add_route st r = (st', r', Ok (feas, added)) ->
  (feas = true <-> exists idxs, resolve (pg st) r = Some idxs /\ valid_route st idxs) /\
  (added = true <->
     feas = true /\ forall idxs, resolve (pg st) r = Some idxs -> ~ In idxs (proutes st)) /\
  (added = true ->
     exists idxs, resolve (pg st) r = Some idxs /\ in_range st idxs /\ valid_route st idxs /\
                  ~ In idxs (proutes st) /\ st' = stored st idxs /\ r' = map ix idxs) /\
  (added = false -> st' = st).
Proof.
  intros HI. unfold add_route. cbv zeta.
  destruct (snd (check_route st r)) as [[[f c] v]|x] eqn:E; [|discriminate].
  destruct f.
  - destruct (check_route_true _ _ _ _ HI E) as (idxs & Hr & Hin & Hv & Hc & Hvis & Hm).
    rewrite Hm. cbn [andb].
    destruct (route_mem (map ix idxs) (proutes st)) eqn:Emem; cbn [negb];
      intros H; inversion H; subst; clear H.
    + apply route_mem_ix in Emem. split; [split; eauto|]. split; [|split; [discriminate|auto]].
      split; [discriminate|]. intros [_ Hn]. exfalso. exact (Hn idxs Hr Emem).
    + assert (Hnot : ~ In idxs (proutes st)).
      { intros Hin'. apply route_mem_ix in Hin'. congruence. }
      split; [split; eauto|]. split; [|split; [|discriminate]].
      * split; auto. intros _. split; auto. intros idxs' Hr'. rewrite Hr in Hr'. inversion Hr'; subst. auto.
      * intros _. exists idxs. do 4 (split; [assumption|]). split; [|reflexivity].
        unfold stored. rewrite to_nats_map_ix, flatnonzero_indicator. reflexivity.
  - cbn [andb]. intros H; inversion H; clear H; subst st' r' feas added.
    split; [|split; [|split; [discriminate|auto]]].
    + split; [discriminate|]. intros (idxs & Hr & Hv).
      assert (Hc : snd (check_route st r) = Ok (true, route_cost (pg st) idxs, indicator (length (nodes (pg st))) idxs)).
      { apply check_route_iff; auto. exists idxs. auto. }
      congruence.
    + split; [discriminate|]. intros [H _]. discriminate.
Qed.

Lemma add_route_err st r st' r' x : add_route st r = (st', r', Err x) -> st' = st.
Proof.
  unfold add_route. cbv zeta. destruct (snd (check_route st r)) as [[[f c] v]|y].
  - destruct (f && negb (route_mem (fst (check_route st r)) (proutes st))); discriminate.
  - intros H; inversion H; auto.
Qed.

(* ================= invariant over histories ================= *)
Record PInv (st : pstate) : Prop := {
  pi_graph : Inv (pg st);
  pi_nodup : NoDup (proutes st);
  pi_costs : length (pcosts st) = length (proutes st);
  pi_vis : length (pvisited st) = length (proutes st);
  pi_routes : forall j r, nth_error (proutes st) j = Some r ->
      in_range st r /\
      nth_error (pvisited st) j = Some (nodes_on (length (nodes (pg st))) r)
}.

Lemma PInv_empty cap init : PInv (pempty cap init).
Proof.
  constructor; simpl.
  - apply Inv_empty.
  - constructor.
  - reflexivity.
  - reflexivity.
  - intros [|j] r0; discriminate.
Qed.

(* what one call may do to the stored lists *)
Definition extends (st st1 : pstate) : Prop :=
  (proutes st1 = proutes st /\ pcosts st1 = pcosts st /\ pvisited st1 = pvisited st) \/
  (exists r, proutes st1 = proutes st ++ [r] /\
             pcosts st1 = pcosts st ++ [route_cost (pg st) r] /\
             valid_route st r /\ ~ In r (proutes st)).

Lemma add_node_nodes g nm dem lo hi g' :
  add_node g nm dem lo hi = Ok g' -> nodes g' = nodes g ++ [mkNode nm dem lo hi] /\ arcs g' = arcs g.
Proof.
  unfold add_node. destruct (memb nm (names g)); [discriminate|].
  destruct (negb (window_ok lo hi)); [discriminate|]. intros H; inversion H; subst. auto.
Qed.

Lemma add_arc_nodes g o d tm cost g' b : add_arc g o d tm cost = Ok (g', b) -> nodes g' = nodes g.
Proof.
  unfold add_arc, add_arc_gen.
  destruct (index_of o (names g)); [|discriminate]. destruct (index_of d (names g)); [|discriminate].
  match goal with |- context [if ?c then Ok _ else Ok _] => destruct c end;
    intros H; inversion H; subst; reflexivity.
Qed.

Lemma PInv_with_graph st g' :
  PInv st -> Inv g' -> (length (nodes (pg st)) <= length (nodes g'))%nat -> PInv (with_graph st g').
Proof.
  intros [H1 H2 H3 H4 H5] HI Hle. constructor; simpl; auto.
  intros j r Hj. destruct (H5 j r Hj) as [Hin Hv]. split.
  - unfold in_range in *. simpl. eapply Forall_impl; [|exact Hin]. simpl. intros; lia.
  - rewrite Hv. f_equal. symmetry. apply nodes_on_mono; auto.
Qed.

Lemma PInv_stored st idxs :
  PInv st -> in_range st idxs -> ~ In idxs (proutes st) -> PInv (stored st idxs).
Proof.
  intros [H1 H2 H3 H4 H5] Hin Hnot. constructor; simpl; auto.
  - apply NoDup_snoc; auto.
  - rewrite !app_length, H3. reflexivity.
  - rewrite !app_length, H4. reflexivity.
  - intros j r Hj.
    destruct (Nat.lt_ge_cases j (length (proutes st))) as [Hlt|Hge].
    + rewrite nth_error_app1 in Hj by auto. destruct (H5 j r Hj) as [A B]. split; auto.
      rewrite nth_error_app1 by lia. exact B.
    + assert (Hjl : (j < length (proutes st ++ [idxs]))%nat) by (eapply nth_error_lt; eauto).
      rewrite app_length in Hjl. simpl in Hjl. assert (j = length (proutes st)) by lia. subst j.
      rewrite nth_error_app2 in Hj by lia. rewrite Nat.sub_diag in Hj. simpl in Hj. inversion Hj; subst r.
      split; auto. rewrite nth_error_app2 by lia. rewrite H4, Nat.sub_diag. reflexivity.
Qed.

Lemma pstep_inv st o : PInv st -> PInv (fst (pstep st o)) /\ extends st (fst (pstep st o)).
Proof.
  intros HP. pose proof (pi_graph st HP) as HI.
  destruct o as [nm dem lo hi|o d tm cost|r|r|x]; simpl.
  - destruct (add_node (pg st) nm dem lo hi) as [g'|e] eqn:E; simpl.
    + split; [|left; auto]. apply PInv_with_graph; auto.
      * eapply add_node_inv; eauto.
      * destruct (add_node_nodes _ _ _ _ _ _ E) as [-> _]. rewrite app_length. lia.
    + split; [auto|left; auto].
  - destruct (add_arc (pg st) o d tm cost) as [[g' b]|e] eqn:E; simpl.
    + split; [|left; auto]. apply PInv_with_graph; auto.
      * eapply add_arc_gen_inv; eauto.
      * rewrite (add_arc_nodes _ _ _ _ _ _ _ E). lia.
    + split; [auto|left; auto].
  - destruct (add_route st r) as [[st' r'] res] eqn:E. simpl.
    destruct res as [[feas added]|x].
    + destruct (add_route_spec _ _ _ _ _ _ HI E) as (_ & _ & Hadd & Hnot).
      destruct added.
      * destruct (Hadd eq_refl) as (idxs & Hr & Hin & Hv & Hn & -> & _).
        split; [apply PInv_stored; auto|]. right. exists idxs. simpl. auto.
      * rewrite (Hnot eq_refl). split; [auto|left; auto].
    + rewrite (add_route_err _ _ _ _ _ E). split; [auto|left; auto].
  - split; [auto|left; auto].
  - split; [auto|left; auto].
Qed.

Lemma prun_cons o ops st : prun (o :: ops) st = prun ops (fst (pstep st o)).
Proof. reflexivity. Qed.

Theorem prun_stored ops : forall st0, PInv st0 ->
  PInv (prun ops st0) /\
  forall j r, nth_error (proutes (prun ops st0)) j = Some r ->
    (nth_error (proutes st0) j = Some r /\
     nth_error (pcosts (prun ops st0)) j = nth_error (pcosts st0) j) \/
    (exists stk, In stk (pstates ops st0) /\ valid_route stk r /\ ~ In r (proutes stk) /\
                 nth_error (pcosts (prun ops st0)) j = Some (route_cost (pg stk) r)).
Proof.
  induction ops as [|o ops IH]; intros st0 HP.
  - split; [exact HP|]. intros j r Hj. left. auto.
  - rewrite prun_cons. destruct (pstep_inv st0 o HP) as [HP1 Hext].
    set (st1 := fst (pstep st0 o)) in *.
    destruct (IH st1 HP1) as [HPf Hall]. split; [exact HPf|].
    intros j r Hj. destruct (Hall j r Hj) as [[Hj1 Hc1]|(stk & Hin & Hv & Hn & Hc)].
    + destruct Hext as [(Er & Ec & _)|(r0 & Er & Ec & Hv0 & Hn0)].
      * left. rewrite <- Er, <- Ec. auto.
      * rewrite Er in Hj1. rewrite Ec in Hc1.
        destruct (Nat.lt_ge_cases j (length (proutes st0))) as [Hlt|Hge].
        -- left. rewrite nth_error_app1 in Hj1 by auto. split; auto.
           rewrite Hc1. apply nth_error_app1. rewrite (pi_costs _ HP). auto.
        -- right. exists st0. split; [simpl; auto|].
           assert (Hjl : (j < length (proutes st0 ++ [r0]))%nat) by (eapply nth_error_lt; eauto).
           rewrite app_length in Hjl. simpl in Hjl. assert (j = length (proutes st0)) by lia. subst j.
           rewrite nth_error_app2 in Hj1 by lia. rewrite Nat.sub_diag in Hj1. simpl in Hj1.
           inversion Hj1; subst r0. split; auto. split; auto.
           rewrite Hc1. rewrite nth_error_app2 by (rewrite (pi_costs _ HP); lia).
           rewrite (pi_costs _ HP), Nat.sub_diag. reflexivity.
    + right. exists stk. split; [simpl; right; exact Hin|auto].
Qed.

(* ================= the exact-cover data ================= *)
Lemma enum_from_In {A} (l : list A) : forall k j x,
  In (j, x) (enum_from k l) -> (k <= j)%nat /\ nth_error l (j - k) = Some x.
Proof.
  induction l as [|y l IH]; intros k j x; simpl; [tauto|].
  intros [H|H].
  - inversion H; subst. rewrite Nat.sub_diag. split; [lia|reflexivity].
  - destruct (IH _ _ _ H) as [Hle Hn]. split; [lia|].
    replace (j - k)%nat with (S (j - S k)) by lia. exact Hn.
Qed.

Lemma memb_nodes_on n r x : memb x (nodes_on n r) = (x <? n)%nat && memb x r.
Proof.
  destruct (memb x (nodes_on n r)) eqn:E1.
  - apply memb_In in E1. apply nodes_on_In in E1. destruct E1 as [A B].
    apply memb_In in B. rewrite B. destruct (Nat.ltb_spec x n); [reflexivity|lia].
  - apply memb_false_notIn in E1. rewrite nodes_on_In in E1.
    destruct (Nat.ltb_spec x n); simpl; auto.
    destruct (memb x r) eqn:E2; auto. apply memb_In in E2. tauto.
Qed.

Lemma mp_writes_ok st : PInv st ->
  existsb (mp_write_bad (length (nodes (pg st))) (num_variables st)) (enum_from 0 (pvisited st)) = false.
Proof.
  intros HP. destruct (existsb _ _) eqn:E; auto. exfalso.
  apply existsb_exists in E. destruct E as ([j vs] & Hin & Hbad).
  apply enum_from_In in Hin. destruct Hin as [_ Hn]. rewrite Nat.sub_0_r in Hn.
  assert (Hj : (j < length (proutes st))%nat).
  { rewrite <- (pi_vis _ HP). eapply nth_error_lt; eauto. }
  destruct (nth_error (proutes st) j) as [r|] eqn:Er; [|apply nth_error_None in Er; lia].
  destruct (pi_routes _ HP _ _ Er) as [_ Hv]. rewrite Hv in Hn. inversion Hn; subst vs.
  unfold mp_write_bad in Hbad. cbn [fst snd] in Hbad.
  remember (nodes_on (length (nodes (pg st))) r) as vs eqn:En.
  destruct vs as [|k0 ks]; [discriminate|]. cbv iota beta in Hbad.
  apply orb_true_iff in Hbad. destruct Hbad as [Hb|Hb].
  - unfold num_variables in Hb. rewrite (pi_costs _ HP) in Hb. apply Nat.leb_le in Hb. lia.
  - apply existsb_exists in Hb. destruct Hb as (k & Hk & Hle). rewrite En in Hk.
    apply nodes_on_In in Hk. apply Nat.leb_le in Hle. lia.
Qed.

Lemma nth_repeat_cases {A} (x d : A) m i : nth i (repeat x m) d = x \/ nth i (repeat x m) d = d.
Proof.
  revert i; induction m as [|m IH]; intros [|i]; simpl; auto.
Qed.

Lemma zero_matrix_entry m i j : nth j (nth i (zero_matrix m) []) 0 = 0.
Proof.
  unfold zero_matrix. destruct (nth_repeat_cases (repeat 0 m) [] m i) as [-> | ->].
  - destruct (nth_repeat_cases 0 0 m j) as [-> | ->]; reflexivity.
  - destruct j; reflexivity.
Qed.

Lemma remove_first_row {B} (F : nat -> B) n :
  (0 < n)%nat -> remove_nth 0 (map F (seq 0 n)) = map F (seq 1 (n - 1)).
Proof. destruct n as [|n']; simpl; [lia|]. rewrite Nat.sub_0_r. reflexivity. Qed.

Theorem cover_spec st : PInv st -> (0 < length (nodes (pg st)))%nat ->
  let n := length (nodes (pg st)) in
  let m := length (proutes st) in
  exists A,
    math_program_data st = Ok (pcosts st, A, repeat 1 (n - 1)%nat) /\
    constraint_data st = Ok ((n - 1, m)%nat, A, repeat 1 (n - 1)%nat, zero_matrix m, 0) /\
    num_variables st = m /\
    length A = (n - 1)%nat /\
    (forall row, In row A -> length row = m) /\
    (forall k j r, (k < n - 1)%nat -> nth_error (proutes st) j = Some r ->
                   cover st k j = if memb (S k) r then 1 else 0).
Proof.
  intros HP Hn n m.
  assert (Hm : num_variables st = m) by (unfold num_variables, m; apply (pi_costs _ HP)).
  set (F := fun k => map (fun j => mp_entry st k j) (seq 0 m)).
  assert (Emp : math_program_data st = Ok (pcosts st, map F (seq 1 (n - 1)), repeat 1 (n - 1)%nat)).
  { unfold math_program_data. rewrite (mp_writes_ok st HP). fold n.
    destruct (Nat.eqb_spec n 0) as [E0|_]; [unfold n in E0; lia|]. rewrite Hm. fold F.
    rewrite (remove_first_row F n Hn). reflexivity. }
  exists (map F (seq 1 (n - 1))). split; [exact Emp|]. split.
  { unfold constraint_data. rewrite Emp, Hm. reflexivity. }
  split; [exact Hm|]. split; [rewrite map_length, seq_length; reflexivity|]. split.
  - intros row Hin. apply in_map_iff in Hin. destruct Hin as (k & <- & _).
    unfold F. rewrite map_length, seq_length. reflexivity.
  - intros k j r Hk Hj. unfold cover. rewrite Emp.
    rewrite (nth_map_seq F 1 (n - 1) k [] Hk).
    assert (Hjm : (j < m)%nat) by (eapply nth_error_lt; eauto).
    unfold F. rewrite (nth_map_seq _ 0 m j 0 Hjm). simpl.
    unfold mp_entry. destruct (pi_routes _ HP _ _ Hj) as [_ ->].
    rewrite memb_nodes_on. fold n. destruct (Nat.ltb_spec (S k) n); [reflexivity|lia].
Qed.

Lemma math_program_data_empty st : nodes (pg st) = [] -> math_program_data st = Err ValueError.
Proof. unfold math_program_data. intros ->. reflexivity. Qed.

(* a customer appended later: its row is zero for the routes already stored, other rows unchanged *)
Theorem cover_new_customer st nm dem lo hi g' :
  PInv st -> (0 < length (nodes (pg st)))%nat ->
  add_node (pg st) nm dem lo hi = Ok g' ->
  let n := length (nodes (pg st)) in
  let st' := with_graph st g' in
  length (nodes (pg st')) = S n /\
  forall j r, nth_error (proutes st') j = Some r ->
    cover st' (n - 1) j = 0 /\ forall k, (k < n - 1)%nat -> cover st' k j = cover st k j.
Proof.
  intros HP Hn E n st'.
  destruct (add_node_nodes _ _ _ _ _ _ E) as [En _].
  assert (Hlen : length (nodes (pg st')) = S n).
  { simpl. rewrite En, app_length. simpl. fold n. lia. }
  split; [exact Hlen|].
  assert (HP' : PInv st').
  { apply PInv_with_graph; auto.
    - eapply add_node_inv; eauto. apply (pi_graph _ HP).
    - rewrite En, app_length. lia. }
  destruct (cover_spec st' HP' ltac:(lia)) as (A' & _ & _ & _ & _ & _ & Hc').
  destruct (cover_spec st HP Hn) as (A & _ & _ & _ & _ & _ & Hc).
  rewrite Hlen in Hc'. fold n in Hc.
  intros j r Hj. change (proutes st') with (proutes st) in Hj.
  destruct (pi_routes _ HP _ _ Hj) as [Hin _].
  split.
  - rewrite (Hc' (n - 1)%nat j r ltac:(lia) Hj).
    replace (S (n - 1)) with n by lia.
    destruct (memb n r) eqn:Em; auto. apply memb_In in Em.
    unfold in_range in Hin. rewrite Forall_forall in Hin. specialize (Hin _ Em). fold n in Hin. lia.
  - intros k Hk. rewrite (Hc' k j r ltac:(lia) Hj). rewrite (Hc k j r Hk Hj). reflexivity.
Qed.
