(* PyHeurSeq.v -- the object record of the model GENERATED from
   SequenceBasedRoutingProblem.make_feasible / reset_build_flags (coq/gen/HeurSeqGen.v, written on every
   run by harness/translate_heursa.py).  Definitions only.  [C09, sequence half]

   The object is the enumeration part PySeq.qstate (graph, max_vehicles, max_sequence_length,
   vehicle_cost and the enumeration caches with their flag -- the record the generated
   enumerate_variables / get_var_index of the seqenum package work on) plus what make_feasible touches
   besides: the class flag `strict` (read by add_arc), the three other build flags and
   `feasible_solution`. *)
From VQ Require Export Base Vrptw Seq PyEnumCore PySeq PyHeur.

Record hq := mkHQ {
  hq_q : qstate;
  hq_strict : bool;                      (* self.strict *)
  hq_objective_built : bool;             (* self.objective_built *)
  hq_lin_con_built : bool;               (* self.lin_con_built *)
  hq_quad_con_built : bool;              (* self.quad_con_built *)
  hq_feasible_solution : list Z          (* self.feasible_solution *)
}.

Definition hq_set_q (v : qstate) (s : hq) : hq :=
  mkHQ v (hq_strict s) (hq_objective_built s) (hq_lin_con_built s) (hq_quad_con_built s) (hq_feasible_solution s).
Definition hq_set_objective_built (v : bool) (s : hq) : hq :=
  mkHQ (hq_q s) (hq_strict s) v (hq_lin_con_built s) (hq_quad_con_built s) (hq_feasible_solution s).
Definition hq_set_lin_con_built (v : bool) (s : hq) : hq :=
  mkHQ (hq_q s) (hq_strict s) (hq_objective_built s) v (hq_quad_con_built s) (hq_feasible_solution s).
Definition hq_set_quad_con_built (v : bool) (s : hq) : hq :=
  mkHQ (hq_q s) (hq_strict s) (hq_objective_built s) (hq_lin_con_built s) v (hq_feasible_solution s).
Definition hq_set_feasible_solution (v : list Z) (s : hq) : hq :=
  mkHQ (hq_q s) (hq_strict s) (hq_objective_built s) (hq_lin_con_built s) (hq_quad_con_built s) v.

(* attributes that live in the enumeration part *)
Definition qset_graph (g : graph) (s : qstate) : qstate :=
  mkQS g (q_max_sequence_length s) (q_max_vehicles s) (q_vehicle_cost s) (q_num_variables s)
       (q_variables_enumerated s) (q_var_mapping s) (q_var_mapping_inverse s) (q_fixed_values s).

Definition hq_graph (s : hq) : graph := q_graph (hq_q s).
Definition hq_set_graph (g : graph) (s : hq) : hq := hq_set_q (qset_graph g (hq_q s)) s.
Definition hq_nodes (s : hq) : list node := nodes (hq_graph s).
Definition hq_nodes_item (s : hq) (i : nat) : node := gnode (hq_graph s) i.
Definition hq_node_names (s : hq) : list nat := names (hq_graph s).
Definition hq_arcs (s : hq) : dict arc := arcs (hq_graph s).
Definition hq_max_sequence_length (s : hq) : nat := q_max_sequence_length (hq_q s).
Definition hq_max_vehicles (s : hq) : nat := q_max_vehicles (hq_q s).
Definition hq_set_max_vehicles (v : nat) (s : hq) : hq := hq_set_q (qset_max_vehicles v (hq_q s)) s.
Definition hq_vehicle_cost (s : hq) : list Z := q_vehicle_cost (hq_q s).
Definition hq_set_vehicle_cost (v : list Z) (s : hq) : hq := hq_set_q (qset_vehicle_cost v (hq_q s)) s.
Definition hq_num_variables (s : hq) : nat := q_num_variables (hq_q s).
Definition hq_variables_enumerated (s : hq) : bool := q_variables_enumerated (hq_q s).
Definition hq_set_variables_enumerated (v : bool) (s : hq) : hq :=
  hq_set_q (qset_variables_enumerated v (hq_q s)) s.

(* Node.get_window() *)
Definition hq_get_window (n : node) : Z * ext := (nlo n, nhi n).

(* method calls that other packages translate: on the enumeration part / on the graph *)
Definition hq_call_q {A} (f : qstate -> qstate * result A) (self : hq) : result (hq * A) :=
  py_call_part hq_q hq_set_q f self.
Definition hq_call_q_total {A} (f : qstate -> qstate * A) (self : hq) : result (hq * A) :=
  py_call_part_total hq_q hq_set_q f self.
Definition hq_call_g {A} (f : bool -> graph -> graph * result A) (self : hq) : result (hq * A) :=
  py_call_part hq_graph hq_set_graph (f (hq_strict self)) self.

(* ---------- vocabulary of the theorems in genprops/C09_gen.v ---------- *)
(* the problem the object holds, and what the hand model Heur.mf_seq returns: (instance, vector) *)
Definition hq_inst (self : hq) : inst := seq_inst (hq_q self).
Definition hq_obs {U} (r : result (hq * U)) : result (inst * list Z) :=
  match r with
  | Err e => Err e
  | Ok (self, _) => Ok (hq_inst self, hq_feasible_solution self)
  end.
(* an object whose enumeration caches are coherent with its flag, on a graph with one name per node *)
Definition hq_wf (self : hq) : Prop :=
  seq_coherent (hq_q self) /\ length (names (hq_graph self)) = length (nodes (hq_graph self)).
(* the object that holds I and has never enumerated *)
Definition hq_fresh (strict : bool) (I : inst) : hq :=
  mkHQ (mkQS (ig I) (iL I) (iV I) (ivc I) O false [] (mkNd3 (O, O, O) 0 []) []) strict false false false [].
