(* Rng.v -- model for property C17 (reproducible construction).  numpy's global generator is an
   explicit state threaded through the builders; its operations are Section oracles.
   The time grid of the arc-based wrapper is a sorted de-duplicated list.  Definitions only. *)
From VQ Require Import Base.
From Coq Require Import Permutation.

(* ---------- np.sort on integers: insertion sort ---------- *)
Fixpoint insert (x : Z) (l : list Z) : list Z :=
  match l with
  | [] => [x]
  | h :: t => if x <=? h then x :: h :: t else h :: insert x t
  end.
Fixpoint isort (l : list Z) : list Z :=
  match l with [] => [] | x :: t => insert x (isort t) end.

Fixpoint zmem (x : Z) (l : list Z) : bool :=
  match l with [] => false | h :: t => (x =? h) || zmem x t end.
(* set(...) : the distinct elements (in some order -- see the theorem) *)
Fixpoint dedup (l : list Z) : list Z :=
  match l with [] => [] | x :: t => if zmem x t then dedup t else x :: dedup t end.

(* MIRP.get_arc_based: tw_points ... append(0); set(); list(); sort(); then add_time_points sorts again *)
Definition grid_of (points : list Z) (set_order : list Z -> list Z) : list Z :=
  isort (isort (set_order (dedup (points ++ [0])))).

Section RNG.
  Variable rng : Type.
  (* np.random.seed(s): s = None draws OS entropy (unspecified), Some z is deterministic *)
  Variable seed : option Z -> rng -> rng.
  Hypothesis seed_forgets : forall z g g', seed (Some z) g = seed (Some z) g'.

  (* everything the path-based builder does after seeding is SOME function of the generator
     state and the data (three exploration rounds drawing np.random.choice, then the heuristic) *)
  Variables (Data Pool : Type).
  Variable explore : rng -> Data -> Pool * rng.

  (* MIRP.get_path_based: np.random.seed(0) first, then the rounds *)
  Definition get_path_based (g : rng) (d : Data) : Pool * rng := explore (seed (Some 0) g) d.

  (* the arc- and sequence-based builders never touch the generator *)
  Variables (ArcM SeqM : Type).
  Variable build_arc : Data -> ArcM.
  Variable build_seq : Data -> bool -> SeqM.
  Definition get_arc_based (g : rng) (d : Data) : ArcM * rng := (build_arc d, g).
  Definition get_sequence_based (g : rng) (d : Data) (strict : bool) : SeqM * rng := (build_seq d strict, g).

  (* RandomMIRP: seed in __post_init__, optional re-seed per instance, then draws *)
  Variable Inst : Type.
  Variable draw_instance : rng -> Inst * rng.
  Definition random_mirp_init (s : option Z) (g : rng) : rng := seed s g.
  Definition get_random_mirp (s : option Z) (reset : bool) (g : rng) : Inst * rng :=
    draw_instance (if reset then seed s g else g).
End RNG.
