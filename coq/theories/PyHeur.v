(* PyHeur.v -- Python-semantics combinators of the GENERATED models of the feasibility heuristics
   (coq/gen/HeurSeqGen.v, coq/gen/HeurArcGen.v; translator harness/translate_heursa.py).  Definitions
   only; lemmas live in PyHeur_facts.v.  Generic list / dict / comparison combinators: PyEnumCore.v.  [C09]

   The heuristics are long procedures that raise (ValueError, AssertionError, IndexError from a
   subscript), so the translator prints every statement block in the exception monad `result`:

   * `x = <expression that may raise>; REST`     py_bind <e> (fun x => REST)
     (a call of a method that changes the object binds the pair (self, value));
   * `raise C(...)` -> Err C; `assert c, msg; REST` -> if c then REST else Err AssertionError;
   * `for x in l: body`        py_forM body l st   -- as PyEnumCore.py_for (st = the object, when the body
     changes it, and the locals the body assigns or mutates; CNext / CBreak), but the body may raise:
     the exception leaves the loop and the procedure;
   * `while c: body`           py_whileM fuel (fun st => c) body st   -- the test is evaluated before every
     iteration, `break` leaves, an exception leaves; Python has no bound on the number of iterations,
     the model has: when `fuel` iterations were made and the test still holds the answer is
     Err OtherError (the convention of the hand model Heur_arc.route_loop);
   * `l.remove(x)`             py_list_remove eqb x l    (first occurrence; absent -> ValueError)
   * `l.sort(key=lambda n: k)` py_list_sort_key ltb (fun n => k) l   (stable: an element is placed
     before the first element with a strictly larger key -- list.sort is stable)
   * `np.zeros(n)`             np_zeros n;   `a[k] = v` on a 1-d array   np_set_item a k v
     (IndexError outside the array, a negative k counts from the end as numpy does);
   * a float that may be `inf` stored where the model keeps an integer (a time that is later passed to
     get_arrival_time / get_var_index)          py_finite e : Err OtherError on inf -- outside the
     number domain of the model; the equality theorems show it never happens. *)
From VQ Require Export Base PyEnumCore.

Definition py_bind {A B} (r : result A) (f : A -> result B) : result B :=
  match r with
  | Ok a => f a
  | Err e => Err e
  end.

Fixpoint py_forM {A S : Type} (body : A -> S -> result (ctl * S)) (l : list A) (st : S) : result S :=
  match l with
  | [] => Ok st
  | e :: l' =>
      match body e st with
      | Err x => Err x
      | Ok (CBreak, st') => Ok st'
      | Ok (CNext, st') => py_forM body l' st'
      end
  end.

Fixpoint py_whileM {S : Type} (fuel : nat) (cond : S -> bool) (body : S -> result (ctl * S)) (st : S)
  : result S :=
  match fuel with
  | O => if cond st then Err OtherError else Ok st
  | Datatypes.S f =>
      if cond st then
        match body st with
        | Err x => Err x
        | Ok (CBreak, st') => Ok st'
        | Ok (CNext, st') => py_whileM f cond body st'
        end
      else Ok st
  end.

(* list.remove(x) *)
Fixpoint py_remove_first {A} (eqb : A -> A -> bool) (x : A) (l : list A) : option (list A) :=
  match l with
  | [] => None
  | y :: l' => if eqb x y then Some l' else option_map (cons y) (py_remove_first eqb x l')
  end.
Definition py_list_remove {A} (eqb : A -> A -> bool) (x : A) (l : list A) : result (list A) :=
  match py_remove_first eqb x l with Some l' => Ok l' | None => Err ValueError end.

(* list.sort(key=...) *)
Fixpoint py_insert_key {A K} (ltb : K -> K -> bool) (key : A -> K) (x : A) (l : list A) : list A :=
  match l with
  | [] => [x]
  | y :: l' => if ltb (key x) (key y) then x :: l else y :: py_insert_key ltb key x l'
  end.
Definition py_list_sort_key {A K} (ltb : K -> K -> bool) (key : A -> K) (l : list A) : list A :=
  fold_left (fun acc x => py_insert_key ltb key x acc) l [].

(* numpy 1-d arrays of numbers *)
Definition np_zeros (n : nat) : list Z := repeat 0%Z n.
Fixpoint py_set_nth {A} (n : nat) (x : A) (l : list A) : list A :=
  match n, l with
  | _, [] => []
  | O, _ :: l' => x :: l'
  | Datatypes.S n', y :: l' => y :: py_set_nth n' x l'
  end.
Definition np_set_item (a : list Z) (k : Z) (v : Z) : result (list Z) :=
  let n := Z.of_nat (length a) in
  if ((0 <=? k) && (k <? n))%Z then Ok (py_set_nth (Z.to_nat k) v a)
  else if ((k <? 0) && (- n <=? k))%Z then Ok (py_set_nth (Z.to_nat (n + k)) v a)
  else Err IndexError.

(* a float that must be finite where it is used *)
Definition py_finite (e : ext) : result Z :=
  match e with Fin z => Ok z | PInf => Err OtherError end.

(* calls of methods that are translated by another package: the enumeration methods work on the
   enumeration part of the object (PySeq.qstate / PyArc.astate, `qstate -> qstate * result A`), the
   VRPTW methods on its graph (PyVrptw.M A = graph * result A).  The class files PyHeurSeq.v /
   PyHeurArc.v instantiate these with their object record. *)
Definition py_call_part {ST P A} (get : ST -> P) (set : P -> ST -> ST) (f : P -> P * result A) (self : ST)
  : result (ST * A) :=
  match f (get self) with
  | (p, Ok a) => Ok (set p self, a)
  | (_, Err e) => Err e
  end.
(* ... whose result is not a `result` (the method cannot raise) *)
Definition py_call_part_total {ST P A} (get : ST -> P) (set : P -> ST -> ST) (f : P -> P * A) (self : ST)
  : result (ST * A) :=
  match f (get self) with (p, a) => Ok (set p self, a) end.

(* a statement about an outcome that holds unless the fuel of a `while` ran out *)
Definition or_exhausted {A} (P : result A -> Prop) (rg : result A) : Prop := P rg \/ rg = Err OtherError.
