(* PyRng_facts.v -- soundness of the abstract interpreter of PyRng.v  [C17, generated tie]

   Two runs of the interpreter `exec` on the same table with the same program logic (`dec`, `draw`, `peek`,
   `seed`, `fld`) but started in different generator states and with different outside worlds (`ext`, `ext'`)
   proceed in lockstep as long as the abstract interpreter `aexec` accepts: same decisions, same observed
   values, same outcome; the generator states are related as the abstract status says (AU: both still the
   states the runs started with; AD: equal; AP: nothing known). *)
From Coq Require Import String.
From VQ Require Import Base PyRng.
Local Open Scope nat_scope.

(* ---------- finite sets of (status, outcome) ---------- *)
Lemma ast_eqb_eq a b : ast_eqb a b = true <-> a = b.
Proof. destruct a, b; simpl; split; intros H; try reflexivity; try discriminate. Qed.
Lemma rout_eqb_eq a b : rout_eqb a b = true <-> a = b.
Proof. destruct a, b; simpl; split; intros H; try reflexivity; try discriminate. Qed.
Lemma ar_eqb_eq p q : ar_eqb p q = true <-> p = q.
Proof.
  destruct p as [a o], q as [b r]. unfold ar_eqb. simpl. rewrite andb_true_iff, ast_eqb_eq, rout_eqb_eq.
  split; [intros [-> ->]; reflexivity | intros E; inversion E; auto].
Qed.
Lemma amem_In p R : amem p R = true <-> In p R.
Proof.
  unfold amem. rewrite existsb_exists. split.
  - intros [q [I E]]. apply ar_eqb_eq in E. subst. exact I.
  - intros I. exists p. split; [exact I | apply ar_eqb_eq; reflexivity].
Qed.
Lemma aadd_In p q R : In p (aadd q R) <-> p = q \/ In p R.
Proof.
  unfold aadd. destruct (amem q R) eqn:E.
  - split; [auto | intros [-> | I]; [apply amem_In; exact E | exact I]].
  - simpl. split; intros [H | H]; auto.
Qed.
Lemma aunion_In p A B : In p (aunion A B) <-> In p A \/ In p B.
Proof.
  induction A as [|q A IH]; simpl.
  - tauto.
  - rewrite aadd_In, IH. split; [intros [-> | [H | H]] | intros [[<- | H] | H]]; auto.
Qed.
Lemma abind_In R k B a o :
  abind R k = Some B -> In (a, o) R -> exists A, k a o = Some A /\ forall p, In p A -> In p B.
Proof.
  revert B. induction R as [|[a1 o1] R IH]; simpl; intros B E I; [contradiction|].
  destruct (k a1 o1) as [A|] eqn:K; [|discriminate].
  destruct (abind R k) as [B'|] eqn:AB; [|discriminate].
  inversion E; subst; clear E. destruct I as [I | I].
  - inversion I; subst. exists A. split; [exact K|]. intros p Hp. apply aunion_In. auto.
  - destruct (IH B' eq_refl I) as (A' & KA & Sub). exists A'. split; [exact KA|].
    intros p Hp. apply aunion_In. auto.
Qed.
Lemma acands_In run cs R cd :
  acands run cs = Some R -> In cd cs ->
  exists Rc, run cd = Some Rc /\ forall p, In p Rc -> In (fst p, call_out (snd p)) R.
Proof.
  revert R. induction cs as [|c1 cs IH]; simpl; intros R E I; [contradiction|].
  destruct (run c1) as [R1|] eqn:K; [|discriminate].
  destruct (acands run cs) as [R2|] eqn:AC; [|discriminate].
  inversion E; subst; clear E. destruct I as [-> | I].
  - exists R1. split; [exact K|]. intros p Hp. apply aunion_In. left.
    apply in_map_iff. exists p. auto.
  - destruct (IH R2 eq_refl I) as (Rc & KR & Sub). exists Rc. split; [exact KR|].
    intros p Hp. apply aunion_In. right. auto.
Qed.

Lemma tab_has_In a tab : tab_has a tab = true <-> exists R, In (a, R) tab.
Proof.
  unfold tab_has. rewrite existsb_exists. split.
  - intros [[b R] [I E]]. simpl in E. apply ast_eqb_eq in E. subst. exists R. exact I.
  - intros [R I]. exists (a, R). split; [exact I | apply ast_eqb_eq; reflexivity].
Qed.
Lemma conts_In a R : In a (conts R) <-> exists o, In (a, o) R /\ continues o = true.
Proof.
  unfold conts. rewrite in_flat_map. split.
  - intros [[b o] [I H]]. simpl in H. destruct (continues o) eqn:C; [|contradiction].
    destruct H as [<- | []]. exists o. auto.
  - intros [o [I C]]. exists (a, o). split; [exact I|]. simpl. rewrite C. left. reflexivity.
Qed.
Lemma explore_inv n step : forall todo tab tab',
  (forall q R, In (q, R) tab -> step q = Some R) ->
  explore n step todo tab = Some tab' -> forall q R, In (q, R) tab' -> step q = Some R.
Proof.
  induction n as [|n IH]; simpl; intros todo tab tab' Inv E; [discriminate|].
  destruct todo as [|a todo]; [inversion E; subst; exact Inv|].
  destruct (tab_has a tab); [eapply IH; eauto|].
  destruct (step a) as [R|] eqn:St; [|discriminate].
  eapply IH; [|exact E]. intros q R' [I | I]; [inversion I; subst; exact St | eauto].
Qed.
Lemma loop_exits_In intr tab a R :
  In (a, R) tab ->
  In (a, XNorm) (loop_exits intr tab) /\ (intr = true -> In (a, XRaise) (loop_exits intr tab)) /\
  forall p q, In p R -> In q (loop_exit1 p) -> In q (loop_exits intr tab).
Proof.
  induction tab as [|[b Rb] tab IH]; simpl; intros I; [contradiction|].
  assert (Sub : forall q, In q (aunion (flat_map loop_exit1 Rb) (loop_exits intr tab)) ->
                          In q (aadd (b, XNorm) ((if intr then aadd (b, XRaise) else fun r => r)
                                 (aunion (flat_map loop_exit1 Rb) (loop_exits intr tab))))).
  { intros q Hq. apply aadd_In. right. destruct intr; [apply aadd_In; right|]; exact Hq. }
  destruct I as [I | I].
  - inversion I; subst. split; [apply aadd_In; left; reflexivity|]. split.
    + intros ->. apply aadd_In. right. apply aadd_In. left. reflexivity.
    + intros p q Hp Hq. apply Sub. apply aunion_In. left. apply in_flat_map. exists p. auto.
  - destruct (IH I) as (A & B & C). split; [apply Sub, aunion_In; right; exact A|]. split.
    + intros E. apply Sub, aunion_In. right. exact (B E).
    + intros p q Hp Hq. apply Sub, aunion_In. right. exact (C p q Hp Hq).
Qed.

(* ---------- candidates come from the table ---------- *)
Lemma find_name_In l m g : find_name l m = Some g -> In g l.
Proof.
  induction l as [|h l IH]; simpl; [discriminate|].
  destruct (String.eqb (f_name h) m); [intros E; inversion E; auto | auto].
Qed.
Lemma find_cls_In l c k : find_cls l c = Some k -> In k l.
Proof.
  induction l as [|h l IH]; simpl; [discriminate|].
  destruct (String.eqb (c_name h) c); [intros E; inversion E; auto | auto].
Qed.
Lemma in_class_all tb k g : In k (rt_classes tb) -> In g (c_fns k) -> In g (all_fns tb).
Proof. intros Ik Ig. unfold all_fns. apply in_app_iff. right. apply in_flat_map. exists k. auto. Qed.
Lemma lookup_mro_In tb m : forall fuel c g, lookup_mro fuel tb c m = Some g -> In g (all_fns tb).
Proof.
  induction fuel as [|fuel IH]; simpl; intros c g E; [discriminate|].
  destruct (find_cls (rt_classes tb) c) as [kc|] eqn:FC; [|discriminate].
  destruct (find_name (c_fns kc) m) as [g1|] eqn:FN.
  - inversion E; subst. eapply in_class_all; [eapply find_cls_In; eauto | eapply find_name_In; eauto].
  - revert E. generalize (c_bases kc). intros bs. induction bs as [|b bs IHb]; [discriminate|].
    destruct (lookup_mro fuel tb b m) as [g2|] eqn:LB; [intros E; inversion E; subst; eauto | exact IHb].
Qed.
Lemma cha_In tb sel m cd : In cd (cha tb sel m) -> In (snd cd) (all_fns tb).
Proof.
  unfold cha. rewrite in_flat_map. intros [k [Ik H]].
  destruct (sel (c_name k)); [|contradiction].
  destruct (lookup tb (c_name k) m) as [g|] eqn:L; [|contradiction].
  destruct H as [<- | []]. simpl. eapply lookup_mro_In. exact L.
Qed.
Lemma resolve_In tb c dyn t cd : In cd (resolve tb c dyn t) -> In (snd cd) (all_fns tb).
Proof.
  destruct t as [m|m|x m|m|f]; unfold resolve.
  - destruct (lookup tb dyn m) as [g|] eqn:L; [|apply cha_In].
    intros [<- | []]. simpl. eapply lookup_mro_In. exact L.
  - unfold super_lookup. generalize (bases_of tb c). intros bs.
    induction bs as [|b bs IH]; [intros []|].
    destruct (lookup tb b m) as [g|] eqn:L; [|exact IH].
    intros [<- | []]. simpl. eapply lookup_mro_In. exact L.
  - destruct (sfind attr_class x); apply cha_In.
  - apply cha_In.
  - destruct (find_cls (rt_classes tb) f) as [k|] eqn:FC.
    + unfold ctor_cands. destruct (lookup tb (c_name k) _) as [g|] eqn:L; [|intros []].
      intros [<- | []]. simpl. eapply lookup_mro_In. exact L.
    + rewrite in_map_iff. intros [g [<- I]]. simpl. apply filter_In in I.
      unfold all_fns. apply in_app_iff. left. apply I.
Qed.

Lemma list_eqb_eq {A} (eqb : A -> A -> bool) (H : forall a b, eqb a b = true -> a = b) :
  forall l m, list_eqb eqb l m = true -> l = m.
Proof.
  induction l as [|a l IH]; destruct m as [|b m]; simpl; intros E; try reflexivity; try discriminate.
  apply andb_true_iff in E. destruct E as [E1 E2]. f_equal; [apply H; exact E1 | apply IH; exact E2].
Qed.
Lemma env_eqb_eq e1 e2 : env_eqb e1 e2 = true -> e1 = e2.
Proof.
  apply list_eqb_eq. intros [a|] [b|]; simpl; intros E; try reflexivity; try discriminate.
  destruct a, b; simpl in E; try reflexivity; discriminate.
Qed.
Lemma smem_In x l : smem x l = true <-> In x l.
Proof.
  unfold smem. rewrite existsb_exists. split.
  - intros [y [I E]]. apply String.eqb_eq in E. subst. exact I.
  - intros I. exists x. split; [exact I | apply String.eqb_refl].
Qed.

Lemma aexec_node_loop tb e ts rec intr c dyn env b a R0 :
  aexec_node tb e ts rec intr c dyn env (RLoop b) a = Some R0 ->
  exists tab, (forall q R, In (q, R) tab -> rec intr c dyn env b q = Some R) /\
              tab_closed tab = true /\ tab_has a tab = true /\ R0 = loop_exits intr tab.
Proof.
  unfold aexec_node. generalize 64. intros n AN.
  destruct (explore n (rec intr c dyn env b) [a] []) as [tab|] eqn:EXP; [|discriminate].
  destruct (tab_closed tab && tab_has a tab) eqn:CL; [|discriminate].
  inversion AN; subst R0; clear AN. apply andb_true_iff in CL. destruct CL as [Cl Ha].
  exists tab. split; [|auto]. eapply explore_inv; [|exact EXP]. intros q R [].
Qed.

(* ---------- two runs in lockstep ---------- *)
Section Sound.
  Variables (rng obs : Type).
  Variable seed : option Z -> rng -> rng.
  Hypothesis seed_forgets : forall z g g', seed (Some z) g = seed (Some z) g'.
  Variable draw : string -> hist obs -> rng -> obs * rng.
  Variable peek : rng -> obs.
  Variable dec : hist obs -> bool.
  Variable fld : string -> option Z.
  Variable tb : rng_table.
  Variables ext ext' : hist obs -> rng.
  Variable ts : keyset.
  Hypothesis TOK : trans_ok tb ts = true.
  (* the states the two runs started in, and the values observed before *)
  Variables (g0 g0' : rng) (k0 : list obs).

  Local Notation ex1 := (exec rng obs seed draw peek dec fld tb ext).
  Local Notation ex2 := (exec rng obs seed draw peek dec fld tb ext').
  Local Notation nd1 := (exec_node rng obs seed draw peek dec fld tb ext).
  Local Notation nd2 := (exec_node rng obs seed draw peek dec fld tb ext').

  Definition rel (a : ast) (x x' : xst rng obs) : Prop :=
    xh x = xh x' /\
    match a with
    | AU => xg x = g0 /\ xg x' = g0' /\ obs_of (xh x) = k0
    | AP => True
    | AD => xg x = xg x'
    end.

  Lemma rel_push a x x' b : rel a x x' -> rel a (push (IDec b) x) (push (IDec b) x').
  Proof.
    intros [H1 H2]. split; [simpl; rewrite H1; reflexivity|]. destruct a; simpl in *; auto.
  Qed.

  Definition fld_ok (e : list string) : Prop := forall x, smem x e = true -> fld x <> None.

  Lemma ev_sound e ev a a' x x' :
    fld_ok e -> aev e ev a = Some a' -> rel a x x' ->
    rel a' (ev_step rng obs seed draw peek fld ext ev x) (ev_step rng obs seed draw peek fld ext' ev x').
  Proof.
    intros FO AE [H1 H2]. destruct ev as [sa| | |nm]; unfold aev in AE.
    - destruct sa as [z| |s|]; inversion AE; subst; clear AE; simpl.
      + split; [exact H1 | apply seed_forgets].
      + split; [exact H1 | exact I].
      + destruct (smem s e) eqn:M.
        * specialize (FO s M). destruct (fld s) as [z|]; [|contradiction].
          split; [exact H1 | apply seed_forgets].
        * destruct (fld s); (split; [exact H1 | exact I]).
      + split; [exact H1 | exact I].
    - destruct a; inversion AE; subst. simpl in H2. split; simpl; [rewrite H1, H2; reflexivity | exact H2].
    - inversion AE; subst. split; [exact H1 | exact I].
    - destruct (smem nm entropy_names); [discriminate|].
      destruct a; inversion AE; subst. simpl in H2. split; simpl; rewrite H1, H2; reflexivity.
  Qed.

  Lemma pick_none cs (x : xst rng obs) : pick rng obs dec cs x = None -> cs = [].
  Proof.
    revert x. induction cs as [|c cs IH]; intros x; simpl; [reflexivity|].
    destruct cs as [|c2 cs]; [discriminate|].
    destruct (dec (xh x)); [discriminate|]. intros E. apply IH in E. discriminate.
  Qed.
  Lemma pick_rel a cs : forall x x' cd x1,
    rel a x x' -> pick rng obs dec cs x = Some (cd, x1) ->
    exists x1', pick rng obs dec cs x' = Some (cd, x1') /\ rel a x1 x1' /\ In cd cs.
  Proof.
    induction cs as [|c cs IH]; intros x x' cd x1 Rel E; simpl in E; [discriminate|].
    destruct cs as [|c2 cs].
    - inversion E; subst. exists x'. simpl. auto.
    - assert (Hh := proj1 Rel). cbn [pick]. rewrite <- Hh. destruct (dec (xh x)).
      + inversion E; subst. exists (push (IDec true) x'). split; [reflexivity|].
        split; [apply rel_push; exact Rel | left; reflexivity].
      + destruct (IH _ _ _ _ (rel_push a x x' false Rel) E) as (x1' & P1 & R1 & I1).
        exists x1'. split; [exact P1|]. split; [exact R1 | right; exact I1].
  Qed.

  (* the statement for one skeleton at concrete fuel fc (any abstract fuel) *)
  Definition P (e : list string) (fc : nat) : Prop :=
    forall fa intr c dyn env s a R x x' y o,
      aexec tb e ts fa intr c dyn env s a = Some R -> rel a x x' ->
      ex1 fc intr c dyn env s x = Some (y, o) ->
      exists y' a', ex2 fc intr c dyn env s x' = Some (y', o) /\ In (a', o) R /\ rel a' y y'.

  (* loops: any head status of a closed table *)
  Definition LN (e : list string) (fc : nat) : Prop :=
    forall fa intr c dyn env b tab a x x' y o,
      (forall q R, In (q, R) tab -> aexec tb e ts fa intr c dyn env b q = Some R) ->
      tab_closed tab = true -> tab_has a tab = true -> rel a x x' ->
      nd1 (ex1 fc) intr c dyn env (RLoop b) x = Some (y, o) ->
      exists y' a', nd2 (ex2 fc) intr c dyn env (RLoop b) x' = Some (y', o) /\
                    In (a', o) (loop_exits intr tab) /\ rel a' y y'.

  (* callees that the abstract interpreter skips *)
  Definition Trans (fc : nat) : Prop :=
    forall cd env intr a x x' y o,
      In (snd cd) (all_fns tb) -> shortcut tb ts cd env = true -> rel a x x' ->
      ex1 fc intr (fst (fst cd)) (snd (fst cd)) env (f_body (snd cd)) x = Some (y, o) ->
      exists y', ex2 fc intr (fst (fst cd)) (snd (fst cd)) env (f_body (snd cd)) x' = Some (y', o) /\
                 rel a y y'.

  Lemma LN_all e : forall fc, (forall k, k <= fc -> P e k) -> LN e fc.
  Proof.
    induction fc as [|fc IH]; intros HP fa intr c dyn env b tab a x x' y o Tab Cl Ha Rel EX.
    - unfold exec_node in *. assert (Hh := proj1 Rel). rewrite <- Hh.
      destruct (dec (xh x)); [simpl in EX; discriminate|].
      inversion EX; subst. exists (push (IDec false) x'), a. split; [reflexivity|].
      apply tab_has_In in Ha. destruct Ha as [Ra Ia].
      split; [apply (loop_exits_In intr tab a Ra Ia) | apply rel_push; exact Rel].
    - unfold exec_node in EX |- *. assert (Hh := proj1 Rel). rewrite <- Hh.
      apply tab_has_In in Ha. destruct Ha as [Ra Ia].
      destruct (loop_exits_In intr tab a Ra Ia) as (ExN & ExR & ExB).
      destruct (dec (xh x)) eqn:D.
      + destruct (ex1 (S fc) intr c dyn env b (push (IDec true) x)) as [[x1 o1]|] eqn:E1; [|discriminate].
        destruct (HP (S fc) (le_n _) fa intr c dyn env b a Ra (push (IDec true) x) (push (IDec true) x')
                     x1 o1 (Tab _ _ Ia) (rel_push a x x' true Rel) E1) as (y1' & a1 & E2 & I1 & R1).
        rewrite E2.
        assert (Cont : continues o1 = true -> tab_has a1 tab = true).
        { intros Co. unfold tab_closed in Cl. rewrite forallb_forall in Cl. specialize (Cl _ Ia).
          simpl in Cl. rewrite forallb_forall in Cl. apply Cl. apply conts_In. exists o1. auto. }
        assert (Re : ex1 (S fc) intr c dyn env (RLoop b) x1 = Some (y, o) ->
                     tab_has a1 tab = true ->
                     exists y' a', ex2 (S fc) intr c dyn env (RLoop b) y1' = Some (y', o) /\
                                   In (a', o) (loop_exits intr tab) /\ rel a' y y').
        { intros EL Ha1. cbn [exec] in EL |- *. assert (Hh1 := proj1 R1). rewrite <- Hh1.
          destruct (intr && dec (xh x1)) eqn:ID.
          - inversion EL; subst. exists (push (IDec true) y1'), a1. split; [reflexivity|].
            apply andb_true_iff in ID. destruct ID as [-> _].
            apply tab_has_In in Ha1. destruct Ha1 as [R1a I1a].
            split; [apply (loop_exits_In true tab a1 R1a I1a); reflexivity | apply rel_push; exact R1].
          - apply (IH (fun k Hk => HP k (le_S _ _ Hk)) fa intr c dyn env b tab a1
                       (if intr then push (IDec false) x1 else x1)
                       (if intr then push (IDec false) y1' else y1') y o Tab Cl Ha1);
              [|exact EL].
            destruct intr; [apply rel_push|]; exact R1. }
        destruct o1.
        * apply Re; [exact EX | apply Cont; reflexivity].
        * inversion EX; subst. exists y1', a1. split; [reflexivity|]. split; [|exact R1].
          apply (ExB (a1, XRet) (a1, XRet) I1). left. reflexivity.
        * inversion EX; subst. exists y1', a1. split; [reflexivity|]. split; [|exact R1].
          apply (ExB (a1, XBrk) (a1, XNorm) I1). left. reflexivity.
        * apply Re; [exact EX | apply Cont; reflexivity].
        * inversion EX; subst. exists y1', a1. split; [reflexivity|]. split; [|exact R1].
          apply (ExB (a1, XRaise) (a1, XRaise) I1). left. reflexivity.
      + inversion EX; subst. exists (push (IDec false) x'), a. split; [reflexivity|].
        split; [exact ExN | apply rel_push; exact Rel].
  Qed.

  Lemma P_zero e : P e 0.
  Proof. intros fa intr c dyn env s a R x x' y o _ _ EX. simpl in EX. discriminate. Qed.

  Lemma P_step e fc : fld_ok e -> Trans fc -> P e fc -> LN e fc -> P e (S fc).
  Proof.
    intros FO HT HP HL fa intr c dyn env s a R x x' y o AE Rel EX.
    destruct fa as [|fa]; [discriminate|]. cbn [aexec] in AE.
    destruct (aexec_node tb e ts (aexec tb e ts fa) intr c dyn env s a) as [R0|] eqn:AN; [|discriminate].
    inversion AE; subst R; clear AE.
    assert (Hh := proj1 Rel). cbn [exec] in EX |- *. rewrite <- Hh.
    destruct (intr && dec (xh x)) eqn:ID.
    { inversion EX; subst. exists (push (IDec true) x'), a. split; [reflexivity|].
      apply andb_true_iff in ID. destruct ID as [-> _].
      split; [apply aadd_In; left; reflexivity | apply rel_push; exact Rel]. }
    assert (Sub : forall p, In p R0 -> In p (if intr then aadd (a, XRaise) R0 else R0)).
    { intros p Hp. destruct intr; [apply aadd_In; right|]; exact Hp. }
    assert (Rel0 : rel a (if intr then push (IDec false) x else x) (if intr then push (IDec false) x' else x')).
    { destruct intr; [apply rel_push|]; exact Rel. }
    clear ID Rel Hh.
    set (x0 := if intr then push (IDec false) x else x) in *.
    set (x0' := if intr then push (IDec false) x' else x') in *.
    clearbody x0 x0'. clear x x'.
    assert (Hh := proj1 Rel0).
    cut (exists y' a', nd2 (ex2 fc) intr c dyn env s x0' = Some (y', o) /\ In (a', o) R0 /\ rel a' y y').
    { intros (y' & a' & E & I & Rl). exists y', a'. auto. }
    clear Sub.
    destruct s as [|o0|s1 s2|s1 s2|n s1 s2|b|b h e0|ev|t args|b];
      [ unfold exec_node, aexec_node in * | unfold exec_node, aexec_node in * | unfold exec_node, aexec_node in * | unfold exec_node, aexec_node in * | unfold exec_node, aexec_node in * | idtac | unfold exec_node, aexec_node in * | unfold exec_node, aexec_node in * | unfold exec_node, aexec_node in * | unfold exec_node, aexec_node in * ].
    - (* RSkip *) inversion AN; inversion EX; subst. exists x0', a. simpl. auto.
    - (* RExit *) inversion AN; inversion EX; subst. exists x0', a. simpl. auto.
    - (* RSeq *)
      destruct (aexec tb e ts fa intr c dyn env s1 a) as [R1|] eqn:A1; [|discriminate].
      destruct (ex1 fc intr c dyn env s1 x0) as [[x1 o1]|] eqn:E1; [|discriminate].
      destruct (HP _ _ _ _ _ _ _ _ _ _ _ _ A1 Rel0 E1) as (y1' & a1 & E2 & I1 & Rl1). rewrite E2.
      destruct (abind_In _ _ _ _ _ AN I1) as (A & KA & SubA).
      destruct o1;
        try (inversion KA; inversion EX; subst; exists y1', a1; split; [reflexivity|];
             split; [apply SubA; left; reflexivity | exact Rl1]).
      destruct (HP _ _ _ _ _ _ _ _ _ _ _ _ KA Rl1 EX) as (y' & a' & E3 & I3 & Rl3).
      exists y', a'. auto.
    - (* RChoice *)
      destruct (aexec tb e ts fa intr c dyn env s1 a) as [A|] eqn:A1; [|discriminate].
      destruct (aexec tb e ts fa intr c dyn env s2 a) as [B|] eqn:A2; [|discriminate].
      inversion AN; subst R0; clear AN. rewrite <- Hh.
      destruct (dec (xh x0)).
      + destruct (HP _ _ _ _ _ _ _ _ _ _ _ _ A1 (rel_push a x0 x0' true Rel0) EX) as (y' & a' & E3 & I3 & Rl3).
        exists y', a'. split; [exact E3|]. split; [apply aunion_In; left; exact I3 | exact Rl3].
      + destruct (HP _ _ _ _ _ _ _ _ _ _ _ _ A2 (rel_push a x0 x0' false Rel0) EX) as (y' & a' & E3 & I3 & Rl3).
        exists y', a'. split; [exact E3|]. split; [apply aunion_In; right; exact I3 | exact Rl3].
    - (* RIfParam *)
      destruct (nth n env None) as [d|].
      + destruct (HP _ _ _ _ _ _ _ _ _ _ _ _ AN Rel0 EX) as (y' & a' & E3 & I3 & Rl3). exists y', a'. auto.
      + destruct (aexec tb e ts fa intr c dyn env s1 a) as [A|] eqn:A1; [|discriminate].
        destruct (aexec tb e ts fa intr c dyn env s2 a) as [B|] eqn:A2; [|discriminate].
        inversion AN; subst R0; clear AN. rewrite <- Hh.
        destruct (dec (xh x0)).
        * destruct (HP _ _ _ _ _ _ _ _ _ _ _ _ A1 (rel_push a x0 x0' true Rel0) EX) as (y' & a' & E3 & I3 & Rl3).
          exists y', a'. split; [exact E3|]. split; [apply aunion_In; left; exact I3 | exact Rl3].
        * destruct (HP _ _ _ _ _ _ _ _ _ _ _ _ A2 (rel_push a x0 x0' false Rel0) EX) as (y' & a' & E3 & I3 & Rl3).
          exists y', a'. split; [exact E3|]. split; [apply aunion_In; right; exact I3 | exact Rl3].
    - (* RLoop *)
      destruct (aexec_node_loop _ _ _ _ _ _ _ _ _ _ _ AN) as (tab & Tab & Cl & Ha & ->).
      exact (HL fa intr c dyn env b tab a x0 x0' y o Tab Cl Ha Rel0 EX).
    - (* RTry *)
      destruct (aexec tb e ts fa true c dyn env (RSeq b RSkip) a) as [R1|] eqn:A1; [|discriminate].
      destruct (ex1 fc true c dyn env (RSeq b RSkip) x0) as [[x1 o1]|] eqn:E1; [|discriminate].
      destruct (HP _ _ _ _ _ _ _ _ _ _ _ _ A1 Rel0 E1) as (y1' & a1 & E2 & I1 & Rl1). rewrite E2.
      destruct (abind_In _ _ _ _ _ AN I1) as (A & KA & SubA).
      destruct o1;
        try (inversion KA; inversion EX; subst; exists y1', a1; split; [reflexivity|];
             split; [apply SubA; left; reflexivity | exact Rl1]).
      + destruct (HP _ _ _ _ _ _ _ _ _ _ _ _ KA Rl1 EX) as (y' & a' & E3 & I3 & Rl3).
        exists y', a'. auto.
      + destruct (aexec tb e ts fa intr c dyn env h a1) as [Ah|] eqn:AH; [|discriminate].
        inversion KA; subst A; clear KA. assert (Hh1 := proj1 Rl1). rewrite <- Hh1.
        destruct (dec (xh x1)).
        * destruct (HP _ _ _ _ _ _ _ _ _ _ _ _ AH (rel_push a1 x1 y1' true Rl1) EX) as (y' & a' & E3 & I3 & Rl3).
          exists y', a'. split; [exact E3|]. split; [apply SubA, aadd_In; right; exact I3 | exact Rl3].
        * inversion EX; subst. exists (push (IDec false) y1'), a1. split; [reflexivity|].
          split; [apply SubA, aadd_In; left; reflexivity | apply rel_push; exact Rl1].
    - (* REv *)
      destruct (aev e ev a) as [a'|] eqn:AV; [|discriminate].
      inversion AN; inversion EX; subst.
      exists (ev_step rng obs seed draw peek fld ext' ev x0'), a'. split; [reflexivity|].
      split; [left; reflexivity | eapply ev_sound; eauto].
    - (* RCall *)
      destruct (pick rng obs dec (resolve tb c dyn t) x0) as [[cd x1]|] eqn:PK.
      + destruct (pick_rel a _ _ _ _ _ Rel0 PK) as (x1' & PK' & Rl1 & Icd). rewrite PK'.
        assert (Ig : In (snd cd) (all_fns tb)) by (eapply resolve_In; exact Icd).
        destruct (resolve tb c dyn t) as [|cd0 cs] eqn:RS; [contradiction|].
        destruct (acands_In _ _ _ _ AN Icd) as (Rc & RUN & SubC). cbv beta in RUN.
        destruct (ex1 fc intr (fst (fst cd)) (snd (fst cd)) (bind (f_params (snd cd)) args env)
                      (f_body (snd cd)) x1) as [[x2 o2]|] eqn:E1; [|discriminate].
        inversion EX; subst y o; clear EX.
        destruct (shortcut tb ts cd (bind (f_params (snd cd)) args env)) eqn:SC.
        * destruct (HT cd _ intr a x1 x1' x2 o2 Ig SC Rl1 E1) as (y2' & E2 & Rl2). rewrite E2.
          exists y2', a. split; [reflexivity|]. split; [|exact Rl2].
          inversion RUN; subst Rc.
          destruct o2; simpl;
            first [ apply (SubC (a, XNorm)); left; reflexivity
                  | apply (SubC (a, XRaise)); right; left; reflexivity ].
        * destruct (HP _ _ _ _ _ _ _ _ _ _ _ _ RUN Rl1 E1) as (y2' & a2 & E2 & I2 & Rl2). rewrite E2.
          exists y2', a2. split; [reflexivity|]. split; [apply (SubC (a2, o2) I2) | exact Rl2].
      + apply pick_none in PK. rewrite PK in *. simpl. inversion AN; inversion EX; subst.
        exists x0', a. simpl. auto.
    - (* RClosure *) inversion AN; inversion EX; subst. exists x0', a. simpl. auto.
  Qed.

  Lemma fld_ok_nil : fld_ok [].
  Proof. intros x H. discriminate. Qed.

  (* what trans_ok verified for a listed function, semantically *)
  Lemma trans_of_P fc : P [] fc -> Trans fc.
  Proof.
    intros HP [[c' d'] g] env intr a x x' y o Ig SC Rel EX. simpl in *.
    apply andb_true_iff in SC. destruct SC as [SC Eenv].
    apply andb_true_iff in SC. destruct SC as [SC Dy].
    apply andb_true_iff in SC. destruct SC as [KM Ec].
    apply String.eqb_eq in Ec. subst c'. apply env_eqb_eq in Eenv. subst env.
    unfold trans_ok in TOK. rewrite forallb_forall in TOK. specialize (TOK g Ig). rewrite KM in TOK.
    unfold trans_fn in TOK. rewrite forallb_forall in TOK.
    specialize (TOK d' (proj1 (smem_In _ _) Dy)). rewrite forallb_forall in TOK.
    assert (Ii : In intr [false; true]) by (destruct intr; simpl; auto).
    specialize (TOK intr Ii). rewrite forallb_forall in TOK.
    assert (Ia : In a all_ast) by (destruct a; simpl; auto).
    specialize (TOK a Ia). unfold all_res in TOK.
    destruct (aexec tb [] ts afuel intr (f_cls g) d' (unknown_env g) (f_body g) a) as [R|] eqn:AE;
      [|discriminate].
    destruct (HP _ _ _ _ _ _ _ _ _ _ _ _ AE Rel EX) as (y' & a' & E2 & I2 & Rl2).
    rewrite forallb_forall in TOK. specialize (TOK _ I2). unfold keeps in TOK. simpl in TOK.
    apply ast_eqb_eq in TOK. subst a'. exists y'. auto.
  Qed.

  Lemma sound_nil : forall n k, k <= n -> P [] k.
  Proof.
    induction n as [|n IH]; intros k Hk.
    - assert (k = 0) by lia. subst. apply P_zero.
    - destruct (Nat.eq_dec k (S n)) as [->|Ne]; [|apply IH; lia].
      apply P_step; [apply fld_ok_nil | apply trans_of_P; apply IH; lia | apply IH; lia |].
      apply LN_all. intros j Hj. apply IH. exact Hj.
  Qed.

  Lemma trans_all fc : Trans fc.
  Proof. apply trans_of_P. apply (sound_nil fc fc). lia. Qed.

  Lemma sound_le e : fld_ok e -> forall n k, k <= n -> P e k.
  Proof.
    intros FO. induction n as [|n IH]; intros k Hk.
    - assert (k = 0) by lia. subst. apply P_zero.
    - destruct (Nat.eq_dec k (S n)) as [->|Ne]; [|apply IH; lia].
      apply P_step; [exact FO | apply trans_all | apply IH; lia |].
      apply LN_all. intros j Hj. apply IH. exact Hj.
  Qed.

  (* THE SIMULATION: whatever the abstract interpreter accepts runs in lockstep *)
  Theorem aexec_sound e : fld_ok e -> forall fc, P e fc.
  Proof. intros FO fc. apply (sound_le e FO fc fc). lia. Qed.
End Sound.

(* ---------- what the check of PyRng.v means for the entry points ---------- *)
Lemma env_eqb_refl e : env_eqb e e = true.
Proof.
  induction e as [|a e IH]; simpl; [reflexivity|]. apply andb_true_iff. split; [|exact IH].
  destruct a as [[|]|]; reflexivity.
Qed.
Lemma find_fn_In tb c m g : find_fn tb c m = Some g -> In g (all_fns tb).
Proof.
  unfold find_fn. destruct c as [|ch c'].
  - intros H. unfold all_fns. apply in_app_iff. left. eapply find_name_In; eauto.
  - destruct (find_cls (rt_classes tb) (String ch c')) as [k|] eqn:FC; [|discriminate].
    intros H. eapply in_class_all; [eapply find_cls_In; eauto | eapply find_name_In; eauto].
Qed.

Section Entries.
  Variables (rng obs : Type).
  Variable seed : option Z -> rng -> rng.
  Hypothesis seed_forgets : forall z g g', seed (Some z) g = seed (Some z) g'.
  Variable draw : string -> hist obs -> rng -> obs * rng.
  Variable peek : rng -> obs.
  Variable dec : hist obs -> bool.
  Variable fld : string -> option Z.
  Variable tb : rng_table.
  Variable ts : keyset.
  Hypothesis TOK : trans_ok tb ts = true.

  Local Notation ex := (exec rng obs seed draw peek dec fld tb).

  (* Whatever `aexec` accepts from status a: a second run, started in generator state g' instead of g (equal
     if a = AD) and living in another outside world, makes the same decisions, sees the same values and ends
     with the same outcome; the final generator states are equal (status AD) or both untouched (status AU). *)
  Theorem entry_sound e a c dyn env s R :
    fld_ok fld e -> aexec tb e ts afuel false c dyn env s a = Some R ->
    forall ext ext' fc g g' h y o,
      (a = AD -> g = g') ->
      ex ext fc false c dyn env s (mkX g h) = Some (y, o) ->
      exists y' a', ex ext' fc false c dyn env s (mkX g' h) = Some (y', o) /\ In (a', o) R /\
                    xh y' = xh y /\
                    (a' = AD -> xg y' = xg y) /\
                    (a' = AU -> xg y = g /\ xg y' = g' /\ obs_of (xh y) = obs_of h).
  Proof.
    intros FO AE ext ext' fc g g' h y o Hg EX.
    assert (Rel : rel rng obs g g' (obs_of h) a (mkX g h) (mkX g' h)).
    { split; [reflexivity|]. destruct a; simpl; auto. }
    destruct (aexec_sound rng obs seed seed_forgets draw peek dec fld tb ext ext' ts TOK g g' (obs_of h) e FO
                fc afuel false c dyn env s a R _ _ _ _ AE Rel EX) as (y' & a' & E2 & I2 & [H1 H2]).
    exists y', a'. split; [exact E2|]. split; [exact I2|]. split; [symmetry; exact H1|].
    split; intros ->; simpl in H2; [symmetry; exact H2 | exact H2].
  Qed.

  (* a function listed in ts: no generator event, whatever it is called with (inside or outside a try) *)
  Theorem transparent_sound gfn d :
    In gfn (all_fns tb) -> kmem gfn ts = true -> In d (dyns_of tb (f_cls gfn)) ->
    forall ext ext' fc intr g g' h y o,
      ex ext fc intr (f_cls gfn) d (unknown_env gfn) (f_body gfn) (mkX g h) = Some (y, o) ->
      xg y = g /\ obs_of (xh y) = obs_of h /\
      exists y', ex ext' fc intr (f_cls gfn) d (unknown_env gfn) (f_body gfn) (mkX g' h) = Some (y', o) /\
                 xh y' = xh y /\ xg y' = g'.
  Proof.
    intros Ig KM Id ext ext' fc intr g g' h y o EX.
    assert (Rel : rel rng obs g g' (obs_of h) AU (mkX g h) (mkX g' h)).
    { split; [reflexivity|]. simpl. auto. }
    assert (SC : shortcut tb ts (f_cls gfn, d, gfn) (unknown_env gfn) = true).
    { unfold shortcut. rewrite KM, String.eqb_refl, env_eqb_refl, (proj2 (smem_In _ _) Id). reflexivity. }
    destruct (trans_all rng obs seed seed_forgets draw peek dec fld tb ext ext' ts TOK g g' (obs_of h) fc
                (f_cls gfn, d, gfn) (unknown_env gfn) intr AU _ _ _ _ Ig SC Rel EX) as (y' & E2 & [H1 H2]).
    simpl in H2. destruct H2 as (A & B & C). split; [exact A|]. split; [exact C|].
    exists y'. split; [exact E2|]. split; [symmetry; exact H1 | exact B].
  Qed.
End Entries.

(* ---------- a disciplined table ---------- *)
Section Disciplined.
  Variables (rng obs : Type).
  Variable seed : option Z -> rng -> rng.
  Hypothesis seed_forgets : forall z g g', seed (Some z) g = seed (Some z) g'.
  Variable draw : string -> hist obs -> rng -> obs * rng.
  Variable peek : rng -> obs.
  Variable dec : hist obs -> bool.
  Variable fld : string -> option Z.
  Variable tb : rng_table.
  Hypothesis DISC : rng_disciplined tb = true.

  Local Notation ts := (transparent_set tb).
  Local Notation ex := (exec rng obs seed draw peek dec fld tb).

  Lemma disc_parts :
    trans_ok tb ts = true /\ required_present tb = true /\ implicit_silent tb ts = true /\
    no_rng_ok tb ts = true /\ path_ok tb ts = true /\ random_ok tb ts c_rand = true.
  Proof.
    pose proof DISC as W. unfold rng_disciplined, disciplined_with in W.
    repeat (apply andb_true_iff in W; let H := fresh "D" in destruct W as [W H]).
    repeat split; assumption.
  Qed.

  (* every function written in the graph classes / the arc- and sequence-based formulation (and the two MIRP
     getters for them), and everything that runs implicitly: the generator state after the call is the state
     before it, no value was observed from it, and the run does not depend on it *)
  Theorem disciplined_no_rng gfn d :
    In gfn (all_fns tb) -> (no_rng_fn gfn || implicit_fn gfn) = true -> In d (dyns_of tb (f_cls gfn)) ->
    forall ext ext' fc intr g g' h y o,
      ex ext fc intr (f_cls gfn) d (unknown_env gfn) (f_body gfn) (mkX g h) = Some (y, o) ->
      xg y = g /\ obs_of (xh y) = obs_of h /\
      exists y', ex ext' fc intr (f_cls gfn) d (unknown_env gfn) (f_body gfn) (mkX g' h) = Some (y', o) /\
                 xh y' = xh y /\ xg y' = g'.
  Proof.
    intros Ig NF Id. destruct disc_parts as (TOK & _ & IS & NR & _ & _).
    apply (transparent_sound rng obs seed seed_forgets draw peek dec fld tb ts TOK gfn d Ig); [|exact Id].
    apply orb_true_iff in NF. destruct NF as [NF | NF].
    - unfold no_rng_ok in NR. rewrite forallb_forall in NR. specialize (NR gfn Ig). rewrite NF in NR. exact NR.
    - unfold implicit_silent in IS. rewrite forallb_forall in IS. specialize (IS gfn Ig). rewrite NF in IS.
      apply andb_true_iff in IS. apply IS.
  Qed.

  (* the path getter: a run started in another generator state (and another outside world) sees the same
     values, decides the same and ends the same; the generator is left in the same state, or (cached object
     returned) untouched in both runs *)
  Theorem disciplined_prior_state :
    exists gfn, find_fn tb c_mirp "get_path_based" = Some gfn /\
    forall ext ext' fc g g' h y o,
      ex ext fc false c_mirp c_mirp (unknown_env gfn) (f_body gfn) (mkX g h) = Some (y, o) ->
      exists y', ex ext' fc false c_mirp c_mirp (unknown_env gfn) (f_body gfn) (mkX g' h) = Some (y', o) /\
                 xh y' = xh y /\
                 (xg y' = xg y \/ (xg y = g /\ xg y' = g' /\ obs_of (xh y) = obs_of h)).
  Proof.
    destruct disc_parts as (TOK & _ & _ & _ & PO & _).
    unfold path_ok, path_entry_ok, entry_res in PO.
    destruct (find_fn tb c_mirp "get_path_based") as [gfn|]; [|discriminate].
    exists gfn. split; [reflexivity|]. intros ext ext' fc g g' h y o EX. unfold all_res in PO.
    destruct (aexec tb [] ts afuel false c_mirp c_mirp (unknown_env gfn) (f_body gfn) AU) as [R|] eqn:AE;
      [|discriminate].
    destruct (entry_sound rng obs seed seed_forgets draw peek dec fld tb ts TOK [] AU _ _ _ _ R
                (fld_ok_nil fld) AE ext ext' fc g g' h y o (fun E => match E with eq_refl => I end) EX)
      as (y' & a' & E2 & I2 & Hh & HD & HU).
    exists y'. split; [exact E2|]. split; [exact Hh|].
    rewrite forallb_forall in PO. specialize (PO _ I2). unfold not_AP in PO. simpl in PO.
    destruct a'; [right; apply HU; reflexivity | discriminate | left; apply HD; reflexivity].
  Qed.

  (* the instance generator when self.seed holds an explicit integer *)
  Hypothesis SEED : fld "seed"%string <> None.

  Lemma fld_ok_seed : fld_ok fld seed_attr.
  Proof.
    intros x H. unfold seed_attr, smem in H. simpl in H. rewrite orb_false_r in H.
    apply String.eqb_eq in H. subst. exact SEED.
  Qed.

  (* (1) the constructor, (2) get_random_mirp(reset_seed=True): started in any two generator states, the
         runs see the same values and, unless they raise, leave the generator in the same state;
     (3) constructor, then get_random_mirp(): the same values whatever the prior state (first instance);
     (4) random_mirp_gen() from a determined state does not depend on the outside world. *)
  Theorem disciplined_seeded :
    (exists gfn, find_fn tb c_rand "__post_init__" = Some gfn /\
       forall ext ext' fc g g' h y o,
         ex ext fc false c_rand c_rand (unknown_env gfn) (f_body gfn) (mkX g h) = Some (y, o) ->
         exists y', ex ext' fc false c_rand c_rand (unknown_env gfn) (f_body gfn) (mkX g' h) = Some (y', o) /\
                    xh y' = xh y /\ (o <> XRaise -> xg y' = xg y)) /\
    (exists gfn, find_fn tb c_rand "get_random_mirp" = Some gfn /\
       forall ext ext' fc g g' h y o,
         ex ext fc false c_rand c_rand (env_with "reset_seed" true gfn) (f_body gfn) (mkX g h) = Some (y, o) ->
         exists y', ex ext' fc false c_rand c_rand (env_with "reset_seed" true gfn) (f_body gfn) (mkX g' h)
                    = Some (y', o) /\
                    xh y' = xh y /\ (o <> XRaise -> xg y' = xg y)) /\
    (forall ext ext' fc g g' h y o,
       ex ext fc false c_rand c_rand [] first_instance (mkX g h) = Some (y, o) ->
       exists y', ex ext' fc false c_rand c_rand [] first_instance (mkX g' h) = Some (y', o) /\ xh y' = xh y) /\
    (exists gfn, find_fn tb c_rand "random_mirp_gen" = Some gfn /\
       forall ext ext' fc g h y o,
         ex ext fc false c_rand c_rand (unknown_env gfn) (f_body gfn) (mkX g h) = Some (y, o) ->
         exists y', ex ext' fc false c_rand c_rand (unknown_env gfn) (f_body gfn) (mkX g h) = Some (y', o) /\
                    xh y' = xh y).
  Proof.
    destruct disc_parts as (TOK & _ & _ & _ & _ & RO).
    unfold random_ok in RO.
    apply andb_true_iff in RO. destruct RO as [RO R4].
    apply andb_true_iff in RO. destruct RO as [RO R3].
    apply andb_true_iff in RO. destruct RO as [R1 R2].
    assert (ADR : forall R a' o, forallb AD_or_raise R = true -> In (a', o) R -> o <> XRaise -> a' = AD).
    { intros R a' o F I2 NR. rewrite forallb_forall in F. specialize (F _ I2). unfold AD_or_raise in F.
      simpl in F. apply orb_true_iff in F. destruct F as [F | F].
      - apply rout_eqb_eq in F. contradiction.
      - apply ast_eqb_eq in F. exact F. }
    assert (NAD : AP = AD -> forall g g' : rng, g = g') by (intros E; discriminate).
    split; [|split; [|split]].
    - unfold ctor_ok, entry_res, all_res in R1.
      destruct (find_fn tb c_rand "__post_init__") as [gfn|]; [|discriminate].
      exists gfn. split; [reflexivity|]. intros ext ext' fc g g' h y o EX.
      destruct (aexec tb seed_attr ts afuel false c_rand c_rand (unknown_env gfn) (f_body gfn) AP) as [R|] eqn:AE;
        [|discriminate].
      destruct (entry_sound rng obs seed seed_forgets draw peek dec fld tb ts TOK _ AP _ _ _ _ R
                  fld_ok_seed AE ext ext' fc g g' h y o (fun E => NAD E g g') EX)
        as (y' & a' & E2 & I2 & Hh & HD & _).
      exists y'. split; [exact E2|]. split; [exact Hh|]. intros NR. apply HD. exact (ADR R a' o R1 I2 NR).
    - unfold reseed_ok, entry_res, all_res in R2.
      destruct (find_fn tb c_rand "get_random_mirp") as [gfn|]; [|discriminate].
      exists gfn. split; [reflexivity|]. intros ext ext' fc g g' h y o EX.
      destruct (aexec tb seed_attr ts afuel false c_rand c_rand (env_with "reset_seed" true gfn) (f_body gfn) AP)
        as [R|] eqn:AE; [|discriminate].
      destruct (entry_sound rng obs seed seed_forgets draw peek dec fld tb ts TOK _ AP _ _ _ _ R
                  fld_ok_seed AE ext ext' fc g g' h y o (fun E => NAD E g g') EX)
        as (y' & a' & E2 & I2 & Hh & HD & _).
      exists y'. split; [exact E2|]. split; [exact Hh|]. intros NR. apply HD. exact (ADR R a' o R2 I2 NR).
    - intros ext ext' fc g g' h y o EX. unfold first_ok, all_res in R3.
      destruct (aexec tb seed_attr ts afuel false c_rand c_rand [] first_instance AP) as [R|] eqn:AE;
        [|discriminate].
      destruct (entry_sound rng obs seed seed_forgets draw peek dec fld tb ts TOK _ AP _ _ _ _ R
                  fld_ok_seed AE ext ext' fc g g' h y o (fun E => NAD E g g') EX)
        as (y' & a' & E2 & I2 & Hh & _).
      exists y'. auto.
    - unfold stream_ok, entry_res, all_res in R4.
      destruct (find_fn tb c_rand "random_mirp_gen") as [gfn|]; [|discriminate].
      exists gfn. split; [reflexivity|]. intros ext ext' fc g h y o EX.
      destruct (aexec tb seed_attr ts afuel false c_rand c_rand (unknown_env gfn) (f_body gfn) AD) as [R|] eqn:AE;
        [|discriminate].
      destruct (entry_sound rng obs seed seed_forgets draw peek dec fld tb ts TOK _ AD _ _ _ _ R
                  fld_ok_seed AE ext ext' fc g g h y o (fun _ => eq_refl) EX)
        as (y' & a' & E2 & I2 & Hh & _).
      exists y'. auto.
  Qed.
End Disciplined.
