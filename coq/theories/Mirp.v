(* Mirp.v -- executable model of applications/mirp.py (class MIRP: get_time_window, add_nodes,
   add_travel_arcs, add_entry_arcs, add_exit_arcs) on top of a small model of the VRPTW graph
   (Node window check, add_node, add_arc timing filter) over exact rationals Q.
   Definitions only; lemmas live in Mirp_facts.v (C11) and Mirp_graph_facts.v (C12).

   Conventions
   * numbers are Q compared with Qeq (`==`); a window end may be +infinity (np.inf): `qext`.
   * node names: "Depot" | f"{port}-{k}" | f"Dum{i}".  Ports are numbered (nat); the string
     formatting is modelled by the injective constructors of `nname` (a name `p-k` determines p
     and k because str(k) contains no '-', and it is never "Depot" nor "Dum<i>").
   * VRPTW keeps node_names and nodes aligned (C15); the model keeps one list of nodes.
   * an exception leaves the partially mutated object behind: every operation returns the new
     state together with `Ok value` or `Err class`. *)
From Coq Require Export QArith Qround.
From VQ Require Import Base.
Local Open Scope Q_scope.

(* ---------- numbers ---------- *)
Definition Qltb (a b : Q) : bool := negb (Qle_bool b a).          (* a < b *)
Definition Qn (k : nat) : Q := inject_Z (Z.of_nat k).

Inductive qext := QFin (q : Q) | QInf.
Definition qext_eqb (a b : qext) : bool :=
  match a, b with QFin x, QFin y => Qeq_bool x y | QInf, QInf => true | _, _ => false end.
(* a <= b, b possibly infinite *)
Definition q_le_ext (a : Q) (b : qext) : bool :=
  match b with QFin y => Qle_bool a y | QInf => true end.
(* a < b, a possibly infinite *)
Definition ext_lt_q (a : qext) (b : Q) : bool :=
  match a with QFin x => Qltb x b | QInf => false end.

(* ---------- names, nodes, arcs, graph ---------- *)
Inductive nname := NDepot | NVisit (p k : nat) | NDum (i : nat).
Definition nname_eqb (a b : nname) : bool :=
  match a, b with
  | NDepot, NDepot => true
  | NVisit p k, NVisit q l => Nat.eqb p q && Nat.eqb k l
  | NDum i, NDum j => Nat.eqb i j
  | _, _ => false
  end.

Record mnode := mkNode { nm : nname; dem : Q; lo : Q; hi : qext }.
Record marc := mkArc { aorig : nname; adest : nname; att : Q; acost : Q }.
Record mgraph := mkGraph { mnodes : list mnode; marcs : dict marc }.

Definition dummy_mnode : mnode := mkNode NDepot 0 0 QInf.

(* list.index on node_names *)
Fixpoint pos_of (x : nname) (l : list mnode) : option nat :=
  match l with
  | [] => None
  | n :: l' => if nname_eqb x (nm n) then Some O else option_map S (pos_of x l')
  end.
Definition has_name (x : nname) (l : list mnode) : bool :=
  match pos_of x l with Some _ => true | None => false end.
Definition find_node (x : nname) (l : list mnode) : option mnode :=
  match pos_of x l with Some i => Some (nth i l dummy_mnode) | None => None end.

(* VRPTW.add_node: duplicate name -> ValueError; Node.__init__: t_w[0] > t_w[1] -> ValueError *)
Definition g_add_node (g : mgraph) (x : nname) (d a : Q) (b : qext) : result mgraph :=
  if has_name x (mnodes g) then Err ValueError
  else if negb (q_le_ext a b) then Err ValueError
  else Ok (mkGraph (mnodes g ++ [mkNode x d a b]) (marcs g)).

(* VRPTW.add_arc: origin window START + travel time <= destination window end; dict store overwrites *)
Definition arc_filter (no nd : mnode) (tm : Q) : bool := q_le_ext (lo no + tm) (hi nd).
Definition g_add_arc (g : mgraph) (o d : nname) (tm c : Q) : result (mgraph * bool) :=
  match pos_of o (mnodes g), pos_of d (mnodes g) with
  | Some i, Some j =>
      let no := nth i (mnodes g) dummy_mnode in
      let nd := nth j (mnodes g) dummy_mnode in
      if arc_filter no nd tm
      then Ok (mkGraph (mnodes g) (dict_set (i, j) (mkArc (nm no) (nm nd) tm c) (marcs g)), true)
      else Ok (g, false)
  | _, _ => Err ValueError
  end.

(* ---------- get_time_window ---------- *)
Definition tw0_s (size : Q) (k : nat) (init rate cap : Q) : Q := ((Qn k + 1) * size - init) / rate.
Definition tw1_s (size : Q) (k : nat) (init rate cap : Q) : Q := (cap + Qn k * size - init) / rate.
Definition tw0_d (size : Q) (k : nat) (init rate cap : Q) : Q := (cap - (Qn k + 1) * size - init) / rate.
Definition tw1_d (size : Q) (k : nat) (init rate cap : Q) : Q := (- Qn k * size - init) / rate.

Definition window (size : Q) (k : nat) (init rate cap : Q) : Q * Q :=
  if Qltb 0 rate
  then (tw0_s size k init rate cap, tw1_s size k init rate cap)
  else (tw0_d size k init rate cap, tw1_d size k init rate cap).
Definition tw0 size k init rate cap := fst (window size k init rate cap).
Definition tw1 size k init rate cap := snd (window size k init rate cap).

(* demand of the visit nodes of a port: -size (a full load) at a supply port, +size at a demand port *)
Definition demand_level (size rate : Q) : Q := if Qltb 0 rate then - size else size.
Definition visit_node (size : Q) (name k : nat) (init rate cap : Q) : mnode :=
  mkNode (NVisit name k) (demand_level size rate)
         (tw0 size k init rate cap) (QFin (tw1 size k init rate cap)).

(* ---------- port inventory when visit k is serviced (one full cargo) at instant tau k ---------- *)
Fixpoint count (n : nat) (p : nat -> bool) : nat :=
  match n with O => O | S m => (count m p + (if p m then 1 else 0))%nat end.
(* inventory just after the services taking place at time t, and just before them *)
Definition inv_after (size init rate : Q) (K : nat) (tau : nat -> Q) (t : Q) : Q :=
  init + rate * t + demand_level size rate * Qn (count K (fun k => Qle_bool (tau k) t)).
Definition inv_before (size init rate : Q) (K : nat) (tau : nat -> Q) (t : Q) : Q :=
  init + rate * t + demand_level size rate * Qn (count K (fun k => Qltb (tau k) t)).

(* ---------- MIRP state ---------- *)
Record mstate := mkState {
  gr : mgraph;
  sports : list nat;                       (* supply_ports *)
  dports : list nat;                       (* demand_ports *)
  pmap : list (nat * list nname);          (* port_mapping, a dict *)
  csize : Q;                               (* cargo_size *)
  horizon : Q                              (* time_horizon *)
}.

(* MIRP.__init__: VRPTW with the node "Depot", demand 0, default window (0, inf), at position 0 *)
Definition init_state (size H : Q) : mstate :=
  mkState (mkGraph [mkNode NDepot 0 0 QInf] []) [] [] [] size H.

Definition set_gr (s : mstate) (g : mgraph) : mstate :=
  mkState g (sports s) (dports s) (pmap s) (csize s) (horizon s).

Fixpoint pm_get (p : nat) (m : list (nat * list nname)) : option (list nname) :=
  match m with
  | [] => None
  | (q, l) :: m' => if Nat.eqb p q then Some l else pm_get p m'
  end.
(* m[p] = l : overwrite in place, else append *)
Fixpoint pm_set (p : nat) (l : list nname) (m : list (nat * list nname)) : list (nat * list nname) :=
  match m with
  | [] => [(p, l)]
  | (q, l') :: m' => if Nat.eqb p q then (q, l) :: m' else (q, l') :: pm_set p l m'
  end.
(* m[p].append(x) *)
Fixpoint pm_append (p : nat) (x : nname) (m : list (nat * list nname)) : list (nat * list nname) :=
  match m with
  | [] => []
  | (q, l') :: m' => if Nat.eqb p q then (q, l' ++ [x]) :: m' else (q, l') :: pm_append p x m'
  end.

(* ---------- add_nodes ---------- *)
(* the loop `while True` leaves at the first k with tw1 k > horizon.  For size > 0 that k is
   nvisits (Mirp_facts.tw1_gt_horizon_iff), so S nvisits iterations suffice; running out of
   fuel (only possible when size <= 0, where the Python loop does not terminate either) is
   reported as Err OtherError. *)
Definition kbound (size H init rate cap : Q) : Q :=
  if Qltb 0 rate then (H * rate + init - cap) / size else (- (H * rate) - init) / size.
Definition nvisits (size H init rate cap : Q) : nat :=
  Z.to_nat (Qfloor (kbound size H init rate cap) + 1).

Fixpoint add_nodes_loop (fuel : nat) (s : mstate) (name : nat) (init rate cap dl : Q)
    (k : nat) (acc : list nname) : mstate * result (list nname) :=
  match fuel with
  | O => (s, Err OtherError)
  | S f =>
      let w := window (csize s) k init rate cap in
      if Qltb (horizon s) (snd w) then (s, Ok acc)              (* if t_w[1] > horizon: break *)
      else
        let x := NVisit name k in
        match g_add_node (gr s) x dl (fst w) (QFin (snd w)) with
        | Err e => (s, Err e)
        | Ok g' =>
            add_nodes_loop f
              (mkState g' (sports s) (dports s) (pm_append name x (pmap s)) (csize s) (horizon s))
              name init rate cap dl (S k) (acc ++ [x])
        end
  end.

Definition add_nodes_fuel (fuel : nat) (s : mstate) (name : nat) (init rate cap : Q)
  : mstate * result (list nname) :=
  let sup := Qltb 0 rate in
  let dl := demand_level (csize s) rate in
  let s1 := mkState (gr s)
              (if sup then sports s ++ [name] else sports s)
              (if sup then dports s else dports s ++ [name])
              (pm_set name [] (pmap s)) (csize s) (horizon s) in
  (* port_frequency = np.fabs(cap / rate): ZeroDivisionError on exact numbers *)
  if Qeq_bool rate 0 then (s1, Err OtherError)
  else add_nodes_loop fuel s1 name init rate cap dl O [].

Definition add_nodes (s : mstate) (name : nat) (init rate cap : Q) :=
  add_nodes_fuel (S (nvisits (csize s) (horizon s) init rate cap)) s name init rate cap.

(* ---------- arcs ---------- *)
Fixpoint lookup {V} (k : nat) (t : list (nat * V)) : option V :=
  match t with
  | [] => None
  | (q, v) :: t' => if Nat.eqb k q then Some v else lookup k t'
  end.
Fixpoint lookup2 (a b : nat) (t : list ((nat * nat) * Q)) : option Q :=
  match t with
  | [] => None
  | (k, v) :: t' => if natpair_eqb (a, b) k then Some v else lookup2 a b t'
  end.

(* the state of a running loop: graph so far, and the exception that stopped it (if any) *)
Definition gres := (mgraph * option errcls)%type.

(* a sequence of add_arc calls *)
Fixpoint arcs_seq (g : mgraph) (reqs : list (nname * nname * Q * Q)) : gres :=
  match reqs with
  | [] => (g, None)
  | (o, d, tm, c) :: rest =>
      match g_add_arc g o d tm c with
      | Err e => (g, Some e)
      | Ok (g', _) => arcs_seq g' rest
      end
  end.

(* for s_node, d_node in product(...): add_arc(s, d, t, c + fees_d[d_p]); add_arc(d, s, t, c + fees_s[s_p]) *)
Fixpoint travel_pairs (g : mgraph) (prs : list (nname * nname)) (tm tc : Q)
    (fs fd : list (nat * Q)) (sp dp : nat) : gres :=
  match prs with
  | [] => (g, None)
  | (sn, dn) :: rest =>
      match lookup dp fd with
      | None => (g, Some KeyError)
      | Some fdv =>
          match g_add_arc g sn dn tm (tc + fdv) with
          | Err e => (g, Some e)
          | Ok (g1, _) =>
              match lookup sp fs with
              | None => (g1, Some KeyError)
              | Some fsv =>
                  match g_add_arc g1 dn sn tm (tc + fsv) with
                  | Err e => (g1, Some e)
                  | Ok (g2, _) => travel_pairs g2 rest tm tc fs fd sp dp
                  end
              end
          end
      end
  end.

Fixpoint travel_d (g : mgraph) (pm : list (nat * list nname)) (sp : nat) (dps : list nat)
    (dist : list ((nat * nat) * Q)) (speed unit : Q) (fs fd : list (nat * Q)) : gres :=
  match dps with
  | [] => (g, None)
  | dp :: rest =>
      match lookup2 sp dp dist with                      (* distance_function(s_p, d_p) *)
      | None => (g, Some KeyError)
      | Some dd =>
          if Qeq_bool speed 0 then (g, Some OtherError)  (* distance/vessel_speed: ZeroDivisionError *)
          else
            match pm_get sp pm, pm_get dp pm with
            | Some ms, Some md =>
                match travel_pairs g (list_prod ms md) (dd / speed) (dd * unit) fs fd sp dp with
                | (g', None) => travel_d g' pm sp rest dist speed unit fs fd
                | r => r
                end
            | _, _ => (g, Some KeyError)
            end
      end
  end.

Fixpoint travel_s (g : mgraph) (pm : list (nat * list nname)) (sps dps : list nat)
    (dist : list ((nat * nat) * Q)) (speed unit : Q) (fs fd : list (nat * Q)) : gres :=
  match sps with
  | [] => (g, None)
  | sp :: rest =>
      match travel_d g pm sp dps dist speed unit fs fd with
      | (g', None) => travel_s g' pm rest dps dist speed unit fs fd
      | r => r
      end
  end.

(* node_names[depot_index], depot_index = 0 *)
Definition depot_name (g : mgraph) : nname := nm (nth 0 (mnodes g) dummy_mnode).

Fixpoint exit_ports (g : mgraph) (pm : list (nat * list nname)) (ports : list nat)
    (dn : nname) (tm c : Q) : gres :=
  match ports with
  | [] => (g, None)
  | p :: rest =>
      match pm_get p pm with
      | None => (g, Some KeyError)
      | Some ns =>
          match arcs_seq g (map (fun x => (x, dn, tm, c)) ns) with
          | (g', None) => exit_ports g' pm rest dn tm c
          | r => r
          end
      end
  end.

(* supply part of add_entry_arcs, one port *)
Fixpoint entry_s_nodes (g : mgraph) (ns : list nname) (dn : nname) (limit tm c : Q) : gres :=
  match ns with
  | [] => (g, None)
  | x :: rest =>
      match find_node x (mnodes g) with
      | None => (g, Some ValueError)
      | Some n =>
          if ext_lt_q (hi n) limit
          then match g_add_arc g dn x tm c with
               | Err e => (g, Some e)
               | Ok (g', _) => entry_s_nodes g' rest dn limit tm c
               end
          else entry_s_nodes g rest dn limit tm c
      end
  end.
Fixpoint entry_s_ports (g : mgraph) (pm : list (nat * list nname)) (ports : list nat)
    (dn : nname) (limit tm c : Q) : gres :=
  match ports with
  | [] => (g, None)
  | p :: rest =>
      match pm_get p pm with
      | None => (g, Some KeyError)
      | Some ns =>
          match entry_s_nodes g ns dn limit tm c with
          | (g', None) => entry_s_ports g' pm rest dn limit tm c
          | r => r
          end
      end
  end.

(* demand part: a dummy loaded vessel Dum<i> (demand -size, window (0, inf)) in front of every early visit *)
Fixpoint entry_d_nodes (g : mgraph) (ns : list nname) (dn : nname) (limit tm c size : Q) (nd : nat)
  : gres * nat :=
  match ns with
  | [] => ((g, None), nd)
  | x :: rest =>
      match find_node x (mnodes g) with
      | None => ((g, Some ValueError), nd)
      | Some n =>
          if ext_lt_q (hi n) limit
          then match g_add_node g (NDum nd) (- size) 0 QInf with
               | Err e => ((g, Some e), S nd)
               | Ok g1 =>
                   match g_add_arc g1 dn (NDum nd) 0 0 with
                   | Err e => ((g1, Some e), S nd)
                   | Ok (g2, _) =>
                       match g_add_arc g2 (NDum nd) x tm c with
                       | Err e => ((g2, Some e), S nd)
                       | Ok (g3, _) => entry_d_nodes g3 rest dn limit tm c size (S nd)
                       end
                   end
               end
          else entry_d_nodes g rest dn limit tm c size nd
      end
  end.
Fixpoint entry_d_ports (g : mgraph) (pm : list (nat * list nname)) (ports : list nat)
    (dn : nname) (limit tm c size : Q) (nd : nat) : gres :=
  match ports with
  | [] => (g, None)
  | p :: rest =>
      match pm_get p pm with
      | None => (g, Some KeyError)
      | Some ns =>
          match entry_d_nodes g ns dn limit tm c size nd with
          | ((g', None), nd') => entry_d_ports g' pm rest dn limit tm c size nd'
          | (r, _) => r
          end
      end
  end.

Definition add_travel_arcs (s : mstate) dist speed unit fs fd : gres :=
  travel_s (gr s) (pmap s) (sports s) (dports s) dist speed unit fs fd.
Definition add_exit_arcs (s : mstate) (tm c : Q) : gres :=
  exit_ports (gr s) (pmap s) (sports s ++ dports s) (depot_name (gr s)) tm c.
Definition add_entry_arcs (s : mstate) (limit tm c : Q) : gres :=
  let dn := depot_name (gr s) in
  match entry_s_ports (gr s) (pmap s) (sports s) dn limit tm c with
  | (g', None) => entry_d_ports g' (pmap s) (dports s) dn limit tm c (csize s) O
  | r => r
  end.

(* ---------- histories of the four operations ---------- *)
Inductive mop :=
| AddNodes (name : nat) (init rate cap : Q)
| AddTravelArcs (dist : list ((nat * nat) * Q)) (speed unit : Q) (fees_s fees_d : list (nat * Q))
| AddExitArcs (tm c : Q)
| AddEntryArcs (limit tm c : Q).

(* value of a call: Some names for add_nodes, None for the procedures returning None *)
Definition mresult := result (option (list nname)).

Definition of_gres (s : mstate) (r : gres) : mstate * mresult :=
  (set_gr s (fst r), match snd r with None => Ok None | Some e => Err e end).

Definition mstep (s : mstate) (o : mop) : mstate * mresult :=
  match o with
  | AddNodes name init rate cap =>
      match add_nodes s name init rate cap with
      | (s', Ok l) => (s', Ok (Some l))
      | (s', Err e) => (s', Err e)
      end
  | AddTravelArcs dist speed unit fs fd => of_gres s (add_travel_arcs s dist speed unit fs fd)
  | AddExitArcs tm c => of_gres s (add_exit_arcs s tm c)
  | AddEntryArcs limit tm c => of_gres s (add_entry_arcs s limit tm c)
  end.

Definition mrun (ops : list mop) (s : mstate) : mstate :=
  fold_left (fun s o => fst (mstep s o)) ops s.

Fixpoint mtrace (ops : list mop) (s : mstate) : list mresult :=
  match ops with
  | [] => []
  | o :: ops' => let r := mstep s o in snd r :: mtrace ops' (fst r)
  end.

(* ---------- node kinds, derived from name and demand sign ---------- *)
Inductive kind := KDepot | KSupply | KDemand | KDum.
Definition kind_eqb (a b : kind) : bool :=
  match a, b with
  | KDepot, KDepot | KSupply, KSupply | KDemand, KDemand | KDum, KDum => true
  | _, _ => false
  end.
Definition kind_of (n : mnode) : kind :=
  match nm n with
  | NDepot => KDepot
  | NDum _ => KDum
  | NVisit _ _ => if Qltb (dem n) 0 then KSupply else KDemand
  end.
(* the four admissible arc shapes *)
Definition arc_kind_ok (ko kd : kind) : bool :=
  match ko, kd with
  | KDepot, KSupply | KDepot, KDum => true            (* depot -> loading node *)
  | KSupply, KDemand | KDemand, KSupply => true       (* loading <-> discharging between port nodes *)
  | KDum, KDemand => true                             (* dummy loaded vessel -> discharging *)
  | KSupply, KDepot | KDemand, KDepot => true         (* regular node -> depot *)
  | _, _ => false
  end.

(* ---------- observables compared with the implementation ---------- *)
Definition node_obs := (nname * Q * Q * qext)%type.
Definition arc_obs := ((nat * nat) * (nname * nname * Q * Q))%type.
Definition obs_nodes (g : mgraph) : list node_obs :=
  map (fun n => (nm n, dem n, lo n, hi n)) (mnodes g).
Definition obs_arcs (g : mgraph) : list arc_obs :=
  map (fun kv => (fst kv, (aorig (snd kv), adest (snd kv), att (snd kv), acost (snd kv)))) (marcs g).

Definition node_obs_eqb (a b : node_obs) : bool :=
  match a, b with
  | (n1, d1, l1, h1), (n2, d2, l2, h2) =>
      nname_eqb n1 n2 && Qeq_bool d1 d2 && Qeq_bool l1 l2 && qext_eqb h1 h2
  end.
Definition arc_obs_eqb (a b : arc_obs) : bool :=
  match a, b with
  | (k1, (o1, d1, t1, c1)), (k2, (o2, d2, t2, c2)) =>
      natpair_eqb k1 k2 && nname_eqb o1 o2 && nname_eqb d1 d2 && Qeq_bool t1 t2 && Qeq_bool c1 c2
  end.
Definition pmap_eqb (a b : list (nat * list nname)) : bool :=
  list_eqb (pair_eqb Nat.eqb (list_eqb nname_eqb)) a b.
Definition mresult_eqb : mresult -> mresult -> bool :=
  result_eqb (option_eqb (list_eqb nname_eqb)).

(* state observation: nodes, arcs (dict order), supply_ports, demand_ports, port_mapping (dict order) *)
Definition sobs := (list node_obs * list arc_obs * list nat * list nat * list (nat * list nname))%type.
Definition observe_state (s : mstate) : sobs :=
  (obs_nodes (gr s), obs_arcs (gr s), sports s, dports s, pmap s).
Definition sobs_tags (m i : sobs) : list nat :=
  match m, i with
  | (n1, a1, s1, d1, p1), (n2, a2, s2, d2, p2) =>
      chk 1 (list_eqb node_obs_eqb n1 n2) ++ chk 2 (list_eqb arc_obs_eqb a1 a2) ++
      chk 3 (list_eqb Nat.eqb s1 s2) ++ chk 4 (list_eqb Nat.eqb d1 d2) ++ chk 5 (pmap_eqb p1 p2)
  end.

(* C11 cases *)
Inductive c11case :=
| CWin (size : Q) (k : nat) (init rate cap : Q) (impl : Q * Q)
    (* get_time_window(k, init, rate, cap) on a MIRP with this cargo size *)
| CNodes (size H : Q) (name : nat) (init rate cap : Q)
    (impl_res : result (list nname)) (impl_state : sobs).
    (* MIRP(size, H).add_nodes(name, init, rate, cap): value / exception, state afterwards *)

Definition check_c11case (c : c11case) : list nat :=
  match c with
  | CWin size k init rate cap (a, b) =>
      let w := window size k init rate cap in
      chk 10 (Qeq_bool (fst w) a) ++ chk 11 (Qeq_bool (snd w) b)
  | CNodes size H name init rate cap r st =>
      let m := add_nodes (init_state size H) name init rate cap in
      chk 6 (result_eqb (list_eqb nname_eqb) (snd m) r) ++ sobs_tags (observe_state (fst m)) st
  end.

(* C12 cases: cargo size, horizon, history, value of every call, final state *)
Definition c12case := (Q * Q * list mop * list mresult * sobs)%type.
Definition check_c12case (c : c12case) : list nat :=
  match c with
  | (size, H, ops, rs, st) =>
      chk 6 (list_eqb mresult_eqb (mtrace ops (init_state size H)) rs) ++
      sobs_tags (observe_state (mrun ops (init_state size H))) st
  end.
