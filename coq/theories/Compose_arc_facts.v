(* Compose_arc_facts.v -- the arc-based model (Arc.v) fed to the get_qubo model (Penalty.v).
   [C02, C03, C04 for the arc formulation; end-to-end corollaries]

   Adapter `arc_qdata`: what get_constraint_data() / get_objective_data() of ArcBasedRoutingProblem
   hand to get_qubo:
       A_eq  = constraints_matrix      -> Arc.A_dense I  with shape Arc.A_shape I = (len(b), n)
       b_eq  = constraints_rhs         -> Arc.rhs I
       Q_eq  = sparse.csr_array((n,n)) -> zero_rows n with shape (n, n),   r_eq = 0
       c     = self.objective          -> Arc.objective I
       Q     = sparse.csr_array((n,n)) -> zero_rows n with shape (n, n)
   with n = get_num_variables() = Arc.num_variables I. *)
From Coq Require Import ZArith List Bool Lia PeanoNat Sorting.Permutation.
From VQ Require Import Base LinAlg Penalty Penalty_facts Compose_facts.
From VQ Require Import Vrptw Vrptw_facts Arc Arc_facts Arc_routes.
Import ListNotations.
Open Scope Z_scope.

Definition arc_n (I : Arc.inst) : nat := Arc.num_variables I.
Definition arc_m (I : Arc.inst) : nat := length (Arc.rhs I).

Definition arc_qdata (I : Arc.inst) : qdata Z :=
  mkQdata (Arc.A_dense I) (Arc.A_shape I) (Arc.rhs I)
          (zero_rows (arc_n I)) (arc_n I, arc_n I) 0
          (Arc.objective I) (zero_rows (arc_n I)) (arc_n I, arc_n I).

(* the data as functions (the vocabulary of Penalty.v) *)
Definition arc_A (I : Arc.inst) : mat Z := Zmat_of (Arc.A_dense I).
Definition arc_b (I : Arc.inst) : vec Z := Zvec_of (Arc.rhs I).
Definition arc_R (I : Arc.inst) : mat Z := Zmat_of (zero_rows (arc_n I)).
Definition arc_c (I : Arc.inst) : vec Z := Zvec_of (Arc.objective I).
Definition arc_Qo (I : Arc.inst) : mat Z := Zmat_of (zero_rows (arc_n I)).

(* ---------- shapes ---------- *)
Lemma arc_objective_length I : length (Arc.objective I) = arc_n I.
Proof. unfold Arc.objective, arc_n. rewrite map_length, seq_length. reflexivity. Qed.

Lemma arc_A_dense_length I : length (Arc.A_dense I) = arc_m I.
Proof. unfold Arc.A_dense, Arc.A_shape, arc_m. cbn [fst snd]. rewrite map_length, seq_length. reflexivity. Qed.

Theorem arc_shapes I : shapes_consistent Z (arc_n I) (arc_qdata I).
Proof.
  unfold shapes_consistent, arc_qdata. cbn [dA_shape db dR_shape dQo_shape dc].
  split; [reflexivity|]. split; [reflexivity|]. split; [reflexivity|]. apply arc_objective_length.
Qed.

Theorem arc_dense I :
  dense_ok (dA_shape (arc_qdata I)) (dA (arc_qdata I)) /\
  dense_ok (dR_shape (arc_qdata I)) (dR (arc_qdata I)) /\
  dense_ok (dQo_shape (arc_qdata I)) (dQo (arc_qdata I)) /\
  dr (arc_qdata I) = 0.
Proof.
  unfold arc_qdata. cbn [dA dA_shape dR dR_shape dQo dQo_shape dr].
  split; [|split; [apply zero_rows_dense | split; [apply zero_rows_dense | reflexivity]]].
  unfold dense_ok, Arc.A_shape. cbn [fst snd]. split; [apply arc_A_dense_length|].
  intros row Hin. unfold Arc.A_dense, Arc.A_shape in Hin. cbn [fst snd] in Hin.
  apply in_map_iff in Hin. destruct Hin as [r [<- _]]. rewrite map_length, seq_length. reflexivity.
Qed.

Lemma arc_R_zero I i j : arc_R I i j = 0.
Proof. apply zero_rows_entry. Qed.
Lemma arc_Qo_zero I i j : arc_Qo I i j = 0.
Proof. apply zero_rows_entry. Qed.

(* ---------- list sums of Arc.v as the sums of LinAlg ---------- *)
Lemma sumz_sumZ l : Arc.sumz l = sumZ l.
Proof. induction l as [|x l IH]; [reflexivity|]. cbn [Arc.sumz]. rewrite IH. reflexivity. Qed.

Lemma sumz_seq n f : Arc.sumz (map f (seq 0 n)) = sumZn n f.
Proof. rewrite sumz_sumZ. apply sumZ_seq. Qed.

Lemma dotn_sum n u xl : Arc.dotn n u xl = sumZn n (fun k => nth k u 0 * nth k xl 0).
Proof. unfold Arc.dotn. apply sumz_seq. Qed.

(* (A x)_r of Penalty.v is the r-th entry of Arc.Ax on the tabulated vector *)
Lemma arc_mv I x r :
  (r < arc_m I)%nat ->
  Zmv (arc_n I) (arc_A I) x r = nth r (Arc.Ax I (tab (arc_n I) x)) 0.
Proof.
  intros Hr. unfold Arc.Ax. fold (arc_n I).
  rewrite (nth_map_dflt _ (Arc.A_dense I) [] 0 r) by (rewrite arc_A_dense_length; exact Hr).
  rewrite dotn_sum. unfold Zmv, mv, arc_A, Zmat_of, mat_of.
  apply sumZn_ext. intros j Hj. rewrite tab_nth by exact Hj. reflexivity.
Qed.

Lemma arc_Ax_iff I x :
  Arc.Ax I (tab (arc_n I) x) = Arc.rhs I <->
  forall r, (r < arc_m I)%nat -> Zmv (arc_n I) (arc_A I) x r = arc_b I r.
Proof.
  split.
  - intros E r Hr. rewrite arc_mv by exact Hr. rewrite E. reflexivity.
  - intros H. apply (nth_ext _ _ 0 0); [apply Ax_length|].
    intros r Hr. rewrite Ax_length in Hr. rewrite <- arc_mv by exact Hr. apply H. exact Hr.
Qed.

Lemma arc_feasible_iff I x :
  Zfeasible (arc_m I) (arc_n I) (arc_A I) (arc_b I) (arc_R I) x <->
  Arc.Ax I (tab (arc_n I) x) = Arc.rhs I.
Proof. rewrite (Zfeasible_zero_R _ _ _ _ _ _ (arc_R_zero I)). symmetry. apply arc_Ax_iff. Qed.

Lemma arc_dot I x : Zdot (arc_n I) (arc_c I) x = Arc.obj_value I (tab (arc_n I) x).
Proof.
  unfold Arc.obj_value. fold (arc_n I). rewrite dotn_sum. unfold Zdot, dot, arc_c, Zvec_of, vec_of.
  apply sumZn_ext. intros j Hj. rewrite tab_nth by exact Hj. reflexivity.
Qed.

Lemma arc_objective_eq I x :
  Zobjective (arc_n I) (arc_c I) (arc_Qo I) x = Arc.obj_value I (tab (arc_n I) x).
Proof. rewrite (Zobjective_linear _ _ _ _ (arc_Qo_zero I)). apply arc_dot. Qed.

(* hypotheses of the Arc theorems for a tabulated binary vector *)
Lemma arc_tab_length I x : length (tab (arc_n I) x) = Arc.num_variables I.
Proof. apply tab_length. Qed.
Lemma arc_tab_binary I x : Zbinary (arc_n I) x -> Arc_facts.binary (tab (arc_n I) x).
Proof. apply binL_tab. Qed.

(* ====================================================================== *)
(* C03: feasibility QUBO of the arc model                                   *)
(* ====================================================================== *)
(* x'Qx + k for (Q, k) = get_qubo(feasibility=True, penalty_parameter=None) on the arc data *)
Definition arc_feas_value (I : Arc.inst) (S : Z) (x : vec Z) : Z :=
  Zqubo_value (arc_n I)
    (Zget_qubo (arc_m I) true (Zchoose_rho true S None) (arc_A I, arc_b I, arc_R I) (arc_c I, arc_Qo I)) x.

Lemma arc_R_nonneg I : R_nonneg (arc_n I) (arc_R I).
Proof. apply R_nonneg_zero_mat. apply arc_R_zero. Qed.

Theorem arc_feas_nonneg I S x : Zbinary (arc_n I) x -> 0 <= arc_feas_value I S x.
Proof. intros Hb. exact (feas_value_nonneg _ _ _ _ _ _ _ S (arc_R_nonneg I) x Hb). Qed.

Theorem arc_feas_zero_iff I S x :
  Zbinary (arc_n I) x ->
  (arc_feas_value I S x = 0 <-> Arc.Ax I (tab (arc_n I) x) = Arc.rhs I).
Proof.
  intros Hb. rewrite <- arc_feasible_iff.
  exact (feas_value_zero_iff _ _ _ _ _ (arc_c I) (arc_Qo I) S (arc_R_nonneg I) x Hb).
Qed.

(* zero energy -> route decomposition (C05_sound on the tabulated vector) *)
Theorem arc_zero_routes I S x :
  Inv (ig I) -> NoDup (igrid I) -> pos_cc I -> Zbinary (arc_n I) x ->
  arc_feas_value I S x = 0 ->
  exists routes : list (list Arc.var),
    Permutation (Arc.selected I (tab (arc_n I) x)) (concat routes) /\ Forall sroute routes /\
    Forall (valid_move I) (concat routes) /\
    forall j, (1 <= j < length (nodes (ig I)))%nat -> cnt (into_node j) (concat routes) = 1%nat.
Proof.
  intros HI Hg Hpos Hb E0. apply arc_feas_zero_iff in E0; [|exact Hb].
  apply sound_of_local; [apply Inv_wf; exact HI | exact Hpos | apply arc_tab_length |].
  apply local_iff; [exact Hg | apply arc_tab_length | apply arc_tab_binary; exact Hb | exact E0].
Qed.

(* route decomposition -> zero energy (C05_routes_feasible) *)
Theorem arc_routes_zero I S x routes :
  NoDup (igrid I) -> Zbinary (arc_n I) x ->
  Permutation (Arc.selected I (tab (arc_n I) x)) (concat routes) -> Forall walk routes ->
  (forall j, (1 <= j < length (nodes (ig I)))%nat -> cnt (into_node j) (concat routes) = 1%nat) ->
  arc_feas_value I S x = 0.
Proof.
  intros Hg Hb Hp Hw Hc. apply arc_feas_zero_iff; [exact Hb|].
  apply local_iff; [exact Hg | apply arc_tab_length | apply arc_tab_binary; exact Hb |].
  eapply local_of_walks; eassumption.
Qed.

(* ====================================================================== *)
(* C04: the sufficient penalty of the arc model dominates its coefficients  *)
(* ====================================================================== *)
(* arc.get_cost() for arc in self.arcs.values() *)
Definition arc_costs (I : Arc.inst) : list Z := map (fun kv : (nat * nat) * arc => acost (snd kv)) (arcs (ig I)).
(* get_sufficient_penalty(False) = sum |cost| * len(self.time_points)**2 *)
Definition arc_S (I : Arc.inst) : Z := S_arc (arc_costs I) (length (Arc.tp I)).

Lemma out_t_length i s j trav lo hi t : (length (out_t i s j trav lo hi t) <= 1)%nat.
Proof. unfold out_t. destruct (_ && _); cbn; lia. Qed.

Lemma out_s_length g tps i j s : (length (out_s g tps i j s) <= length tps)%nat.
Proof.
  unfold out_s. destruct (inwin _ _ s); [|cbn; lia].
  eapply Nat.le_trans; [apply (length_flat_map_le _ tps 1)|lia].
  intros t _. apply out_t_length.
Qed.

Lemma out_arc_length g tps k : (length (out_arc g tps k) <= length tps * length tps)%nat.
Proof. unfold out_arc. apply length_flat_map_le. intros s _. apply out_s_length. Qed.

Lemma out_arc_cost I kv v :
  NoDup (map fst (arcs (ig I))) -> In kv (arcs (ig I)) -> In v (out_arc (ig I) (Arc.tp I) (fst kv)) ->
  move_cost I v = acost (snd kv).
Proof.
  intros Hk Hkv Hv. apply in_out_arc in Hv. destruct Hv as (s & t & -> & _).
  unfold move_cost, onode, dnode, orig, dest. cbn [fst snd]. unfold arc_at.
  destruct kv as [[i j] a]. cbn [fst snd].
  rewrite (In_dict_get_NoDup (i, j) (arcs (ig I)) a Hk Hkv). reflexivity.
Qed.

(* the k-th objective coefficient is the cost of the arc of the k-th variable *)
Lemma arc_c_nth I k :
  (k < arc_n I)%nat -> arc_c I k = move_cost I (nth k (Arc.vars I) (O, 0, O, 0)).
Proof.
  intros Hk. unfold arc_c, Zvec_of, vec_of, Arc.objective. fold (arc_n I).
  rewrite (nth_map_dflt _ (seq 0 (arc_n I)) O 0 k) by (rewrite seq_length; exact Hk).
  rewrite seq_nth by exact Hk. cbn [plus].
  unfold arc_n in Hk. rewrite num_variables_length in Hk.
  destruct (nth_error (Arc.vars I) k) as [v|] eqn:E.
  - assert (E' : nth k (Arc.vars I) (O, 0, O, 0) = v) by (apply nth_error_nth; exact E).
    rewrite E'. reflexivity.
  - apply nth_error_None in E. lia.
Qed.

Theorem arc_coeff_bound I :
  NoDup (map fst (arcs (ig I))) ->
  coeff_sum (arc_n I) (arc_c I) (arc_Qo I) <= arc_S I.
Proof.
  intros Hk. rewrite (coeff_sum_zero_mat _ _ _ (arc_Qo_zero I)).
  rewrite (sumZn_ext _ _ (fun k => Z.abs (move_cost I (nth k (Arc.vars I) (O, 0, O, 0)))))
    by (intros k Hk'; rewrite arc_c_nth by exact Hk'; reflexivity).
  unfold arc_n. rewrite num_variables_length.
  rewrite <- (sumZ_nth (fun v => Z.abs (move_cost I v)) (Arc.vars I) (O, 0, O, 0)).
  rewrite vars_eq_spec. unfold vars_spec. rewrite map_flat_map', sumZ_flat_map.
  unfold arc_S, S_arc, arc_costs. rewrite map_map.
  set (T := Z.of_nat (length (Arc.tp I)) * Z.of_nat (length (Arc.tp I))).
  rewrite Z.mul_comm, <- sumZ_map_scal.
  apply sumZ_map_le. intros kv Hkv.
  rewrite (sumZ_map_ext _ (fun _ => Z.abs (acost (snd kv))))
    by (intros v Hv; rewrite (out_arc_cost I kv v Hk Hkv Hv); reflexivity).
  rewrite sumZ_map_const.
  assert (Hlen := out_arc_length (ig I) (Arc.tp I) (fst kv)).
  assert (Hle : Z.of_nat (length (out_arc (ig I) (Arc.tp I) (fst kv))) <= T) by (unfold T; nia).
  assert (0 <= Z.abs (acost (snd kv))) by apply Z.abs_nonneg. nia.
Qed.

(* ---------- default-penalty QUBO of the arc model ---------- *)
Definition arc_default_value (I : Arc.inst) (x : vec Z) : Z :=
  Zqubo_value (arc_n I)
    (Zget_qubo (arc_m I) false (Zchoose_rho false (arc_S I) None) (arc_A I, arc_b I, arc_R I) (arc_c I, arc_Qo I)) x.

Definition arc_qubo_min (I : Arc.inst) (x : vec Z) : Prop :=
  Zbinary (arc_n I) x /\ forall y, Zbinary (arc_n I) y -> arc_default_value I x <= arc_default_value I y.

(* optimal solution of  min c.x  s.t.  A x = b  over binary x, in the vocabulary of Arc.v *)
Definition arc_opt (I : Arc.inst) (x : vec Z) : Prop :=
  Zbinary (arc_n I) x /\ Arc.Ax I (tab (arc_n I) x) = Arc.rhs I /\
  forall y, Zbinary (arc_n I) y -> Arc.Ax I (tab (arc_n I) y) = Arc.rhs I ->
            Arc.obj_value I (tab (arc_n I) x) <= Arc.obj_value I (tab (arc_n I) y).

Lemma arc_opt_iff I x :
  is_constrained_opt (arc_n I) (arc_m I) (arc_A I) (arc_b I) (arc_R I) (arc_c I) (arc_Qo I) x <-> arc_opt I x.
Proof.
  unfold is_constrained_opt, arc_opt. split.
  - intros [Hb [Hf Hopt]]. split; [exact Hb|]. split; [apply arc_feasible_iff; exact Hf|].
    intros y Hy Hfy. rewrite <- !arc_objective_eq. apply Hopt; [exact Hy | apply arc_feasible_iff; exact Hfy].
  - intros [Hb [Hf Hopt]]. split; [exact Hb|]. split; [apply arc_feasible_iff; exact Hf|].
    intros y Hy Hfy. rewrite !arc_objective_eq. apply Hopt; [exact Hy | apply arc_feasible_iff; exact Hfy].
Qed.

Theorem arc_exact I :
  NoDup (map fst (arcs (ig I))) ->
  (exists z, Zbinary (arc_n I) z /\ Arc.Ax I (tab (arc_n I) z) = Arc.rhs I) ->
  (forall x, arc_qubo_min I x <-> arc_opt I x) /\
  (forall x y, arc_qubo_min I x -> arc_opt I y ->
               arc_default_value I x = Arc.obj_value I (tab (arc_n I) y)).
Proof.
  intros Hk [z [Hbz Hfz]].
  destruct (default_exact (arc_n I) (arc_m I) (arc_A I) (arc_b I) (arc_R I) (arc_c I) (arc_Qo I) (arc_S I)
              (arc_R_nonneg I) (arc_coeff_bound I Hk)) as [H1 H2].
  { exists z. split; [exact Hbz | apply arc_feasible_iff; exact Hfz]. }
  split.
  - intros x. rewrite <- arc_opt_iff. exact (H1 x).
  - intros x y Hx Hy. rewrite <- arc_objective_eq. apply H2; [exact Hx | apply arc_opt_iff; exact Hy].
Qed.

(* ====================================================================== *)
(* end to end: a minimiser of the default-penalty QUBO decodes into routes   *)
(* ====================================================================== *)
Lemma sumz_perm l l' : Permutation l l' -> Arc.sumz l = Arc.sumz l'.
Proof. intros H. rewrite !sumz_sumZ. apply sumZ_perm. exact H. Qed.

Theorem arc_e2e I x :
  Inv (ig I) -> NoDup (igrid I) -> pos_cc I ->
  (exists z, Zbinary (arc_n I) z /\ Arc.Ax I (tab (arc_n I) z) = Arc.rhs I) ->
  arc_qubo_min I x ->
  exists mss : list (list Arc.var),
    Arc.decode I (tab (arc_n I) x) = Ok (map route_of mss) /\
    Permutation (Arc.selected I (tab (arc_n I) x)) (concat mss) /\
    Forall walk mss /\
    Forall sroute (flat_map split_depot mss) /\ concat (flat_map split_depot mss) = concat mss /\
    Forall (valid_move I) (concat mss) /\
    (forall j, (1 <= j < length (nodes (ig I)))%nat -> cnt (into_node j) (concat mss) = 1%nat) /\
    Arc.sumz (map (move_cost I) (concat mss)) = arc_default_value I x /\
    (forall y, Zbinary (arc_n I) y -> arc_default_value I x <= arc_default_value I y).
Proof.
  intros HI Hg Hpos Hex Hmin.
  assert (Hk : NoDup (map fst (arcs (ig I)))) by (apply (inv_keys _ HI)).
  destruct (arc_exact I Hk Hex) as [Hsets Hval].
  assert (Hopt : arc_opt I x) by (apply Hsets; exact Hmin).
  destruct Hopt as [Hb [HA Hbest]].
  set (xl := tab (arc_n I) x) in *.
  assert (Hl : length xl = Arc.num_variables I) by apply arc_tab_length.
  assert (Hbl : Arc_facts.binary xl) by (apply arc_tab_binary; exact Hb).
  assert (HL : local_form I xl) by (apply local_iff; assumption).
  destruct (decode_of_local I (Inv_wf _ HI) Hpos xl Hl HL) as (mss & E & Hp & Hw).
  exists mss. split; [exact E|]. split; [exact Hp|]. split; [exact Hw|].
  split.
  { apply Forall_forall. intros r Hr. apply in_flat_map in Hr. destruct Hr as (ms & Hms & Hr).
    rewrite Forall_forall in Hw. pose proof (split_depot_walk ms (Hw ms Hms)) as Hs.
    rewrite Forall_forall in Hs. apply Hs; exact Hr. }
  split; [apply concat_flat_map_split|].
  split.
  { apply Forall_forall. intros v Hv. apply vars_exact. apply (selected_in_vars I xl).
    eapply Permutation_in; [symmetry; exact Hp | exact Hv]. }
  split.
  { intros j Hj. rewrite <- (cnt_perm _ _ _ Hp). destruct (HL j Hj) as (t & H1 & _). exact H1. }
  split.
  { rewrite (Hval x x Hmin (conj Hb (conj HA Hbest))). fold xl.
    rewrite (objective_selected I xl Hl Hbl).
    apply sumz_perm. apply Permutation_map. symmetry. exact Hp. }
  exact (proj2 Hmin).
Qed.

(* ====================================================================== *)
(* the structure hypotheses of Penalty's counting lemma C04_S_arc, from the model *)
(* ====================================================================== *)
(* position of an arc key in arcs.keys() (= position of its cost in arc_costs) *)
Definition key_index (g : graph) (k : nat * nat) : nat :=
  match Arc.find_index natpair_eqb k (map fst (arcs g)) with Some a => a | None => O end.

(* variable k of the model as (arc index, s, t) *)
Definition arc_avars (I : Arc.inst) : list avar :=
  map (fun v => (key_index (ig I) (onode v, dnode v), dep v, arr v)) (Arc.vars I).

Lemma key_index_spec I v :
  NoDup (map fst (arcs (ig I))) -> In v (Arc.vars I) ->
  (key_index (ig I) (onode v, dnode v) < length (arc_costs I))%nat /\
  nth_error (map fst (arcs (ig I))) (key_index (ig I) (onode v, dnode v)) = Some (onode v, dnode v) /\
  nth (key_index (ig I) (onode v, dnode v)) (arc_costs I) 0 = move_cost I v.
Proof.
  intros Hk Hv. apply vars_exact in Hv. destruct v as [[[i s] j] t].
  destruct Hv as (a & Ha & _). unfold onode, dnode, orig, dest. cbn [fst snd].
  assert (Hin : In (i, j) (map fst (arcs (ig I)))).
  { apply in_map_iff. exists ((i, j), a). split; [reflexivity | apply dict_get_In; exact Ha]. }
  destruct (find_index_In natpair_eqb natpair_eqb_eq (i, j) _ Hin) as [idx Eidx].
  unfold key_index. rewrite Eidx.
  pose proof (find_index_Some natpair_eqb natpair_eqb_eq _ _ _ Eidx) as Hnth.
  pose proof (find_index_lt natpair_eqb natpair_eqb_eq _ _ _ Eidx) as Hlt. rewrite map_length in Hlt.
  split; [unfold arc_costs; rewrite map_length; exact Hlt|]. split; [exact Hnth|].
  destruct (nth_error (arcs (ig I)) idx) as [[k' a']|] eqn:En; [|apply nth_error_None in En; lia].
  rewrite (map_nth_error fst _ _ En) in Hnth. cbn [fst] in Hnth. inversion Hnth; subst k'.
  unfold arc_costs. rewrite (nth_map_dflt _ (arcs (ig I)) ((O, O), dummy_arc) 0 idx Hlt).
  rewrite (nth_error_nth _ _ ((O, O), dummy_arc) _ En). cbn [snd].
  unfold move_cost, onode, dnode, orig, dest, arc_at. cbn [fst snd].
  assert (Ha' : dict_get (i, j) (arcs (ig I)) = Some a').
  { apply In_dict_get_NoDup; [exact Hk | eapply nth_error_In; exact En]. }
  rewrite Ha'. reflexivity.
Qed.

Theorem arc_structure I :
  NoDup (igrid I) -> NoDup (map fst (arcs (ig I))) ->
  length (arc_avars I) = arc_n I /\ NoDup (arc_avars I) /\
  (forall a s t, In (a, s, t) (arc_avars I) ->
                 (a < length (arc_costs I))%nat /\ In s (Arc.tp I) /\ In t (Arc.tp I)) /\
  (forall k, (k < arc_n I)%nat -> arc_c I k = arc_obj (arc_costs I) (arc_avars I) k).
Proof.
  intros Hg Hk. split; [|split; [|split]].
  - unfold arc_avars, arc_n. rewrite map_length. symmetry. apply num_variables_length.
  - unfold arc_avars. apply NoDup_map_inj_in; [apply vars_NoDup; assumption|].
    intros v w Hv Hw E. inversion E as [[E1 E2 E3]].
    destruct (key_index_spec I v Hk Hv) as (_ & Nv & _).
    destruct (key_index_spec I w Hk Hw) as (_ & Nw & _).
    rewrite E1 in Nv. rewrite Nv in Nw. inversion Nw as [[F1 F2]].
    destruct v as [[[i s] j] t], w as [[[i' s'] j'] t'].
    unfold onode, dnode, dep, arr, orig, dest in *. cbn [fst snd] in *. subst. reflexivity.
  - intros a s t Hin. unfold arc_avars in Hin. apply in_map_iff in Hin. destruct Hin as [v [E Hv]].
    inversion E; subst a s t. destruct (key_index_spec I v Hk Hv) as (Hlt & _ & _).
    split; [exact Hlt|]. apply vars_exact in Hv. destruct v as [[[i s] j] t].
    destruct Hv as (a & _ & Hs & Ht & _). unfold dep, arr, orig, dest. cbn [fst snd].
    split; apply tp_In; assumption.
  - intros k Hk'. rewrite arc_c_nth by exact Hk'. unfold arc_obj, arc_avars, avar_arc.
    unfold arc_n in Hk'. rewrite num_variables_length in Hk'.
    rewrite (nth_map_dflt _ (Arc.vars I) (O, 0, O, 0) (O, 0, 0) k Hk'). cbn [fst].
    symmetry. apply key_index_spec; [exact Hk | apply nth_In; exact Hk'].
Qed.

(* ... hence Penalty's counting lemma applies (second derivation of the bound, for duplicate-free grids) *)
Corollary arc_coeff_bound_via_structure I :
  NoDup (igrid I) -> NoDup (map fst (arcs (ig I))) ->
  coeff_sum (arc_n I) (arc_c I) (arc_Qo I) <= arc_S I.
Proof.
  intros Hg Hk. destruct (arc_structure I Hg Hk) as (Hlen & Hnd & Hin & Hc).
  pose proof (S_arc_bounds_coeff_sum (arc_costs I) (Arc.tp I) (arc_avars I) Hnd Hin) as H.
  rewrite Hlen in H. unfold arc_S. eapply Z.le_trans; [|exact H].
  apply Z.eq_le_incl. rewrite (coeff_sum_zero_mat _ _ _ (arc_Qo_zero I)), coeff_sum_linear.
  apply sumZn_ext. intros k Hk'. rewrite (Hc k Hk'). reflexivity.
Qed.

(* ====================================================================== *)
(* C02: the penalty and the builder's output in the vocabulary of Arc.v     *)
(* ====================================================================== *)
Lemma arc_penalty_eq I x :
  Zpenalty (arc_m I) (arc_n I) (arc_A I) (arc_b I) (arc_R I) x =
  sumZn (arc_m I) (fun r => (nth r (Arc.Ax I (tab (arc_n I) x)) 0 - nth r (Arc.rhs I) 0)
                            * (nth r (Arc.Ax I (tab (arc_n I) x)) 0 - nth r (Arc.rhs I) 0)).
Proof.
  unfold Zpenalty, penalty.
  pose proof (Zqf_zero_mat (arc_n I) (arc_R I) x (arc_R_zero I)) as Hq. unfold Zqf in Hq. rewrite Hq.
  rewrite Z.add_0_r. unfold resid_sq. apply sumZn_ext. intros r Hr.
  pose proof (arc_mv I x r Hr) as Hm. unfold Zmv in Hm. rewrite Hm. reflexivity.
Qed.

(* get_qubo(feasibility, penalty_parameter) on the arc model: always Ok, with the n x n tabulation of
   the matrix that the C03 / C04 statements evaluate *)
Theorem arc_builder_output I feas pp S :
  Zget_qubo_impl feas pp S (arc_qdata I) =
  let Qk := Zget_qubo (arc_m I) feas (Zchoose_rho feas S pp) (arc_A I, arc_b I, arc_R I) (arc_c I, arc_Qo I) in
  Ok (arc_n I, mat_tab Z (arc_n I) (arc_n I) (fst Qk), snd Qk).
Proof.
  unfold Zget_qubo_impl, get_qubo_impl.
  exact (checked_ok_explicit Z 0 1 Z.add Z.mul Z.opp Z.eqb Z.eqb_eq (arc_n I) feas _ (arc_qdata I)
           eq_refl (arc_shapes I)).
Qed.

(* the dimension clause and the identity on the returned matrix, for every instance, mode and rho *)
Theorem arc_dims I feas rho :
  exists Q k,
    Zget_qubo_checked feas rho (arc_qdata I) = Ok (arc_n I, Q, k) /\
    length Q = arc_n I /\ (forall row, In row Q -> length row = arc_n I) /\
    forall x, Zbinary (arc_n I) x ->
      Zqf (arc_n I) (Zmat_of Q) x + k =
      (if feas then 0 else Arc.obj_value I (tab (arc_n I) x))
      + rho * sumZn (arc_m I)
                (fun r => (nth r (Arc.Ax I (tab (arc_n I) x)) 0 - nth r (Arc.rhs I) 0)
                          * (nth r (Arc.Ax I (tab (arc_n I) x)) 0 - nth r (Arc.rhs I) 0)).
Proof.
  destruct (checked_identity Z 0 1 Z.add Z.mul Z.sub Z.opp Zth Z.eqb Z.eqb_eq (arc_n I) feas rho
              (arc_qdata I) eq_refl (arc_shapes I)) as (Q & k & E & L1 & L2 & Hid).
  exists Q, k. split; [exact E|]. split; [exact L1|]. split; [exact L2|].
  intros x Hb.
  assert (H : Zqf (arc_n I) (Zmat_of Q) x + k =
              (if feas then 0 else Zobjective (arc_n I) (arc_c I) (arc_Qo I) x)
              + rho * Zpenalty (arc_m I) (arc_n I) (arc_A I) (arc_b I) (arc_R I) x) by exact (Hid x Hb).
  rewrite arc_penalty_eq, arc_objective_eq in H. exact H.
Qed.
