(* PyArc.v -- the object state and the class-specific combinators of the model GENERATED from
   routing_problem/formulations/arc_based_rp.py (coq/gen/ArcGen.v, written on every run by
   harness/translate_arcenum.py).  Definitions only.  Generic loop / list / exception combinators:
   PyEnumCore.v.  Lemmas: PyArc_facts.v.  Theorems about the generated definitions:
   coq/genprops/C18_arc_gen.v.   [C18 arc half, C05]

   An ArcBasedRoutingProblem object is the record `astate`: the graph it shares with its VRPTW
   (self.nodes, self.arcs -- read only in the translated methods) and the four attributes the
   translated methods assign.  A method is a function `astate -> args -> astate * result-value`
   (methods that assign nothing return the value only).

   Conventions taken over from the hand model Arc.v, so that both sides have the same type:
   * self.nodes[i]  is  py_nodes_item self i = Arc.node_at (nth with Vrptw.dummy_node): arc keys of a
     graph built through the VRPTW class are node positions (Vrptw_facts.Inv);
   * self.arcs[k]   is  py_arcs_item self k = Arc.arc_at (Arc.dummy_arc on a miss): the translated
     methods subscript self.arcs only with keys they iterate over or have tested;
   * self.time_points[k] is nth k _ 0 (the only use is behind `if not any(...)`);
   * arc.get_destination() is the Node object the Arc was built with; Vrptw.arc keeps its name, so the
     node is looked up by name (py_node_named). *)
From VQ Require Export Base Vrptw Arc PyEnumCore.

Record astate := mkAS {
  s_graph : graph;                   (* self.vrptw: node_names, nodes, arcs *)
  s_time_points : list Z;            (* self.time_points (an ndarray after add_time_points) *)
  s_var_mapping : list var;          (* self.var_mapping *)
  s_num_variables : nat;             (* self.num_variables *)
  s_variables_enumerated : bool      (* self.variables_enumerated *)
}.

(* self.<attr> = v *)
Definition set_time_points (v : list Z) (s : astate) : astate :=
  mkAS (s_graph s) v (s_var_mapping s) (s_num_variables s) (s_variables_enumerated s).
Definition set_var_mapping (v : list var) (s : astate) : astate :=
  mkAS (s_graph s) (s_time_points s) v (s_num_variables s) (s_variables_enumerated s).
Definition set_num_variables (v : nat) (s : astate) : astate :=
  mkAS (s_graph s) (s_time_points s) (s_var_mapping s) v (s_variables_enumerated s).
Definition set_variables_enumerated (v : bool) (s : astate) : astate :=
  mkAS (s_graph s) (s_time_points s) (s_var_mapping s) (s_num_variables s) v.

(* self.nodes, self.arcs *)
Definition py_nodes (s : astate) : list node := nodes (s_graph s).
Definition py_arcs (s : astate) : dict arc := arcs (s_graph s).
Definition py_nodes_item (s : astate) (i : nat) : node := node_at (s_graph s) i.
Definition py_arcs_item (s : astate) (k : nat * nat) : arc := arc_at (s_graph s) (fst k) (snd k).
Definition py_time_points_item (s : astate) (k : nat) : Z := nth k (s_time_points s) 0.

(* Node.get_window(), Arc.get_travel_time(), Arc.get_cost(), Arc.get_origin()/get_destination() *)
Definition py_get_window (n : node) : Z * ext := (nlo n, nhi n).
Definition py_get_travel_time (a : arc) : Z := att a.
Definition py_get_cost (a : arc) : Z := acost a.
Definition py_node_named (s : astate) (nm : nat) : node :=
  match find (fun n => Nat.eqb (nname n) nm) (py_nodes s) with Some n => n | None => dummy_node end.
Definition py_get_origin (s : astate) (a : arc) : node := py_node_named s (aorig a).
Definition py_get_destination (s : astate) (a : arc) : node := py_node_named s (adest a).

(* np.sort: a sort of the values, duplicates kept (the hand model's sortZ);
   np.unique: sorted, duplicates dropped *)
Definition np_sort (l : list Z) : list Z := sortZ l.
Fixpoint drop_adjacent (l : list Z) : list Z :=
  match l with
  | [] => []
  | x :: l' => match l' with
               | [] => [x]
               | y :: _ => if x =? y then drop_adjacent l' else x :: drop_adjacent l'
               end
  end.
Definition np_unique (l : list Z) : list Z := drop_adjacent (sortZ l).

(* ---------- vocabulary of the theorems in genprops/C18_arc_gen.v ---------- *)
(* the object holds the problem I: its graph, and the grid as add_time_points stores it *)
Definition arc_holds (self : astate) (I : inst) : Prop :=
  s_graph self = ig I /\ s_time_points self = tp I.

(* the cache discipline of the class: when the flag is set, the maps are those of the problem *)
Definition arc_coherent (self : astate) (I : inst) : Prop :=
  s_variables_enumerated self = true ->
  s_var_mapping self = vars I /\ s_num_variables self = num_variables I.

(* the state after a successful enumeration *)
Definition arc_enumerated (self : astate) (I : inst) : astate :=
  set_variables_enumerated true (set_num_variables (num_variables I) (set_var_mapping (vars I) self)).

(* loop state (self, num_vars) of the generated loops <-> loop state (var_mapping, num_vars) of Arc.v *)
Definition arc_lift (self0 : astate) (e : estate) : astate * nat :=
  (set_var_mapping (fst e) self0, snd e).

(* ---------- what enumerate_variables_exhaustive appends (the alternative, currently unused,
   enumeration: loops over i, s, j, t with `continue` only) ---------- *)
Definition exh_t (g : graph) (i : nat) (s : Z) (j : nat) (t : Z) : list var :=
  if compat g j t && (s + att (arc_at g i j) <=? t) then [(i, s, j, t)] else [].
Definition exh_j (g : graph) (tps : list Z) (i : nat) (s : Z) (j : nat) : list var :=
  if dict_mem (i, j) (arcs g) then flat_map (exh_t g i s j) tps else [].
Definition exh_s (g : graph) (tps : list Z) (i : nat) (s : Z) : list var :=
  if compat g i s then flat_map (exh_j g tps i s) (seq 0 (length (nodes g))) else [].
Definition exh_i (g : graph) (tps : list Z) (i : nat) : list var := flat_map (exh_s g tps i) tps.
Definition exh_spec (g : graph) (tps : list Z) : list var :=
  flat_map (exh_i g tps) (seq 0 (length (nodes g))).
