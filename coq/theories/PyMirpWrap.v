(* PyMirpWrap.v -- the combinators into which harness/translate_mirpwrap.py prints the three formulation
   getters of applications/mirp.py (MIRP.get_arc_based, get_path_based with its nested time_costs,
   get_sequence_based).  Definitions only; the generated file coq/gen/MirpWrapGen.v uses these names (they
   shadow the like-named combinators of PyMirp.v: same printer, larger object), and
   coq/genprops/C09_wrap_gen.v proves the generated getters equal to the hand model MirpWrap.v.

   The object is `xstate`: the MIRP object of PyMirp.v (MirpWrap.wstate) plus the three cache fields
   self.abrp / self.pbrp / self.sbrp (None or a reference to a formulation object), a counter for new
   references, and the LOG of everything the getters do to the outside: formulation objects created (with the
   graph value they copy), the calls made on them with their arguments, and calls of np.random.seed.  The
   formulation classes themselves are not modelled here (Arc.v / Path.v / Seq.v / Heur*.v are); the log is
   what the hand model MirpWrap.v speaks about: the time grid handed to add_time_points, the vehicle count
   and sequence length, the exploration rounds, the high cost handed to make_feasible. *)
From Coq Require Import QArith Qround Qabs List ZArith.
From VQ Require Import Base Mirp Rng MirpWrap PyMirp.
Import ListNotations.
Local Open Scope Q_scope.

(* ---------- the object ---------- *)
Inductive fkind := FArc | FPath | FSeq.
Inductive wev :=
| EvNew (k : fkind) (id : nat) (g : mgraph) (strict : option bool)   (* id = K(self.vrptw[, strict]) *)
| EvTimePoints (id : nat) (tp : list Z)                             (* <id>.add_time_points(tp) *)
| EvMaxVehicles (id : nat) (v : nat)                                (* <id>.set_max_vehicles(v) *)
| EvMaxSeqLen (id : nat) (l : Z)                                    (* <id>.set_max_sequence_length(l) *)
| EvRoutes (id : nat) (explore : qext) (nc : list Q) (tc : Q -> Q)  (* <id>.add_routes_better(explore, nc, tc) *)
| EvFeasible (id : nat) (h : Q)                                     (* <id>.make_feasible(h) *)
| EvSeed (s : option Z).                                            (* np.random.seed(s) *)

Record xstate := mkXS {
  xw : wstate;
  xabrp : option nat; xpbrp : option nat; xsbrp : option nat;
  xnext : nat;
  xlog : list wev }.

(* ---------- statements ---------- *)
Definition M (A : Type) : Type := xstate -> xstate * result A.
Definition ret {A} (a : A) : M A := fun x => (x, Ok a).
Definition raise {A} (e : errcls) : M A := fun x => (x, Err e).
Definition bind {A B} (m : M A) (f : A -> M B) : M B :=
  fun x => match m x with
           | (x', Ok a) => f a x'
           | (x', Err e) => (x', Err e)
           end.
(* a method of the MIRP object proper (PyMirp.M): self.estimate_high_cost() *)
Definition liftM {A} (m : PyMirp.M A) : M A :=
  fun x => (mkXS (fst (m (xw x))) (xabrp x) (xpbrp x) (xsbrp x) (xnext x) (xlog x), snd (m (xw x))).
Definition rd {A} (f : wstate -> A) : M A := fun x => (x, Ok (f (xw x))).
Definition emit (e : wev) : M unit :=
  fun x => (mkXS (xw x) (xabrp x) (xpbrp x) (xsbrp x) (xnext x) (xlog x ++ [e]), Ok tt).

(* `for x in l: body` (the list is evaluated once; ctl / Continue / Break are those of PyMirp.v) *)
Fixpoint for_each {A C} (l : list A) (body : A -> C -> M (ctl C)) (c : C) : M C :=
  match l with
  | [] => ret c
  | a :: t => bind (body a c) (fun r => match r with
                                        | Break c' => ret c'
                                        | Continue c' => for_each t body c'
                                        end)
  end.

(* ---------- numbers ---------- *)
Definition q_div (a b : Q) : M Q := if Qeq_bool b 0 then raise OtherError else ret (a / b).
(* np.isinf / np.ceil / np.floor on a window end (possibly np.inf) / start; np.floor(inf) is inf and would make
   np.arange raise -- the getter tests np.isinf first, the value given here is never used *)
Definition np_isinf (x : qext) : bool := match x with QInf => true | QFin _ => false end.
Definition np_ceil (x : Q) : Z := Qceiling x.
Definition np_floor (x : Q) : Z := Qfloor x.
Definition np_floor_ext (x : qext) : Z := match x with QFin b => Qfloor b | QInf => 0%Z end.
(* np.arange(a, b) on integral bounds: a, a+1, .., b-1 ; .tolist() *)
Definition np_arange (a b : Z) : list Z := map (fun i => (a + Z.of_nat i)%Z) (seq 0 (Z.to_nat (b - a))).
Definition np_tolist (l : list Z) : list Z := l.
(* set(l): the distinct elements; list(s): in the set's iteration order -- unspecified: the model takes the
   identity (C09w_grid_order_independent: the sorted result is the same for every order); l.sort() *)
Definition py_set (l : list Z) : list Z := dedup l.
Definition py_list (l : list Z) : list Z := l.
Definition py_sort (l : list Z) : list Z := isort l.
(* int(x): truncation towards zero; len(l); [v]*n; zip(a, b); range(n) *)
Definition py_int (x : Q) : Z := Qtrunc x.
Definition py_len {A} (l : list A) : nat := length l.
Definition list_mul {A} (l : list A) (n : nat) : list A := concat (repeat l n).
Definition py_zip {A B} (a : list A) (b : list B) : list (A * B) := combine a b.
Definition py_range (n : Z) : list Z := map Z.of_nat (seq 0 (Z.to_nat n)).
(* l[i] = v: IndexError when i is out of range *)
Fixpoint set_nth {A} (l : list A) (i : nat) (v : A) : list A :=
  match l, i with
  | [], _ => []
  | _ :: t, O => v :: t
  | h :: t, S j => h :: set_nth t j v
  end.
Definition list_set_m {A} (l : list A) (i : nat) (v : A) : M (list A) :=
  if Nat.ltb i (length l) then ret (set_nth l i v) else raise IndexError.
Definition py_min_m (l : list Q) : M Q := fun x => (x, py_min l).
Definition py_max_m (l : list Q) : M Q := fun x => (x, py_max l).
Definition is_none {A} (o : option A) : bool := match o with None => true | Some _ => false end.
Definition is_not_none {A} (o : option A) : bool := negb (is_none o).

(* ---------- attributes of self ---------- *)
Definition self_time_horizon : M Q := rd (fun w => horizon (wst w)).
Definition self_cargo_size : M Q := rd (fun w => csize (wst w)).
(* self.vrptw (the graph value), self.vrptw.nodes, .depot_index (0 in a MIRP), .arcs.values(),
   .estimate_max_vehicles() (MirpWrap.est_max_vehicles; vrptw.py is tied by the `vrptw` package), Node.get_window() *)
Definition self_vrptw : M mgraph := rd (fun w => gr (wst w)).
Definition vrptw_nodes : M (list mnode) := rd (fun w => mnodes (gr (wst w))).
Definition vrptw_depot_index : M nat := ret O.
Definition vrptw_arcs_values : M (list marc) := rd (fun w => map snd (marcs (gr (wst w)))).
Definition vrptw_estimate_max_vehicles : M nat := rd (fun w => est_max_vehicles (gr (wst w))).
Definition node_get_window (n : mnode) : Q * qext := (lo n, hi n).

(* the cache fields *)
Definition self_abrp : M (option nat) := fun x => (x, Ok (xabrp x)).
Definition self_pbrp : M (option nat) := fun x => (x, Ok (xpbrp x)).
Definition self_sbrp : M (option nat) := fun x => (x, Ok (xsbrp x)).
Definition self_set_abrp (o : nat) : M unit :=
  fun x => (mkXS (xw x) (Some o) (xpbrp x) (xsbrp x) (xnext x) (xlog x), Ok tt).
Definition self_set_pbrp (o : nat) : M unit :=
  fun x => (mkXS (xw x) (xabrp x) (Some o) (xsbrp x) (xnext x) (xlog x), Ok tt).
Definition self_set_sbrp (o : nat) : M unit :=
  fun x => (mkXS (xw x) (xabrp x) (xpbrp x) (Some o) (xnext x) (xlog x), Ok tt).

(* ---------- the formulation objects ---------- *)
(* K(self.vrptw[, strict]): a new reference; the constructor copies the graph it is given *)
Definition new_form (k : fkind) (g : mgraph) (strict : option bool) : M nat :=
  fun x => (mkXS (xw x) (xabrp x) (xpbrp x) (xsbrp x) (S (xnext x)) (xlog x ++ [EvNew k (xnext x) g strict]),
            Ok (xnext x)).
Definition new_ArcBasedRoutingProblem (g : mgraph) : M nat := new_form FArc g None.
Definition new_PathBasedRoutingProblem (g : mgraph) : M nat := new_form FPath g None.
Definition new_SequenceBasedRoutingProblem (g : mgraph) (strict : bool) : M nat := new_form FSeq g (Some strict).
(* a method call on the object a cache field holds (None.<m> is AttributeError = Err OtherError) *)
Definition on_form (o : option nat) (e : nat -> wev) : M unit :=
  match o with Some i => emit (e i) | None => raise OtherError end.
Definition form_add_time_points (o : option nat) (tp : list Z) : M unit := on_form o (fun i => EvTimePoints i tp).
Definition form_set_max_vehicles (o : option nat) (v : nat) : M unit := on_form o (fun i => EvMaxVehicles i v).
Definition form_set_max_sequence_length (o : option nat) (l : Z) : M unit := on_form o (fun i => EvMaxSeqLen i l).
Definition form_add_routes_better (o : option nat) (explore : qext) (nc : list Q) (tc : Q -> Q) : M unit :=
  on_form o (fun i => EvRoutes i explore nc tc).
Definition form_make_feasible (o : option nat) (h : Q) : M unit := on_form o (fun i => EvFeasible i h).

(* np.random.seed(z) / np.random.seed() *)
Definition np_random_seed (z : Z) : M unit := emit (EvSeed (Some z)).
Definition np_random_seed_none : M unit := emit (EvSeed None).

(* ---------- what the hand model says the log of one getter call is ---------- *)
(* get_arc_based on an object without cached arc formulation: new object id, the grid, the optional high cost *)
Definition arc_log (id : nat) (g : mgraph) (r : list Z * option Q) : list wev :=
  [EvNew FArc id g None; EvTimePoints id (fst r)]
  ++ match snd r with Some h => [EvFeasible id h] | None => [] end.
Definition seq_log (id : nat) (g : mgraph) (strict : bool) (r : nat * Z * option Q) : list wev :=
  [EvNew FSeq id g (Some strict); EvMaxVehicles id (fst (fst r)); EvMaxSeqLen id (snd (fst r))]
  ++ match snd r with Some h => [EvFeasible id h] | None => [] end.
(* the rounds of MirpWrap.path_plan, call by call *)
Definition rounds_log (id : nat) (nc : list Q) (tc : Q -> Q) (rounds : list (qext * Z)) : list wev :=
  flat_map (fun r => repeat (EvRoutes id (fst r) nc tc) (Z.to_nat (snd r))) rounds.
Definition path_log (id : nat) (g : mgraph) (mf : bool) (p : list (qext * Z) * list Q * Q) : list wev :=
  [EvNew FPath id g None; EvSeed (Some 0%Z)]
  ++ rounds_log id (snd (fst p)) time_costs (fst (fst p))
  ++ (if mf then [EvFeasible id (snd p)] else []).

Definition with_cache (x : xstate) (k : fkind) (id : nat) (l : list wev) : xstate :=
  mkXS (xw x)
       (match k with FArc => Some id | _ => xabrp x end)
       (match k with FPath => Some id | _ => xpbrp x end)
       (match k with FSeq => Some id | _ => xsbrp x end)
       (S (xnext x)) (xlog x ++ l).

Definition is_seed (e : wev) : bool := match e with EvSeed _ => true | _ => false end.
Definition is_routes (e : wev) : bool := match e with EvRoutes _ _ _ _ => true | _ => false end.

Definition add_log (x : xstate) (l : list wev) : xstate :=
  mkXS (xw x) (xabrp x) (xpbrp x) (xsbrp x) (xnext x) (xlog x ++ l).
