(* MirpWrap_facts.v -- facts about the MIRP formulation wrappers (model MirpWrap.v): the time grid of
   get_arc_based, the vehicle count and sequence length of get_sequence_based, estimate_high_cost,
   the rounds of get_path_based.  The sorted de-duplicated grid and its independence of the set order
   are Rng_facts.grid_spec / grid_independent_of_set_order (C17), reused here. *)
From Coq Require Import QArith Qround Qabs Lqa Lia Permutation Sorted.
From VQ Require Import Base Mirp Mirp_facts Mirp_graph_facts Mirp_arcset_facts Rng Rng_facts MirpWrap.
Local Open Scope Q_scope.

(* ====================== integers and rationals ====================== *)
Lemma ceil_le_iff (a : Q) (z : Z) : a <= inject_Z z <-> (Qceiling a <= z)%Z.
Proof.
  split; intro H.
  - apply Qceiling_resp_le in H. rewrite Qceiling_Z in H. exact H.
  - eapply Qle_trans; [apply Qle_ceiling|]. rewrite <- Zle_Qle. exact H.
Qed.

Lemma floor_ge_iff (b : Q) (z : Z) : inject_Z z <= b <-> (z <= Qfloor b)%Z.
Proof.
  split; intro H.
  - apply Qfloor_resp_le in H. rewrite Qfloor_Z in H. exact H.
  - eapply Qle_trans; [|apply Qfloor_le]. rewrite <- Zle_Qle. exact H.
Qed.

(* an interval [a, b] contains an integer iff ceil a <= floor b *)
Lemma interval_has_integer (a b : Q) :
  (exists z : Z, a <= inject_Z z /\ inject_Z z <= b) <-> (Qceiling a <= Qfloor b)%Z.
Proof.
  split.
  - intros [z [H1 H2]]. apply ceil_le_iff in H1. apply floor_ge_iff in H2. lia.
  - intros H. exists (Qceiling a). split; [apply Qle_ceiling|]. apply floor_ge_iff. exact H.
Qed.

Lemma Qfloor_plus_Z (x : Q) (k : Z) : Qfloor (x + inject_Z k) = (Qfloor x + k)%Z.
Proof.
  apply Z.le_antisymm.
  - assert (H : inject_Z (Qfloor (x + inject_Z k) - k) <= x).
    { unfold Zminus. rewrite inject_Z_plus, inject_Z_opp.
      pose proof (Qfloor_le (x + inject_Z k)). lra. }
    apply floor_ge_iff in H. lia.
  - apply floor_ge_iff. rewrite inject_Z_plus. pose proof (Qfloor_le x). lra.
Qed.

(* ---------- Python int(): truncation towards zero ---------- *)
Lemma Qtrunc_nonneg x : 0 <= x -> Qtrunc x = Qfloor x.
Proof. intro H. unfold Qtrunc. assert (E : Qltb x 0 = false) by (apply Qltb_ge; exact H). rewrite E. reflexivity. Qed.

Lemma Qtrunc_neg x : x < 0 -> Qtrunc x = Qceiling x.
Proof. intro H. unfold Qtrunc. apply Qltb_lt in H. rewrite H. reflexivity. Qed.

Lemma Qtrunc_mono x y : x <= y -> (Qtrunc x <= Qtrunc y)%Z.
Proof.
  intro H. destruct (Qlt_le_dec x 0) as [Hx|Hx]; destruct (Qlt_le_dec y 0) as [Hy|Hy].
  - rewrite !Qtrunc_neg by auto. apply Qceiling_resp_le; auto.
  - rewrite Qtrunc_neg, Qtrunc_nonneg by auto.
    assert (A : (Qceiling x <= 0)%Z). { apply (ceil_le_iff x 0). change (inject_Z 0) with 0. lra. }
    assert (B : (0 <= Qfloor y)%Z). { apply (floor_ge_iff y 0). change (inject_Z 0) with 0. lra. }
    lia.
  - lra.
  - rewrite !Qtrunc_nonneg by auto. apply Qfloor_resp_le; auto.
Qed.

(* for a positive integer k: int(x) >= k iff x >= k *)
Lemma Qtrunc_ge_iff x (k : Z) : (0 < k)%Z -> ((k <= Qtrunc x)%Z <-> inject_Z k <= x).
Proof.
  intro Hk. assert (Hk' : 0 < inject_Z k). { change 0 with (inject_Z 0). rewrite <- Zlt_Qlt. exact Hk. }
  destruct (Qlt_le_dec x 0) as [Hx|Hx].
  - rewrite Qtrunc_neg by auto. split; intro H.
    + assert (A : (Qceiling x <= 0)%Z). { apply (ceil_le_iff x 0). change (inject_Z 0) with 0. lra. } lia.
    + lra.
  - rewrite Qtrunc_nonneg by auto. symmetry. apply floor_ge_iff.
Qed.

Lemma Qtrunc_Z z : Qtrunc (inject_Z z) = z.
Proof. unfold Qtrunc. destruct (Qltb (inject_Z z) 0); [apply Qceiling_Z | apply Qfloor_Z]. Qed.

(* ====================== min() / max() ====================== *)
Lemma qmin_from_spec l : forall x,
  (qmin_from x l = x \/ In (qmin_from x l) l) /\ qmin_from x l <= x /\ (forall y, In y l -> qmin_from x l <= y).
Proof.
  induction l as [|y t IH]; intro x; simpl.
  - split; [auto|]. split; [lra|]. intros y [].
  - destruct (IH (if Qltb y x then y else x)) as [A [B C]].
    destruct (Qltb y x) eqn:E.
    + apply Qltb_lt in E. split; [destruct A as [A|A]; auto|]. split; [lra|].
      intros z [<-|Hz]; auto.
    + apply Qltb_ge in E. split; [destruct A as [A|A]; auto|]. split; [lra|].
      intros z [<-|Hz]; auto. lra.
Qed.

Lemma qmax_from_spec l : forall x,
  (qmax_from x l = x \/ In (qmax_from x l) l) /\ x <= qmax_from x l /\ (forall y, In y l -> y <= qmax_from x l).
Proof.
  induction l as [|y t IH]; intro x; simpl.
  - split; [auto|]. split; [lra|]. intros y [].
  - destruct (IH (if Qltb x y then y else x)) as [A [B C]].
    destruct (Qltb x y) eqn:E.
    + apply Qltb_lt in E. split; [destruct A as [A|A]; auto|]. split; [lra|].
      intros z [<-|Hz]; auto.
    + apply Qltb_ge in E. split; [destruct A as [A|A]; auto|]. split; [lra|].
      intros z [<-|Hz]; auto. lra.
Qed.

Lemma py_min_ok l m : py_min l = Ok m -> In m l /\ (forall y, In y l -> m <= y).
Proof.
  destruct l as [|x t]; simpl; [discriminate|]. intro H. inversion H; subst. clear H.
  destruct (qmin_from_spec t x) as [A [B C]]. split.
  - destruct A as [->|A]; auto.
  - intros y [<-|Hy]; auto.
Qed.
Lemma py_max_ok l m : py_max l = Ok m -> In m l /\ (forall y, In y l -> y <= m).
Proof.
  destruct l as [|x t]; simpl; [discriminate|]. intro H. inversion H; subst. clear H.
  destruct (qmax_from_spec t x) as [A [B C]]. split.
  - destruct A as [->|A]; auto.
  - intros y [<-|Hy]; auto.
Qed.
Lemma py_min_err l e : py_min l = Err e -> e = ValueError /\ l = [].
Proof. destruct l; simpl; intro H; [inversion H; auto | discriminate]. Qed.
Lemma py_max_err l e : py_max l = Err e -> e = ValueError /\ l = [].
Proof. destruct l; simpl; intro H; [inversion H; auto | discriminate]. Qed.
Lemma py_min_some l : l <> [] -> exists m, py_min l = Ok m.
Proof. destruct l; [congruence|]. simpl. eauto. Qed.
Lemma py_max_some l : l <> [] -> exists m, py_max l = Ok m.
Proof. destruct l; [congruence|]. simpl. eauto. Qed.

(* ====================== the time grid of get_arc_based ====================== *)
Lemma in_zrange a b z : In z (zrange a b) <-> (a <= z <= b)%Z.
Proof.
  unfold zrange. rewrite in_map_iff. split.
  - intros [i [E Hi]]. apply in_seq in Hi. lia.
  - intros H. exists (Z.to_nat (z - a)). split; [lia|]. apply in_seq. lia.
Qed.

Lemma zrange_empty a b : zrange a b = [] <-> (b < a)%Z.
Proof.
  split.
  - intro E. destruct (Z_lt_le_dec b a) as [H|H]; auto.
    assert (I : In a (zrange a b)) by (apply in_zrange; lia). rewrite E in I. destruct I.
  - intro H. unfold zrange. replace (Z.to_nat (b + 1 - a)) with 0%nat by lia. reflexivity.
Qed.

(* the integer z lies in the (finite) window of some node of g *)
Definition on_finite_window (g : mgraph) (z : Z) : Prop :=
  exists n b, In n (mnodes g) /\ hi n = QFin b /\ lo n <= inject_Z z /\ inject_Z z <= b.

Lemma node_points_spec n z :
  In z (node_points n) <-> exists b, hi n = QFin b /\ lo n <= inject_Z z /\ inject_Z z <= b.
Proof.
  unfold node_points. destruct (hi n) as [b|].
  - rewrite in_zrange, <- ceil_le_iff, <- floor_ge_iff. split.
    + intros [A B]. exists b. auto.
    + intros [b' [E [A B]]]. inversion E; subst. auto.
  - split; [intros [] | intros [b [E _]]; discriminate].
Qed.

Lemma tw_points_spec g z : In z (tw_points g) <-> on_finite_window g z.
Proof.
  unfold tw_points, on_finite_window. rewrite in_flat_map. split.
  - intros [n [Hn Hz]]. apply node_points_spec in Hz. destruct Hz as [b H]. exists n, b. tauto.
  - intros [n [b [Hn H]]]. exists n. split; auto. apply node_points_spec. exists b. exact H.
Qed.

Lemma sorted_NoDup_strict l : sorted l -> NoDup l -> StronglySorted Z.lt l.
Proof.
  induction 1 as [|x|x y l Hle Hs IH]; intro ND.
  - constructor.
  - constructor; constructor.
  - inversion ND as [|? ? Hnin ND']; subst.
    pose proof (IH ND') as S. constructor; auto.
    assert (Hxy : (x < y)%Z). { assert (x <> y) by (intro; subst; apply Hnin; simpl; auto). lia. }
    constructor; auto.
    inversion S as [|? ? S' F]; subst.
    eapply Forall_impl; [|exact F]. simpl. intros a Ha. lia.
Qed.

Definition permuting (o : list Z -> list Z) : Prop := forall l, Permutation l (o l).

(* The grid: sorted, duplicate-free (hence strictly increasing), contains 0, and holds exactly 0 and
   the integers lying in the finite window of some node -- whatever order the set is iterated in. *)
Theorem arc_grid_spec order g : permuting order ->
  let G := arc_grid_with order g in
  sorted G /\ NoDup G /\ StronglySorted Z.lt G /\ In 0%Z G /\
  (forall x, In x G <-> x = 0%Z \/ on_finite_window g x).
Proof.
  intros Ho G. destruct (grid_spec (tw_points g) order Ho) as [S [N I]]. fold (arc_grid_with order g) in S, N, I.
  fold G in S, N, I.
  split; [exact S|]. split; [exact N|]. split; [apply sorted_NoDup_strict; auto|].
  split; [apply I; auto|].
  intro x. rewrite I, tw_points_spec. tauto.
Qed.

Theorem arc_grid_order_independent o1 o2 g : permuting o1 -> permuting o2 ->
  arc_grid_with o1 g = arc_grid_with o2 g.
Proof. intros H1 H2. apply grid_independent_of_set_order; auto. Qed.

Lemma permuting_id : permuting (fun l => l).
Proof. intro l. apply Permutation_refl. Qed.

Corollary arc_grid_is_any_order o g : permuting o -> arc_grid g = arc_grid_with o g.
Proof. intro H. apply arc_grid_order_independent; auto. apply permuting_id. Qed.

(* A node with a finite window [a, b] has a grid point inside its window iff the window contains an
   integer iff ceil a <= floor b. *)
Theorem grid_point_in_window_iff order g n b : permuting order -> In n (mnodes g) -> hi n = QFin b ->
  let G := arc_grid_with order g in
  ((exists x, In x G /\ lo n <= inject_Z x /\ inject_Z x <= b) <-> (Qceiling (lo n) <= Qfloor b)%Z) /\
  ((Qceiling (lo n) <= Qfloor b)%Z <-> (exists z : Z, lo n <= inject_Z z /\ inject_Z z <= b)).
Proof.
  intros Ho Hn Hb G. destruct (arc_grid_spec order g Ho) as [_ [_ [_ [_ I]]]]. fold G in I.
  split; [|symmetry; apply interval_has_integer].
  rewrite <- interval_has_integer. split.
  - intros [x [_ H]]. exists x. exact H.
  - intros [z H]. exists z. split; [|exact H]. apply I. right. exists n, b. tauto.
Qed.

(* ... and a node whose finite window contains no integer contributes nothing and has no grid point in
   its window (the arc-based model then has no variable for it; the arc heuristic fails on it) *)
Theorem grid_window_without_integer order g n b : permuting order -> In n (mnodes g) -> hi n = QFin b ->
  (Qfloor b < Qceiling (lo n))%Z ->
  node_points n = [] /\
  forall x, In x (arc_grid_with order g) -> ~ (lo n <= inject_Z x /\ inject_Z x <= b).
Proof.
  intros Ho Hn Hb Hlt. split.
  - unfold node_points. rewrite Hb. apply zrange_empty. exact Hlt.
  - intros x _ [A B]. apply ceil_le_iff in A. apply floor_ge_iff in B. lia.
Qed.

(* every integer of a finite window is a grid point: the grid restricted to a window is ALL its integers *)
Theorem grid_covers_window order g n b z : permuting order -> In n (mnodes g) -> hi n = QFin b ->
  lo n <= inject_Z z -> inject_Z z <= b -> In z (arc_grid_with order g).
Proof.
  intros Ho Hn Hb A B. apply (arc_grid_spec order g Ho). right. exists n, b. tauto.
Qed.

(* nodes with an unbounded window (the depot and the dummy vessels, window (0, inf)) are served by the
   appended 0 *)
Theorem grid_zero_serves_unbounded order g n : permuting order -> hi n = QInf -> lo n <= 0 ->
  In 0%Z (arc_grid_with order g) /\ lo n <= inject_Z 0 /\ q_le_ext (inject_Z 0) (hi n) = true.
Proof.
  intros Ho Hh Hl. destruct (arc_grid_spec order g Ho) as [_ [_ [_ [Z0 _]]]].
  split; [exact Z0|]. split; [exact Hl|]. rewrite Hh. reflexivity.
Qed.

(* ====================== estimate_max_vehicles ====================== *)
Lemma filter_length_le {A} (f : A -> bool) l : (length (filter f l) <= length l)%nat.
Proof. induction l as [|x l IH]; simpl; [lia|]. destruct (f x); simpl; lia. Qed.

Lemma filter_nil_iff {A} (f : A -> bool) l : filter f l = [] <-> forall x, In x l -> f x = false.
Proof.
  induction l as [|y l IH]; simpl.
  - split; auto. intros _ x [].
  - destruct (f y) eqn:E.
    + split; [discriminate|]. intro H. specialize (H y (or_introl eq_refl)). congruence.
    + rewrite IH. split.
      * intros H x [<-|Hx]; auto.
      * intros H x Hx. apply H. auto.
Qed.

Theorem max_vehicles_spec g :
  (est_max_vehicles g <= n_out g)%nat /\ (est_max_vehicles g <= n_in g)%nat /\
  (est_max_vehicles g = n_out g \/ est_max_vehicles g = n_in g) /\
  (n_out g <= length (marcs g))%nat /\ (n_in g <= length (marcs g))%nat.
Proof.
  unfold est_max_vehicles, n_out, n_in.
  pose proof (filter_length_le leaves_depot (marcs g)). pose proof (filter_length_le enters_depot (marcs g)).
  lia.
Qed.

(* no vehicle iff no arc leaves the depot or no arc enters it *)
Theorem max_vehicles_zero_iff g :
  est_max_vehicles g = 0%nat <->
  (forall i j a, In ((i, j), a) (marcs g) -> i <> 0%nat) \/ (forall i j a, In ((i, j), a) (marcs g) -> j <> 0%nat).
Proof.
  unfold est_max_vehicles, n_out, n_in. split.
  - intro H.
    assert (D : length (filter leaves_depot (marcs g)) = 0%nat \/ length (filter enters_depot (marcs g)) = 0%nat) by lia.
    destruct D as [D|D]; apply length_zero_iff_nil in D; rewrite filter_nil_iff in D; [left|right];
      intros i j a Hin E; specialize (D _ Hin); subst; discriminate D.
  - intros [H|H].
    + assert (E : filter leaves_depot (marcs g) = []).
      { apply filter_nil_iff. intros [[i j] a] Hin. unfold leaves_depot. simpl.
        apply Nat.eqb_neq. eapply H; eauto. }
      rewrite E. reflexivity.
    + assert (E : filter enters_depot (marcs g) = []).
      { apply filter_nil_iff. intros [[i j] a] Hin. unfold enters_depot. simpl.
        apply Nat.eqb_neq. eapply H; eauto. }
      rewrite E. simpl. lia.
Qed.

(* ====================== port_frequency ====================== *)
Lemma wrun_wst ops : forall w, wst (wrun ops w) = mrun ops (wst w).
Proof. induction ops as [|o ops IH]; intro w; simpl; auto. unfold wrun in IH. rewrite IH. reflexivity. Qed.
Lemma wrun_wpf ops : forall w, wpf (wrun ops w) = pf_run ops (wpf w).
Proof. induction ops as [|o ops IH]; intro w; simpl; auto. unfold wrun in IH. rewrite IH. reflexivity. Qed.

Lemma pf_set_new p v m : ~ In p (map fst m) -> pf_set p v m = m ++ [(p, v)].
Proof.
  induction m as [|[q v'] m IH]; simpl; intro H; auto.
  destruct (Nat.eqb p q) eqn:E.
  - apply Nat.eqb_eq in E. subst. exfalso. auto.
  - rewrite IH; auto.
Qed.

Lemma pf_set_values p v m x : In x (map snd (pf_set p v m)) -> x = v \/ In x (map snd m).
Proof.
  induction m as [|[q v'] m IH]; simpl.
  - intros [<-|[]]; auto.
  - destruct (Nat.eqb p q); simpl.
    + intros [<-|H]; auto.
    + intros [<-|H]; auto. destruct (IH H); auto.
Qed.

Lemma port_freq_nonneg cap rate : 0 <= port_freq cap rate.
Proof. apply Qabs_nonneg. Qed.

Lemma port_freq_pos cap rate : ~ rate == 0 -> ~ cap == 0 -> 0 < port_freq cap rate.
Proof.
  intros Hr Hc. unfold port_freq.
  assert (N : ~ cap / rate == 0).
  { intro E. apply Hc. assert (X : cap == (cap / rate) * rate) by (field; auto). rewrite X, E. ring. }
  pose proof (Qabs_nonneg (cap / rate)) as P.
  destruct (Qeq_dec (Qabs (cap / rate)) 0) as [E|E]; [|lra].
  exfalso. apply N.
  pose proof (Qle_Qabs (cap / rate)). pose proof (Qle_Qabs (- (cap / rate))) as Q2. rewrite Qabs_opp in Q2. lra.
Qed.

(* every recorded frequency is non-negative, over every history *)
Lemma pf_step_nonneg pf o : (forall f, In f (freq_values pf) -> 0 <= f) ->
  forall f, In f (freq_values (pf_step pf o)) -> 0 <= f.
Proof.
  intros H f. destruct o; simpl; auto.
  destruct (Qeq_bool rate 0); auto.
  intro Hin. apply pf_set_values in Hin. destruct Hin as [->|Hin]; auto. apply port_freq_nonneg.
Qed.
Theorem freq_nonneg ops : forall pf, (forall f, In f (freq_values pf) -> 0 <= f) ->
  forall f, In f (freq_values (pf_run ops pf)) -> 0 <= f.
Proof.
  induction ops as [|o ops IH]; intros pf H; simpl; auto.
  apply IH. apply pf_step_nonneg. exact H.
Qed.

(* port_frequency is a function of the ports' (cap, rate) list: for distinct names and non-zero rates,
   one entry per port, in the order of the add_nodes calls *)
Definition port_entry (p : pdata) : nat * Q := (pname p, port_freq (pcap p) (prate p)).

Lemma pf_run_ports ports : forall acc,
  NoDup (map fst acc ++ map pname ports) -> (forall p, In p ports -> ~ prate p == 0) ->
  pf_run (map op_of ports) acc = acc ++ map port_entry ports.
Proof.
  induction ports as [|p ports IH]; intros acc ND Hr; simpl.
  - rewrite app_nil_r. reflexivity.
  - assert (Hp : ~ prate p == 0) by (apply Hr; simpl; auto).
    apply Qeq_bool_false in Hp. rewrite Hp.
    assert (Hn : ~ In (pname p) (map fst acc)).
    { intro Hin. simpl in ND. apply NoDup_remove_2 in ND. apply ND. apply in_app_iff. auto. }
    rewrite pf_set_new by exact Hn.
    rewrite IH.
    + rewrite <- app_assoc. reflexivity.
    + rewrite map_app. simpl. rewrite <- app_assoc. simpl. exact ND.
    + intros q Hq. apply Hr. simpl. auto.
Qed.

Lemma pf_run_app A B pf : pf_run (A ++ B) pf = pf_run B (pf_run A pf).
Proof. unfold pf_run. apply fold_left_app. Qed.

Theorem canonical_port_frequency size ports dist speed unit fs fd etm ec limit ntm nc :
  ports_ok size ports ->
  pf_run (canonical_ops ports dist speed unit fs fd etm ec limit ntm nc) [] = map port_entry ports.
Proof.
  intros [ND Hp]. unfold canonical_ops. rewrite pf_run_app. rewrite pf_run_ports.
  - reflexivity.
  - exact ND.
  - intros p Hin. apply (Hp p Hin).
Qed.

(* ====================== estimate_high_cost ====================== *)
Theorem high_cost_ok w h : estimate_high_cost w = Ok h ->
  exists mf mc,
    In mf (freq_values (wpf w)) /\ (forall f, In f (freq_values (wpf w)) -> mf <= f) /\ ~ mf == 0 /\
    In mc (arc_costs (gr (wst w))) /\ (forall c, In c (arc_costs (gr (wst w))) -> c <= mc) /\
    h = 2 * mc * (horizon (wst w) / mf).
Proof.
  unfold estimate_high_cost. destruct (py_min (freq_values (wpf w))) as [mf|e] eqn:E1; [|discriminate].
  destruct (Qeq_bool mf 0) eqn:E2; [discriminate|].
  destruct (py_max (arc_costs (gr (wst w)))) as [mc|e] eqn:E3; [|discriminate].
  intro H. inversion H; subst. clear H.
  apply py_min_ok in E1. apply py_max_ok in E3. apply Qeq_bool_false in E2.
  exists mf, mc. tauto.
Qed.

(* the only failures: ValueError (no port has a frequency entry, or no arc) and ZeroDivisionError
   (the most frequent port has frequency 0, i.e. capacity 0) *)
Theorem high_cost_err w e : estimate_high_cost w = Err e ->
  (e = ValueError /\ wpf w = []) \/
  (e = OtherError /\ exists mf, In mf (freq_values (wpf w)) /\ mf == 0 /\ (forall f, In f (freq_values (wpf w)) -> mf <= f)) \/
  (e = ValueError /\ wpf w <> [] /\ marcs (gr (wst w)) = []).
Proof.
  unfold estimate_high_cost. destruct (py_min (freq_values (wpf w))) as [mf|e1] eqn:E1.
  - destruct (Qeq_bool mf 0) eqn:E2.
    + intro H. inversion H; subst. right. left. split; auto. apply py_min_ok in E1. apply Qeq_bool_iff in E2.
      exists mf. tauto.
    + destruct (py_max (arc_costs (gr (wst w)))) as [mc|e3] eqn:E3; [discriminate|].
      intro H. inversion H; subst. right. right. apply py_max_err in E3. destruct E3 as [-> E3].
      split; auto. split.
      * intro X. rewrite X in E1. discriminate.
      * unfold arc_costs in E3. apply map_eq_nil in E3. exact E3.
  - intro H. inversion H; subst. left. apply py_min_err in E1. destruct E1 as [-> E1]. split; auto.
    unfold freq_values in E1. apply map_eq_nil in E1. exact E1.
Qed.

Theorem high_cost_total w : wpf w <> [] -> (forall f, In f (freq_values (wpf w)) -> ~ f == 0) ->
  marcs (gr (wst w)) <> [] -> exists h, estimate_high_cost w = Ok h.
Proof.
  intros Hp Hf Ha. unfold estimate_high_cost.
  destruct (py_min_some (freq_values (wpf w))) as [mf E1].
  { unfold freq_values. intro X. apply map_eq_nil in X. auto. }
  rewrite E1. pose proof (py_min_ok _ _ E1) as [I _]. apply Hf in I. apply Qeq_bool_false in I. rewrite I.
  destruct (py_max_some (arc_costs (gr (wst w)))) as [mc E3].
  { unfold arc_costs. intro X. apply map_eq_nil in X. auto. }
  rewrite E3. eauto.
Qed.

Lemma div_antitone H f f' : 0 <= H -> 0 < f -> f <= f' -> H / f' <= H / f.
Proof.
  intros HH Hf Hff.
  assert (E1 : H == (H / f) * f) by (field; lra).
  assert (E2 : H == (H / f') * f') by (field; lra).
  set (a := H / f) in *. set (b := H / f') in *.
  assert (Hb : 0 <= b). { destruct (Qlt_le_dec b 0); [nra | auto]. }
  nra.
Qed.

Lemma div_nonneg H f : 0 <= H -> 0 < f -> 0 <= H / f.
Proof.
  intros HH Hf. assert (E : H == (H / f) * f) by (field; lra). set (a := H / f) in *.
  destruct (Qlt_le_dec a 0); [nra | auto].
Qed.

(* the value dominates "twice any arc cost times the number of cargoes any port needs in the horizon" *)
Theorem high_cost_dominates w h : estimate_high_cost w = Ok h -> 0 <= horizon (wst w) ->
  (forall f, In f (freq_values (wpf w)) -> 0 <= f) ->
  forall c f, In c (arc_costs (gr (wst w))) -> 0 <= c -> In f (freq_values (wpf w)) -> ~ f == 0 ->
    2 * c * (horizon (wst w) / f) <= h.
Proof.
  intros E HH Hnn c f Hc Hc0 Hf Hf0.
  destruct (high_cost_ok w h E) as [mf [mc [I1 [L1 [N1 [I2 [L2 ->]]]]]]].
  assert (P : 0 < mf). { pose proof (Hnn mf I1). destruct (Qeq_dec mf 0); [contradiction | lra]. }
  pose proof (L1 f Hf) as A. pose proof (L2 c Hc) as B.
  pose proof (div_antitone (horizon (wst w)) mf f HH P A) as D.
  pose proof (div_nonneg (horizon (wst w)) mf HH P) as D0.
  assert (Pf : 0 < f) by lra.
  pose proof (div_nonneg (horizon (wst w)) f HH Pf) as D1.
  set (x := horizon (wst w) / f) in *. set (y := horizon (wst w) / mf) in *. nra.
Qed.

Theorem high_cost_nonneg w h : estimate_high_cost w = Ok h -> 0 <= horizon (wst w) ->
  (forall f, In f (freq_values (wpf w)) -> 0 <= f) ->
  (exists c, In c (arc_costs (gr (wst w))) /\ 0 <= c) -> 0 <= h.
Proof.
  intros E HH Hnn [c [Hc Hc0]].
  destruct (high_cost_ok w h E) as [mf [mc [I1 [L1 [N1 [I2 [L2 ->]]]]]]].
  assert (P : 0 < mf). { pose proof (Hnn mf I1). destruct (Qeq_dec mf 0); [contradiction | lra]. }
  pose proof (div_nonneg (horizon (wst w)) mf HH P) as D0. pose proof (L2 c Hc).
  set (y := horizon (wst w) / mf) in *. nra.
Qed.

(* ====================== get_sequence_based ====================== *)
Theorem min_travel_time_ok g m : min_travel_time g = Ok m ->
  0 < m /\ In m (travel_times g) /\ (forall t, In t (travel_times g) -> 0 < t -> m <= t).
Proof.
  unfold min_travel_time. intro H. apply py_min_ok in H. destruct H as [I L].
  apply filter_In in I. destruct I as [I P]. apply Qltb_lt in P. split; auto. split; auto.
  intros t Ht Hp. apply L. apply filter_In. split; auto. apply Qltb_lt. exact Hp.
Qed.

(* ValueError exactly when no arc has a positive travel time *)
Theorem min_travel_time_err g e : min_travel_time g = Err e ->
  e = ValueError /\ (forall t, In t (travel_times g) -> t <= 0).
Proof.
  unfold min_travel_time. intro H. apply py_min_err in H. destruct H as [-> H]. split; auto.
  intros t Ht. rewrite filter_nil_iff in H. specialize (H t Ht). apply Qltb_ge in H. exact H.
Qed.

Theorem min_travel_time_total g t : In t (travel_times g) -> 0 < t -> exists m, min_travel_time g = Ok m.
Proof.
  intros Ht Hp. unfold min_travel_time. apply py_min_some. intro E.
  rewrite filter_nil_iff in E. specialize (E t Ht). apply Qltb_lt in Hp. congruence.
Qed.

Lemma seq_len_floor H mt : 0 <= H -> 0 < mt -> seq_len H mt = (Qfloor (H / mt) + 2)%Z.
Proof.
  intros HH Hm. unfold seq_len. pose proof (div_nonneg H mt HH Hm).
  rewrite Qtrunc_nonneg by lra. change 2 with (inject_Z 2). apply Qfloor_plus_Z.
Qed.

Theorem seq_len_ge2 H mt : 0 <= H -> 0 < mt -> (2 <= seq_len H mt)%Z.
Proof.
  intros HH Hm. unfold seq_len. apply Qtrunc_ge_iff; [lia|]. pose proof (div_nonneg H mt HH Hm).
  change (inject_Z 2) with 2. lra.
Qed.

Theorem seq_len_ge3_iff H mt : 0 < mt -> ((3 <= seq_len H mt)%Z <-> mt <= H).
Proof.
  intros Hm. unfold seq_len. rewrite Qtrunc_ge_iff by lia. change (inject_Z 3) with 3.
  assert (E : H == (H / mt) * mt) by (field; lra). set (x := H / mt) in *. split; intro; nra.
Qed.

Theorem seq_len_mono_horizon H H' mt : 0 < mt -> H <= H' -> (seq_len H mt <= seq_len H' mt)%Z.
Proof.
  intros Hm HH. unfold seq_len. apply Qtrunc_mono.
  assert (E : H == (H / mt) * mt) by (field; lra). assert (E' : H' == (H' / mt) * mt) by (field; lra).
  set (x := H / mt) in *. set (y := H' / mt) in *. nra.
Qed.

Theorem seq_len_antitone_time H mt mt' : 0 <= H -> 0 < mt -> mt <= mt' -> (seq_len H mt' <= seq_len H mt)%Z.
Proof.
  intros HH Hm Hmm. unfold seq_len. apply Qtrunc_mono. pose proof (div_antitone H mt mt' HH Hm Hmm). lra.
Qed.

Theorem seq_params_ok w V L : seq_params w = Ok (V, L) ->
  exists mt, min_travel_time (gr (wst w)) = Ok mt /\ 0 < mt /\
             V = est_max_vehicles (gr (wst w)) /\ L = seq_len (horizon (wst w)) mt.
Proof.
  unfold seq_params. destruct (min_travel_time (gr (wst w))) as [mt|e] eqn:E; [|discriminate].
  intro H. inversion H; subst. exists mt. pose proof (min_travel_time_ok _ _ E). tauto.
Qed.

Theorem seq_params_err w e : seq_params w = Err e ->
  e = ValueError /\ (forall t, In t (travel_times (gr (wst w))) -> t <= 0).
Proof.
  unfold seq_params. destruct (min_travel_time (gr (wst w))) as [mt|e1] eqn:E; [discriminate|].
  intro H. inversion H; subst. apply min_travel_time_err. exact E.
Qed.

(* ---------- the horizon is never changed by the four operations ---------- *)
Lemma add_nodes_loop_horizon name init rate cap dl : forall fuel s k acc,
  horizon (fst (add_nodes_loop fuel s name init rate cap dl k acc)) = horizon s.
Proof.
  induction fuel as [|f IH]; intros s k acc; simpl; auto.
  destruct (Qltb (horizon s) (snd (window (csize s) k init rate cap))); simpl; auto.
  destruct (g_add_node (gr s) (NVisit name k) dl _ _) as [g'|e]; simpl; auto.
  rewrite IH. reflexivity.
Qed.

Lemma mstep_horizon s o : horizon (fst (mstep s o)) = horizon s.
Proof.
  destruct o; cbn [mstep of_gres fst set_gr horizon]; auto.
  unfold add_nodes, add_nodes_fuel.
  match goal with |- context [if ?b then _ else _] => destruct b end; cbn [fst horizon]; auto.
  match goal with |- context [add_nodes_loop ?f ?s1 ?name ?init ?rate ?cap ?dl 0%nat []] =>
    pose proof (add_nodes_loop_horizon name init rate cap dl f s1 0%nat []) as A;
    destruct (add_nodes_loop f s1 name init rate cap dl 0%nat []) as [s' [l|e]] end; cbn [fst] in *; auto.
Qed.

Lemma mrun_horizon ops : forall s, horizon (mrun ops s) = horizon s.
Proof.
  induction ops as [|o ops IH]; intro s; simpl; auto. unfold mrun in IH. rewrite IH. apply mstep_horizon.
Qed.

(* ---------- the canonical MIRP build (C12_arcset): the hypotheses of the sequence heuristic ---------- *)
(* depot first, window (0, inf) *)
Definition depot_window_ok (g : mgraph) : Prop :=
  exists d0 rest, mnodes g = d0 :: rest /\ nm d0 = NDepot /\ hi d0 = QInf /\ 0 <= lo d0.

Lemma canonical_nodes size H ports dist speed unit fs fd etm ec limit ntm nc :
  0 < size -> ports_ok size ports -> ~ speed == 0 -> tables_complete ports dist fs fd ->
  mnodes (gr (mrun (canonical_ops ports dist speed unit fs fd etm ec limit ntm nc) (init_state size H)))
  = nodes_after size H ports ++ dum_nodes size 0 (length (c_early size H ports limit)).
Proof.
  intros Hs Hok Hv Ht.
  destruct (arcset_final size H ports dist speed unit fs fd etm ec limit ntm nc Hs Hok Hv Ht) as [_ [N _]].
  exact N.
Qed.

Theorem canonical_depot_window size H ports dist speed unit fs fd etm ec limit ntm nc :
  0 < size -> ports_ok size ports -> ~ speed == 0 -> tables_complete ports dist fs fd ->
  depot_window_ok (gr (mrun (canonical_ops ports dist speed unit fs fd etm ec limit ntm nc) (init_state size H))).
Proof.
  intros Hs Hok Hv Ht. unfold depot_window_ok.
  rewrite (canonical_nodes size H ports dist speed unit fs fd etm ec limit ntm nc Hs Hok Hv Ht).
  unfold nodes_after. simpl. eexists _, _. split; [reflexivity|]. simpl. repeat split; auto. lra.
Qed.

(* "L >= 3, depot window end infinite, depot window start >= 0" hold iff the horizon is at least the
   shortest positive travel time *)
Theorem canonical_seq_hyps_iff size H ports dist speed unit fs fd etm ec limit ntm nc :
  0 < size -> ports_ok size ports -> ~ speed == 0 -> tables_complete ports dist fs fd ->
  let w := wrun (canonical_ops ports dist speed unit fs fd etm ec limit ntm nc) (winit size H) in
  forall V L, seq_params w = Ok (V, L) ->
  exists mt, min_travel_time (gr (wst w)) = Ok mt /\ 0 < mt /\ V = est_max_vehicles (gr (wst w)) /\
             L = seq_len H mt /\
             (((3 <= L)%Z /\ depot_window_ok (gr (wst w))) <-> mt <= H).
Proof.
  intros Hs Hok Hv Ht w V L E.
  destruct (seq_params_ok w V L E) as [mt [E1 [P [EV EL]]]].
  assert (EH : horizon (wst w) = H).
  { unfold w. rewrite wrun_wst. rewrite mrun_horizon. reflexivity. }
  rewrite EH in EL. exists mt. split; auto. split; auto. split; auto. split; auto.
  rewrite EL, seq_len_ge3_iff by exact P.
  assert (D : depot_window_ok (gr (wst w))).
  { unfold w. rewrite wrun_wst. apply canonical_depot_window; auto. }
  tauto.
Qed.

(* with stocks inside the tanks no window closes before the depot window opens (the remaining
   hypothesis of the sequence heuristic's totality theorem, C09_total_seq) *)
Definition stocks_ok (ports : list pdata) : Prop :=
  forall p, In p ports -> (0 < prate p -> pinit p <= pcap p) /\ (prate p < 0 -> 0 <= pinit p).

Lemma visit_end_nonneg size k init rate cap : 0 < size -> ~ rate == 0 ->
  (0 < rate -> init <= cap) -> (rate < 0 -> 0 <= init) -> 0 <= tw1 size k init rate cap.
Proof.
  intros Hs Hr H1 H2. pose proof (Qn_nonneg k) as Hk.
  destruct (Qlt_le_dec 0 rate) as [Hp|Hn].
  - unfold tw1. rewrite window_supply by auto. cbn [snd]. unfold tw1_s.
    apply div_nonneg; auto. specialize (H1 Hp). nra.
  - assert (Hn' : rate < 0) by (destruct (Qeq_dec rate 0); [contradiction | lra]).
    unfold tw1. rewrite window_demand by auto. cbn [snd]. unfold tw1_d. specialize (H2 Hn').
    assert (E : (- Qn k * size - init) == ((- Qn k * size - init) / rate) * rate) by (field; lra).
    set (x := (- Qn k * size - init) / rate) in *.
    destruct (Qlt_le_dec x 0); [nra | auto].
Qed.

Theorem canonical_window_ends_nonneg size H ports dist speed unit fs fd etm ec limit ntm nc :
  0 < size -> ports_ok size ports -> ~ speed == 0 -> tables_complete ports dist fs fd -> stocks_ok ports ->
  forall n, In n (mnodes (gr (mrun (canonical_ops ports dist speed unit fs fd etm ec limit ntm nc) (init_state size H)))) ->
    q_le_ext 0 (hi n) = true.
Proof.
  intros Hs Hok Hv Ht Hst n.
  rewrite (canonical_nodes size H ports dist speed unit fs fd etm ec limit ntm nc Hs Hok Hv Ht).
  rewrite in_app_iff. unfold nodes_after, dum_nodes. simpl. intros [[<-|Hn]|Hn].
  - reflexivity.
  - apply in_flat_map in Hn. destruct Hn as [p [Hp Hn]]. unfold p_vnodes, visit_nodes in Hn.
    apply in_map_iff in Hn. destruct Hn as [k [<- _]]. unfold visit_node. cbn [hi q_le_ext].
    apply Qle_bool_iff. destruct Hok as [_ Hok]. destruct (Hok p Hp) as [Hr _]. destruct (Hst p Hp) as [S1 S2].
    apply visit_end_nonneg; auto.
  - apply in_map_iff in Hn. destruct Hn as [i [<- _]]. reflexivity.
Qed.

(* ====================== get_path_based ====================== *)
Lemma range_count_nonneg z : (0 <= range_count z)%Z.
Proof. unfold range_count. lia. Qed.

Theorem path_rounds_spec H : 0 <= H ->
  path_rounds H = [(QFin 0, 1%Z); (QFin 1, Qfloor H); (QInf, Qfloor (10 * H))].
Proof.
  intro HH. unfold path_rounds. rewrite !Qtrunc_nonneg by lra. unfold range_count.
  assert (A : (0 <= Qfloor H)%Z). { apply (floor_ge_iff H 0). change (inject_Z 0) with 0. exact HH. }
  assert (B : (0 <= Qfloor (10 * H))%Z). { apply (floor_ge_iff (10 * H) 0). change (inject_Z 0) with 0. lra. }
  rewrite !Z.max_r by assumption. reflexivity.
Qed.

Theorem path_rounds_negative H : H < 0 ->
  path_rounds H = [(QFin 0, 1%Z); (QFin 1, 0%Z); (QInf, 0%Z)].
Proof.
  intro HH. unfold path_rounds. rewrite !Qtrunc_neg by lra. unfold range_count.
  assert (A : (Qceiling H <= 0)%Z). { apply (ceil_le_iff H 0). change (inject_Z 0) with 0. lra. }
  assert (B : (Qceiling (10 * H) <= 0)%Z). { apply (ceil_le_iff (10 * H) 0). change (inject_Z 0) with 0. lra. }
  rewrite !Z.max_l by assumption. reflexivity.
Qed.

Lemma nth_map_const {A} (l : list A) : forall i, nth i (map (fun _ => 0) l) 0 = 0.
Proof. induction l as [|x l IH]; intros [|i]; simpl; auto. Qed.

Lemma node_costs_ok g h nc : node_costs g h = Ok nc ->
  length nc = length (mnodes g) /\ nth 0 nc 0 = h /\ (forall i, (0 < i)%nat -> nth i nc 0 = 0).
Proof.
  unfold node_costs. destruct (mnodes g) as [|d rest]; [discriminate|]. intro E. inversion E; subst. clear E.
  split; [simpl; rewrite map_length; reflexivity|]. split; [reflexivity|].
  intros i Hi. destruct i as [|i]; [lia|]. simpl. apply nth_map_const.
Qed.

(* what get_path_based hands to add_routes_better: three rounds (explore 0, 1, inf) of 1, int(H), int(10 H)
   calls, node costs = the high cost at the depot and 0 elsewhere; it fails exactly as estimate_high_cost does
   (a MIRP graph always holds the depot, so the node list is never empty) *)
Theorem path_plan_ok w rounds nc h : path_plan w = Ok (rounds, nc, h) ->
  estimate_high_cost w = Ok h /\ rounds = path_rounds (horizon (wst w)) /\
  length nc = length (mnodes (gr (wst w))) /\ nth 0 nc 0 = h /\ (forall i, (0 < i)%nat -> nth i nc 0 = 0).
Proof.
  unfold path_plan. destruct (estimate_high_cost w) as [h'|e]; [|discriminate].
  destruct (node_costs (gr (wst w)) h') as [nc'|e] eqn:E; [|discriminate].
  intro X. inversion X; subst. split; auto. split; auto. apply node_costs_ok. exact E.
Qed.

Theorem path_plan_err w e : mnodes (gr (wst w)) <> [] -> path_plan w = Err e -> estimate_high_cost w = Err e.
Proof.
  intro Hn. unfold path_plan. destruct (estimate_high_cost w) as [h'|e'].
  - unfold node_costs. destruct (mnodes (gr (wst w))); [congruence | discriminate].
  - intro X. inversion X. reflexivity.
Qed.

Theorem time_costs_spec t : (t <= 10 -> time_costs t = 0) /\ (10 < t -> time_costs t = 100 * t) /\ 0 <= time_costs t.
Proof.
  unfold time_costs. destruct (Qle_bool t 10) eqn:E.
  - apply Qle_bool_iff in E. split; auto. split; [intro; lra | lra].
  - apply Qle_bool_false in E. split; [intro; lra|]. split; auto. lra.
Qed.

Theorem time_costs_mono t t' : t <= t' -> time_costs t <= time_costs t'.
Proof.
  intro H. unfold time_costs. destruct (Qle_bool t 10) eqn:E; destruct (Qle_bool t' 10) eqn:E'.
  - lra.
  - apply Qle_bool_false in E'. lra.
  - apply Qle_bool_false in E. apply Qle_bool_iff in E'. lra.
  - lra.
Qed.

(* ====================== the wrappers as a whole ====================== *)
(* without make_feasible the arc wrapper cannot fail; with it, it fails exactly as estimate_high_cost *)
Theorem get_arc_based_no_heuristic w : get_arc_based false w = Ok (arc_grid (gr (wst w)), None).
Proof. reflexivity. Qed.

Theorem get_arc_based_with_heuristic w :
  (forall h, estimate_high_cost w = Ok h -> get_arc_based true w = Ok (arc_grid (gr (wst w)), Some h)) /\
  (forall e, estimate_high_cost w = Err e -> get_arc_based true w = Err e).
Proof. unfold get_arc_based, high_for. split; intros x E; rewrite E; reflexivity. Qed.

Theorem get_sequence_based_spec mf w :
  (forall e, seq_params w = Err e -> get_sequence_based mf w = Err e) /\
  (forall vl, seq_params w = Ok vl ->
     (mf = false -> get_sequence_based mf w = Ok (vl, None)) /\
     (forall h, mf = true -> estimate_high_cost w = Ok h -> get_sequence_based mf w = Ok (vl, Some h)) /\
     (forall e, mf = true -> estimate_high_cost w = Err e -> get_sequence_based mf w = Err e)).
Proof.
  unfold get_sequence_based, high_for. split.
  - intros e E. rewrite E. reflexivity.
  - intros vl E. rewrite E. split; [intros ->; reflexivity|]. split; intros x -> E2; rewrite E2; reflexivity.
Qed.

(* ====================== every history: the node list only grows, by visits and dummy vessels ====================== *)
(* a node with an unbounded window opens at 0 (the depot and the dummy vessels: default window (0, inf)) *)
Definition unb_ok (n : mnode) : Prop := match hi n with QInf => lo n = 0 | QFin _ => True end.
Definition grows (l l' : list mnode) : Prop := exists e, l' = l ++ e /\ Forall unb_ok e.

Lemma grows_refl l : grows l l.
Proof. exists []. rewrite app_nil_r. auto. Qed.
Lemma grows_eq l l' : l' = l -> grows l l'.
Proof. intros ->. apply grows_refl. Qed.
Lemma grows_trans a b c : grows a b -> grows b c -> grows a c.
Proof.
  intros [e [-> F]] [e' [-> F']]. exists (e ++ e'). rewrite app_assoc. split; auto. apply Forall_app. auto.
Qed.

Lemma g_add_node_grows g x d a b g' : g_add_node g x d a b = Ok g' -> unb_ok (mkNode x d a b) ->
  grows (mnodes g) (mnodes g').
Proof.
  unfold g_add_node. destruct (has_name x (mnodes g)); [discriminate|].
  destruct (negb (q_le_ext a b)); [discriminate|]. intros E U. inversion E; subst. simpl.
  exists [mkNode x d a b]. auto.
Qed.

Lemma travel_pairs_nodes tm tc fs fd sp dp prs : forall g,
  mnodes (fst (travel_pairs g prs tm tc fs fd sp dp)) = mnodes g.
Proof.
  induction prs as [|[sn dn] rest IH]; intro g; simpl; auto.
  destruct (lookup dp fd) as [fdv|]; simpl; auto.
  destruct (g_add_arc g sn dn tm (tc + fdv)) as [[g1 b1]|e] eqn:E1; simpl; auto.
  apply add_arc_nodes in E1.
  destruct (lookup sp fs) as [fsv|]; simpl; auto.
  destruct (g_add_arc g1 dn sn tm (tc + fsv)) as [[g2 b2]|e] eqn:E2; simpl; auto.
  apply add_arc_nodes in E2. rewrite IH. congruence.
Qed.

Lemma travel_d_nodes pm sp dist speed unit fs fd dps : forall g,
  mnodes (fst (travel_d g pm sp dps dist speed unit fs fd)) = mnodes g.
Proof.
  induction dps as [|dp rest IH]; intro g; simpl; auto.
  destruct (lookup2 sp dp dist) as [dd|]; simpl; auto.
  destruct (Qeq_bool speed 0); simpl; auto.
  destruct (pm_get sp pm) as [ms|]; simpl; auto.
  destruct (pm_get dp pm) as [md|]; simpl; auto.
  pose proof (travel_pairs_nodes (dd / speed) (dd * unit) fs fd sp dp (list_prod ms md) g) as T.
  destruct (travel_pairs g (list_prod ms md) (dd / speed) (dd * unit) fs fd sp dp) as [g' [e|]]; simpl in *; auto.
  rewrite IH. exact T.
Qed.

Lemma travel_s_nodes pm dps dist speed unit fs fd sps : forall g,
  mnodes (fst (travel_s g pm sps dps dist speed unit fs fd)) = mnodes g.
Proof.
  induction sps as [|sp rest IH]; intro g; simpl; auto.
  pose proof (travel_d_nodes pm sp dist speed unit fs fd dps g) as T.
  destruct (travel_d g pm sp dps dist speed unit fs fd) as [g' [e|]]; simpl in *; auto.
  rewrite IH. exact T.
Qed.

Lemma exit_ports_nodes pm dn tm c ports : forall g,
  mnodes (fst (exit_ports g pm ports dn tm c)) = mnodes g.
Proof.
  induction ports as [|p rest IH]; intro g; simpl; auto.
  destruct (pm_get p pm) as [ns|]; simpl; auto.
  pose proof (arcs_seq_nodes (map (fun x => (x, dn, tm, c)) ns) g) as T.
  destruct (arcs_seq g (map (fun x => (x, dn, tm, c)) ns)) as [g' [e|]]; simpl in *; auto.
  rewrite IH. exact T.
Qed.

Lemma entry_s_nodes_nodes dn limit tm c ns : forall g,
  mnodes (fst (entry_s_nodes g ns dn limit tm c)) = mnodes g.
Proof.
  induction ns as [|x rest IH]; intro g; simpl; auto.
  destruct (find_node x (mnodes g)) as [n|]; simpl; auto.
  destruct (ext_lt_q (hi n) limit); auto.
  destruct (g_add_arc g dn x tm c) as [[g' b]|e] eqn:E; simpl; auto.
  apply add_arc_nodes in E. rewrite IH. exact E.
Qed.

Lemma entry_s_ports_nodes pm dn limit tm c ports : forall g,
  mnodes (fst (entry_s_ports g pm ports dn limit tm c)) = mnodes g.
Proof.
  induction ports as [|p rest IH]; intro g; simpl; auto.
  destruct (pm_get p pm) as [ns|]; simpl; auto.
  pose proof (entry_s_nodes_nodes dn limit tm c ns g) as T.
  destruct (entry_s_nodes g ns dn limit tm c) as [g' [e|]]; simpl in *; auto.
  rewrite IH. exact T.
Qed.

Lemma entry_d_nodes_grows dn limit tm c size ns : forall g nd,
  grows (mnodes g) (mnodes (fst (fst (entry_d_nodes g ns dn limit tm c size nd)))).
Proof.
  induction ns as [|x rest IH]; intros g nd; simpl; [apply grows_refl|].
  destruct (find_node x (mnodes g)) as [n|]; simpl; [|apply grows_refl].
  destruct (ext_lt_q (hi n) limit); [|apply IH].
  destruct (g_add_node g (NDum nd) (- size) 0 QInf) as [g1|e] eqn:E1; simpl; [|apply grows_refl].
  apply g_add_node_grows in E1; [|reflexivity].
  destruct (g_add_arc g1 dn (NDum nd) 0 0) as [[g2 b2]|e] eqn:E2; simpl; [|exact E1].
  apply add_arc_nodes in E2.
  destruct (g_add_arc g2 (NDum nd) x tm c) as [[g3 b3]|e] eqn:E3; simpl; [|rewrite E2; exact E1].
  apply add_arc_nodes in E3.
  eapply grows_trans; [exact E1|]. rewrite <- E2, <- E3. apply IH.
Qed.

Lemma entry_d_ports_grows pm dn limit tm c size ports : forall g nd,
  grows (mnodes g) (mnodes (fst (entry_d_ports g pm ports dn limit tm c size nd))).
Proof.
  induction ports as [|p rest IH]; intros g nd; simpl; [apply grows_refl|].
  destruct (pm_get p pm) as [ns|]; simpl; [|apply grows_refl].
  pose proof (entry_d_nodes_grows dn limit tm c size ns g nd) as T.
  destruct (entry_d_nodes g ns dn limit tm c size nd) as [[g' [e|]] nd']; simpl in *; auto.
  eapply grows_trans; [exact T | apply IH].
Qed.

Lemma add_nodes_loop_grows name init rate cap dl : forall fuel s k acc,
  grows (mnodes (gr s)) (mnodes (gr (fst (add_nodes_loop fuel s name init rate cap dl k acc)))).
Proof.
  induction fuel as [|f IH]; intros s k acc; simpl; [apply grows_refl|].
  destruct (Qltb (horizon s) (snd (window (csize s) k init rate cap))); simpl; [apply grows_refl|].
  destruct (g_add_node (gr s) (NVisit name k) dl _ _) as [g'|e] eqn:E; simpl; [|apply grows_refl].
  apply g_add_node_grows in E; [|exact I].
  eapply grows_trans; [exact E|].
  match goal with |- context [add_nodes_loop f ?s2 _ _ _ _ _ _ _] => apply (IH s2) end.
Qed.

Lemma mstep_grows s o : grows (mnodes (gr s)) (mnodes (gr (fst (mstep s o)))).
Proof.
  destruct o as [name init rate cap | dist speed unit fs fd | tm c | limit tm c]; cbn [mstep].
  - unfold add_nodes, add_nodes_fuel.
    match goal with |- context [if ?b then _ else _] => destruct b end; cbn [fst gr]; [apply grows_refl|].
    match goal with |- context [add_nodes_loop ?f ?s1 ?name ?init ?rate ?cap ?dl 0%nat []] =>
      pose proof (add_nodes_loop_grows name init rate cap dl f s1 0%nat []) as A;
      destruct (add_nodes_loop f s1 name init rate cap dl 0%nat []) as [s' [l|e]] end; cbn [fst gr] in *; exact A.
  - unfold of_gres, add_travel_arcs. cbn [fst set_gr gr]. apply grows_eq. apply travel_s_nodes.
  - unfold of_gres, add_exit_arcs. cbn [fst set_gr gr]. apply grows_eq. apply exit_ports_nodes.
  - unfold of_gres, add_entry_arcs. cbn [fst set_gr gr].
    pose proof (entry_s_ports_nodes (pmap s) (depot_name (gr s)) limit tm c (sports s) (gr s)) as T.
    destruct (entry_s_ports (gr s) (pmap s) (sports s) (depot_name (gr s)) limit tm c) as [g1 [e|]]; cbn [fst] in *.
    + apply grows_eq. exact T.
    + rewrite <- T. apply entry_d_ports_grows.
Qed.

Lemma mrun_grows ops : forall s, grows (mnodes (gr s)) (mnodes (gr (mrun ops s))).
Proof.
  induction ops as [|o ops IH]; intro s; simpl; [apply grows_refl|].
  eapply grows_trans; [apply mstep_grows|]. unfold mrun in IH. apply IH.
Qed.

(* over EVERY history of the four operations: the depot stays first with its window (0, inf), and every node
   with an unbounded window opens at 0 *)
Theorem every_history_nodes size H ops :
  let g := gr (mrun ops (init_state size H)) in
  (exists rest, mnodes g = mkNode NDepot 0 0 QInf :: rest) /\ Forall unb_ok (mnodes g).
Proof.
  intro g. destruct (mrun_grows ops (init_state size H)) as [e [E F]]. fold g in E. simpl in E.
  split; [exists e; exact E|]. rewrite E. constructor; [reflexivity | exact F].
Qed.

Theorem every_history_depot_window size H ops : depot_window_ok (gr (mrun ops (init_state size H))).
Proof.
  destruct (every_history_nodes size H ops) as [[rest E] _]. unfold depot_window_ok.
  rewrite E. eexists _, _. split; [reflexivity|]. simpl. repeat split; auto. lra.
Qed.

(* hence, for every history: the hypotheses "L >= 3, depot window end infinite, depot window start >= 0"
   of the sequence heuristic hold iff the horizon is at least the shortest positive travel time *)
Theorem seq_hyps_iff size H ops :
  let w := wrun ops (winit size H) in
  forall V L, seq_params w = Ok (V, L) ->
  exists mt, min_travel_time (gr (wst w)) = Ok mt /\ 0 < mt /\ V = est_max_vehicles (gr (wst w)) /\
             L = seq_len H mt /\
             (((3 <= L)%Z /\ depot_window_ok (gr (wst w))) <-> mt <= H).
Proof.
  intros w V L E.
  destruct (seq_params_ok w V L E) as [mt [E1 [P [EV EL]]]].
  assert (EH : horizon (wst w) = H).
  { unfold w. rewrite wrun_wst. rewrite mrun_horizon. reflexivity. }
  rewrite EH in EL. exists mt. split; auto. split; auto. split; auto. split; auto.
  rewrite EL, seq_len_ge3_iff by exact P.
  assert (D : depot_window_ok (gr (wst w))).
  { unfold w. rewrite wrun_wst. apply every_history_depot_window. }
  tauto.
Qed.

(* for every history and every node: the node has a grid point inside its window iff its window contains an
   integer; nodes with an unbounded window always have one (the appended 0) *)
Theorem every_history_grid_serves order size H ops n : permuting order ->
  let g := gr (mrun ops (init_state size H)) in
  In n (mnodes g) ->
  ((exists x, In x (arc_grid_with order g) /\ lo n <= inject_Z x /\ q_le_ext (inject_Z x) (hi n) = true) <->
   (exists z : Z, lo n <= inject_Z z /\ q_le_ext (inject_Z z) (hi n) = true)).
Proof.
  intros Ho g Hn. split.
  - intros [x [_ H1]]. exists x. exact H1.
  - intros [z [A B]]. destruct (hi n) as [b|] eqn:Eh.
    + exists z. split; [|split; auto]. simpl in B. apply Qle_bool_iff in B.
      apply (grid_covers_window order g n b z); auto.
    + exists 0%Z. destruct (every_history_nodes size H ops) as [_ F]. fold g in F.
      rewrite Forall_forall in F. specialize (F n Hn). unfold unb_ok in F. rewrite Eh in F.
      destruct (arc_grid_spec order g Ho) as [_ [_ [_ [Z0 _]]]].
      split; [exact Z0|]. split; [|reflexivity]. rewrite F. change (inject_Z 0) with 0. lra.
Qed.
