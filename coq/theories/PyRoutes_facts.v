(* PyRoutes_facts.v -- lemmas about the combinators of PyRoutes.v (class independent).
   1. lists: pop / item access at a known position, the last item, comprehensions;
   2. np.array of optional rows;
   3. np.lexsort: its definition IS the documented one -- the result is a permutation of 0..n-1
      (lexsort_idx_perm), sorted by (last key, ..., first key) with ties in increasing position, i.e.
      stable (lexsort_idx_sorted); and the pipeline of both decoders
         a = np.array(tuples); idx = np.lexsort(np.flip(a, -1).T); [tuples[i] for i in idx]
      is the stable insertion sort of the tuples by the lexicographic order of their rows
      (lexsort_pipeline). *)
From Coq Require Import Sorting.Permutation Sorting.Sorted.
From VQ Require Import Base PyEnumCore PyRoutes.

(* ---------- 1. lists ---------- *)
Lemma py_resolve_index_nat len k : (k < len)%nat -> py_resolve_index len (Z.of_nat k) = Ok k.
Proof.
  intros H. unfold py_resolve_index.
  replace (0 <=? Z.of_nat k) with true by (symmetry; apply Z.leb_le; lia).
  replace (Z.of_nat k <? Z.of_nat len) with true by (symmetry; apply Z.ltb_lt; lia).
  cbn [andb]. rewrite Nat2Z.id. reflexivity.
Qed.

Lemma py_resolve_index_nat_out len k : (len <= k)%nat -> py_resolve_index len (Z.of_nat k) = Err IndexError.
Proof.
  intros H. unfold py_resolve_index.
  replace (Z.of_nat k <? Z.of_nat len) with false by (symmetry; apply Z.ltb_ge; lia).
  replace (Z.of_nat k <? 0) with false by (symmetry; apply Z.ltb_ge; lia).
  rewrite andb_false_r. reflexivity.
Qed.

Lemma py_resolve_index_last len : py_resolve_index (S len) (-1) = Ok len.
Proof.
  unfold py_resolve_index.
  replace (0 <=? -1) with false by reflexivity. cbn [andb].
  replace (-1 <? 0) with true by reflexivity.
  replace (- Z.of_nat (S len) <=? -1) with true by (symmetry; apply Z.leb_le; lia).
  cbn [andb]. f_equal. lia.
Qed.

Lemma py_list_item_app {A} (l1 l2 : list A) x : py_list_item (l1 ++ x :: l2) (length l1) = Ok x.
Proof. unfold py_list_item. rewrite nth_error_app2, Nat.sub_diag by lia. reflexivity. Qed.

Lemma remove_nth_app {A} (l1 l2 : list A) x : remove_nth (length l1) (l1 ++ x :: l2) = l1 ++ l2.
Proof. induction l1 as [|a l1 IH]; cbn [length app remove_nth]; [reflexivity | rewrite IH; reflexivity]. Qed.

(* y = l.pop(k) at a position that exists *)
Lemma py_list_pop_app {A} (l1 l2 : list A) x :
  py_list_pop (l1 ++ x :: l2) (Z.of_nat (length l1)) = Ok (x, l1 ++ l2).
Proof.
  unfold py_list_pop. rewrite py_resolve_index_nat by (rewrite app_length; cbn [length]; lia).
  cbn [py_bind]. rewrite py_list_item_app. cbn [py_bind]. rewrite remove_nth_app. reflexivity.
Qed.

Lemma py_list_pop_head {A} (l : list A) x : py_list_pop (x :: l) 0 = Ok (x, l).
Proof. exact (py_list_pop_app [] l x). Qed.

Lemma py_list_pop_nil {A} z : py_list_pop (@nil A) z = Err IndexError.
Proof.
  unfold py_list_pop, py_resolve_index. cbn [length Z.of_nat].
  destruct (0 <=? z) eqn:E1; destruct (z <? 0) eqn:E2; cbn [andb py_bind]; try reflexivity.
  - replace (z <? 0) with false in * by (symmetry; apply Z.ltb_ge; apply Z.leb_le in E1; lia). discriminate.
  - replace (- 0 <=? z) with false by (symmetry; apply Z.leb_gt; apply Z.ltb_lt in E2; lia). reflexivity.
Qed.

(* l[-1] and l[-1] = v on a non-empty list *)
Lemma py_list_getitem_last {A} (l : list A) x : py_list_getitem_z (l ++ [x]) (-1) = Ok x.
Proof.
  unfold py_list_getitem_z. rewrite app_length. cbn [length]. rewrite Nat.add_1_r, py_resolve_index_last.
  cbn [py_bind]. apply py_list_item_app.
Qed.

Lemma list_update_app {A} (l1 l2 : list A) x y : list_update (l1 ++ x :: l2) (length l1) y = l1 ++ y :: l2.
Proof. induction l1 as [|a l1 IH]; cbn [length app list_update]; [reflexivity | rewrite IH; reflexivity]. Qed.

Lemma py_list_setitem_last {A} (l : list A) x y : py_list_setitem_z (l ++ [x]) (-1) y = Ok (l ++ [y]).
Proof.
  unfold py_list_setitem_z. rewrite app_length. cbn [length]. rewrite Nat.add_1_r, py_resolve_index_last.
  cbn [py_bind]. rewrite list_update_app. reflexivity.
Qed.

(* l[k] += 1 on an integer list, for a natural k *)
Lemma py_list_getitem_nat {A} (l : list A) k :
  py_list_getitem_z l (Z.of_nat k) = match nth_error l k with Some a => Ok a | None => Err IndexError end.
Proof.
  unfold py_list_getitem_z. destruct (Nat.ltb_spec k (length l)) as [H|H].
  - rewrite py_resolve_index_nat by exact H. reflexivity.
  - rewrite py_resolve_index_nat_out by exact H. cbn [py_bind].
    destruct (nth_error l k) eqn:E; [|reflexivity]. apply nth_error_None in H. congruence.
Qed.

Lemma py_list_setitem_nat {A} (l : list A) k v :
  (k < length l)%nat -> py_list_setitem_z l (Z.of_nat k) v = Ok (list_update l k v).
Proof. intros H. unfold py_list_setitem_z. rewrite py_resolve_index_nat by exact H. reflexivity. Qed.

(* comprehensions *)
Lemma py_mapE_map {A B} (f : A -> result B) (g : A -> B) (l : list A) :
  (forall a, In a l -> f a = Ok (g a)) -> py_mapE f l = Ok (map g l).
Proof.
  induction l as [|a l IH]; intros H; cbn [py_mapE map]; [reflexivity|].
  rewrite (H a (or_introl eq_refl)), IH by (intros b Hb; apply H; right; exact Hb). reflexivity.
Qed.

(* a comprehension whose element calls a method that settles the object at the first call *)
Lemma py_mapM_settle {S A B} (f : S -> A -> result (S * B)) (g : A -> B) (s0 s1 : S) (l : list A) :
  l <> [] -> (forall a, f s0 a = Ok (s1, g a)) -> (forall a, f s1 a = Ok (s1, g a)) ->
  py_mapM f l s0 = Ok (s1, map g l).
Proof.
  intros Hne H0 H1.
  assert (Hs : forall l', py_mapM f l' s1 = Ok (s1, map g l')).
  { induction l' as [|a l' IH]; cbn [py_mapM map]; [reflexivity|]. rewrite H1, IH. reflexivity. }
  destruct l as [|a l]; [congruence|]. cbn [py_mapM map]. rewrite H0, Hs. reflexivity.
Qed.

(* ---------- 2. np.array of optional rows ---------- *)
Lemma opt_list_map_Some {A} (l : list A) : opt_list (map Some l) = l.
Proof. unfold opt_list. induction l as [|a l IH]; cbn [map flat_map app]; [reflexivity | rewrite IH; reflexivity]. Qed.

Lemma np_array_rows_all {A} (row : A -> list Z) (l : list A) :
  np_array_rows (map (option_map row) (map Some l)) = Ok (Nd2 (map row l)).
Proof.
  unfold np_array_rows. rewrite map_map. cbn [option_map]. rewrite <- (map_map row Some).
  replace (forallb is_some (map Some (map row l))) with true.
  - rewrite opt_list_map_Some. reflexivity.
  - symmetry. apply forallb_forall. intros o Ho. apply in_map_iff in Ho. destruct Ho as (a & <- & _). reflexivity.
Qed.

(* a list of options is all Some, all None, or mixed *)
Lemma np_array_rows_cases {A} (row : A -> list Z) (l : list (option A)) :
  (exists sel, l = map Some sel) \/
  (l <> [] /\ (forall o, In o l -> o = None) /\
   np_array_rows (map (option_map row) l) = Ok (NdObj (length l))) \/
  ((exists a, In (Some a) l) /\ In None l /\ np_array_rows (map (option_map row) l) = Err ValueError).
Proof.
  induction l as [|o l IH].
  - left. exists []. reflexivity.
  - destruct IH as [[sel ->] | [(Hne & Hn & E) | ((a & Ha) & Hn & E)]].
    + destruct o as [a|].
      * left. exists (a :: sel). reflexivity.
      * destruct sel as [|b sel].
        -- right. left. split; [discriminate|]. split; [intros o [<-|[]]; reflexivity | reflexivity].
        -- right. right. split; [exists b; right; left; reflexivity|]. split; [left; reflexivity|].
           unfold np_array_rows. cbn [map option_map forallb is_some negb andb]. reflexivity.
    + destruct o as [a|].
      * right. right. split; [exists a; left; reflexivity|].
        destruct l as [|o' l]; [congruence|]. pose proof (Hn o' (or_introl eq_refl)) as ->.
        split; [right; left; reflexivity|].
        unfold np_array_rows. cbn [map option_map forallb is_some negb andb]. reflexivity.
      * right. left. split; [discriminate|]. split; [intros o [<-|Ho]; [reflexivity | apply Hn; exact Ho]|].
        unfold np_array_rows in *. cbn [map option_map forallb is_some negb andb length].
        destruct (forallb is_some (map (option_map row) l)) eqn:E1.
        { destruct l as [|o' l]; [congruence|]. pose proof (Hn o' (or_introl eq_refl)) as ->. discriminate E1. }
        destruct (forallb (fun o => negb (is_some o)) (map (option_map row) l)); [|discriminate E].
        rewrite map_length in *. reflexivity.
    + right. right. split; [exists a; right; exact Ha|]. split; [right; exact Hn|].
      unfold np_array_rows in *. cbn [map forallb].
      destruct (forallb is_some (map (option_map row) l)) eqn:E1; [discriminate E|].
      destruct (forallb (fun o => negb (is_some o)) (map (option_map row) l)) eqn:E2; [discriminate E|].
      rewrite !andb_false_r. reflexivity.
Qed.

(* ---------- 3. sorting ---------- *)
Lemma insert_by_perm {A} (leb : A -> A -> bool) x l : Permutation (insert_by leb x l) (x :: l).
Proof.
  induction l as [|y l IH]; cbn [insert_by]; [reflexivity|].
  destruct (leb x y); [reflexivity|]. rewrite IH. apply perm_swap.
Qed.

Lemma sort_by_perm {A} (leb : A -> A -> bool) l : Permutation (sort_by leb l) l.
Proof.
  unfold sort_by. induction l as [|x l IH]; cbn [fold_right]; [reflexivity|].
  rewrite insert_by_perm, IH. reflexivity.
Qed.

Lemma sort_by_In {A} (leb : A -> A -> bool) l x : In x (sort_by leb l) <-> In x l.
Proof. split; apply Permutation_in; [|symmetry]; apply sort_by_perm. Qed.

Lemma sort_by_length {A} (leb : A -> A -> bool) l : length (sort_by leb l) = length l.
Proof. apply Permutation_length, sort_by_perm. Qed.

(* two comparisons that agree on the elements of the list sort it the same way *)
Lemma insert_by_ext_in {A} (leb1 leb2 : A -> A -> bool) x l :
  (forall b, In b l -> leb1 x b = leb2 x b) -> insert_by leb1 x l = insert_by leb2 x l.
Proof.
  induction l as [|y l IH]; intros H; cbn [insert_by]; [reflexivity|].
  rewrite (H y (or_introl eq_refl)), IH by (intros b Hb; apply H; right; exact Hb). reflexivity.
Qed.

Lemma sort_by_ext_in {A} (leb1 leb2 : A -> A -> bool) l :
  (forall a b, In a l -> In b l -> leb1 a b = leb2 a b) -> sort_by leb1 l = sort_by leb2 l.
Proof.
  unfold sort_by. induction l as [|x l IH]; intros H; cbn [fold_right]; [reflexivity|].
  rewrite IH by (intros a b Ha Hb; apply H; right; assumption).
  apply insert_by_ext_in. intros b Hb. apply H; [left; reflexivity|].
  right. apply (sort_by_In leb2 l b). exact Hb.
Qed.

(* sorting positions by the items they address = sorting the items *)
Lemma insert_by_map {A B} (f : A -> B) (leb : B -> B -> bool) x l :
  map f (insert_by (fun a b => leb (f a) (f b)) x l) = insert_by leb (f x) (map f l).
Proof.
  induction l as [|y l IH]; cbn [insert_by map]; [reflexivity|].
  destruct (leb (f x) (f y)); cbn [map]; [reflexivity | rewrite IH; reflexivity].
Qed.

Lemma sort_by_map {A B} (f : A -> B) (leb : B -> B -> bool) l :
  map f (sort_by (fun a b => leb (f a) (f b)) l) = sort_by leb (map f l).
Proof.
  unfold sort_by. induction l as [|x l IH]; cbn [fold_right map]; [reflexivity|].
  rewrite insert_by_map, IH. reflexivity.
Qed.

Lemma map_nth_seq {A} (l : list A) d : map (fun i => nth i l d) (seq 0 (length l)) = l.
Proof.
  apply (nth_ext _ _ d d); [rewrite map_length, seq_length; reflexivity|].
  intros n Hn. rewrite map_length, seq_length in Hn.
  rewrite (nth_indep _ d (nth (length l) l d)) by (rewrite map_length, seq_length; exact Hn).
  rewrite (map_nth (fun i => nth i l d)), seq_nth by exact Hn. reflexivity.
Qed.

(* the order np.lexsort sorts by, on rows: first differing column decides, equal rows compare as <= *)
Fixpoint lex_leb_rows (ra rb : list Z) : bool :=
  match ra, rb with
  | a :: ra', b :: rb' => if a <? b then true else if b <? a then false else lex_leb_rows ra' rb'
  | _, _ => true
  end.

(* the same, reading the columns cs of two rows *)
Fixpoint lex_leb_cols (cs : list nat) (ra rb : list Z) : bool :=
  match cs with
  | [] => true
  | c :: cs' =>
      let a := nth c ra 0 in
      let b := nth c rb 0 in
      if a <? b then true else if b <? a then false else lex_leb_cols cs' ra rb
  end.

Lemma nth_nil_Z c : nth c (@nil Z) 0 = 0.
Proof. destruct c; reflexivity. Qed.

Lemma lex_leb_keys_cols (R : list (list Z)) cs i j :
  lex_leb_keys (map (fun c => map (fun r => nth c r 0) R) cs) i j = lex_leb_cols cs (nth i R []) (nth j R []).
Proof.
  assert (Hc : forall c k, nth k (map (fun r => nth c r 0) R) 0 = nth c (nth k R []) 0).
  { intros c k. transitivity (nth k (map (fun r => nth c r 0) R) ((fun r => nth c r 0) [])).
    - cbn beta. rewrite nth_nil_Z. reflexivity.
    - exact (map_nth (fun r => nth c r 0) R [] k). }
  induction cs as [|c cs IH]; cbn [map lex_leb_keys lex_leb_cols]; [reflexivity|].
  rewrite !Hc, IH. reflexivity.
Qed.

Lemma lex_leb_cols_app cs la lb xa xb :
  (forall c, In c cs -> (c < length la)%nat /\ (c < length lb)%nat) ->
  lex_leb_cols cs (la ++ xa) (lb ++ xb) = lex_leb_cols cs la lb.
Proof.
  induction cs as [|c cs IH]; intros H; cbn [lex_leb_cols]; [reflexivity|].
  destruct (H c (or_introl eq_refl)) as [Ha Hb].
  rewrite !app_nth1 by assumption. rewrite IH by (intros c' Hc'; apply H; right; exact Hc'). reflexivity.
Qed.

Lemma lex_leb_cols_rev n : forall ra rb, length ra = n -> length rb = n ->
  lex_leb_cols (rev (seq 0 n)) (rev ra) (rev rb) = lex_leb_rows ra rb.
Proof.
  induction n as [|n IH]; intros ra rb Ha Hb.
  - destruct ra, rb; try discriminate. reflexivity.
  - destruct ra as [|a ra], rb as [|b rb]; try discriminate.
    injection Ha as Ha. injection Hb as Hb.
    rewrite seq_S, rev_app_distr. cbn [rev app plus lex_leb_cols lex_leb_rows].
    rewrite !app_nth2 by (rewrite rev_length; lia). rewrite !rev_length, Ha, Hb, Nat.sub_diag. cbn [nth].
    rewrite lex_leb_cols_app, IH by
      (try assumption; intros c Hc; rewrite <- in_rev in Hc; apply in_seq in Hc; rewrite !rev_length; lia).
    reflexivity.
Qed.

(* the keys np.lexsort receives in the decoders: the transposed, column-reversed rows *)
Lemma lexsort_keys_rows (rows : list (list Z)) n i j :
  (forall r, In r rows -> length r = n) -> (i < length rows)%nat -> (j < length rows)%nat ->
  lex_leb_keys (rev (np_transpose (map (@rev Z) rows))) i j = lex_leb_rows (nth i rows []) (nth j rows []).
Proof.
  intros Hn Hi Hj. unfold np_transpose.
  assert (Hc : np_ncols (map (@rev Z) rows) = n).
  { destruct rows as [|r rows]; [cbn in Hi; lia|]. cbn [map np_ncols]. rewrite rev_length. apply Hn. left. reflexivity. }
  rewrite Hc, <- map_rev, lex_leb_keys_cols.
  change (@nil Z) with (rev (@nil Z)). rewrite !(map_nth (@rev Z)). cbn [rev].
  apply lex_leb_cols_rev; apply Hn, nth_In; assumption.
Qed.

(* np.lexsort returns a permutation of the positions *)
Lemma lexsort_idx_perm keys : Permutation (lexsort_idx keys) (seq 0 (np_ncols keys)).
Proof. apply sort_by_perm. Qed.

(* ... sorted by (last key, ..., first key), positions with equal keys in increasing order (stability):
   consecutive positions p, q of the result satisfy  key(p) <= key(q)  and  (key(q) <= key(p) -> p < q) *)
Definition lex_stable_lt (ks : list (list Z)) (p q : nat) : Prop :=
  lex_leb_keys ks p q = true /\ (lex_leb_keys ks q p = true -> (p < q)%nat).

Lemma lex_leb_keys_total ks p q : lex_leb_keys ks p q = false -> lex_leb_keys ks q p = true.
Proof.
  induction ks as [|k ks IH]; cbn [lex_leb_keys]; [discriminate|].
  destruct (nth p k 0 <? nth q k 0) eqn:E1; [discriminate|].
  destruct (nth q k 0 <? nth p k 0) eqn:E2; [reflexivity|]. exact IH.
Qed.

Lemma insert_by_stable_sorted ks x l :
  (forall y, In y l -> (x < y)%nat) -> Sorted (lex_stable_lt ks) l ->
  Sorted (lex_stable_lt ks) (insert_by (lex_leb_keys ks) x l).
Proof.
  intros Hlt Hs. induction l as [|y l IH]; cbn [insert_by].
  - constructor; constructor.
  - destruct (lex_leb_keys ks x y) eqn:E.
    + constructor; [exact Hs|]. constructor. split; [exact E|]. intros _. apply Hlt. left. reflexivity.
    + inversion Hs as [|? ? Hs' Hhd]; subst.
      constructor; [apply IH; [intros z Hz; apply Hlt; right; exact Hz | exact Hs']|].
      assert (Hyx : lex_stable_lt ks y x).
      { split; [apply lex_leb_keys_total; exact E|]. rewrite E. discriminate. }
      destruct l as [|z l]; cbn [insert_by]; [constructor; exact Hyx|].
      destruct (lex_leb_keys ks x z); constructor; [exact Hyx|].
      inversion Hhd; subst. assumption.
Qed.

Lemma sort_seq_stable_sorted ks n a :
  Sorted (lex_stable_lt ks) (sort_by (lex_leb_keys ks) (seq a n)).
Proof.
  revert a. induction n as [|n IH]; intros a; cbn [seq]; unfold sort_by; cbn [fold_right]; [constructor|].
  apply insert_by_stable_sorted; [|apply IH].
  intros y Hy. apply (sort_by_In (lex_leb_keys ks) (seq (S a) n) y) in Hy. apply in_seq in Hy. lia.
Qed.

Lemma lexsort_idx_sorted keys : Sorted (lex_stable_lt (rev keys)) (lexsort_idx keys).
Proof. apply sort_seq_stable_sorted. Qed.

(* the pipeline of the decoders:  a = np.array(tuples); idx = np.lexsort(np.flip(a, -1).T);
   [tuples[i] for i in idx]  is the stable insertion sort of the tuples by the order of their rows *)
Lemma lexsort_pipeline {A} (row : A -> list Z) (leb : A -> A -> bool) (n : nat) (sel : list A) :
  sel <> [] -> (0 < n)%nat -> (forall a, length (row a) = n) ->
  (forall a b, lex_leb_rows (row a) (row b) = leb a b) ->
  exists idxs,
    np_lexsort (np_T (np_flip (Nd2 (map row sel)) (-1))) = Ok (NdIdx idxs) /\
    py_mapE (fun i => py_bind (py_list_item (map Some sel) i) (fun t => Ok t)) idxs
    = Ok (map Some (sort_by leb sel)).
Proof.
  intros Hne Hn Hrow Hleb. destruct sel as [|d sel0] eqn:Es; [congruence|]. rewrite <- Es in *. clear Hne.
  set (rows := map row sel). set (ks := np_transpose (map (@rev Z) rows)).
  assert (Hlen : length rows = length sel) by apply map_length.
  assert (Hrows : forall r, In r rows -> length r = n).
  { intros r Hr. apply in_map_iff in Hr. destruct Hr as (a & <- & _). apply Hrow. }
  assert (Hcols : np_ncols (map (@rev Z) rows) = n).
  { unfold rows. rewrite Es. cbn [map np_ncols]. rewrite rev_length. apply Hrow. }
  assert (Hks : ks <> []).
  { unfold ks, np_transpose. rewrite Hcols. destruct n; [lia|]. cbn [seq map]. discriminate. }
  assert (Hnk : np_ncols ks = length sel).
  { unfold ks, np_transpose. rewrite Hcols. destruct n; [lia|]. cbn [seq map np_ncols].
    rewrite !map_length. exact Hlen. }
  exists (lexsort_idx ks). split.
  - cbn [np_flip]. replace (-1 =? 0) with false by reflexivity. cbn [np_T]. fold rows. fold ks.
    destruct ks; [congruence | reflexivity].
  - unfold lexsort_idx. rewrite Hnk.
    rewrite (sort_by_ext_in (lex_leb_keys (rev ks)) (fun i j => leb (nth i sel d) (nth j sel d))).
    + rewrite (py_mapE_map _ (fun i => Some (nth i sel d))).
      * rewrite <- (map_map (fun i => nth i sel d) Some), (sort_by_map (fun i => nth i sel d) leb), map_nth_seq.
        reflexivity.
      * intros i Hi. apply sort_by_In, in_seq in Hi. unfold py_list_item.
        rewrite nth_error_map, (nth_error_nth' sel d) by lia. reflexivity.
    + intros i j Hi Hj. apply in_seq in Hi. apply in_seq in Hj.
      unfold ks. rewrite (lexsort_keys_rows rows n i j Hrows) by lia.
      unfold rows. rewrite !(nth_indep (map row sel) [] (row d)) by (rewrite map_length; lia).
      rewrite !map_nth. apply Hleb.
Qed.
