(* Mirp_graph_facts.v -- the MIRP graph invariant (alternation of loading and discharging nodes,
   timing filter) over every history of the four operations, and the load along depot-to-depot
   paths (property C12). *)
From Coq Require Import QArith Qround Lqa Lia Permutation.
From VQ Require Import Base Mirp Mirp_facts.
Local Open Scope Q_scope.

(* ---------- specification predicates ---------- *)
(* demand of a node is fixed by its kind: 0 at the depot, -size at loading nodes, +size at discharging nodes *)
Definition node_ok (size : Q) (n : mnode) : Prop :=
  match kind_of n with
  | KDepot => dem n == 0
  | KSupply | KDum => dem n == - size
  | KDemand => dem n == size
  end.

(* a stored arc: filed under the positions of its endpoints, of an admissible shape, passing the filter *)
Definition arc_ok (l : list mnode) (k : nat * nat) (a : marc) : Prop :=
  (fst k < length l)%nat /\ (snd k < length l)%nat /\
  aorig a = nm (nth (fst k) l dummy_mnode) /\ adest a = nm (nth (snd k) l dummy_mnode) /\
  arc_kind_ok (kind_of (nth (fst k) l dummy_mnode)) (kind_of (nth (snd k) l dummy_mnode)) = true /\
  arc_filter (nth (fst k) l dummy_mnode) (nth (snd k) l dummy_mnode) (att a) = true.

Definition GInv (size : Q) (g : mgraph) : Prop :=
  (exists d0 rest, mnodes g = d0 :: rest /\ nm d0 = NDepot /\ hi d0 = QInf) /\
  NoDup (map nm (mnodes g)) /\
  Forall (node_ok size) (mnodes g) /\
  (forall k a, In (k, a) (marcs g) -> arc_ok (mnodes g) k a).

(* kind of the node called x, if there is one *)
Definition kin (l : list mnode) (x : nname) : option kind := option_map kind_of (find_node x l).

(* port_mapping lists nodes of the right kind *)
Definition pm_ok (s : mstate) : Prop :=
  forall p l x, pm_get p (pmap s) = Some l -> In x l ->
    (In p (sports s) -> kin (mnodes (gr s)) x = Some KSupply) /\
    (In p (dports s) -> kin (mnodes (gr s)) x = Some KDemand).

Definition SInv (s : mstate) : Prop :=
  0 < csize s /\ GInv (csize s) (gr s) /\ NoDup (sports s ++ dports s) /\ pm_ok s.

(* ---------- lists ---------- *)
Lemma NoDup_app_disjoint {A} (l l' : list A) (a : A) : NoDup (l ++ l') -> In a l -> In a l' -> False.
Proof.
  induction l as [|x l IH]; simpl; intros H H1 H2; [contradiction|].
  apply NoDup_cons_iff in H. destruct H as [Hn Hd]. destruct H1 as [->|H1].
  - apply Hn. apply in_app_iff. auto.
  - apply IH; auto.
Qed.
Lemma NoDup_app_swap {A} (l l' : list A) : NoDup (l ++ l') -> NoDup (l' ++ l).
Proof. intro H. apply (Permutation.Permutation_NoDup (Permutation.Permutation_app_comm l l')). auto. Qed.

(* ---------- positions ---------- *)
Lemma pos_of_nth x l i : pos_of x l = Some i -> (i < length l)%nat /\ nm (nth i l dummy_mnode) = x.
Proof.
  revert i. induction l as [|n l IH]; simpl; intros i H; [discriminate|].
  destruct (nname_eqb x (nm n)) eqn:E.
  - inversion H; subst. apply nname_eqb_eq in E. split; [lia | auto].
  - destruct (pos_of x l) as [j|]; simpl in H; [|discriminate]. inversion H; subst.
    destruct (IH j eq_refl) as [A B]. split; [lia | auto].
Qed.

Lemma pos_of_app x l e i : pos_of x l = Some i -> pos_of x (l ++ e) = Some i.
Proof.
  revert i. induction l as [|n l IH]; simpl; intros i H; [discriminate|].
  destruct (nname_eqb x (nm n)); auto.
  destruct (pos_of x l) as [j|]; simpl in H; [|discriminate].
  rewrite (IH j eq_refl). auto.
Qed.

Lemma pos_of_new x l n : has_name x l = false -> nm n = x -> pos_of x (l ++ [n]) = Some (length l).
Proof.
  unfold has_name. intros H E. induction l as [|m l IH]; simpl in *.
  - rewrite <- E, nname_eqb_refl. reflexivity.
  - destruct (nname_eqb x (nm m)); [discriminate|].
    destruct (pos_of x l); simpl in *; [discriminate|]. rewrite IH; auto.
Qed.

Lemma kin_pos l x i : pos_of x l = Some i -> kin l x = Some (kind_of (nth i l dummy_mnode)).
Proof. intro H. unfold kin, find_node. rewrite H. reflexivity. Qed.

Lemma kin_app l e x k : kin l x = Some k -> kin (l ++ e) x = Some k.
Proof.
  unfold kin, find_node. destruct (pos_of x l) as [i|] eqn:E; simpl; [|discriminate].
  rewrite (pos_of_app x l e i E). simpl. destruct (pos_of_nth x l i E) as [A _].
  rewrite app_nth1 by auto. auto.
Qed.

Lemma kin_new l n : has_name (nm n) l = false -> kin (l ++ [n]) (nm n) = Some (kind_of n).
Proof.
  intro H. unfold kin, find_node. rewrite (pos_of_new (nm n) l n H eq_refl). simpl.
  rewrite app_nth2 by lia. rewrite Nat.sub_diag. reflexivity.
Qed.

Lemma kin_has l x k : kin l x = Some k -> has_name x l = true.
Proof. unfold kin, find_node, has_name. destruct (pos_of x l); simpl; [auto | discriminate]. Qed.

Lemma arc_ok_app l e k a : arc_ok l k a -> arc_ok (l ++ e) k a.
Proof.
  unfold arc_ok. intros [A [B [C [D [E F]]]]]. rewrite app_length.
  rewrite !app_nth1 by auto. repeat split; auto; lia.
Qed.

(* ---------- add_arc / add_node keep the graph invariant ---------- *)
Lemma add_arc_keeps size g o d tm c g' b ko kd :
  GInv size g ->
  kin (mnodes g) o = Some ko -> kin (mnodes g) d = Some kd -> arc_kind_ok ko kd = true ->
  g_add_arc g o d tm c = Ok (g', b) ->
  GInv size g' /\ mnodes g' = mnodes g.
Proof.
  intros [G1 [G2 [G3 G4]]] Ko Kd Hk H. unfold g_add_arc in H.
  destruct (pos_of o (mnodes g)) as [i|] eqn:Ei; [|discriminate].
  destruct (pos_of d (mnodes g)) as [j|] eqn:Ej; [|discriminate].
  rewrite (kin_pos _ _ _ Ei) in Ko. rewrite (kin_pos _ _ _ Ej) in Kd.
  inversion Ko; inversion Kd; subst ko kd.
  destruct (pos_of_nth _ _ _ Ei) as [Li Ni]. destruct (pos_of_nth _ _ _ Ej) as [Lj Nj].
  destruct (arc_filter (nth i (mnodes g) dummy_mnode) (nth j (mnodes g) dummy_mnode) tm) eqn:F;
    inversion H; subst; clear H.
  - split; [|reflexivity]. split; [|split; [|split]]; auto. cbn [mnodes marcs].
    intros k a Hin. apply dict_set_In in Hin. destruct Hin as [E|Hin]; [|auto].
    inversion E; subst. unfold arc_ok. cbn [fst snd aorig adest att]. repeat split; auto.
  - split; [|reflexivity]. split; [|split; [|split]]; auto.
Qed.

Lemma add_arc_err_or_ok g o d tm c :
  (exists e, g_add_arc g o d tm c = Err e) \/ (exists g' b, g_add_arc g o d tm c = Ok (g', b)).
Proof. destruct (g_add_arc g o d tm c) as [[g' b]|e]; [right; eauto | left; eauto]. Qed.

Lemma add_node_keeps size g x dm a b g' :
  GInv size g -> node_ok size (mkNode x dm a b) ->
  g_add_node g x dm a b = Ok g' ->
  GInv size g' /\ mnodes g' = mnodes g ++ [mkNode x dm a b] /\ has_name x (mnodes g) = false.
Proof.
  intros [[d0 [rest [G0 [G0a G0b]]]] [G2 [G3 G4]]] Hn H. unfold g_add_node in H.
  destruct (has_name x (mnodes g)) eqn:E; [discriminate|].
  destruct (negb (q_le_ext a b)); [discriminate|]. inversion H; subst; clear H.
  cbn [mnodes marcs]. split; [|auto]. split; [|split; [|split]]; cbn [mnodes marcs].
  - exists d0, (rest ++ [mkNode x dm a b]). rewrite G0. auto.
  - rewrite map_app. simpl. apply NoDup_snoc; auto.
    intro Hin. apply has_name_In in Hin. congruence.
  - apply Forall_app. split; auto.
  - intros k ar Hin. apply arc_ok_app. auto.
Qed.

(* ---------- the loops that only add arcs ---------- *)
Lemma arcs_seq_keeps size reqs : forall g,
  GInv size g ->
  (forall o d tm c, In (o, d, tm, c) reqs ->
     exists ko kd, kin (mnodes g) o = Some ko /\ kin (mnodes g) d = Some kd /\ arc_kind_ok ko kd = true) ->
  GInv size (fst (arcs_seq g reqs)) /\ mnodes (fst (arcs_seq g reqs)) = mnodes g.
Proof.
  induction reqs as [|[[[o d] tm] c] reqs IH]; intros g G Hr; simpl; auto.
  destruct (g_add_arc g o d tm c) as [[g' b]|e] eqn:E; simpl; auto.
  destruct (Hr o d tm c (or_introl eq_refl)) as [ko [kd [A [B C]]]].
  destruct (add_arc_keeps size g o d tm c g' b ko kd G A B C E) as [G' N'].
  destruct (IH g' G') as [G'' N''].
  - intros o' d' tm' c' Hin. rewrite N'. apply (Hr o' d' tm' c'). right. auto.
  - split; auto. congruence.
Qed.

Lemma travel_pairs_keeps size tm tc fs fd sp dp prs : forall g,
  GInv size g ->
  (forall sn dn, In (sn, dn) prs ->
     kin (mnodes g) sn = Some KSupply /\ kin (mnodes g) dn = Some KDemand) ->
  GInv size (fst (travel_pairs g prs tm tc fs fd sp dp)) /\
  mnodes (fst (travel_pairs g prs tm tc fs fd sp dp)) = mnodes g.
Proof.
  induction prs as [|[sn dn] prs IH]; intros g G Hp; simpl; auto.
  destruct (Hp sn dn (or_introl eq_refl)) as [Ks Kd].
  destruct (lookup dp fd) as [fdv|]; simpl; auto.
  destruct (g_add_arc g sn dn tm (tc + fdv)) as [[g1 b1]|e] eqn:E1; simpl; auto.
  destruct (add_arc_keeps size g sn dn tm _ g1 b1 KSupply KDemand G Ks Kd eq_refl E1) as [G1 N1].
  destruct (lookup sp fs) as [fsv|]; simpl; [|split; auto].
  rewrite <- N1 in Ks, Kd.
  destruct (g_add_arc g1 dn sn tm (tc + fsv)) as [[g2 b2]|e] eqn:E2; simpl; [|split; auto].
  destruct (add_arc_keeps size g1 dn sn tm _ g2 b2 KDemand KSupply G1 Kd Ks eq_refl E2) as [G2 N2].
  destruct (IH g2 G2) as [G3 N3].
  - intros sn' dn' Hin. rewrite N2, N1. apply Hp. right. auto.
  - split; auto. congruence.
Qed.

Lemma travel_d_keeps size pm sp dist speed unit fs fd dps : forall g,
  GInv size g ->
  (forall l x, pm_get sp pm = Some l -> In x l -> kin (mnodes g) x = Some KSupply) ->
  (forall dp l x, In dp dps -> pm_get dp pm = Some l -> In x l -> kin (mnodes g) x = Some KDemand) ->
  GInv size (fst (travel_d g pm sp dps dist speed unit fs fd)) /\
  mnodes (fst (travel_d g pm sp dps dist speed unit fs fd)) = mnodes g.
Proof.
  induction dps as [|dp dps IH]; intros g G Hs Hd; simpl; auto.
  destruct (lookup2 sp dp dist) as [dd|]; simpl; auto.
  destruct (Qeq_bool speed 0); simpl; auto.
  destruct (pm_get sp pm) as [ms|] eqn:Es; simpl; auto.
  destruct (pm_get dp pm) as [md|] eqn:Ed; simpl; auto.
  destruct (travel_pairs_keeps size (dd / speed) (dd * unit) fs fd sp dp (list_prod ms md) g G) as [G1 N1].
  { intros sn dn Hin. apply in_prod_iff in Hin. destruct Hin as [A B]. split.
    - apply (Hs ms); auto.
    - apply (Hd dp md); simpl; auto. }
  destruct (travel_pairs g (list_prod ms md) (dd / speed) (dd * unit) fs fd sp dp) as [g1 [e|]] eqn:T;
    simpl in *; auto.
  destruct (IH g1 G1) as [G2 N2].
  - intros l x A B. rewrite N1. apply (Hs l); auto.
  - intros dp' l x A B C. rewrite N1. apply (Hd dp' l); simpl; auto.
  - split; auto. congruence.
Qed.

Lemma travel_s_keeps size pm dps dist speed unit fs fd sps : forall g,
  GInv size g ->
  (forall sp l x, In sp sps -> pm_get sp pm = Some l -> In x l -> kin (mnodes g) x = Some KSupply) ->
  (forall dp l x, In dp dps -> pm_get dp pm = Some l -> In x l -> kin (mnodes g) x = Some KDemand) ->
  GInv size (fst (travel_s g pm sps dps dist speed unit fs fd)) /\
  mnodes (fst (travel_s g pm sps dps dist speed unit fs fd)) = mnodes g.
Proof.
  induction sps as [|sp sps IH]; intros g G Hs Hd; simpl; auto.
  destruct (travel_d_keeps size pm sp dist speed unit fs fd dps g G) as [G1 N1]; auto.
  { intros l x A B. apply (Hs sp l); simpl; auto. }
  destruct (travel_d g pm sp dps dist speed unit fs fd) as [g1 [e|]] eqn:T; simpl in *; auto.
  destruct (IH g1 G1) as [G2 N2].
  - intros sp' l x A B C. rewrite N1. apply (Hs sp' l); simpl; auto.
  - intros dp l x A B C. rewrite N1. apply (Hd dp l); auto.
  - split; auto. congruence.
Qed.

(* the depot, as seen through its name *)
Lemma depot_kin size g : GInv size g ->
  depot_name g = NDepot /\ kin (mnodes g) NDepot = Some KDepot.
Proof.
  intros [[d0 [rest [G0 [G0a G0b]]]] _]. unfold depot_name, kin, find_node. rewrite G0. simpl.
  rewrite G0a. simpl. split; auto. unfold kind_of. rewrite G0a. reflexivity.
Qed.

Lemma exit_ports_keeps size pm tm c ports : forall g,
  GInv size g ->
  (forall p l x, In p ports -> pm_get p pm = Some l -> In x l ->
     kin (mnodes g) x = Some KSupply \/ kin (mnodes g) x = Some KDemand) ->
  GInv size (fst (exit_ports g pm ports NDepot tm c)) /\
  mnodes (fst (exit_ports g pm ports NDepot tm c)) = mnodes g.
Proof.
  induction ports as [|p ports IH]; intros g G Hp; simpl; auto.
  destruct (pm_get p pm) as [ns|] eqn:E; simpl; auto.
  destruct (arcs_seq_keeps size (map (fun x => (x, NDepot, tm, c)) ns) g G) as [G1 N1].
  { intros o d tm' c' Hin. apply in_map_iff in Hin. destruct Hin as [x [Ex Hx]]. inversion Ex; subst.
    destruct (depot_kin size g G) as [_ Kd].
    destruct (Hp p ns o (or_introl eq_refl) E Hx) as [K|K].
    - exists KSupply, KDepot. auto.
    - exists KDemand, KDepot. auto. }
  destruct (arcs_seq g (map (fun x => (x, NDepot, tm, c)) ns)) as [g1 [e|]] eqn:T; simpl in *; auto.
  destruct (IH g1 G1) as [G2 N2].
  - intros p' l x A B C. rewrite N1. apply (Hp p' l); simpl; auto.
  - split; auto. congruence.
Qed.

Lemma entry_s_nodes_keeps size limit tm c ns : forall g,
  GInv size g ->
  (forall x, In x ns -> kin (mnodes g) x = Some KSupply) ->
  GInv size (fst (entry_s_nodes g ns NDepot limit tm c)) /\
  mnodes (fst (entry_s_nodes g ns NDepot limit tm c)) = mnodes g.
Proof.
  induction ns as [|x ns IH]; intros g G Hn; simpl; auto.
  destruct (find_node x (mnodes g)) as [n|]; simpl; auto.
  destruct (ext_lt_q (hi n) limit).
  - destruct (g_add_arc g NDepot x tm c) as [[g1 b1]|e] eqn:E1; simpl; auto.
    destruct (depot_kin size g G) as [_ Kd].
    destruct (add_arc_keeps size g NDepot x tm c g1 b1 KDepot KSupply G Kd (Hn x (or_introl eq_refl)) eq_refl E1)
      as [G1 N1].
    destruct (IH g1 G1) as [G2 N2].
    + intros y Hy. rewrite N1. apply Hn. right; auto.
    + split; auto. congruence.
  - apply IH; auto. intros y Hy. apply Hn. right; auto.
Qed.

Lemma entry_s_ports_keeps size pm limit tm c ports : forall g,
  GInv size g ->
  (forall p l x, In p ports -> pm_get p pm = Some l -> In x l -> kin (mnodes g) x = Some KSupply) ->
  GInv size (fst (entry_s_ports g pm ports NDepot limit tm c)) /\
  mnodes (fst (entry_s_ports g pm ports NDepot limit tm c)) = mnodes g.
Proof.
  induction ports as [|p ports IH]; intros g G Hp; simpl; auto.
  destruct (pm_get p pm) as [ns|] eqn:E; simpl; auto.
  destruct (entry_s_nodes_keeps size limit tm c ns g G) as [G1 N1].
  { intros x Hx. apply (Hp p ns); simpl; auto. }
  destruct (entry_s_nodes g ns NDepot limit tm c) as [g1 [e|]] eqn:T; simpl in *; auto.
  destruct (IH g1 G1) as [G2 N2].
  - intros p' l x A B C. rewrite N1. apply (Hp p' l); simpl; auto.
  - split; auto. congruence.
Qed.

(* ---------- the demand part of add_entry_arcs also adds nodes ---------- *)
Definition next (l l' : list mnode) : Prop := exists e, l' = l ++ e.
Lemma next_refl l : next l l.
Proof. exists []. rewrite app_nil_r. reflexivity. Qed.
Lemma next_trans a b c : next a b -> next b c -> next a c.
Proof. intros [e ->] [f ->]. exists (e ++ f). rewrite app_assoc. reflexivity. Qed.
Lemma kin_next l l' x k : next l l' -> kin l x = Some k -> kin l' x = Some k.
Proof. intros [e ->]. apply kin_app. Qed.

Lemma dum_node_ok size nd : 0 < size -> node_ok size (mkNode (NDum nd) (- size) 0 QInf).
Proof. intro H. unfold node_ok, kind_of. simpl. reflexivity. Qed.

Lemma entry_d_nodes_keeps size limit tm c ns : forall g nd,
  0 < size -> GInv size g ->
  (forall x, In x ns -> kin (mnodes g) x = Some KDemand) ->
  GInv size (fst (fst (entry_d_nodes g ns NDepot limit tm c size nd))) /\
  next (mnodes g) (mnodes (fst (fst (entry_d_nodes g ns NDepot limit tm c size nd)))).
Proof.
  induction ns as [|x ns IH]; intros g nd Hs G Hn; simpl.
  - split; auto. apply next_refl.
  - destruct (find_node x (mnodes g)) as [n|]; simpl; [|split; auto; apply next_refl].
    destruct (ext_lt_q (hi n) limit).
    + destruct (g_add_node g (NDum nd) (- size) 0 QInf) as [g1|e] eqn:E1; simpl; [|split; auto; apply next_refl].
      destruct (add_node_keeps size g _ _ _ _ g1 G (dum_node_ok size nd Hs) E1) as [G1 [N1 F1]].
      assert (X1 : next (mnodes g) (mnodes g1)) by (rewrite N1; eexists; eauto).
      destruct (depot_kin size g1 G1) as [_ Kd1].
      assert (Kdum : kin (mnodes g1) (NDum nd) = Some KDum).
      { rewrite N1. apply (kin_new (mnodes g) (mkNode (NDum nd) (- size) 0 QInf)). auto. }
      destruct (g_add_arc g1 NDepot (NDum nd) 0 0) as [[g2 b2]|e] eqn:E2; simpl; [|split; auto].
      destruct (add_arc_keeps size g1 _ _ _ _ g2 b2 KDepot KDum G1 Kd1 Kdum eq_refl E2) as [G2 N2].
      assert (Kx : kin (mnodes g2) x = Some KDemand).
      { rewrite N2. apply (kin_next (mnodes g)); auto. apply Hn. left; auto. }
      rewrite <- N2 in Kdum.
      destruct (g_add_arc g2 (NDum nd) x tm c) as [[g3 b3]|e] eqn:E3; simpl.
      * destruct (add_arc_keeps size g2 _ _ _ _ g3 b3 KDum KDemand G2 Kdum Kx eq_refl E3) as [G3 N3].
        destruct (IH g3 (S nd) Hs G3) as [G4 X4].
        { intros y Hy. rewrite N3, N2. apply (kin_next (mnodes g)); auto. apply Hn. right; auto. }
        split; auto. apply (next_trans _ (mnodes g1)); auto. rewrite <- N2, <- N3. auto.
      * split; auto. rewrite N2. auto.
    + apply IH; auto. intros y Hy. apply Hn. right; auto.
Qed.

Lemma entry_d_ports_keeps size pm limit tm c ports : forall g nd,
  0 < size -> GInv size g ->
  (forall p l x, In p ports -> pm_get p pm = Some l -> In x l -> kin (mnodes g) x = Some KDemand) ->
  GInv size (fst (entry_d_ports g pm ports NDepot limit tm c size nd)) /\
  next (mnodes g) (mnodes (fst (entry_d_ports g pm ports NDepot limit tm c size nd))).
Proof.
  induction ports as [|p ports IH]; intros g nd Hs G Hp; simpl.
  - split; auto. apply next_refl.
  - destruct (pm_get p pm) as [ns|] eqn:E; simpl; [|split; auto; apply next_refl].
    destruct (entry_d_nodes_keeps size limit tm c ns g nd Hs G) as [G1 X1].
    { intros x Hx. apply (Hp p ns); simpl; auto. }
    destruct (entry_d_nodes g ns NDepot limit tm c size nd) as [[g1 [e|]] nd'] eqn:T; simpl in *; auto.
    destruct (IH g1 nd' Hs G1) as [G2 X2].
    + intros p' l x A B C. apply (kin_next (mnodes g)); auto. apply (Hp p' l); simpl; auto.
    + split; auto. apply (next_trans _ (mnodes g1)); auto.
Qed.

(* ---------- add_nodes keeps the state invariant ---------- *)
Lemma visit_node_ok size name k rate a b : 0 < size ->
  node_ok size (mkNode (NVisit name k) (demand_level size rate) a b) /\
  kind_of (mkNode (NVisit name k) (demand_level size rate) a b) = (if Qltb 0 rate then KSupply else KDemand).
Proof.
  intro Hs. unfold node_ok, kind_of, demand_level. cbn [nm dem].
  destruct (Qltb 0 rate).
  - assert (E : Qltb (- size) 0 = true) by (apply Qltb_lt; lra). rewrite E. split; reflexivity.
  - assert (E : Qltb size 0 = false) by (apply Qltb_ge; lra). rewrite E. split; reflexivity.
Qed.

(* the loop invariant: like SInv, for the port `name` being filled *)
Lemma add_nodes_loop_keeps name init rate cap : forall fuel s k acc,
  SInv s ->
  (if Qltb 0 rate then In name (sports s) else In name (dports s)) ->
  SInv (fst (add_nodes_loop fuel s name init rate cap (demand_level (csize s) rate) k acc)).
Proof.
  induction fuel as [|f IH]; intros s k acc I Hm; simpl; auto.
  destruct (Qltb (horizon s) (snd (window (csize s) k init rate cap))); simpl; auto.
  destruct (g_add_node (gr s) (NVisit name k) (demand_level (csize s) rate)
              (fst (window (csize s) k init rate cap)) (QFin (snd (window (csize s) k init rate cap))))
    as [g'|e] eqn:E; simpl; auto.
  destruct I as [Hs [G [ND PM]]].
  destruct (visit_node_ok (csize s) name k rate (fst (window (csize s) k init rate cap))
              (QFin (snd (window (csize s) k init rate cap))) Hs) as [NO KO].
  destruct (add_node_keeps (csize s) (gr s) _ _ _ _ g' G NO E) as [G' [N' F']].
  set (s2 := mkState _ _ _ _ _ _).
  change (demand_level (csize s) rate) with (demand_level (csize s2) rate).
  apply IH; subst s2; auto.
  split; [|split; [|split]]; cbn [csize gr sports dports pmap]; auto.
  intros p l x Hg Hx. cbn [csize gr sports dports pmap] in *.
  destruct (Nat.eq_dec name p) as [->|Np].
  - (* the port being filled *)
    assert (Hd : forall q, In q (sports s) -> In q (dports s) -> False).
    { intros q A B. apply NoDup_app_disjoint with (l := sports s) (l' := dports s) (a := q); auto. }
    destruct (pm_get p (pmap s)) as [l0|] eqn:E0.
    + rewrite (pm_get_append_same p _ l0 _ E0) in Hg. inversion Hg; subst l; clear Hg.
      apply in_app_iff in Hx. destruct Hx as [Hx|[<-|[]]].
      * destruct (PM p l0 x E0 Hx) as [A B]. rewrite N'. split; intro Hin; apply kin_app; auto.
      * rewrite N'.
        pose proof (kin_new (mnodes (gr s)) (mkNode (NVisit p k) (demand_level (csize s) rate)
                      (fst (window (csize s) k init rate cap)) (QFin (snd (window (csize s) k init rate cap)))) F') as KN.
        cbn [nm] in KN. rewrite KN, KO.
        destruct (Qltb 0 rate); split; intro Hin; auto; exfalso; eauto.
    + exfalso. clear -E0 Hg.
      revert Hg. generalize (NVisit p k). intro y. induction (pmap s) as [|[q l'] m IHm]; simpl in *; [discriminate|].
      destruct (Nat.eqb p q) eqn:Q; simpl; rewrite Q; [discriminate | auto].
  - rewrite (pm_get_append_other name p) in Hg by auto.
    destruct (PM p l x Hg Hx) as [A B]. rewrite N'. split; intro Hin; apply kin_app; auto.
Qed.

Lemma add_nodes_fuel_keeps fuel s name init rate cap :
  SInv s -> ~ In name (sports s ++ dports s) ->
  SInv (fst (add_nodes_fuel fuel s name init rate cap)).
Proof.
  intros [Hs [G [ND PM]]] Hfresh. unfold add_nodes_fuel.
  set (s1 := mkState _ _ _ _ _ _).
  assert (I1 : SInv s1).
  { subst s1. split; [|split; [|split]]; cbn [csize gr sports dports pmap]; auto.
    - destruct (Qltb 0 rate).
      + apply NoDup_app_swap. apply NoDup_app_swap in ND.
        replace (dports s ++ sports s ++ [name]) with ((dports s ++ sports s) ++ [name]) by (rewrite app_assoc; auto).
        apply NoDup_snoc; auto. intro Hin. apply Hfresh. apply in_app_iff in Hin. apply in_app_iff. tauto.
      + rewrite app_assoc. apply NoDup_snoc; auto.
    - intros p l x Hg Hx. cbn [csize gr sports dports pmap] in *.
      destruct (Nat.eq_dec name p) as [->|Np].
      + rewrite pm_get_set_same in Hg. inversion Hg; subst. destruct Hx.
      + rewrite pm_get_set_other in Hg by auto. destruct (PM p l x Hg Hx) as [A B].
        split; intro Hin.
        * apply A. destruct (Qltb 0 rate); auto. apply in_app_iff in Hin. destruct Hin as [|[|[]]]; auto. congruence.
        * apply B. destruct (Qltb 0 rate); auto. apply in_app_iff in Hin. destruct Hin as [|[|[]]]; auto. congruence. }
  destruct (Qeq_bool rate 0); auto.
  change (demand_level (csize s) rate) with (demand_level (csize s1) rate).
  apply add_nodes_loop_keeps; auto.
  subst s1. cbn [sports dports]. destruct (Qltb 0 rate); apply in_app_iff; right; left; auto.
Qed.

(* ---------- every operation keeps the state invariant ---------- *)
Lemma SInv_set_gr s g' :
  SInv s -> GInv (csize s) g' -> next (mnodes (gr s)) (mnodes g') -> SInv (set_gr s g').
Proof.
  intros [Hs [G [ND PM]]] G' X. unfold set_gr.
  split; [|split; [|split]]; cbn [csize gr sports dports pmap]; auto.
  intros p l x Hg Hx. cbn [csize gr sports dports pmap] in *.
  destruct (PM p l x Hg Hx) as [A B]. split; intro Hin; apply (kin_next (mnodes (gr s))); auto.
Qed.

Lemma next_eq l l' : l' = l -> next l l'.
Proof. intros ->. apply next_refl. Qed.

Definition op_fresh (s : mstate) (o : mop) : Prop :=
  match o with AddNodes name _ _ _ => ~ In name (sports s ++ dports s) | _ => True end.

Lemma mstep_keeps s o : SInv s -> op_fresh s o -> SInv (fst (mstep s o)).
Proof.
  intros I Hf. pose proof I as [Hs [G [ND PM]]].
  destruct o as [name init rate cap | dist speed unit fs fd | tm c | limit tm c]; cbn [mstep].
  - pose proof (add_nodes_fuel_keeps (S (nvisits (csize s) (horizon s) init rate cap)) s name init rate cap I Hf) as K.
    unfold add_nodes. destruct (add_nodes_fuel _ s name init rate cap) as [s' [l|e]]; auto.
  - unfold of_gres, add_travel_arcs. cbn [fst].
    destruct (travel_s_keeps (csize s) (pmap s) (dports s) dist speed unit fs fd (sports s) (gr s) G) as [G1 N1].
    + intros sp l x A B C. apply (PM sp l x B C). auto.
    + intros dp l x A B C. apply (PM dp l x B C). auto.
    + apply SInv_set_gr; auto. apply next_eq; auto.
  - unfold of_gres, add_exit_arcs. cbn [fst].
    destruct (depot_kin (csize s) (gr s) G) as [Dn _]. rewrite Dn.
    destruct (exit_ports_keeps (csize s) (pmap s) tm c (sports s ++ dports s) (gr s) G) as [G1 N1].
    + intros p l x A B C. apply in_app_iff in A. destruct A as [A|A]; [left|right]; apply (PM p l x B C); auto.
    + apply SInv_set_gr; auto. apply next_eq; auto.
  - unfold of_gres, add_entry_arcs. cbn [fst].
    destruct (depot_kin (csize s) (gr s) G) as [Dn _]. rewrite Dn.
    destruct (entry_s_ports_keeps (csize s) (pmap s) limit tm c (sports s) (gr s) G) as [G1 N1].
    { intros p l x A B C. apply (PM p l x B C). auto. }
    destruct (entry_s_ports (gr s) (pmap s) (sports s) NDepot limit tm c) as [g1 [e|]] eqn:T; cbn [fst snd] in *.
    + apply SInv_set_gr; auto. apply next_eq; auto.
    + destruct (entry_d_ports_keeps (csize s) (pmap s) limit tm c (dports s) g1 0%nat Hs G1) as [G2 X2].
      { intros p l x A B C. rewrite N1. apply (PM p l x B C). auto. }
      apply SInv_set_gr; auto. rewrite <- N1. auto.
Qed.

(* the port lists only grow by the names given to add_nodes *)
Lemma add_nodes_loop_ports name init rate cap dl : forall fuel s k acc,
  sports (fst (add_nodes_loop fuel s name init rate cap dl k acc)) = sports s /\
  dports (fst (add_nodes_loop fuel s name init rate cap dl k acc)) = dports s /\
  csize (fst (add_nodes_loop fuel s name init rate cap dl k acc)) = csize s.
Proof.
  induction fuel as [|f IH]; intros s k acc; simpl; auto.
  destruct (Qltb (horizon s) (snd (window (csize s) k init rate cap))); simpl; auto.
  destruct (g_add_node (gr s) (NVisit name k) dl _ _) as [g'|e]; simpl; auto.
  destruct (IH (mkState g' (sports s) (dports s) (pm_append name (NVisit name k) (pmap s)) (csize s) (horizon s))
               (S k) (acc ++ [NVisit name k])) as [A [B C]].
  auto.
Qed.

Lemma mstep_ports s o p :
  In p (sports (fst (mstep s o)) ++ dports (fst (mstep s o))) ->
  In p (sports s ++ dports s) \/ (exists init rate cap, o = AddNodes p init rate cap).
Proof.
  destruct o as [name init rate cap | dist speed unit fs fd | tm c | limit tm c]; cbn [mstep]; auto.
  unfold add_nodes, add_nodes_fuel.
  set (s1 := mkState _ _ _ _ _ _).
  assert (P1 : In p (sports s1 ++ dports s1) -> In p (sports s ++ dports s) \/ p = name).
  { subst s1. cbn [sports dports]. destruct (Qltb 0 rate); rewrite !in_app_iff; simpl; intuition. }
  destruct (Qeq_bool rate 0).
  - cbn [fst]. intro H. destruct (P1 H) as [A| ->]; auto. right. eauto.
  - match goal with |- context [add_nodes_loop ?f s1 name init rate cap ?dl 0%nat []] =>
      destruct (add_nodes_loop_ports name init rate cap dl f s1 0%nat []) as [A [B _]];
      destruct (add_nodes_loop f s1 name init rate cap dl 0%nat []) as [s' [l|e]] end;
    cbn [fst] in *; rewrite A, B; intro H; (destruct (P1 H) as [Q| ->]; [auto | right; eauto]).
Qed.

Fixpoint ports_of (ops : list mop) : list nat :=
  match ops with
  | [] => []
  | AddNodes name _ _ _ :: r => name :: ports_of r
  | _ :: r => ports_of r
  end.

Lemma mrun_keeps : forall ops s,
  SInv s -> NoDup (ports_of ops) ->
  (forall p, In p (ports_of ops) -> ~ In p (sports s ++ dports s)) ->
  SInv (mrun ops s).
Proof.
  induction ops as [|o ops IH]; intros s I ND Hf; simpl; auto.
  apply IH.
  - apply mstep_keeps; auto. destruct o; simpl; auto. apply Hf. simpl. auto.
  - destruct o; simpl in ND; auto. inversion ND; auto.
  - intros p Hp Hin. apply mstep_ports in Hin. destruct Hin as [Hin|[init [rate [cap ->]]]].
    + apply (Hf p); auto. destruct o; simpl; auto.
    + simpl in ND. inversion ND; subst. contradiction.
Qed.

Lemma SInv_init size H : 0 < size -> SInv (init_state size H).
Proof.
  intro Hs. unfold init_state. split; [|split; [|split]]; cbn [csize gr sports dports pmap]; auto.
  - split; [|split; [|split]]; cbn [mnodes marcs].
    + exists (mkNode NDepot 0 0 QInf), []. auto.
    + simpl. constructor; [intros []|constructor].
    + constructor; [|constructor]. unfold node_ok, kind_of. simpl. reflexivity.
    + intros k a [].
  - constructor.
  - intros p l x Hg. discriminate.
Qed.

Theorem graph_invariant size H ops :
  0 < size -> NoDup (ports_of ops) -> GInv size (gr (mrun ops (init_state size H))).
Proof.
  intros Hs ND.
  destruct (mrun_keeps ops (init_state size H) (SInv_init size H Hs) ND) as [_ [G _]].
  - intros p _ [].
  - assert (C : forall ops s, csize (mrun ops s) = csize s).
    { clear. induction ops as [|o ops IH]; intro s; simpl; auto. rewrite IH.
      destruct o; cbn [mstep of_gres fst set_gr csize]; auto.
      unfold add_nodes, add_nodes_fuel.
      match goal with |- context [if ?b then _ else _] => destruct b end; cbn [fst csize]; auto.
      match goal with |- context [add_nodes_loop ?f ?s1 ?name ?init ?rate ?cap ?dl 0%nat []] =>
        destruct (add_nodes_loop_ports name init rate cap dl f s1 0%nat []) as [_ [_ A]];
        destruct (add_nodes_loop f s1 name init rate cap dl 0%nat []) as [s' [l|e]] end; cbn [fst] in *; auto. }
    rewrite C in G. auto.
Qed.

(* ---------- the load along paths ---------- *)
(* consecutive positions are joined by stored arcs *)
Fixpoint walk_ok (g : mgraph) (cur : nat) (path : list nat) : Prop :=
  match path with
  | [] => True
  | nx :: r => dict_mem (cur, nx) (marcs g) = true /\ walk_ok g nx r
  end.
(* the depot (position 0) may only be the last node *)
Fixpoint interior_ok (path : list nat) : Prop :=
  match path with
  | [] => True
  | [x] => True
  | x :: r => x <> 0%nat /\ interior_ok r
  end.
(* running load: -demand of every node is added *)
Fixpoint loads (g : mgraph) (load : Q) (path : list nat) : list Q :=
  match path with
  | [] => []
  | i :: r => let l' := load - dem (nth i (mnodes g) dummy_mnode) in l' :: loads g l' r
  end.

Lemma dict_mem_In_pair {V} (k : nat * nat) (d : dict V) : dict_mem k d = true -> exists v, In (k, v) d.
Proof.
  unfold dict_mem. induction d as [|[k' v'] d IH]; simpl; [discriminate|].
  destruct (natpair_eqb k k') eqn:E.
  - apply natpair_eqb_eq in E. subst. eauto.
  - intro H. destruct (IH H) as [v Hv]. eauto.
Qed.

Lemma depot_only_at_zero size g i : GInv size g -> (i < length (mnodes g))%nat ->
  kind_of (nth i (mnodes g) dummy_mnode) = KDepot -> i = 0%nat.
Proof.
  intros [[d0 [rest [G0 [G0a G0b]]]] [ND _]] Hi K.
  destruct i as [|i]; auto. exfalso.
  rewrite G0 in *. simpl in *. inversion ND; subst.
  apply H1. unfold kind_of in K.
  destruct (nm (nth i rest dummy_mnode)) eqn:E; try discriminate.
  - rewrite G0a, <- E. apply in_map. apply nth_In. lia.
  - destruct (Qltb (dem (nth i rest dummy_mnode)) 0); discriminate.
Qed.

Definition load_state (size : Q) (k : kind) (load : Q) : Prop :=
  match k with
  | KDepot | KDemand => load == 0
  | KSupply | KDum => load == size
  end.

Lemma loads_from size g : GInv size g -> forall path cur load,
  (cur < length (mnodes g))%nat ->
  load_state size (kind_of (nth cur (mnodes g) dummy_mnode)) load ->
  walk_ok g cur path -> interior_ok path ->
  Forall (fun l => l == 0 \/ l == size) (loads g load path).
Proof.
  intros G. pose proof G as [_ [_ [NO AO]]].
  induction path as [|nx r IH]; intros cur load Hc LS W I; simpl; [constructor|].
  destruct W as [M W]. destruct (dict_mem_In_pair _ _ M) as [a Ha].
  destruct (AO _ _ Ha) as [_ [Ln [_ [_ [AK _]]]]]. cbn [fst snd] in *.
  assert (NOn : node_ok size (nth nx (mnodes g) dummy_mnode)).
  { rewrite Forall_forall in NO. apply NO. apply nth_In. auto. }
  unfold node_ok in NOn.
  destruct (kind_of (nth nx (mnodes g) dummy_mnode)) eqn:Kn.
  - (* arrived at the depot: the walk ends here *)
    assert (Z : nx = 0%nat) by (apply (depot_only_at_zero size g); auto).
    assert (R : r = []).
    { destruct r as [|y r']; auto. simpl in I. destruct I as [I _]. congruence. }
    subst r. simpl. constructor; [|constructor].
    destruct (kind_of (nth cur (mnodes g) dummy_mnode)); simpl in AK, LS; try discriminate; [right|left]; lra.
  - (* a supply visit: came from the depot or a demand visit with an empty vessel *)
    assert (L0 : load == 0).
    { destruct (kind_of (nth cur (mnodes g) dummy_mnode)); simpl in AK, LS; try discriminate; auto. }
    constructor; [right; lra|].
    apply (IH nx); auto.
    + rewrite Kn. simpl. lra.
    + destruct r as [|y r']; simpl in *; tauto.
  - (* a demand visit: came from a loading node with a full vessel *)
    assert (L1 : load == size).
    { destruct (kind_of (nth cur (mnodes g) dummy_mnode)); simpl in AK, LS; try discriminate; auto. }
    constructor; [left; lra|].
    apply (IH nx); auto.
    + rewrite Kn. simpl. lra.
    + destruct r as [|y r']; simpl in *; tauto.
  - (* a dummy loaded vessel: came from the depot *)
    assert (L0 : load == 0).
    { destruct (kind_of (nth cur (mnodes g) dummy_mnode)); simpl in AK, LS; try discriminate; auto. }
    constructor; [right; lra|].
    apply (IH nx); auto.
    + rewrite Kn. simpl. lra.
    + destruct r as [|y r']; simpl in *; tauto.
Qed.

Theorem load_in_0_size size g path :
  GInv size g -> walk_ok g 0 path -> interior_ok path ->
  Forall (fun l => l == 0 \/ l == size) (loads g 0 path).
Proof.
  intros G W I. apply (loads_from size g G path 0%nat 0); auto.
  - destruct G as [[d0 [rest [G0 _]]] _]. rewrite G0. simpl. lia.
  - destruct G as [[d0 [rest [G0 [G0a _]]]] _]. rewrite G0. simpl. unfold kind_of. rewrite G0a. simpl. reflexivity.
Qed.
