(* PyAlias_facts.v -- soundness of the alias discipline (package `aliasflow`, C16).

   Proved once, for every table:  alias_disciplined tb = true  implies
     - every write class of every method is an in-place change of a container of the receiver's own graph, a
       re-binding of one of them to a new object, a change of an object allocated by the call, or no store effect;
     - hence every run (`mtrace`) of every method keeps the frame conditions of C16_frame, keeps the receiver's graph
       well formed, and leaves the view of every other well-formed graph with a disjoint footprint unchanged;
     - constructors obtain their graph by VRPTW() or copy.deepcopy only;
     - hence, for a deep copy meeting the contract of props/C16.v, histories of calls and constructions over any
       number of graphs change the view of a graph only by calls on that graph (`world_run`);
     - the three MIRP getters denote exactly the steps of Store.v's getter machine. *)
From Coq Require Import String List Bool Arith Lia.
From VQ Require Import Base Store Store_facts PyAlias.
Import ListNotations.
Close Scope Z_scope.
Local Open Scope nat_scope.
Local Open Scope list_scope.

(* ================= store lemmas ================= *)
Lemma rd_upd_cases l k o s :
  rd (upd k o s) l = if Nat.eqb l k then (if Nat.ltb k (length s) then Some o else rd s l) else rd s l.
Proof.
  destruct (Nat.eqb_spec l k) as [->|Hne].
  - destruct (Nat.ltb_spec k (length s)).
    + apply rd_upd_same; auto.
    + rewrite rd_upd_ge; auto.
  - apply rd_upd_other; auto.
Qed.

Lemma rd_snoc_new s o : rd (s ++ [o]) (length s) = Some o.
Proof. unfold rd. rewrite nth_error_app2 by lia. rewrite Nat.sub_diag. reflexivity. Qed.

Lemma rd_snoc_cases s o l :
  rd (s ++ [o]) l = if Nat.ltb l (length s) then rd s l else if Nat.eqb l (length s) then Some o else None.
Proof.
  destruct (Nat.ltb_spec l (length s)).
  - apply rd_snoc_old; auto.
  - destruct (Nat.eqb_spec l (length s)) as [->|Hne].
    + apply rd_snoc_new.
    + unfold rd. apply nth_error_None. rewrite app_length. simpl. lia.
Qed.

Lemma rd_none_ge s l : (length s <= l) -> rd s l = None.
Proof. intros H. unfold rd. apply nth_error_None. exact H. Qed.

(* ---------- kinds are stable under the steps ---------- *)
Definition okind (s : store) (l : loc) : option nat := option_map kind_of (rd s l).

Lemma is_node_kind s p : is_node s p <-> okind s p = Some 3.
Proof.
  unfold is_node, okind. split.
  - intros (nm & d & lo & hi & H). rewrite H. reflexivity.
  - destruct (rd s p) as [[]|]; simpl; intros H; try discriminate. eauto.
Qed.

(* a step that keeps the kind of every existing object *)
Definition kind_stable (s s' : store) : Prop :=
  length s <= length s' /\ forall l, l < length s -> okind s' l = okind s l.

Lemma kind_stable_refl s : kind_stable s s.
Proof. split; auto. Qed.

Lemma kind_stable_trans a b c : kind_stable a b -> kind_stable b c -> kind_stable a c.
Proof.
  intros [L1 K1] [L2 K2]. split; [lia|]. intros l Hl. rewrite K2 by lia. apply K1; auto.
Qed.

Lemma kind_stable_upd s l o o' :
  rd s l = Some o -> kind_of o' = kind_of o -> kind_stable s (upd l o' s).
Proof.
  intros Hr Hk. split; [rewrite length_upd; auto|].
  intros p Hp. unfold okind. rewrite rd_upd_cases.
  destruct (Nat.eqb_spec p l) as [->|]; auto.
  destruct (Nat.ltb_spec l (length s)); auto. rewrite Hr. simpl. congruence.
Qed.

Lemma kind_stable_snoc s o : kind_stable s (s ++ [o]).
Proof.
  split; [rewrite app_length; simpl; lia|].
  intros l Hl. unfold okind. rewrite rd_snoc_old; auto.
Qed.

Lemma is_node_stable s s' p : kind_stable s s' -> is_node s p -> is_node s' p.
Proof.
  intros [_ K] H. apply is_node_kind. apply is_node_kind in H.
  assert (Hp : p < length s).
  { unfold okind in H. destruct (rd s p) eqn:E; [eapply rd_lt; eauto | discriminate]. }
  rewrite K; auto.
Qed.

(* ================= the frame conditions (the conclusion of C16_frame, relative to the start of a call) ================= *)
Definition framed (s0 : store) (g : loc) (s : store) : Prop :=
  length s0 <= length s /\
  (forall l, l < length s0 -> ~ In l (footprint s0 g) -> rd s l = rd s0 l) /\
  (forall l, In l (footprint s g) -> In l (footprint s0 g) \/ length s0 <= l).

Lemma framed_refl s g : framed s g s.
Proof. repeat split; auto. Qed.

Lemma footprint_upd_other s g k o l :
  g <> k -> In l (footprint (upd k o s) g) -> In l (footprint s g).
Proof. intros Hne. unfold footprint. rewrite rd_upd_other by auto. auto. Qed.

Lemma cont_loc_in_footprint s g c l : cont_loc s g c = Some l -> In l (footprint s g).
Proof.
  unfold cont_loc, footprint. destruct (rd s g) as [[| | | | |a b d]|]; try discriminate.
  destruct c; intros H; inversion H; subst; simpl; auto.
Qed.

Lemma nongraph_kind o : kind_of o <> 5 -> nongraph o.
Proof. destruct o; simpl; auto. Qed.

(* a step of a good class keeps the frame conditions *)
Lemma cstep_framed s0 g w s s' :
  wclass_good w = true -> framed s0 g s -> cstep s0 g w s s' -> framed s0 g s'.
Proof.
  intros Hg (L & F & P) St. destruct St as [s|c s l o o' Hc Hr Hk Hk5 Hco|c s a b d o' Hr Hk Hco|s l o o' Hl Hr Hk Hk5 Hco|s l o].
  - repeat split; auto.
  - (* in-place change of an own container *)
    pose proof (cont_loc_in_footprint _ _ _ _ Hc) as Hin.
    repeat split.
    + rewrite length_upd. auto.
    + intros p Hp Hnp. rewrite rd_upd_other; [apply F; auto|].
      intros ->. destruct (P l Hin) as [H|H]; [contradiction | lia].
    + intros p Hp. apply P. eapply footprint_upd_nongraph; eauto. apply nongraph_kind; auto.
  - (* re-binding a container attribute to a new object *)
    assert (Hgl : g < length s) by (eapply rd_lt; eauto).
    assert (Hfg : In g (footprint s g)) by apply footprint_has_self.
    repeat split.
    + rewrite length_upd, app_length. simpl. lia.
    + intros p Hp Hnp. rewrite rd_upd_other.
      * rewrite rd_snoc_old by lia. apply F; auto.
      * intros ->. destruct (P g Hfg) as [H|H]; [contradiction | lia].
    + intros p Hp. unfold footprint in Hp.
      rewrite rd_upd_same in Hp by (rewrite app_length; simpl; lia).
      assert (Hfp : footprint s g = [g; a; b; d]) by (unfold footprint; rewrite Hr; reflexivity).
      destruct c; simpl in Hp;
        repeat (destruct Hp as [<-|Hp]; [first [apply P; rewrite Hfp; simpl; tauto | right; lia]|]);
        destruct Hp.
  - (* change of an object allocated by the call *)
    repeat split.
    + rewrite length_upd. auto.
    + intros p Hp Hnp. rewrite rd_upd_other by lia. apply F; auto.
    + intros p Hp. apply P. eapply footprint_upd_nongraph; eauto. apply nongraph_kind; auto.
  - discriminate.
Qed.

Lemma astep_framed s0 g s s' : framed s0 g s -> astep s s' -> framed s0 g s'.
Proof.
  intros (L & F & P) St. destruct St as [s o Hk Hco].
  repeat split.
  - rewrite app_length. simpl. lia.
  - intros p Hp Hnp. rewrite rd_snoc_old by lia. apply F; auto.
  - intros p Hp. destruct (Nat.lt_ge_cases g (length s)) as [Hg|Hg].
    + rewrite footprint_snoc in Hp by auto. apply P; auto.
    + unfold footprint in Hp. rewrite rd_snoc_cases in Hp.
      destruct (Nat.ltb_spec g (length s)); [lia|].
      apply P. unfold footprint. rewrite (rd_none_ge s g) by lia.
      destruct (Nat.eqb_spec g (length s)).
      * destruct o; simpl in Hk; try congruence; exact Hp.
      * exact Hp.
Qed.

Theorem mtrace_framed s0 g ws s :
  forallb wclass_good ws = true -> mtrace s0 g ws s -> framed s0 g s.
Proof.
  intros Hg T. induction T as [|s s' T IH St|s s' w T IH Hin St].
  - apply framed_refl.
  - eapply astep_framed; eauto.
  - eapply cstep_framed; eauto. rewrite forallb_forall in Hg. apply Hg; auto.
Qed.

(* ================= well-formed graphs ================= *)
Definition wt (s : store) (g : loc) : Prop :=
  exists nl ndl al ns items es,
    rd s g = Some (OGraph nl ndl al) /\ rd s nl = Some (ONames ns) /\ rd s ndl = Some (OList items) /\
    rd s al = Some (ODict es) /\ Forall (is_node s) items /\ Forall (fun kv => is_arc s (snd kv)) es.

(* every object that is not a graph object is unchanged or replaced by a well-formed object of its kind *)
Definition obj_step (s s' : store) : Prop :=
  kind_stable s s' /\
  forall p op, rd s p = Some op -> kind_of op <> 5 ->
    exists op', rd s' p = Some op' /\ kind_of op' = kind_of op /\ (op' = op \/ content_ok s' op').

Lemma arc_pres s s' p : obj_step s s' -> is_arc s p -> is_arc s' p.
Proof.
  intros [K H] (po & pd & t & c & Hr & Hn1 & Hn2).
  destruct (H p _ Hr) as (op' & Hr' & Hk & [->|Hc]); [simpl; lia| |].
  - exists po, pd, t, c. repeat split; auto; eapply is_node_stable; eauto.
  - destruct op'; simpl in Hk; try discriminate. simpl in Hc. destruct Hc.
    exists orig, dest, tm, cost. repeat split; auto.
Qed.

Lemma content_pres s s' o : obj_step s s' -> content_ok s o -> content_ok s' o.
Proof.
  intros St. destruct o; simpl; auto.
  - apply Forall_impl. intros p. eapply is_node_stable. apply St.
  - apply Forall_impl. intros kv. apply arc_pres; auto.
  - intros [A B]. split; eapply is_node_stable; eauto; apply St.
Qed.

Lemma obj_step_trans a b c : obj_step a b -> obj_step b c -> obj_step a c.
Proof.
  intros S1 S2. split; [eapply kind_stable_trans; [apply S1 | apply S2]|].
  intros p op Hr Hk.
  destruct (proj2 S1 p op Hr Hk) as (op1 & Hr1 & Hk1 & H1).
  destruct (proj2 S2 p op1 Hr1) as (op2 & Hr2 & Hk2 & H2); [congruence|].
  exists op2. repeat split; auto; [congruence|].
  destruct H2 as [->|H2]; [|auto].
  destruct H1 as [->|H1]; [auto|]. right. eapply content_pres; eauto.
Qed.

Lemma obj_step_upd s l o o' :
  rd s l = Some o -> kind_of o' = kind_of o -> content_ok (upd l o' s) o' \/ kind_of o = 5 -> obj_step s (upd l o' s).
Proof.
  intros Hr Hk Hc. split; [eapply kind_stable_upd; eauto|].
  intros p op Hp Hk5. rewrite rd_upd_cases.
  destruct (Nat.eqb_spec p l) as [->|].
  - assert (Hl : l < length s) by (eapply rd_lt; eauto).
    destruct (Nat.ltb_spec l (length s)); [|lia].
    rewrite Hr in Hp. inversion Hp; subst op. exists o'. repeat split; auto.
    destruct Hc as [Hc|Hc]; [auto | contradiction].
  - exists op. auto.
Qed.

Lemma obj_step_snoc s o : obj_step s (s ++ [o]).
Proof.
  split; [apply kind_stable_snoc|].
  intros p op Hp _. exists op. repeat split; auto. rewrite rd_snoc_old; auto. eapply rd_lt; eauto.
Qed.

Lemma names_pres s s' p ns : obj_step s s' -> rd s p = Some (ONames ns) -> exists ns', rd s' p = Some (ONames ns').
Proof.
  intros [_ H] Hr. destruct (H p _ Hr) as (op' & Hr' & Hk & _); [simpl; lia|].
  destruct op'; simpl in Hk; try discriminate. eauto.
Qed.
Lemma list_pres s s' p items :
  obj_step s s' -> rd s p = Some (OList items) -> Forall (is_node s) items ->
  exists items', rd s' p = Some (OList items') /\ Forall (is_node s') items'.
Proof.
  intros St Hr Hf. destruct (proj2 St p _ Hr) as (op' & Hr' & Hk & Hc); [simpl; lia|].
  destruct op'; simpl in Hk; try discriminate. exists items0. split; auto.
  destruct Hc as [E|Hc]; [|exact Hc]. inversion E; subst.
  eapply Forall_impl; [|exact Hf]. intros q. eapply is_node_stable. apply St.
Qed.
Lemma dict_pres s s' p es :
  obj_step s s' -> rd s p = Some (ODict es) -> Forall (fun kv => is_arc s (snd kv)) es ->
  exists es', rd s' p = Some (ODict es') /\ Forall (fun kv => is_arc s' (snd kv)) es'.
Proof.
  intros St Hr Hf. destruct (proj2 St p _ Hr) as (op' & Hr' & Hk & Hc); [simpl; lia|].
  destruct op'; simpl in Hk; try discriminate. exists entries. split; auto.
  destruct Hc as [E|Hc]; [|exact Hc]. inversion E; subst.
  eapply Forall_impl; [|exact Hf]. intros kv. apply arc_pres; auto.
Qed.

Lemma wt_obj_step s s' g : wt s g -> obj_step s s' -> rd s' g = rd s g -> wt s' g.
Proof.
  intros (nl & ndl & al & ns & items & es & Hg & Hn & Hl & Ha & Fi & Fe) St Eg.
  destruct (names_pres _ _ _ _ St Hn) as (ns' & Hn').
  destruct (list_pres _ _ _ _ St Hl Fi) as (items' & Hl' & Fi').
  destruct (dict_pres _ _ _ _ St Ha Fe) as (es' & Ha' & Fe').
  exists nl, ndl, al, ns', items', es'. rewrite Eg. repeat split; auto.
Qed.

(* the good steps keep the receiver's graph well formed *)
Lemma cstep_wt s0 g w s s' : wclass_good w = true -> wt s g -> cstep s0 g w s s' -> wt s' g.
Proof.
  intros Hg W St. destruct St as [s|c s l o o' Hc Hr Hk Hk5 Hco|c s a b d o' Hr Hk Hco|s l o o' Hl Hr Hk Hk5 Hco|s l o].
  - exact W.
  - apply (wt_obj_step s); auto.
    + eapply obj_step_upd; eauto.
    + apply rd_upd_other. intros ->. destruct W as (nl & ndl & al & ns & items & es & Hgr & _).
      rewrite Hgr in Hr. inversion Hr; subst o. simpl in Hk. congruence.
  - (* re-binding *)
    assert (Hgl : g < length s) by (eapply rd_lt; eauto).
    set (s1 := s ++ [o']). set (s2 := upd g (set_field c (length s) a b d) s1).
    assert (S1 : obj_step s s1) by apply obj_step_snoc.
    assert (Hr1 : rd s1 g = Some (OGraph a b d)) by (unfold s1; rewrite rd_snoc_old; auto).
    assert (S2 : obj_step s1 s2).
    { unfold s2. apply (obj_step_upd s1 g (OGraph a b d)); [exact Hr1 | destruct c; reflexivity | right; reflexivity]. }
    assert (S12 : obj_step s s2) by (eapply obj_step_trans; eauto).
    assert (Hnew : rd s2 (length s) = Some o').
    { unfold s2. rewrite rd_upd_other; [unfold s1; apply rd_snoc_new | intros E; rewrite <- E in Hgl; lia]. }
    assert (Hco2 : content_ok s2 o') by (apply (content_pres s1 s2); [exact S2 | exact Hco]).
    assert (Hg2 : rd s2 g = Some (set_field c (length s) a b d)).
    { unfold s2. apply rd_upd_same. unfold s1. rewrite app_length. simpl. lia. }
    destruct W as (nl & ndl & al & ns & items & es & Hgr & Hn & Hli & Ha & Fi & Fe).
    rewrite Hgr in Hr. inversion Hr; subst a b d.
    destruct (names_pres _ _ _ _ S12 Hn) as (ns' & Hn').
    destruct (list_pres _ _ _ _ S12 Hli Fi) as (items' & Hl' & Fi').
    destruct (dict_pres _ _ _ _ S12 Ha Fe) as (es' & Ha' & Fe').
    destruct c; simpl in Hk; destruct o'; simpl in Hk; try discriminate; simpl in Hg2.
    + exists (length s), ndl, al, l, items', es'. repeat split; auto.
    + exists nl, (length s), al, ns', items0, es'. repeat split; auto.
    + exists nl, ndl, (length s), ns', items', entries. repeat split; auto.
  - apply (wt_obj_step s); auto.
    + eapply obj_step_upd; eauto.
    + apply rd_upd_other. intros ->. destruct W as (nl & ndl & al & ns & items & es & Hgr & _).
      rewrite Hgr in Hr. inversion Hr; subst o. simpl in Hk. congruence.
  - discriminate.
Qed.

Lemma astep_wt g s s' : wt s g -> astep s s' -> wt s' g.
Proof.
  intros W St. destruct St as [s o Hk Hco].
  apply (wt_obj_step s); auto; [apply obj_step_snoc|].
  destruct W as (nl & ndl & al & ns & items & es & Hgr & _).
  apply rd_snoc_old. eapply rd_lt; eauto.
Qed.

Theorem mtrace_wt s0 g ws s :
  forallb wclass_good ws = true -> wt s0 g -> mtrace s0 g ws s -> wt s g.
Proof.
  intros Hg W T. induction T as [|s s' T IH St|s s' w T IH Hin St]; auto.
  - eapply astep_wt; eauto.
  - eapply cstep_wt; eauto. rewrite forallb_forall in Hg. apply Hg; auto.
Qed.

(* ================= what another handle sees ================= *)
Lemma wt_footprint s g :
  wt s g -> exists nl ndl al, footprint s g = [g; nl; ndl; al] /\
     okind s g = Some 5 /\ okind s nl = Some 0 /\ okind s ndl = Some 1 /\ okind s al = Some 2.
Proof.
  intros (nl & ndl & al & ns & items & es & Hg & Hn & Hl & Ha & _). exists nl, ndl, al.
  unfold footprint, okind. rewrite Hg, Hn, Hl, Ha. auto.
Qed.

Lemma wt_footprint_kind s g l : wt s g -> In l (footprint s g) -> exists k, okind s l = Some k /\ (k = 5 \/ k < 3).
Proof.
  intros W Hin. destruct (wt_footprint _ _ W) as (nl & ndl & al & E & K1 & K2 & K3 & K4).
  rewrite E in Hin. simpl in Hin.
  destruct Hin as [<-|[<-|[<-|[<-|[]]]]]; eexists; split; eauto; lia.
Qed.

(* everything a well-formed graph reaches exists, and is a container of it, a node or an arc *)
Lemma wt_reach s g l :
  wt s g -> In l (reach s g) -> l < length s /\ (In l (footprint s g) \/ okind s l = Some 3 \/ okind s l = Some 4).
Proof.
  intros W Hin.
  destruct (wt_footprint _ _ W) as (nl' & ndl' & al' & Efp & _).
  destruct W as (nl & ndl & al & ns & items & es & Hg & Hn & Hl & Ha & Fi & Fe).
  unfold reach in Hin. rewrite Hg, Hl, Ha in Hin.
  assert (Efp2 : footprint s g = [g; nl; ndl; al]) by (unfold footprint; rewrite Hg; reflexivity).
  apply in_app_or in Hin. destruct Hin as [Hin|Hin].
  - split.
    + simpl in Hin. destruct Hin as [<-|[<-|[<-|[<-|[]]]]]; eapply rd_lt; eauto.
    + left. rewrite Efp2. exact Hin.
  - apply in_app_or in Hin. destruct Hin as [Hin|Hin].
    + rewrite Forall_forall in Fi. specialize (Fi _ Hin).
      pose proof (proj1 (is_node_kind _ _) Fi) as K. split; [|auto].
      destruct Fi as (? & ? & ? & ? & Hr). eapply rd_lt; eauto.
    + apply in_flat_map in Hin. destruct Hin as (kv & Hkv & Hl2).
      rewrite Forall_forall in Fe. specialize (Fe _ Hkv).
      destruct Fe as (po & pd & t & c & Hr & N1 & N2).
      unfold arc_locs in Hl2. rewrite Hr in Hl2. simpl in Hl2.
      destruct Hl2 as [<-|[<-|[<-|[]]]].
      * split; [eapply rd_lt; eauto|]. right; right. unfold okind. rewrite Hr. reflexivity.
      * pose proof (proj1 (is_node_kind _ _) N1). destruct N1 as (? & ? & ? & ? & Hr1).
        split; [eapply rd_lt; eauto | auto].
      * pose proof (proj1 (is_node_kind _ _) N2). destruct N2 as (? & ? & ? & ? & Hr2).
        split; [eapply rd_lt; eauto | auto].
Qed.

Lemma wt_depends_on_reach s s' g :
  (forall l, In l (reach s g) -> rd s' l = rd s l) -> wt s g -> wt s' g.
Proof.
  intros H W. pose proof W as (nl & ndl & al & ns & items & es & Hg & Hn & Hl & Ha & Fi & Fe).
  assert (R : forall l, In l ([g; nl; ndl; al] ++ items ++ flat_map (fun kv => arc_locs s (snd kv)) es) -> rd s' l = rd s l).
  { intros l Hin. apply H. unfold reach. rewrite Hg, Hl, Ha. exact Hin. }
  exists nl, ndl, al, ns, items, es.
  rewrite !R by (simpl; auto). repeat split; auto.
  - rewrite Forall_forall in *. intros p Hp. destruct (Fi p Hp) as (a & b & c & d & Hr).
    exists a, b, c, d. rewrite R; auto. apply in_or_app. right. apply in_or_app. left. exact Hp.
  - rewrite Forall_forall in *. intros kv Hkv. destruct (Fe kv Hkv) as (po & pd & t & c & Hr & N1 & N2).
    assert (Hsub : forall l, In l [snd kv; po; pd] -> rd s' l = rd s l).
    { intros l Hl2. apply R. apply in_or_app. right. apply in_or_app. right.
      apply in_flat_map. exists kv. split; auto. unfold arc_locs. rewrite Hr. exact Hl2. }
    exists po, pd, t, c. rewrite Hsub by (simpl; auto). repeat split; auto.
    + destruct N1 as (a & b & c1 & d & Hr1). exists a, b, c1, d. rewrite Hsub; simpl; auto.
    + destruct N2 as (a & b & c1 & d & Hr2). exists a, b, c1, d. rewrite Hsub; simpl; auto.
Qed.

(* A run of good steps on g changes nothing that another well-formed graph h reaches, provided only that their
   CONTAINERS are distinct objects (nodes and arcs are never written, so they may even be shared). *)
Lemma passive_unchanged s0 g h s :
  framed s0 g s -> wt s0 g -> wt s0 h -> disjoint (footprint s0 h) (footprint s0 g) ->
  forall l, In l (reach s0 h) -> rd s l = rd s0 l.
Proof.
  intros (L & F & P) Wg Wh Dis l Hin.
  destruct (wt_reach _ _ _ Wh Hin) as (Hlt & Hk).
  apply F; auto. intros Hfg.
  destruct Hk as [Hfh|Hk].
  - exact (Dis l Hfh Hfg).
  - destruct (wt_footprint_kind _ _ _ Wg Hfg) as (k & Ek & Hk2).
    destruct Hk as [Hk|Hk]; rewrite Hk in Ek; inversion Ek; subst k; lia.
Qed.

Lemma footprint_depends s s' g : rd s' g = rd s g -> footprint s' g = footprint s g.
Proof. intros E. unfold footprint. rewrite E. reflexivity. Qed.

Theorem passive_view s0 g h ws s :
  forallb wclass_good ws = true -> wt s0 g -> wt s0 h -> disjoint (footprint s0 h) (footprint s0 g) ->
  mtrace s0 g ws s ->
  view s h = view s0 h /\ wt s h /\ footprint s h = footprint s0 h /\ disjoint (footprint s h) (footprint s g) /\
  (forall l, In l (reach s0 h) -> rd s l = rd s0 l).
Proof.
  intros Hg Wg Wh Dis T.
  pose proof (mtrace_framed _ _ _ _ Hg T) as Fr.
  pose proof (passive_unchanged _ _ _ _ Fr Wg Wh Dis) as Same.
  assert (Efp : footprint s h = footprint s0 h).
  { apply footprint_depends. apply Same. apply footprint_sub_reach. apply footprint_has_self. }
  split; [apply view_depends_on_reach; exact Same|].
  split; [eapply wt_depends_on_reach; eauto|].
  split; [exact Efp|]. split; [|exact Same].
  rewrite Efp. intros l Hl Hin.
  destruct Fr as (_ & _ & P). destruct (P l Hin) as [H|H].
  - exact (Dis l Hl H).
  - assert (l < length s0); [|lia].
    apply (wt_reach s0 h l Wh). apply footprint_sub_reach. exact Hl.
Qed.

(* ================= well-formedness seen through `view` (to transfer it along the deep-copy contract) ================= *)
Definition full_view (v : gview) : Prop :=
  Forall (fun x => exists nv : node_view, x = Some nv) (snd (fst v)) /\
  Forall (fun a => exists k n1 n2 t c, a = Some (k, (Some n1, Some n2, t, c))) (snd v).

Lemma node_of_some s p : (exists nv, node_of s p = Some nv) <-> is_node s p.
Proof.
  unfold node_of, is_node. destruct (rd s p) as [[]|]; split; intros H; eauto;
    try (destruct H as (? & H); discriminate); destruct H as (? & ? & ? & ? & H); discriminate.
Qed.
Lemma name_of_some s p : (exists n, name_of s p = Some n) <-> is_node s p.
Proof.
  unfold name_of, is_node. destruct (rd s p) as [[]|]; split; intros H; eauto;
    try (destruct H as (? & H); discriminate); destruct H as (? & ? & ? & ? & H); discriminate.
Qed.
Lemma arc_of_full s kv :
  (exists k n1 n2 t c, arc_of s kv = Some (k, (Some n1, Some n2, t, c))) <-> is_arc s (snd kv).
Proof.
  unfold arc_of, is_arc. destruct (rd s (snd kv)) as [[| | | |po pd tm cost|]|]; split; intros H;
    try (destruct H as (? & ? & ? & ? & ? & H); discriminate).
  - destruct H as (k & n1 & n2 & t & c & H). inversion H. do 4 eexists.
    split; [reflexivity|]. split; apply name_of_some; eauto.
  - destruct H as (po' & pd' & t & c & E & N1 & N2). inversion E; subst.
    apply name_of_some in N1. apply name_of_some in N2. destruct N1 as (n1 & ->). destruct N2 as (n2 & ->). eauto 8.
Qed.

Lemma Forall_map_iff {A B} (f : A -> B) (P : B -> Prop) l : Forall P (map f l) <-> Forall (fun x => P (f x)) l.
Proof.
  induction l as [|x l IH]; simpl; split; intros H; auto; inversion H; subst; constructor; auto; apply IH; auto.
Qed.

Lemma wt_iff_view s g : wt s g <-> exists v, view s g = Some v /\ full_view v.
Proof.
  unfold view. split.
  - intros (nl & ndl & al & ns & items & es & Hg & Hn & Hl & Ha & Fi & Fe).
    rewrite Hg, Hn, Hl, Ha. eexists. split; [reflexivity|]. split; simpl.
    + apply (Forall_map_iff (node_of s)). eapply Forall_impl; [|exact Fi]. intros p. apply node_of_some.
    + apply (Forall_map_iff (arc_of s)). eapply Forall_impl; [|exact Fe]. intros kv. apply arc_of_full.
  - intros (v & Hv & F1 & F2).
    destruct (rd s g) as [[| | | | |nl ndl al]|] eqn:Hg; try discriminate.
    destruct (rd s nl) as [[ns| | | | |]|] eqn:Hn; try discriminate.
    destruct (rd s ndl) as [[|items| | | |]|] eqn:Hl; try discriminate.
    destruct (rd s al) as [[| |es| | |]|] eqn:Ha; try discriminate.
    inversion Hv; subst v. simpl in F1, F2.
    exists nl, ndl, al, ns, items, es. repeat split; auto.
    + apply (Forall_map_iff (node_of s)) in F1. eapply Forall_impl; [|exact F1]. intros p. apply node_of_some.
    + apply (Forall_map_iff (arc_of s)) in F2. eapply Forall_impl; [|exact F2]. intros kv. apply arc_of_full.
Qed.

Lemma wt_of_view s h s' h' : wt s h -> view s' h' = view s h -> wt s' h'.
Proof.
  intros W E. apply wt_iff_view. apply wt_iff_view in W. destruct W as (v & Hv & F). exists v. rewrite E. auto.
Qed.

Lemma disjoint_sym a b : disjoint a b -> disjoint b a.
Proof. intros H l Hb Ha. exact (H l Ha Hb). Qed.

Lemma rd_app_old s t l : l < length s -> rd (s ++ t) l = rd s l.
Proof. intros H. unfold rd. apply nth_error_app1. exact H. Qed.

(* ================= histories over any number of graphs ================= *)
Definition world (s : store) (hs : list loc) : Prop :=
  (forall h, In h hs -> wt s h) /\
  (forall h1 h2, In h1 hs -> In h2 hs -> h1 <> h2 -> disjoint (footprint s h1) (footprint s h2)).

Inductive action := ACall (g : loc) | AMake (src : loc) (k : gsource).
Definition new_graph (s : store) : store :=
  s ++ [ONames []; OList []; ODict []; OGraph (length s) (length s + 1) (length s + 2)].

Section World.
  (* copy.deepcopy: specified, not modelled -- the three clauses of props/C16.v *)
  Variable deepcopy : store -> loc -> store * loc.
  Hypothesis dc_extends : forall s g l, l < length s -> rd (fst (deepcopy s g)) l = rd s l.
  Hypothesis dc_fresh : forall s g l,
    In l (reach (fst (deepcopy s g)) (snd (deepcopy s g))) -> length s <= l /\ l < length (fst (deepcopy s g)).
  Hypothesis dc_same_view : forall s g, view (fst (deepcopy s g)) (snd (deepcopy s g)) = view s g.

  (* ws: the write classes methods may use; srcs: how constructors obtain their graph *)
  Inductive wstep (ws : list wclass) (srcs : list gsource) : list loc * store -> action -> list loc * store -> Prop :=
  | WS_call : forall hs s g s', In g hs -> mtrace s g ws s' -> wstep ws srcs (hs, s) (ACall g) (hs, s')
  | WS_copy : forall hs s h, In h hs -> In GCopy srcs ->
      wstep ws srcs (hs, s) (AMake h GCopy) (hs ++ [snd (deepcopy s h)], fst (deepcopy s h))
  | WS_new : forall hs s h, In GNew srcs ->
      wstep ws srcs (hs, s) (AMake h GNew) (hs ++ [length s + 3], new_graph s)
  | WS_share : forall hs s h, In h hs -> In GShare srcs ->      (* a constructor that keeps the graph it was given *)
      wstep ws srcs (hs, s) (AMake h GShare) (hs ++ [h], s).

  Lemma old_handle_kept s s' h :
    wt s h -> (forall l, l < length s -> rd s' l = rd s l) ->
    wt s' h /\ view s' h = view s h /\ footprint s' h = footprint s h.
  Proof.
    intros W E.
    assert (R : forall l, In l (reach s h) -> rd s' l = rd s l).
    { intros l Hl. apply E. apply (wt_reach s h l W Hl). }
    split; [eapply wt_depends_on_reach; eauto|].
    split; [apply view_depends_on_reach; exact R|].
    apply footprint_depends. apply R. apply footprint_sub_reach. apply footprint_has_self.
  Qed.

  Lemma footprint_lt s h l : wt s h -> In l (footprint s h) -> l < length s.
  Proof. intros W H. apply (wt_reach s h l W). apply footprint_sub_reach. exact H. Qed.

  Theorem world_step ws srcs hs s a hs' s' :
    forallb wclass_good ws = true -> ~ In GShare srcs ->
    world s hs -> wstep ws srcs (hs, s) a (hs', s') ->
    world s' hs' /\ incl hs hs' /\
    (forall h, In h hs -> a <> ACall h -> view s' h = view s h) /\
    (forall src, a = AMake src GCopy -> exists g', hs' = hs ++ [g'] /\ view s' g' = view s src).
  Proof.
    intros Hg Hns [W D] St.
    inversion St as [hs0 s0 g s1 Hmem Htr|hs0 s0 h Hmem Hsrc|hs0 s0 h Hsrc|hs0 s0 h Hmem Hsrc]; subst.
    - (* a call on g *)
      assert (P : forall h, In h hs' -> h <> g ->
                  view s' h = view s h /\ wt s' h /\ footprint s' h = footprint s h /\
                  disjoint (footprint s' h) (footprint s' g)).
      { intros h Hh Hne.
        destruct (passive_view s g h ws s' Hg (W g Hmem) (W h Hh) (D h g Hh Hmem Hne) Htr) as (A & B & C & E & _). auto. }
      split; [split|].
      + intros h Hh. destruct (Nat.eq_dec h g) as [->|Hne]; [eapply mtrace_wt; eauto | apply P; auto].
      + intros h1 h2 H1 H2 Hne.
        destruct (Nat.eq_dec h1 g) as [->|N1]; [apply disjoint_sym; apply P; auto|].
        destruct (Nat.eq_dec h2 g) as [->|N2]; [apply P; auto|].
        destruct (P h1 H1 N1) as (_ & _ & -> & _). destruct (P h2 H2 N2) as (_ & _ & -> & _). auto.
      + split; [apply incl_refl|]. split.
        * intros h Hh Hne. apply P; auto; intros ->; apply Hne; reflexivity.
        * intros src E. inversion E.
    - (* a constructor that deep-copies h *)
      set (s1 := fst (deepcopy s h)). set (g1 := snd (deepcopy s h)).
      assert (Old : forall x, In x hs -> wt s1 x /\ view s1 x = view s x /\ footprint s1 x = footprint s x).
      { intros x Hx. apply old_handle_kept; auto. intros l Hl. apply dc_extends; auto. }
      assert (Wn : wt s1 g1) by (eapply wt_of_view; [apply (W h Hmem) | apply dc_same_view]).
      assert (Fn : forall l, In l (footprint s1 g1) -> length s <= l).
      { intros l Hl. apply (dc_fresh s h l). apply footprint_sub_reach. exact Hl. }
      split; [split|].
      + intros x Hx. apply in_app_or in Hx. destruct Hx as [Hx|[<-|[]]]; [apply Old; auto | exact Wn].
      + intros h1 h2 H1 H2 Hne. apply in_app_or in H1. apply in_app_or in H2.
        destruct H1 as [H1|[<-|[]]]; destruct H2 as [H2|[<-|[]]].
        * destruct (Old h1 H1) as (_ & _ & ->). destruct (Old h2 H2) as (_ & _ & ->). auto.
        * destruct (Old h1 H1) as (_ & _ & ->). intros l Hl Hin.
          pose proof (footprint_lt _ _ _ (W h1 H1) Hl). pose proof (Fn l Hin). lia.
        * destruct (Old h2 H2) as (_ & _ & ->). intros l Hin Hl.
          pose proof (footprint_lt _ _ _ (W h2 H2) Hl). pose proof (Fn l Hin). lia.
        * congruence.
      + split; [apply incl_appl; apply incl_refl|]. split.
        * intros x Hx _. apply Old; auto.
        * intros src E. inversion E; subst src. exists g1. split; auto. apply dc_same_view.
    - (* a constructor that makes a new, empty graph *)
      set (n := length s).
      assert (Old : forall x, In x hs -> wt (new_graph s) x /\ view (new_graph s) x = view s x /\
                                         footprint (new_graph s) x = footprint s x).
      { intros x Hx. apply old_handle_kept; auto. intros l Hl. apply rd_app_old; auto. }
      assert (R : forall k, k < 4 -> rd (new_graph s) (n + k) =
                  nth_error [ONames []; OList []; ODict []; OGraph n (n + 1) (n + 2)] k).
      { intros k Hk. unfold new_graph, rd. rewrite nth_error_app2 by (unfold n; lia).
        replace (n + k - length s) with k by (unfold n; lia). reflexivity. }
      assert (R0 := R 0 ltac:(lia)). assert (R1 := R 1 ltac:(lia)). assert (R2 := R 2 ltac:(lia)).
      assert (R3 := R 3 ltac:(lia)). rewrite Nat.add_0_r in R0. simpl in R0, R1, R2, R3.
      assert (Wn : wt (new_graph s) (n + 3)).
      { exists n, (n + 1), (n + 2), [], [], []. repeat split; auto. }
      assert (Fn : forall l, In l (footprint (new_graph s) (n + 3)) -> n <= l).
      { intros l. unfold footprint. rewrite R3. simpl. intros [<-|[<-|[<-|[<-|[]]]]]; lia. }
      split; [split|].
      + intros x Hx. apply in_app_or in Hx. destruct Hx as [Hx|[<-|[]]]; [apply Old; auto | exact Wn].
      + intros h1 h2 H1 H2 Hne. apply in_app_or in H1. apply in_app_or in H2.
        destruct H1 as [H1|[<-|[]]]; destruct H2 as [H2|[<-|[]]].
        * destruct (Old h1 H1) as (_ & _ & ->). destruct (Old h2 H2) as (_ & _ & ->). auto.
        * destruct (Old h1 H1) as (_ & _ & ->). intros l Hl Hin.
          pose proof (footprint_lt _ _ _ (W h1 H1) Hl). pose proof (Fn l Hin). unfold n in *. lia.
        * destruct (Old h2 H2) as (_ & _ & ->). intros l Hin Hl.
          pose proof (footprint_lt _ _ _ (W h2 H2) Hl). pose proof (Fn l Hin). unfold n in *. lia.
        * congruence.
      + split; [apply incl_appl; apply incl_refl|]. split.
        * intros x Hx _. apply Old; auto.
        * intros src E. discriminate.
    - contradiction.
  Qed.

  (* a history of calls and constructions *)
  Inductive wrun (ws : list wclass) (srcs : list gsource) : list loc * store -> list action -> list loc * store -> Prop :=
  | WR_nil : forall c, wrun ws srcs c [] c
  | WR_cons : forall c a c1 acts c2, wstep ws srcs c a c1 -> wrun ws srcs c1 acts c2 -> wrun ws srcs c (a :: acts) c2.

  (* The view of a graph changes only by calls on that graph: never by the construction of a formulation from it
     or from any other graph, and never by calls on any other graph. *)
  Theorem world_run ws srcs c acts c' :
    forallb wclass_good ws = true -> ~ In GShare srcs ->
    wrun ws srcs c acts c' -> world (snd c) (fst c) ->
    world (snd c') (fst c') /\ incl (fst c) (fst c') /\
    forall h, In h (fst c) -> ~ In (ACall h) acts -> view (snd c') h = view (snd c) h.
  Proof.
    intros Hg Hns R. induction R as [c|c a c1 acts c2 St R IH]; intros Wd.
    - split; auto. split; [apply incl_refl | auto].
    - destruct c as [hs s], c1 as [hs1 s1].
      destruct (world_step _ _ _ _ _ _ _ Hg Hns Wd St) as (W1 & I1 & V1 & _).
      destruct (IH W1) as (W2 & I2 & V2).
      split; auto. split; [eapply incl_tran; eauto|].
      simpl in *. intros h Hh Hn. rewrite V2.
      + apply V1; auto; intros E; apply Hn; left; auto.
      + apply I1; auto.
      + intros Hin; apply Hn; right; auto.
  Qed.
End World.

(* ================= from the decision procedure to the hypotheses above ================= *)
Ltac split_andb H :=
  repeat match type of H with
         | andb _ _ = true => let H1 := fresh "B" in apply andb_prop in H; destruct H as [H H1]
         end.

Lemma forallb_flat_map {A B} (f : A -> list B) (p : B -> bool) l :
  forallb (fun x => forallb p (f x)) l = true -> forallb p (flat_map f l) = true.
Proof.
  induction l as [|x l IH]; simpl; auto. intros H. apply andb_prop in H. destruct H.
  rewrite forallb_app. rewrite H. simpl. auto.
Qed.

Section Sound.
  Variable tb : atable.
  Hypothesis Hd : alias_disciplined tb = true.
  Let a := analyse tb.

  Lemma disciplined_events : forallb tagged_good (a_events a) = true.
  Proof. pose proof Hd as H; unfold alias_disciplined, disciplined_analysis in H; fold a in H; split_andb H. assumption. Qed.

  Lemma disciplined_graph_attr : graph_attr_ok a = true.
  Proof. pose proof Hd as H; unfold alias_disciplined, disciplined_analysis in H; fold a in H; split_andb H. assumption. Qed.

  Lemma disciplined_getters : getters_ok tb a = true.
  Proof. pose proof Hd as H; unfold alias_disciplined, disciplined_analysis in H; fold a in H; split_andb H. assumption. Qed.

  Lemma disciplined_plain : copy_ok tb = true /\ class_attrs_ok tb = true.
  Proof. pose proof Hd as H; unfold alias_disciplined, disciplined_analysis in H; fold a in H; split_andb H. auto. Qed.

  (* 1. every write class of every method of the table is a good one *)
  Theorem all_classes_good : forallb wclass_good (all_classes a) = true.
  Proof.
    unfold all_classes. apply forallb_flat_map.
    pose proof disciplined_events as H. rewrite forallb_forall in *. intros t Ht. specialize (H t Ht).
    destruct t as [[c m] e]. exact H.
  Qed.

  Lemma events_of_in evs c m e : In e (events_of evs c m) -> In (c, m, e) evs.
  Proof.
    unfold events_of. intros H. apply in_map_iff in H. destruct H as ([[c' m'] e'] & E & Hin).
    apply filter_In in Hin. destruct Hin as [Hin Hb]. simpl in *. subst e'.
    apply andb_prop in Hb. destruct Hb as [B1 B2].
    apply String.eqb_eq in B1. apply String.eqb_eq in B2. subst. exact Hin.
  Qed.

  Theorem method_classes_good c m : forallb wclass_good (method_classes tb a c m) = true.
  Proof.
    pose proof all_classes_good as H. rewrite forallb_forall in *. intros w Hw. apply H.
    unfold method_classes in Hw. apply in_flat_map in Hw. destruct Hw as ([c' m'] & _ & Hw).
    apply in_flat_map in Hw. destruct Hw as (e & He & Hw). simpl in *.
    unfold all_classes. apply in_flat_map. exists (c', m', e). split; [apply events_of_in; auto | exact Hw].
  Qed.

  (* 2. constructors obtain the graph they store by VRPTW() or copy.deepcopy(..): never the object they were given *)
  Theorem sources_not_shared : ~ In GShare (graph_sources a).
  Proof.
    pose proof disciplined_graph_attr as H. unfold graph_attr_ok in H. split_andb H.
    unfold graph_sources. intros Hin. apply in_map_iff in Hin. destruct Hin as (o & Ho & Hin).
    destruct (tp (mget (a_map a) (akey graph_attr))) as [|x t] eqn:E; [destruct Hin|].
    unfold osubset in H. rewrite forallb_forall in H. specialize (H o Hin).
    destruct o; simpl in Ho; try discriminate; simpl in H; try discriminate; destruct c; discriminate.
  Qed.

  (* 3. every run of every method: frame conditions (the conclusion of C16_frame), the receiver's graph stays well
        formed, every other well-formed graph with distinct containers is seen unchanged *)
  Theorem method_run_frame c m s0 g s :
    mtrace s0 g (method_classes tb a c m) s -> framed s0 g s.
  Proof. apply mtrace_framed. apply method_classes_good. Qed.

  Theorem method_run_isolated c m s0 g h s :
    wt s0 g -> wt s0 h -> disjoint (footprint s0 h) (footprint s0 g) ->
    mtrace s0 g (method_classes tb a c m) s ->
    view s h = view s0 h /\ wt s g /\ wt s h /\ disjoint (footprint s h) (footprint s g).
  Proof.
    intros Wg Wh Dis T.
    destruct (passive_view s0 g h _ s (method_classes_good c m) Wg Wh Dis T) as (V & W & _ & D & _).
    repeat split; auto. eapply mtrace_wt; eauto. apply method_classes_good.
  Qed.
End Sound.

(* ================= the MIRP getters ================= *)
Section GetterSound.
  Variables (D A P Sq : Type).
  Variable ba : D -> A.
  Variable bp : D -> P.
  Variable bs : D -> bool -> Sq.
  Notation gx := (gexec D A P Sq ba bp bs).
  Notation mst := (mstep D A P Sq ba bp bs).
  (* gskip has fuel 12 and several recursive occurrences per level: conversion must never unfold it *)
  Strategy opaque [gskip_in].
  Local Arguments gskip : simpl never.
  Local Arguments gtest : simpl never.
  Local Arguments build_call : simpl never.
  Local Arguments slot_of_attr : simpl never.

  Definition op_of (sl : slot) (strict : bool) : mop :=
    match sl with SlA => GetArc | SlP => GetPath | SlS => GetSeq strict end.

  Lemma gx_nil f strict m : gx (S f) strict [] m = GRun _ _ _ _ m.
  Proof. reflexivity. Qed.

  Lemma gx_skip1 f strict s rest m : gskip GS s = true -> gx (S f) strict (s :: rest) m = gx (S f) strict rest m.
  Proof. intros H. simpl. rewrite H. reflexivity. Qed.

  Lemma gx_skip f strict l tl m :
    forallb (gskip GS) l = true -> gx (S f) strict (l ++ tl) m = gx (S f) strict tl m.
  Proof.
    induction l as [|s l IH]; intros H; [reflexivity|].
    assert (E : forall (p : astmt -> bool) x k, forallb p (x :: k) = p x && forallb p k) by reflexivity.
    rewrite E in H. apply andb_prop in H. destruct H as [H1 H2].
    rewrite <- app_comm_cons. rewrite gx_skip1 by exact H1. apply IH. exact H2.
  Qed.

  Lemma gx_if f strict t a b rest m c :
    gskip GS (SIf t a b) = false -> gtest D A P Sq t m = Some c ->
    gx (S f) strict (SIf t a b :: rest) m =
    match gx f strict (if c then a else b) m with GRun _ _ _ _ m' => gx (S f) strict rest m' | r => r end.
  Proof. intros H1 H2. simpl. rewrite H1, H2. reflexivity. Qed.

  Lemma gx_set f strict a v rest m sl :
    slot_of_attr a = Some sl -> build_call sl v = true ->
    gx (S f) strict (SSetAttr XSelf a v :: rest) m = gx (S f) strict rest (slot_build D A P Sq ba bp bs m sl strict).
  Proof.
    intros H1 H2. simpl.
    replace (gskip GS (SSetAttr XSelf a v)) with false by reflexivity.
    rewrite H1, H2. reflexivity.
  Qed.

  Lemma gx_ret f strict a rest m sl o :
    slot_of_attr a = Some sl -> slot_out D A P Sq m sl = Some o ->
    gx (S f) strict (SReturn (XAttr XSelf a) :: rest) m = GRet _ _ _ _ m o.
  Proof.
    intros H1 H2. simpl.
    replace (gskip GS (SReturn (XAttr XSelf a))) with false by reflexivity.
    rewrite H1, H2. reflexivity.
  Qed.

  Lemma slot_cached m sl strict :
    slot_full D A P Sq m sl = true ->
    exists o, slot_out D A P Sq m sl = Some o /\ mst m (op_of sl strict) = (m, o).
  Proof.
    destruct m as [d oa op os]. destruct sl; simpl; intros H.
    - destruct oa as [x|]; [exists (OutA _ _ _ x); auto | discriminate].
    - destruct op as [x|]; [exists (OutP _ _ _ x); auto | discriminate].
    - destruct os as [x|]; [exists (OutS _ _ _ x); auto | discriminate].
  Qed.

  Lemma slot_built m sl strict :
    slot_full D A P Sq m sl = false ->
    exists o, slot_out D A P Sq (slot_build D A P Sq ba bp bs m sl strict) sl = Some o /\
              mst m (op_of sl strict) = (slot_build D A P Sq ba bp bs m sl strict, o).
  Proof.
    destruct m as [d oa op os]. destruct sl; simpl; intros H.
    - destruct oa; [discriminate | eexists; split; reflexivity].
    - destruct op; [discriminate | eexists; split; reflexivity].
    - destruct os; [discriminate | eexists; split; reflexivity].
  Qed.

  Lemma slot_eqb_eq a b : slot_eqb a b = true -> a = b.
  Proof. destruct a, b; simpl; congruence. Qed.

  (* A getter of the accepted shape IS the step of Store.v's getter machine: the cached object if there is one, else
     the object built from the (unchanged) data, stored in its own slot and returned; the other slots are untouched. *)
  Theorem getter_shape_sound sl body strict m f :
    getter_shape sl body = true ->
    gx (S (S f)) strict body m = lift_step D A P Sq (mst m (op_of sl strict)).
  Proof.
    unfold getter_shape. intros H.
    repeat match type of H with
           | match ?x with _ => _ end = true => destruct x eqn:?; try discriminate
           end;
      split_andb H;
      repeat match goal with
             | E : String.eqb _ _ = true |- _ => apply String.eqb_eq in E
             | E : slot_eqb _ _ = true |- _ => apply slot_eqb_eq in E
             end; subst.
    - (* test `is None`: build and configure; then return the cache *)
      match goal with E : slot_of_attr ?a = Some sl, Bc : build_call sl ?v = true, Bs : forallb (gskip 12) ?mid = true |- _ =>
        rename E into Es; rename Bc into Hb; rename Bs into Hs end.
      unfold lift_step. destruct (slot_full D A P Sq m sl) eqn:Ef.
      + destruct (slot_cached m sl strict Ef) as (o & Ho & Hm). rewrite Hm. simpl fst. simpl snd.
        rewrite (gx_if _ _ _ _ _ _ _ false);
          [|reflexivity|unfold gtest; rewrite Es; simpl; rewrite Ef; reflexivity].
        rewrite gx_nil. eapply gx_ret; eauto.
      + destruct (slot_built m sl strict Ef) as (o & Ho & Hm). rewrite Hm. simpl fst. simpl snd.
        rewrite (gx_if _ _ _ _ _ _ _ true);
          [|reflexivity|unfold gtest; rewrite Es; simpl; rewrite Ef; reflexivity].
        rewrite (gx_set _ _ _ _ _ _ sl Es Hb).
        match goal with |- context [gx _ _ ?l _] => rewrite <- (app_nil_r l) end.
        rewrite gx_skip by exact Hs. rewrite gx_nil. eapply gx_ret; eauto.
    - (* test `is not None` and return the cache; else build, configure, return the cache *)
      match goal with E : slot_of_attr ?a = Some sl, Bc : build_call sl ?v = true |- _ =>
        rename E into Es; rename Bc into Hb end.
      match goal with Bm : match rev ?l with _ => _ end = true |- _ =>
        destruct (rev l) as [|s1 mid] eqn:Er; [discriminate|];
        repeat match type of Bm with
               | match ?x with _ => _ end = true => destruct x eqn:?; try discriminate
               end;
        split_andb Bm;
        match goal with E : String.eqb _ _ = true |- _ => apply String.eqb_eq in E; subst end;
        match type of Er with rev _ = ?x :: _ =>
          assert (El : l = rev mid ++ [x]) by (rewrite <- (rev_involutive l); rewrite Er; reflexivity) end
      end.
      rewrite El in *. clear El. unfold lift_step. destruct (slot_full D A P Sq m sl) eqn:Ef.
      + destruct (slot_cached m sl strict Ef) as (o & Ho & Hm). rewrite Hm. simpl fst. simpl snd.
        rewrite (gx_if _ _ _ _ _ _ _ true);
          [|reflexivity|unfold gtest; rewrite Es; simpl; rewrite Ef; reflexivity].
        rewrite (gx_ret _ _ _ _ _ sl o Es Ho). reflexivity.
      + destruct (slot_built m sl strict Ef) as (o & Ho & Hm). rewrite Hm. simpl fst. simpl snd.
        rewrite (gx_if _ _ _ _ _ _ _ false);
          [|reflexivity|unfold gtest; rewrite Es; simpl; rewrite Ef; reflexivity].
        rewrite gx_nil. rewrite (gx_set _ _ _ _ _ _ sl Es Hb).
        rewrite gx_skip.
        * eapply gx_ret; eauto.
        * rewrite forallb_forall in *. intros x Hx. match goal with Bs : forall _, In _ mid -> _ |- _ => apply Bs end.
          apply in_rev. exact Hx.
  Qed.
End GetterSound.

(* ================= the getters of a disciplined table run as Store.v's getter machine ================= *)
Section GetterRun.
  Variables (D A P Sq : Type).
  Variable ba : D -> A.
  Variable bp : D -> P.
  Variable bs : D -> bool -> Sq.
  Variable tb : atable.
  Notation mstate := (mstate D A P Sq).
  Notation mout := (mout A P Sq).

  Definition op_getter (o : mop) : string * slot * bool :=
    match o with
    | GetArc => ("get_arc_based"%string, SlA, false)
    | GetPath => ("get_path_based"%string, SlP, false)
    | GetSeq st => ("get_sequence_based"%string, SlS, st)
    end.

  (* one request = one call of the method of the table, run by the getter semantics *)
  Definition grequest (m : mstate) (o : mop) : gres D A P Sq :=
    match op_getter o with
    | (name, _, st) => gexec D A P Sq ba bp bs 20 st (getter_body tb name) m
    end.
  Fixpoint grun (m : mstate) (ops : list mop) : option (mstate * list mout) :=
    match ops with
    | [] => Some (m, [])
    | o :: ops' =>
        match grequest m o with
        | GRet _ _ _ _ m1 r => match grun m1 ops' with Some (m2, rs) => Some (m2, r :: rs) | None => None end
        | _ => None
        end
    end.

  Hypothesis Hd : alias_disciplined tb = true.

  Lemma getter_shapes : forall name sl, In (name, sl) getter_names -> getter_shape sl (getter_body tb name) = true.
  Proof.
    intros name sl Hin. pose proof (disciplined_getters tb Hd) as H.
    unfold getters_ok in H. apply andb_prop in H. destruct H as [H _].
    rewrite forallb_forall in H. specialize (H _ Hin). unfold getter_ok in H.
    apply andb_prop in H. destruct H as [H _]. apply andb_prop in H. destruct H as [H _].
    apply andb_prop in H. destruct H as [H _]. exact H.
  Qed.

  Theorem grequest_mstep m o :
    grequest m o = lift_step D A P Sq (mstep D A P Sq ba bp bs m o).
  Proof.
    unfold grequest. destruct o as [| |st]; simpl op_getter; cbv iota beta.
    - apply (getter_shape_sound D A P Sq ba bp bs SlA _ false m 18). apply getter_shapes. simpl. auto.
    - apply (getter_shape_sound D A P Sq ba bp bs SlP _ false m 18). apply getter_shapes. simpl. auto.
    - apply (getter_shape_sound D A P Sq ba bp bs SlS _ st m 18). apply getter_shapes. simpl. auto.
  Qed.

  Theorem grun_mrun m ops : grun m ops = Some (mrun D A P Sq ba bp bs m ops).
  Proof.
    revert m. induction ops as [|o ops IH]; intros m; simpl; [reflexivity|].
    rewrite grequest_mstep. unfold lift_step.
    destruct (mstep D A P Sq ba bp bs m o) as [m1 r]. simpl. rewrite IH.
    destruct (mrun D A P Sq ba bp bs m1 ops) as [m2 rs]. reflexivity.
  Qed.
End GetterRun.
