(* Mirp_arcset_facts.v -- the exact arc set of the canonical MIRP build order
   (add_nodes for every port, add_travel_arcs, add_exit_arcs, add_entry_arcs); property C12, part 3. *)
From Coq Require Import QArith Qround Lqa Lia.
From VQ Require Import Base Mirp Mirp_facts Mirp_graph_facts.
Local Open Scope Q_scope.

(* ---------- dict ---------- *)
Lemma dict_get_set {V} (k k' : nat * nat) (v : V) d :
  dict_get k' (dict_set k v d) = if natpair_eqb k' k then Some v else dict_get k' d.
Proof.
  induction d as [|[k0 v0] d IH]; simpl.
  - reflexivity.
  - destruct (natpair_eqb k k0) eqn:E; simpl.
    + apply natpair_eqb_eq in E. subst k0. destruct (natpair_eqb k' k); reflexivity.
    + destruct (natpair_eqb k' k0) eqn:F.
      * apply natpair_eqb_eq in F. subst k0.
        destruct (natpair_eqb k' k) eqn:G; auto.
        apply natpair_eqb_eq in G. subst. rewrite natpair_eqb_refl in E. discriminate.
      * apply IH.
Qed.

Lemma dict_get_In {V} (k : nat * nat) (v : V) d : dict_get k d = Some v -> In (k, v) d.
Proof.
  induction d as [|[k0 v0] d IH]; simpl; [discriminate|].
  destruct (natpair_eqb k k0) eqn:E.
  - apply natpair_eqb_eq in E. subst. intro H. inversion H. auto.
  - auto.
Qed.

Lemma In_dict_get {V} (k : nat * nat) (v : V) d : NoDup (map fst d) -> In (k, v) d -> dict_get k d = Some v.
Proof.
  induction d as [|[k0 v0] d IH]; simpl; intros ND H; [contradiction|].
  inversion ND; subst. destruct H as [H|H].
  - inversion H; subst. rewrite natpair_eqb_refl. reflexivity.
  - destruct (natpair_eqb k k0) eqn:E.
    + apply natpair_eqb_eq in E. subst. exfalso. apply H2. apply (in_map fst) in H. auto.
    + auto.
Qed.

(* ---------- requests and what the arc dict contains ---------- *)
Definition req := (nname * nname * Q * Q)%type.
Definition rkey (r : req) : nname * nname := (fst (fst (fst r)), snd (fst (fst r))).

(* the arc o -> d with this time and cost is stored (under the positions of o and d) *)
Definition has_arc (g : mgraph) (r : req) : Prop :=
  exists i j, pos_of (fst (rkey r)) (mnodes g) = Some i /\ pos_of (snd (rkey r)) (mnodes g) = Some j /\
    dict_get (i, j) (marcs g) = Some (mkArc (fst (rkey r)) (snd (rkey r)) (snd (fst r)) (snd r)).

(* both endpoints exist and the timing filter holds *)
Definition passes (l : list mnode) (r : req) : Prop :=
  exists no nd, find_node (fst (rkey r)) l = Some no /\ find_node (snd (rkey r)) l = Some nd /\
    arc_filter no nd (snd (fst r)) = true.

Definition present (l : list mnode) (r : req) : Prop :=
  has_name (fst (rkey r)) l = true /\ has_name (snd (rkey r)) l = true.

(* at most one request per ordered pair of nodes *)
Definition functional (R : list req) : Prop :=
  forall x y, In x R -> In y R -> rkey x = rkey y -> x = y.

Lemma functional_incl A B : incl A B -> functional B -> functional A.
Proof. intros I F x y Hx Hy. apply F; auto. Qed.

(* the arc dict holds exactly the passing requests of P *)
Definition AI (g : mgraph) (P : list req) : Prop :=
  NoDup (map nm (mnodes g)) /\
  NoDup (map fst (marcs g)) /\
  (forall k a, In (k, a) (marcs g) ->
     pos_of (aorig a) (mnodes g) = Some (fst k) /\ pos_of (adest a) (mnodes g) = Some (snd k)) /\
  (forall x, In x P -> present (mnodes g) x) /\
  (forall x, has_arc g x <-> In x P /\ passes (mnodes g) x).

Lemma pos_of_has x l : has_name x l = true -> exists i, pos_of x l = Some i.
Proof. unfold has_name. destruct (pos_of x l); [eauto | discriminate]. Qed.

Lemma pos_of_inj l x y i : pos_of x l = Some i -> pos_of y l = Some i -> x = y.
Proof.
  intros Hx Hy. destruct (pos_of_nth _ _ _ Hx) as [_ A]. destruct (pos_of_nth _ _ _ Hy) as [_ B]. congruence.
Qed.

Lemma add_arc_nodes g o d tm c g' b : g_add_arc g o d tm c = Ok (g', b) -> mnodes g' = mnodes g.
Proof.
  unfold g_add_arc. destruct (pos_of o (mnodes g)); [|discriminate]. destruct (pos_of d (mnodes g)); [|discriminate].
  destruct (arc_filter _ _ tm); intro H; inversion H; reflexivity.
Qed.

Lemma add_arc_AI g P o d tm c :
  AI g P -> functional (P ++ [(o, d, tm, c)]) -> present (mnodes g) (o, d, tm, c) ->
  exists g' b, g_add_arc g o d tm c = Ok (g', b) /\ mnodes g' = mnodes g /\ AI g' (P ++ [(o, d, tm, c)]).
Proof.
  intros [ND [NK [FI [PR HA]]]] F [Po Pd]. cbn [rkey fst snd] in Po, Pd.
  destruct (pos_of_has _ _ Po) as [i Ei]. destruct (pos_of_has _ _ Pd) as [j Ej].
  destruct (pos_of_nth _ _ _ Ei) as [Li Ni]. destruct (pos_of_nth _ _ _ Ej) as [Lj Nj].
  unfold g_add_arc. rewrite Ei, Ej.
  assert (FNo : find_node o (mnodes g) = Some (nth i (mnodes g) dummy_mnode)) by (unfold find_node; rewrite Ei; auto).
  assert (FNd : find_node d (mnodes g) = Some (nth j (mnodes g) dummy_mnode)) by (unfold find_node; rewrite Ej; auto).
  assert (PR' : forall x, In x (P ++ [(o, d, tm, c)]) -> present (mnodes g) x).
  { intros x Hx. apply in_app_iff in Hx. destruct Hx as [Hx|[<-|[]]]; auto. split; auto. }
  assert (Rin : In (o, d, tm, c) (P ++ [(o, d, tm, c)])) by (apply in_app_iff; right; left; auto).
  destruct (arc_filter (nth i (mnodes g) dummy_mnode) (nth j (mnodes g) dummy_mnode) tm) eqn:Fl.
  - eexists; eexists; split; [reflexivity|]. split; [reflexivity|]. cbn [mnodes marcs].
    rewrite Ni, Nj.
    split; [auto|]. split; [apply dict_set_NoDup; auto|]. split; [|split; [auto|]].
    + intros k a Hin. apply dict_set_In in Hin. destruct Hin as [E|Hin]; [|apply (FI k a Hin)].
      inversion E; subst. cbn [fst snd aorig adest mnodes]. auto.
    + intros [[[o' d'] tm'] c']. unfold has_arc. cbn [rkey fst snd mnodes marcs]. split.
      * intros [i' [j' [Hi [Hj Hg]]]]. rewrite dict_get_set in Hg.
        destruct (natpair_eqb (i', j') (i, j)) eqn:Q.
        -- inversion Hg; subst o' d' tm' c'. split; auto.
           exists (nth i (mnodes g) dummy_mnode), (nth j (mnodes g) dummy_mnode). cbn [rkey fst snd]. auto.
        -- assert (HAx : has_arc g (o', d', tm', c')) by (exists i', j'; cbn [rkey fst snd]; auto).
           apply HA in HAx. destruct HAx as [A B]. split; auto. apply in_app_iff; auto.
      * intros [Hin Hp].
        destruct (PR' _ Hin) as [Po' Pd']. cbn [rkey fst snd] in Po', Pd'.
        destruct (pos_of_has _ _ Po') as [i' Ei']. destruct (pos_of_has _ _ Pd') as [j' Ej'].
        exists i', j'. split; [auto|]. split; [auto|]. rewrite dict_get_set.
        destruct (natpair_eqb (i', j') (i, j)) eqn:Q.
        -- apply natpair_eqb_eq in Q. inversion Q; subst i' j'.
           assert (o' = o) by (eapply pos_of_inj; eauto). assert (d' = d) by (eapply pos_of_inj; eauto). subst o' d'.
           assert (E : (o, d, tm', c') = (o, d, tm, c)) by (apply F; auto).
           inversion E; subst. reflexivity.
        -- apply in_app_iff in Hin. destruct Hin as [Hin|[E|[]]].
           ++ assert (HAx : has_arc g (o', d', tm', c')) by (apply HA; auto).
              destruct HAx as [i2 [j2 [Hi2 [Hj2 Hg2]]]]. cbn [rkey fst snd] in *. congruence.
           ++ inversion E; subst o' d' tm' c'.
              assert (i' = i) by congruence. assert (j' = j) by congruence. subst.
              rewrite natpair_eqb_refl in Q. discriminate.
  - eexists; eexists; split; [reflexivity|]. split; [reflexivity|].
    split; [auto|]. split; [auto|]. split; [auto|]. split; [auto|].
    intro x. split.
    + intro Hx. apply HA in Hx. destruct Hx as [A B]. split; auto. apply in_app_iff; auto.
    + intros [Hin Hp]. apply in_app_iff in Hin. destruct Hin as [Hin|[E|[]]].
      * apply HA; auto.
      * subst x. destruct Hp as [no [nd [A [B C]]]]. cbn [rkey fst snd] in *.
        rewrite FNo in A. rewrite FNd in B. inversion A; inversion B; subst. congruence.
Qed.

Lemma arcs_seq_AI reqs : forall g P,
  AI g P -> functional (P ++ reqs) -> (forall x, In x reqs -> present (mnodes g) x) ->
  exists g', arcs_seq g reqs = (g', None) /\ mnodes g' = mnodes g /\ AI g' (P ++ reqs).
Proof.
  induction reqs as [|[[[o d] tm] c] reqs IH]; intros g P A F Pr; simpl.
  - exists g. rewrite app_nil_r. auto.
  - destruct (add_arc_AI g P o d tm c A) as [g1 [b [E [N1 A1]]]].
    + eapply functional_incl; [|exact F]. intros x Hx. apply in_app_iff in Hx. apply in_app_iff.
      destruct Hx as [Hx|[<-|[]]]; simpl; auto.
    + apply Pr. left; auto.
    + rewrite E.
      destruct (IH g1 (P ++ [(o, d, tm, c)]) A1) as [g2 [E2 [N2 A2]]].
      * rewrite <- app_assoc. exact F.
      * intros x Hx. rewrite N1. apply Pr. right; auto.
      * exists g2. rewrite <- app_assoc in A2. split; auto. split; auto. congruence.
Qed.

(* ---------- appending a node does not disturb the arcs ---------- *)
Lemma find_node_app x l e : has_name x l = true -> find_node x (l ++ e) = find_node x l.
Proof.
  intro H. destruct (pos_of_has _ _ H) as [i Ei]. unfold find_node.
  rewrite (pos_of_app x l e i Ei), Ei. destruct (pos_of_nth _ _ _ Ei) as [Li _].
  rewrite app_nth1 by auto. reflexivity.
Qed.

Lemma passes_app l e x : present l x -> (passes (l ++ e) x <-> passes l x).
Proof.
  intros [A B]. unfold passes. rewrite (find_node_app _ l e A), (find_node_app _ l e B). tauto.
Qed.

Lemma add_node_AI g P x dm a b g' :
  AI g P -> g_add_node g x dm a b = Ok g' ->
  mnodes g' = mnodes g ++ [mkNode x dm a b] /\ has_name x (mnodes g) = false /\ AI g' P.
Proof.
  intros [ND [NK [FI [PR HA]]]] H. unfold g_add_node in H.
  destruct (has_name x (mnodes g)) eqn:E; [discriminate|].
  destruct (negb (q_le_ext a b)); [discriminate|]. inversion H; subst; clear H.
  cbn [mnodes marcs]. split; [auto|]. split; [auto|].
  split; [|split; [auto|split; [|split]]]; cbn [mnodes marcs].
  - rewrite map_app. simpl. apply NoDup_snoc; auto. intro Hin. apply has_name_In in Hin. congruence.
  - intros k ar Hin. destruct (FI k ar Hin) as [A B]. split; apply pos_of_app; auto.
  - intros y Hy. destruct (PR y Hy) as [A B]. split; rewrite has_name_app; [rewrite A | rewrite B]; auto.
  - intros y. unfold has_arc. cbn [mnodes marcs]. split.
    + intros [i [j [Hi [Hj Hg]]]].
      pose proof (dict_get_In _ _ _ Hg) as Hin. destruct (FI _ _ Hin) as [A B]. cbn [aorig adest fst snd] in A, B.
      assert (HAy : has_arc g y) by (exists i, j; auto).
      apply HA in HAy. destruct HAy as [I1 I2]. split; auto. apply passes_app; auto.
    + intros [Hin Hp]. apply (passes_app _ _ _ (PR y Hin)) in Hp.
      assert (HAy : has_arc g y) by (apply HA; auto).
      destruct HAy as [i [j [Hi [Hj Hg]]]]. exists i, j. split; [|split]; auto; apply pos_of_app; auto.
Qed.

(* ---------- the loops of the model are sequences of add_arc calls ---------- *)
Lemma arcs_seq_app g A B :
  arcs_seq g (A ++ B) = match arcs_seq g A with (g', None) => arcs_seq g' B | r => r end.
Proof.
  revert g. induction A as [|[[[o d] tm] c] A IH]; intro g; simpl; auto.
  destruct (g_add_arc g o d tm c) as [[g' b]|e]; auto.
Qed.

Definition pair_reqs (tm c1 c2 : Q) (prs : list (nname * nname)) : list req :=
  flat_map (fun p => [(fst p, snd p, tm, c1); (snd p, fst p, tm, c2)]) prs.

Lemma travel_pairs_eq tm tc fs fd sp dp fdv fsv prs : forall g,
  lookup dp fd = Some fdv -> lookup sp fs = Some fsv ->
  travel_pairs g prs tm tc fs fd sp dp = arcs_seq g (pair_reqs tm (tc + fdv) (tc + fsv) prs).
Proof.
  induction prs as [|[sn dn] prs IH]; intros g Hd Hs; simpl; auto.
  rewrite Hd, Hs.
  destruct (g_add_arc g sn dn tm (tc + fdv)) as [[g1 b1]|e]; auto.
  destruct (g_add_arc g1 dn sn tm (tc + fsv)) as [[g2 b2]|e]; auto.
Qed.

Definition getq (o : option Q) : Q := match o with Some v => v | None => 0 end.
Definition getl (o : option (list nname)) : list nname := match o with Some v => v | None => [] end.

(* the requests of add_travel_arcs for one (supply port, demand port) pair *)
Definition travel_reqs_pair pm dist speed unit fs fd (sp dp : nat) : list req :=
  let dd := getq (lookup2 sp dp dist) in
  pair_reqs (dd / speed) (dd * unit + getq (lookup dp fd)) (dd * unit + getq (lookup sp fs))
            (list_prod (getl (pm_get sp pm)) (getl (pm_get dp pm))).
Definition travel_reqs pm dist speed unit fs fd (sps dps : list nat) : list req :=
  flat_map (fun sp => flat_map (fun dp => travel_reqs_pair pm dist speed unit fs fd sp dp) dps) sps.

Definition tables_ok pm dist (speed : Q) (fs fd : list (nat * Q)) (sps dps : list nat) : Prop :=
  ~ speed == 0 /\
  (forall p, In p (sps ++ dps) -> pm_get p pm <> None) /\
  (forall sp dp, In sp sps -> In dp dps ->
     lookup2 sp dp dist <> None /\ lookup sp fs <> None /\ lookup dp fd <> None).

Lemma travel_d_eq pm dist speed unit fs fd sp dps : forall g,
  ~ speed == 0 -> pm_get sp pm <> None -> lookup sp fs <> None \/ dps = [] ->
  (forall dp, In dp dps -> pm_get dp pm <> None /\ lookup2 sp dp dist <> None /\ lookup dp fd <> None /\ lookup sp fs <> None) ->
  travel_d g pm sp dps dist speed unit fs fd
  = arcs_seq g (flat_map (fun dp => travel_reqs_pair pm dist speed unit fs fd sp dp) dps).
Proof.
  induction dps as [|dp dps IH]; intros g Hv Hsp _ Hd; simpl; auto.
  destruct (Hd dp (or_introl eq_refl)) as [A [B [C D]]].
  destruct (lookup2 sp dp dist) as [dd|] eqn:E1; [|congruence].
  assert (E : Qeq_bool speed 0 = false) by (apply Qeq_bool_false; auto). rewrite E.
  destruct (pm_get sp pm) as [ms|] eqn:E2; [|congruence].
  destruct (pm_get dp pm) as [md|] eqn:E3; [|congruence].
  destruct (lookup dp fd) as [fdv|] eqn:E4; [|congruence].
  destruct (lookup sp fs) as [fsv|] eqn:E5; [|congruence].
  rewrite arcs_seq_app. unfold travel_reqs_pair at 1. rewrite E1, E2, E3, E4, E5. cbn [getq getl].
  rewrite (travel_pairs_eq (dd / speed) (dd * unit) fs fd sp dp fdv fsv (list_prod ms md) g E4 E5).
  destruct (arcs_seq g (pair_reqs (dd / speed) (dd * unit + fdv) (dd * unit + fsv) (list_prod ms md))) as [g1 [e|]]; auto.
  apply IH; [auto | rewrite ?E2; congruence | left; rewrite ?E5; congruence | intros dp' H'; apply Hd; right; auto].
Qed.

Lemma travel_s_eq pm dist speed unit fs fd dps sps : forall g,
  tables_ok pm dist speed fs fd sps dps ->
  travel_s g pm sps dps dist speed unit fs fd = arcs_seq g (travel_reqs pm dist speed unit fs fd sps dps).
Proof.
  induction sps as [|sp sps IH]; intros g [Hv [Hp Ht]]; simpl; auto.
  unfold travel_reqs. simpl. rewrite arcs_seq_app.
  rewrite (travel_d_eq pm dist speed unit fs fd sp dps g); auto.
  - destruct (arcs_seq g (flat_map (fun dp => travel_reqs_pair pm dist speed unit fs fd sp dp) dps)) as [g1 [e|]]; auto.
    apply IH. split; [auto|]. split.
    + intros p Hin. apply Hp. apply in_app_iff in Hin. apply in_app_iff. simpl. tauto.
    + intros sp' dp Hs Hd. apply Ht; simpl; auto.
  - apply Hp. simpl. auto.
  - destruct dps as [|dp0 dps']; [right; auto|]. left. apply (Ht sp dp0); simpl; auto.
  - intros dp Hin. destruct (Ht sp dp) as [A [B C]]; simpl; auto.
    repeat split; auto. apply Hp. apply in_app_iff. simpl. auto.
Qed.

Definition exit_reqs pm (ports : list nat) (tm c : Q) : list req :=
  flat_map (fun p => map (fun x => (x, NDepot, tm, c)) (getl (pm_get p pm))) ports.

Lemma exit_ports_eq pm tm c ports : forall g,
  (forall p, In p ports -> pm_get p pm <> None) ->
  exit_ports g pm ports NDepot tm c = arcs_seq g (exit_reqs pm ports tm c).
Proof.
  induction ports as [|p ports IH]; intros g Hp; simpl; auto.
  destruct (pm_get p pm) as [ns|] eqn:E; [|exfalso; apply (Hp p); simpl; auto].
  unfold exit_reqs. simpl. rewrite arcs_seq_app, ?E. cbn [getl].
  destruct (arcs_seq g (map (fun x => (x, NDepot, tm, c)) ns)) as [g1 [e|]]; auto.
  apply IH. intros q Hq. apply Hp. right; auto.
Qed.

(* visits whose window ends before the entry limit *)
Definition early (l : list mnode) (limit : Q) (x : nname) : bool :=
  match find_node x l with Some n => ext_lt_q (hi n) limit | None => false end.

Definition entry_s_reqs (l : list mnode) pm (ports : list nat) (limit tm c : Q) : list req :=
  flat_map (fun p => map (fun x => (NDepot, x, tm, c)) (filter (early l limit) (getl (pm_get p pm)))) ports.

Lemma entry_s_nodes_eq l limit tm c ns : forall g,
  mnodes g = l -> (forall x, In x ns -> has_name x l = true) ->
  entry_s_nodes g ns NDepot limit tm c = arcs_seq g (map (fun x => (NDepot, x, tm, c)) (filter (early l limit) ns)).
Proof.
  induction ns as [|x ns IH]; intros g Hl Hn; simpl; auto.
  unfold early at 1. rewrite Hl.
  destruct (pos_of_has _ _ (Hn x (or_introl eq_refl))) as [i Ei].
  unfold find_node at 1 2. rewrite Ei.
  destruct (ext_lt_q (hi (nth i l dummy_mnode)) limit); simpl.
  - destruct (g_add_arc g NDepot x tm c) as [[g1 b1]|e] eqn:E1; auto.
    apply IH.
    + rewrite (add_arc_nodes _ _ _ _ _ _ _ E1). auto.
    + intros y Hy. apply Hn. right; auto.
  - apply IH; auto. intros y Hy. apply Hn. right; auto.
Qed.

Lemma arcs_seq_nodes reqs : forall g, mnodes (fst (arcs_seq g reqs)) = mnodes g.
Proof.
  induction reqs as [|[[[o d] tm] c] reqs IH]; intro g; simpl; auto.
  destruct (g_add_arc g o d tm c) as [[g1 b1]|e] eqn:E; simpl; auto.
  rewrite IH. apply (add_arc_nodes _ _ _ _ _ _ _ E).
Qed.

Lemma entry_s_ports_eq l pm limit tm c ports : forall g,
  mnodes g = l ->
  (forall p, In p ports -> pm_get p pm <> None) ->
  (forall p x, In p ports -> In x (getl (pm_get p pm)) -> has_name x l = true) ->
  entry_s_ports g pm ports NDepot limit tm c = arcs_seq g (entry_s_reqs l pm ports limit tm c).
Proof.
  induction ports as [|p ports IH]; intros g Hl Hp Hn; simpl; auto.
  destruct (pm_get p pm) as [ns|] eqn:E; [|exfalso; apply (Hp p); simpl; auto].
  unfold entry_s_reqs. simpl. rewrite arcs_seq_app, ?E. cbn [getl].
  rewrite (entry_s_nodes_eq l limit tm c ns g Hl).
  - pose proof (arcs_seq_nodes (map (fun x => (NDepot, x, tm, c)) (filter (early l limit) ns)) g) as N1.
    destruct (arcs_seq g (map (fun x => (NDepot, x, tm, c)) (filter (early l limit) ns))) as [g1 [e|]]; auto.
    apply IH; simpl in N1; try congruence.
    + intros q Hq. apply Hp. right; auto.
    + intros q x Hq Hx. apply (Hn q x); simpl; auto.
  - intros x Hx. apply (Hn p x); simpl; auto. rewrite E. auto.
Qed.

(* ---------- the demand part of add_entry_arcs ---------- *)
Fixpoint dum_reqs (nd : nat) (xs : list nname) (tm c : Q) : list req :=
  match xs with
  | [] => []
  | x :: r => (NDepot, NDum nd, 0, 0) :: (NDum nd, x, tm, c) :: dum_reqs (S nd) r tm c
  end.
Definition dum_nodes (size : Q) (nd n : nat) : list mnode :=
  map (fun i => mkNode (NDum i) (- size) 0 QInf) (seq nd n).

Lemma dum_reqs_app tm c A : forall nd B,
  dum_reqs nd (A ++ B) tm c = dum_reqs nd A tm c ++ dum_reqs (nd + length A) B tm c.
Proof.
  induction A as [|x A IH]; intros nd B; simpl.
  - rewrite Nat.add_0_r. reflexivity.
  - rewrite IH. simpl. rewrite Nat.add_succ_r. reflexivity.
Qed.
Lemma dum_nodes_app size nd a b : dum_nodes size nd (a + b) = dum_nodes size nd a ++ dum_nodes size (nd + a) b.
Proof. unfold dum_nodes. rewrite seq_app, map_app. reflexivity. Qed.

Lemma next_has l l' x : next l l' -> has_name x l = true -> has_name x l' = true.
Proof. intros [e ->] H. rewrite has_name_app, H. reflexivity. Qed.

Lemma entry_d_nodes_AI size limit tm c l ns : forall g P nd,
  AI g P -> next l (mnodes g) ->
  (forall x, In x ns -> has_name x l = true) -> has_name NDepot l = true ->
  (forall i, (nd <= i)%nat -> has_name (NDum i) (mnodes g) = false) ->
  functional (P ++ dum_reqs nd (filter (early l limit) ns) tm c) ->
  exists g',
    entry_d_nodes g ns NDepot limit tm c size nd = ((g', None), (nd + length (filter (early l limit) ns))%nat) /\
    mnodes g' = mnodes g ++ dum_nodes size nd (length (filter (early l limit) ns)) /\
    AI g' (P ++ dum_reqs nd (filter (early l limit) ns) tm c).
Proof.
  induction ns as [|x ns IH]; intros g P nd A X Hn Hd Hf F; simpl.
  - exists g. rewrite Nat.add_0_r, !app_nil_r. auto.
  - assert (Hx : has_name x l = true) by (apply Hn; left; auto).
    assert (FN : find_node x (mnodes g) = find_node x l).
    { destruct X as [e ->]. apply find_node_app. auto. }
    rewrite FN.
    destruct (pos_of_has _ _ Hx) as [i Ei].
    assert (Ee : early l limit x = ext_lt_q (hi (nth i l dummy_mnode)) limit).
    { unfold early, find_node. rewrite Ei. reflexivity. }
    simpl in F. rewrite Ee in *. unfold find_node at 1. rewrite Ei.
    destruct (ext_lt_q (hi (nth i l dummy_mnode)) limit) eqn:El.
    + (* a dummy loaded vessel in front of x *)
      cbn [length dum_reqs] in *.
      assert (E1 : g_add_node g (NDum nd) (- size) 0 QInf
                   = Ok (mkGraph (mnodes g ++ [mkNode (NDum nd) (- size) 0 QInf]) (marcs g))).
      { unfold g_add_node. rewrite (Hf nd) by lia. reflexivity. }
      rewrite E1.
      destruct (add_node_AI g P _ _ _ _ _ A E1) as [N1 [_ A1]].
      set (g1 := mkGraph (mnodes g ++ [mkNode (NDum nd) (- size) 0 QInf]) (marcs g)) in *.
      assert (X1 : next l (mnodes g1)).
      { apply (next_trans _ (mnodes g)); auto. rewrite N1. eexists; eauto. }
      assert (Pdum : has_name (NDum nd) (mnodes g1) = true).
      { rewrite N1, has_name_app. apply orb_true_iff. right. unfold has_name. simpl. rewrite Nat.eqb_refl. reflexivity. }
      destruct (add_arc_AI g1 P NDepot (NDum nd) 0 0 A1) as [g2 [b2 [E2 [N2 A2]]]].
      { eapply functional_incl; [|exact F]. intros y Hy. apply in_app_iff in Hy. apply in_app_iff.
        destruct Hy as [Hy|[<-|[]]]; simpl; auto. }
      { split; cbn [rkey fst snd]; auto. apply (next_has l); auto. }
      rewrite E2.
      destruct (add_arc_AI g2 (P ++ [(NDepot, NDum nd, 0, 0)]) (NDum nd) x tm c A2) as [g3 [b3 [E3 [N3 A3]]]].
      { eapply functional_incl; [|exact F]. intros y Hy. rewrite !in_app_iff in Hy. apply in_app_iff.
        simpl in *. intuition. }
      { split; cbn [rkey fst snd]; rewrite N2; auto. apply (next_has l); auto. }
      rewrite E3.
      destruct (IH g3 ((P ++ [(NDepot, NDum nd, 0, 0)]) ++ [(NDum nd, x, tm, c)]) (S nd) A3) as [g4 [E4 [N4 A4]]]; auto.
      * rewrite N3, N2. auto.
      * intros y Hy. apply Hn. right; auto.
      * intros j Hj. rewrite N3, N2, N1, has_name_app, (Hf j) by lia. unfold has_name. simpl.
        destruct (Nat.eqb j nd) eqn:Q; auto. apply Nat.eqb_eq in Q. lia.
      * rewrite <- !app_assoc. exact F.
      * exists g4. rewrite E4. split; [rewrite Nat.add_succ_r; reflexivity|].
        rewrite <- !app_assoc in A4. split; auto.
        rewrite N4, N3, N2, N1. unfold dum_nodes. simpl. rewrite <- app_assoc. reflexivity.
    + apply IH; auto. intros y Hy. apply Hn. right; auto.
Qed.

Definition early_list (l : list mnode) pm (ports : list nat) (limit : Q) : list nname :=
  flat_map (fun p => filter (early l limit) (getl (pm_get p pm))) ports.

Lemma entry_d_ports_AI size limit tm c l pm ports : forall g P nd,
  AI g P -> next l (mnodes g) ->
  (forall p, In p ports -> pm_get p pm <> None) ->
  (forall p x, In p ports -> In x (getl (pm_get p pm)) -> has_name x l = true) -> has_name NDepot l = true ->
  (forall i, (nd <= i)%nat -> has_name (NDum i) (mnodes g) = false) ->
  functional (P ++ dum_reqs nd (early_list l pm ports limit) tm c) ->
  exists g',
    entry_d_ports g pm ports NDepot limit tm c size nd = (g', None) /\
    mnodes g' = mnodes g ++ dum_nodes size nd (length (early_list l pm ports limit)) /\
    AI g' (P ++ dum_reqs nd (early_list l pm ports limit) tm c).
Proof.
  induction ports as [|p ports IH]; intros g P nd A X Hp Hn Hd Hf F; simpl.
  - exists g. rewrite !app_nil_r. auto.
  - destruct (pm_get p pm) as [ns|] eqn:E; [|exfalso; apply (Hp p); simpl; auto].
    unfold early_list in *. simpl in F. rewrite ?E in F. cbn [getl] in F. rewrite dum_reqs_app in F.
    destruct (entry_d_nodes_AI size limit tm c l ns g P nd A X) as [g1 [E1 [N1 A1]]]; auto.
    { intros x Hx. apply (Hn p x); simpl; auto. rewrite E. auto. }
    { eapply functional_incl; [|exact F]. intros y Hy. rewrite !in_app_iff in *. tauto. }
    rewrite E1.
    destruct (IH g1 (P ++ dum_reqs nd (filter (early l limit) ns) tm c) (nd + length (filter (early l limit) ns))%nat A1)
      as [g2 [E2 [N2 A2]]]; auto.
    + apply (next_trans _ (mnodes g)); auto. rewrite N1. eexists; eauto.
    + intros q Hq. apply Hp. right; auto.
    + intros q x Hq Hx. apply (Hn q x); simpl; auto.
    + intros i Hi. rewrite N1, has_name_app, (Hf i) by lia. simpl.
      destruct (has_name (NDum i) (dum_nodes size nd (length (filter (early l limit) ns)))) eqn:Q; auto.
      apply has_name_In in Q. unfold dum_nodes in Q. rewrite map_map in Q. simpl in Q.
      apply in_map_iff in Q. destruct Q as [j [Ej Hj]]. inversion Ej; subst j. apply in_seq in Hj. lia.
    + rewrite <- app_assoc. exact F.
    + exists g2. rewrite E2. split; auto. rewrite ?E. cbn [getl].
      rewrite app_length, dum_nodes_app, dum_reqs_app. rewrite <- app_assoc in A2. split; auto.
      rewrite N2, N1, <- app_assoc. reflexivity.
Qed.

(* ---------- the canonical build: data ---------- *)
Record pdata := mkP { pname : nat; pinit : Q; prate : Q; pcap : Q }.
Definition op_of (p : pdata) : mop := AddNodes (pname p) (pinit p) (prate p) (pcap p).
Definition is_sup (p : pdata) : bool := Qltb 0 (prate p).
Definition is_dem (p : pdata) : bool := negb (is_sup p).
Definition pK (size H : Q) (p : pdata) : nat := nvisits size H (pinit p) (prate p) (pcap p).
Definition p_vnodes (size H : Q) (p : pdata) : list mnode :=
  visit_nodes size (pname p) (pinit p) (prate p) (pcap p) 0 (pK size H p).
Definition p_vnames (size H : Q) (p : pdata) : list nname := visit_names (pname p) 0 (pK size H p).
Definition depot_node : mnode := mkNode NDepot 0 0 QInf.
Definition nodes_after (size H : Q) (ports : list pdata) : list mnode :=
  depot_node :: flat_map (p_vnodes size H) ports.
Definition sup_names (ports : list pdata) : list nat := map pname (filter is_sup ports).
Definition dem_names (ports : list pdata) : list nat := map pname (filter is_dem ports).

Definition ports_ok (size : Q) (ports : list pdata) : Prop :=
  NoDup (map pname ports) /\ (forall p, In p ports -> ~ prate p == 0 /\ size <= pcap p).

(* state after the add_nodes phase *)
Definition PI (size H : Q) (s : mstate) (done : list pdata) : Prop :=
  mnodes (gr s) = nodes_after size H done /\ marcs (gr s) = [] /\
  sports s = sup_names done /\ dports s = dem_names done /\
  (forall p, In p done -> pm_get (pname p) (pmap s) = Some (p_vnames size H p)) /\
  csize s = size /\ horizon s = H.

Lemma vnodes_names size H p : map nm (p_vnodes size H p) = p_vnames size H p.
Proof.
  unfold p_vnodes, p_vnames, visit_nodes, visit_names. rewrite map_map. reflexivity.
Qed.

Lemma nodes_after_names size H ports :
  map nm (nodes_after size H ports) = NDepot :: flat_map (p_vnames size H) ports.
Proof.
  unfold nodes_after. simpl. f_equal. induction ports as [|p ports IH]; simpl; auto.
  rewrite map_app, vnodes_names, IH. reflexivity.
Qed.

Lemma in_vnames size H p x : In x (p_vnames size H p) <-> exists k, (k < pK size H p)%nat /\ x = NVisit (pname p) k.
Proof.
  unfold p_vnames, visit_names. rewrite in_map_iff. split.
  - intros [k [E Hk]]. apply in_seq in Hk. exists k. split; [lia | auto].
  - intros [k [Hk E]]. exists k. split; auto. apply in_seq. lia.
Qed.

Lemma fresh_port size H done name j :
  ~ In name (map pname done) -> has_name (NVisit name j) (nodes_after size H done) = false.
Proof.
  intro Hn. destruct (has_name (NVisit name j) (nodes_after size H done)) eqn:E; auto.
  apply has_name_In in E. rewrite nodes_after_names in E. destruct E as [E|E]; [discriminate|].
  apply in_flat_map in E. destruct E as [p [Hp Hx]]. apply in_vnames in Hx. destruct Hx as [k [_ Ek]].
  inversion Ek; subst. exfalso. apply Hn. apply in_map. auto.
Qed.

Lemma phase_step size H s done p :
  0 < size -> PI size H s done -> ~ In (pname p) (map pname done) -> ~ prate p == 0 -> size <= pcap p ->
  PI size H (fst (mstep s (op_of p))) (done ++ [p]) /\
  snd (mstep s (op_of p)) = Ok (Some (p_vnames size H p)).
Proof.
  intros Hs [N [Ar [Sp [Dp [Pm [Cs Hz]]]]]] Hfresh Hr Hc.
  unfold op_of. cbn [mstep].
  destruct (add_nodes_spec s (pname p) (pinit p) (prate p) (pcap p)
              (S (nvisits (csize s) (horizon s) (pinit p) (prate p) (pcap p)))) as [_ [s' [_ [E R]]]];
    try (rewrite Cs; auto; fail); auto.
  { intro j. rewrite N. apply fresh_port. auto. }
  rewrite E. cbn [fst snd]. rewrite Cs, Hz in *.
  destruct R as [N' [Ar' [Sp' [Dp' [Pm1 [Pm2 [Cs' Hz']]]]]]].
  split; [|reflexivity].
  unfold PI. split; [|split; [|split; [|split; [|split; [|split]]]]]; try congruence.
  - rewrite N', N. unfold nodes_after. rewrite flat_map_app. cbn [flat_map]. rewrite app_nil_r. reflexivity.
  - rewrite Sp', Sp. unfold sup_names. rewrite filter_app, map_app. simpl. fold (is_sup p).
    destruct (is_sup p); simpl; auto. rewrite app_nil_r. reflexivity.
  - rewrite Dp', Dp. unfold dem_names. rewrite filter_app, map_app. simpl. change (is_dem p) with (negb (Qltb 0 (prate p))).
    destruct (Qltb 0 (prate p)); simpl; rewrite ?app_nil_r; auto.
  - intros q Hq. apply in_app_iff in Hq. destruct Hq as [Hq|[<-|[]]].
    + rewrite Pm2; auto. intro Eq. apply Hfresh. rewrite <- Eq. apply in_map. auto.
    + exact Pm1.
Qed.

Lemma phase_run size H : forall ports done s,
  0 < size -> PI size H s done -> NoDup (map pname (done ++ ports)) ->
  (forall p, In p ports -> ~ prate p == 0 /\ size <= pcap p) ->
  PI size H (mrun (map op_of ports) s) (done ++ ports) /\
  mtrace (map op_of ports) s = map (fun p => Ok (Some (p_vnames size H p))) ports.
Proof.
  induction ports as [|p ports IH]; intros done s Hs I ND Hp.
  - simpl. rewrite app_nil_r. auto.
  - change (mrun (map op_of (p :: ports)) s) with (mrun (map op_of ports) (fst (mstep s (op_of p)))).
    change (mtrace (map op_of (p :: ports)) s)
      with (snd (mstep s (op_of p)) :: mtrace (map op_of ports) (fst (mstep s (op_of p)))).
    destruct (Hp p (or_introl eq_refl)) as [Hr Hc].
    destruct (phase_step size H s done p Hs I) as [I' R']; auto.
    { rewrite map_app in ND. simpl in ND. apply NoDup_remove_2 in ND. intro Hin. apply ND. apply in_app_iff. auto. }
    destruct (IH (done ++ [p]) (fst (mstep s (op_of p))) Hs I') as [I'' R''].
    + rewrite <- app_assoc. exact ND.
    + intros q Hq. apply Hp. right; auto.
    + rewrite <- app_assoc in I''. split; auto. rewrite R', R''. reflexivity.
Qed.

Lemma PI_init size H : PI size H (init_state size H) [].
Proof. unfold PI, init_state. cbn. repeat split; auto. intros p []. Qed.

(* ---------- the canonical build: specification of the arc set ---------- *)
Lemma in_dum_reqs tm c xs : forall nd x,
  In x (dum_reqs nd xs tm c) <->
  exists i v, nth_error xs i = Some v /\ (x = (NDepot, NDum (nd + i), 0, 0) \/ x = (NDum (nd + i), v, tm, c)).
Proof.
  induction xs as [|y xs IH]; intros nd x; simpl.
  - split; [tauto|]. intros [i [v [E _]]]. destruct i; discriminate.
  - rewrite IH. split.
    + intros [<-|[<-|[i [v [E Hx]]]]].
      * exists 0%nat, y. rewrite Nat.add_0_r. simpl. auto.
      * exists 0%nat, y. rewrite Nat.add_0_r. simpl. auto.
      * exists (S i), v. rewrite Nat.add_succ_r. simpl. auto.
    + intros [[|i] [v [E Hx]]]; simpl in E.
      * inversion E; subst v. rewrite Nat.add_0_r in Hx. destruct Hx as [->| ->]; auto.
      * right. right. exists i, v. rewrite Nat.add_succ_r in Hx. auto.
Qed.

Lemma pname_inj ports a b :
  NoDup (map pname ports) -> In a ports -> In b ports -> pname a = pname b -> a = b.
Proof.
  induction ports as [|p ports IH]; simpl; intros ND Ha Hb E; [contradiction|].
  inversion ND; subst. destruct Ha as [<-|Ha]; destruct Hb as [<-|Hb]; auto.
  - exfalso. apply H1. rewrite E. apply in_map. auto.
  - exfalso. apply H1. rewrite <- E. apply in_map. auto.
Qed.

Section Canon.
  Variables (size H : Q) (ports : list pdata).
  Variables (dist : list ((nat * nat) * Q)) (speed unit : Q) (fs fd : list (nat * Q)).
  Variables (etm ec limit ntm nc : Q).

  Let l := nodes_after size H ports.
  Definition c_time (sp dp : nat) : Q := getq (lookup2 sp dp dist) / speed.
  Definition c_cost_to_demand (sp dp : nat) : Q := getq (lookup2 sp dp dist) * unit + getq (lookup dp fd).
  Definition c_cost_to_supply (sp dp : nat) : Q := getq (lookup2 sp dp dist) * unit + getq (lookup sp fs).
  (* the demand visits whose window ends before the entry limit, in port order, then visit order *)
  Definition c_early : list nname :=
    flat_map (fun p => filter (early l limit) (p_vnames size H p)) (filter is_dem ports).

  (* the specified arcs (before the timing filter) *)
  Inductive spec_arc : req -> Prop :=
  | SA_supply_to_demand sp dp i j :
      In sp ports -> is_sup sp = true -> In dp ports -> is_sup dp = false ->
      (i < pK size H sp)%nat -> (j < pK size H dp)%nat ->
      spec_arc (NVisit (pname sp) i, NVisit (pname dp) j,
                c_time (pname sp) (pname dp), c_cost_to_demand (pname sp) (pname dp))
  | SA_demand_to_supply sp dp i j :
      In sp ports -> is_sup sp = true -> In dp ports -> is_sup dp = false ->
      (i < pK size H sp)%nat -> (j < pK size H dp)%nat ->
      spec_arc (NVisit (pname dp) j, NVisit (pname sp) i,
                c_time (pname sp) (pname dp), c_cost_to_supply (pname sp) (pname dp))
  | SA_exit p k :
      In p ports -> (k < pK size H p)%nat -> spec_arc (NVisit (pname p) k, NDepot, etm, ec)
  | SA_entry_supply sp k :
      In sp ports -> is_sup sp = true -> (k < pK size H sp)%nat ->
      early l limit (NVisit (pname sp) k) = true ->
      spec_arc (NDepot, NVisit (pname sp) k, ntm, nc)
  | SA_entry_dummy i :
      (i < length c_early)%nat -> spec_arc (NDepot, NDum i, 0, 0)
  | SA_dummy_to_demand i v :
      nth_error c_early i = Some v -> spec_arc (NDum i, v, ntm, nc).

  Hypothesis ND : NoDup (map pname ports).

  Lemma spec_arc_functional x y : spec_arc x -> spec_arc y -> rkey x = rkey y -> x = y.
  Proof.
    intros Hx Hy K.
    destruct Hx as [sp dp i j A1 A2 A3 A4 A5 A6 | sp dp i j A1 A2 A3 A4 A5 A6 | p k A1 A2 | sp k A1 A2 A3 A4 | i A1 | i v A1];
    destruct Hy as [sp' dp' i' j' B1 B2 B3 B4 B5 B6 | sp' dp' i' j' B1 B2 B3 B4 B5 B6 | p' k' B1 B2 | sp' k' B1 B2 B3 B4 | i' B1 | i' v' B1];
    cbn [rkey fst snd] in K; inversion K;
    try reflexivity;
    try (repeat match goal with E : pname _ = pname _ |- _ => rewrite E; clear E end; reflexivity);
    try (exfalso;
         match goal with
         | E : pname ?a = pname ?b, Sa : is_sup ?a = true, Sb : is_sup ?b = false |- _ =>
             assert (a = b) by (apply (pname_inj ports); auto); subst; congruence
         | E : pname ?a = pname ?b, Sa : is_sup ?a = false, Sb : is_sup ?b = true |- _ =>
             assert (a = b) by (apply (pname_inj ports); auto); subst; congruence
         end).
  Qed.

  (* the requests issued by the three arc procedures on the state reached after the add_nodes phase *)
  Variable pm : list (nat * list nname).
  Hypothesis PM : forall p, In p ports -> pm_get (pname p) pm = Some (p_vnames size H p).

  Definition c_reqs : list req :=
    travel_reqs pm dist speed unit fs fd (sup_names ports) (dem_names ports) ++
    exit_reqs pm (sup_names ports ++ dem_names ports) etm ec ++
    entry_s_reqs l pm (sup_names ports) limit ntm nc ++
    dum_reqs 0 (early_list l pm (dem_names ports) limit) ntm nc.

  Lemma in_sup_names n : In n (sup_names ports) <-> exists p, In p ports /\ is_sup p = true /\ pname p = n.
  Proof.
    unfold sup_names. rewrite in_map_iff. split.
    - intros [p [E Hp]]. apply filter_In in Hp. exists p. tauto.
    - intros [p [A [B C]]]. exists p. split; auto. apply filter_In. auto.
  Qed.
  Lemma in_dem_names n : In n (dem_names ports) <-> exists p, In p ports /\ is_sup p = false /\ pname p = n.
  Proof.
    unfold dem_names. rewrite in_map_iff. split.
    - intros [p [E Hp]]. apply filter_In in Hp. destruct Hp as [A B]. unfold is_dem in B.
      apply negb_true_iff in B. exists p. tauto.
    - intros [p [A [B C]]]. exists p. split; auto. apply filter_In. split; auto. unfold is_dem. rewrite B. auto.
  Qed.

  Lemma getl_pm p : In p ports -> getl (pm_get (pname p) pm) = p_vnames size H p.
  Proof. intro Hp. rewrite (PM p Hp). reflexivity. Qed.

  Lemma early_list_eq : early_list l pm (dem_names ports) limit = c_early.
  Proof.
    unfold early_list, c_early, dem_names.
    assert (G : forall ps, (forall p, In p ps -> In p ports) ->
              flat_map (fun p => filter (early l limit) (getl (pm_get p pm))) (map pname ps)
              = flat_map (fun p => filter (early l limit) (p_vnames size H p)) ps).
    { induction ps as [|p ps IH]; intro Hin; simpl; auto.
      rewrite getl_pm by (apply Hin; simpl; auto). rewrite IH; auto. intros q Hq. apply Hin. simpl. auto. }
    apply G. intros p Hp. apply filter_In in Hp. tauto.
  Qed.

  Lemma in_pair_reqs tm c1 c2 prs x :
    In x (pair_reqs tm c1 c2 prs) <->
    exists sn dn, In (sn, dn) prs /\ (x = (sn, dn, tm, c1) \/ x = (dn, sn, tm, c2)).
  Proof.
    unfold pair_reqs. rewrite in_flat_map. split.
    - intros [[sn dn] [A [B|[B|[]]]]]; exists sn, dn; simpl in *; auto.
    - intros [sn [dn [A [B|B]]]]; exists (sn, dn); simpl; auto.
  Qed.

  Lemma c_reqs_spec x : In x c_reqs <-> spec_arc x.
  Proof.
    unfold c_reqs. rewrite !in_app_iff. split.
    - intros [Ht|[He|[Hs|Hd]]].
      + unfold travel_reqs in Ht. apply in_flat_map in Ht. destruct Ht as [sp [Hsp Ht]].
        apply in_flat_map in Ht. destruct Ht as [dp [Hdp Ht]].
        apply in_sup_names in Hsp. destruct Hsp as [p [P1 [P2 <-]]].
        apply in_dem_names in Hdp. destruct Hdp as [q [Q1 [Q2 <-]]].
        unfold travel_reqs_pair in Ht. rewrite (getl_pm p P1), (getl_pm q Q1) in Ht.
        apply in_pair_reqs in Ht. destruct Ht as [sn [dn [Hin Hx]]].
        apply in_prod_iff in Hin. destruct Hin as [A B].
        apply in_vnames in A. destruct A as [i [Hi ->]]. apply in_vnames in B. destruct B as [j [Hj ->]].
        destruct Hx as [->| ->].
        * apply SA_supply_to_demand; auto.
        * apply SA_demand_to_supply; auto.
      + unfold exit_reqs in He. apply in_flat_map in He. destruct He as [n [Hn He]].
        apply in_map_iff in He. destruct He as [v [<- Hv]].
        apply in_app_iff in Hn. destruct Hn as [Hn|Hn].
        * apply in_sup_names in Hn. destruct Hn as [p [P1 [P2 <-]]]. rewrite (getl_pm p P1) in Hv.
          apply in_vnames in Hv. destruct Hv as [k [Hk ->]]. apply SA_exit; auto.
        * apply in_dem_names in Hn. destruct Hn as [p [P1 [P2 <-]]]. rewrite (getl_pm p P1) in Hv.
          apply in_vnames in Hv. destruct Hv as [k [Hk ->]]. apply SA_exit; auto.
      + unfold entry_s_reqs in Hs. apply in_flat_map in Hs. destruct Hs as [n [Hn Hs]].
        apply in_map_iff in Hs. destruct Hs as [v [<- Hv]]. apply filter_In in Hv. destruct Hv as [Hv Ev].
        apply in_sup_names in Hn. destruct Hn as [p [P1 [P2 <-]]]. rewrite (getl_pm p P1) in Hv.
        apply in_vnames in Hv. destruct Hv as [k [Hk ->]]. apply SA_entry_supply; auto.
      + rewrite early_list_eq in Hd. apply in_dum_reqs in Hd. destruct Hd as [i [v [E [->| ->]]]]; simpl.
        * apply SA_entry_dummy. apply nth_error_Some. congruence.
        * apply SA_dummy_to_demand. auto.
    - intros Hx.
      destruct Hx as [sp dp i j A1 A2 A3 A4 A5 A6 | sp dp i j A1 A2 A3 A4 A5 A6 | p k A1 A2 | sp k A1 A2 A3 A4 | i A1 | i v A1].
      + left. unfold travel_reqs. apply in_flat_map. exists (pname sp). split; [apply in_sup_names; eauto|].
        apply in_flat_map. exists (pname dp). split; [apply in_dem_names; eauto|].
        unfold travel_reqs_pair. rewrite (getl_pm sp A1), (getl_pm dp A3). apply in_pair_reqs.
        exists (NVisit (pname sp) i), (NVisit (pname dp) j). split; [|left; reflexivity].
        apply in_prod_iff. split; apply in_vnames; eauto.
      + left. unfold travel_reqs. apply in_flat_map. exists (pname sp). split; [apply in_sup_names; eauto|].
        apply in_flat_map. exists (pname dp). split; [apply in_dem_names; eauto|].
        unfold travel_reqs_pair. rewrite (getl_pm sp A1), (getl_pm dp A3). apply in_pair_reqs.
        exists (NVisit (pname sp) i), (NVisit (pname dp) j). split; [|right; reflexivity].
        apply in_prod_iff. split; apply in_vnames; eauto.
      + right. left. unfold exit_reqs. apply in_flat_map. exists (pname p). split.
        * apply in_app_iff. destruct (is_sup p) eqn:Q; [left; apply in_sup_names | right; apply in_dem_names]; eauto.
        * apply in_map_iff. exists (NVisit (pname p) k). split; auto. rewrite (getl_pm p A1). apply in_vnames. eauto.
      + right. right. left. unfold entry_s_reqs. apply in_flat_map. exists (pname sp). split; [apply in_sup_names; eauto|].
        apply in_map_iff. exists (NVisit (pname sp) k). split; auto. apply filter_In. split; auto.
        rewrite (getl_pm sp A1). apply in_vnames. eauto.
      + right. right. right. rewrite early_list_eq. apply in_dum_reqs.
        destruct (nth_error c_early i) as [v|] eqn:E; [|apply nth_error_None in E; lia].
        exists i, v. simpl. auto.
      + right. right. right. rewrite early_list_eq. apply in_dum_reqs. exists i, v. simpl. auto.
  Qed.

  Lemma c_reqs_functional : functional c_reqs.
  Proof.
    intros x y Hx Hy K. apply c_reqs_spec in Hx. apply c_reqs_spec in Hy. apply spec_arc_functional; auto.
  Qed.
End Canon.

(* ---------- assembling the canonical build ---------- *)
Lemma mrun_app A B s : mrun (A ++ B) s = mrun B (mrun A s).
Proof. unfold mrun. apply fold_left_app. Qed.
Lemma mtrace_app A : forall B s, mtrace (A ++ B) s = mtrace A s ++ mtrace B (mrun A s).
Proof. induction A as [|o A IH]; intros B s; simpl; auto. rewrite IH. reflexivity. Qed.
Lemma mrun3 o1 o2 o3 s : mrun [o1; o2; o3] s = fst (mstep (fst (mstep (fst (mstep s o1)) o2)) o3).
Proof. reflexivity. Qed.
Lemma mtrace3 o1 o2 o3 s :
  mtrace [o1; o2; o3] s = [snd (mstep s o1); snd (mstep (fst (mstep s o1)) o2);
                           snd (mstep (fst (mstep (fst (mstep s o1)) o2)) o3)].
Proof. reflexivity. Qed.
Lemma ports_of_map ports : ports_of (map op_of ports) = map pname ports.
Proof. induction ports as [|p ports IH]; simpl; auto. rewrite IH. reflexivity. Qed.

Lemma visit_present size H ports p k :
  In p ports -> (k < pK size H p)%nat -> has_name (NVisit (pname p) k) (nodes_after size H ports) = true.
Proof.
  intros Hp Hk. apply has_name_In. rewrite nodes_after_names. right. apply in_flat_map.
  exists p. split; auto. apply in_vnames. eauto.
Qed.
Lemma depot_present size H ports : has_name NDepot (nodes_after size H ports) = true.
Proof. reflexivity. Qed.
Lemma dum_fresh size H ports i : has_name (NDum i) (nodes_after size H ports) = false.
Proof.
  destruct (has_name (NDum i) (nodes_after size H ports)) eqn:E; auto.
  apply has_name_In in E. rewrite nodes_after_names in E. destruct E as [E|E]; [discriminate|].
  apply in_flat_map in E. destruct E as [p [_ Hx]]. apply in_vnames in Hx. destruct Hx as [k [_ Ek]]. discriminate.
Qed.

Lemma travel_reqs_present l pm dist speed unit fs fd sps dps :
  (forall p v, In p (sps ++ dps) -> In v (getl (pm_get p pm)) -> has_name v l = true) ->
  forall x, In x (travel_reqs pm dist speed unit fs fd sps dps) -> present l x.
Proof.
  intros Hv x Hx. unfold travel_reqs in Hx. apply in_flat_map in Hx. destruct Hx as [sp [Hsp Hx]].
  apply in_flat_map in Hx. destruct Hx as [dp [Hdp Hx]]. unfold travel_reqs_pair in Hx.
  apply in_pair_reqs in Hx. destruct Hx as [sn [dn [Hin Hx]]]. apply in_prod_iff in Hin. destruct Hin as [A B].
  assert (Ps : has_name sn l = true) by (apply (Hv sp); auto; apply in_app_iff; auto).
  assert (Pd : has_name dn l = true) by (apply (Hv dp); auto; apply in_app_iff; auto).
  destruct Hx as [->| ->]; split; auto.
Qed.
Lemma exit_reqs_present l pm ports tm c :
  has_name NDepot l = true ->
  (forall p v, In p ports -> In v (getl (pm_get p pm)) -> has_name v l = true) ->
  forall x, In x (exit_reqs pm ports tm c) -> present l x.
Proof.
  intros Hd Hv x Hx. unfold exit_reqs in Hx. apply in_flat_map in Hx. destruct Hx as [p [Hp Hx]].
  apply in_map_iff in Hx. destruct Hx as [v [<- Hin]]. split; cbn [rkey fst snd]; auto. apply (Hv p); auto.
Qed.
Lemma entry_s_reqs_present l pm ports limit tm c :
  has_name NDepot l = true ->
  (forall p v, In p ports -> In v (getl (pm_get p pm)) -> has_name v l = true) ->
  forall x, In x (entry_s_reqs l pm ports limit tm c) -> present l x.
Proof.
  intros Hd Hv x Hx. unfold entry_s_reqs in Hx. apply in_flat_map in Hx. destruct Hx as [p [Hp Hx]].
  apply in_map_iff in Hx. destruct Hx as [v [<- Hin]]. apply filter_In in Hin. destruct Hin as [Hin _].
  split; cbn [rkey fst snd]; auto. apply (Hv p); auto.
Qed.

Definition canonical_ops ports dist speed unit fs fd etm ec limit ntm nc : list mop :=
  map op_of ports ++ [AddTravelArcs dist speed unit fs fd; AddExitArcs etm ec; AddEntryArcs limit ntm nc].

(* every (supply port, demand port) pair has a distance and both ports have a fee *)
Definition tables_complete (ports : list pdata) (dist : list ((nat * nat) * Q)) (fs fd : list (nat * Q)) : Prop :=
  forall sp dp, In sp ports -> is_sup sp = true -> In dp ports -> is_sup dp = false ->
    lookup2 (pname sp) (pname dp) dist <> None /\ lookup (pname sp) fs <> None /\ lookup (pname dp) fd <> None.

Theorem canonical_build size H ports dist speed unit fs fd etm ec limit ntm nc :
  0 < size -> ports_ok size ports -> ~ speed == 0 -> tables_complete ports dist fs fd ->
  let ops := canonical_ops ports dist speed unit fs fd etm ec limit ntm nc in
  let g := gr (mrun ops (init_state size H)) in
  mtrace ops (init_state size H)
    = map (fun p => Ok (Some (p_vnames size H p))) ports ++ [Ok None; Ok None; Ok None] /\
  mnodes g = nodes_after size H ports ++ dum_nodes size 0 (length (c_early size H ports limit)) /\
  exists pm, (forall p, In p ports -> pm_get (pname p) pm = Some (p_vnames size H p)) /\
             AI g (c_reqs size H ports dist speed unit fs fd etm ec limit ntm nc pm).
Proof.
  intros Hs [ND Hp] Hv Ht ops g.
  set (s1 := mrun (map op_of ports) (init_state size H)).
  destruct (phase_run size H ports [] (init_state size H) Hs (PI_init size H)) as [I1 T1]; auto.
  fold s1 in I1. simpl app in I1.
  destruct I1 as [N1 [Ar1 [Sp1 [Dp1 [Pm1 [Cs1 Hz1]]]]]].
  set (l := nodes_after size H ports) in *.
  set (pm := pmap s1) in *.
  set (R := c_reqs size H ports dist speed unit fs fd etm ec limit ntm nc pm).
  assert (FR : functional R) by (apply c_reqs_functional; auto).
  assert (G1 : GInv size (gr s1)).
  { apply graph_invariant; auto. rewrite ports_of_map. auto. }
  assert (A1 : AI (gr s1) []).
  { destruct G1 as [_ [NDn _]]. split; [auto|]. rewrite Ar1. split; [constructor|].
    split; [intros k a []|]. split; [intros x []|].
    intros [[[o d] tm] c]. unfold has_arc. rewrite Ar1. split.
    - intros [i [j [_ [_ E]]]]. discriminate.
    - intros [[] _]. }
  (* names listed in port_mapping are nodes *)
  assert (PV : forall p v, In p (sup_names ports ++ dem_names ports) -> In v (getl (pm_get p pm)) -> has_name v l = true).
  { intros n v Hn Hin. apply in_app_iff in Hn.
    assert (exists p, In p ports /\ pname p = n) as [p [P1 <-]].
    { destruct Hn as [Hn|Hn]; [apply in_sup_names in Hn | apply in_dem_names in Hn]; destruct Hn as [p [A [_ B]]]; eauto. }
    rewrite (Pm1 p P1) in Hin. cbn [getl] in Hin. apply in_vnames in Hin. destruct Hin as [k [Hk ->]].
    apply visit_present; auto. }
  assert (PN : forall p, In p (sup_names ports ++ dem_names ports) -> pm_get p pm <> None).
  { intros n Hn. apply in_app_iff in Hn.
    assert (exists p, In p ports /\ pname p = n) as [p [P1 <-]].
    { destruct Hn as [Hn|Hn]; [apply in_sup_names in Hn | apply in_dem_names in Hn]; destruct Hn as [p [A [_ B]]]; eauto. }
    rewrite (Pm1 p P1). discriminate. }
  set (Rt := travel_reqs pm dist speed unit fs fd (sup_names ports) (dem_names ports)) in *.
  set (Re := exit_reqs pm (sup_names ports ++ dem_names ports) etm ec) in *.
  set (Rs := entry_s_reqs l pm (sup_names ports) limit ntm nc) in *.
  set (Rd := dum_reqs 0 (early_list l pm (dem_names ports) limit) ntm nc) in *.
  assert (RE : R = Rt ++ Re ++ Rs ++ Rd) by reflexivity.
  (* 1. travel arcs *)
  assert (TO : tables_ok pm dist speed fs fd (sup_names ports) (dem_names ports)).
  { split; [auto|]. split; [auto|]. intros sp dp Hsp Hdp.
    apply in_sup_names in Hsp. destruct Hsp as [p [P1 [P2 <-]]].
    apply in_dem_names in Hdp. destruct Hdp as [q [Q1 [Q2 <-]]]. apply Ht; auto. }
  destruct (arcs_seq_AI Rt (gr s1) [] A1) as [g2 [E2 [N2 A2]]].
  { simpl. eapply functional_incl; [|exact FR]. rewrite RE. intros x Hx. apply in_app_iff. auto. }
  { rewrite N1. apply travel_reqs_present. auto. }
  simpl app in A2.
  (* 2. exit arcs *)
  destruct (arcs_seq_AI Re g2 Rt A2) as [g3 [E3 [N3 A3]]].
  { eapply functional_incl; [|exact FR]. rewrite RE. intros x Hx. rewrite !in_app_iff in *. tauto. }
  { rewrite N2, N1. apply exit_reqs_present; auto. }
  (* 3. entry arcs to supply visits *)
  destruct (arcs_seq_AI Rs g3 (Rt ++ Re) A3) as [g4 [E4 [N4 A4]]].
  { eapply functional_incl; [|exact FR]. rewrite RE. intros x Hx. rewrite !in_app_iff in *. tauto. }
  { rewrite N3, N2, N1. apply entry_s_reqs_present; auto. intros p v A B. apply (PV p v); auto. apply in_app_iff. auto. }
  (* 4. dummy vessels *)
  destruct (entry_d_ports_AI size limit ntm nc l pm (dem_names ports) g4 ((Rt ++ Re) ++ Rs) 0%nat A4) as [g5 [E5 [N5 A5]]].
  { rewrite N4, N3, N2, N1. apply next_refl. }
  { intros p A. apply PN. apply in_app_iff. auto. }
  { intros p v A B. apply (PV p v); auto. apply in_app_iff. auto. }
  { reflexivity. }
  { intros i _. rewrite N4, N3, N2, N1. apply dum_fresh. }
  { fold Rd. rewrite <- !app_assoc. rewrite <- RE. exact FR. }
  fold Rd in A5. rewrite <- !app_assoc in A5. rewrite <- RE in A5.
  (* the three calls, as the model runs them *)
  assert (S2 : mstep s1 (AddTravelArcs dist speed unit fs fd) = (set_gr s1 g2, Ok None)).
  { cbn [mstep]. unfold add_travel_arcs. fold pm. rewrite Sp1, Dp1.
    rewrite (travel_s_eq pm dist speed unit fs fd (dem_names ports) (sup_names ports) (gr s1) TO).
    fold Rt. rewrite E2. reflexivity. }
  assert (S3 : mstep (set_gr s1 g2) (AddExitArcs etm ec) = (set_gr s1 g3, Ok None)).
  { cbn [mstep]. unfold add_exit_arcs. cbn [set_gr gr pmap sports dports]. fold pm. rewrite Sp1, Dp1.
    assert (DN : depot_name g2 = NDepot) by (unfold depot_name; rewrite N2, N1; reflexivity).
    rewrite DN. rewrite (exit_ports_eq pm etm ec (sup_names ports ++ dem_names ports) g2 PN).
    fold Re. rewrite E3. reflexivity. }
  assert (S4 : mstep (set_gr s1 g3) (AddEntryArcs limit ntm nc) = (set_gr s1 g5, Ok None)).
  { cbn [mstep]. unfold add_entry_arcs. cbn [set_gr gr pmap sports dports csize]. fold pm. rewrite Sp1, Dp1, Cs1.
    assert (DN : depot_name g3 = NDepot) by (unfold depot_name; rewrite N3, N2, N1; reflexivity).
    rewrite DN.
    rewrite (entry_s_ports_eq l pm limit ntm nc (sup_names ports) g3).
    - fold Rs. rewrite E4. rewrite E5. reflexivity.
    - rewrite N3, N2, N1. reflexivity.
    - intros p A. apply PN. apply in_app_iff. auto.
    - intros p v A B. apply (PV p v); auto. apply in_app_iff. auto. }
  assert (RUN : mrun ops (init_state size H) = set_gr s1 g5 /\
                mtrace ops (init_state size H)
                = map (fun p => Ok (Some (p_vnames size H p))) ports ++ [Ok None; Ok None; Ok None]).
  { unfold ops, canonical_ops. rewrite mrun_app, mtrace_app. fold s1. rewrite T1. split.
    - rewrite mrun3. rewrite S2. cbn [fst]. rewrite S3. cbn [fst]. rewrite S4. reflexivity.
    - f_equal. rewrite mtrace3. rewrite S2. cbn [fst snd]. rewrite S3. cbn [fst snd]. rewrite S4. reflexivity. }
  destruct RUN as [RUN TR]. split; [exact TR|].
  subst g. rewrite RUN. cbn [set_gr gr]. split.
  - rewrite N5, N4, N3, N2, N1. subst l.
    rewrite (early_list_eq size H ports limit pm); auto.
  - exists pm. split; auto.
Qed.

Theorem arcset_final size H ports dist speed unit fs fd etm ec limit ntm nc :
  0 < size -> ports_ok size ports -> ~ speed == 0 -> tables_complete ports dist fs fd ->
  let ops := canonical_ops ports dist speed unit fs fd etm ec limit ntm nc in
  let g := gr (mrun ops (init_state size H)) in
  mtrace ops (init_state size H)
    = map (fun p => Ok (Some (p_vnames size H p))) ports ++ [Ok None; Ok None; Ok None] /\
  mnodes g = nodes_after size H ports ++ dum_nodes size 0 (length (c_early size H ports limit)) /\
  NoDup (map fst (marcs g)) /\
  (forall k a, In (k, a) (marcs g) ->
     pos_of (aorig a) (mnodes g) = Some (fst k) /\ pos_of (adest a) (mnodes g) = Some (snd k) /\
     has_arc g (aorig a, adest a, att a, acost a)) /\
  (forall x, has_arc g x <->
             spec_arc size H ports dist speed unit fs fd etm ec limit ntm nc x /\ passes (mnodes g) x) /\
  (forall p k, In p ports -> (k < pK size H p)%nat -> has_arc g (NVisit (pname p) k, NDepot, etm, ec)).
Proof.
  intros Hs Hok Hv Ht ops g.
  destruct (canonical_build size H ports dist speed unit fs fd etm ec limit ntm nc Hs Hok Hv Ht)
    as [TR [N [pm [PM A]]]].
  fold ops in TR, N, A. fold g in N, A.
  destruct Hok as [ND Hp].
  destruct A as [NDn [NK [FI [PR HA]]]].
  assert (SPEC : forall x, has_arc g x <->
             spec_arc size H ports dist speed unit fs fd etm ec limit ntm nc x /\ passes (mnodes g) x).
  { intro x. rewrite HA. rewrite (c_reqs_spec size H ports dist speed unit fs fd etm ec limit ntm nc pm PM x). tauto. }
  split; [exact TR|]. split; [exact N|]. split; [exact NK|]. split; [|split; [exact SPEC|]].
  - intros k a Hin. destruct (FI k a Hin) as [A B]. split; [auto|]. split; [auto|].
    exists (fst k), (snd k). cbn [rkey fst snd]. split; [auto|]. split; [auto|].
    rewrite <- surjective_pairing. rewrite (In_dict_get k a (marcs g) NK Hin). destruct a; reflexivity.
  - intros p k Hin Hk. apply SPEC. split; [apply SA_exit; auto|].
    assert (Pv : has_name (NVisit (pname p) k) (mnodes g) = true).
    { rewrite N, has_name_app, visit_present; auto. }
    destruct (pos_of_has _ _ Pv) as [i Ei].
    exists (nth i (mnodes g) dummy_mnode), depot_node. cbn [rkey fst snd].
    split; [unfold find_node; rewrite Ei; reflexivity|]. split; [rewrite N; reflexivity|].
    reflexivity.
Qed.
