(* Path.v -- executable model of routing_problem/formulations/path_based_rp.py
   (class PathBasedRoutingProblem: check_arc, check_route, add_route, get_math_program_data,
   get_objective_data, get_constraint_data, get_num_variables, get_routes), the reference
   route definition of doc/MIRPasQUBO.tex, and the correspondence check.  Definitions only.  [C06]

   The graph part of the state is Vrptw.graph (read-only use of Vrptw.add_node / add_arc).
   Node names are nats (as in Vrptw.v); a route element is  inl name | inr index  where an
   index is a Python int (Z: negative ints are modelled with Python's wrap-around list
   indexing and as dict keys that are never present). *)
From VQ Require Import Base Vrptw.

(* ---------- Python lists indexed by ints ---------- *)
(* position denoted by the int z in a list of length len; None = IndexError *)
Definition py_pos (len : nat) (z : Z) : option nat :=
  if (0 <=? z) && (z <? Z.of_nat len) then Some (Z.to_nat z)
  else if (z <? 0) && (- Z.of_nat len <=? z) then Some (Z.to_nat (Z.of_nat len + z))
  else None.

Fixpoint set_nth {A} (n : nat) (x : A) (l : list A) : list A :=
  match n, l with
  | _, [] => []
  | O, _ :: l' => x :: l'
  | S n', y :: l' => y :: set_nth n' x l'
  end.

(* np.flatnonzero of a list of numbers: ascending positions of the non-zero entries *)
Fixpoint flatnonzero_from (k : nat) (v : list Z) : list nat :=
  match v with
  | [] => []
  | x :: v' => if x =? 0 then flatnonzero_from (S k) v' else k :: flatnonzero_from (S k) v'
  end.
Definition flatnonzero (v : list Z) : list nat := flatnonzero_from O v.

(* ---------- state ---------- *)
Definition elem := (nat + Z)%type.          (* inl name (a Python str) | inr index (a Python int) *)
Definition ix (i : nat) : elem := inr (Z.of_nat i).

Definition elem_eqb (a b : elem) : bool :=
  match a, b with
  | inl x, inl y => Nat.eqb x y
  | inr x, inr y => x =? y
  | _, _ => false
  end.

Record pstate := mkP {
  pg : graph;                       (* self.vrptw: names, nodes, arcs *)
  pcap : Z;                         (* vehicle_cap *)
  pinit : Z;                        (* initial_loading *)
  proutes : list (list nat);        (* self.routes: lists of node indices *)
  pcosts : list Z;                  (* self.route_costs *)
  pvisited : list (list nat)        (* self.route_node_visited: flatnonzero arrays *)
}.

Definition pempty (cap init : Z) : pstate := mkP empty_graph cap init [] [] [].
Definition with_graph (st : pstate) (g : graph) : pstate :=
  mkP g (pcap st) (pinit st) (proutes st) (pcosts st) (pvisited st).

(* self.arcs[(a, b)] for Python ints a, b: keys are pairs of list positions, never negative *)
Definition arc_get (g : graph) (a b : Z) : option arc :=
  if (a <? 0) || (b <? 0) then None else dict_get (Z.to_nat a, Z.to_nat b) (arcs g).

(* the Node object an Arc refers to (a Node object is identified by its unique name) *)
Definition node_named (g : graph) (nm : nat) : node :=
  match index_of nm (names g) with
  | Some j => nth j (nodes g) dummy_node
  | None => dummy_node
  end.

(* ---------- check_arc(time, load, (a, b)) ---------- *)
Definition check_arc (st : pstate) (time load : Z) (a b : Z) : bool * Z * Z :=
  match arc_get (pg st) a b with
  | None => (false, time, load)                                   (* except KeyError *)
  | Some arc =>
      let dest := node_named (pg st) (adest arc) in
      let time1 := time + att arc in                              (* time += travel time *)
      let time2 := Z.max time1 (nlo dest) in                      (* wait for the window *)
      if negb (ext_leb (Fin time2) (nhi dest)) then (false, time2, load)   (* time > window end *)
      else
        let load1 := load + - ndemand dest in                     (* load += dest.get_load() *)
        if (pcap st <? load1) || (load1 <? 0) then (false, time2, load1)
        else (true, time2, load1)
  end.

(* ---------- check_route ---------- *)
(* isinstance(e, str) -> self.get_node_index(e)  (list.index: ValueError when absent) *)
Definition conv (g : graph) (e : elem) : result Z :=
  match e with
  | inl nm => match index_of nm (names g) with
              | Some i => Ok (Z.of_nat i)
              | None => Err ValueError
              end
  | inr z => Ok z
  end.

(* route_indices[p] = converted value, written back into the caller's list *)
Definition conv_at (g : graph) (p : nat) (r : list elem) : result (list elem) :=
  match nth_error r p with
  | None => Err IndexError
  | Some e => match conv g e with
              | Ok z => Ok (set_nth p (inr z) r)
              | Err x => Err x
              end
  end.

(* route_indices[p] != self.depot_index  (depot_index is 0; a str is never equal to an int) *)
Definition not_depot (e : option elem) : bool :=
  match e with
  | Some (inr z) => negb (z =? 0)
  | _ => true
  end.

Definition cr_out := (bool * Z * list Z)%type.     (* feasible, cost, visits_node *)

(* the for loop, entered with cur = route_indices[i] (already an int) and rest = route_indices[i+1:];
   returns the (partly converted) rest of the caller's list and the outcome *)
Fixpoint cr_loop (st : pstate) (cur : Z) (rest : list elem) (time load cost : Z) (vis : list Z)
  : list elem * result cr_out :=
  match rest with
  | [] => ([], Ok (true, cost, vis))
  | e :: rest' =>
      match py_pos (length vis) cur with
      | None => (rest, Err IndexError)                            (* visits_node[cur] *)
      | Some p =>
          if nth p vis 0 =? 1 then (rest, Ok (false, cost, vis))  (* already visited *)
          else
            let vis' := set_nth p 1 vis in
            match conv (pg st) e with
            | Err x => (rest, Err x)
            | Ok nxt =>
                match check_arc st time load cur nxt with
                | (true, time', load') =>
                    let cost' := cost + match arc_get (pg st) cur nxt with
                                        | Some a => acost a | None => 0 end in
                    let out := cr_loop st nxt rest' time' load' cost' vis' in
                    (inr nxt :: fst out, snd out)
                | (false, _, _) => (inr nxt :: rest', Ok (false, cost, vis'))
                end
            end
      end
  end.

(* result: the caller's list after the call (check_route converts names in place) and the outcome *)
Definition check_route (st : pstate) (r : list elem) : list elem * result cr_out :=
  let g := pg st in
  let zeros := repeat 0 (length (nodes g)) in
  if (length r <? 2)%nat then (r, Ok (false, 0, zeros))
  else
    match conv_at g 0 r with
    | Err x => (r, Err x)
    | Ok r1 =>
    match conv_at g 1 r1 with
    | Err x => (r1, Err x)
    | Ok r2 =>
    match conv_at g (length r - 1) r2 with
    | Err x => (r2, Err x)
    | Ok r3 =>
        if not_depot (nth_error r3 0) || not_depot (nth_error r3 (length r3 - 1))
        then (r3, Ok (false, 0, zeros))
        else
          match r3 with
          | inr z0 :: rest =>
              let out := cr_loop st z0 rest 0 (pinit st) 0 zeros in
              (inr z0 :: fst out, snd out)
          | _ => (r3, Err OtherError)                             (* unreachable *)
          end
    end end end.

(* ---------- add_route ---------- *)
(* list(route) for a route whose elements are all non-negative ints *)
Definition to_nats (r : list elem) : list nat :=
  map (fun e => match e with inr z => Z.to_nat z | inl _ => O end) r.

(* route in self.routes : list equality against every stored list of ints *)
Definition route_mem (r : list elem) (rs : list (list nat)) : bool :=
  existsb (fun s => list_eqb elem_eqb r (map ix s)) rs.

Definition add_route (st : pstate) (r : list elem)
  : pstate * list elem * result (bool * bool) :=
  let out := check_route st r in
  let r' := fst out in
  match snd out with
  | Err x => (st, r', Err x)
  | Ok (feas, cost, vis) =>
      if feas && negb (route_mem r' (proutes st))
      then (mkP (pg st) (pcap st) (pinit st)
                (proutes st ++ [to_nats r']) (pcosts st ++ [cost]) (pvisited st ++ [flatnonzero vis]),
            r', Ok (feas, true))
      else (st, r', Ok (feas, false))
  end.

(* ---------- get_math_program_data / objective / constraints / get_routes ---------- *)
Definition num_variables (st : pstate) : nat := length (pcosts st).

Fixpoint enum_from {A} (k : nat) (l : list A) : list (nat * A) :=
  match l with [] => [] | x :: l' => (k, x) :: enum_from (S k) l' end.

(* mp_constraints_matrix[node_indices, j] = 1 fails when an index is outside the zeros matrix *)
Definition mp_write_bad (n m : nat) (jv : nat * list nat) : bool :=
  match snd jv with
  | [] => false
  | vs => (m <=? fst jv)%nat || existsb (fun k => (n <=? k)%nat) vs
  end.

Definition mp_entry (st : pstate) (k j : nat) : Z :=
  match nth_error (pvisited st) j with
  | Some vs => if memb k vs then 1 else 0
  | None => 0
  end.

(* (mp_cost, dense constraint matrix without the depot row, rhs) *)
Definition math_program_data (st : pstate) : result (list Z * list (list Z) * list Z) :=
  let n := length (nodes (pg st)) in
  let m := num_variables st in
  if Nat.eqb n 0 then Err ValueError                              (* np.ones(-1) *)
  else if existsb (mp_write_bad n m) (enum_from 0 (pvisited st)) then Err IndexError
  else
    let full := map (fun k => map (fun j => mp_entry st k j) (seq 0 m)) (seq 0 n) in
    Ok (pcosts st, remove_nth 0 full, repeat 1 (n - 1)%nat).

Definition zero_matrix (m : nat) : list (list Z) := repeat (repeat 0 m) m.

(* get_objective_data: (c, Q) *)
Definition objective_data (st : pstate) : list Z * list (list Z) :=
  (pcosts st, zero_matrix (num_variables st)).

(* get_constraint_data: (A, b, Q_eq, r_eq) with the shape of A *)
Definition constraint_data (st : pstate)
  : result ((nat * nat) * list (list Z) * list Z * list (list Z) * Z) :=
  match math_program_data st with
  | Err x => Err x
  | Ok (_, A, b) =>
      Ok ((length (nodes (pg st)) - 1, num_variables st)%nat, A, b, zero_matrix (num_variables st), 0)
  end.

Definition cover (st : pstate) (k j : nat) : Z :=
  match math_program_data st with
  | Ok (_, A, _) => nth j (nth k A []) 0
  | Err _ => 0
  end.

Fixpoint traverse {A B} (f : A -> result B) (l : list A) : result (list B) :=
  match l with
  | [] => Ok []
  | x :: l' => match f x with
               | Err e => Err e
               | Ok y => match traverse f l' with Err e => Err e | Ok ys => Ok (y :: ys) end
               end
  end.

(* get_routes(solution): names of the routes selected by the non-zero entries *)
Definition get_routes (st : pstate) (x : list Z) : result (list (list nat)) :=
  traverse (fun i => match nth_error (proutes st) i with
                     | None => Err IndexError
                     | Some r => traverse (fun k => match nth_error (names (pg st)) k with
                                                    | Some nm => Ok nm
                                                    | None => Err IndexError end) r
                     end) (flatnonzero x).

(* ---------- reference: the route definition of doc/MIRPasQUBO.tex ---------- *)
Definition node_at (g : graph) (j : nat) : node := nth j (nodes g) dummy_node.
Definition tt_of (g : graph) (i j : nat) : Z :=
  match dict_get (i, j) (arcs g) with Some a => att a | None => 0 end.
Definition cost_of (g : graph) (i j : nat) : Z :=
  match dict_get (i, j) (arcs g) with Some a => acost a | None => 0 end.

(* every segment (i_k, i_{k+1}) is an arc *)
Fixpoint arcs_exist (g : graph) (i : nat) (rest : list nat) : Prop :=
  match rest with
  | [] => True
  | j :: rest' => dict_mem (i, j) (arcs g) = true /\ arcs_exist g j rest'
  end.

(* T_{k+1} = max (T_k + t_{i_k,i_{k+1}}) a_{i_{k+1}} : arrival times at the stops after i *)
Fixpoint arrivals (g : graph) (t : Z) (i : nat) (rest : list nat) : list Z :=
  match rest with
  | [] => []
  | j :: rest' => let t' := Z.max (t + tt_of g i j) (nlo (node_at g j)) in
                  t' :: arrivals g t' j rest'
  end.

(* load_{k+1} = load_k - demand(i_{k+1}) : loads after the stops *)
Fixpoint loads (g : graph) (l : Z) (rest : list nat) : list Z :=
  match rest with
  | [] => []
  | j :: rest' => let l' := l - ndemand (node_at g j) in l' :: loads g l' rest'
  end.

Definition interior (r : list nat) : list nat := removelast (tl r).

Definition valid_route (st : pstate) (r : list nat) : Prop :=
  let g := pg st in
  (2 <= length r)%nat /\
  hd_error r = Some O /\ last r 1%nat = O /\                      (* first = last = depot *)
  NoDup (interior r) /\ ~ In O (interior r) /\                    (* customers at most once *)
  arcs_exist g O (tl r) /\
  Forall2 (fun t j => ext_le (Fin t) (nhi (node_at g j))) (arrivals g 0 O (tl r)) (tl r) /\
  Forall (fun l => 0 <= l <= pcap st) (loads g (pinit st) (tl r)).

Fixpoint path_cost (g : graph) (i : nat) (rest : list nat) : Z :=
  match rest with
  | [] => 0
  | j :: rest' => cost_of g i j + path_cost g j rest'
  end.
Definition route_cost (g : graph) (r : list nat) : Z :=
  match r with [] => 0 | i :: rest => path_cost g i rest end.

(* indicator vector over n nodes of the members of s; ascending list of the members below n *)
Definition indicator (n : nat) (s : list nat) : list Z :=
  map (fun k => if memb k s then 1 else 0) (seq 0 n).
Definition nodes_on (n : nat) (s : list nat) : list nat :=
  filter (fun k => memb k s) (seq 0 n).

(* names -> indices; None when a name is unknown or an int is negative *)
Fixpoint resolve (g : graph) (r : list elem) : option (list nat) :=
  match r with
  | [] => Some []
  | e :: r' =>
      match (match e with
             | inl nm => index_of nm (names g)
             | inr z => if 0 <=? z then Some (Z.to_nat z) else None
             end), resolve g r' with
      | Some i, Some l => Some (i :: l)
      | _, _ => None
      end
  end.

(* ---------- histories ---------- *)
Inductive pop :=
| PAddNode (nm : nat) (dem lo : Z) (hi : ext)
| PAddArc (o d : nat) (tm cost : Z)
| PAddRoute (r : list elem)
| PCheckRoute (r : list elem)
| PQuery (x : list Z).              (* read everything; get_routes(x) *)

Definition qobs :=
  (list (list nat) * list Z * list (list nat) *                    (* routes, costs, visited *)
   result (list Z * list (list Z) * list Z) *                      (* get_math_program_data *)
   (list Z * list (list Z)) *                                      (* get_objective_data *)
   result ((nat * nat) * list (list Z) * list Z * list (list Z) * Z) * (* get_constraint_data *)
   nat *                                                           (* get_num_variables *)
   result (list (list nat)))%type.                                 (* get_routes x *)

Inductive pobs :=
| ONode (r : result unit)
| OArc (r : result bool)
| ORoute (after : list elem) (r : result (bool * bool))
| OCheck (after : list elem) (r : result cr_out)
| OQuery (q : qobs).

Definition query (st : pstate) (x : list Z) : qobs :=
  (proutes st, pcosts st, pvisited st, math_program_data st, objective_data st,
   constraint_data st, num_variables st, get_routes st x).

Definition pstep (st : pstate) (o : pop) : pstate * pobs :=
  match o with
  | PAddNode nm dem lo hi =>
      match add_node (pg st) nm dem lo hi with
      | Ok g' => (with_graph st g', ONode (Ok tt))
      | Err e => (st, ONode (Err e))
      end
  | PAddArc o d tm cost =>
      match add_arc (pg st) o d tm cost with
      | Ok (g', b) => (with_graph st g', OArc (Ok b))
      | Err e => (st, OArc (Err e))
      end
  | PAddRoute r =>
      match add_route st r with
      | (st', r', res) => (st', ORoute r' res)
      end
  | PCheckRoute r => (st, OCheck (fst (check_route st r)) (snd (check_route st r)))
  | PQuery x => (st, OQuery (query st x))
  end.

Definition prun (ops : list pop) (st : pstate) : pstate :=
  fold_left (fun s o => fst (pstep s o)) ops st.

(* the state before the history and after each call *)
Fixpoint pstates (ops : list pop) (st : pstate) : list pstate :=
  st :: match ops with
        | [] => []
        | o :: ops' => pstates ops' (fst (pstep st o))
        end.

Fixpoint ptrace (ops : list pop) (st : pstate) : list pobs :=
  match ops with
  | [] => []
  | o :: ops' => let r := pstep st o in snd r :: ptrace ops' (fst r)
  end.

(* ---------- comparison with the implementation ---------- *)
Definition unit_eqb (_ _ : unit) : bool := true.
Definition zl_eqb := list_eqb Z.eqb.
Definition zm_eqb := list_eqb zl_eqb.
Definition nl_eqb := list_eqb Nat.eqb.
Definition nm_eqb := list_eqb nl_eqb.
Definition el_eqb := list_eqb elem_eqb.
Definition bb_eqb (a b : bool * bool) : bool := Bool.eqb (fst a) (fst b) && Bool.eqb (snd a) (snd b).
Definition cr_eqb (a b : cr_out) : bool :=
  match a, b with (f1, c1, v1), (f2, c2, v2) => Bool.eqb f1 f2 && (c1 =? c2) && zl_eqb v1 v2 end.
Definition mp_eqb (a b : list Z * list (list Z) * list Z) : bool :=
  match a, b with (c1, A1, b1), (c2, A2, b2) => zl_eqb c1 c2 && zm_eqb A1 A2 && zl_eqb b1 b2 end.
Definition cd_eqb (a b : (nat * nat) * list (list Z) * list Z * list (list Z) * Z) : bool :=
  match a, b with
  | (s1, A1, b1, Q1, r1), (s2, A2, b2, Q2, r2) =>
      natpair_eqb s1 s2 && zm_eqb A1 A2 && zl_eqb b1 b2 && zm_eqb Q1 Q2 && (r1 =? r2)
  end.

Definition qobs_tags (m i : qobs) : list nat :=
  match m, i with
  | (r1, c1, v1, mp1, (oc1, oq1), cd1, n1, gr1), (r2, c2, v2, mp2, (oc2, oq2), cd2, n2, gr2) =>
      chk 7 (nm_eqb r1 r2) ++ chk 8 (zl_eqb c1 c2) ++ chk 9 (nm_eqb v1 v2) ++
      chk 10 (result_eqb mp_eqb mp1 mp2) ++
      chk 11 (zl_eqb oc1 oc2 && zm_eqb oq1 oq2 && result_eqb cd_eqb cd1 cd2 && Nat.eqb n1 n2) ++
      chk 12 (result_eqb nm_eqb gr1 gr2)
  end.

(* tags: 1 add_node, 2 add_arc, 3 add_route result, 4 list after add_route, 5 check_route result,
   6 list after check_route, 7 routes, 8 costs, 9 visited, 10 math program data,
   11 objective / constraint data / num variables, 12 get_routes, 13 kind or length mismatch *)
Definition pobs_tags (m i : pobs) : list nat :=
  match m, i with
  | ONode a, ONode b => chk 1 (result_eqb unit_eqb a b)
  | OArc a, OArc b => chk 2 (result_eqb Bool.eqb a b)
  | ORoute l1 a, ORoute l2 b => chk 3 (result_eqb bb_eqb a b) ++ chk 4 (el_eqb l1 l2)
  | OCheck l1 a, OCheck l2 b => chk 5 (result_eqb cr_eqb a b) ++ chk 6 (el_eqb l1 l2)
  | OQuery a, OQuery b => qobs_tags a b
  | _, _ => [13%nat]
  end.

Fixpoint pzip_tags (ms is_ : list pobs) : list nat :=
  match ms, is_ with
  | [], [] => []
  | m :: ms', i :: is' => match pobs_tags m i with [] => pzip_tags ms' is' | t => t end
  | _, _ => [13%nat]
  end.

(* one correspondence case: capacity, initial loading, history, the implementation's
   observation of each call *)
Definition pcase := (Z * Z * list pop * list pobs)%type.
Definition check_pcase (c : pcase) : list nat :=
  match c with
  | (cap, init, ops, impl) => pzip_tags (ptrace ops (pempty cap init)) impl
  end.

(* model-side branch tag of one check_route call, for the coverage statistics:
   0 too short, 1 exception, 2 endpoints, 3 rejected in the loop, 4 feasible *)
Definition cr_branch (st : pstate) (r : list elem) : nat :=
  if (length r <? 2)%nat then 0%nat
  else match snd (check_route st r) with
       | Err _ => 1%nat
       | Ok (true, _, _) => 4%nat
       | Ok (false, _, v) => if zl_eqb v (repeat 0 (length v)) then 2%nat else 3%nat
       end.
