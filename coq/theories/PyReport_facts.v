(* PyReport_facts.v -- facts about the combinators of PyReport.v used by genprops/C20_gen.v. *)
From Coq Require Import ZArith List Bool String PeanoNat Lia.
From VQ Require Import Base LinAlg Report Report_facts PyReport.
Import ListNotations.
Open Scope Z_scope.

(* ---------- format(v, '0nb') against the hand model's digit function ---------- *)
Lemma bits_pad k v : (Nat.log2 v < k)%nat ->
  forall d, bits (d + k) v = repeat false d ++ bits k v.
Proof.
  intros Hk. induction d as [|d IH].
  - reflexivity.
  - cbn [Nat.add bits repeat app]. rewrite IH. f_equal.
    apply Nat.bits_above_log2. lia.
Qed.

(* on the values the loop visits (1 <= v < 2^w) the padded, never truncated Python digit string is
   the w-digit string of the hand model *)
Lemma format_0b_bits w v : (0 < v < 2 ^ w)%nat -> format_0b w v = bits w v.
Proof.
  intros [Hpos Hlt]. unfold format_0b, bin_digits. rewrite bits_length.
  assert (Hl : (Nat.log2 v < w)%nat) by (apply Nat.log2_lt_pow2; assumption).
  transitivity (bits ((w - S (Nat.log2 v)) + S (Nat.log2 v)) v).
  - symmetry. apply bits_pad. lia.
  - f_equal. lia.
Qed.

Lemma map_int_of_digit l : map (fun s => int_of_digit s) l = l.
Proof. unfold int_of_digit. apply map_id. Qed.

Lemma digits_bits n v : (0 < v < 2 ^ n)%nat -> map (fun s => int_of_digit s) (format_0b n v) = bits n v.
Proof. intros H. rewrite map_int_of_digit. apply format_0b_bits. assumption. Qed.

(* ---------- range(1, 2^n) ---------- *)
Lemma range_fold_seq {S} a b (body : S -> nat -> S) st :
  range_fold a b body st = fold_left body (seq a (b - a)) st.
Proof. reflexivity. Qed.

(* a loop whose body is, on every visited index, the image of a step of another loop *)
Lemma fold_left_embed {S T A} (emb : S -> T) (g : T -> nat -> T) (h : S -> A -> S) (F : nat -> A) :
  forall (l : list nat) (st : S),
    (forall s v, In v l -> g (emb s) v = emb (h s (F v))) ->
    fold_left g l (emb st) = emb (fold_left h (map F l) st).
Proof.
  induction l as [|v l IH]; intros st H.
  - reflexivity.
  - cbn [fold_left map]. rewrite H by (left; reflexivity). apply IH.
    intros s w Hw. apply H. right. assumption.
Qed.

(* ---------- arithmetic of the density denominator ---------- *)
Lemma density_den n : Z.of_nat ((n + 1) * n) = (Z.of_nat n + 1) * Z.of_nat n.
Proof. lia. Qed.

(* ---------- the first entry of enum ---------- *)
Lemma brute_unfold n f : brute n f = ref_stats (f (repeat false n)) (map f (loop_assignments n)).
Proof. unfold brute. rewrite <- loop_enum. reflexivity. Qed.
