(* Cache.v -- the lazily built caches of the formulation objects as an abstract state machine  [C14]

   Definitions only.  The model abstracts the CONTENT of the caches by the version of the problem data
   it was computed from; which primitive actions the real methods perform, in which order, is modelled
   literally (see `qtrace`).

   Real object                                   model
   -----------                                   -----
   problem data (vrptw.nodes / node_names /      `version : nat`; every write to the data is a `Mutate`
     arcs, time_points, max_vehicles,              and increments it
     vehicle_cost, max_sequence_length, strict)
   arc:  var_mapping, num_variables              cache Vars   flag variables_enumerated
         constraints_matrix/_rhs/_names          cache Con    flag constraints_built
         objective                               cache Obj    flag objective_built
   seq:  var_mapping, var_mapping_inverse,       cache Vars   flag variables_enumerated
         fixed_values, num_variables
         linear_constraints_matrix/_rhs,         cache Con    flag lin_con_built
           lin_con_names
         objective_c, objective_q                cache Obj    flag objective_built
         quadratic_constraints_matrix            cache Quad   flag quad_con_built
   path: no cache at all (every query recomputes from routes / route_costs / route_node_visited)

   Con, Obj and Quad are computed from the data AND from the content of Vars (they index columns by
   var_mapping), hence a dependent cache remembers two versions: the data version it was computed from
   (`dver`) and the data version of the Vars content it used (`vver`).  For Vars both coincide.

   That a build really recomputes from scratch (content = function of the current data only) is NOT
   expressible here: `Build` does so by definition.  It is what the harness checks after every build
   on the real objects (an append-instead-of-rebuild list, the defect repaired by 2f9adad, or a lookup
   table that survives re-enumeration are caught there and by the history oracle). *)
From VQ Require Import Base.
Local Open Scope nat_scope.

(* ---------- caches ---------- *)
Inductive cid := Vars | Con | Obj | Quad.

Definition cid_eqb (a b : cid) : bool :=
  match a, b with
  | Vars, Vars | Con, Con | Obj, Obj | Quad, Quad => true
  | _, _ => false
  end.

Definition all_cids : list cid := [Vars; Con; Obj; Quad].

Definition upd {A} (f : cid -> A) (i : cid) (v : A) : cid -> A :=
  fun j => if cid_eqb j i then v else f j.

(* ---------- primitive actions ---------- *)
Inductive action :=
| Mutate                          (* any write to the problem data *)
| SetFlag (i : cid) (b : bool)    (* self.<flag i> = b *)
| Build (i : cid)                 (* enumerate_variables / build_*: nothing when flag i is set, else build
                                     the dependency, recompute i from scratch, set flag i *)
| BuildAbort (i : cid)            (* a build whose body raised: dependencies built, i left unbuilt *)
| Read (i : cid).                 (* content of cache i is used by a query or by the heuristic *)

Record state := mkSt {
  version : nat;
  flag : cid -> bool;
  dver : cid -> option nat;       (* data version cache i was computed from; None = never computed *)
  vver : cid -> option nat        (* data version of the Vars content cache i was computed from *)
}.

(* a freshly constructed formulation object *)
Definition init : state := mkSt 0 (fun _ => false) (fun _ => None) (fun _ => None).

Definition set_flag (st : state) (i : cid) (b : bool) : state :=
  mkSt (version st) (upd (flag st) i b) (dver st) (vver st).

Definition recompute (st : state) (i : cid) : state :=
  mkSt (version st) (flag st)
       (upd (dver st) i (Some (version st)))
       (upd (vver st) i (match i with Vars => Some (version st) | _ => dver st Vars end)).

Definition clobber (st : state) (i : cid) : state :=
  mkSt (version st) (flag st) (upd (dver st) i None) (upd (vver st) i None).

(* every builder of a dependent cache starts with self.enumerate_variables() *)
Definition build_deps (st : state) (i : cid) : state :=
  match i with
  | Vars => st
  | _ => if flag st Vars then st else set_flag (recompute st Vars) Vars true
  end.

Definition build (st : state) (i : cid) : state :=
  if flag st i then st else set_flag (recompute (build_deps st i) i) i true.

Definition build_abort (st : state) (i : cid) : state :=
  if flag st i then st else clobber (build_deps st i) i.

Definition step (st : state) (a : action) : state :=
  match a with
  | Mutate => mkSt (S (version st)) (flag st) (dver st) (vver st)
  | SetFlag i b => set_flag st i b
  | Build i => build st i
  | BuildAbort i => build_abort st i
  | Read _ => st
  end.

Definition run (st : state) (tr : list action) : state := fold_left step tr st.

(* ---------- freshness, invariant ---------- *)
Definition fresh (st : state) (i : cid) : Prop :=
  dver st i = Some (version st) /\ vver st i = Some (version st).

Definition freshb (st : state) (i : cid) : bool :=
  option_eqb Nat.eqb (dver st i) (Some (version st)) && option_eqb Nat.eqb (vver st i) (Some (version st)).

Definition Inv (st : state) : Prop := forall i, flag st i = true -> fresh st i.

(* what a Read returns: the versions the content was computed from *)
Definition rdval := (cid * (option nat * option nat))%type.

Fixpoint reads (tr : list action) (st : state) : list rdval :=
  match tr with
  | [] => []
  | a :: tr' =>
      match a with
      | Read i => [(i, (dver st i, vver st i))]
      | _ => []
      end ++ reads tr' (step st a)
  end.

(* replay a trace and check that every Read returns fresh content *)
Fixpoint disciplined (tr : list action) (st : state) : bool :=
  match tr with
  | [] => true
  | a :: tr' =>
      match a with
      | Read i => freshb st i
      | _ => true
      end && disciplined tr' (step st a)
  end.

Definition count_mut (tr : list action) : nat :=
  length (filter (fun a => match a with Mutate => true | _ => false end) tr).

Definition read_ids (tr : list action) : list cid :=
  flat_map (fun a => match a with Read i => [i] | _ => [] end) tr.

(* ---------- the flag-level discipline (no versions) ----------
   wflag = the flags, wdirty i = "flag i is set although the data changed since cache i was built".
     Mutate           : every cache whose flag is set becomes dirty
     SetFlag i false  : clears flag and dirt of i
     SetFlag i true   : never issued directly (only a Build sets a flag)
     Build i          : neither i nor Vars may be dirty
     Read i           : flag i set and i not dirty
   The literal rule "after a Mutate no Build i / Read i before SetFlag i false" is the special case in
   which the flags were set at the Mutate; the real heuristics reset the flags BEFORE they change the
   data (nothing is dirty then), which the literal rule would reject. *)
Record wstate := mkW { wflag : cid -> bool; wdirty : cid -> bool }.

Definition ws_of (st : state) : wstate := mkW (flag st) (fun _ => false).

Definition wstep (ws : wstate) (a : action) : option wstate :=
  match a with
  | Mutate => Some (mkW (wflag ws) (fun i => wdirty ws i || wflag ws i))
  | SetFlag i false => Some (mkW (upd (wflag ws) i false) (upd (wdirty ws) i false))
  | SetFlag i true => None
  | Build i =>
      if negb (wdirty ws i) && negb (wdirty ws Vars)
      then Some (if wflag ws i then ws else mkW (upd (upd (wflag ws) Vars true) i true) (wdirty ws))
      else None
  | BuildAbort i =>
      match i with
      | Vars => None
      | _ => if negb (wdirty ws i) && negb (wdirty ws Vars)
             then Some (if wflag ws i then ws else mkW (upd (wflag ws) Vars true) (wdirty ws))
             else None
      end
  | Read i => if wflag ws i && negb (wdirty ws i) then Some ws else None
  end.

Fixpoint wf_run (ws : wstate) (tr : list action) : option wstate :=
  match tr with
  | [] => Some ws
  | a :: tr' => match wstep ws a with Some ws' => wf_run ws' tr' | None => None end
  end.

Definition wf_trace (ws : wstate) (tr : list action) : bool :=
  match wf_run ws tr with Some _ => true | None => false end.

Definition clean (ws : wstate) : Prop := forall i, wdirty ws i = false.
Definition cleanb (ws : wstate) : bool := forallb (fun i => negb (wdirty ws i)) all_cids.

(* flags and dirt of the model state agree with the abstract ones; a set, clean flag means fresh *)
Definition GInv (ws : wstate) (st : state) : Prop :=
  (forall i, flag st i = wflag ws i) /\
  (forall i, wflag ws i = true -> wdirty ws i = false -> fresh st i).

(* index of the first action the discipline rejects *)
Fixpoint first_fail (ws : wstate) (tr : list action) (k : nat) : option nat :=
  match tr with
  | [] => None
  | a :: tr' => match wstep ws a with Some ws' => first_fail ws' tr' (S k) | None => Some k end
  end.

(* ---------- histories: a list of user-level calls, each with its primitive trace ---------- *)
Fixpoint hist_ok (ws : wstate) (h : list (list action)) : option wstate :=
  match h with
  | [] => Some ws
  | tr :: h' =>
      match wf_run ws tr with
      | Some ws' => if cleanb ws' then hist_ok ws' h' else None
      | None => None
      end
  end.

Fixpoint hist_states (st : state) (h : list (list action)) : list state :=
  match h with
  | [] => []
  | tr :: h' => run st tr :: hist_states (run st tr) h'
  end.

(* ---------- the user-level query operations as primitive traces ----------
   (code of /repo after 4965782: the index lookups enumerate first)
   arc  get_num_variables    if not variables_enumerated: enumerate_variables(); return num_variables
        get_var_index        enumerate_variables(); var_mapping.index(t)
        get_var_tuple_index  enumerate_variables(); var_mapping[k]
        get_objective_data   build_objective(); n = get_num_variables(); return objective, zeros(n,n)
        get_constraint_data  build_constraints(); A, b read; n = get_num_variables()
        get_qubo(feas)       get_sufficient_penalty (data only); get_constraint_data;
                             unless feas: get_objective_data
        get_routes(x)        get_var_tuple_index(k) for each of the n nonzero k of x
   seq  get_num_variables    as arc
        get_var_index        enumerate_variables(); var_mapping_inverse[v,s,n]
        get_var_tuple_index  enumerate_variables(); var_mapping[k]
        get_objective_data   build_objective(); return objective_c, objective_q
        get_constraint_data  build_linear_constraints(); build_quadratic_constraints(); both read
        get_qubo             as arc
        get_routes(x)        enumerate_variables(); nothing more when x = 0, else
                             get_var_tuple_index(k) for the n nonzero k, then fixed_values (part of Vars)
        QAborted             get_constraint_data / get_qubo when build_quadratic_constraints raises
                             its AssertionError: linear constraints built, quadratic build aborted
   path every query is a function of the data: the empty trace
   Before 4965782 the lookups were the bare trace [Read Vars] (`lookup_old`), which is not disciplined
   on a fresh object: see C14_lookup_without_enumeration_refuted. *)
Inductive kind := KArc | KSeq | KPath.

Inductive qop :=
| QNum | QIndex | QTuple | QObjective | QConstraints
| QQubo (feas : bool) | QRoutes (n : nat) | QAborted.

Definition lookup := [Build Vars; Read Vars].
Definition lookup_old := [Read Vars].
Definition arc_con := [Build Con; Read Con; Build Vars; Read Vars].
Definition arc_obj := [Build Obj; Build Vars; Read Vars; Read Obj].
Definition seq_con := [Build Con; Build Quad; Read Con; Read Quad].
Definition seq_obj := [Build Obj; Read Obj].

Definition qtrace (k : kind) (q : qop) : list action :=
  match k with
  | KPath => []
  | KArc =>
      match q with
      | QNum | QIndex | QTuple => lookup
      | QObjective => arc_obj
      | QConstraints => arc_con
      | QQubo feas => arc_con ++ (if feas then [] else arc_obj)
      | QRoutes n => concat (repeat lookup n)
      | QAborted => []
      end
  | KSeq =>
      match q with
      | QNum | QIndex | QTuple => lookup
      | QObjective => seq_obj
      | QConstraints => seq_con
      | QQubo feas => seq_con ++ (if feas then [] else seq_obj)
      | QRoutes n => Build Vars :: match n with O => [] | _ => concat (repeat lookup n) ++ [Read Vars] end
      | QAborted => [Build Con; BuildAbort Quad]
      end
  end.

(* ---------- contents (refinement to a cache-free object) ----------
   dat v = the problem data at version v, F i d dv = content of cache i computed from data d and the
   variable enumeration of data dv.  The cache-free object answers F i d d for the current d. *)
Section Contents.
  Variables (D C : Type) (dat : nat -> D) (F : cid -> D -> D -> C).

  Definition content_of (st : state) (i : cid) : option C :=
    match dver st i, vver st i with
    | Some a, Some b => Some (F i (dat a) (dat b))
    | _, _ => None
    end.

  Definition spec_of (st : state) (i : cid) : C :=
    F i (dat (version st)) (dat (version st)).

  (* for every Read of a trace: the content the cached object hands out, the cache-free answer *)
  Fixpoint read_contents (tr : list action) (st : state) : list (option C * C) :=
    match tr with
    | [] => []
    | a :: tr' =>
        match a with
        | Read i => [(content_of st i, spec_of st i)]
        | _ => []
        end ++ read_contents tr' (step st a)
    end.
End Contents.

(* ---------- histories of user-level calls ---------- *)
(* a query, or a run of the feasibility heuristic with whatever primitive trace it performed *)
Inductive call := CQuery (q : qop) | CHeur (tr : list action).

Definition ctrace (k : kind) (c : call) : list action :=
  match c with CQuery q => qtrace k q | CHeur tr => tr end.

(* the arc-based class has no fourth cache (its Quad flag is never set), the path-based class has none *)
Definition kind_okb (k : kind) (f : cid -> bool) : bool :=
  match k with
  | KArc => negb (f Quad)
  | KSeq => true
  | KPath => negb (f Vars) && negb (f Con) && negb (f Obj) && negb (f Quad)
  end.

(* a heuristic run keeps the discipline on its own: whatever is built when it starts, its trace passes
   the flag discipline and leaves nothing dirty *)
Definition heur_ok (k : kind) (tr : list action) : Prop :=
  forall ws, clean ws -> kind_okb k (wflag ws) = true ->
  exists ws', wf_run ws tr = Some ws' /\ clean ws' /\ kind_okb k (wflag ws') = true.

Definition flag_table (v c o q : bool) : cid -> bool :=
  fun i => match i with Vars => v | Con => c | Obj => o | Quad => q end.

Definition all_flag_tables : list (cid -> bool) :=
  flat_map (fun v => flat_map (fun c => flat_map (fun o => map (fun q => flag_table v c o q)
    [false; true]) [false; true]) [false; true]) [false; true].

Definition heur_okb (k : kind) (tr : list action) : bool :=
  forallb (fun f => match wf_run (mkW f (fun _ => false)) tr with
                    | Some w => cleanb w && kind_okb k (wflag w)
                    | None => false
                    end) (filter (kind_okb k) all_flag_tables).

(* ---------- correspondence cases (recorded from instrumented real objects) ---------- *)
(* label of a user-level call: a query (and whether it raised) or a run of the heuristic *)
Inductive hop := HQuery (q : qop) (raised : bool) | HHeur.

Definition flags_of (st : state) : list bool := map (flag st) all_cids.

(* one user-level call: its label and the primitive actions it performed, each with the four real flags
   (variables, constraints / linear, objective, quadratic) observed after the action *)
Definition orec := (hop * list (action * list bool))%type.

(* kind and the calls in order, recorded on an object on which nothing was built yet *)
Definition tcase := (kind * list orec)%type.

Definition action_eqb (a b : action) : bool :=
  match a, b with
  | Mutate, Mutate => true
  | SetFlag i x, SetFlag j y => cid_eqb i j && Bool.eqb x y
  | Build i, Build j | BuildAbort i, BuildAbort j | Read i, Read j => cid_eqb i j
  | _, _ => false
  end.

(* normal form of a trace: a build issued while the flag is set does nothing and is dropped (the real
   get_num_variables does not even call the builder then), consecutive reads of one cache are one read *)
Fixpoint drop_noop (st : state) (tr : list action) : list action :=
  match tr with
  | [] => []
  | a :: tr' =>
      (if match a with Build i | BuildAbort i => flag st i | _ => false end then [] else [a])
      ++ drop_noop (step st a) tr'
  end.

Fixpoint collapse (tr : list action) : list action :=
  match tr with
  | [] => []
  | a :: tr' =>
      match a, tr' with
      | Read i, Read j :: _ => if cid_eqb i j then collapse tr' else a :: collapse tr'
      | _, _ => a :: collapse tr'
      end
  end.

Definition norm (st : state) (tr : list action) : list action := collapse (drop_noop st tr).

Fixpoint prefixb (l m : list action) : bool :=
  match l, m with
  | [], _ => true
  | x :: l', y :: m' => action_eqb x y && prefixb l' m'
  | _ :: _, [] => false
  end.

Fixpoint flags_match (st : state) (l : list (action * list bool)) : bool :=
  match l with
  | [] => true
  | (a, fl) :: l' => list_eqb Bool.eqb (flags_of (step st a)) fl && flags_match (step st a) l'
  end.

(* the recorded actions of every query are the model's trace of that query (a prefix if it raised) *)
Fixpoint shapes_ok (k : kind) (st : state) (h : list orec) : bool :=
  match h with
  | [] => true
  | r :: h' =>
      let tr := map fst (snd r) in
      match fst r with
      | HQuery q raised =>
          if raised then prefixb (norm st tr) (norm st (qtrace k q))
          else list_eqb action_eqb (norm st tr) (norm st (qtrace k q))
      | HHeur => true
      end && shapes_ok k (run st tr) h'
  end.

Definition check_tcase (c : tcase) : list nat :=
  match c with
  | (k, h) =>
      let trs := map (fun r : orec => map fst (snd r)) h in
      let all := concat trs in
      chk 1 (shapes_ok k init h) ++
      chk 2 (flags_match init (concat (map (fun r : orec => snd r) h))) ++
      chk 3 (wf_trace (ws_of init) all) ++
      chk 4 (disciplined all init) ++
      chk 5 (match hist_ok (ws_of init) trs with Some _ => true | None => false end) ++
      chk 6 (forallb (fun r : orec => match fst r with
                                      | HHeur => heur_okb k (map fst (snd r))
                                      | _ => true
                                      end) h)
  end.
