(* PySeq.v -- the object state and the class-specific combinators of the model GENERATED from
   routing_problem/formulations/sequence_based_rp.py (coq/gen/SeqGen.v, written on every run by
   harness/translate_seqenum.py).  Definitions only.  Generic loop / list / exception combinators:
   PyEnumCore.v.  Lemmas: PySeq_facts.v.  Theorems about the generated definitions:
   coq/genprops/C18_seq_gen.v.   [C18 sequence half, C07]

   A SequenceBasedRoutingProblem object is the record `qstate`: the graph (self.nodes, self.arcs,
   read only in the translated methods) and the attributes the translated methods read or assign.

   * self.fixed_values is a Python dict keyed by tuples (vi, si, ni): an association list in insertion
     order; `d[k] = v` overwrites in place or appends (py_tdict_set), as a Python dict does;
   * self.var_mapping_inverse is a 3-d integer ndarray: its shape, the value it was filled with, and
     the item assignments made since (an association list, last assignment wins);
     `-np.ones(shape, dtype=int)` is np_neg3 (np_ones3 shape); `a[v,s,n] = z` is py_nd3_set (inside the
     shape; the translated loops only produce positions inside the shape they created the array with);
     reading `a[v,s,n]` outside the shape is IndexError (indices are naturals: Python's negative
     wrap-around is outside the quantifier of C18). *)
From VQ Require Export Base Vrptw Seq PyEnumCore.

(* ---------- dict keyed by tuples ---------- *)
Definition tdict (V : Type) := list (tuple * V).
Fixpoint py_tdict_set {V} (d : tdict V) (k : tuple) (v : V) : tdict V :=
  match d with
  | [] => [(k, v)]
  | (k', v') :: d' => if tuple_eqb k k' then (k', v) :: d' else (k', v') :: py_tdict_set d' k v
  end.

(* ---------- 3-d integer array ---------- *)
Record nd3 := mkNd3 { nd_shape : nat * nat * nat; nd_fill : Z; nd_items : tdict Z }.
Definition nd3_inside (a : nd3) (k : tuple) : bool :=
  match nd_shape a, k with
  | (d0, d1, d2), (i0, i1, i2) => Nat.ltb i0 d0 && Nat.ltb i1 d1 && Nat.ltb i2 d2
  end.
Definition np_ones3 (shape : nat * nat * nat) : nd3 := mkNd3 shape 1 [].
Definition np_neg3 (a : nd3) : nd3 :=
  mkNd3 (nd_shape a) (- nd_fill a) (map (fun kv => (fst kv, - snd kv)) (nd_items a)).
Definition py_nd3_set (a : nd3) (k : tuple) (z : Z) : nd3 :=
  if nd3_inside a k then mkNd3 (nd_shape a) (nd_fill a) (py_tdict_set (nd_items a) k z) else a.
Definition py_nd3_get (a : nd3) (k : tuple) : result Z :=
  if nd3_inside a k
  then Ok (match assoc_t k (nd_items a) with Some z => z | None => nd_fill a end)
  else Err IndexError.

(* ---------- the object ---------- *)
Record qstate := mkQS {
  q_graph : graph;                       (* self.vrptw: node_names, nodes, arcs *)
  q_max_sequence_length : nat;           (* self.max_sequence_length *)
  q_max_vehicles : nat;                  (* self.max_vehicles *)
  q_vehicle_cost : list Z;               (* self.vehicle_cost *)
  q_num_variables : nat;                 (* self.num_variables *)
  q_variables_enumerated : bool;         (* self.variables_enumerated *)
  q_var_mapping : list tuple;            (* self.var_mapping *)
  q_var_mapping_inverse : nd3;           (* self.var_mapping_inverse *)
  q_fixed_values : tdict Z               (* self.fixed_values *)
}.

Definition qset_max_sequence_length (v : nat) (s : qstate) : qstate :=
  mkQS (q_graph s) v (q_max_vehicles s) (q_vehicle_cost s) (q_num_variables s) (q_variables_enumerated s)
       (q_var_mapping s) (q_var_mapping_inverse s) (q_fixed_values s).
Definition qset_max_vehicles (v : nat) (s : qstate) : qstate :=
  mkQS (q_graph s) (q_max_sequence_length s) v (q_vehicle_cost s) (q_num_variables s) (q_variables_enumerated s)
       (q_var_mapping s) (q_var_mapping_inverse s) (q_fixed_values s).
Definition qset_vehicle_cost (v : list Z) (s : qstate) : qstate :=
  mkQS (q_graph s) (q_max_sequence_length s) (q_max_vehicles s) v (q_num_variables s) (q_variables_enumerated s)
       (q_var_mapping s) (q_var_mapping_inverse s) (q_fixed_values s).
Definition qset_num_variables (v : nat) (s : qstate) : qstate :=
  mkQS (q_graph s) (q_max_sequence_length s) (q_max_vehicles s) (q_vehicle_cost s) v (q_variables_enumerated s)
       (q_var_mapping s) (q_var_mapping_inverse s) (q_fixed_values s).
Definition qset_variables_enumerated (v : bool) (s : qstate) : qstate :=
  mkQS (q_graph s) (q_max_sequence_length s) (q_max_vehicles s) (q_vehicle_cost s) (q_num_variables s) v
       (q_var_mapping s) (q_var_mapping_inverse s) (q_fixed_values s).
Definition qset_var_mapping (v : list tuple) (s : qstate) : qstate :=
  mkQS (q_graph s) (q_max_sequence_length s) (q_max_vehicles s) (q_vehicle_cost s) (q_num_variables s)
       (q_variables_enumerated s) v (q_var_mapping_inverse s) (q_fixed_values s).
Definition qset_var_mapping_inverse (v : nd3) (s : qstate) : qstate :=
  mkQS (q_graph s) (q_max_sequence_length s) (q_max_vehicles s) (q_vehicle_cost s) (q_num_variables s)
       (q_variables_enumerated s) (q_var_mapping s) v (q_fixed_values s).
Definition qset_fixed_values (v : tdict Z) (s : qstate) : qstate :=
  mkQS (q_graph s) (q_max_sequence_length s) (q_max_vehicles s) (q_vehicle_cost s) (q_num_variables s)
       (q_variables_enumerated s) (q_var_mapping s) (q_var_mapping_inverse s) v.

Definition py_nodes (s : qstate) : list node := nodes (q_graph s).
Definition py_arcs (s : qstate) : dict arc := arcs (q_graph s).

(* ---------- vocabulary of the theorems in genprops/C18_seq_gen.v ---------- *)
(* the problem the object holds (what the builders read) *)
Definition seq_inst (self : qstate) : inst :=
  mkInst (q_graph self) (q_max_vehicles self) (q_max_sequence_length self) (q_vehicle_cost self).

(* var_mapping_inverse after the enumeration of I: filled with -1, position of every variable *)
Definition idx_items (vm : list tuple) : tdict Z := combine vm (map Z.of_nat (seq 0 (length vm))).
Definition inverse_of (I : inst) : nd3 := mkNd3 (iV I, iL I, iN I) (-1) (idx_items (vars I)).

(* the state after a successful enumeration *)
Definition seq_enumerated (self : qstate) (I : inst) : qstate :=
  qset_variables_enumerated true
    (qset_num_variables (num_variables I)
       (qset_var_mapping (vars I)
          (qset_fixed_values (fixed_items I)
             (qset_var_mapping_inverse (inverse_of I) self)))).

(* the cache discipline: when the flag is set, the maps are those of the problem *)
Definition seq_coherent (self : qstate) : Prop :=
  q_variables_enumerated self = true ->
  let I := seq_inst self in
  q_var_mapping self = vars I /\ q_num_variables self = num_variables I /\
  q_fixed_values self = fixed_items I /\ q_var_mapping_inverse self = inverse_of I.

(* ---------- the enumeration loops, literally (what the generated loop bodies are proved to do) ----------
   loop state of the hand side: (var_mapping, fixed_values, var_mapping_inverse, num_vars) *)
Definition sest := (list tuple * tdict Z * nd3 * nat)%type.

Definition seq_lift (self0 : qstate) (e : sest) : qstate * nat :=
  match e with
  | (vm, fx, inv, k) =>
      (qset_var_mapping vm (qset_fixed_values fx (qset_var_mapping_inverse inv self0)), k)
  end.

(* self.fixed_values[(vi,si,ni)] = z *)
Definition fix_step (z : Z) (s n v : nat) (e : sest) : sest :=
  match e with (vm, fx, inv, k) => (vm, py_tdict_set fx (v, s, n) z, inv, k) end.
(* self.var_mapping.append((vi,si,ni)); self.var_mapping_inverse[vi,si,ni] = num_vars; num_vars += 1 *)
Definition free_step (s n v : nat) (e : sest) : sest :=
  match e with
  | (vm, fx, inv, k) => (vm ++ [(v, s, n)], fx, py_nd3_set inv (v, s, n) (Z.of_nat k), S k)
  end.
(* one (si, ni): the first applicable rule fixes the tuples of all vehicles, otherwise they are free *)
Definition cell_step (I : inst) (e : sest) (sn : nat * nat) : sest :=
  match rule I (fst sn) (snd sn) with
  | Some z => fold_left (fun e v => fix_step z (fst sn) (snd sn) v e) (seq 0 (iV I)) e
  | None => fold_left (fun e v => free_step (fst sn) (snd sn) v e) (seq 0 (iV I)) e
  end.
Definition enum_literal (I : inst) : sest :=
  fold_left (fun e s => fold_left (fun e n => cell_step I e (s, n)) (seq 0 (iN I)) e) (seq 0 (iL I))
            ([], [], np_neg3 (np_ones3 (iV I, iL I, iN I)), O).

(* what one cell contributes to var_mapping / fixed_values (Seq.vars, Seq.fixed_items are their flat_maps) *)
Definition cell_vars (I : inst) (sn : nat * nat) : list tuple :=
  match rule I (fst sn) (snd sn) with
  | None => map (fun v => (v, fst sn, snd sn)) (seq 0 (iV I))
  | Some _ => []
  end.
Definition cell_fixed (I : inst) (sn : nat * nat) : list (tuple * Z) :=
  match rule I (fst sn) (snd sn) with
  | Some z => map (fun v => ((v, fst sn, snd sn), z)) (seq 0 (iV I))
  | None => []
  end.
