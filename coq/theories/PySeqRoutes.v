(* PySeqRoutes.v -- vocabulary of coq/genprops/C07_routes_gen.v (the generated model of
   SequenceBasedRoutingProblem.get_routes, coq/gen/SeqRoutesGen.v) and the bridge lemmas between the hand
   model Seq.v and the combinators of PyRoutes.v that do not mention generated definitions.  [C07]

   The generated method runs on the object of PySeq.v (`qstate`); the problem it holds is `seq_inst self`. *)
From VQ Require Export Base Vrptw Seq PyEnumCore PySeq PyRoutes.
From VQ Require Import Seq_facts PyRoutes_facts.

(* the object after self.enumerate_variables() *)
Definition seq_done (self : qstate) : qstate :=
  if q_variables_enumerated self then self else seq_enumerated self (seq_inst self).

(* the row np.array makes of a tuple (v, s, n) *)
Definition row3 (t : tuple) : list Z := [Z.of_nat (fst (fst t)); Z.of_nat (snd (fst t)); Z.of_nat (snd t)].

(* the selected tuples and the tuples fixed to one, as the hand model's decode computes them *)
Definition sel_free (I : inst) (x : list Z) : list tuple :=
  map fst (filter (fun tx : tuple * Z => negb (snd tx =? 0)) (combine (vars I) x)).
Definition fixed_ones (I : inst) : list tuple :=
  map fst (filter (fun tz : tuple * Z => snd tz =? 1) (fixed_items I)).

Definition seq_routes_result (self : qstate) (r : result (list (list nat))) : result (qstate * list (list nat)) :=
  match r with Ok rs => Ok (self, rs) | Err e => Err e end.

(* ---------- bridge lemmas ---------- *)
Lemma sort_t_sort_by l : sort_t l = sort_by lex_le l.
Proof.
  unfold sort_t, sort_by. induction l as [|x l IH]; cbn [fold_right]; [reflexivity|]. rewrite IH.
  generalize (fold_right (insert_by lex_le) [] l). intros s.
  induction s as [|y s IHs]; cbn [insert_t insert_by]; [reflexivity | rewrite IHs; reflexivity].
Qed.

Lemma ltb_nat_Z3 a b : (Z.of_nat a <? Z.of_nat b) = Nat.ltb a b.
Proof. destruct (Nat.ltb_spec a b), (Z.ltb_spec (Z.of_nat a) (Z.of_nat b)); try reflexivity; lia. Qed.

Lemma row3_leb a b : lex_leb_rows (row3 a) (row3 b) = lex_le a b.
Proof.
  destruct a as [[v s] n], b as [[v' s'] n']. unfold row3, lex_le. cbn [fst snd lex_leb_rows].
  rewrite !ltb_nat_Z3.
  destruct (Nat.ltb_spec v v'); [reflexivity|]. destruct (Nat.ltb_spec v' v).
  - cbn [orb]. replace (Nat.eqb v v') with false by (symmetry; apply Nat.eqb_neq; lia). reflexivity.
  - replace (Nat.eqb v v') with true by (symmetry; apply Nat.eqb_eq; lia). cbn [orb andb].
    destruct (Nat.ltb_spec s s'); [reflexivity|]. destruct (Nat.ltb_spec s' s).
    + cbn [orb]. replace (Nat.eqb s s') with false by (symmetry; apply Nat.eqb_neq; lia). reflexivity.
    + replace (Nat.eqb s s') with true by (symmetry; apply Nat.eqb_eq; lia). cbn [orb andb].
      destruct (Nat.ltb_spec n n'), (Nat.ltb_spec n' n), (Nat.leb_spec n n'); try reflexivity; lia.
Qed.

(* [self.get_var_tuple_index(k) for k in np.flatnonzero(x)] when x has at most one entry per variable *)
Lemma flatnonzero_sel_gen (vs : list tuple) : forall (x : list Z) (pv : list tuple),
  (length x <= length vs)%nat ->
  map (nth_error (pv ++ vs))
      (map fst (filter (fun p : nat * Z => negb (snd p =? 0)) (combine (seq (length pv) (length x)) x)))
  = map Some (map fst (filter (fun p : tuple * Z => negb (snd p =? 0)) (combine vs x))).
Proof.
  induction vs as [|v vs IH]; intros x pv Hl; destruct x as [|xv x]; try (cbn [length] in Hl; lia); try reflexivity.
  cbn [length] in Hl. cbn [length seq combine filter snd].
  specialize (IH x (pv ++ [v])). rewrite app_length in IH. cbn [length] in IH.
  rewrite Nat.add_1_r, <- app_assoc in IH. cbn [app] in IH.
  destruct (negb (xv =? 0)); cbn [map fst].
  - rewrite IH by lia. f_equal. rewrite nth_error_app2 by lia. rewrite Nat.sub_diag. reflexivity.
  - apply IH; lia.
Qed.

Lemma flatnonzero_sel I x : (length x <= num_variables I)%nat ->
  map (nth_error (vars I)) (np_flatnonzero x) = map Some (sel_free I x).
Proof.
  intros Hl. rewrite num_variables_length in Hl.
  exact (flatnonzero_sel_gen (vars I) x [] Hl).
Qed.

(* [t for t, v in self.fixed_values.items() if v == 1.0] *)
Lemma fixed_ones_comp (l : list (tuple * Z)) :
  map (fun k_ : tuple * Z => let '(t, v) := k_ in t)
      (filter (fun k_ : tuple * Z => let '(t, v) := k_ in v =? 1) (py_items l)) =
  map fst (filter (fun tz : tuple * Z => snd tz =? 1) l).
Proof.
  unfold py_items. induction l as [|[t v] l IH]; [reflexivity|]. cbn [filter snd].
  destruct (v =? 1); cbn [map fst]; rewrite IH; reflexivity.
Qed.

(* `prev_node and not self.check_arc((prev_node, curr_node))` *)
Lemma and_optnat_truthy (prev : option nat) (f : nat -> bool) :
  py_and_optnat prev f = truthy prev && f (match prev with Some p => p | None => O end).
Proof. destruct prev as [[|m]|]; reflexivity. Qed.
