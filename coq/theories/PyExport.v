(* PyExport.v -- the combinators printed by harness/translate_export.py (package `export`, C10) in addition to
   the generic ones of PyReport.v (range_fold, for_each, zip3, NL).  Definitions only; facts in PyExport_facts.v.
   Coefficients are exact rationals (Q) and matrices / vectors are functions of the indices, as in Export.v. *)
From Coq Require Import ZArith QArith List Bool String Ascii PeanoNat.
From VQ Require Import Base LinAlg Export PyReport.
Import ListNotations.

(* M.diagonal() *)
Definition qdiag (M : qmat) : qvec := fun i => M i i.

(* (rows, cols, vals) = sp.find(M) for an n x n sparse matrix: the non-zero entries of the matrix with duplicates
   summed, row-major (Export.find_entries), as three parallel lists *)
Definition sp_find (n : nat) (M : qmat) : list nat * list nat * list Q :=
  (map (fun t => fst (fst t)) (find_entries n M),
   map (fun t => snd (fst t)) (find_entries n M),
   map (fun t => snd t) (find_entries n M)).

(* the pieces export collects after the first one: every line of the file preceded by its newline *)
Definition nl_line (l : string) : string := (NL ++ l)%string.

(* the problem export works from: (Mat, d, constant) chosen by as_ising from the container's fields
   (d = h resp. Q.diagonal() is Export.dvec of this record) *)
Definition export_problem (n : nat) (Qm Jm : qmat) (h : qvec) (cq ci : Q) (ising : bool) : problem :=
  mkProblem ising n (if ising then Jm else Qm) h (if ising then ci else cq).

(* ---------- code that may raise: the exception monad over Base.result (translate_export.MonadicEngine) ---------- *)
Definition rbind {A B : Type} (x : result A) (f : A -> result B) : result B :=
  match x with Ok a => f a | Err e => Err e end.
(* for x in l: st = body(st, x), the first exception ends the loop *)
Fixpoint for_each_r {S A : Type} (l : list A) (body : S -> A -> result S) (st : S) : result S :=
  match l with
  | [] => Ok st
  | x :: r => rbind (body st x) (for_each_r r body)
  end.
Definition range_fold_r {S : Type} (a b : nat) (body : S -> nat -> result S) (st : S) : result S :=
  for_each_r (seq a (b - a)) body st.

(* s[k] for a string, l[k] for a list, k >= 0 *)
Definition str_get (s : string) (k : nat) : result ascii :=
  match String.get k s with Some c => Ok c | None => Err IndexError end.
Definition list_get {A : Type} (l : list A) (k : nat) : result A :=
  match nth_error l k with Some x => Ok x | None => Err IndexError end.
(* int(text), float(text): Export.parse_nat / parse_dec2 (modelled on the formats export writes; the float is its
   value in hundredths) *)
Definition py_int (s : string) : result nat :=
  match parse_nat s with Some v => Ok v | None => Err ValueError end.
Definition py_float (s : string) : result Z :=
  match parse_dec2 s with Some v => Ok v | None => Err ValueError end.
(* max(l) for a list of non-negative integers *)
Definition list_max_r (l : list nat) : result nat :=
  match l with [] => Err ValueError | _ => Ok (fold_left Nat.max l O) end.
(* scipy.sparse.coo_array((data, (row, col)), shape=(nr, nc)): shape and dense meaning (duplicates summed) *)
Definition py_coo_array (data : list Z) (row col : list nat) (nr nc : nat) : nat * nat * (nat -> nat -> Z) :=
  (nr, nc, coo_dense (zip3 row col data)).

(* how the hand model's result reads as the value load_matrix returns: (matrix of shape (m, m), constant) *)
Definition loaded_value (r : result loaded) : result ((nat * nat * (nat -> nat -> Z)) * Z) :=
  match r with
  | Ok (m, M, k) => Ok ((m, m, M), k)
  | Err e => Err e
  end.

(* the loop-carried variables of load_matrix in the order of their first assignment in the source
   (data, row, col, constant, mat_length, numrows, numcols), the hand model's state they stand for, and the
   invariant that makes the two agree: the three lists are parallel, numrows / numcols are the running maxima *)
Definition lgstate := (list Z * list nat * list nat * Z * option nat * nat * nat)%type.
Definition lg_abs (g : lgstate) : lstate :=
  match g with (data, row, col, k, ml, nr, nc) => mkL (zip3 row col data) k ml end.
Definition lg_inv (g : lgstate) : Prop :=
  match g with
  | (data, row, col, k, ml, nr, nc) =>
      List.length row = List.length data /\ List.length col = List.length data /\
      nr = fold_left Nat.max row O /\ nc = fold_left Nat.max col O
  end.
