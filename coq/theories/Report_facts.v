(* Report_facts.v -- proofs about the model of QUBOContainer.report (property C20). *)
From Coq Require Import ZArith List Bool Lia PeanoNat ZifyBool.
From VQ Require Import Base LinAlg Report.
Open Scope Z_scope.

(* ================= sums over Z ================= *)
Lemma zsum_ext n f g : (forall i, (i < n)%nat -> f i = g i) -> zsum n f = zsum n g.
Proof. apply sum_ext. Qed.

Lemma zsum_zero n : zsum n (fun _ => 0) = 0.
Proof. exact (sum_zero Z 0 1 Z.add Z.mul Z.sub Z.opp Zth n). Qed.

Lemma zsum_swap n m (f : nat -> nat -> Z) :
  zsum n (fun i => zsum m (fun j => f i j)) = zsum m (fun j => zsum n (fun i => f i j)).
Proof. exact (sum_swap Z 0 1 Z.add Z.mul Z.sub Z.opp Zth n m f). Qed.

Lemma zsum_S n f : zsum (S n) f = zsum n f + f n.
Proof. reflexivity. Qed.

(* terms from m on vanish: the sum stops at m *)
Lemma zsum_trunc m n f :
  (m <= n)%nat -> (forall i, (m <= i < n)%nat -> f i = 0) -> zsum n f = zsum m f.
Proof.
  induction n as [|n IH]; intros Hmn Hz.
  - replace m with O by lia. reflexivity.
  - destruct (Nat.eq_dec m (S n)) as [->|Hne]; [reflexivity|].
    rewrite zsum_S, Hz by lia. rewrite IH; [lia | lia | intros; apply Hz; lia].
Qed.

Lemma zsum_const n c : zsum n (fun _ => c) = Z.of_nat n * c.
Proof.
  induction n as [|n IH]; [reflexivity|]. rewrite zsum_S, IH. lia.
Qed.

(* ================= the scan ================= *)
Lemma ref_sum_snoc l v : ref_sum (l ++ [v]) = ref_sum l + v.
Proof. unfold ref_sum. induction l as [|a l IH]; simpl; [lia | rewrite IH; lia]. Qed.

Lemma ref_count_snoc m l v :
  ref_count m (l ++ [v]) = (ref_count m l + (if (m =? v)%Z then 1 else 0))%nat.
Proof.
  unfold ref_count. rewrite filter_app, app_length. simpl. destruct (m =? v); reflexivity.
Qed.

Lemma ref_count_none m l : (forall x, In x l -> x <> m) -> ref_count m l = O.
Proof.
  unfold ref_count. induction l as [|a l IH]; simpl; intros H; [reflexivity|].
  destruct (m =? a) eqn:E.
  - exfalso. apply (H a); [auto | lia].
  - apply IH. intros x Hx. apply H; auto.
Qed.

Lemma in_snoc {A} (l : list A) v x : In x (l ++ [v]) <-> In x l \/ x = v.
Proof. rewrite in_app_iff. simpl. intuition. Qed.

(* one iteration of the loop keeps the description of the prefix *)
Lemma scan_step_spec l st v :
  stats_spec l st -> stats_spec (l ++ [v]) (scan_step 0 st v).
Proof.
  destruct st as [[[sm opt] sec] cnt]. unfold stats_spec, scan_step.
  intros (Hs & Hin & Hle & Hc & Hsec).
  destruct (Z.abs (v - opt) <=? 0) eqn:E1.
  - (* equal to the optimum *)
    assert (v = opt) by lia. subst v.
    rewrite ref_sum_snoc, ref_count_snoc, Z.eqb_refl.
    repeat split.
    + lia.
    + apply in_snoc; auto.
    + intros x Hx. apply in_snoc in Hx. destruct Hx as [Hx| ->]; [auto | lia].
    + lia.
    + destruct sec as [s|].
      * destruct Hsec as (H1 & H2 & H3). repeat split; [apply in_snoc; auto | auto |].
        intros x Hx Hlt. apply in_snoc in Hx. destruct Hx as [Hx| ->]; [auto | lia].
      * intros x Hx. apply in_snoc in Hx. destruct Hx as [Hx| ->]; auto.
  - destruct (v <? opt) eqn:E2.
    + (* a new optimum: the old one becomes the runner-up *)
      rewrite ref_sum_snoc, ref_count_snoc, Z.eqb_refl.
      repeat split.
      * lia.
      * apply in_snoc; auto.
      * intros x Hx. apply in_snoc in Hx. destruct Hx as [Hx| ->]; [specialize (Hle x Hx); lia | lia].
      * rewrite ref_count_none; [reflexivity|]. intros x Hx. specialize (Hle x Hx). lia.
      * apply in_snoc; auto.
      * lia.
      * intros x Hx Hlt. apply in_snoc in Hx. destruct Hx as [Hx| ->]; [auto | lia].
    + (* above the optimum *)
      assert (Hv : opt < v) by lia.
      assert (Hcnt : cnt = ref_count opt (l ++ [v])).
      { rewrite ref_count_snoc. destruct (opt =? v) eqn:E3; [lia | lia]. }
      assert (Hle' : forall x, In x (l ++ [v]) -> opt <= x).
      { intros x Hx. apply in_snoc in Hx. destruct Hx as [Hx| ->]; [auto | lia]. }
      destruct sec as [s|].
      * destruct Hsec as (H1 & H2 & H3).
        destruct (v <? s) eqn:E4.
        -- rewrite ref_sum_snoc. repeat split; auto; try lia.
           ++ apply in_snoc; auto.
           ++ apply in_snoc; auto.
           ++ intros x Hx Hlt. apply in_snoc in Hx. destruct Hx as [Hx| ->]; [|lia].
              specialize (H3 x Hx Hlt). lia.
        -- rewrite ref_sum_snoc. repeat split; auto; try lia.
           ++ apply in_snoc; auto.
           ++ apply in_snoc; auto.
           ++ intros x Hx Hlt. apply in_snoc in Hx. destruct Hx as [Hx| ->]; [auto | lia].
      * rewrite ref_sum_snoc. repeat split; auto; try lia.
        -- apply in_snoc; auto.
        -- apply in_snoc; auto.
        -- intros x Hx Hlt. apply in_snoc in Hx. destruct Hx as [Hx| ->]; [|lia].
           specialize (Hsec x Hx). lia.
Qed.

Lemma scan_fold_spec vs : forall l st,
  stats_spec l st -> stats_spec (l ++ vs) (fold_left (scan_step 0) vs st).
Proof.
  induction vs as [|v vs IH]; intros l st H; simpl.
  - rewrite app_nil_r. exact H.
  - replace (l ++ v :: vs) with ((l ++ [v]) ++ vs) by (rewrite <- app_assoc; reflexivity).
    apply IH. apply scan_step_spec. exact H.
Qed.

Lemma scan_init_spec v0 : stats_spec [v0] (v0, v0, None, 1%nat).
Proof.
  unfold stats_spec, ref_sum, ref_count. simpl. rewrite Z.eqb_refl. simpl.
  repeat split; try lia; auto.
Qed.

(* the fold invariant: after any prefix `pre` of the visited values the state describes v0 :: pre *)
Lemma scan_list_spec v0 vs : stats_spec (v0 :: vs) (scan_list 0 v0 vs).
Proof. exact (scan_fold_spec vs [v0] _ (scan_init_spec v0)). Qed.

Lemma scan_list_app tol v0 pre post :
  scan_list tol v0 (pre ++ post) = fold_left (scan_step tol) post (scan_list tol v0 pre).
Proof. unfold scan_list. apply fold_left_app. Qed.

(* the description determines the state *)
Lemma stats_spec_unique l st st' : stats_spec l st -> stats_spec l st' -> st = st'.
Proof.
  destruct st as [[[sm opt] sec] cnt], st' as [[[sm' opt'] sec'] cnt'].
  unfold stats_spec. intros (Hs & Hin & Hle & Hc & Hsec) (Hs' & Hin' & Hle' & Hc' & Hsec').
  assert (opt = opt') by (specialize (Hle _ Hin'); specialize (Hle' _ Hin); lia).
  subst opt' sm sm' cnt cnt'.
  assert (sec = sec'); [|subst; reflexivity].
  destruct sec as [s|], sec' as [s'|].
  - destruct Hsec as (H1 & H2 & H3), Hsec' as (H1' & H2' & H3').
    specialize (H3 _ H1' H2'). specialize (H3' _ H1 H2). f_equal. lia.
  - destruct Hsec as (H1 & H2 & H3). specialize (Hsec' _ H1). lia.
  - destruct Hsec' as (H1 & H2 & H3). specialize (Hsec _ H1). lia.
  - reflexivity.
Qed.

(* the brute-force reference functions meet the description *)
Lemma fold_min_spec a r :
  In (fold_right Z.min a r) (a :: r) /\ forall x, In x (a :: r) -> fold_right Z.min a r <= x.
Proof.
  induction r as [|b r [IH1 IH2]]; simpl.
  - split; [auto|]. intros x [<-|[]]. lia.
  - split.
    + destruct (Z.min_spec b (fold_right Z.min a r)) as [[_ E]|[_ E]]; rewrite E.
      * auto.
      * destruct IH1 as [<-|H]; auto.
    + intros x [<-|[<-|H]].
      * specialize (IH2 a (or_introl eq_refl)). lia.
      * lia.
      * specialize (IH2 x (or_intror H)). lia.
Qed.

Lemma ref_stats_spec v0 vs : stats_spec (v0 :: vs) (ref_stats v0 vs).
Proof.
  unfold ref_stats, stats_spec, ref_min.
  destruct (fold_min_spec v0 vs) as [Hin Hle].
  set (m := fold_right Z.min v0 vs) in *.
  repeat split; auto.
  unfold ref_second.
  destruct (filter (fun v => m <? v) (v0 :: vs)) as [|a r] eqn:E.
  - intros v Hv. specialize (Hle v Hv).
    destruct (Z.eq_dec v m) as [|Hne]; [auto|]. exfalso.
    assert (Hf : In v (filter (fun v => m <? v) (v0 :: vs))) by (apply filter_In; split; [auto | lia]).
    rewrite E in Hf. exact Hf.
  - destruct (fold_min_spec a r) as [Hin2 Hle2].
    rewrite <- E in Hin2, Hle2. apply filter_In in Hin2. destruct Hin2 as [H1 H2].
    repeat split; [exact H1 | lia |].
    intros v Hv Hlt. apply Hle2. apply filter_In. split; [auto | lia].
Qed.

Theorem scan_list_correct v0 vs : scan_list 0 v0 vs = ref_stats v0 vs.
Proof. apply (stats_spec_unique (v0 :: vs)); [apply scan_list_spec | apply ref_stats_spec]. Qed.

(* gap key: present iff two distinct values exist *)
Lemma scan_list_no_gap v0 vs :
  (let '(_, _, sec, _) := scan_list 0 v0 vs in sec = None) <-> (forall v, In v vs -> v = v0).
Proof.
  pose proof (scan_list_spec v0 vs) as H.
  destruct (scan_list 0 v0 vs) as [[[sm opt] sec] cnt]. unfold stats_spec in H.
  destruct H as (_ & Hin & Hle & _ & Hsec). split.
  - intros ->. intros v Hv. rewrite (Hsec v (or_intror Hv)), (Hsec v0 (or_introl eq_refl)). reflexivity.
  - intros Hall. destruct sec as [s|]; [exfalso | reflexivity].
    destruct Hsec as (H1 & H2 & _).
    assert (E1 : s = v0) by (destruct H1 as [<-|H1]; auto).
    assert (E2 : opt = v0) by (destruct Hin as [<-|Hin]; auto). lia.
Qed.

(* ================= the enumeration ================= *)
Lemma bits_length n v : length (bits n v) = n.
Proof. induction n as [|n IH]; simpl; auto. Qed.

Lemma bits_mod n k v : (n <= k)%nat -> bits n (v mod 2 ^ k) = bits n v.
Proof.
  induction n as [|n IH]; intros H; simpl; [reflexivity|].
  rewrite Nat.mod_pow2_bits_low by lia. rewrite IH by lia. reflexivity.
Qed.

Lemma pow2_pos n : (0 < 2 ^ n)%nat.
Proof. induction n as [|n IH]; simpl; lia. Qed.

Lemma bits_low n v : (v < 2 ^ n)%nat -> bits (S n) v = false :: bits n v.
Proof.
  intros H. simpl. f_equal. apply Nat.testbit_false. rewrite Nat.div_small by exact H. reflexivity.
Qed.

Lemma bits_high n w : (w < 2 ^ n)%nat -> bits (S n) (2 ^ n + w) = true :: bits n w.
Proof.
  intros H. pose proof (pow2_pos n) as Hp. simpl. f_equal.
  - apply Nat.testbit_true.
    replace (2 ^ n + w)%nat with (w + 1 * 2 ^ n)%nat by lia.
    rewrite Nat.div_add by lia. rewrite Nat.div_small by exact H. reflexivity.
  - rewrite <- (bits_mod n n (2 ^ n + w)) by lia.
    replace (2 ^ n + w)%nat with (w + 1 * 2 ^ n)%nat by lia.
    rewrite Nat.mod_add by lia. apply bits_mod. lia.
Qed.

Lemma seq_shift_add a len : seq a len = map (Nat.add a) (seq 0 len).
Proof.
  revert a. induction len as [|len IH]; intros a; simpl; [reflexivity|].
  f_equal; [lia|]. rewrite (IH (S a)), (IH 1%nat), map_map. apply map_ext. intros; lia.
Qed.

(* the digits of 0 .. 2^n-1 are the lexicographic enumeration *)
Lemma bits_enum n : map (bits n) (seq 0 (2 ^ n)) = enum n.
Proof.
  induction n as [|n IH]; [reflexivity|].
  replace (2 ^ S n)%nat with (2 ^ n + 2 ^ n)%nat by (simpl; lia).
  rewrite seq_app, map_app. cbn [enum]. f_equal.
  - rewrite <- IH, map_map. apply map_ext_in. intros v Hv. apply in_seq in Hv.
    apply bits_low. lia.
  - rewrite (seq_shift_add (0 + 2 ^ n)), map_map, <- IH, map_map.
    apply map_ext_in. intros v Hv. apply in_seq in Hv. simpl. apply (bits_high n v). lia.
Qed.

Lemma bits_zero n : bits n 0 = repeat false n.
Proof. induction n as [|n IH]; simpl; [reflexivity|]. rewrite IH. f_equal. apply Nat.bits_0. Qed.

(* x = 0 followed by the assignments the loop visits = all bit vectors, in order *)
Lemma loop_enum n : repeat false n :: loop_assignments n = enum n.
Proof.
  rewrite <- bits_enum, <- bits_zero. unfold loop_assignments.
  pose proof (pow2_pos n) as Hp.
  replace (2 ^ n)%nat with (S (2 ^ n - 1)) at 2 by lia. reflexivity.
Qed.

Lemma enum_length n : length (enum n) = (2 ^ n)%nat.
Proof.
  induction n as [|n IH]; [reflexivity|]. cbn [enum]. rewrite app_length, !map_length, IH. simpl. lia.
Qed.

Lemma enum_complete n x : In x (enum n) <-> length x = n.
Proof.
  revert x. induction n as [|n IH]; intros x; cbn [enum].
  - split; [intros [<-|[]]; reflexivity|]. destruct x; [left; reflexivity | discriminate].
  - rewrite in_app_iff, !in_map_iff. split.
    + intros [(y & <- & Hy)|(y & <- & Hy)]; simpl; f_equal; apply IH; exact Hy.
    + destruct x as [|b x]; [discriminate|]. simpl. intros H. injection H as H.
      apply IH in H. destruct b; [right | left]; exists x; auto.
Qed.

Lemma NoDup_app_disjoint {A} (l m : list A) :
  NoDup l -> NoDup m -> (forall x, In x l -> ~ In x m) -> NoDup (l ++ m).
Proof.
  induction l as [|a l IH]; simpl; intros Hl Hm Hd; [exact Hm|].
  inversion Hl; subst. constructor.
  - rewrite in_app_iff. intros [H|H]; [contradiction | exact (Hd a (or_introl eq_refl) H)].
  - apply IH; auto.
Qed.

Lemma NoDup_map_cons {A} (b : A) (l : list (list A)) : NoDup l -> NoDup (map (cons b) l).
Proof.
  induction l as [|a l IH]; simpl; intros H; [constructor|].
  inversion H; subst. constructor; [|auto].
  rewrite in_map_iff. intros (y & E & Hy). injection E as ->. contradiction.
Qed.

Lemma enum_NoDup n : NoDup (enum n).
Proof.
  induction n as [|n IH]; cbn [enum].
  - constructor; [intros [] | constructor].
  - apply NoDup_app_disjoint; try (apply NoDup_map_cons; exact IH).
    intros x H1 H2. apply in_map_iff in H1. apply in_map_iff in H2.
    destruct H1 as (y & <- & _), H2 as (z & E & _). discriminate.
Qed.

(* ================= scan = brute force ================= *)
Theorem scan_brute n c f : f (repeat false n) = c -> scan 0 n c f = brute n f.
Proof.
  intros Hc. unfold scan, brute. rewrite <- loop_enum. cbn [map]. rewrite Hc.
  apply scan_list_correct.
Qed.

Lemma brute_spec n f : stats_spec (map f (enum n)) (brute n f).
Proof.
  unfold brute. rewrite <- loop_enum. cbn [map]. apply ref_stats_spec.
Qed.

(* the count is the number of assignments attaining the optimum *)
Lemma ref_count_map {A} (f : A -> Z) m l :
  ref_count m (map f l) = length (filter (fun x => m =? f x) l).
Proof.
  unfold ref_count. induction l as [|a l IH]; simpl; [reflexivity|].
  destruct (m =? f a); simpl; rewrite IH; reflexivity.
Qed.

Lemma ref_sum_map_enum_S n (f : list bool -> Z) :
  ref_sum (map f (enum (S n))) =
  ref_sum (map (fun x => f (false :: x)) (enum n)) + ref_sum (map (fun x => f (true :: x)) (enum n)).
Proof.
  cbn [enum]. rewrite map_app, !map_map. unfold ref_sum.
  generalize (map (fun x => f (false :: x)) (enum n)) as l1.
  generalize (map (fun x => f (true :: x)) (enum n)) as l2.
  intros l2 l1. induction l1 as [|a l1 IH]; simpl; [lia | rewrite IH; lia].
Qed.

(* ================= the QUBO objective ================= *)
Lemma nth_repeat_false i n : nth i (repeat false n) false = false.
Proof. revert i. induction n as [|n IH]; intros [|i]; simpl; auto. Qed.

Lemma eval_qubo_zero n Q c : eval_qubo n Q c (repeat false n) = c.
Proof.
  unfold eval_qubo.
  rewrite (zsum_ext n _ (fun _ => 0)); [rewrite zsum_zero; lia|].
  intros i _. unfold xval. rewrite nth_repeat_false. simpl. lia.
Qed.

Theorem report_stats p n M c :
  snd (report p n M c true 0) = Some (brute n (eval_qubo n (container_Q p M) c)).
Proof.
  unfold report. cbn [snd]. f_equal. apply scan_brute. apply eval_qubo_zero.
Qed.

Lemma report_no_stats p n M c tol : snd (report p n M c false tol) = None.
Proof. reflexivity. Qed.

(* ================= structural metrics ================= *)
Lemma to_upper_lower Q i j : (j < i)%nat -> to_upper Q i j = 0.
Proof.
  intros H. unfold to_upper, tril_strict.
  destruct (Nat.ltb_spec i j); destruct (Nat.ltb_spec j i); lia.
Qed.

Lemma to_upper_coef Q i j : (i <= j)%nat -> to_upper Q i j = coef Q i j.
Proof.
  intros H. unfold to_upper, tril_strict, coef.
  destruct (Nat.ltb_spec i j); destruct (Nat.ltb_spec j i); destruct (Nat.eqb_spec i j); subst; lia.
Qed.

(* the entries counted are exactly the non-zero coefficients of the monomials x_i x_j, i <= j *)
Theorem nnz_upper n Q :
  nnz n (to_upper Q) = zsum n (fun j => zsum (S j) (fun i => nz (coef Q i j))).
Proof.
  unfold nnz. rewrite zsum_swap. apply zsum_ext. intros j Hj.
  rewrite (zsum_trunc (S j) n) by (try lia; intros i Hi; rewrite to_upper_lower by lia; reflexivity).
  apply zsum_ext. intros i Hi. rewrite to_upper_coef by lia. reflexivity.
Qed.

(* number of monomials x_i x_j with i <= j < n, doubled *)
Lemma upper_positions_count n :
  2 * zsum n (fun j => zsum (S j) (fun _ => 1)) = (Z.of_nat n + 1) * Z.of_nat n.
Proof.
  induction n as [|n IH]; [reflexivity|].
  rewrite zsum_S, zsum_const. lia.
Qed.

Lemma nz_bound z : 0 <= nz z <= 1.
Proof. unfold nz. destruct (z =? 0); lia. Qed.

Lemma zsum_le n f g : (forall i, (i < n)%nat -> f i <= g i) -> zsum n f <= zsum n g.
Proof.
  induction n as [|n IH]; intros H; [reflexivity|]. rewrite !zsum_S.
  specialize (H n (Nat.lt_succ_diag_r n)) as Hn.
  assert (zsum n f <= zsum n g) by (apply IH; intros; apply H; lia). lia.
Qed.

(* the coefficients do not depend on the pattern the container stores *)
Lemma coef_container p M i j :
  (p = Symmetric -> Z.even (M i j + M j i) = true) ->
  coef (container_Q p M) i j = coef M i j.
Proof.
  intros Hev. destruct p; cbn [container_Q].
  - unfold coef, to_upper, tril_strict.
    destruct (Nat.eqb_spec i j); [subst; rewrite Nat.ltb_irrefl; lia|].
    destruct (Nat.ltb_spec i j); destruct (Nat.ltb_spec j i); lia.
  - specialize (Hev eq_refl). unfold coef, to_symmetric.
    destruct (Nat.eqb_spec i j).
    + subst. replace (M j j + M j j) with (M j j * 2) by lia. apply Z.div_mul. lia.
    + replace (M j i + M i j) with (M i j + M j i) by lia.
      apply Zeven_bool_iff in Hev. apply Zeven_div2 in Hev.
      rewrite Z.div2_div in Hev. lia.
  - reflexivity.
Qed.

(* ================= statements assembled for props/C20.v ================= *)
(* what the scan returns, said directly about assignments *)
Theorem scan_meaning n f c :
  f (repeat false n) = c ->
  match scan 0 n c f with
  | (sm, opt, sec, cnt) =>
      sm = ref_sum (map f (enum n)) /\
      (exists x, length x = n /\ f x = opt) /\
      (forall x, length x = n -> opt <= f x) /\
      cnt = length (filter (fun x => opt =? f x) (enum n)) /\
      match sec with
      | None => forall x, length x = n -> f x = opt
      | Some s => (exists x, length x = n /\ f x = s) /\ opt < s /\
                  (forall x, length x = n -> opt < f x -> s <= f x)
      end
  end.
Proof.
  intros Hc. rewrite (scan_brute n c f Hc).
  pose proof (brute_spec n f) as H.
  destruct (brute n f) as [[[sm opt] sec] cnt]. unfold stats_spec in H.
  destruct H as (Hs & Hin & Hle & Hcnt & Hsec).
  split; [exact Hs|]. split.
  { apply in_map_iff in Hin. destruct Hin as (x & E & Hx). exists x. split; [apply enum_complete; exact Hx | exact E]. }
  split.
  { intros x Hx. apply Hle. apply in_map. apply enum_complete. exact Hx. }
  split.
  { rewrite Hcnt. apply ref_count_map. }
  destruct sec as [s|].
  - destruct Hsec as (H1 & H2 & H3). split; [|split; [exact H2|]].
    + apply in_map_iff in H1. destruct H1 as (x & E & Hx). exists x. split; [apply enum_complete; exact Hx | exact E].
    + intros x Hx Hlt. apply H3; [|exact Hlt]. apply in_map. apply enum_complete. exact Hx.
  - intros x Hx. apply Hsec. apply in_map. apply enum_complete. exact Hx.
Qed.

Lemma nnz_coef_bounds n Q :
  0 <= zsum n (fun j => zsum (S j) (fun i => nz (coef Q i j))) <=
  zsum n (fun j => zsum (S j) (fun _ => 1)).
Proof.
  split.
  - rewrite <- (zsum_zero n). apply zsum_le. intros j _.
    rewrite <- (zsum_zero (S j)). apply zsum_le. intros i _. apply nz_bound.
  - apply zsum_le. intros j _. apply zsum_le. intros i _. apply nz_bound.
Qed.

Theorem report_metrics p n M c os tol :
  let Q := container_Q p M in
  let N := zsum n (fun j => zsum (S j) (fun i => nz (coef Q i j))) in
  fst (report p n M c os tol) =
    (n, N, (2 * N, (Z.of_nat n + 1) * Z.of_nat n), distinct_diag n (to_upper Q)).
Proof.
  intros Q N. unfold report. cbn [fst]. unfold metrics_of. rewrite nnz_upper. reflexivity.
Qed.
