(* PySem.v -- combinator correspondence ("pysem"): comparison functions for the differential check that
   ties the MEANING the Py*.v files give to Python / numpy / scipy operations to the real libraries.
   Definitions only (no lemma, no axiom).  Driver: harness/props/pysem.py; notes: notes/PySem.md.

   For every group (lists, dicts, sorting, sparse, numbers, truthiness, strings) there is a `case` type whose
   constructors carry the inputs of one Python operation TOGETHER WITH the result the real library gave
   (computed in-process by the driver), and a `check_*` function that evaluates every combinator of the Py*.v
   files that stands for that operation and returns, through Base.chk, the tags of the combinators that
   disagree.  A tag names ONE combinator (table TAGS in pysem.py; the numbers are repeated in the comments
   below).  All Py*.v names are used qualified: several files define a combinator of the same name. *)
From Coq Require Import ZArith QArith Qround Qabs List Bool String Ascii PeanoNat.
From VQ Require Import Base LinAlg.
From VQ Require Vrptw Path Arc Seq Report Export Mirp MirpWrap Heur Rng.
From VQ Require PyEnumCore PyVrptw PyPath PyMat PyQubo PyReport PyExport PyArc PySeq PyArcCons PySeqCons
                PyRoutes PyMirp PyMirpWrap PyHeur PyHeurPath PyTestSet.
Import ListNotations.
Open Scope Z_scope.

(* ---------- literals and equalities ---------- *)
(* a string given by its character codes (Coq string literals have no escapes) *)
Fixpoint str_of (l : list nat) : string :=
  match l with [] => EmptyString | c :: r => String (ascii_of_nat c) (str_of r) end.

Definition zl_eqb : list Z -> list Z -> bool := list_eqb Z.eqb.
Definition nl_eqb : list nat -> list nat -> bool := list_eqb Nat.eqb.
Definition bl_eqb : list bool -> list bool -> bool := list_eqb Bool.eqb.
Definition zll_eqb : list (list Z) -> list (list Z) -> bool := list_eqb zl_eqb.
Definition q_eqb (a b : Q) : bool := Qeq_bool a b.
Definition ql_eqb : list Q -> list Q -> bool := list_eqb q_eqb.
Definition unit_eqb (a b : unit) : bool := true.
Definition opt_err_eqb : option errcls -> option errcls -> bool := option_eqb errcls_eqb.

(* ---------- the tiny loop programs ----------
   The driver executes (exec) this Python text with the constants c, b1, b2, r inlined:

       for x in l:                       i = 0
           if x == c: continue           while i < len(l):
           if x == b1: break                 x = l[i]; i += 1
           acc.append(x)                     ... same body ...
           if x == r: raise ValueError
           if x == b2: break

   (`break` is replaced by `return` for the combinators that model an early return).  One step of the body: *)
Inductive lstep := LsNext | LsBreak | LsRaise.
Definition loop_step (c b1 b2 r x : Z) (acc : list Z) : lstep * list Z :=
  if x =? c then (LsNext, acc)
  else if x =? b1 then (LsBreak, acc)
  else let acc' := acc ++ [x] in
       if x =? r then (LsRaise, acc')
       else if x =? b2 then (LsBreak, acc') else (LsNext, acc').

(* the same body for the `while` programs: state (i, acc) *)
Definition wstep_of (l : list Z) (c b1 b2 r : Z) (st : nat * list Z) : lstep * (nat * list Z) :=
  let x := nth (fst st) l 0 in
  let p := loop_step c b1 b2 r x (snd st) in (fst p, (S (fst st), snd p)).
Definition wcond_of (l : list Z) (st : nat * list Z) : bool := Nat.ltb (fst st) (length l).

(* what the driver observed: the accumulator when the program stopped and the exception class, if any *)
Definition loop_obs := (list Z * option errcls)%type.

(* adapters: the step as each combinator's body type wants it *)
Definition b_enum (c b1 b2 r x : Z) (acc : list Z) : PyEnumCore.ctl * list Z :=
  match loop_step c b1 b2 r x acc with
  | (LsBreak, a) => (PyEnumCore.CBreak, a) | (_, a) => (PyEnumCore.CNext, a) end.
Definition b_enumE {S} (stp : S -> lstep * S) (st : S) : result (PyEnumCore.ctl * S) :=
  match stp st with
  | (LsNext, a) => Ok (PyEnumCore.CNext, a) | (LsBreak, a) => Ok (PyEnumCore.CBreak, a)
  | (LsRaise, _) => Err ValueError end.
Definition b_forx (c b1 b2 r x : Z) (acc : list Z) : PyArcCons.xctl * list Z :=
  match loop_step c b1 b2 r x acc with
  | (LsNext, a) => (PyArcCons.XNext, a) | (LsBreak, a) => (PyArcCons.XBreak, a)
  | (LsRaise, a) => (PyArcCons.XRaise ValueError, a) end.
Definition b_lctl {S} (stp : S -> lstep * S) (st : S) : PyHeurPath.lctl S :=
  match stp st with
  | (LsNext, a) => PyHeurPath.LNext a | (LsBreak, a) => PyHeurPath.LBreak a
  | (LsRaise, _) => PyHeurPath.LRaise ValueError end.
(* early `return acc` instead of break; raise = the function raises *)
Definition b_path (c b1 b2 r x : Z) (acc : list Z) : PyPath.ctl (list Z) (result (list Z)) :=
  match loop_step c b1 b2 r x acc with
  | (LsNext, a) => PyPath.Cont a | (LsBreak, a) => PyPath.Stop (Ok a)
  | (LsRaise, _) => PyPath.Stop (Err ValueError) end.
Definition b_mirp {S} (stp : S -> lstep * S) (st : S) : PyMirp.M (PyMirp.ctl S) :=
  match stp st with
  | (LsNext, a) => PyMirp.ret (PyMirp.Continue a) | (LsBreak, a) => PyMirp.ret (PyMirp.Break a)
  | (LsRaise, _) => PyMirp.raise ValueError end.
Definition xs0 : PyMirpWrap.xstate := PyMirpWrap.mkXS PyMirp.blank_state None None None O [].
Definition b_wrap (c b1 b2 r x : Z) (acc : list Z) : PyMirpWrap.M (PyMirp.ctl (list Z)) :=
  match loop_step c b1 b2 r x acc with
  | (LsNext, a) => PyMirpWrap.ret (PyMirp.Continue a) | (LsBreak, a) => PyMirpWrap.ret (PyMirp.Break a)
  | (LsRaise, _) => PyMirpWrap.raise ValueError end.
(* a body that changes the object (here: appends to node_names) and may raise; no break / continue *)
Definition b_vrptw (r : nat) (g : Vrptw.graph) (x : nat) : PyVrptw.M unit :=
  let g' := PyVrptw.set_names (Vrptw.names g ++ [x]) g in
  if Nat.eqb x r then PyVrptw.raise g' ValueError else PyVrptw.ret g' tt.

(* observation of a result-valued loop: the state is lost when the loop raised *)
Definition obs_res (o : loop_obs) : result (list Z) :=
  match snd o with None => Ok (fst o) | Some e => Err e end.
Definition rzl_eqb : result (list Z) -> result (list Z) -> bool := result_eqb zl_eqb.

(* ====================================================================================================
   Group `lists`: Python list operations, 1-d numpy item access, range / enumerate / zip, loops.
   ==================================================================================================== *)
Inductive lcase :=
| LIndex (x : nat) (l : list nat) (exp : result nat)                 (* l.index(x) *)
| LIn (x : nat) (l : list nat) (exp : bool)                          (* x in l *)
| LGetNat (l : list Z) (i : nat) (exp : result Z)                    (* l[i], i >= 0 *)
| LGetZ (l : list Z) (z : Z) (exp : result Z)                        (* l[z], any int *)
| LSetZ (l : list Z) (z v : Z) (exp : result (list Z))               (* l[z] = v on a list *)
| LNpSetZ (l : list Z) (z v : Z) (exp : result (list Z))             (* a[z] = v on a 1-d ndarray *)
| LSetNat (l : list Z) (i : nat) (v : Z) (exp : result (list Z))     (* l[i] = v, i >= 0 (list and ndarray agree) *)
| LPopNat (l : list Z) (i : nat) (exp : result (Z * list Z))         (* x = l.pop(i), i >= 0 *)
| LPopZ (l : list Z) (z : Z) (exp : result (Z * list Z))             (* x = l.pop(z) *)
| LRemove (x : nat) (l : list nat) (exp : result (list nat))         (* l.remove(x) *)
| LInsert (i : nat) (x : Z) (l exp : list Z)                         (* l.insert(i, x), i >= 0 *)
| LAppend (l : list Z) (x : Z) (exp : list Z)                        (* l.append(x) *)
| LConcat (a b exp : list Z)                                         (* a + b *)
| LRepeat (l : list Z) (n : Z) (exp : list Z)                        (* l * n *)
| LSlice (k : nat) (l exp : list Z)                                  (* l[k:] *)
| LEnumerate (l : list Z) (exp : list (nat * Z))                     (* list(enumerate(l)) *)
| LRange (a b : Z) (exp : list Z)                                    (* list(range(a, b)), a >= 0 *)
| LRange1 (n : Z) (exp : list Z)                                     (* list(range(n)) *)
| LLen (l : list Z) (exp : nat)                                      (* len(l) *)
| LZip (a b : list Z) (exp : list (Z * Z))                           (* list(zip(a, b)) *)
| LZip3 (a b c : list Z) (exp : list (Z * Z * Z))                    (* list(zip(a, b, c)) *)
| LProduct (a b : list Z) (exp : list (Z * Z))                       (* list(itertools.product(a, b)) *)
| LLast (l : list Z) (exp : result Z)                                (* l[-1] *)
| LMaxDefault (l : list Z) (d exp : Z)                               (* max(l, default=d) *)
| LListMax (l : list nat) (exp : result nat)                         (* max(l) *)
| LAnyAll (l : list bool) (eany eall : bool)                         (* any(l), all(l) *)
| LGeScalar (l : list Z) (x : Z) (exp : list bool)                   (* (np.array(l) >= x).tolist() *)
| LTry (x : nat) (l : list nat) (cls : errcls) (exp : result Z)      (* try: return l.index(x)  except cls: return -1 *)
| LMapE (l : list Z) (bad : Z) (exp : result (list Z))               (* [f(k) for k in l]; f(bad) raises KeyError, f(k) = 2k *)
| LMapM (l : list Z) (bad : Z) (exp : result (Z * list Z))           (* the same with f adding k to a counter it returns *)
| LStrGet (s : list nat) (k : nat) (exp : result nat)                (* ord(s[k]) *)
| LTupleOf (o : option Z) (exp : result Z)                           (* t[0] for t = None or (z,) *)
| LFlatnonzero (x : list Z) (exp : list nat)                         (* np.flatnonzero(x).tolist() *)
| LNpVecAug (a : list Z) (i : option Z) (v : Z) (eadd eset : result (list Z))  (* a[i] += v; a[i] = v; i an int or None *)
| LOnes (n j : Z) (exp : result (list Z))                            (* (j * np.ones(n)).tolist() *)
| LMatSet1 (nr nc r c v : Z) (exp : result (list (list Z)))          (* M = np.zeros((nr, nc)); M[r, c] = v *)
| LMatSet (nr nc : Z) (rows : list nat) (cols : list Z) (v : Z) (exp : result (list (list Z)))   (* M[rows, cols] = v *)
| LMaskRows (M : list (list Z)) (nc : nat) (mask : list bool) (exp : result (list (list Z)))      (* M[mask, :] *)
| LFor (l : list Z) (c b1 b2 r : Z) (o : loop_obs)                   (* the `for` program *)
| LForRet (l : list Z) (c b1 b2 r : Z) (fell : bool) (o : loop_obs)  (* `return acc` in place of break; fell = the loop ended normally *)
| LForObj (l : list nat) (r : nat) (acc : list nat) (e : option errcls)  (* for x in l: acc.append(x); if x == r: raise ValueError *)
| LWhile (l : list Z) (c b1 b2 r : Z) (o : loop_obs).                (* the `while` program *)

Definition rz_eqb : result Z -> result Z -> bool := result_eqb Z.eqb.
Definition rpop_eqb : result (Z * list Z) -> result (Z * list Z) -> bool := result_eqb (pair_eqb Z.eqb zl_eqb).
Definition rmat_eqb (r : result PyPath.mat) (exp : result (list (list Z))) : bool :=
  match r, exp with
  | Ok M, Ok rows => zll_eqb (PyPath.mrows M) rows
  | Err e, Err f => errcls_eqb e f
  | _, _ => false
  end.
Definition collect (acc : list Z) (k : nat) : list Z := acc ++ [Z.of_nat k].
Definition f_mapE (bad k : Z) : result Z := if k =? bad then Err KeyError else Ok (2 * k).
Definition f_mapM (bad : Z) (s k : Z) : result (Z * Z) := if k =? bad then Err KeyError else Ok (s + k, s + k).
Definition nonneg (z : Z) : bool := 0 <=? z.

Definition check_lcase (c : lcase) : list nat :=
  match c with
  | LIndex x l exp =>
      chk 101 (result_eqb Nat.eqb (PyVrptw.py_index x l) exp) ++
      chk 102 (result_eqb Nat.eqb (PyEnumCore.py_list_index Nat.eqb x l) exp)
  | LIn x l exp =>
      chk 103 (Bool.eqb (PyVrptw.py_in x l) exp) ++ chk 104 (Bool.eqb (PyEnumCore.py_list_contains Nat.eqb x l) exp)
  | LGetNat l i exp =>
      chk 105 (rz_eqb (PyVrptw.py_getitem l i) exp) ++ chk 106 (rz_eqb (PyEnumCore.py_list_item l i) exp) ++
      chk 107 (rz_eqb (PyExport.list_get l i) exp) ++ chk 108 (rz_eqb (PyHeurPath.py_nth l i) exp)
  | LGetZ l z exp =>
      chk 109 (rz_eqb (PyPath.py_getitem l z) exp) ++ chk 110 (rz_eqb (PyRoutes.py_list_getitem_z l z) exp) ++
      chk 111 (rz_eqb (PySeqCons.py_list_getitem_z l z) exp) ++ chk 112 (rz_eqb (PyTestSet.py_index l z) exp)
  | LSetZ l z v exp =>
      chk 114 (rzl_eqb (PyPath.py_setitem l z v) exp) ++ chk 115 (rzl_eqb (PyRoutes.py_list_setitem_z l z v) exp) ++
      chk 116 (rzl_eqb (PySeqCons.py_list_setitem_z l z v) exp)
  | LNpSetZ l z v exp =>
      chk 117 (rzl_eqb (PyHeur.np_set_item l z v) exp) ++ chk 118 (rzl_eqb (PySeqCons.np_vec_setitem l (Some z) v) exp)
  | LSetNat l i v exp =>
      chk 119 (rzl_eqb (PyHeurPath.py_set_nth l i v) exp) ++
      chk 120 (rzl_eqb (snd (PyMirpWrap.list_set_m l i v xs0)) exp) ++
      (* documented domain of py_nd_set / list_update: the index is inside the array *)
      match exp with
      | Ok e => chk 121 (zl_eqb (PyArcCons.py_nd_set l i v) e) ++ chk 122 (zl_eqb (PyRoutes.list_update l i v) e)
      | Err _ => []
      end
  | LPopNat l i exp => chk 123 (rpop_eqb (PyVrptw.py_pop l i) exp)
  | LPopZ l z exp => chk 124 (rpop_eqb (PyRoutes.py_list_pop l z) exp)
  | LRemove x l exp =>
      chk 125 (result_eqb nl_eqb (PyVrptw.py_remove x l) exp) ++
      chk 126 (result_eqb nl_eqb (PyHeur.py_list_remove Nat.eqb x l) exp) ++
      chk 127 (result_eqb nl_eqb (PyHeurPath.py_list_remove l x) exp)
  | LInsert i x l exp => chk 128 (zl_eqb (PyVrptw.py_insert i x l) exp)
  | LAppend l x exp => chk 129 (zl_eqb (PyVrptw.py_append l x) exp) ++ chk 130 (zl_eqb (PyEnumCore.py_append l x) exp)
  | LConcat a b exp =>
      chk 131 (zl_eqb (PyRoutes.py_list_concat a b) exp) ++ chk 132 (zl_eqb (PyArcCons.py_list_concat a b) exp)
  | LRepeat l n exp =>
      match l with
      | [x] => chk 133 (zl_eqb (PyPath.py_list_repeat x n) exp) ++
               (if nonneg n then chk 134 (zl_eqb (PyHeurPath.py_repeat x (Z.to_nat n)) exp) else [])
      | _ => []
      end ++
      (if nonneg n then chk 135 (zl_eqb (PyMirpWrap.list_mul l (Z.to_nat n)) exp) else [])
  | LSlice k l exp => chk 136 (zl_eqb (PyRoutes.py_slice_from k l) exp)
  | LEnumerate l exp =>
      chk 137 (list_eqb (pair_eqb Nat.eqb Z.eqb) (PyRoutes.py_enumerate l) exp) ++
      chk 138 (list_eqb (pair_eqb Nat.eqb Z.eqb) (PyArcCons.py_enumerate l) exp) ++
      chk 139 (list_eqb (pair_eqb Z.eqb Z.eqb) (PyPath.py_enumerate l) (map (fun p => (Z.of_nat (fst p), snd p)) exp))
  | LRange a b exp =>
      chk 140 (zl_eqb (map Z.of_nat (PyEnumCore.py_range2_z a b)) exp) ++
      (if nonneg b then
         chk 141 (zl_eqb (map Z.of_nat (PyEnumCore.py_range2 (Z.to_nat a) (Z.to_nat b))) exp) ++
         chk 147 (zl_eqb (PyReport.range_fold (Z.to_nat a) (Z.to_nat b) collect []) exp) ++
         chk 148 (rzl_eqb (PyExport.range_fold_r (Z.to_nat a) (Z.to_nat b) (fun s k => Ok (collect s k)) []) (Ok exp))
       else [])
  | LRange1 n exp =>
      chk 143 (zl_eqb (map Z.of_nat (PyEnumCore.py_range_z n)) exp) ++
      chk 144 (zl_eqb (PyPath.py_range n) exp) ++ chk 145 (zl_eqb (PyMirpWrap.py_range n) exp) ++
      (if nonneg n then
         chk 142 (zl_eqb (map Z.of_nat (PyEnumCore.py_range (Z.to_nat n))) exp) ++
         chk 146 (zl_eqb (map Z.of_nat (PyHeurPath.py_nat_range (Z.to_nat n))) exp)
       else [])
  | LLen l exp => chk 149 (PyPath.py_len l =? Z.of_nat exp) ++ chk 150 (Nat.eqb (PyMirpWrap.py_len l) exp)
  | LZip a b exp =>
      chk 151 (list_eqb (pair_eqb Z.eqb Z.eqb) (PyReport.zip2 a b) exp) ++
      chk 152 (list_eqb (pair_eqb Z.eqb Z.eqb) (PyMirpWrap.py_zip a b) exp)
  | LZip3 a b c3 exp => chk 153 (list_eqb (pair_eqb (pair_eqb Z.eqb Z.eqb) Z.eqb) (PyReport.zip3 a b c3) exp)
  | LProduct a b exp => chk 154 (list_eqb (pair_eqb Z.eqb Z.eqb) (PySeqCons.py_product a b) exp)
  | LLast l exp => chk 155 (rz_eqb (snd (PyMirp.py_last l PyMirp.blank_state)) exp)
  | LMaxDefault l d exp => chk 156 (PyHeurPath.py_max_default l d =? exp)
  | LListMax l exp => chk 157 (result_eqb Nat.eqb (PyExport.list_max_r l) exp)
  | LAnyAll l ea el => chk 158 (Bool.eqb (PyEnumCore.py_any l) ea) ++ chk 159 (Bool.eqb (PyEnumCore.py_all l) el)
  | LGeScalar l x exp => chk 160 (bl_eqb (PyEnumCore.np_map_scalar (fun a b => b <=? a) l x) exp)
  | LTry x l cls exp =>
      chk 161 (rz_eqb (PyEnumCore.py_try (PyEnumCore.py_list_index Nat.eqb x l) (fun k => Ok (Z.of_nat k)) cls
                                         (Ok (-1)) (fun e => Err e)) exp)
  | LMapE l bad exp =>
      chk 163 (rzl_eqb (PyRoutes.py_mapE (f_mapE bad) l) exp) ++ chk 164 (rzl_eqb (PyHeurPath.py_map_list (f_mapE bad) l) exp)
  | LMapM l bad exp =>
      chk 195 (result_eqb (pair_eqb Z.eqb zl_eqb) (PyRoutes.py_mapM (f_mapM bad) l 0) exp)
  | LStrGet s k exp =>
      chk 165 (result_eqb Nat.eqb (match PyExport.str_get (str_of s) k with Ok ch => Ok (nat_of_ascii ch) | Err e => Err e end) exp)
  | LTupleOf o exp => chk 166 (rz_eqb (PyRoutes.py_tuple_of o) exp)
  | LFlatnonzero x exp =>
      chk 176 (nl_eqb (PyRoutes.np_flatnonzero x) exp) ++ chk 177 (nl_eqb (fst (PyRoutes.np_nonzero x)) exp)
  | LNpVecAug a i v eadd eset =>
      chk 173 (rzl_eqb (PySeqCons.np_vec_augitem Z.add a i v) eadd) ++ chk 174 (rzl_eqb (PySeqCons.np_vec_setitem a i v) eset)
  | LOnes n j exp =>
      chk 167 (rzl_eqb (match PyPath.np_ones 1 n with Ok v => Ok (PyPath.np_scale j v) | Err e => Err e end) exp)
  | LMatSet1 nr nc r c1 v exp =>
      chk 169 (rmat_eqb (match PyPath.mat_zeros nr nc with Ok M => PyPath.mat_set1 M r c1 v | Err e => Err e end) exp)
  | LMatSet nr nc rows cols v exp =>
      chk 170 (rmat_eqb (match PyPath.mat_zeros nr nc with Ok M => PyPath.mat_set_pairs M rows cols v | Err e => Err e end) exp)
  | LMaskRows M nc mask exp => chk 171 (rmat_eqb (PyPath.mat_mask_rows (PyPath.mkMat nc M) mask) exp)
  | LFor l c1 b1 b2 r o =>
      (match snd o with
       | None => chk 180 (zl_eqb (PyEnumCore.py_for (b_enum c1 b1 b2 r) l []) (fst o)) ++
                 chk 188 (if (existsb (fun x => (x =? c1) || (x =? b1) || (x =? b2)) l) then true
                          else zl_eqb (PyReport.for_each l (fun a x => snd (loop_step c1 b1 b2 r x a)) []) (fst o))
       | Some _ => []
       end) ++
      chk 181 (rzl_eqb (PyRoutes.py_forE (fun x => b_enumE (loop_step c1 b1 b2 r x)) l []) (obs_res o)) ++
      chk 182 (rzl_eqb (PySeqCons.py_forE (fun x => b_enumE (loop_step c1 b1 b2 r x)) l []) (obs_res o)) ++
      chk 183 (rzl_eqb (PyHeur.py_forM (fun x => b_enumE (loop_step c1 b1 b2 r x)) l []) (obs_res o)) ++
      chk 184 (pair_eqb zl_eqb opt_err_eqb (PyArcCons.py_forx (b_forx c1 b1 b2 r) l []) o) ++
      chk 185 (rzl_eqb (PyHeurPath.py_for l (fun x => b_lctl (loop_step c1 b1 b2 r x)) []) (obs_res o)) ++
      chk 190 (rzl_eqb (snd (PyMirp.for_each l (fun x => b_mirp (loop_step c1 b1 b2 r x)) [] PyMirp.blank_state)) (obs_res o)) ++
      chk 196 (rzl_eqb (snd (PyMirpWrap.for_each l (b_wrap c1 b1 b2 r) [] xs0)) (obs_res o))
  | LForRet l c1 b1 b2 r fell o =>
      chk 186 (match PyPath.for_each l (b_path c1 b1 b2 r) [] with
               | PyPath.Cont s => fell && zl_eqb s (fst o) && opt_err_eqb (snd o) None
               | PyPath.Stop x => negb fell && rzl_eqb x (obs_res o)
               end)
  | LForObj l r acc e =>
      let p := PyVrptw.for_each (b_vrptw r) l Vrptw.empty_graph in
      chk 187 (nl_eqb (Vrptw.names (fst p)) acc &&
               match snd p, e with Ok _, None => true | Err x, Some y => errcls_eqb x y | _, _ => false end) ++
      chk 189 (result_eqb nl_eqb (PyExport.for_each_r l (fun s x => if Nat.eqb x r then Err ValueError else Ok (s ++ [x])) [])
                          (match e with None => Ok acc | Some x => Err x end))
  | LWhile l c1 b1 b2 r o =>
      let fuel := S (S (length l)) in
      let ores := match snd o with None => Ok (fst o) | Some e => Err e end in
      let proj := fun x : result (nat * list Z) => match x with Ok s => Ok (snd s) | Err e => Err e end in
      chk 191 (rzl_eqb (proj (PyRoutes.py_whileE fuel (fun s => Ok (wcond_of l s)) (b_enumE (wstep_of l c1 b1 b2 r)) (O, []))) ores) ++
      chk 192 (rzl_eqb (proj (PyHeur.py_whileM fuel (wcond_of l) (b_enumE (wstep_of l c1 b1 b2 r)) (O, []))) ores) ++
      chk 193 (rzl_eqb (proj (PyHeurPath.py_while fuel (wcond_of l) (b_lctl (wstep_of l c1 b1 b2 r)) (O, []))) ores) ++
      (* `while True:` with the test as a leading `if not (i < len(l)): break` *)
      chk 194 (rzl_eqb (proj (snd (PyMirp.while_true fuel
                          (fun s => if wcond_of l s then b_mirp (wstep_of l c1 b1 b2 r) s else PyMirp.ret (PyMirp.Break s))
                          (O, []) PyMirp.blank_state))) ores)
  end.

(* ====================================================================================================
   Group `dicts`: insertion order, overwrite in place, views, update, clear, KeyError; dicts keyed by pairs
   (Base.dict), by triples (PySeq.tdict), by strings (PyReport / PyTestSet), by ints (Heur.kvdict); the 3-d
   integer array of PySeq.v (fill value + item assignments).
   ==================================================================================================== *)
Definition pk := (nat * nat)%type.
Definition pitems := list (pk * Z).
Definition pitems_eqb : pitems -> pitems -> bool := list_eqb (pair_eqb natpair_eqb Z.eqb).
Definition titems := list (Seq.tuple * Z).
Definition titems_eqb : titems -> titems -> bool := list_eqb (pair_eqb Seq.tuple_eqb Z.eqb).
Definition sitems := list (list nat * Z).       (* string keys as character codes *)

Inductive dcase :=
| DBuild (d0 : pitems) (ops : pitems) (items : pitems)     (* d = dict(d0); for k, v in ops: d[k] = v; list(d.items()) *)
| DUpdate (d0 : pitems) (kvs : pitems) (items : pitems)    (* d.update(kvs) *)
| DViews (d : pitems) (ks : list pk) (vs : list Z)         (* list(d.keys()), list(d.values()), list(d) *)
| DGet (d : pitems) (k : pk) (eget : result Z) (ein : bool)  (* d[k]; k in d *)
| DClear (d : pitems) (items : pitems)                     (* d.clear(); list(d.items()) *)
| DTBuild (ops : titems) (items : titems)                  (* keys are triples *)
| DTGet (d : titems) (k : Seq.tuple) (eget : result Z)
| DSBuild (ops : sitems) (items : sitems)                  (* keys are strings *)
| DSGet (d : sitems) (k : list nat) (eget : result Z)
| DKvGet (d : Heur.kvdict) (k : nat) (eget : result Z)     (* keys are ints *)
| DKvMin (d : Heur.kvdict) (emin : result nat) (ks : list nat) (vs : list Z) (truth : bool)
                                                           (* min(d, key=d.get); list(d.keys()); list(d.values()); bool(d) *)
| DNd3 (shape : Seq.tuple) (ops : titems) (qs : list Seq.tuple) (exp : list (result Z)).
                      (* a = -np.ones(shape, dtype=int); a[k] = z for (k, z) in ops (inside the shape); [a[q] for q in qs] *)

Definition build_p (d0 ops : pitems) : pitems := fold_left (fun d kv => dict_set (fst kv) (snd kv) d) ops d0.
Definition s_report (l : sitems) : PyReport.rdict := map (fun kv => (str_of (fst kv), PyReport.VInt (snd kv))) l.
Definition rval_z (v : PyReport.rval) : Z := match v with PyReport.VInt z => z | _ => -999 end.
Definition s_testset (l : sitems) : list (string * Z) := map (fun kv => (str_of (fst kv), snd kv)) l.
Definition sz_eqb : list (string * Z) -> list (string * Z) -> bool := list_eqb (pair_eqb String.eqb Z.eqb).
Definition tv_dict (l : sitems) : PyTestSet.tv :=
  PyTestSet.TDict (map (fun kv => (str_of (fst kv), PyTestSet.TInt (snd kv))) l).
Definition tv_int_res (r : result PyTestSet.tv) : result Z :=
  match r with Ok (PyTestSet.TInt z) => Ok z | Ok _ => Err OtherError | Err e => Err e end.

Definition check_dcase (c : dcase) : list nat :=
  match c with
  | DBuild d0 ops items =>
      chk 201 (pitems_eqb (build_p d0 ops) items) ++
      chk 202 (pitems_eqb (PyVrptw.dict_update ops d0) items)
  | DUpdate d0 kvs items => chk 202 (pitems_eqb (PyVrptw.dict_update kvs d0) items)
  | DViews d ks vs =>
      chk 203 (pitems_eqb (PyVrptw.dict_items d) d) ++
      chk 204 (list_eqb natpair_eqb (PyVrptw.dict_keys d) ks) ++ chk 205 (zl_eqb (PyVrptw.dict_values d) vs) ++
      chk 206 (list_eqb natpair_eqb (PyEnumCore.py_dict_keys d) ks) ++ chk 207 (zl_eqb (PyEnumCore.py_dict_values d) vs) ++
      chk 208 (pitems_eqb (PyRoutes.py_items d) d)
  | DGet d k eget ein =>
      chk 209 (rz_eqb (PyVrptw.py_dict_getitem k d) eget) ++ chk 210 (rz_eqb (PySeqCons.py_dict_getitem d k) eget) ++
      chk 211 (Bool.eqb (PyVrptw.dict_in k d) ein) ++ chk 212 (Bool.eqb (PyEnumCore.py_dict_contains k d) ein) ++
      chk 213 (Bool.eqb (dict_mem k d) ein)
  | DClear d items => chk 214 (pitems_eqb (@PyVrptw.dict_clear Z) items) ++ chk 214 (pitems_eqb (@PyVrptw.dict_new Z) items)
  | DTBuild ops items =>
      chk 215 (titems_eqb (fold_left (fun d kv => PySeq.py_tdict_set d (fst kv) (snd kv)) ops []) items)
  | DTGet d k eget => chk 216 (rz_eqb (PySeqCons.py_tdict_getitem d k) eget)
  | DSBuild ops items =>
      chk 217 (sz_eqb (map (fun kv => (fst kv, rval_z (snd kv)))
                           (fold_left (fun d kv => PyReport.dict_set d (fst kv) (snd kv)) (s_report ops) []))
                      (s_testset items)) ++
      chk 218 (sz_eqb (fold_left (fun d kv => PyTestSet.dict_set d (fst kv) (snd kv)) (s_testset ops) []) (s_testset items)) ++
      chk 221 (match fold_left (fun d kv => match d with
                                            | Ok dv => PyTestSet.t_setitem dv (PyTestSet.TStr (str_of (fst kv))) (PyTestSet.TInt (snd kv))
                                            | Err e => Err e end) ops (Ok (PyTestSet.TDict [])) with
               | Ok (PyTestSet.TDict kv) =>
                   sz_eqb (map (fun p => (fst p, match snd p with PyTestSet.TInt z => z | _ => -999 end)) kv) (s_testset items)
               | _ => false
               end)
  | DSGet d k eget =>
      chk 219 (rz_eqb (match PyReport.dict_get (s_report d) (str_of k) with Some v => Ok (rval_z v) | None => Err KeyError end) eget) ++
      chk 220 (rz_eqb (match PyTestSet.dict_get (s_testset d) (str_of k) with Some v => Ok v | None => Err KeyError end) eget) ++
      chk 222 (rz_eqb (tv_int_res (PyTestSet.t_subscript (tv_dict d) (PyTestSet.TStr (str_of k)))) eget)
  | DKvGet d k eget => chk 223 (rz_eqb (PyHeurPath.py_kv_getitem d k) eget)
  | DKvMin d emin ks vs truth =>
      chk 224 (result_eqb Nat.eqb (PyHeurPath.py_min_key d) emin) ++
      chk 225 (nl_eqb (PyHeurPath.kv_keys d) ks && zl_eqb (PyHeurPath.kv_values d) vs) ++
      chk 226 (Bool.eqb (PyHeurPath.py_dict_truth d) truth)
  | DNd3 shape ops qs exp =>
      let a := fold_left (fun a kv => PySeq.py_nd3_set a (fst kv) (snd kv)) ops (PySeq.np_neg3 (PySeq.np_ones3 shape)) in
      chk 227 (list_eqb rz_eqb (map (PySeq.py_nd3_get a) qs) exp)
  end.

(* ====================================================================================================
   Group `sorting`: np.lexsort (stable; LAST key is the primary one), np.flip, .T, np.array of rows / None,
   np.sort, np.unique, list.sort() / list.sort(key=..) (stable), sorted(set(l)), np.argmax of booleans.
   ==================================================================================================== *)
Inductive scase :=
| SPipeline (rows : list (option (list Z))) (exp : result (list nat))
      (* list(np.lexsort(np.flip(np.array(rows), -1).T)) -- the expression of both get_routes methods *)
| SLexKeys (keys : list (list Z)) (exp : list nat)                  (* np.lexsort(np.array(keys)).tolist(), >= 1 key *)
| SFlipT (rows : list (list Z)) (f0 f1 tr : list (list Z))          (* np.flip(a, 0), np.flip(a, -1), a.T (non-empty a) *)
| SSort (l : list Z) (esort euniq eset : list Z)                    (* np.sort(l), np.unique(l), sorted(set(l)) *)
| SSortKey (l : list (nat * Z)) (exp : list (nat * Z))              (* l.sort(key=lambda p: p[1]) *)
| SSortKeyExt (l : list (nat * ext)) (exp : list (nat * ext))       (* the same with float keys that may be inf *)
| SArgmax (l : list bool) (exp : nat).                              (* np.argmax(l), l non-empty *)

Definition nd_rows (a : PyRoutes.ndarray2) : list (list Z) :=
  match a with PyRoutes.Nd2 r => r | PyRoutes.NdObj _ => [[-999]] end.

Definition check_scase (c : scase) : list nat :=
  match c with
  | SPipeline rows exp =>
      chk 301 (result_eqb nl_eqb
                 (PyRoutes.py_bind (PyRoutes.np_array_rows rows) (fun a =>
                  PyRoutes.py_bind (PyRoutes.np_lexsort (PyRoutes.np_T (PyRoutes.np_flip a (-1)))) PyRoutes.np_iter)) exp)
  | SLexKeys keys exp =>
      chk 302 (nl_eqb (PyRoutes.lexsort_idx keys) exp) ++
      chk 302 (result_eqb nl_eqb (PyRoutes.py_bind (PyRoutes.np_lexsort (PyRoutes.Nd2 keys)) PyRoutes.np_iter) (Ok exp))
  | SFlipT rows f0 f1 tr =>
      chk 303 (zll_eqb (nd_rows (PyRoutes.np_flip (PyRoutes.Nd2 rows) 0)) f0) ++
      chk 303 (zll_eqb (nd_rows (PyRoutes.np_flip (PyRoutes.Nd2 rows) (-1))) f1) ++
      chk 304 (zll_eqb (nd_rows (PyRoutes.np_T (PyRoutes.Nd2 rows))) tr)
  | SSort l esort euniq eset =>
      chk 305 (zl_eqb (PyArc.np_sort l) esort) ++ chk 306 (zl_eqb (PyArc.np_unique l) euniq) ++
      (* np.unique(d).size is all the report reads: the model keeps first occurrences, unsorted *)
      chk 307 (Nat.eqb (length (PyReport.py_unique l)) (length euniq) && zl_eqb (Arc.sortZ (PyReport.py_unique l)) euniq) ++
      chk 308 (zl_eqb (PyMirpWrap.py_sort l) esort) ++
      chk 309 (zl_eqb (PyMirpWrap.py_sort (PyMirpWrap.py_list (PyMirpWrap.py_set l))) eset)
  | SSortKey l exp =>
      chk 310 (list_eqb (pair_eqb Nat.eqb Z.eqb) (PyHeur.py_list_sort_key Z.ltb (fun p : nat * Z => snd p) l) exp)
  | SSortKeyExt l exp =>
      chk 311 (list_eqb (pair_eqb Nat.eqb ext_eqb) (PyHeur.py_list_sort_key PyEnumCore.ext_ltb (fun p : nat * ext => snd p) l) exp)
  | SArgmax l exp => chk 312 (Nat.eqb (PyEnumCore.np_argmax_bool l) exp)
  end.

(* ====================================================================================================
   Group `sparse`: scipy.sparse containers at their dense meaning (duplicates summed, explicit zeros),
   diagonal / setdiag / tril / triu / transpose / dot / sum(axis) / diags, nnz, sp.find (as a sorted set),
   and the dynamically typed matrix values of PyMat.v / PyTestSet.v.
   ==================================================================================================== *)
Definition zrows := list (list Z).
Definition ent_of (A : zrows) : nat -> nat -> Z := fun i j => nth j (nth i A []) 0.
Definition vec_fn (l : list Z) : nat -> Z := fun i => nth i l 0.
Definition rows_of (r c : nat) (M : nat -> nat -> Z) : zrows := map (fun i => map (fun j => M i j) (seq 0 c)) (seq 0 r).
Definition list_of (n : nat) (v : nat -> Z) : list Z := map v (seq 0 n).

(* PyQubo over the carrier Z (the constants 0.5 / 0.25 and astype(int) are not exercised here) *)
Definition zops : PyQubo.ops Z := PyQubo.mkops 0 1 Z.add Z.mul Z.sub Z.opp 0 0 (fun x => x).
Definition pm (A : zrows) (nc : nat) : PyQubo.pmat Z := PyQubo.mkmat (length A, nc) (ent_of A).
Definition pv (l : list Z) : PyQubo.pvec Z := PyQubo.mkvec (length l) (vec_fn l).
Definition pm_rows (M : PyQubo.pmat Z) : zrows := rows_of (PyQubo.rows M) (PyQubo.cols M) (PyQubo.ent M).
Definition pv_list (v : PyQubo.pvec Z) : list Z := list_of (PyQubo.vlen v) (PyQubo.vent v).
Definition pm_is (M : PyQubo.pmat Z) (e : zrows) (nc : nat) : bool :=
  zll_eqb (pm_rows M) e && Nat.eqb (PyQubo.rows M) (length e) && Nat.eqb (PyQubo.cols M) nc.

(* observation of a PyMat value *)
Inductive oval := ONone | OBool (b : bool) | ONum (z : Z) | OVec (l : list Z) | OMat (rows : zrows) (nc : nat).
Definition oval_eqb (a b : oval) : bool :=
  match a, b with
  | ONone, ONone => true
  | OBool x, OBool y => Bool.eqb x y
  | ONum x, ONum y => x =? y
  | OVec x, OVec y => zl_eqb x y
  | OMat x c, OMat y d => zll_eqb x y && Nat.eqb c d && Nat.eqb (length x) (length y)
  | _, _ => false
  end.
Definition to_val (o : oval) : PyMat.val Z :=
  match o with
  | ONone => PyMat.VNone | OBool b => PyMat.VBool b | ONum z => PyMat.Scal z
  | OVec l => PyMat.Vec (length l) (vec_fn l) | OMat A c => PyMat.Mat (length A) c (ent_of A)
  end.
Definition of_val (v : PyMat.val Z) : oval :=
  match v with
  | PyMat.VNone => ONone | PyMat.VBool b => OBool b | PyMat.Scal z => ONum z
  | PyMat.Vec n f => OVec (list_of n f) | PyMat.Mat r c M => OMat (rows_of r c M) c
  | _ => ONone
  end.
Definition rov_eqb (r : result (PyMat.val Z)) (e : result oval) : bool :=
  match r, e with Ok v, Ok o => oval_eqb (of_val v) o | Err x, Err y => errcls_eqb x y | _, _ => false end.
Definition tv_obs (r : result PyTestSet.tv) : result (PyMat.val Z) :=
  match r with Ok (PyTestSet.TV v) => Ok v | Ok (PyTestSet.TInt z) => Ok (PyMat.Scal z) | Ok _ => Err OtherError | Err e => Err e end.

Definition qtrip := (nat * nat * Q)%type.
Definition qtrip_eqb (a b : qtrip) : bool :=
  Nat.eqb (fst (fst a)) (fst (fst b)) && Nat.eqb (snd (fst a)) (snd (fst b)) && q_eqb (snd a) (snd b).

Inductive pcase :=
| PCooArc (vals rows cols : list Z) (shape : nat * nat) (x : list Z) (dense : zrows) (ax : list Z)
      (* sparse.coo_array((vals, (rows, cols)), shape).toarray(), A.dot(x); indices inside the shape *)
| PCooSeq (vals : list Z) (rows cols : list (option Z)) (shape : nat * nat) (exp : result zrows)
      (* the same with bad lengths / indices outside the shape / None indices: exception class, else .toarray() *)
| PCooExport (data : list Z) (row col : list nat) (n : nat) (dense : zrows) (nnz_elim : Z) (nnz_coo : nat)
      (* square n x n: .toarray(); csr .nnz after eliminate_zeros(); coo .nnz (stored entries) *)
| PFind (n : nat) (A : list (list Q)) (trips : list qtrip) (diag : list Q)
      (* the triples of sp.find(A) sorted by (row, col); A.diagonal() for a square sparse A *)
| PQubo (A : zrows) (nc : nat) (k c : Z)
        (diag : list Z) (tr : zrows) (sd : zrows) (tl tu : zrows) (s0 s1 : list Z) (s : Z) (cm : zrows) (neg : zrows)
      (* A.diagonal(), A.transpose(), setdiag(c), sp.tril(A, k), sp.triu(A, k), A.sum(0), A.sum(1), A.sum(), c * A, -A *)
| PQubo2 (A B : zrows) (nc : nat) (eadd esub : zrows)                (* A + B, A - B (same shape) *)
| PQuboV (A : zrows) (v u : list Z) (c : Z) (mdot : list Z) (dg : zrows) (vd vs : Z) (ops : list (list Z))
      (* A.dot(v), sp.diags(v), u.dot(v), v.sum(); [u+v, u-v, -v, c*v, v*c, c+v, c-v, v+c, v-c] (len u = len v = cols A) *)
| PMat1 (op : nat) (a : oval) (exp : result oval)
      (* op 0 transpose, 1 sparse.diags, 2 -a, 3 np.atleast_1d, 4 np.fabs, 5 float, 6 len, 7 a ** 2, 8 a ** 3 *)
| PMat2 (op : nat) (a b : oval) (exp : result oval)
      (* op 0 a.dot(b), 1 a + b, 2 a - b, 3 a * b *)
| PSum (l : list Z) (exp : Z)                                         (* sum(iterable of numbers) *)
| PTDot (r c : nat) (es : list (nat * nat * Z)) (b : oval) (exp : result oval) (dense : zrows).
      (* coo container with stored entries es: .dot(b); its dense meaning *)

Definition check_pcase (c : pcase) : list nat :=
  match c with
  | PCooArc vals rows cols shape x dense ax =>
      let M := PyArcCons.sparse_coo_array vals rows cols shape in
      chk 401 (zll_eqb (PyArcCons.mdense (PyArcCons.np_toarray M)) dense) ++
      chk 402 (zl_eqb (PyArcCons.mat_vec M x) ax) ++
      chk 403 (zll_eqb (PyArcCons.mdense (PyArcCons.sparse_csr_zeros shape)) (map (map (fun _ => 0)) dense))
  | PCooSeq vals rows cols shape exp =>
      chk 404 (result_eqb zll_eqb
                 (match PySeqCons.sp_coo_array vals rows cols shape with
                  | Ok m => Ok (rows_of (fst shape) (snd shape) (PySeqCons.mat_dense (PySeqCons.sp_toarray (PySeqCons.sp_csr_array m))))
                  | Err e => Err e end) exp)
  | PCooExport data row col n dense nnz_elim nnz_coo =>
      let t := PyExport.py_coo_array data row col n n in
      chk 405 (zll_eqb (rows_of (fst (fst t)) (snd (fst t)) (snd t)) dense) ++
      chk 409 (Report.nnz n (snd t) =? nnz_elim) ++
      chk 410 (rov_eqb (tv_obs (PyTestSet.t_getattr (PyTestSet.TSparse n n (PyReport.zip3 row col data)) "nnz"))
                       (Ok (ONum (Z.of_nat nnz_coo))))
  | PFind n A trips diag =>
      let M := Export.qmat_of A in
      let f := PyExport.sp_find n M in
      chk 406 (list_eqb qtrip_eqb (combine (combine (fst (fst f)) (snd (fst f))) (snd f)) trips) ++
      chk 407 (ql_eqb (map (PyExport.qdiag M) (seq 0 n)) diag)
  | PQubo A nc k c1 diag tr sd tl tu s0 s1 s cm neg =>
      let M := pm A nc in
      chk 411 (zl_eqb (pv_list (PyQubo.diagonal M)) diag) ++
      chk 408 (if Nat.eqb (length A) nc then zl_eqb (PyReport.py_diagonal nc (ent_of A)) diag else true) ++
      chk 412 (pm_is (PyQubo.mtranspose M) tr (length A)) ++
      chk 413 (pm_is (PyQubo.setdiag c1 M) sd nc) ++
      chk 414 (pm_is (PyQubo.tril zops k M) tl nc) ++ chk 415 (pm_is (PyQubo.triu zops k M) tu nc) ++
      chk 416 (zl_eqb (pv_list (PyQubo.msum0 zops M)) s0) ++ chk 417 (zl_eqb (pv_list (PyQubo.msum1 zops M)) s1) ++
      chk 418 (PyQubo.msum zops M =? s) ++
      chk 419 (pm_is (PyQubo.mscal zops c1 M) cm nc) ++ chk 420 (pm_is (PyQubo.mscal_r zops M c1) cm nc) ++
      chk 421 (pm_is (PyQubo.mneg zops M) neg nc) ++
      chk 422 (pm_is (PyQubo.eliminate_zeros (PyQubo.to_format (PyQubo.as_sparse M))) A nc)
  | PQubo2 A B nc eadd esub =>
      chk 423 (pm_is (PyQubo.madd zops (pm A nc) (pm B nc)) eadd nc) ++ chk 424 (pm_is (PyQubo.msub zops (pm A nc) (pm B nc)) esub nc)
  | PQuboV A v u c1 mdot dg vd vs ops =>
      let n := length v in
      chk 425 (zl_eqb (pv_list (PyQubo.mdot zops (pm A n) (pv v))) mdot) ++
      chk 426 (pm_is (PyQubo.diags zops (pv v)) dg n) ++
      chk 427 (PyQubo.vdot zops (pv u) (pv v) =? vd) ++ chk 428 (PyQubo.vsum zops (pv v) =? vs) ++
      chk 429 (list_eqb zl_eqb
                 (map pv_list [PyQubo.vadd zops (pv u) (pv v); PyQubo.vsub zops (pv u) (pv v); PyQubo.vneg zops (pv v);
                               PyQubo.vscal zops c1 (pv v); PyQubo.vscal_r zops (pv v) c1;
                               PyQubo.svadd zops c1 (pv v); PyQubo.svsub zops c1 (pv v);
                               PyQubo.vsadd zops (pv v) c1; PyQubo.vssub zops (pv v) c1]) ops)
  | PMat1 op a exp =>
      let v := to_val a in
      match op with
      | 0%nat => chk 436 (rov_eqb (PyMat.py_transpose PyMat.Zops v) exp)
      | 1%nat => chk 441 (rov_eqb (PyMat.py_diags PyMat.Zops v) exp)
      | 2%nat => chk 445 (rov_eqb (PyMat.py_neg PyMat.Zops v) exp)
      | 3%nat => chk 447 (rov_eqb (PyMat.py_atleast_1d PyMat.Zops v) exp)
      | 4%nat => chk 448 (rov_eqb (PyMat.py_fabs PyMat.Zops v) exp)
      | 5%nat => chk 453 (rov_eqb (PyMat.py_float PyMat.Zops v) exp)
      | 6%nat => chk 449 (rov_eqb (PyMat.py_len PyMat.Zops v) exp)
      | 7%nat => chk 446 (rov_eqb (PyMat.py_pow PyMat.Zops v 2) exp)
      | _ => chk 446 (rov_eqb (PyMat.py_pow PyMat.Zops v 3) exp)
      end
  | PMat2 op a b exp =>
      let va := to_val a in let vb := to_val b in
      match op with
      | 0%nat => chk 437 (rov_eqb (PyMat.py_dot PyMat.Zops va vb) exp) ++
                 chk 452 (rov_eqb (tv_obs (PyTestSet.np_dot (PyTestSet.TV va) (PyTestSet.TV vb))) exp) ++
                 chk 451 (rov_eqb (tv_obs (PyTestSet.t_dot (PyTestSet.TV va) (PyTestSet.TV vb))) exp)
      | 1%nat => chk 442 (rov_eqb (PyMat.py_add PyMat.Zops va vb) exp)
      | 2%nat => chk 443 (rov_eqb (PyMat.py_sub PyMat.Zops va vb) exp)
      | _ => chk 444 (rov_eqb (PyMat.py_mul PyMat.Zops va vb) exp)
      end
  | PSum l exp => chk 450 (rov_eqb (PyMat.py_sum PyMat.Zops (map (fun z => PyMat.Scal z) l)) (Ok (ONum exp)))
  | PTDot r c1 es b exp dense =>
      chk 451 (rov_eqb (tv_obs (PyTestSet.t_dot (PyTestSet.TSparse r c1 es) (PyTestSet.TV (to_val b)))) exp) ++
      chk 454 (zll_eqb (rows_of r c1 (Export.coo_dense es)) dense)
  end.

(* ====================================================================================================
   Group `numbers`: comparisons with inf, max / min, inf + x, np.isinf, np.ceil / np.floor / int() on exact
   rationals, np.arange, int(text) / float(text) on the export formats, '{: .2f}' / '{:.2f}' / '{:d}' / str(int),
   format(v, '0<w>b'), exact-number comparisons / abs / division / min / max of the MIRP code.
   ==================================================================================================== *)
Definition codes_of (s : string) : list nat := map nat_of_ascii (PyTestSet.str_chars s).
Definition str_is (s : string) (c : list nat) : bool := nl_eqb (codes_of s) c.
Definition rq_eqb : result Q -> result Q -> bool := result_eqb q_eqb.

Inductive ncase :=
| NCmp (a b : ext) (le lt ge gt eq ne : bool)                      (* a <= b, a < b, a >= b, a > b, a == b, a != b *)
| NMaxMin (a b emax emin : ext)                                    (* max(a, b), min(a, b) *)
| NPlus (a : ext) (z : Z) (esum : ext) (isinf : bool)              (* a + z, np.isinf(a) *)
| NRound (x : Q) (ec ef et : Z)                                    (* np.ceil(x), np.floor(x), int(x) *)
| NArange (a b : Z) (exp : list Z)                                 (* np.arange(float(a), float(b)).tolist() *)
| NParseInt (s : list nat) (exp : result nat)                      (* int(s) *)
| NParseFloat (s : list nat) (exp : result Z)                      (* round(float(s) * 100) -- the value in hundredths *)
| NFmt (x : Q) (sp pl : list nat)                                  (* f"{x: .2f}", f"{x:.2f}" *)
| NFmtInt (i : nat) (z : Z) (si sz : list nat)                     (* f"{i:d}", str(z) *)
| NFormat0b (w v : nat) (digits : list bool)                       (* [int(s) for s in format(v, '0{}b'.format(w))] *)
| NQCmp (a b : Q) (gt lt le ge eq ne : bool) (eabs : Q) (ediv : result Q)   (* a > b, ..., np.fabs(a), a / b *)
| NQExt (a : Mirp.qext) (b : Q) (le gt ge eq ne isinf : bool)      (* a <= b, a > b, a >= b, a == b, a != b, np.isinf(a) *)
| NQMinMax (l : list Q) (emin emax : result Q).                    (* min(l), max(l) *)

Definition check_ncase (c : ncase) : list nat :=
  match c with
  | NCmp a b le lt ge gt eq ne =>
      chk 501 (Bool.eqb (ext_leb a b) le) ++ chk 502 (Bool.eqb (PyEnumCore.ext_ltb a b) lt) ++
      chk 503 (Bool.eqb (PyEnumCore.ext_gtb a b) gt) ++ chk 504 (Bool.eqb (PyEnumCore.ext_geb a b) ge) ++
      chk 505 (Bool.eqb (PyEnumCore.ext_neb a b) ne) ++ chk 506 (Bool.eqb (ext_eqb a b) eq) ++
      chk 507 (Bool.eqb (PyVrptw.fl_le a b) le) ++ chk 508 (Bool.eqb (PyVrptw.fl_lt a b) lt) ++
      chk 509 (Bool.eqb (PyVrptw.fl_ge a b) ge) ++ chk 510 (Bool.eqb (PyVrptw.fl_gt a b) gt) ++
      chk 511 (Bool.eqb (PyVrptw.fl_eq a b) eq) ++ chk 512 (Bool.eqb (PyVrptw.fl_ne a b) ne) ++
      chk 513 (Bool.eqb (PyPath.ext_ltb a b) lt) ++ chk 514 (Bool.eqb (PyPath.ext_gtb a b) gt) ++
      chk 515 (Bool.eqb (PyPath.ext_geb a b) ge)
  | NMaxMin a b emax emin =>
      chk 516 (ext_eqb (PyEnumCore.ext_max a b) emax) ++ chk 517 (ext_eqb (PyEnumCore.ext_min a b) emin)
  | NPlus a z esum isinf =>
      chk 518 (ext_eqb (PyVrptw.fl_plus a z) esum) ++ chk 519 (Bool.eqb (PyVrptw.fl_isinf a) isinf) ++
      chk 550 (match a with Fin x => result_eqb Z.eqb (PyHeur.py_finite a) (Ok x) | PInf => true end)
  | NRound x ec ef et =>
      chk 520 (PyMirpWrap.np_ceil x =? ec) ++ chk 521 (PyMirpWrap.np_floor x =? ef) ++ chk 522 (PyMirpWrap.py_int x =? et) ++
      chk 523 (PyMirpWrap.np_floor_ext (Mirp.QFin x) =? ef)
  | NArange a b exp => chk 524 (zl_eqb (PyMirpWrap.np_tolist (PyMirpWrap.np_arange a b)) exp)
  | NParseInt s exp => chk 525 (result_eqb Nat.eqb (PyExport.py_int (str_of s)) exp)
  | NParseFloat s exp => chk 526 (rz_eqb (PyExport.py_float (str_of s)) exp)
  | NFmt x sp pl => chk 527 (str_is (Export.fmt2 true x) sp) ++ chk 528 (str_is (Export.fmt2 false x) pl)
  | NFmtInt i z si sz => chk 529 (str_is (Export.print_nat i) si) ++
                         chk 531 (result_eqb nl_eqb (match PyTestSet.t_str (PyTestSet.TInt z) with Ok t => Ok (codes_of t) | Err e => Err e end) (Ok sz))
  | NFormat0b w v digits => chk 530 (bl_eqb (map PyReport.int_of_digit (PyReport.format_0b w v)) digits)
  | NQCmp a b gt lt le ge eq ne eabs ediv =>
      chk 532 (Bool.eqb (PyMirp.q_gt a b) gt) ++ chk 533 (Bool.eqb (PyMirp.q_lt a b) lt) ++
      chk 534 (Bool.eqb (PyMirp.q_le a b) le) ++ chk 535 (Bool.eqb (PyMirp.q_ge a b) ge) ++
      chk 536 (Bool.eqb (PyMirp.q_eq a b) eq) ++ chk 537 (Bool.eqb (PyMirp.q_ne a b) ne) ++
      chk 538 (q_eqb (PyMirp.np_fabs a) eabs) ++
      chk 539 (rq_eqb (snd (PyMirp.q_div a b PyMirp.blank_state)) ediv) ++
      chk 540 (rq_eqb (snd (PyMirpWrap.q_div a b xs0)) ediv)
  | NQExt a b le gt ge eq ne isinf =>
      chk 541 (Bool.eqb (PyMirp.ext_le_q a b) le) ++ chk 542 (Bool.eqb (PyMirp.ext_gt_q a b) gt) ++
      chk 543 (Bool.eqb (PyMirp.ext_ge_q a b) ge) ++ chk 544 (Bool.eqb (PyMirp.ext_eq_q a b) eq) ++
      chk 545 (Bool.eqb (PyMirp.ext_ne_q a b) ne) ++ chk 546 (Bool.eqb (PyMirpWrap.np_isinf a) isinf)
  | NQMinMax l emin emax =>
      chk 547 (rq_eqb (snd (PyMirp.py_min_m l PyMirp.blank_state)) emin) ++
      chk 548 (rq_eqb (snd (PyMirp.py_max_m l PyMirp.blank_state)) emax) ++
      chk 547 (rq_eqb (snd (PyMirpWrap.py_min_m l xs0)) emin) ++ chk 548 (rq_eqb (snd (PyMirpWrap.py_max_m l xs0)) emax)
  end.

(* ====================================================================================================
   Group `truthiness`: bool(x) / `if x:` / not / and / or / `is None` / `is True` as the combinators model them.
   A Python value is described by `pyv`; PNpBool is a numpy bool (read by the models as a bool).
   ==================================================================================================== *)
Inductive pyv := PNone | PBool (b : bool) | PNpBool (b : bool) | PNum (z : Z) | PList (n : nat) | PDict (n : nat)
               | PVecv (l : list Z) | PStr (s : list nat) | PTuple (n : nat).
Definition pyv_mat (v : pyv) : option (PyMat.val Z) :=
  match v with
  | PNone => Some PyMat.VNone | PBool b | PNpBool b => Some (PyMat.VBool b) | PNum z => Some (PyMat.Scal z)
  | PList n => Some (PyMat.VList (repeat PyMat.VNone n)) | PDict n => Some (PyMat.VDict (repeat (PyMat.VNone, PyMat.VNone) n))
  | PVecv l => Some (PyMat.Vec (length l) (vec_fn l)) | _ => None
  end.
Definition pyv_tv (v : pyv) : option PyTestSet.tv :=
  match v with
  | PNone => Some PyTestSet.tnone | PBool b | PNpBool b => Some (PyTestSet.tbool b) | PNum z => Some (PyTestSet.tnum z)
  | PList n => Some (PyTestSet.TList (repeat PyTestSet.tnone n)) | PTuple n => Some (PyTestSet.TTuple (repeat PyTestSet.tnone n))
  | PDict n => Some (PyTestSet.TDict (repeat (EmptyString, PyTestSet.tnone) n))
  | PStr s => Some (PyTestSet.TStr (str_of s)) | PVecv _ => None
  end.
Definition rb_eqb : result bool -> result bool -> bool := result_eqb Bool.eqb.
Definition vbool_res (r : result (PyMat.val Z)) : result bool :=
  match r with Ok (PyMat.VBool b) => Ok b | Ok _ => Err OtherError | Err e => Err e end.

Inductive tcase :=
| TTruth (v : pyv) (exp : result bool) (isnone : bool)          (* bool(v); v is None *)
| TIsBool (v : pyv) (ist isf : bool)                            (* v is True, v is False *)
| TAndOr (a : pyv) (and_first or_first : result bool)           (* (a and m) is a ; (a or m) is a, m a marker object; Err: bool(a) raised *)
| TIntNone (x : option nat) (k : bool) (eand eor : bool)        (* bool(x and k), bool(x or k) for x an int or None *)
| TIntTruth (z : Z) (et : bool).                                (* bool(z) for a Python int / numpy int / float *)

Definition check_tcase (c : tcase) : list nat :=
  match c with
  | TTruth v exp isnone =>
      match pyv_mat v with
      | Some m =>
          chk 600 (rb_eqb (PyMat.py_truth PyMat.Zops m) exp) ++
          chk 602 (rb_eqb (vbool_res (PyMat.py_not PyMat.Zops m)) (match exp with Ok b => Ok (negb b) | Err e => Err e end)) ++
          chk 603 (rz_eqb (@PyMat.e_if PyMat.Zops Z (Ok m) (Ok 1) (Ok 2)) (match exp with Ok b => Ok (if b then 1 else 2) | Err e => Err e end)) ++
          chk 606 (rb_eqb (vbool_res (PyMat.py_is_none PyMat.Zops m)) (Ok isnone))
      | None => []
      end ++
      match pyv_tv v with
      | Some t => chk 601 (rb_eqb (PyTestSet.t_truth t) exp) ++
                  chk 608 (rb_eqb (match PyTestSet.p_not t [] with (_, Ok (PyTestSet.TV (PyMat.VBool b))) => Ok b
                                   | (_, Ok _) => Err OtherError | (_, Err e) => Err e end)
                                  (match exp with Ok b => Ok (negb b) | Err e => Err e end))
      | None => []
      end ++
      match v with
      | PNone => chk 609 (PyReport.is_none (@None Z) && PySeqCons.py_is_none (@None Z) && PyMirpWrap.is_none (@None Z))
      | PNum z => chk 609 (negb (PyReport.is_none (Some z)) && negb (PySeqCons.py_is_none (Some z)) && PyMirpWrap.is_not_none (Some z))
      | _ => []
      end
  | TIsBool v ist isf =>
      match pyv_mat v with
      | Some m => chk 607 (rb_eqb (vbool_res (PyMat.py_is_bool PyMat.Zops true m)) (Ok ist)) ++
                  chk 607 (rb_eqb (vbool_res (PyMat.py_is_bool PyMat.Zops false m)) (Ok isf))
      | None => []
      end
  | TAndOr a and_first or_first =>
      match pyv_mat a with
      | Some x =>
          (* the second operand is the marker 111 (never generated as a first operand) *)
          let first (r : result (PyMat.val Z)) : result bool :=
            match r with Ok v => Ok (negb (oval_eqb (of_val v) (ONum 111))) | Err e => Err e end in
          chk 604 (rb_eqb (first (@PyMat.e_and PyMat.Zops (Ok x) (Ok (PyMat.Scal 111)))) and_first) ++
          chk 605 (rb_eqb (first (@PyMat.e_or PyMat.Zops (Ok x) (Ok (PyMat.Scal 111)))) or_first)
      | None => []
      end
  | TIntNone x k eand eor =>
      chk 610 (Bool.eqb (PyRoutes.py_and_optnat x (fun _ => k)) eand) ++ chk 611 (Bool.eqb (PyRoutes.py_or_optnat x k) eor)
  | TIntTruth z et =>
      chk 600 (rb_eqb (PyMat.py_truth PyMat.Zops (PyMat.Scal z)) (Ok et)) ++
      chk 601 (rb_eqb (PyTestSet.t_truth (PyTestSet.TInt z)) (Ok et)) ++ chk 601 (rb_eqb (PyTestSet.t_truth (PyTestSet.tnum z)) (Ok et))
  end.

(* ====================================================================================================
   Group `strings`: the dynamically typed value universe of PyTestSet.v (test_feasibility.py, generate_test_set.py):
   str.split / join, os.path.join / splitext, len, iteration, zip, unpacking, == / != with numpy broadcasting,
   sum, .item(0), + - * on ints / floats / arrays / strings, subscripts, int(), issparse, order comparisons, `in`.
   One case = an operation number, its argument values and the value (or exception class) Python produced.
   ==================================================================================================== *)
Fixpoint tv_eqb (a b : PyTestSet.tv) : bool :=
  let fix go (l m : list PyTestSet.tv) : bool :=
    match l, m with
    | [], [] => true
    | x :: l', y :: m' => tv_eqb x y && go l' m'
    | _, _ => false
    end in
  match a, b with
  | PyTestSet.TInt x, PyTestSet.TInt y => x =? y
  | PyTestSet.TStr x, PyTestSet.TStr y => String.eqb x y
  | PyTestSet.TBools x, PyTestSet.TBools y => bl_eqb x y
  | PyTestSet.TV x, PyTestSet.TV y => oval_eqb (of_val x) (of_val y)
  | PyTestSet.TList x, PyTestSet.TList y => go x y
  | PyTestSet.TTuple x, PyTestSet.TTuple y => go x y
  | _, _ => false
  end.

Definition x_apply (op : nat) (args : list PyTestSet.tv) : result PyTestSet.tv :=
  match op, args with
  | 0%nat, [a; b] => PyTestSet.t_split a b                                       (* a.split(b) *)
  | 1%nat, [a; b] => PyTestSet.t_join a b                                        (* a.join(b) *)
  | 2%nat, [PyTestSet.TStr a; PyTestSet.TStr b] => Ok (PyTestSet.TStr (PyTestSet.path_join a b))      (* os.path.join *)
  | 3%nat, [PyTestSet.TStr f] =>                                                 (* os.path.splitext *)
      Ok (PyTestSet.TTuple [PyTestSet.TStr (fst (PyTestSet.path_splitext f)); PyTestSet.TStr (snd (PyTestSet.path_splitext f))])
  | 4%nat, [a] => PyTestSet.t_len a
  | 5%nat, [a] => PyTestSet.rmap PyTestSet.TList (PyTestSet.t_iter a)            (* list(a) *)
  | 6%nat, [a; b] => PyTestSet.t_zip a b                                         (* list(zip(a, b)) *)
  | 7%nat, [a] => PyTestSet.rmap PyTestSet.TList (PyTestSet.t_unpack 2 a)        (* p, q = a *)
  | 8%nat, [a] => PyTestSet.rmap PyTestSet.TList (PyTestSet.t_unpack 3 a)
  | 9%nat, [a; b] => PyTestSet.t_eq a b
  | 10%nat, [a; b] => PyTestSet.t_ne a b
  | 11%nat, [a] => PyTestSet.t_sum a
  | 12%nat, [a] => PyTestSet.t_item0 a                                           (* a.item(0) *)
  | 13%nat, [a; b] => PyTestSet.t_add a b
  | 14%nat, [a; b] => PyTestSet.t_sub a b
  | 15%nat, [a; b] => PyTestSet.t_mul a b
  | 16%nat, [a] => PyTestSet.t_neg a
  | 17%nat, [a; b] => PyTestSet.t_subscript a b
  | 18%nat, [a] => PyTestSet.t_int a
  | 19%nat, [a] => PyTestSet.t_issparse a
  | 20%nat, [a; b] => PyTestSet.t_lt a b
  | 21%nat, [a; b] => PyTestSet.t_le a b
  | 22%nat, [a; b] => PyTestSet.t_gt a b
  | 23%nat, [a; b] => PyTestSet.t_ge a b
  | 24%nat, [PyTestSet.TStr x; PyTestSet.TList l] =>                              (* x in [strings] *)
      match PyTestSet.strs_of l with Ok ss => Ok (PyTestSet.tbool (PyTestSet.str_mem x ss)) | Err e => Err e end
  | 25%nat, [PyTestSet.TStr x] => Ok (PyTestSet.TList (map PyTestSet.TStr (Export.split_ws x)))   (* x.split() *)
  | _, _ => Err OtherError
  end.

Inductive xcase := XOp (op : nat) (args : list PyTestSet.tv) (exp : result PyTestSet.tv).
Definition check_xcase (c : xcase) : list nat :=
  match c with XOp op args exp => chk (700 + op) (result_eqb tv_eqb (x_apply op args) exp) end.

(* ---------- one case type for a whole check (one coqc call) ---------- *)
Inductive case := CL (c : lcase) | CD (c : dcase) | CS (c : scase) | CP (c : pcase) | CN (c : ncase) | CT (c : tcase) | CX (c : xcase).
Definition check_case (c : case) : list nat :=
  match c with
  | CL x => check_lcase x | CD x => check_dcase x | CS x => check_scase x
  | CP x => check_pcase x | CN x => check_ncase x | CT x => check_tcase x | CX x => check_xcase x
  end.
