(* Compose_facts.v -- glue between the get_qubo model (Penalty.v: matrices and vectors as functions
   nat -> K, data handed over as dense lists `qdata`) and the three formulation models (Arc.v, Path.v,
   Seq.v: dense lists / functions over Z).  Generic part: lists <-> functions, the shape-checked
   builder with its explicit result, 0/1 sums.  The per-formulation parts are Compose_arc_facts.v,
   Compose_path_facts.v, Compose_seq_facts.v.   [C02, C03, C04 per formulation] *)
From Coq Require Import ZArith List Bool Lia PeanoNat.
From VQ Require Import Base LinAlg Penalty Penalty_facts.
Import ListNotations.
Open Scope Z_scope.

(* ====================================================================== *)
(* 1. the builder, generically: explicit result and identity on the result *)
(* ====================================================================== *)
Section ComposeGeneric.
  Variables (K : Type) (k0 k1 : K) (kadd kmul ksub : K -> K -> K) (kopp : K -> K).
  Hypothesis Kring : ring_theory k0 k1 kadd kmul ksub kopp (@eq K).
  Variable keqb : K -> K -> bool.
  Hypothesis keqb_eq : forall a b, keqb a b = true <-> a = b.

  (* what get_qubo assembles from dense data d (functions) *)
  Definition model_Qk (feas : bool) (rho : K) (d : qdata K) : mat K * K :=
    get_qubo K k0 k1 kadd kmul kopp (length (db d)) feas rho
             (mat_of K k0 (dA d), vec_of K k0 (db d), mat_of K k0 (dR d))
             (vec_of K k0 (dc d), mat_of K k0 (dQo d)).

  Theorem checked_ok_explicit n feas rho (d : qdata K) :
    dr d = k0 -> shapes_consistent K n d ->
    get_qubo_checked K k0 k1 kadd kmul kopp keqb feas rho d =
    Ok (n, mat_tab K n n (fst (model_Qk feas rho d)), snd (model_Qk feas rho d)).
  Proof.
    intros Hr [HA [HR [HQ Hc]]].
    unfold get_qubo_checked, model_Qk. rewrite HA, HR, HQ, Hc. cbn [fst snd].
    assert (E0 : keqb (dr d) k0 = true) by (apply keqb_eq; exact Hr).
    rewrite E0, Nat.eqb_refl, !natpair_eqb_refl. cbn [negb].
    destruct feas; [reflexivity | rewrite Nat.eqb_refl; reflexivity].
  Qed.

  (* the value of the RETURNED dense matrix on a binary vector *)
  Theorem checked_identity n feas rho (d : qdata K) :
    dr d = k0 -> shapes_consistent K n d ->
    exists Q k,
      get_qubo_checked K k0 k1 kadd kmul kopp keqb feas rho d = Ok (n, Q, k) /\
      length Q = n /\ (forall row, In row Q -> length row = n) /\
      forall x, binary K k0 k1 n x ->
        kadd (qf K k0 kadd kmul n (mat_of K k0 Q) x) k =
        kadd (if feas then k0
              else objective K k0 kadd kmul n (vec_of K k0 (dc d)) (mat_of K k0 (dQo d)) x)
             (kmul rho (penalty K k0 kadd kmul ksub (length (db d)) n
                                (mat_of K k0 (dA d)) (vec_of K k0 (db d)) (mat_of K k0 (dR d)) x)).
  Proof.
    intros Hr Hs.
    exists (mat_tab K n n (fst (model_Qk feas rho d))), (snd (model_Qk feas rho d)).
    destruct (length_mat_tab K n n (fst (model_Qk feas rho d))) as [L1 L2].
    split; [apply checked_ok_explicit; assumption|].
    split; [exact L1|]. split; [exact L2|].
    intros x Hb.
    rewrite (qf_ext K k0 kadd kmul n _ (fst (model_Qk feas rho d)) x)
      by (intros i j Hi Hj; apply nth_mat_tab; assumption).
    exact (get_qubo_identity K k0 k1 kadd kmul ksub kopp Kring n (length (db d))
             (mat_of K k0 (dA d)) (vec_of K k0 (db d)) (mat_of K k0 (dR d))
             (vec_of K k0 (dc d)) (mat_of K k0 (dQo d)) rho feas x Hb).
  Qed.
End ComposeGeneric.

(* change of carrier (e.g. Z -> Qc, Penalty.qdata_qc): shapes are untouched *)
Definition qdata_map {A B : Type} (f : A -> B) (d : qdata A) : qdata B :=
  mkQdata (map (map f) (dA d)) (dA_shape d) (map f (db d))
          (map (map f) (dR d)) (dR_shape d) (f (dr d))
          (map f (dc d)) (map (map f) (dQo d)) (dQo_shape d).

Lemma shapes_consistent_map {A B : Type} (f : A -> B) n (d : qdata A) :
  shapes_consistent A n d -> shapes_consistent B n (qdata_map f d).
Proof.
  intros [HA [HR [HQ Hc]]]. unfold shapes_consistent, qdata_map. cbn.
  rewrite !map_length. auto.
Qed.

(* the contents of a dense matrix match its reported shape *)
Definition dense_ok (sh : nat * nat) (M : list (list Z)) : Prop :=
  length M = fst sh /\ forall row, In row M -> length row = snd sh.

(* ====================================================================== *)
(* 2. lists <-> functions                                                  *)
(* ====================================================================== *)
Definition tab (n : nat) (x : vec Z) : list Z := vec_tab Z n x.      (* [x 0; ...; x (n-1)] *)
Definition binL (l : list Z) : Prop := Forall (fun v => v = 0 \/ v = 1) l.

Lemma tab_length n x : length (tab n x) = n.
Proof. unfold tab, vec_tab. rewrite map_length, seq_length. reflexivity. Qed.

Lemma tab_nth n x i : (i < n)%nat -> nth i (tab n x) 0 = x i.
Proof.
  intros Hi. unfold tab, vec_tab.
  rewrite (nth_indep _ 0 (x O)) by (rewrite map_length, seq_length; exact Hi).
  rewrite (map_nth x (seq 0 n) O i), seq_nth by exact Hi. reflexivity.
Qed.

Lemma vec_of_tab n x i : (i < n)%nat -> Zvec_of (tab n x) i = x i.
Proof. apply tab_nth. Qed.

Lemma tab_ext n x y : (forall i, (i < n)%nat -> x i = y i) -> tab n x = tab n y.
Proof.
  intros H. unfold tab, vec_tab. apply map_ext_in. intros i Hi. apply in_seq in Hi. apply H. lia.
Qed.

Lemma tab_vec_of l : tab (length l) (Zvec_of l) = l.
Proof.
  apply (nth_ext _ _ 0 0); [apply tab_length|].
  intros i Hi. rewrite tab_length in Hi. rewrite tab_nth by exact Hi. reflexivity.
Qed.

Lemma binL_tab n x : Zbinary n x -> binL (tab n x).
Proof.
  intros Hb. apply Forall_forall. intros v Hv. unfold tab, vec_tab in Hv.
  apply in_map_iff in Hv. destruct Hv as [i [<- Hi]]. apply in_seq in Hi. apply Hb. lia.
Qed.

Lemma binL_vec_of l : binL l -> Zbinary (length l) (Zvec_of l).
Proof.
  intros Hb i Hi. unfold binL in Hb. rewrite Forall_forall in Hb.
  apply Hb. unfold Zvec_of, vec_of. apply nth_In. exact Hi.
Qed.

Lemma Zbinary_ext n x y : (forall i, (i < n)%nat -> x i = y i) -> Zbinary n x -> Zbinary n y.
Proof. intros H Hb i Hi. rewrite <- H by exact Hi. apply Hb. exact Hi. Qed.

Lemma Zbinary_vec_of_tab n x : Zbinary n x -> Zbinary n (Zvec_of (tab n x)).
Proof. intros Hb. apply (Zbinary_ext n x); [|exact Hb]. intros i Hi. symmetry. apply vec_of_tab. exact Hi. Qed.

(* nth through a map, with different defaults *)
Lemma nth_map_dflt {A B} (f : A -> B) (l : list A) (da : A) (db : B) i :
  (i < length l)%nat -> nth i (map f l) db = f (nth i l da).
Proof.
  intros Hi. rewrite (nth_indep _ db (f da)) by (rewrite map_length; exact Hi). apply map_nth.
Qed.

(* ====================================================================== *)
(* 3. sums                                                                 *)
(* ====================================================================== *)
Lemma Zqf_zero n x : Zqf n (fun _ _ => 0) x = 0.
Proof. exact (qf_zero Z 0 1 Z.add Z.mul Z.sub Z.opp Zth n x). Qed.

Lemma Zqf_ext n M N x :
  (forall i j, (i < n)%nat -> (j < n)%nat -> M i j = N i j) -> Zqf n M x = Zqf n N x.
Proof. apply (qf_ext Z 0 Z.add Z.mul). Qed.

Lemma Zqf_ext_vec n M x y : (forall i, (i < n)%nat -> x i = y i) -> Zqf n M x = Zqf n M y.
Proof.
  intros H. unfold Zqf, qf. apply sumZn_ext; intros i Hi. apply sumZn_ext; intros j Hj.
  rewrite (H i Hi), (H j Hj). reflexivity.
Qed.

Lemma Zdot_ext_vec n c x y : (forall i, (i < n)%nat -> x i = y i) -> Zdot n c x = Zdot n c y.
Proof. intros H. unfold Zdot, dot. apply sumZn_ext; intros i Hi. rewrite (H i Hi). reflexivity. Qed.

Lemma Zmv_ext_vec n A x y r : (forall i, (i < n)%nat -> x i = y i) -> Zmv n A x r = Zmv n A y r.
Proof. intros H. unfold Zmv, mv. apply sumZn_ext; intros i Hi. rewrite (H i Hi). reflexivity. Qed.

Lemma Zqf_zero_mat n M x : (forall i j, M i j = 0) -> Zqf n M x = 0.
Proof. intros H. rewrite (Zqf_ext n M (fun _ _ => 0)); [apply Zqf_zero | intros; apply H]. Qed.

Lemma R_nonneg_zero_mat n M : (forall i j, M i j = 0) -> R_nonneg n M.
Proof. intros H i j _ _. rewrite H. lia. Qed.

Lemma coeff_sum_zero_mat n c M :
  (forall i j, M i j = 0) -> coeff_sum n c M = sumZn n (fun i => Z.abs (c i)).
Proof.
  intros H. rewrite <- coeff_sum_linear. unfold coeff_sum. f_equal.
  apply sumZn_ext; intros i _. apply sumZn_ext; intros j _. rewrite H. reflexivity.
Qed.

(* the objective with a zero quadratic part is the linear part *)
Lemma Zobjective_linear n c M x : (forall i j, M i j = 0) -> Zobjective n c M x = Zdot n c x.
Proof. intros H. unfold Zobjective, objective. fold (Zqf n M x). rewrite Zqf_zero_mat by exact H. unfold Zdot. lia. Qed.

(* with R = 0 the feasible set is  A x = b *)
Lemma Zfeasible_zero_R m n A b R x :
  (forall i j, R i j = 0) ->
  (Zfeasible m n A b R x <-> forall k, (k < m)%nat -> Zmv n A x k = b k).
Proof.
  intros H. unfold Zfeasible. rewrite Zqf_zero_mat by exact H. split; [intros [H1 _]; exact H1 | intros H1; split; [exact H1 | reflexivity]].
Qed.

(* a 0/1-valued family sums to one iff exactly one member is one *)
Lemma sumZn_01_one n f :
  (forall i, (i < n)%nat -> f i = 0 \/ f i = 1) ->
  (sumZn n f = 1 <->
   exists j, (j < n)%nat /\ f j = 1 /\ forall j', (j' < n)%nat -> f j' = 1 -> j' = j).
Proof.
  induction n as [|n IH]; intros H01.
  - cbn [sum_n]. split; [discriminate | intros [j [Hj _]]; lia].
  - assert (H01' : forall i, (i < n)%nat -> f i = 0 \/ f i = 1) by (intros; apply H01; lia).
    assert (Hnn : forall i, (i < n)%nat -> 0 <= f i) by (intros i Hi; destruct (H01' i Hi); lia).
    assert (Hs := sumZn_nonneg n f Hnn).
    rewrite sumZn_S. specialize (IH H01').
    destruct (H01 n ltac:(lia)) as [En|En]; rewrite En.
    + split.
      * intros E. assert (E1 : sumZn n f = 1) by lia. apply IH in E1.
        destruct E1 as [j [Hj [Fj Hu]]]. exists j. split; [lia|]. split; [exact Fj|].
        intros j' Hj' Fj'. destruct (Nat.eq_dec j' n) as [->|Hne]; [lia|]. apply Hu; [lia | exact Fj'].
      * intros [j [Hj [Fj Hu]]]. assert (Hjn : j <> n) by (intros ->; lia).
        assert (E1 : sumZn n f = 1).
        { apply IH. exists j. split; [lia|]. split; [exact Fj|]. intros j' Hj' Fj'. apply Hu; [lia | exact Fj']. }
        lia.
    + split.
      * intros E. assert (E0 : sumZn n f = 0) by lia.
        assert (Hz := proj1 (sumZn_zero_iff n f Hnn) E0).
        exists n. split; [lia|]. split; [exact En|].
        intros j' Hj' Fj'. destruct (Nat.eq_dec j' n) as [->|Hne]; [reflexivity|].
        rewrite Hz in Fj' by lia. discriminate.
      * intros [j [Hj [Fj Hu]]]. assert (Ej : n = j) by (apply Hu; [lia | exact En]). subst j.
        assert (E0 : sumZn n f = 0).
        { apply (sumZn_zero_iff n f Hnn). intros i Hi.
          destruct (H01' i Hi) as [E|E]; [exact E|]. assert (i = n) by (apply Hu; [lia | exact E]). lia. }
        lia.
Qed.

(* sums over lists, three spellings *)
Lemma sumZ_le_map {A} (f g : A -> Z) l :
  (forall a, In a l -> f a <= g a) -> sumZ (map f l) <= sumZ (map g l).
Proof. apply sumZ_map_le. Qed.

Lemma length_flat_map_le {A B} (f : A -> list B) (l : list A) (c : nat) :
  (forall a, In a l -> (length (f a) <= c)%nat) -> (length (flat_map f l) <= length l * c)%nat.
Proof.
  induction l as [|a l IH]; intros H; [cbn; lia|].
  cbn [flat_map length]. rewrite app_length.
  assert (length (f a) <= c)%nat by (apply H; left; reflexivity).
  assert (length (flat_map f l) <= length l * c)%nat by (apply IH; intros; apply H; right; assumption).
  lia.
Qed.

Lemma map_flat_map' {A B C} (h : B -> C) (f : A -> list B) l :
  map h (flat_map f l) = flat_map (fun x => map h (f x)) l.
Proof. induction l as [|x l IH]; cbn [flat_map map]; [reflexivity|]. rewrite map_app, IH. reflexivity. Qed.

(* ====================================================================== *)
(* 4. sparse.csr_array((n,n)) : the n x n zero matrix                      *)
(* ====================================================================== *)
Definition zero_rows (n : nat) : list (list Z) := repeat (repeat 0 n) n.

Lemma nth_repeat_or {A} (x d : A) m i : nth i (repeat x m) d = x \/ nth i (repeat x m) d = d.
Proof. revert i; induction m as [|m IH]; intros [|i]; cbn; auto. Qed.

Lemma zero_rows_entry n i j : Zmat_of (zero_rows n) i j = 0.
Proof.
  unfold Zmat_of, mat_of, zero_rows.
  destruct (nth_repeat_or (repeat 0 n) [] n i) as [-> | ->].
  - destruct (nth_repeat_or 0 0 n j) as [-> | ->]; reflexivity.
  - destruct j; reflexivity.
Qed.

Lemma zero_rows_dense n : dense_ok (n, n) (zero_rows n).
Proof.
  unfold dense_ok, zero_rows. cbn [fst snd]. split; [apply repeat_length|].
  intros row Hin. apply repeat_spec in Hin. subst row. apply repeat_length.
Qed.

(* sumZ (fold_right) is invariant under permutation *)
From Coq Require Import Sorting.Permutation.
Lemma sumZ_perm l l' : Permutation l l' -> sumZ l = sumZ l'.
Proof.
  unfold sumZ. induction 1 as [|x l l' _ IH|x y l|l l' l'' _ IH1 _ IH2]; cbn [fold_right] in *; lia.
Qed.

Lemma NoDup_map_inj_in {A B} (f : A -> B) (l : list A) :
  NoDup l -> (forall x y, In x l -> In y l -> f x = f y -> x = y) -> NoDup (map f l).
Proof.
  induction l as [|a l IH]; intros Hnd Hinj; [constructor|].
  inversion Hnd as [|? ? Hn Hnd']; subst. cbn [map]. constructor.
  - intros Hin. apply in_map_iff in Hin. destruct Hin as [y [Ey Hy]].
    assert (y = a) by (apply Hinj; [right; exact Hy | left; reflexivity | exact Ey]). subst y. contradiction.
  - apply IH; [exact Hnd'|]. intros x y Hx Hy. apply Hinj; right; assumption.
Qed.

(* decidable form of binL, for concrete vectors *)
Definition binLb (l : list Z) : bool := forallb (fun v => (v =? 0) || (v =? 1)) l.
Lemma binLb_sound l : binLb l = true -> binL l.
Proof.
  unfold binLb, binL. rewrite forallb_forall, Forall_forall. intros H v Hv. specialize (H v Hv).
  apply orb_true_iff in H. destruct H as [H|H]; apply Z.eqb_eq in H; auto.
Qed.
